(** Proofs about the owner / arena model (C08). *)
From Coq Require Import List ZArith Bool Arith Lia Permutation.
From LV Require Import Reactive.RxUtil Reactive.Owner.
Import ListNotations.

(** * generic list facts *)
Lemma Forall2_refl {A} (R : A -> A -> Prop) : (forall x, R x x) -> forall l, Forall2 R l l.
Proof. intros H l. induction l; constructor; auto. Qed.

Lemma Forall2_trans {A} (R : A -> A -> Prop) :
  (forall x y z, R x y -> R y z -> R x z) ->
  forall l1 l2 l3, Forall2 R l1 l2 -> Forall2 R l2 l3 -> Forall2 R l1 l3.
Proof.
  intros HT l1 l2 l3 H12. revert l3. induction H12; intros l3 H23; inversion H23; subst; constructor; eauto.
Qed.

Lemma Forall2_len {A} (R : A -> A -> Prop) l l' : Forall2 R l l' -> length l = length l'.
Proof. induction 1; cbn; auto. Qed.

Lemma Forall2_nth_l {A} (R : A -> A -> Prop) l l' : Forall2 R l l' ->
  forall i a, nth_error l i = Some a -> exists b, nth_error l' i = Some b /\ R a b.
Proof.
  induction 1; intros [|i] a0 Hn; cbn in *; try discriminate.
  - inversion Hn; subst. eauto.
  - eauto.
Qed.

Lemma Forall2_nth_r {A} (R : A -> A -> Prop) l l' : Forall2 R l l' ->
  forall i b, nth_error l' i = Some b -> exists a, nth_error l i = Some a /\ R a b.
Proof.
  induction 1; intros [|i] b0 Hn; cbn in *; try discriminate.
  - inversion Hn; subst. eauto.
  - eauto.
Qed.

Lemma Forall2_upd {A} (R : A -> A -> Prop) (f : A -> A) :
  (forall x, R x x) -> forall l i, (forall x, nth_error l i = Some x -> R x (f x)) ->
  Forall2 R l (upd i f l).
Proof.
  intros Hr l. induction l as [|y l IH]; intros [|i] H; cbn.
  - constructor.
  - constructor.
  - constructor; [apply H; reflexivity|apply Forall2_refl, Hr].
  - constructor; [apply Hr|apply IH; exact H].
Qed.

(** * monotonicity of the release cascade *)
Definition gone (ow : owner) : Prop :=
  o_children ow = [] /\ o_nodes ow = [] /\ o_cleanups ow = [].

(** [b] is [a], or [a] after its lists were taken (and possibly after its last reference went) *)
Definition ow_le (a b : owner) : Prop :=
  b = a \/ (gone b /\ o_parent b = o_parent a /\ (o_alive b = true -> o_alive a = true)).
(** a slot only changes by a removal: the version grows and the value is gone *)
Definition slot_le (a b : slot) : Prop :=
  b = a \/ (s_item b = None /\ s_ver a < s_ver b).

Lemma ow_le_refl a : ow_le a a. Proof. left; reflexivity. Qed.
Lemma ow_le_trans a b c : ow_le a b -> ow_le b c -> ow_le a c.
Proof.
  intros [->|(Hg & Hp & Ha)] [->|(Hg' & Hp' & Ha')]; try (left; reflexivity).
  - right; auto.
  - right; auto.
  - right. repeat split; try apply Hg'; try congruence. auto.
Qed.
Lemma slot_le_refl a : slot_le a a. Proof. left; reflexivity. Qed.
Lemma slot_le_trans a b c : slot_le a b -> slot_le b c -> slot_le a c.
Proof.
  intros [->|(Hi & Hv)] [->|(Hi' & Hv')]; try (left; reflexivity).
  - right; auto.
  - right; auto.
  - right. split; [auto|lia].
Qed.

Record mono (c c' : core) : Prop := {
  mo_owners : Forall2 ow_le (owners c) (owners c');
  mo_slots : Forall2 slot_le (slots c) (slots c');
  mo_cid : next_cid c' = next_cid c;
  mo_unowned : unowned c' = unowned c;
  mo_err : err c = true -> err c' = true
}.

Lemma mono_refl c : mono c c.
Proof. constructor; auto; apply Forall2_refl; [apply ow_le_refl|apply slot_le_refl]. Qed.
Lemma mono_trans a b c : mono a b -> mono b c -> mono a c.
Proof.
  intros [] []. constructor; try congruence; auto.
  - eapply Forall2_trans; eauto using ow_le_trans.
  - eapply Forall2_trans; eauto using slot_le_trans.
Qed.

Lemma mono_fold {X} (g : X -> core -> core) xs :
  (forall x c, mono c (g x c)) -> forall c, mono c (fold_left (fun c x => g x c) xs c).
Proof.
  intros H. induction xs as [|x xs IH]; intros c; cbn; [apply mono_refl|].
  eapply mono_trans; [apply H|apply IH].
Qed.

Lemma mono_clear o dead c : mono c (upd_owner o (clear_owner dead) c).
Proof.
  constructor; cbn; auto; [|apply Forall2_refl, slot_le_refl].
  apply Forall2_upd; [apply ow_le_refl|]. intros ow _. right. unfold clear_owner, gone. cbn.
  repeat split; auto. destruct dead; [discriminate|auto].
Qed.

Lemma mono_add_log c l : mono c (add_log c l).
Proof. constructor; cbn; auto; apply Forall2_refl; [apply ow_le_refl|apply slot_le_refl]. Qed.

Lemma mono_set_err c : mono c (set_err c).
Proof. constructor; cbn; auto; apply Forall2_refl; [apply ow_le_refl|apply slot_le_refl]. Qed.

Lemma mono_remove k c : mono c (snd (remove k c)).
Proof.
  unfold remove. destruct (get c k) eqn:Hg; cbn; [|apply mono_refl].
  constructor; cbn; auto; [apply Forall2_refl, ow_le_refl|].
  apply Forall2_upd; [apply slot_le_refl|]. intros s _. right. cbn. split; [reflexivity|lia].
Qed.

Lemma exec_mono f : forall j c, mono c (exec f j c).
Proof.
  induction f as [|f IH]; intros j c; [apply mono_set_err|].
  assert (Hrel : forall dead o ow,
    mono c (fold_left (fun c k => exec f (JRemove k) c) (o_nodes ow)
              (add_log (fold_left (fun c ch => exec f (JCleanup ch) c) (o_children ow)
                          (upd_owner o (clear_owner dead) c))
                       (rev (map LClean (o_cleanups ow)))))).
  { intros dead o ow.
    eapply mono_trans; [apply mono_clear|].
    eapply mono_trans; [apply (mono_fold (fun ch c => exec f (JCleanup ch) c)); intros; apply IH|].
    eapply mono_trans; [apply mono_add_log|].
    apply (mono_fold (fun k c => exec f (JRemove k) c)); intros; apply IH. }
  destruct j as [o|o|k]; cbn [exec].
  - destruct (nth_error (owners c) o) as [ow|]; [|apply mono_refl].
    destruct (o_alive ow); [apply Hrel|apply mono_refl].
  - destruct (nth_error (owners c) o) as [ow|]; [|apply mono_refl].
    destruct (o_alive ow); [apply Hrel|apply mono_refl].
  - pose proof (mono_remove k c) as Hm. destruct (remove k c) as [[it|] c'']; cbn in Hm; [|exact Hm].
    destruct it; try exact Hm. eapply mono_trans; [exact Hm|apply IH].
Qed.

(** ** consequences of monotonicity *)
Lemma mono_owner c c' p a : mono c c' -> nth_error (owners c) p = Some a ->
  exists b, nth_error (owners c') p = Some b /\ ow_le a b.
Proof. intros M. exact (Forall2_nth_l _ _ _ (mo_owners _ _ M) p a). Qed.

Lemma mono_owner_r c c' p b : mono c c' -> nth_error (owners c') p = Some b ->
  exists a, nth_error (owners c) p = Some a /\ ow_le a b.
Proof. intros M. exact (Forall2_nth_r _ _ _ (mo_owners _ _ M) p b). Qed.

Lemma mono_len c c' : mono c c' -> length (owners c') = length (owners c).
Proof. intros M. symmetry. eapply Forall2_len, mo_owners, M. Qed.

Lemma mono_get c c' k : mono c c' -> get c' k = get c k \/ get c' k = None.
Proof.
  intros M. unfold get. destruct (nth_error (slots c) (fst k)) as [a|] eqn:Ha.
  - destruct (Forall2_nth_l _ _ _ (mo_slots _ _ M) _ _ Ha) as (b & Hb & [->|(Hi & Hv)]).
    + left. rewrite Hb. reflexivity.
    + right. rewrite Hb. rewrite Hi. destruct (s_ver b =? snd k); reflexivity.
  - destruct (nth_error (slots c') (fst k)) as [b|] eqn:Hb; [|left; reflexivity].
    destruct (Forall2_nth_r _ _ _ (mo_slots _ _ M) _ _ Hb) as (a & Ha' & _). congruence.
Qed.

Lemma mono_get_none c c' k : mono c c' -> get c k = None -> get c' k = None.
Proof. intros M H. destruct (mono_get c c' k M) as [E|E]; congruence. Qed.

Lemma mono_alive c c' p : mono c c' -> alive c' p = true -> alive c p = true.
Proof.
  intros M. unfold alive. destruct (nth_error (owners c') p) as [b|] eqn:Hb; [|discriminate].
  destruct (mono_owner_r _ _ _ _ M Hb) as (a & Ha & [->|(_ & _ & Hal)]); rewrite Ha; auto.
Qed.

Definition gone_at (c : core) (q : nat) : Prop :=
  exists b, nth_error (owners c) q = Some b /\ gone b.

Lemma mono_gone_at c c' q : mono c c' -> gone_at c q -> gone_at c' q.
Proof.
  intros M (a & Ha & Hg). destruct (mono_owner _ _ _ _ M Ha) as (b & Hb & [Heq|(Hg' & _)]);
    exists b; subst; auto.
Qed.

(** an owner that was alive and no longer is has been emptied *)
Lemma mono_killed c c' q : mono c c' -> alive c q = true -> alive c' q = false -> gone_at c' q.
Proof.
  intros M Ha Hd. unfold alive in *. destruct (nth_error (owners c) q) as [a|] eqn:Hq; [|discriminate].
  destruct (mono_owner _ _ _ _ M Hq) as (b & Hb & [->|(Hg & _)]).
  - rewrite Hb in Hd. congruence.
  - exists b. auto.
Qed.

Lemma err_sticky f j c : err c = true -> err (exec f j c) = true.
Proof. intros H. exact (mo_err _ _ (exec_mono f j c) H). Qed.

Lemma err_fold {X} (g : X -> core -> core) xs :
  (forall x c, mono c (g x c)) -> forall c,
  err (fold_left (fun c x => g x c) xs c) = false -> err c = false.
Proof.
  intros H c He. destruct (err c) eqn:E; [|reflexivity].
  rewrite (mo_err _ _ (mono_fold g xs H c) E) in He. discriminate.
Qed.

(** * closure: whatever the cascade empties, it empties together with its children and keys *)
Definition closure (c c' : core) : Prop :=
  forall p a b, nth_error (owners c) p = Some a -> nth_error (owners c') p = Some b -> gone b ->
    (forall q, In q (o_children a) -> alive c q = true -> gone_at c' q) /\
    (forall k, In k (o_nodes a) -> get c' k = None).

Lemma closure_same_owners c c' : owners c' = owners c -> (forall k, get c' k = get c k \/ get c' k = None) ->
  closure c c'.
Proof.
  intros Ho _ p a b Ha Hb (Hc & Hn & _). rewrite Ho, Ha in Hb. inversion Hb; subst b.
  rewrite Hc, Hn. split; intros ? [].
Qed.

Lemma closure_refl c : closure c c.
Proof. apply closure_same_owners; auto. Qed.

Lemma closure_trans c c1 c2 :
  mono c c1 -> mono c1 c2 -> closure c c1 -> closure c1 c2 -> closure c c2.
Proof.
  intros M1 M2 C1 C2 p a b2 Ha Hb2 Hg2.
  destruct (mono_owner _ _ _ _ M1 Ha) as (b1 & Hb1 & Hle).
  destruct Hle as [->|(Hg1 & _)].
  - destruct (C2 p a b2 Hb1 Hb2 Hg2) as (Hk & Hn). split; [|exact Hn].
    intros q Hq Hal. destruct (alive c1 q) eqn:Hal1; [auto|].
    eapply mono_gone_at; [exact M2|]. eapply mono_killed; eauto.
  - destruct (C1 p a b1 Ha Hb1 Hg1) as (Hk & Hn). split.
    + intros q Hq Hal. eapply mono_gone_at; [exact M2|]. auto.
    + intros k Hk'. eapply mono_get_none; [exact M2|]. auto.
Qed.

Lemma closure_fold {X} (g : X -> core -> core) xs :
  (forall x c, mono c (g x c)) ->
  (forall x c, In x xs -> err (g x c) = false -> closure c (g x c)) ->
  forall c, err (fold_left (fun c x => g x c) xs c) = false ->
            closure c (fold_left (fun c x => g x c) xs c).
Proof.
  intros Hm. induction xs as [|x xs IH]; intros Hc c He; cbn in *; [apply closure_refl|].
  assert (He1 : err (g x c) = false) by (eapply err_fold; eauto).
  eapply closure_trans; [apply Hm|apply mono_fold, Hm| |].
  - apply Hc; auto.
  - apply IH; auto.
Qed.

(** after the fold over the children, each of them that was alive is emptied *)
Lemma fold_cleanup_gone f xs : forall c q,
  In q xs -> alive c q = true ->
  err (fold_left (fun c ch => exec (S f) (JCleanup ch) c) xs c) = false ->
  gone_at (fold_left (fun c ch => exec (S f) (JCleanup ch) c) xs c) q.
Proof.
  induction xs as [|x xs IH]; intros c q Hin Hal He; [destruct Hin|].
  cbn [fold_left] in *.
  set (c1 := exec (S f) (JCleanup x) c) in *.
  assert (M1 : mono c c1) by apply exec_mono.
  assert (Mr : mono c1 (fold_left (fun c ch => exec (S f) (JCleanup ch) c) xs c1))
    by (apply (mono_fold (fun ch c => exec (S f) (JCleanup ch) c)); intros; apply exec_mono).
  destruct (alive c1 q) eqn:Hal1.
  - destruct Hin as [->|Hin]; [|apply IH; auto].
    (* q itself was just cleaned *)
    eapply mono_gone_at; [exact Mr|].
    unfold alive in Hal. destruct (nth_error (owners c) q) as [ow|] eqn:Hq; [|discriminate].
    subst c1. cbn [exec]. rewrite Hq, Hal.
    set (c0 := upd_owner q (clear_owner false) c).
    assert (G0 : gone_at c0 q).
    { exists (clear_owner false ow). split; [|repeat split].
      unfold c0, upd_owner. cbn. rewrite nth_error_upd_same, Hq. reflexivity. }
    eapply mono_gone_at; [|exact G0].
    eapply mono_trans; [apply (mono_fold (fun ch c => exec f (JCleanup ch) c)); intros; apply exec_mono|].
    eapply mono_trans; [apply mono_add_log|].
    apply (mono_fold (fun k c => exec f (JRemove k) c)); intros; apply exec_mono.
  - eapply mono_gone_at; [exact Mr|]. eapply mono_killed; eauto.
Qed.

Lemma get_after_remove k c : get (snd (remove k c)) k = None.
Proof.
  unfold remove. destruct (get c k) eqn:Hg; cbn; [|exact Hg].
  unfold get in *. cbn. destruct (nth_error (slots c) (fst k)) as [s|] eqn:Hs; [|discriminate].
  rewrite nth_error_upd_same, Hs. cbn [option_map s_ver s_item fst snd].
  destruct (S (s_ver s) =? snd k); reflexivity.
Qed.

Lemma exec_remove_none f k c : get (exec (S f) (JRemove k) c) k = None.
Proof.
  cbn [exec]. pose proof (get_after_remove k c) as H.
  destruct (remove k c) as [[it|] c'']; cbn in H; [|exact H].
  destruct it; try exact H. eapply mono_get_none; [apply exec_mono|exact H].
Qed.

Lemma fold_remove_none f xs : forall c k, In k xs ->
  get (fold_left (fun c k => exec (S f) (JRemove k) c) xs c) k = None.
Proof.
  induction xs as [|x xs IH]; intros c k Hin; [destruct Hin|]. cbn [fold_left].
  destruct Hin as [->|Hin]; [|apply IH; exact Hin].
  eapply mono_get_none.
  - apply (mono_fold (fun k c => exec (S f) (JRemove k) c)); intros; apply exec_mono.
  - apply exec_remove_none.
Qed.

Lemma exec_closure f : forall j c, err (exec f j c) = false -> closure c (exec f j c).
Proof.
  induction f as [|f IH]; intros j c He; [cbn in He; discriminate|].
  (* the shared body of JCleanup / JDrop *)
  assert (Hrel : forall dead o ow, nth_error (owners c) o = Some ow -> o_alive ow = true ->
    let c1 := upd_owner o (clear_owner dead) c in
    let c2 := fold_left (fun c ch => exec f (JCleanup ch) c) (o_children ow) c1 in
    let c3 := add_log c2 (rev (map LClean (o_cleanups ow))) in
    let c4 := fold_left (fun c k => exec f (JRemove k) c) (o_nodes ow) c3 in
    err c4 = false -> closure c c4).
  { intros dead o ow Ho Hal c1 c2 c3 c4 He4.
    assert (M1 : mono c c1) by apply mono_clear.
    assert (M12 : mono c1 c2)
      by (apply (mono_fold (fun ch c => exec f (JCleanup ch) c)); intros; apply exec_mono).
    assert (M23 : mono c2 c3) by apply mono_add_log.
    assert (M34 : mono c3 c4)
      by (apply (mono_fold (fun k c => exec f (JRemove k) c)); intros; apply exec_mono).
    assert (He3 : err c3 = false)
      by (eapply (err_fold (fun k c => exec f (JRemove k) c)); [intros; apply exec_mono|exact He4]).
    assert (He2 : err c2 = false) by exact He3.
    assert (C12 : closure c1 c2)
      by (apply (closure_fold (fun ch c => exec f (JCleanup ch) c));
          [intros; apply exec_mono|intros; apply IH; auto|exact He2]).
    assert (C23 : closure c2 c3) by (apply closure_same_owners; auto).
    assert (C34 : closure c3 c4)
      by (apply (closure_fold (fun k c => exec f (JRemove k) c));
          [intros; apply exec_mono|intros; apply IH; auto|exact He4]).
    assert (C14 : closure c1 c4).
    { eapply closure_trans; [exact M12|eapply mono_trans; eauto|exact C12|].
      eapply closure_trans; eauto. }
    assert (M14 : mono c1 c4) by (eapply mono_trans; [exact M12|eapply mono_trans; eauto]).
    intros p a b Ha Hb Hg. destruct (Nat.eq_dec p o) as [->|Hne].
    2: { assert (Ha1 : nth_error (owners c1) p = Some a).
         { unfold c1, upd_owner. cbn. rewrite nth_error_upd_other; auto. }
         destruct (C14 p a b Ha1 Hb Hg) as (Hkids & Hkeys). split; [|exact Hkeys].
         intros q Hq Halq. destruct (alive c1 q) eqn:Halq1; [auto|].
         eapply mono_gone_at; [exact M14|]. eapply mono_killed; eauto. }
    rewrite Ho in Ha. inversion Ha; subst a.
    destruct f as [|f'].
    { (* no fuel left for the children / nodes: then there are none, or err is set *)
      destruct (o_children ow) as [|x xs] eqn:Ech.
      - destruct (o_nodes ow) as [|k ks] eqn:Enk; [split; intros ? []|].
        exfalso. subst c4. cbn [fold_left] in He4.
        apply (err_fold (fun k c => exec 0 (JRemove k) c)) in He4; [|intros; apply exec_mono].
        cbn in He4. discriminate.
      - exfalso. subst c3 c2. cbn [fold_left] in He2.
        change (err (fold_left (fun c ch => exec 0 (JCleanup ch) c) xs (exec 0 (JCleanup x) c1)) = false) in He2.
        apply (err_fold (fun ch c => exec 0 (JCleanup ch) c)) in He2; [|intros; apply exec_mono].
        cbn in He2. discriminate. }
    split.
    + intros q Hq Halq. destruct (Nat.eq_dec q o) as [->|Hqo].
      * exists b. auto.
      * assert (Halq1 : alive c1 q = true).
        { unfold alive, c1, upd_owner in *. cbn. rewrite nth_error_upd_other; auto. }
        eapply mono_gone_at; [eapply mono_trans; [exact M23|exact M34]|].
        apply fold_cleanup_gone; auto.
    + intros k Hk. apply fold_remove_none. exact Hk. }
  destruct j as [o|o|k]; cbn [exec] in *.
  - destruct (nth_error (owners c) o) as [ow|] eqn:Ho; [|apply closure_refl].
    destruct (o_alive ow) eqn:Hal; [|apply closure_refl]. apply (Hrel false o ow); auto.
  - destruct (nth_error (owners c) o) as [ow|] eqn:Ho; [|apply closure_refl].
    destruct (o_alive ow) eqn:Hal; [|apply closure_refl]. apply (Hrel true o ow); auto.
  - pose proof (mono_remove k c) as Hm.
    assert (Hc : closure c (snd (remove k c))).
    { apply closure_same_owners.
      - unfold remove. destruct (get c k); reflexivity.
      - intros k'. apply mono_get. exact Hm. }
    destruct (remove k c) as [[it|] c'']; cbn in Hm, Hc; [|exact Hc].
    destruct it; try exact Hc.
    eapply closure_trans; [exact Hm|apply exec_mono|exact Hc|apply IH; exact He].
Qed.

(** * conservation of cleanups: the cascade only moves registered cleanups into the log *)
Fixpoint cids (l : list lent) : list nat :=
  match l with
  | [] => []
  | LClean c :: r => c :: cids r
  | _ :: r => cids r
  end.
Definition pending (c : core) : list nat := concat (map o_cleanups (owners c)).

Lemma cids_app l1 l2 : cids (l1 ++ l2) = cids l1 ++ cids l2.
Proof. induction l1 as [|[] l1 IH]; cbn; congruence. Qed.
Lemma cids_map_clean l : cids (map LClean l) = l.
Proof. induction l; cbn; congruence. Qed.
Lemma cids_rev_clean l : cids (rev (map LClean l)) = rev l.
Proof. rewrite <- map_rev. apply cids_map_clean. Qed.

Lemma pending_clear (l : list owner) dead : forall o ow, nth_error l o = Some ow ->
  Permutation (concat (map o_cleanups l))
              (o_cleanups ow ++ concat (map o_cleanups (upd o (clear_owner dead) l))).
Proof.
  induction l as [|x l IH]; intros [|o] ow Hn; cbn in *; try discriminate.
  - inversion Hn; subst. reflexivity.
  - rewrite (IH o ow Hn) at 1. rewrite !app_assoc. apply Permutation_app_tail, Permutation_app_comm.
Qed.

Definition conserve (c c' : core) : Prop :=
  Permutation (cids (clog c') ++ pending c') (cids (clog c) ++ pending c) /\
  exists l, clog c' = l ++ clog c.

Lemma conserve_refl c : conserve c c.
Proof. split; [reflexivity|exists []; reflexivity]. Qed.
Lemma conserve_trans a b c : conserve a b -> conserve b c -> conserve a c.
Proof.
  intros [P1 (l1 & E1)] [P2 (l2 & E2)]. split; [etransitivity; eauto|].
  exists (l2 ++ l1). rewrite E2, E1, app_assoc. reflexivity.
Qed.
Lemma conserve_fold {X} (g : X -> core -> core) xs :
  (forall x c, conserve c (g x c)) -> forall c, conserve c (fold_left (fun c x => g x c) xs c).
Proof.
  intros H. induction xs as [|x xs IH]; intros c; cbn; [apply conserve_refl|].
  eapply conserve_trans; [apply H|apply IH].
Qed.

Lemma exec_conserve f : forall j c, conserve c (exec f j c).
Proof.
  induction f as [|f IH]; intros j c; [split; [reflexivity|exists []; reflexivity]|].
  assert (Hrel : forall dead o ow, nth_error (owners c) o = Some ow ->
    conserve c (fold_left (fun c k => exec f (JRemove k) c) (o_nodes ow)
              (add_log (fold_left (fun c ch => exec f (JCleanup ch) c) (o_children ow)
                          (upd_owner o (clear_owner dead) c))
                       (rev (map LClean (o_cleanups ow)))))).
  { intros dead o ow Ho.
    set (c1 := upd_owner o (clear_owner dead) c).
    set (c2 := fold_left (fun c ch => exec f (JCleanup ch) c) (o_children ow) c1).
    set (c3 := add_log c2 (rev (map LClean (o_cleanups ow)))).
    assert (K12 : conserve c1 c2)
      by (apply (conserve_fold (fun ch c => exec f (JCleanup ch) c)); intros; apply IH).
    assert (K13 : Permutation (cids (clog c3) ++ pending c3) (cids (clog c) ++ pending c) /\
                  exists l, clog c3 = l ++ clog c).
    { destruct K12 as [P12 (l12 & E12)]. split.
      - unfold c3. cbn [add_log clog]. rewrite cids_app, cids_rev_clean.
        change (pending (add_log c2 (rev (map LClean (o_cleanups ow))))) with (pending c2).
        change (clog c1) with (clog c) in P12.
        rewrite <- app_assoc.
        transitivity (rev (o_cleanups ow) ++ (cids (clog c) ++ pending c1)).
        { apply Permutation_app_head. exact P12. }
        transitivity (o_cleanups ow ++ (cids (clog c) ++ pending c1)).
        { apply Permutation_app_tail. symmetry. apply Permutation_rev. }
        transitivity (cids (clog c) ++ (o_cleanups ow ++ pending c1)).
        { rewrite !app_assoc. apply Permutation_app_tail. apply Permutation_app_comm. }
        apply Permutation_app_head. symmetry. apply (pending_clear (owners c) dead o ow Ho).
      - exists (rev (map LClean (o_cleanups ow)) ++ l12). unfold c3. cbn [add_log clog].
        rewrite E12. change (clog c1) with (clog c). rewrite app_assoc. reflexivity. }
    eapply conserve_trans; [exact K13|].
    apply (conserve_fold (fun k c => exec f (JRemove k) c)); intros; apply IH. }
  destruct j as [o|o|k]; cbn [exec].
  - destruct (nth_error (owners c) o) as [ow|] eqn:Ho; [|apply conserve_refl].
    destruct (o_alive ow); [apply Hrel; auto|apply conserve_refl].
  - destruct (nth_error (owners c) o) as [ow|] eqn:Ho; [|apply conserve_refl].
    destruct (o_alive ow); [apply Hrel; auto|apply conserve_refl].
  - assert (Hc : conserve c (snd (remove k c))).
    { unfold remove. destruct (get c k); cbn; (split; [reflexivity|exists []; reflexivity]). }
    destruct (remove k c) as [[it|] c'']; cbn in Hc; [|exact Hc].
    destruct it; try exact Hc. eapply conserve_trans; [exact Hc|apply IH].
Qed.

(** * structural well-formedness and fuel *)
Record wfs (c : core) : Prop := {
  ws_child : forall p ow q, nth_error (owners c) p = Some ow -> In q (o_children ow) ->
             p < q /\ q < length (owners c);
  (* a memo registered with an owner has its own owner among that owner's children *)
  ws_memo : forall p ow k m mo, nth_error (owners c) p = Some ow -> In k (o_nodes ow) ->
            get c k = Some (IMemo m mo) -> In mo (o_children ow)
}.

Lemma wfs_mono c c' : mono c c' -> wfs c -> wfs c'.
Proof.
  intros M [Hc Hm]. constructor.
  - intros p b q Hb Hq. destruct (mono_owner_r _ _ _ _ M Hb) as (a & Ha & [->|((Hg & _) & _)]).
    + rewrite (mono_len _ _ M). eauto.
    + rewrite Hg in Hq. destruct Hq.
  - intros p b k m mo Hb Hk Hg. destruct (mono_owner_r _ _ _ _ M Hb) as (a & Ha & [->|((_ & Hg' & _) & _)]).
    + destruct (mono_get c c' k M) as [E|E]; [|congruence]. rewrite E in Hg. eauto.
    + rewrite Hg' in Hk. destruct Hk.
Qed.

Definition need (c : core) (j : job) : nat :=
  match j with
  | JCleanup o | JDrop o => S (2 * (length (owners c) - o))
  | JRemove k => match get c k with
                 | Some (IMemo _ mo) => S (S (2 * (length (owners c) - mo)))
                 | _ => 1
                 end
  end.

Lemma exec_no_err f : forall j c, wfs c -> err c = false -> need c j <= f -> err (exec f j c) = false.
Proof.
  induction f as [|f IH]; intros j c W He Hn.
  { destruct j; cbn in Hn; try lia. destruct (get c k) as [[]|]; lia. }
  assert (Hrel : forall dead o ow, nth_error (owners c) o = Some ow -> 2 * (length (owners c) - o) <= f ->
    err (fold_left (fun c k => exec f (JRemove k) c) (o_nodes ow)
           (add_log (fold_left (fun c ch => exec f (JCleanup ch) c) (o_children ow)
                       (upd_owner o (clear_owner dead) c))
                    (rev (map LClean (o_cleanups ow))))) = false).
  { intros dead o ow Ho Hf.
    assert (Hlt : o < length (owners c)) by (apply nth_error_Some; congruence).
    set (c1 := upd_owner o (clear_owner dead) c).
    assert (M1 : mono c c1) by apply mono_clear.
    (* children *)
    assert (Hkids : forall xs c', mono c c' -> err c' = false -> incl xs (o_children ow) ->
              let c'' := fold_left (fun c ch => exec f (JCleanup ch) c) xs c' in
              mono c c'' /\ err c'' = false).
    { induction xs as [|x xs IHx]; intros c' M' He' Hin; cbn [fold_left]; [auto|].
      apply IHx.
      - eapply mono_trans; [exact M'|apply exec_mono].
      - apply IH; [eapply wfs_mono; eauto|exact He'|].
        cbn [need]. rewrite (mono_len _ _ M').
        destruct (ws_child c W o ow x Ho (Hin x (or_introl eq_refl))). lia.
      - intros y Hy. apply Hin. right. exact Hy. }
    destruct (Hkids (o_children ow) c1 M1 He (incl_refl _)) as (M2 & He2).
    set (c2 := fold_left (fun c ch => exec f (JCleanup ch) c) (o_children ow) c1) in *.
    set (c3 := add_log c2 (rev (map LClean (o_cleanups ow)))).
    assert (M3 : mono c c3) by (eapply mono_trans; [exact M2|apply mono_add_log]).
    assert (Hnodes : forall xs c', mono c c' -> err c' = false -> incl xs (o_nodes ow) ->
              err (fold_left (fun c k => exec f (JRemove k) c) xs c') = false).
    { induction xs as [|x xs IHx]; intros c' M' He' Hin; cbn [fold_left]; [auto|].
      apply IHx.
      - eapply mono_trans; [exact M'|apply exec_mono].
      - apply IH; [eapply wfs_mono; eauto|exact He'|].
        cbn [need]. rewrite (mono_len _ _ M').
        destruct (get c' x) as [[h|e|m mo]|] eqn:Hg; try lia.
        destruct (mono_get c c' x M') as [E|E]; [|congruence]. rewrite Hg in E.
        pose proof (ws_memo c W o ow x m mo Ho (Hin x (or_introl eq_refl)) (eq_sym E)) as Hmo.
        destruct (ws_child c W o ow mo Ho Hmo). lia.
      - intros y Hy. apply Hin. right. exact Hy. }
    apply Hnodes; auto. apply incl_refl. }
  destruct j as [o|o|k]; cbn [exec need] in *.
  - destruct (nth_error (owners c) o) as [ow|] eqn:Ho; [|exact He].
    destruct (o_alive ow); [apply Hrel; auto; lia|exact He].
  - destruct (nth_error (owners c) o) as [ow|] eqn:Ho; [|exact He].
    destruct (o_alive ow); [apply Hrel; auto; lia|exact He].
  - pose proof (mono_remove k c) as Hm.
    assert (Her : err (snd (remove k c)) = false).
    { unfold remove. destruct (get c k); cbn; exact He. }
    assert (Hit : fst (remove k c) = get c k).
    { unfold remove. destruct (get c k); reflexivity. }
    destruct (remove k c) as [[it|] c'']; cbn in Hm, Her, Hit; [|exact Her].
    destruct it as [h|e|m mo]; try exact Her.
    apply IH; [eapply wfs_mono; eauto|exact Her|].
    rewrite <- Hit in Hn. cbn [need]. rewrite (mono_len _ _ Hm). lia.
Qed.

Lemma cleanup_no_err o c : wfs c -> err c = false -> err (cleanup o c) = false.
Proof. intros W He. apply exec_no_err; auto. unfold fuel_of. cbn [need]. lia. Qed.
Lemma drop_no_err o c : wfs c -> err c = false -> err (drop_owner o c) = false.
Proof. intros W He. apply exec_no_err; auto. unfold fuel_of. cbn [need]. lia. Qed.
Lemma dispose_no_err k c : wfs c -> err c = false -> err (dispose k c) = false.
Proof.
  intros W He. apply exec_no_err; auto. unfold fuel_of. cbn [need].
  destruct (get c k) as [[]|]; lia.
Qed.

(** * the subtree of an owner: what a cleanup reaches through the children lists *)
Inductive sub (c : core) (o : nat) : nat -> Prop :=
| sub_refl : alive c o = true -> sub c o o
| sub_step p ow q : sub c o p -> nth_error (owners c) p = Some ow -> In q (o_children ow) ->
                    alive c q = true -> sub c o q.

Lemma sub_root_alive c o p : sub c o p -> alive c o = true.
Proof. induction 1; auto. Qed.
Lemma sub_alive c o p : sub c o p -> alive c p = true.
Proof. induction 1; auto. Qed.

Lemma sub_trans c o p q : sub c o p -> sub c p q -> sub c o q.
Proof. intros H1 H2. induction H2; [exact H1|]. eapply sub_step; eauto. Qed.

Lemma sub_child c o ow q : alive c o = true -> nth_error (owners c) o = Some ow ->
  In q (o_children ow) -> alive c q = true -> sub c o q.
Proof. intros. eapply sub_step; eauto. apply sub_refl; auto. Qed.

Lemma sub_mono c c' o p : mono c c' -> sub c' o p -> sub c o p.
Proof.
  intros M H. induction H as [Ha|p b q Hs IH Hb Hq Ha].
  - apply sub_refl. eapply mono_alive; eauto.
  - destruct (mono_owner_r _ _ _ _ M Hb) as (a & Hpa & [->|((Hg & _) & _)]).
    + eapply sub_step; eauto. eapply mono_alive; eauto.
    + rewrite Hg in Hq. destruct Hq.
Qed.

Lemma sub_ge c o p : wfs c -> sub c o p -> o <= p.
Proof.
  intros W H. induction H as [|p ow q Hs IH Hp Hq Ha]; [lia|].
  destruct (ws_child c W p ow q Hp Hq). lia.
Qed.

(** everything in the subtree is emptied *)
Lemma closure_sub c c' q r : closure c c' -> mono c c' -> gone_at c' q -> sub c q r -> gone_at c' r.
Proof.
  intros C M Hq H. induction H as [|p a r Hs IH Hp Hr Ha]; [exact Hq|].
  destruct IH as (b & Hb & Hg). destruct (C p a b Hp Hb Hg) as (Hk & _). auto.
Qed.

(** which owners a job may touch *)
Definition touched (c : core) (j : job) (p : nat) : Prop :=
  match j with
  | JCleanup o | JDrop o => sub c o p
  | JRemove k => exists m mo, get c k = Some (IMemo m mo) /\ sub c mo p
  end.

Lemma exec_frame_or f : forall j c, wfs c -> forall p,
  touched c j p \/ nth_error (owners (exec f j c)) p = nth_error (owners c) p.
Proof.
  induction f as [|f IH]; intros j c W p; [right; reflexivity|].
  assert (Hrel : forall dead o ow, nth_error (owners c) o = Some ow -> o_alive ow = true ->
    sub c o p \/
    nth_error (owners (fold_left (fun c k => exec f (JRemove k) c) (o_nodes ow)
           (add_log (fold_left (fun c ch => exec f (JCleanup ch) c) (o_children ow)
                       (upd_owner o (clear_owner dead) c))
                    (rev (map LClean (o_cleanups ow)))))) p = nth_error (owners c) p).
  { intros dead o ow Ho Hal.
    assert (Halo : alive c o = true) by (unfold alive; rewrite Ho; exact Hal).
    destruct (Nat.eq_dec p o) as [->|Hpo]; [left; apply sub_refl, Halo|].
    set (c1 := upd_owner o (clear_owner dead) c).
    assert (M1 : mono c c1) by apply mono_clear.
    assert (E1 : nth_error (owners c1) p = nth_error (owners c) p).
    { unfold c1, upd_owner. cbn. apply nth_error_upd_other. exact Hpo. }
    assert (Hkids : forall xs c', mono c c' -> nth_error (owners c') p = nth_error (owners c) p ->
              incl xs (o_children ow) ->
              let c'' := fold_left (fun c ch => exec f (JCleanup ch) c) xs c' in
              sub c o p \/ (mono c c'' /\ nth_error (owners c'') p = nth_error (owners c) p)).
    { induction xs as [|x xs IHx]; intros c' M' E' Hin; cbn [fold_left]; [right; auto|].
      destruct (IH (JCleanup x) c' (wfs_mono _ _ M' W) p) as [Hs|Hu].
      - left. cbn [touched] in Hs. apply (sub_mono _ _ _ _ M') in Hs.
        eapply sub_trans; [|exact Hs].
        eapply sub_child; eauto. apply Hin; left; reflexivity. eapply sub_root_alive; eauto.
      - apply IHx.
        + eapply mono_trans; [exact M'|apply exec_mono].
        + rewrite Hu. exact E'.
        + intros y Hy. apply Hin. right. exact Hy. }
    destruct (Hkids (o_children ow) c1 M1 E1 (incl_refl _)) as [Hs|(M2 & E2)]; [left; exact Hs|].
    set (c2 := fold_left (fun c ch => exec f (JCleanup ch) c) (o_children ow) c1) in *.
    set (c3 := add_log c2 (rev (map LClean (o_cleanups ow)))).
    assert (M3 : mono c c3) by (eapply mono_trans; [exact M2|apply mono_add_log]).
    assert (Hnodes : forall xs c', mono c c' -> nth_error (owners c') p = nth_error (owners c) p ->
              incl xs (o_nodes ow) ->
              sub c o p \/
              nth_error (owners (fold_left (fun c k => exec f (JRemove k) c) xs c')) p
              = nth_error (owners c) p).
    { induction xs as [|x xs IHx]; intros c' M' E' Hin; cbn [fold_left]; [right; auto|].
      destruct (IH (JRemove x) c' (wfs_mono _ _ M' W) p) as [Hs|Hu].
      - left. cbn [touched] in Hs. destruct Hs as (m & mo & Hg & Hs).
        destruct (mono_get c c' x M') as [E|E]; [|congruence]. rewrite Hg in E.
        pose proof (ws_memo c W o ow x m mo Ho (Hin x (or_introl eq_refl)) (eq_sym E)) as Hmo.
        apply (sub_mono _ _ _ _ M') in Hs.
        eapply sub_trans; [|exact Hs]. eapply sub_child; eauto. eapply sub_root_alive; eauto.
      - apply IHx.
        + eapply mono_trans; [exact M'|apply exec_mono].
        + rewrite Hu. exact E'.
        + intros y Hy. apply Hin. right. exact Hy. }
    apply Hnodes; auto. apply incl_refl. }
  destruct j as [o|o|k]; cbn [exec touched] in *.
  - destruct (nth_error (owners c) o) as [ow|] eqn:Ho; [|right; reflexivity].
    destruct (o_alive ow) eqn:Hal; [apply Hrel; auto|right; reflexivity].
  - destruct (nth_error (owners c) o) as [ow|] eqn:Ho; [|right; reflexivity].
    destruct (o_alive ow) eqn:Hal; [apply Hrel; auto|right; reflexivity].
  - pose proof (mono_remove k c) as Hm.
    assert (Hit : fst (remove k c) = get c k) by (unfold remove; destruct (get c k); reflexivity).
    assert (Hown : owners (snd (remove k c)) = owners c) by (unfold remove; destruct (get c k); reflexivity).
    destruct (remove k c) as [[it|] c'']; cbn in Hm, Hit, Hown; [|right; rewrite Hown; reflexivity].
    destruct it as [h|e|m mo]; try (right; rewrite Hown; reflexivity).
    destruct (IH (JDrop mo) c'' (wfs_mono _ _ Hm W) p) as [Hs|Hu].
    + left. exists m, mo. split; [auto|]. eapply sub_mono; eauto.
    + right. rewrite Hu, Hown. reflexivity.
Qed.

Lemma exec_frame f j c : wfs c -> forall p, ~ touched c j p ->
  nth_error (owners (exec f j c)) p = nth_error (owners c) p.
Proof. intros W p Hn. destruct (exec_frame_or f j c W p) as [H|H]; [contradiction|exact H]. Qed.

(** ** what [cleanup o] does to the subtree of [o] and to the rest *)
Section CleanupTheorems.
  Variable c : core.
  Variable o : nat.
  Hypothesis W : wfs c.
  Hypothesis He : err c = false.
  Hypothesis Ho : alive c o = true.
  Let c' := cleanup o c.

  Lemma cleanup_gone_root : gone_at c' o.
  Proof.
    unfold c', cleanup, fuel_of. set (f := 2 * length (owners c) + 1).
    replace (2 * length (owners c) + 2) with (S f) by lia. cbn [exec].
    unfold alive in Ho. destruct (nth_error (owners c) o) as [ow|] eqn:Hq; [|discriminate].
    rewrite Ho.
    eapply mono_gone_at.
    2: { exists (clear_owner false ow). split; [|repeat split].
         instantiate (1 := upd_owner o (clear_owner false) c).
         unfold upd_owner. cbn. rewrite nth_error_upd_same, Hq. reflexivity. }
    eapply mono_trans; [apply (mono_fold (fun ch c => exec f (JCleanup ch) c)); intros; apply exec_mono|].
    eapply mono_trans; [apply mono_add_log|].
    apply (mono_fold (fun k c => exec f (JRemove k) c)); intros; apply exec_mono.
  Qed.

  (** handles_disposed / emptied: every owner of the subtree has lost its children, cleanups
      and nodes, and every key that was registered there no longer resolves *)
  Theorem subtree_released : forall p ow, sub c o p -> nth_error (owners c) p = Some ow ->
    gone_at c' p /\ forall k, In k (o_nodes ow) -> get c' k = None.
  Proof.
    intros p ow Hs Hp.
    assert (Hne : err c' = false) by (apply cleanup_no_err; auto).
    assert (C : closure c c') by (apply exec_closure; exact Hne).
    assert (M : mono c c') by apply exec_mono.
    assert (G : gone_at c' p) by (eapply closure_sub; eauto using cleanup_gone_root).
    split; [exact G|]. destruct G as (b & Hb & Hg). exact (proj2 (C p ow b Hp Hb Hg)).
  Qed.

  (** frame: owners outside the subtree are untouched *)
  Theorem outside_untouched : forall p, ~ sub c o p ->
    nth_error (owners c') p = nth_error (owners c) p.
  Proof. intros p Hn. apply exec_frame; auto. Qed.
End CleanupTheorems.

(** * a cleanup runs exactly the cleanups registered in the subtree, each once *)
Lemma in_concat_map_nth {A B} (g : A -> list B) (l : list A) x :
  In x (concat (map g l)) <-> exists i a, nth_error l i = Some a /\ In x (g a).
Proof.
  rewrite in_concat. split.
  - intros (ys & Hys & Hx). apply in_map_iff in Hys as (a & <- & Ha).
    apply In_nth_error in Ha as (i & Hi). eauto.
  - intros (i & a & Hi & Hx). exists (g a). split; [|exact Hx].
    apply in_map. eapply nth_error_In; eauto.
Qed.

Lemma NoDup_app_l {A} (l1 l2 : list A) : NoDup (l1 ++ l2) -> NoDup l1.
Proof.
  induction l1 as [|x l1 IH]; cbn; intros H; [constructor|].
  inversion H; subst. constructor; [|auto]. intros Hin. apply H2. apply in_or_app. left. exact Hin.
Qed.
Lemma NoDup_app_r {A} (l1 l2 : list A) : NoDup (l1 ++ l2) -> NoDup l2.
Proof. induction l1 as [|x l1 IH]; cbn; intros H; [exact H|]. inversion H; auto. Qed.

Lemma NoDup_app_disjoint {A} (l1 l2 : list A) : NoDup (l1 ++ l2) ->
  forall x, In x l1 -> ~ In x l2.
Proof.
  intros Hnd x H1 H2. apply in_split in H1 as (a & b & E). rewrite E in Hnd.
  rewrite <- app_assoc in Hnd. cbn in Hnd. apply NoDup_remove_2 in Hnd. apply Hnd.
  rewrite app_assoc. apply in_or_app. right. exact H2.
Qed.

Lemma NoDup_concat_unique {A B} (g : A -> list B) (l : list A) :
  NoDup (concat (map g l)) -> forall i j a b x,
  nth_error l i = Some a -> nth_error l j = Some b -> In x (g a) -> In x (g b) -> i = j.
Proof.
  induction l as [|y l IH]; intros Hnd i j a b x Hi Hj Ha Hb; [destruct i; discriminate|].
  cbn in Hnd. pose proof (NoDup_app_r _ _ Hnd) as Hnd'.
  pose proof (NoDup_app_disjoint _ _ Hnd) as Hdisj.
  destruct i as [|i], j as [|j]; cbn in Hi, Hj.
  - reflexivity.
  - inversion Hi; subst a. exfalso. apply (Hdisj x Ha). apply in_concat_map_nth. eauto.
  - inversion Hj; subst b. exfalso. apply (Hdisj x Hb). apply in_concat_map_nth. eauto.
  - f_equal. eapply IH; eauto.
Qed.

Section CleanupLog.
  Variable c : core.
  Variable o : nat.
  Hypothesis W : wfs c.
  Hypothesis He : err c = false.
  Hypothesis Ho : alive c o = true.
  Hypothesis Hnd : NoDup (pending c).
  Let c' := cleanup o c.

  Lemma cleanup_log_ext : exists l, clog c' = l ++ clog c.
  Proof. exact (proj2 (exec_conserve (fuel_of c) (JCleanup o) c)). Qed.

  Lemma cleanup_perm : forall l, clog c' = l ++ clog c ->
    Permutation (cids l ++ pending c') (pending c).
  Proof.
    intros l E. destruct (exec_conserve (fuel_of c) (JCleanup o) c) as [P _].
    fold (cleanup o c) in P. fold c' in P. rewrite E, cids_app in P.
    rewrite <- app_assoc in P.
    eapply Permutation_app_inv_l with (l := cids (clog c)).
    etransitivity; [|exact P].
    rewrite !app_assoc. apply Permutation_app_tail, Permutation_app_comm.
  Qed.

  (** cleanup_runs_each_once, for one call: the cleanups that run are exactly those
      registered with the owners of the subtree, each exactly once *)
  Theorem cleanup_runs_subtree : forall l, clog c' = l ++ clog c ->
    NoDup (cids l) /\
    forall cid, In cid (cids l) <->
                exists p ow, sub c o p /\ nth_error (owners c) p = Some ow /\ In cid (o_cleanups ow).
  Proof.
    intros l E. pose proof (cleanup_perm l E) as P.
    assert (Hnd' : NoDup (cids l ++ pending c')) by (eapply Permutation_NoDup; [symmetry; exact P|exact Hnd]).
    assert (M : mono c c') by apply exec_mono.
    split; [eapply NoDup_app_l; exact Hnd'|].
    pose proof (NoDup_app_disjoint _ _ Hnd') as Hdisj.
    intros cid. split.
    - intros Hin.
      assert (Hp : In cid (pending c)) by (eapply Permutation_in; [exact P|apply in_or_app; left; exact Hin]).
      apply in_concat_map_nth in Hp as (p & ow & Hp & Hc).
      exists p, ow. split; [|auto].
      destruct (exec_frame_or (fuel_of c) (JCleanup o) c W p) as [Hs|Hu]; [exact Hs|].
      exfalso. apply (Hdisj cid Hin). apply in_concat_map_nth. exists p, ow. split; [|exact Hc].
      unfold c', cleanup. rewrite Hu. exact Hp.
    - intros (p & ow & Hs & Hp & Hc).
      assert (Hpc : In cid (pending c)) by (apply in_concat_map_nth; eauto).
      apply (Permutation_in _ (Permutation_sym P)) in Hpc. apply in_app_or in Hpc as [H|H]; [exact H|].
      exfalso. apply in_concat_map_nth in H as (p' & b & Hb & Hcb).
      destruct (mono_owner_r _ _ _ _ M Hb) as (a & Ha & [->|((_ & _ & Hg) & _)]).
      + assert (p' = p) by (eapply (NoDup_concat_unique o_cleanups (owners c)); eauto). subst p'.
        destruct (subtree_released c o W He Ho p ow Hs Hp) as ((b & Hb' & (_ & _ & Hg)) & _).
        fold c' in Hb'. rewrite Hb in Hb'. inversion Hb'; subst b. rewrite Hg in Hcb. destruct Hcb.
      + rewrite Hg in Hcb. destruct Hcb.
  Qed.
End CleanupLog.

(** * descendants first *)
Definition nd (c : core) : Prop := NoDup (cids (clog c) ++ pending c).

Lemma nd_conserve c c' : conserve c c' -> nd c -> nd c'.
Proof. intros [P _] H. eapply Permutation_NoDup; [symmetry; exact P|exact H]. Qed.

Lemma nd_pending c : nd c -> NoDup (pending c).
Proof. apply NoDup_app_r. Qed.

(** [cid1] was logged before [cid2]; [l] is newest first *)
Definition logged_before (cid1 cid2 : nat) (l : list nat) : Prop :=
  exists A B, l = A ++ B /\ In cid2 A /\ In cid1 B.

Lemma logged_before_mid cid1 cid2 l3 l2 l1 :
  logged_before cid1 cid2 l2 -> logged_before cid1 cid2 (l3 ++ l2 ++ l1).
Proof.
  intros (A & B & -> & H2 & H1). exists (l3 ++ A), (B ++ l1).
  rewrite <- !app_assoc. split; [reflexivity|]. split; apply in_or_app; auto.
Qed.

(** a cleanup that was pending and no longer is has been logged in between *)
Lemma logged_between x y l cid : conserve x y -> nd x -> clog y = l ++ clog x ->
  In cid (pending x) -> ~ In cid (pending y) -> In cid (cids l).
Proof.
  intros [P _] Hnd E Hin Hout.
  assert (H : In cid (cids (clog y) ++ pending y)).
  { eapply Permutation_in; [symmetry; exact P|]. apply in_or_app. right. exact Hin. }
  rewrite E, cids_app in H. apply in_app_or in H as [H|H]; [|contradiction].
  apply in_app_or in H as [H|H]; [exact H|].
  exfalso. exact (NoDup_app_disjoint _ _ Hnd cid H Hin).
Qed.

Lemma pending_of c p a cid : nth_error (owners c) p = Some a -> In cid (o_cleanups a) ->
  In cid (pending c).
Proof. intros. apply in_concat_map_nth. eauto. Qed.

Lemma not_pending_if_gone c0 c1 r ar cid : NoDup (pending c0) -> mono c0 c1 ->
  nth_error (owners c0) r = Some ar -> In cid (o_cleanups ar) -> gone_at c1 r ->
  ~ In cid (pending c1).
Proof.
  intros Hnd M Hr Hc (b & Hb & (_ & _ & Hg)) Hin.
  apply in_concat_map_nth in Hin as (p' & b' & Hb' & Hcb).
  destruct (mono_owner_r _ _ _ _ M Hb') as (a' & Ha' & [->|((_ & _ & Hg') & _)]).
  - assert (p' = r) by (eapply (NoDup_concat_unique o_cleanups (owners c0)); eauto). subst p'.
    rewrite Hb in Hb'. inversion Hb'; subst. rewrite Hg in Hcb. destruct Hcb.
  - rewrite Hg' in Hcb. destruct Hcb.
Qed.

(** along a path of the subtree: still intact afterwards, or its end has been emptied *)
Lemma left_or_gone c0 c1 q r : mono c0 c1 -> closure c0 c1 -> sub c0 q r ->
  (sub c1 q r /\ nth_error (owners c1) r = nth_error (owners c0) r) \/ gone_at c1 r.
Proof.
  intros M C H. induction H as [Ha|p a r Hs IH Hp Hr Ha].
  - unfold alive in Ha. destruct (nth_error (owners c0) q) as [aq|] eqn:Hq; [|discriminate].
    destruct (mono_owner _ _ _ _ M Hq) as (b & Hb & [->|(Hg & _)]).
    + left. split; [|congruence]. apply sub_refl. unfold alive. rewrite Hb. exact Ha.
    + right. exists b. auto.
  - destruct IH as [(Hs1 & Ep)|(b & Hb & Hg)].
    + unfold alive in Ha. destruct (nth_error (owners c0) r) as [ar|] eqn:Hq; [|discriminate].
      destruct (mono_owner _ _ _ _ M Hq) as (b & Hb & [->|(Hg & _)]).
      * left. split; [|congruence]. eapply sub_step; eauto; [congruence|].
        unfold alive. rewrite Hb. exact Ha.
      * right. exists b. auto.
    + right. exact (proj1 (C p a b Hp Hb Hg) r Hr Ha).
Qed.

Lemma sub_owners_eq c c' o p : owners c' = owners c -> sub c o p -> sub c' o p.
Proof.
  intros E H. induction H as [Ha|p a q Hs IH Hp Hq Ha].
  - apply sub_refl. unfold alive in *. rewrite E. exact Ha.
  - eapply sub_step; eauto; unfold alive in *; rewrite E; auto.
Qed.

(** clearing [o] does not disturb a path that starts strictly below it *)
Lemma sub_avoid c o dead q r : wfs c -> o < q -> sub c q r ->
  sub (upd_owner o (clear_owner dead) c) q r /\
  nth_error (owners (upd_owner o (clear_owner dead) c)) r = nth_error (owners c) r.
Proof.
  intros W Hlt H.
  assert (Hsame : forall x, o < x ->
            nth_error (owners (upd_owner o (clear_owner dead) c)) x = nth_error (owners c) x).
  { intros x Hx. unfold upd_owner. cbn. apply nth_error_upd_other. lia. }
  induction H as [Ha|p a r Hs IH Hp Hr Ha].
  - split; [|apply Hsame; exact Hlt]. apply sub_refl. unfold alive. rewrite Hsame; auto.
  - destruct IH as (Hs1 & Ep).
    assert (Hqp : q <= p) by (eapply sub_ge; eauto).
    destruct (ws_child c W p a r Hp Hr) as (Hpr & _).
    split; [|apply Hsame; lia].
    eapply sub_step; eauto; [rewrite Ep; exact Hp|]. unfold alive. rewrite Hsame by lia. exact Ha.
Qed.

Section Order.
  (** the statement carried through the recursion *)
  Definition order_ok (c c' : core) : Prop :=
    forall l, clog c' = l ++ clog c ->
    forall p a q r ar cid1 cid2,
      nth_error (owners c) p = Some a -> In cid2 (o_cleanups a) -> gone_at c' p ->
      In q (o_children a) -> alive c q = true -> sub c q r ->
      nth_error (owners c) r = Some ar -> In cid1 (o_cleanups ar) ->
      logged_before cid1 cid2 (cids l).

  (** folding steps that each satisfy it *)
  Lemma order_fold {X} (g : X -> core -> core) xs :
    (forall x c, mono c (g x c)) ->
    (forall x c, conserve c (g x c)) ->
    (forall x c, err (g x c) = false -> closure c (g x c)) ->
    (forall x c, wfs c -> nd c -> err (g x c) = false -> order_ok c (g x c)) ->
    forall c, wfs c -> nd c -> err (fold_left (fun c x => g x c) xs c) = false ->
    order_ok c (fold_left (fun c x => g x c) xs c).
  Proof.
    intros Hm Hk Hc Ho. induction xs as [|x xs IH]; intros c W Hnd He; cbn [fold_left] in *.
    { unfold order_ok. intros l E p a q r ar cid1 cid2 Hp H2 Hgo _ _ _ _ _.
      destruct Hgo as (b & Hb & (_ & _ & Hg)).
      rewrite Hp in Hb. inversion Hb; subst. rewrite Hg in H2. destruct H2. }
    set (c1 := g x c) in *. set (cF := fold_left (fun c x => g x c) xs c1) in *.
    assert (M1 : mono c c1) by apply Hm.
    assert (MF : mono c1 cF) by (apply mono_fold; exact Hm).
    assert (K1 : conserve c c1) by apply Hk.
    assert (KF : conserve c1 cF) by (apply conserve_fold; exact Hk).
    assert (He1 : err c1 = false) by (eapply err_fold; eauto).
    assert (C1 : closure c c1) by (apply Hc; exact He1).
    assert (W1 : wfs c1) by (eapply wfs_mono; eauto).
    assert (Hnd1 : nd c1) by (eapply nd_conserve; eauto).
    intros l E p a q r ar cid1 cid2 Hp H2 HgF Hq Hal Hs Hr H1.
    pose proof K1 as K1'. pose proof KF as KF'.
    destruct K1 as [P1 (l1 & E1)]. destruct KF as [PF (lr & EF)].
    assert (El : l = lr ++ l1).
    { rewrite EF, E1, app_assoc in E. apply app_inv_tail in E. auto. }
    subst l. rewrite cids_app.
    destruct (mono_owner _ _ _ _ M1 Hp) as (b1 & Hb1 & [->|(Hg1 & _)]).
    - (* p untouched by the first step *)
      destruct (left_or_gone c c1 q r M1 C1 Hs) as [(Hs1 & Er)|Hgr].
      + assert (Hlb : logged_before cid1 cid2 (cids lr)).
        { apply (IH c1 W1 Hnd1 He lr EF p a q r ar cid1 cid2); auto.
          - eapply sub_root_alive; eauto.
          - congruence. }
        destruct Hlb as (A & B & -> & HA & HB). exists A, (B ++ cids l1).
        rewrite <- app_assoc. split; [reflexivity|]. split; [auto|apply in_or_app; auto].
      + exists (cids lr), (cids l1). split; [reflexivity|]. split.
        * apply (logged_between c1 cF lr cid2 KF' Hnd1 EF); [eapply pending_of; eauto|].
          eapply (not_pending_if_gone c1 cF p a); eauto. apply nd_pending; auto.
        * apply (logged_between c c1 l1 cid1 K1' Hnd E1); [eapply pending_of; eauto|].
          eapply (not_pending_if_gone c c1 r ar); eauto. apply nd_pending; auto.
    - (* p emptied by the first step *)
      assert (Hlb : logged_before cid1 cid2 (cids l1)).
      { apply (Ho x c W Hnd He1 l1 E1 p a q r ar cid1 cid2); auto. exists b1. auto. }
      destruct Hlb as (A & B & -> & HA & HB). exists (cids lr ++ A), B.
      rewrite <- app_assoc. split; [reflexivity|]. split; [apply in_or_app; auto|auto].
  Qed.
End Order.

Lemma exec_order f : forall j c, wfs c -> nd c -> err (exec f j c) = false -> order_ok c (exec f j c).
Proof.
  induction f as [|f IH]; intros j c W Hnd He; [cbn in He; discriminate|].
  assert (Hrel : forall dead o ow, nth_error (owners c) o = Some ow -> o_alive ow = true ->
    let c1 := upd_owner o (clear_owner dead) c in
    let c2 := fold_left (fun c ch => exec f (JCleanup ch) c) (o_children ow) c1 in
    let c3 := add_log c2 (rev (map LClean (o_cleanups ow))) in
    let c4 := fold_left (fun c k => exec f (JRemove k) c) (o_nodes ow) c3 in
    (forall p, touched c (JCleanup o) p \/ nth_error (owners c4) p = nth_error (owners c) p) ->
    err c4 = false -> order_ok c c4).
  { intros dead o ow Ho Hal c1 c2 c3 c4 Hfr He4.
    assert (Halo : alive c o = true) by (unfold alive; rewrite Ho; exact Hal).
    assert (M1 : mono c c1) by apply mono_clear.
    assert (M12 : mono c1 c2)
      by (apply (mono_fold (fun ch c => exec f (JCleanup ch) c)); intros; apply exec_mono).
    assert (M34 : mono c3 c4)
      by (apply (mono_fold (fun k c => exec f (JRemove k) c)); intros; apply exec_mono).
    assert (He3 : err c3 = false)
      by (eapply (err_fold (fun k c => exec f (JRemove k) c)); [intros; apply exec_mono|exact He4]).
    assert (He2 : err c2 = false) by exact He3.
    assert (K12 : conserve c1 c2)
      by (apply (conserve_fold (fun ch c => exec f (JCleanup ch) c)); intros; apply exec_conserve).
    assert (K34 : conserve c3 c4)
      by (apply (conserve_fold (fun k c => exec f (JRemove k) c)); intros; apply exec_conserve).
    assert (C12 : closure c1 c2)
      by (apply (closure_fold (fun ch c => exec f (JCleanup ch) c));
          [intros; apply exec_mono|intros; apply exec_closure; auto|exact He2]).
    assert (W1 : wfs c1) by (eapply wfs_mono; eauto).
    assert (W2 : wfs c2) by (eapply wfs_mono; eauto).
    assert (W3 : wfs c3) by (eapply wfs_mono; [apply mono_add_log|exact W2]).
    (* nd for the intermediate states: c1 has [o]'s cleanups in flight, so only NoDup of the
       pending part and of log ++ pending is needed, both as sub-multisets of c's *)
    assert (Hpc : Permutation (pending c) (o_cleanups ow ++ pending c1))
      by (apply (pending_clear (owners c) dead o ow Ho)).
    assert (Hnd1 : nd c1).
    { unfold nd in *. change (clog c1) with (clog c).
      assert (P : Permutation (cids (clog c) ++ pending c)
                              (o_cleanups ow ++ (cids (clog c) ++ pending c1))).
      { rewrite Hpc. rewrite !app_assoc. apply Permutation_app_tail, Permutation_app_comm. }
      eapply NoDup_app_r. eapply Permutation_NoDup; [exact P|exact Hnd]. }
    assert (Hnd2 : nd c2) by (eapply nd_conserve; eauto).
    destruct K12 as [P12 (lk & Ek)]. destruct K34 as [P34 (ln & En)].
    pose proof (conj P12 (ex_intro _ lk Ek) : conserve c1 c2) as K12.
    pose proof (conj P34 (ex_intro _ ln En) : conserve c3 c4) as K34.
    change (clog c1) with (clog c) in Ek.
    assert (E3 : clog c3 = rev (map LClean (o_cleanups ow)) ++ clog c2) by reflexivity.
    (* nd c3: log gained exactly the in-flight cleanups *)
    assert (Hnd3 : nd c3).
    { unfold nd in *. rewrite E3, cids_app, cids_rev_clean.
      change (pending c3) with (pending c2).
      assert (P : Permutation (cids (clog c) ++ pending c)
                              ((rev (o_cleanups ow) ++ cids (clog c2)) ++ pending c2)).
      { rewrite <- app_assoc. rewrite P12. change (clog c1) with (clog c).
        rewrite Hpc. rewrite <- Permutation_rev.
        rewrite !app_assoc. apply Permutation_app_tail, Permutation_app_comm. }
      eapply Permutation_NoDup; [exact P|exact Hnd]. }
    intros l E p a q r ar cid1 cid2 Hp H2 Hg4 Hq Halq Hs Hr H1.
    assert (El : l = ln ++ rev (map LClean (o_cleanups ow)) ++ lk).
    { rewrite En, E3, Ek in E. rewrite !app_assoc in E. apply app_inv_tail in E.
      rewrite <- !app_assoc in E. auto. }
    subst l. rewrite !cids_app, cids_rev_clean.
    destruct (Nat.eq_dec p o) as [->|Hpo].
    - (* p = o: its children were all done before its own cleanups were logged *)
      rewrite Ho in Hp. inversion Hp; subst a.
      destruct (ws_child c W o ow q Ho Hq) as (Hoq & _).
      destruct (sub_avoid c o dead q r W Hoq Hs) as (Hs1 & Er1). fold c1 in Hs1, Er1.
      assert (Halq1 : alive c1 q = true) by (eapply sub_root_alive; eauto).
      assert (Hgq : gone_at c2 q).
      { destruct f as [|f'].
        - exfalso. destruct (o_children ow) as [|x xs]; [destruct Hq|].
          subst c3 c2. cbn [fold_left] in He2.
          apply (err_fold (fun ch c => exec 0 (JCleanup ch) c)) in He2; [|intros; apply exec_mono].
          cbn in He2. discriminate.
        - apply fold_cleanup_gone; auto. }
      assert (Hgr : gone_at c2 r) by (eapply closure_sub; eauto).
      exists (cids ln ++ rev (o_cleanups ow)), (cids lk).
      rewrite <- app_assoc. split; [reflexivity|]. split.
      + apply in_or_app. right. apply in_rev in H2. exact H2.
      + assert (Hr1 : nth_error (owners c1) r = Some ar) by (rewrite Er1; exact Hr).
        apply (logged_between c1 c2 lk cid1 K12 Hnd1 Ek); [exact (pending_of c1 r ar cid1 Hr1 H1)|].
        apply (not_pending_if_gone c1 c2 r ar cid1 (nd_pending _ Hnd1) M12 Hr1 H1 Hgr).
    - (* p is below o *)
      assert (Hsp : sub c o p).
      { destruct (Hfr p) as [H|H]; [exact H|]. exfalso.
        destruct Hg4 as (b & Hb & (_ & _ & Hg)). rewrite H, Hp in Hb. inversion Hb; subst.
        rewrite Hg in H2. destruct H2. }
      assert (Hop : o < p) by (pose proof (sub_ge c o p W Hsp); lia).
      destruct (ws_child c W p a q Hp Hq) as (Hpq & _).
      destruct (sub_avoid c o dead q r W ltac:(lia) Hs) as (Hs1 & Er1). fold c1 in Hs1, Er1.
      assert (Hp1 : nth_error (owners c1) p = Some a).
      { unfold c1, upd_owner. cbn. rewrite nth_error_upd_other; auto. }
      assert (Halq1 : alive c1 q = true) by (eapply sub_root_alive; eauto).
      assert (Hr1 : nth_error (owners c1) r = Some ar) by congruence.
      destruct (mono_owner _ _ _ _ M12 Hp1) as (b2 & Hb2 & [->|(Hg2 & _)]).
      + (* p survives the children phase: it is emptied while the nodes are removed *)
        destruct (left_or_gone c1 c2 q r M12 C12 Hs1) as [(Hs2 & Er2)|Hgr].
        * assert (Hlb : logged_before cid1 cid2 (cids ln)).
          { apply (order_fold (fun k c => exec f (JRemove k) c) (o_nodes ow)
                     (fun x c => exec_mono f (JRemove x) c)
                     (fun x c => exec_conserve f (JRemove x) c)
                     (fun x c => exec_closure f (JRemove x) c)
                     (fun x c => IH (JRemove x) c) c3 W3 Hnd3 He4 ln En p a q r ar cid1 cid2); auto.
            - eapply sub_root_alive. apply (sub_owners_eq c2 c3); [reflexivity|exact Hs2].
            - apply (sub_owners_eq c2 c3); [reflexivity|exact Hs2].
            - change (owners c3) with (owners c2). congruence. }
          destruct Hlb as (A & B & -> & HA & HB).
          exists A, (B ++ rev (o_cleanups ow) ++ cids lk). rewrite <- !app_assoc.
          split; [reflexivity|]. split; [auto|apply in_or_app; auto].
        * exists (cids ln), (rev (o_cleanups ow) ++ cids lk). split; [reflexivity|]. split.
          -- assert (Hp3 : nth_error (owners c3) p = Some a) by exact Hb2.
             apply (logged_between c3 c4 ln cid2 K34 Hnd3 En); [exact (pending_of c3 p a cid2 Hp3 H2)|].
             apply (not_pending_if_gone c3 c4 p a cid2 (nd_pending _ Hnd3) M34 Hp3 H2 Hg4).
          -- apply in_or_app. right.
             apply (logged_between c1 c2 lk cid1 K12 Hnd1 Ek); [exact (pending_of c1 r ar cid1 Hr1 H1)|].
             apply (not_pending_if_gone c1 c2 r ar cid1 (nd_pending _ Hnd1) M12 Hr1 H1 Hgr).
      + (* p is emptied during the children phase *)
        assert (Hlb : logged_before cid1 cid2 (cids lk)).
        { apply (order_fold (fun ch c => exec f (JCleanup ch) c) (o_children ow)
                   (fun x c => exec_mono f (JCleanup x) c)
                   (fun x c => exec_conserve f (JCleanup x) c)
                   (fun x c => exec_closure f (JCleanup x) c)
                   (fun x c => IH (JCleanup x) c) c1 W1 Hnd1 He2 lk Ek p a q r ar cid1 cid2); auto.
          exists b2. auto. }
        destruct Hlb as (A & B & -> & HA & HB).
        exists (cids ln ++ rev (o_cleanups ow) ++ A), B. rewrite <- !app_assoc.
        split; [reflexivity|]. split; [|auto]. apply in_or_app. right. apply in_or_app. right.
        exact HA. }
  destruct j as [o|o|k].
  - pose proof (exec_frame_or (S f) (JCleanup o) c W) as Hfr. cbn [exec] in *.
    destruct (nth_error (owners c) o) as [ow|] eqn:Ho.
    2: { intros l E p a q r ar cid1 cid2 Hp H2 (b & Hb & (_ & _ & Hg)).
         rewrite Hp in Hb. inversion Hb; subst. rewrite Hg in H2. destruct H2. }
    destruct (o_alive ow) eqn:Hal.
    2: { intros l E p a q r ar cid1 cid2 Hp H2 (b & Hb & (_ & _ & Hg)).
         rewrite Hp in Hb. inversion Hb; subst. rewrite Hg in H2. destruct H2. }
    apply (Hrel false o ow); auto.
  - pose proof (exec_frame_or (S f) (JDrop o) c W) as Hfr. cbn [exec] in *.
    destruct (nth_error (owners c) o) as [ow|] eqn:Ho.
    2: { intros l E p a q r ar cid1 cid2 Hp H2 (b & Hb & (_ & _ & Hg)).
         rewrite Hp in Hb. inversion Hb; subst. rewrite Hg in H2. destruct H2. }
    destruct (o_alive ow) eqn:Hal.
    2: { intros l E p a q r ar cid1 cid2 Hp H2 (b & Hb & (_ & _ & Hg)).
         rewrite Hp in Hb. inversion Hb; subst. rewrite Hg in H2. destruct H2. }
    apply (Hrel true o ow); auto.
  - cbn [exec] in *.
    assert (Hown : owners (snd (remove k c)) = owners c) by (unfold remove; destruct (get c k); reflexivity).
    assert (Hlog : clog (snd (remove k c)) = clog c) by (unfold remove; destruct (get c k); reflexivity).
    pose proof (mono_remove k c) as Hm.
    assert (Hsame : order_ok c (snd (remove k c))).
    { intros l E p a q r ar cid1 cid2 Hp H2 (b & Hb & (_ & _ & Hg)).
      rewrite Hown, Hp in Hb. inversion Hb; subst. rewrite Hg in H2. destruct H2. }
    destruct (remove k c) as [[it|] c'']; cbn in Hown, Hlog, Hm, Hsame; [|exact Hsame].
    destruct it as [h|e|m mo]; try exact Hsame.
    assert (W'' : wfs c'') by (eapply wfs_mono; eauto).
    assert (Hnd'' : nd c'') by (unfold nd, pending in *; rewrite Hown, Hlog; exact Hnd).
    pose proof (IH (JDrop mo) c'' W'' Hnd'' He) as Hok.
    intros l E p a q r ar cid1 cid2 Hp H2 Hg Hq Hal Hs Hr H1.
    apply (Hok l (eq_trans E (f_equal (app l) (eq_sym Hlog))) p a q r ar cid1 cid2);
      try (rewrite Hown); auto.
    + unfold alive in *. rewrite Hown. exact Hal.
    + apply (sub_owners_eq c c''); auto.
Qed.

(** descendants_first: within one cleanup, every cleanup of a scope below a child of [p] runs
    before the cleanups of [p] itself — for every [p] of the subtree *)
Theorem descendants_first : forall c o, wfs c -> nd c -> err c = false -> alive c o = true ->
  forall l, clog (cleanup o c) = l ++ clog c ->
  forall p a q r ar cid1 cid2,
    sub c o p -> nth_error (owners c) p = Some a -> In cid2 (o_cleanups a) ->
    In q (o_children a) -> alive c q = true -> sub c q r ->
    nth_error (owners c) r = Some ar -> In cid1 (o_cleanups ar) ->
    logged_before cid1 cid2 (cids l).
Proof.
  intros c o W Hnd He Ho l E p a q r ar cid1 cid2 Hs Hp H2 Hq Hal Hsr Hr H1.
  assert (Hne : err (cleanup o c) = false) by (apply cleanup_no_err; auto).
  apply (exec_order (fuel_of c) (JCleanup o) c W Hnd Hne l E p a q r ar cid1 cid2); auto.
  exact (proj1 (subtree_released c o W He Ho p a Hs Hp)).
Qed.

(** * frame for arena values *)
Definition key_touched (c : core) (j : job) (k : key) : Prop :=
  match j with
  | JCleanup o | JDrop o =>
      exists p ow, sub c o p /\ nth_error (owners c) p = Some ow /\ In k (o_nodes ow)
  | JRemove k' =>
      k = k' \/ exists m mo p ow, get c k' = Some (IMemo m mo) /\ sub c mo p /\
                                  nth_error (owners c) p = Some ow /\ In k (o_nodes ow)
  end.

Lemma key_eq_dec : forall a b : key, {a = b} + {a <> b}.
Proof. decide equality; apply Nat.eq_dec. Qed.

Lemma get_remove_other k k' c : k <> k' -> get (snd (remove k' c)) k = get c k.
Proof.
  intros Hne. unfold remove. destruct (get c k') eqn:Hg'; [|reflexivity]. cbn.
  unfold get in *. cbn. destruct (Nat.eq_dec (fst k) (fst k')) as [Ef|Ef].
  - rewrite Ef, nth_error_upd_same. destruct (nth_error (slots c) (fst k')) as [s|]; [|reflexivity].
    cbn [option_map s_ver s_item].
    destruct (Nat.eqb_spec (s_ver s) (snd k')) as [Ev|]; [|discriminate].
    destruct (Nat.eqb_spec (s_ver s) (snd k)) as [Ev2|].
    + exfalso. apply Hne. destruct k, k'; cbn in *; congruence.
    + destruct (S (s_ver s) =? snd k); reflexivity.
  - rewrite nth_error_upd_other; auto.
Qed.

Lemma sub_mono_owner c c' o p ow : mono c c' -> sub c' o p -> nth_error (owners c') p = Some ow ->
  o_nodes ow <> [] -> nth_error (owners c) p = Some ow.
Proof.
  intros M _ Hp Hne. destruct (mono_owner_r _ _ _ _ M Hp) as (a & Ha & [->|((_ & Hg & _) & _)]); auto.
  contradiction.
Qed.

Lemma exec_get_or f : forall j c, wfs c -> forall k,
  key_touched c j k \/ get (exec f j c) k = get c k.
Proof.
  induction f as [|f IH]; intros j c W k; [right; reflexivity|].
  assert (Hrel : forall dead o ow, nth_error (owners c) o = Some ow -> o_alive ow = true ->
    (exists p ow, sub c o p /\ nth_error (owners c) p = Some ow /\ In k (o_nodes ow)) \/
    get (fold_left (fun c k => exec f (JRemove k) c) (o_nodes ow)
           (add_log (fold_left (fun c ch => exec f (JCleanup ch) c) (o_children ow)
                       (upd_owner o (clear_owner dead) c))
                    (rev (map LClean (o_cleanups ow))))) k = get c k).
  { intros dead o ow Ho Hal.
    assert (Halo : alive c o = true) by (unfold alive; rewrite Ho; exact Hal).
    destruct (in_dec key_eq_dec k (o_nodes ow)) as [Hin|Hnin].
    { left. exists o, ow. split; [apply sub_refl; auto|auto]. }
    set (c1 := upd_owner o (clear_owner dead) c).
    assert (M1 : mono c c1) by apply mono_clear.
    assert (Hlift : forall c' x p b, mono c c' -> In x (o_children ow) -> sub c' x p ->
              nth_error (owners c') p = Some b -> In k (o_nodes b) ->
              exists p ow, sub c o p /\ nth_error (owners c) p = Some ow /\ In k (o_nodes ow)).
    { intros c' x p b M' Hx Hs Hb Hk. exists p, b. split; [|split; [|exact Hk]].
      - apply (sub_mono _ _ _ _ M') in Hs. eapply sub_trans; [|exact Hs].
        eapply sub_child; eauto. eapply sub_root_alive; eauto.
      - eapply sub_mono_owner; eauto. intros E. rewrite E in Hk. destruct Hk. }
    assert (Hkids : forall xs c', mono c c' -> get c' k = get c k -> incl xs (o_children ow) ->
              let c'' := fold_left (fun c ch => exec f (JCleanup ch) c) xs c' in
              (exists p ow, sub c o p /\ nth_error (owners c) p = Some ow /\ In k (o_nodes ow)) \/
              (mono c c'' /\ get c'' k = get c k)).
    { induction xs as [|x xs IHx]; intros c' M' E' Hin; cbn [fold_left]; [right; auto|].
      destruct (IH (JCleanup x) c' (wfs_mono _ _ M' W) k) as [(p & b & Hs & Hb & Hk)|Hu].
      - left. eapply Hlift; eauto. apply Hin. left. reflexivity.
      - apply IHx.
        + eapply mono_trans; [exact M'|apply exec_mono].
        + rewrite Hu. exact E'.
        + intros y Hy. apply Hin. right. exact Hy. }
    destruct (Hkids (o_children ow) c1 M1 eq_refl (incl_refl _)) as [H|(M2 & E2)]; [left; exact H|].
    set (c2 := fold_left (fun c ch => exec f (JCleanup ch) c) (o_children ow) c1) in *.
    set (c3 := add_log c2 (rev (map LClean (o_cleanups ow)))).
    assert (M3 : mono c c3) by (eapply mono_trans; [exact M2|apply mono_add_log]).
    assert (Hnodes : forall xs c', mono c c' -> get c' k = get c k -> incl xs (o_nodes ow) ->
              (exists p ow, sub c o p /\ nth_error (owners c) p = Some ow /\ In k (o_nodes ow)) \/
              get (fold_left (fun c k => exec f (JRemove k) c) xs c') k = get c k).
    { induction xs as [|x xs IHx]; intros c' M' E' Hin; cbn [fold_left]; [right; auto|].
      destruct (IH (JRemove x) c' (wfs_mono _ _ M' W) k) as [[->|(m & mo & p & b & Hg & Hs & Hb & Hk)]|Hu].
      - exfalso. apply Hnin. apply Hin. left. reflexivity.
      - left. destruct (mono_get c c' x M') as [E|E]; [|congruence]. rewrite Hg in E.
        pose proof (ws_memo c W o ow x m mo Ho (Hin x (or_introl eq_refl)) (eq_sym E)) as Hmo.
        eapply Hlift; eauto.
      - apply IHx.
        + eapply mono_trans; [exact M'|apply exec_mono].
        + rewrite Hu. exact E'.
        + intros y Hy. apply Hin. right. exact Hy. }
    apply Hnodes; auto. apply incl_refl. }
  destruct j as [o|o|k']; cbn [exec key_touched] in *.
  - destruct (nth_error (owners c) o) as [ow|] eqn:Ho; [|right; reflexivity].
    destruct (o_alive ow) eqn:Hal; [apply Hrel; auto|right; reflexivity].
  - destruct (nth_error (owners c) o) as [ow|] eqn:Ho; [|right; reflexivity].
    destruct (o_alive ow) eqn:Hal; [apply Hrel; auto|right; reflexivity].
  - destruct (Nat.eq_dec (fst k) (fst k')) as [E1|N1]; [destruct (Nat.eq_dec (snd k) (snd k')) as [E2|N2]|].
    + left. left. destruct k, k'; cbn in *; congruence.
    + assert (Hne : k <> k') by (intros ->; auto).
      pose proof (get_remove_other k k' c Hne) as Hg.
      pose proof (mono_remove k' c) as Hm.
      assert (Hit : fst (remove k' c) = get c k') by (unfold remove; destruct (get c k'); reflexivity).
      assert (Hown : owners (snd (remove k' c)) = owners c) by (unfold remove; destruct (get c k'); reflexivity).
      destruct (remove k' c) as [[it|] c'']; cbn in Hg, Hm, Hit, Hown; [|right; exact Hg].
      destruct it as [h|e|m mo]; try (right; exact Hg).
      destruct (IH (JDrop mo) c'' (wfs_mono _ _ Hm W) k) as [(p & b & Hs & Hb & Hk)|Hu].
      * left. right. exists m, mo, p, b. rewrite <- Hown. split; [auto|]. split; [|auto].
        eapply sub_mono; eauto.
      * right. rewrite Hu. exact Hg.
    + assert (Hne : k <> k') by (intros ->; auto).
      pose proof (get_remove_other k k' c Hne) as Hg.
      pose proof (mono_remove k' c) as Hm.
      assert (Hit : fst (remove k' c) = get c k') by (unfold remove; destruct (get c k'); reflexivity).
      assert (Hown : owners (snd (remove k' c)) = owners c) by (unfold remove; destruct (get c k'); reflexivity).
      destruct (remove k' c) as [[it|] c'']; cbn in Hg, Hm, Hit, Hown; [|right; exact Hg].
      destruct it as [h|e|m mo]; try (right; exact Hg).
      destruct (IH (JDrop mo) c'' (wfs_mono _ _ Hm W) k) as [(p & b & Hs & Hb & Hk)|Hu].
      * left. right. exists m, mo, p, b. rewrite <- Hown. split; [auto|]. split; [|auto].
        eapply sub_mono; eauto.
      * right. rewrite Hu. exact Hg.
Qed.

(** frame: a value registered with no owner of the subtree is untouched by the cleanup *)
Theorem outside_values_untouched : forall c o, wfs c -> forall k,
  (forall p ow, sub c o p -> nth_error (owners c) p = Some ow -> ~ In k (o_nodes ow)) ->
  get (cleanup o c) k = get c k.
Proof.
  intros c o W k H. destruct (exec_get_or (fuel_of c) (JCleanup o) c W k) as [(p & ow & Hs & Hp & Hk)|E];
    [|exact E]. exfalso. exact (H p ow Hs Hp Hk).
Qed.

(** * context lookup finds the nearest providing live ancestor *)
Inductive nearest (c : core) (ty : nat) : nat -> option Z -> Prop :=
| near_here o ow v : nth_error (owners c) o = Some ow -> assoc ty (o_ctx ow) = Some v ->
                     nearest c ty o (Some v)
| near_up o ow p r : nth_error (owners c) o = Some ow -> assoc ty (o_ctx ow) = None ->
                     o_parent ow = Some p -> alive c p = true -> nearest c ty p r ->
                     nearest c ty o r
| near_root o ow : nth_error (owners c) o = Some ow -> assoc ty (o_ctx ow) = None ->
                   o_parent ow = None -> nearest c ty o None
| near_dead o ow p : nth_error (owners c) o = Some ow -> assoc ty (o_ctx ow) = None ->
                     o_parent ow = Some p -> alive c p = false -> nearest c ty o None.

(** parents are older than their children *)
Definition wfp (c : core) : Prop :=
  forall q oq p, nth_error (owners c) q = Some oq -> o_parent oq = Some p -> p < q.

Lemma lookup_nearest c ty : wfp c -> forall fuel o, o < fuel -> o < length (owners c) ->
  nearest c ty o (lookup_ctx fuel c o ty).
Proof.
  intros Wp. induction fuel as [|f IH]; intros o Hf Hlen; [lia|]. cbn [lookup_ctx].
  destruct (nth_error (owners c) o) as [ow|] eqn:Ho.
  2: { apply nth_error_None in Ho. lia. }
  destruct (assoc ty (o_ctx ow)) as [v|] eqn:Ha; [eapply near_here; eauto|].
  destruct (o_parent ow) as [p|] eqn:Hp; [|eapply near_root; eauto].
  destruct (alive c p) eqn:Hal; [|eapply near_dead; eauto].
  pose proof (Wp o ow p Ho Hp) as Hlt.
  eapply near_up; eauto. apply IH; lia.
Qed.

Theorem context_nearest_ancestor : forall c o ty, wfp c -> o < length (owners c) ->
  nearest c ty o (use_ctx c o ty).
Proof. intros c o ty Wp Hlt. apply lookup_nearest; auto. Qed.

(** [take_context] / [update_context] act on the owner that holds the binding [use_context]
    returns: the value found there is the looked-up value *)
Definition ctx_at (c : core) (p : nat) (ty : nat) : option Z :=
  match nth_error (owners c) p with Some ow => assoc ty (o_ctx ow) | None => None end.

Lemma lookup_owner_ctx : forall fuel c o ty,
  lookup_ctx fuel c o ty = match lookup_owner fuel c o ty with Some p => ctx_at c p ty | None => None end.
Proof.
  induction fuel as [|f IH]; intros c o ty; cbn [lookup_ctx lookup_owner]; [reflexivity|].
  destruct (nth_error (owners c) o) as [ow|] eqn:Ho; [|reflexivity].
  destruct (assoc ty (o_ctx ow)) as [v|] eqn:Ha.
  - unfold ctx_at. rewrite Ho. symmetry. exact Ha.
  - destruct (o_parent ow) as [p|]; [|reflexivity].
    destruct (alive c p); [apply IH|reflexivity].
Qed.

Theorem provider_holds_binding : forall c o ty,
  use_ctx c o ty = match provider c o ty with Some p => ctx_at c p ty | None => None end.
Proof. intros. apply lookup_owner_ctx. Qed.

(** [nearest] is a function: the answer is determined by the ancestor chain *)
Lemma nearest_fun c ty o r1 r2 : nearest c ty o r1 -> nearest c ty o r2 -> r1 = r2.
Proof.
  intros Hn1. revert r2.
  induction Hn1 as [o ow v Ho Ha|o ow p r Ho Ha Hp Hal Hn IH|o ow Ho Ha Hp|o ow p Ho Ha Hp Hal];
    intros r2 Hn2; inversion Hn2; subst; try congruence.
  apply IH. congruence.
Qed.

(** * the invariant of reachable cores *)
Definition valid (c : core) (k : key) : Prop := get c k <> None.

Record cinv (c : core) : Prop := {
  ci_wfs : wfs c;
  ci_wfp : wfp c;
  ci_nd : nd c;
  ci_cid : forall cid, In cid (cids (clog c) ++ pending c) -> cid < next_cid c;
  (* registered keys were handed out by the arena: their version is not from the future *)
  ci_keys : forall p ow k, nth_error (owners c) p = Some ow -> In k (o_nodes ow) ->
            exists s, nth_error (slots c) (fst k) = Some s /\ snd k <= s_ver s;
  (* the free list names vacant slots, once each *)
  ci_free : NoDup (free c) /\
            forall i, In i (free c) -> exists s, nth_error (slots c) i = Some s /\ s_item s = None;
  (* no leak: what the arena holds is registered with a live owner *)
  ci_reg : err c = false -> unowned c = false -> forall k, valid c k ->
           exists p ow, nth_error (owners c) p = Some ow /\ o_alive ow = true /\ In k (o_nodes ow)
}.

Lemma cinv_core0 : cinv core0.
Proof.
  constructor.
  - constructor; intros [|p] ow; cbn; discriminate.
  - intros [|q]; cbn; discriminate.
  - constructor.
  - intros cid [].
  - intros [|p]; cbn; discriminate.
  - split; [constructor|intros i []].
  - intros _ _ k Hv. exfalso. apply Hv. unfold get. cbn. destruct (fst k); reflexivity.
Qed.

(** ** steps that do not touch the ownership skeleton: provide, pause, non-cleanup log entries,
       the error flag *)
Definition same_skel_owner (a b : owner) : Prop :=
  o_parent b = o_parent a /\ o_children b = o_children a /\ o_nodes b = o_nodes a /\
  o_cleanups b = o_cleanups a /\ o_alive b = o_alive a.

Record same_skel (c c' : core) : Prop := {
  sk_owners : Forall2 same_skel_owner (owners c) (owners c');
  sk_slots : slots c' = slots c;
  sk_free : free c' = free c;
  sk_cid : next_cid c' = next_cid c;
  sk_unowned : unowned c' = unowned c;
  sk_log : cids (clog c') = cids (clog c);
  sk_err : err c' = false -> err c = false
}.

Lemma skel_owner c c' p b : same_skel c c' -> nth_error (owners c') p = Some b ->
  exists a, nth_error (owners c) p = Some a /\ same_skel_owner a b.
Proof. intros S. exact (Forall2_nth_r _ _ _ (sk_owners _ _ S) p b). Qed.

Lemma skel_pending c c' : same_skel c c' -> pending c' = pending c.
Proof.
  intros S. unfold pending. pose proof (sk_owners _ _ S) as H.
  induction H as [|a b l l' (_ & _ & _ & Hc & _) _ IH]; cbn; [reflexivity|]. rewrite Hc, IH. reflexivity.
Qed.

Lemma skel_get c c' k : same_skel c c' -> get c' k = get c k.
Proof. intros S. unfold get. rewrite (sk_slots _ _ S). reflexivity. Qed.

Lemma cinv_skel c c' : same_skel c c' -> cinv c -> cinv c'.
Proof.
  intros S I. destruct I as [[Wc Wm] Wp Hnd Hcid Hkeys [Hf1 Hf2] Hreg].
  assert (Hlen : length (owners c') = length (owners c))
    by (symmetry; eapply Forall2_len, sk_owners, S).
  constructor.
  - constructor.
    + intros p b q Hb Hq. destruct (skel_owner _ _ _ _ S Hb) as (a & Ha & (_ & Hc & _)).
      rewrite Hc in Hq. rewrite Hlen. eauto.
    + intros p b k m mo Hb Hk Hg. destruct (skel_owner _ _ _ _ S Hb) as (a & Ha & (_ & Hc & Hn & _)).
      rewrite Hn in Hk. rewrite Hc. rewrite (skel_get _ _ _ S) in Hg. eauto.
  - intros q b p Hb Hp. destruct (skel_owner _ _ _ _ S Hb) as (a & Ha & (Hpa & _)).
    rewrite Hpa in Hp. eauto.
  - unfold nd. rewrite (sk_log _ _ S), (skel_pending _ _ S). exact Hnd.
  - rewrite (sk_log _ _ S), (skel_pending _ _ S), (sk_cid _ _ S). exact Hcid.
  - intros p b k Hb Hk. destruct (skel_owner _ _ _ _ S Hb) as (a & Ha & (_ & _ & Hn & _)).
    rewrite Hn in Hk. rewrite (sk_slots _ _ S). eauto.
  - rewrite (sk_free _ _ S), (sk_slots _ _ S). auto.
  - intros He Hu k Hv. unfold valid in Hv. rewrite (skel_get _ _ _ S) in Hv.
    rewrite (sk_unowned _ _ S) in Hu.
    destruct (Hreg (sk_err _ _ S He) Hu k Hv) as (p & a & Ha & Hal & Hk).
    destruct (Forall2_nth_l _ _ _ (sk_owners _ _ S) p a Ha) as (b & Hb & (_ & _ & Hn & _ & Hal')).
    exists p, b. rewrite Hn, Hal'. auto.
Qed.

Lemma skel_refl_owner a : same_skel_owner a a.
Proof. repeat split. Qed.

Lemma skel_upd_owner c o f :
  (forall a, same_skel_owner a (f a)) -> same_skel c (upd_owner o f c).
Proof.
  intros H. constructor; cbn; auto.
  apply Forall2_upd; [apply skel_refl_owner|intros; apply H].
Qed.

Lemma skel_provide c o ty v : same_skel c (provide o ty v c).
Proof. apply skel_upd_owner. intros a. repeat split. Qed.

Lemma skel_log c l : cids l = [] -> same_skel c (add_log c l).
Proof.
  intros H. constructor; cbn; auto; [apply Forall2_refl, skel_refl_owner|].
  rewrite cids_app, H. reflexivity.
Qed.

Lemma skel_set_err c : same_skel c (set_err c).
Proof. constructor; cbn; auto; [apply Forall2_refl, skel_refl_owner|discriminate]. Qed.

Lemma skel_trans a b c : same_skel a b -> same_skel b c -> same_skel a c.
Proof.
  intros [] []. constructor; try congruence; auto.
  eapply Forall2_trans; [|eauto|eauto].
  intros x y z (A1 & A2 & A3 & A4 & A5) (B1 & B2 & B3 & B4 & B5). repeat split; congruence.
Qed.
Lemma skel_refl c : same_skel c c.
Proof. constructor; auto. apply Forall2_refl, skel_refl_owner. Qed.

Lemma skel_set_paused fuel b : forall o c, same_skel c (set_paused fuel b o c).
Proof.
  induction fuel as [|f IH]; intros o c; [apply skel_set_err|]. cbn [set_paused].
  destruct (nth_error (owners c) o) as [ow|]; [|apply skel_refl].
  destruct (o_alive ow); [|apply skel_refl].
  assert (H : forall xs c0, same_skel c c0 ->
            same_skel c (fold_left (fun c ch => set_paused f b ch c) xs c0)).
  { induction xs as [|x xs IHx]; intros c0 S0; cbn; [exact S0|].
    apply IHx. eapply skel_trans; [exact S0|apply IH]. }
  apply H. apply skel_upd_owner. intros a. repeat split.
Qed.

(** ** the release cascade preserves the invariant *)
Definition free_ok (c : core) : Prop :=
  NoDup (free c) /\
  forall i, In i (free c) -> exists s, nth_error (slots c) i = Some s /\ s_item s = None.

Lemma exec_prim_ind (P : core -> Prop) :
  (forall c o dead, P c -> P (upd_owner o (clear_owner dead) c)) ->
  (forall c l, P c -> P (add_log c l)) ->
  (forall c k, P c -> P (snd (remove k c))) ->
  (forall c, P c -> P (set_err c)) ->
  forall f j c, P c -> P (exec f j c).
Proof.
  intros H1 H2 H3 H4. induction f as [|f IH]; intros j c Hc; [apply H4; exact Hc|].
  assert (Hfold : forall {X} (g : X -> core -> core) xs, (forall x c, P c -> P (g x c)) ->
            forall c, P c -> P (fold_left (fun c x => g x c) xs c)).
  { intros X g xs Hg. induction xs as [|x xs IHx]; intros c0 H0; cbn; auto. }
  destruct j as [o|o|k]; cbn [exec].
  - destruct (nth_error (owners c) o) as [ow|]; [|exact Hc]. destruct (o_alive ow); [|exact Hc].
    apply (Hfold _ (fun k c => exec f (JRemove k) c)); [intros; apply IH; auto|].
    apply H2. apply (Hfold _ (fun ch c => exec f (JCleanup ch) c)); [intros; apply IH; auto|].
    apply H1. exact Hc.
  - destruct (nth_error (owners c) o) as [ow|]; [|exact Hc]. destruct (o_alive ow); [|exact Hc].
    apply (Hfold _ (fun k c => exec f (JRemove k) c)); [intros; apply IH; auto|].
    apply H2. apply (Hfold _ (fun ch c => exec f (JCleanup ch) c)); [intros; apply IH; auto|].
    apply H1. exact Hc.
  - pose proof (H3 c k Hc) as H. destruct (remove k c) as [[it|] c'']; cbn in H; [|exact H].
    destruct it; try exact H. apply IH. exact H.
Qed.

Lemma free_ok_remove c k : free_ok c -> free_ok (snd (remove k c)).
Proof.
  intros [Hnd Hv]. unfold remove. destruct (get c k) as [it|] eqn:Hg; cbn; [|split; auto].
  unfold get in Hg. destruct (nth_error (slots c) (fst k)) as [s|] eqn:Hs; [|discriminate].
  destruct (s_ver s =? snd k); [|discriminate].
  split; cbn.
  - constructor; [|exact Hnd]. intros Hin. destruct (Hv _ Hin) as (s' & Hs' & Hn).
    rewrite Hs in Hs'. inversion Hs'; subst. congruence.
  - intros i [<-|Hin].
    + rewrite nth_error_upd_same, Hs. cbn. eauto.
    + destruct (Nat.eq_dec i (fst k)) as [->|Hne].
      * rewrite nth_error_upd_same, Hs. cbn. eauto.
      * rewrite nth_error_upd_other by exact Hne. auto.
Qed.

Lemma exec_free_ok f j c : free_ok c -> free_ok (exec f j c).
Proof.
  apply (exec_prim_ind free_ok); auto. intros c0 k. apply free_ok_remove.
Qed.

Lemma mono_slot_ver c c' i s : mono c c' -> nth_error (slots c) i = Some s ->
  exists s', nth_error (slots c') i = Some s' /\ s_ver s <= s_ver s'.
Proof.
  intros M Hs. destruct (Forall2_nth_l _ _ _ (mo_slots _ _ M) _ _ Hs) as (b & Hb & [E|(_ & Hlt)]);
    exists b; split; auto; [subst; lia|lia].
Qed.

Lemma cinv_exec f j c : cinv c -> cinv (exec f j c).
Proof.
  intros I. pose proof (exec_mono f j c) as M. pose proof (exec_conserve f j c) as K.
  destruct I as [W Wp Hnd Hcid Hkeys Hfree Hreg].
  constructor.
  - eapply wfs_mono; eauto.
  - intros q b p Hb Hp. destruct (mono_owner_r _ _ _ _ M Hb) as (a & Ha & [->|(_ & Hpa & _)]).
    + eauto.
    + rewrite Hpa in Hp. eauto.
  - eapply nd_conserve; eauto.
  - intros cid Hin. rewrite (mo_cid _ _ M). apply Hcid.
    eapply Permutation_in; [exact (proj1 K)|exact Hin].
  - intros p b k Hb Hk. destruct (mono_owner_r _ _ _ _ M Hb) as (a & Ha & [->|((_ & Hg & _) & _)]).
    + destruct (Hkeys p a k Ha Hk) as (s & Hs & Hv).
      destruct (mono_slot_ver _ _ _ _ M Hs) as (s' & Hs' & Hv'). exists s'. split; [auto|lia].
    + rewrite Hg in Hk. destruct Hk.
  - apply exec_free_ok. exact Hfree.
  - intros He Hu k Hv.
    assert (He0 : err c = false).
    { destruct (err c) eqn:E; [|reflexivity]. rewrite (mo_err _ _ M E) in He. discriminate. }
    rewrite (mo_unowned _ _ M) in Hu.
    assert (Hv0 : valid c k).
    { unfold valid in *. destruct (mono_get c _ k M) as [E|E]; congruence. }
    destruct (Hreg He0 Hu k Hv0) as (p & a & Ha & Hal & Hk).
    destruct (mono_owner _ _ _ _ M Ha) as (b & Hb & [->|(Hg & _)]).
    + exists p, a. auto.
    + exfalso. apply Hv. exact (proj2 (exec_closure f j c He p a b Ha Hb Hg) k Hk).
Qed.

Lemma cinv_cleanup o c : cinv c -> cinv (cleanup o c).
Proof. apply cinv_exec. Qed.
Lemma cinv_drop o c : cinv c -> cinv (drop_owner o c).
Proof. apply cinv_exec. Qed.
Lemma cinv_dispose k c : cinv c -> cinv (dispose k c).
Proof. apply cinv_exec. Qed.

(** ** creating an owner *)
Lemma pending_snoc l (x : owner) : o_cleanups x = [] ->
  concat (map o_cleanups (l ++ [x])) = concat (map o_cleanups l).
Proof. intros H. rewrite map_app, concat_app. cbn. rewrite H. cbn. rewrite !app_nil_r. reflexivity. Qed.

Lemma pending_upd_same l o f : (forall a, o_cleanups (f a) = o_cleanups a) ->
  concat (map o_cleanups (upd o f l)) = concat (map o_cleanups l).
Proof. intros H. f_equal. apply map_upd_id. exact H. Qed.

Definition add_child (n : nat) (ow : owner) : owner :=
  mkOwner (o_parent ow) (o_children ow ++ [n]) (o_nodes ow) (o_cleanups ow) (o_ctx ow)
          (o_paused ow) (o_alive ow).

Lemma new_owner_eq parent c :
  new_owner parent c =
  (length (owners c),
   let par := match parent with Some p => if alive c p then Some p else None | None => None end in
   let c1 := set_owners c (owners c ++ [mkOwner par [] [] [] [] false true]) in
   match par with Some p => upd_owner p (add_child (length (owners c))) c1 | None => c1 end).
Proof. reflexivity. Qed.

Lemma cinv_new_owner parent c : cinv c -> cinv (snd (new_owner parent c)).
Proof.
  intros I. rewrite new_owner_eq. cbn [snd].
  set (n := length (owners c)).
  set (par := match parent with Some p => if alive c p then Some p else None | None => None end).
  set (fresh := mkOwner par [] [] [] [] false true).
  set (c1 := set_owners c (owners c ++ [fresh])).
  assert (Hpar : forall p, par = Some p -> alive c p = true /\ p < n).
  { intros p Hp. unfold par in Hp. destruct parent as [p0|]; [|discriminate].
    destruct (alive c p0) eqn:Hal; [|discriminate]. inversion Hp; subst. split; [auto|].
    unfold alive in Hal. destruct (nth_error (owners c) p) eqn:E; [|discriminate].
    apply nth_error_Some. congruence. }
  set (c' := match par with Some p => upd_owner p (add_child n) c1 | None => c1 end).
  (* every owner of c' is an old one (children possibly extended by n) or the fresh one *)
  assert (Hnth : forall q b, nth_error (owners c') q = Some b ->
            (q < n /\ exists a, nth_error (owners c) q = Some a /\
                                (b = a \/ (b = add_child n a /\ par = Some q))) \/
            (q = n /\ b = fresh)).
  { intros q b Hb.
    assert (H1 : forall b', nth_error (owners c1) q = Some b' ->
              (q < n /\ nth_error (owners c) q = Some b') \/ (q = n /\ b' = fresh)).
    { intros b' Hb'. unfold c1 in Hb'. cbn in Hb'. rewrite nth_error_snoc in Hb'. fold n in Hb'.
      destruct (Nat.ltb_spec q n); [left; auto|].
      destruct (Nat.eqb_spec q n); [|discriminate]. inversion Hb'. right. auto. }
    unfold c' in Hb. destruct par as [p|] eqn:Ep.
    - destruct (Hpar p eq_refl) as (_ & Hpn).
      unfold upd_owner in Hb. cbn [owners set_owners] in Hb. rewrite nth_error_upd in Hb.
      destruct (Nat.eqb_spec q p) as [->|Hne].
      + destruct (nth_error (owners c1) p) as [a|] eqn:Ha; [|discriminate]. cbn in Hb. inversion Hb; subst b.
        destruct (H1 a eq_refl) as [(Hlt & Ha0)|(Hq & _)]; [|lia].
        left. split; [auto|]. exists a. split; [auto|]. right. auto.
      + destruct (H1 b Hb) as [(Hlt & Ha0)|(Hq & Hf)]; [left|right; auto].
        split; [auto|]. exists b. auto.
    - destruct (H1 b Hb) as [(Hlt & Ha0)|(Hq & Hf)]; [left|right; auto].
      split; [auto|]. exists b. auto. }
  assert (Hlen : length (owners c') = S n).
  { unfold c'. destruct par; unfold upd_owner, c1; cbn; rewrite ?length_upd, app_length; cbn; lia. }
  assert (Hslots : slots c' = slots c) by (unfold c'; destruct par; reflexivity).
  assert (Hfree : free c' = free c) by (unfold c'; destruct par; reflexivity).
  assert (Hlog : clog c' = clog c) by (unfold c'; destruct par; reflexivity).
  assert (Hcidn : next_cid c' = next_cid c) by (unfold c'; destruct par; reflexivity).
  assert (Herr : err c' = err c) by (unfold c'; destruct par; reflexivity).
  assert (Hun : unowned c' = unowned c) by (unfold c'; destruct par; reflexivity).
  assert (Hget : forall k, get c' k = get c k) by (intros k; unfold get; rewrite Hslots; reflexivity).
  assert (Hpend : pending c' = pending c).
  { unfold pending, c'. destruct par.
    - unfold upd_owner. cbn [owners set_owners]. rewrite pending_upd_same by reflexivity.
      unfold c1. cbn. apply pending_snoc. reflexivity.
    - unfold c1. cbn. apply pending_snoc. reflexivity. }
  (* old owners keep their place *)
  assert (Hold : forall q a, nth_error (owners c) q = Some a ->
            exists b, nth_error (owners c') q = Some b /\ o_alive b = o_alive a /\
                      o_nodes b = o_nodes a).
  { intros q a Ha. assert (Hq : q < n) by (apply nth_error_Some; congruence).
    assert (H1 : nth_error (owners c1) q = Some a).
    { unfold c1. cbn. rewrite nth_error_app1; auto. }
    unfold c'. destruct par as [p|].
    - unfold upd_owner. cbn [owners set_owners]. rewrite nth_error_upd.
      destruct (q =? p); [rewrite H1; cbn; eauto|eauto].
    - eauto. }
  destruct I as [[Wc Wm] Wp Hnd Hcid Hkeys Hfr Hreg].
  constructor.
  - constructor.
    + intros q b x Hb Hx. rewrite Hlen.
      destruct (Hnth q b Hb) as [(Hq & a & Ha & [->|(-> & Hp)])|(-> & ->)].
      * destruct (Wc q a x Ha Hx). fold n in H0. lia.
      * cbn in Hx. apply in_app_or in Hx as [Hx|[<-|[]]]; [|lia].
        destruct (Wc q a x Ha Hx). fold n in H0. lia.
      * destruct Hx.
    + intros q b k m mo Hb Hk Hg. rewrite Hget in Hg.
      destruct (Hnth q b Hb) as [(Hq & a & Ha & [->|(-> & Hp)])|(-> & ->)].
      * eauto.
      * cbn in Hk |- *. apply in_or_app. left. eauto.
      * destruct Hk.
  - intros q b p Hb Hp.
    destruct (Hnth q b Hb) as [(Hq & a & Ha & [->|(-> & _)])|(-> & ->)].
    + eauto.
    + cbn in Hp. eauto.
    + cbn in Hp. destruct (Hpar p Hp). lia.
  - unfold nd. rewrite Hlog, Hpend. exact Hnd.
  - rewrite Hlog, Hpend, Hcidn. exact Hcid.
  - intros q b k Hb Hk. rewrite Hslots.
    destruct (Hnth q b Hb) as [(Hq & a & Ha & [->|(-> & _)])|(-> & ->)]; [eauto|eauto|destruct Hk].
  - rewrite Hfree, Hslots. exact Hfr.
  - rewrite Herr, Hun. intros He Hu k Hv. unfold valid in Hv. rewrite Hget in Hv.
    destruct (Hreg He Hu k Hv) as (p & a & Ha & Hal & Hk).
    destruct (Hold p a Ha) as (b & Hb & Hal' & Hn'). exists p, b. rewrite Hal', Hn'. auto.
Qed.

(** after [new_owner (Some cur)]: the new owner is alive, and a child of [cur] if [cur] is alive *)
Lemma new_owner_child cur c : alive c cur = true ->
  let c' := snd (new_owner (Some cur) c) in
  let n := length (owners c) in
  alive c' cur = true /\ alive c' n = true /\
  exists ow, nth_error (owners c') cur = Some ow /\ In n (o_children ow).
Proof.
  intros Hal c' n. unfold c'. rewrite new_owner_eq. cbn [snd]. rewrite Hal. fold n.
  assert (Hlt : cur < n).
  { unfold alive in Hal. destruct (nth_error (owners c) cur) eqn:E; [|discriminate].
    apply nth_error_Some. congruence. }
  unfold alive in *. unfold upd_owner. cbn [owners set_owners].
  destruct (nth_error (owners c) cur) as [a|] eqn:Ha; [|discriminate].
  rewrite !nth_error_upd. rewrite Nat.eqb_refl.
  destruct (Nat.eqb_spec n cur); [lia|].
  rewrite nth_error_app1 by exact Hlt. rewrite Ha. cbn.
  rewrite nth_error_app2 by (fold n; lia). fold n. rewrite Nat.sub_diag. cbn.
  repeat split; auto. eexists. split; [reflexivity|]. cbn. apply in_or_app. right. left. reflexivity.
Qed.

(** ** registering a cleanup *)
Definition add_cleanup (cid : nat) (ow : owner) : owner :=
  mkOwner (o_parent ow) (o_children ow) (o_nodes ow) (o_cleanups ow ++ [cid]) (o_ctx ow)
          (o_paused ow) (o_alive ow).

Lemma pending_add (l : list owner) cid : forall o a, nth_error l o = Some a ->
  Permutation (concat (map o_cleanups (upd o (add_cleanup cid) l))) (cid :: concat (map o_cleanups l)).
Proof.
  induction l as [|x l IH]; intros [|o] a Hn; cbn in *; try discriminate.
  - rewrite <- app_assoc. cbn. symmetry. apply Permutation_middle.
  - rewrite (IH o a Hn). symmetry. apply Permutation_middle.
Qed.

Lemma cinv_reg_cleanup o c : cinv c -> cinv (reg_cleanup o c).
Proof.
  intros I. unfold reg_cleanup.
  set (cid := next_cid c).
  set (c1 := mkCore (owners c) (slots c) (free c) (clog c) (S cid) (err c) (unowned c)).
  assert (I1 : cinv c1).
  { destruct I as [[Wc Wm] Wp Hnd Hcid Hkeys Hfr Hreg].
    constructor; [constructor; [exact Wc|exact Wm]|exact Wp|exact Hnd| |exact Hkeys|exact Hfr|exact Hreg].
    intros x Hx. specialize (Hcid x Hx). fold cid in Hcid. cbn. lia. }
  destruct (alive c o) eqn:Hal; [|exact I1].
  unfold alive in Hal. destruct (nth_error (owners c) o) as [a|] eqn:Ha; [|discriminate].
  assert (S1 : Forall2 same_skel_owner (owners c1) (owners c1)) by apply Forall2_refl, skel_refl_owner.
  destruct I1 as [[Wc Wm] Wp Hnd Hcid Hkeys Hfr Hreg].
  assert (Hnth : forall q b, nth_error (owners (upd_owner o (add_cleanup cid) c1)) q = Some b ->
            exists a', nth_error (owners c) q = Some a' /\ o_children b = o_children a' /\
                       o_nodes b = o_nodes a' /\ o_parent b = o_parent a' /\ o_alive b = o_alive a').
  { intros q b Hb. unfold upd_owner in Hb. cbn in Hb. rewrite nth_error_upd in Hb.
    destruct (q =? o).
    - destruct (nth_error (owners c) q) as [a'|]; [|discriminate]. inversion Hb. exists a'. auto.
    - exists b. auto. }
  assert (P : Permutation (pending (upd_owner o (add_cleanup cid) c1)) (cid :: pending c)).
  { unfold pending, upd_owner. cbn. eapply pending_add. exact Ha. }
  assert (Hfresh : ~ In cid (cids (clog c) ++ pending c)).
  { intros Hin. destruct I as [_ _ _ Hc _ _ _]. specialize (Hc cid Hin). unfold cid in Hc. lia. }
  constructor.
  - constructor.
    + intros q b x Hb Hx. destruct (Hnth q b Hb) as (a' & Ha' & Hc & _). rewrite Hc in Hx.
      unfold upd_owner. cbn. rewrite length_upd. exact (Wc q a' x Ha' Hx).
    + intros q b k m mo Hb Hk Hg. destruct (Hnth q b Hb) as (a' & Ha' & Hc & Hn & _).
      rewrite Hn in Hk. rewrite Hc. exact (Wm q a' k m mo Ha' Hk Hg).
  - intros q b p Hb Hp. destruct (Hnth q b Hb) as (a' & Ha' & _ & _ & Hpa & _).
    rewrite Hpa in Hp. exact (Wp q a' p Ha' Hp).
  - unfold nd in *. cbn [clog upd_owner set_owners].
    eapply Permutation_NoDup.
    + symmetry. etransitivity; [apply Permutation_app_head; exact P|]. symmetry. apply Permutation_middle.
    + constructor; [exact Hfresh|exact Hnd].
  - intros x Hx. cbn [next_cid upd_owner set_owners c1].
    assert (Hx' : In x (cid :: cids (clog c) ++ pending c)).
    { eapply Permutation_in; [|exact Hx]. cbn [clog upd_owner set_owners c1].
      etransitivity; [apply Permutation_app_head; exact P|]. symmetry. apply Permutation_middle. }
    destruct Hx' as [<-|Hx']; [unfold cid; lia|]. specialize (Hcid x Hx'). cbn in Hcid. exact Hcid.
  - intros q b k Hb Hk. destruct (Hnth q b Hb) as (a' & Ha' & _ & Hn & _). rewrite Hn in Hk.
    exact (Hkeys q a' k Ha' Hk).
  - exact Hfr.
  - intros He Hu k Hv. destruct (Hreg He Hu k Hv) as (p & a' & Ha' & Hal' & Hk).
    cbn in Ha'. unfold upd_owner. cbn [owners set_owners c1]. 
    destruct (Nat.eq_dec p o) as [->|Hne].
    + exists o, (add_cleanup cid a'). rewrite nth_error_upd_same, Ha'. cbn. auto.
    + exists p, a'. rewrite nth_error_upd_other by exact Hne. auto.
Qed.

(** ** allocating a value *)
Record insert_ok (it : item) (c : core) (k : key) (c' : core) : Prop := {
  io_owners : owners c' = owners c;
  io_log : clog c' = clog c;
  io_cid : next_cid c' = next_cid c;
  io_err : err c' = err c;
  io_unowned : unowned c' = unowned c;
  io_get : get c' k = Some it;
  io_other : forall k', k' <> k -> get c' k' = get c k';
  io_ver : forall i s, nth_error (slots c) i = Some s ->
           exists s', nth_error (slots c') i = Some s' /\ s_ver s <= s_ver s';
  io_slot : exists s, nth_error (slots c') (fst k) = Some s /\ s_ver s = snd k;
  io_fresh : ~ exists s, nth_error (slots c) (fst k) = Some s /\ snd k <= s_ver s;
  io_free : free_ok c'
}.

Lemma insert_spec it c : free_ok c -> insert_ok it c (fst (insert it c)) (snd (insert it c)).
Proof.
  intros [Hnd Hv]. unfold insert.
  assert (Hfreshcase : forall fr, (fr = [] \/ True) -> free_ok (set_arena c (slots c ++ [mkSlot 1 (Some it)]) fr) ->
            insert_ok it c (length (slots c), 1) (set_arena c (slots c ++ [mkSlot 1 (Some it)]) fr)).
  { intros fr _ Hfo. constructor; cbn; auto.
    - unfold get. cbn. rewrite nth_error_app2, Nat.sub_diag by lia. reflexivity.
    - intros k' Hne. unfold get. cbn. destruct (Nat.lt_ge_cases (fst k') (length (slots c))) as [Hlt|Hge].
      + rewrite nth_error_app1 by exact Hlt. reflexivity.
      + rewrite nth_error_app2 by exact Hge.
        assert (Hn : nth_error (slots c) (fst k') = None) by (apply nth_error_None; exact Hge).
        rewrite Hn. destruct (fst k' - length (slots c)) as [|d] eqn:Ed; cbn [nth_error s_ver s_item].
        * destruct (Nat.eqb_spec 1 (snd k')); [|reflexivity]. exfalso. apply Hne.
          destruct k'; cbn in *. f_equal; lia.
        * destruct d; reflexivity.
    - intros i s Hs. exists s. split; [|lia]. rewrite nth_error_app1; [exact Hs|].
      apply nth_error_Some. congruence.
    - exists (mkSlot 1 (Some it)). rewrite nth_error_app2, Nat.sub_diag by lia. auto.
    - intros (s & Hs & _). cbn in Hs.
      assert (Hn : nth_error (slots c) (length (slots c)) = None) by (apply nth_error_None; lia).
      congruence. }
  destruct (free c) as [|i fr] eqn:Ef.
  - cbn [fst snd]. apply Hfreshcase; [auto|]. split; cbn; [constructor|intros ? []].
  - destruct (Hv i (or_introl eq_refl)) as (s & Hs & Hvac). rewrite Hs. cbn [fst snd].
    inversion Hnd as [|? ? Hni Hnd']; subst.
    constructor; cbn; auto.
    + unfold get. cbn. rewrite nth_error_upd_same, Hs. cbn. rewrite Nat.eqb_refl. reflexivity.
    + intros k' Hne. unfold get. cbn. destruct (Nat.eq_dec (fst k') i) as [E|E].
      * rewrite E, nth_error_upd_same, Hs. cbn [option_map s_ver s_item]. rewrite Hvac.
        destruct (Nat.eqb_spec (S (s_ver s)) (snd k')) as [E2|_].
        -- exfalso. apply Hne. destruct k'; cbn in *. subst. reflexivity.
        -- destruct (s_ver s =? snd k'); reflexivity.
      * rewrite nth_error_upd_other by exact E. reflexivity.
    + intros j sj Hj. destruct (Nat.eq_dec j i) as [->|E].
      * rewrite nth_error_upd_same, Hs. cbn. rewrite Hs in Hj. inversion Hj; subst. eexists. split; [reflexivity|cbn; lia].
      * rewrite nth_error_upd_other by exact E. exists sj. split; [auto|lia].
    + rewrite nth_error_upd_same, Hs. cbn. eexists. split; [reflexivity|reflexivity].
    + intros (s' & Hs' & Hle). rewrite Hs in Hs'. inversion Hs'; subst. lia.
    + split; cbn; [exact Hnd'|]. intros j Hj.
      assert (j <> i) by (intros ->; contradiction).
      rewrite nth_error_upd_other by auto. apply Hv. right. exact Hj.
Qed.

Definition add_node (k : key) (ow : owner) : owner :=
  mkOwner (o_parent ow) (o_children ow) (o_nodes ow ++ [k]) (o_cleanups ow) (o_ctx ow)
          (o_paused ow) (o_alive ow).

Lemma alloc_eq o it c :
  alloc o it c =
  let k := fst (insert it c) in let c1 := snd (insert it c) in
  if alive c o then (k, upd_owner o (add_node k) c1)
  else (k, mkCore (owners c1) (slots c1) (free c1) (clog c1) (next_cid c1) (err c1) true).
Proof. unfold alloc. destruct (insert it c). reflexivity. Qed.

(** [memo_ok]: if the new item is a memo, its owner is already a child of the current owner *)
Definition memo_ok (c : core) (o : nat) (it : item) : Prop :=
  match it with
  | IMemo _ mo => alive c o = true -> exists ow, nth_error (owners c) o = Some ow /\ In mo (o_children ow)
  | _ => True
  end.

Lemma cinv_alloc o it c : cinv c -> memo_ok c o it -> cinv (snd (alloc o it c)).
Proof.
  intros I Hmo. rewrite alloc_eq. cbn zeta.
  destruct I as [[Wc Wm] Wp Hnd Hcid Hkeys Hfr Hreg].
  pose proof (insert_spec it c Hfr) as IO.
  set (k := fst (insert it c)) in *. set (c1 := snd (insert it c)) in *.
  destruct IO as [Eo El Ec Ee Eu Hgk Hoth Hver Hslot Hfresh Hfo].
  (* k is not registered anywhere *)
  assert (Hnotreg : forall p a, nth_error (owners c) p = Some a -> ~ In k (o_nodes a)).
  { intros p a Ha Hin. apply Hfresh. exact (Hkeys p a k Ha Hin). }
  assert (Hpend1 : pending c1 = pending c) by (unfold pending; rewrite Eo; reflexivity).
  destruct (alive c o) eqn:Hal; cbn [snd].
  - unfold alive in Hal. destruct (nth_error (owners c) o) as [ao|] eqn:Hao; [|discriminate].
    assert (Hnth : forall q b, nth_error (owners (upd_owner o (add_node k) c1)) q = Some b ->
              exists a, nth_error (owners c) q = Some a /\ o_children b = o_children a /\
                        o_parent b = o_parent a /\ o_alive b = o_alive a /\ o_cleanups b = o_cleanups a /\
                        (o_nodes b = o_nodes a \/ (q = o /\ o_nodes b = o_nodes a ++ [k]))).
    { intros q b Hb. unfold upd_owner in Hb. cbn in Hb. rewrite Eo, nth_error_upd in Hb.
      destruct (Nat.eqb_spec q o) as [->|].
      - rewrite Hao in Hb. cbn in Hb. inversion Hb. exists ao. cbn. repeat split; auto.
      - exists b. repeat split; auto. }
    assert (Hpend : pending (upd_owner o (add_node k) c1) = pending c).
    { unfold pending, upd_owner. cbn. rewrite pending_upd_same by reflexivity. rewrite Eo. reflexivity. }
    constructor.
    + constructor.
      * intros q b x Hb Hx. destruct (Hnth q b Hb) as (a & Ha & Hc & _). rewrite Hc in Hx.
        unfold upd_owner. cbn. rewrite length_upd, Eo. eauto.
      * intros q b k' m mo Hb Hk' Hg. destruct (Hnth q b Hb) as (a & Ha & Hc & _ & _ & _ & Hn).
        rewrite Hc. change (get (upd_owner o (add_node k) c1) k') with (get c1 k') in Hg.
        destruct (key_eq_dec k' k) as [->|Hne].
        -- rewrite Hgk in Hg. inversion Hg; subst it.
           destruct Hn as [Hn|(-> & Hn)].
           ++ exfalso. rewrite Hn in Hk'. exact (Hnotreg q a Ha Hk').
           ++ cbn in Hmo. assert (Halo : alive c o = true) by (unfold alive; rewrite Hao; exact Hal).
              destruct (Hmo Halo) as (ow & Hw & Hin). rewrite Hao in Hw, Ha.
              inversion Hw; inversion Ha; subst. exact Hin.
        -- rewrite (Hoth k' Hne) in Hg. destruct Hn as [Hn|(-> & Hn)]; rewrite Hn in Hk'.
           ++ eauto.
           ++ apply in_app_or in Hk' as [Hk'|[E|[]]]; [eauto|congruence].
    + intros q b p Hb Hp. destruct (Hnth q b Hb) as (a & Ha & _ & Hpa & _). rewrite Hpa in Hp. eauto.
    + unfold nd. change (clog (upd_owner o (add_node k) c1)) with (clog c1). rewrite El, Hpend. exact Hnd.
    + change (clog (upd_owner o (add_node k) c1)) with (clog c1).
      change (next_cid (upd_owner o (add_node k) c1)) with (next_cid c1). rewrite El, Hpend, Ec. exact Hcid.
    + intros q b k' Hb Hk'. change (slots (upd_owner o (add_node k) c1)) with (slots c1).
      destruct (Hnth q b Hb) as (a & Ha & _ & _ & _ & _ & Hn).
      assert (Hold : In k' (o_nodes a) -> exists s, nth_error (slots c1) (fst k') = Some s /\ snd k' <= s_ver s).
      { intros Hin. destruct (Hkeys q a k' Ha Hin) as (s & Hs & Hle).
        destruct (Hver _ _ Hs) as (s' & Hs' & Hle'). exists s'. split; [auto|lia]. }
      destruct Hn as [Hn|(-> & Hn)]; rewrite Hn in Hk'; [auto|].
      apply in_app_or in Hk' as [Hk'|[<-|[]]]; [auto|].
      destruct Hslot as (s & Hs & Hv). exists s. split; [auto|lia].
    + exact Hfo.
    + change (err (upd_owner o (add_node k) c1)) with (err c1).
      change (unowned (upd_owner o (add_node k) c1)) with (unowned c1). rewrite Ee, Eu.
      intros He Hu k' Hv. unfold valid in Hv.
      change (get (upd_owner o (add_node k) c1) k') with (get c1 k') in Hv.
      unfold upd_owner. cbn [owners set_owners]. rewrite Eo.
      destruct (key_eq_dec k' k) as [->|Hne].
      * exists o, (add_node k ao). rewrite nth_error_upd_same, Hao. cbn. repeat split; auto.
        apply in_or_app. right. left. reflexivity.
      * rewrite (Hoth k' Hne) in Hv. destruct (Hreg He Hu k' Hv) as (p & a & Ha & Hala & Hk).
        destruct (Nat.eq_dec p o) as [->|Hpo].
        -- rewrite Hao in Ha. inversion Ha; subst a. exists o, (add_node k ao).
           rewrite nth_error_upd_same, Hao. cbn. repeat split; auto. apply in_or_app. left. exact Hk.
        -- exists p, a. rewrite nth_error_upd_other by exact Hpo. auto.
  - (* nothing owns the value: only the ghost flag records it *)
    constructor; cbn.
    + constructor.
      * intros q b x Hb Hx. rewrite Eo in *. eauto.
      * intros q b k' m mo Hb Hk' Hg. rewrite Eo in Hb.
        change (get _ k') with (get c1 k') in Hg.
        destruct (key_eq_dec k' k) as [->|Hne]; [exfalso; exact (Hnotreg q b Hb Hk')|].
        rewrite (Hoth k' Hne) in Hg. eauto.
    + intros q b p Hb Hp. rewrite Eo in Hb. eauto.
    + unfold nd, pending. cbn. rewrite El, Eo. exact Hnd.
    + unfold pending. cbn. rewrite El, Eo, Ec. exact Hcid.
    + intros q b k' Hb Hk'. rewrite Eo in Hb. destruct (Hkeys q b k' Hb Hk') as (s & Hs & Hle).
      destruct (Hver _ _ Hs) as (s' & Hs' & Hle'). exists s'. split; [auto|lia].
    + exact Hfo.
    + intros _ Hu. discriminate.
Qed.

(** * arena versions only grow: no ABA *)
Definition slot_ge (a b : slot) : Prop := b = a \/ s_ver a < s_ver b.
Definition arena_le (c c' : core) : Prop :=
  forall i s, nth_error (slots c) i = Some s ->
  exists s', nth_error (slots c') i = Some s' /\ slot_ge s s'.

Lemma arena_le_refl c : arena_le c c.
Proof. intros i s Hs. exists s. split; [auto|left; reflexivity]. Qed.
Lemma arena_le_trans a b c : arena_le a b -> arena_le b c -> arena_le a c.
Proof.
  intros H1 H2 i s Hs. destruct (H1 i s Hs) as (s1 & Hs1 & G1). destruct (H2 i s1 Hs1) as (s2 & Hs2 & G2).
  exists s2. split; [auto|]. destruct G1 as [->|G1], G2 as [->|G2]; unfold slot_ge; auto. right. lia.
Qed.
Lemma arena_le_same c c' : slots c' = slots c -> arena_le c c'.
Proof. intros E i s Hs. exists s. rewrite E. split; [auto|left; reflexivity]. Qed.
Lemma arena_le_mono c c' : mono c c' -> arena_le c c'.
Proof.
  intros M i s Hs. destruct (Forall2_nth_l _ _ _ (mo_slots _ _ M) _ _ Hs) as (b & Hb & [E|(_ & Hlt)]);
    exists b; split; auto; [left; exact E|right; exact Hlt].
Qed.

Lemma arena_le_insert it c : free_ok c -> arena_le c (snd (insert it c)).
Proof.
  intros [Hnd Hv] i s Hs. unfold insert. destruct (free c) as [|j fr] eqn:Ef.
  - cbn. exists s. split; [|left; reflexivity]. rewrite nth_error_app1; [auto|]. apply nth_error_Some; congruence.
  - destruct (Hv j (or_introl eq_refl)) as (sj & Hsj & _). rewrite Hsj. cbn.
    destruct (Nat.eq_dec i j) as [->|Hne].
    + rewrite nth_error_upd_same, Hsj. cbn. eexists. split; [reflexivity|].
      rewrite Hsj in Hs. inversion Hs; subst. right. cbn. lia.
    + rewrite nth_error_upd_other by exact Hne. exists s. split; [auto|left; reflexivity].
Qed.

(** a key that resolved and no longer does is stale for ever *)
Definition stale (c : core) (k : key) : Prop :=
  exists s, nth_error (slots c) (fst k) = Some s /\ snd k < s_ver s.

Lemma stale_get c k : stale c k -> get c k = None.
Proof.
  intros (s & Hs & Hlt). unfold get. rewrite Hs. destruct (Nat.eqb_spec (s_ver s) (snd k)); [lia|reflexivity].
Qed.
Lemma stale_le c c' k : arena_le c c' -> stale c k -> stale c' k.
Proof.
  intros H (s & Hs & Hlt). destruct (H _ _ Hs) as (s' & Hs' & [E|G]); exists s'; split; auto; [subst; lia|lia].
Qed.
Lemma disposed_is_stale c c' k : arena_le c c' -> contains c k = true -> contains c' k = false -> stale c' k.
Proof.
  intros H Hc Hn. unfold contains, get in *.
  destruct (nth_error (slots c) (fst k)) as [s|] eqn:Hs; [|discriminate].
  destruct (Nat.eqb_spec (s_ver s) (snd k)) as [Ev|]; [|discriminate].
  destruct (H _ _ Hs) as (s' & Hs' & [->|G]).
  - rewrite Hs', Ev, Nat.eqb_refl in Hn. destruct (s_item s); discriminate.
  - exists s'. split; [auto|lia].
Qed.

(** * one relation for every step: keeps the invariant, never lowers a version, never forgets
      an owner *)
Definition cstep_ok (c c' : core) : Prop :=
  (cinv c -> cinv c') /\ arena_le c c' /\ length (owners c) <= length (owners c').

Lemma cstep_refl c : cstep_ok c c.
Proof. split; [auto|split; [apply arena_le_refl|lia]]. Qed.
Lemma cstep_trans a b c : cstep_ok a b -> cstep_ok b c -> cstep_ok a c.
Proof. intros (I1 & A1 & L1) (I2 & A2 & L2). split; [auto|split; [eapply arena_le_trans; eauto|lia]]. Qed.

Lemma cstep_skel c c' : same_skel c c' -> cstep_ok c c'.
Proof.
  intros S. split; [apply cinv_skel; auto|split; [apply arena_le_same, (sk_slots _ _ S)|]].
  rewrite (Forall2_len _ _ _ (sk_owners _ _ S)). lia.
Qed.
Lemma cstep_exec f j c : cstep_ok c (exec f j c).
Proof.
  split; [apply cinv_exec|split; [apply arena_le_mono, exec_mono|]].
  rewrite (mono_len _ _ (exec_mono f j c)). lia.
Qed.
Lemma cstep_new_owner parent c : cstep_ok c (snd (new_owner parent c)).
Proof.
  split; [apply cinv_new_owner|]. rewrite new_owner_eq. cbn [snd].
  destruct (match parent with Some p => if alive c p then Some p else None | None => None end);
    (split; [apply arena_le_same; reflexivity|]); unfold upd_owner; cbn;
    rewrite ?length_upd, app_length; lia.
Qed.
Lemma cstep_reg o c : cstep_ok c (reg_cleanup o c).
Proof.
  split; [apply cinv_reg_cleanup|]. unfold reg_cleanup.
  destruct (alive c o); (split; [apply arena_le_same; reflexivity|]); unfold upd_owner; cbn;
    rewrite ?length_upd; lia.
Qed.
Lemma cstep_alloc o it c : (cinv c -> memo_ok c o it) -> cstep_ok c (snd (alloc o it c)).
Proof.
  intros Hm. split; [intros I; apply cinv_alloc; auto|].
  assert (Hown : length (owners (snd (insert it c))) = length (owners c)).
  { unfold insert. destruct (free c) as [|j fr]; [reflexivity|].
    destruct (nth_error (slots c) j); reflexivity. }
  assert (Har : arena_le c (snd (insert it c))).
  { intros i s Hs. unfold insert. destruct (free c) as [|j fr] eqn:Ef.
    - cbn. exists s. split; [|left; reflexivity]. rewrite nth_error_app1; [auto|]. apply nth_error_Some; congruence.
    - destruct (nth_error (slots c) j) as [sj|] eqn:Hsj; cbn.
      + destruct (Nat.eq_dec i j) as [->|Hne].
        * rewrite nth_error_upd_same, Hsj. cbn. eexists. split; [reflexivity|].
          rewrite Hsj in Hs. inversion Hs; subst. right. cbn. lia.
        * rewrite nth_error_upd_other by exact Hne. exists s. split; [auto|left; reflexivity].
      + exists s. split; [|left; reflexivity]. rewrite nth_error_app1; [auto|]. apply nth_error_Some; congruence. }
  rewrite alloc_eq. cbn zeta. destruct (alive c o); cbn [snd]; (split; [exact Har|]).
  - unfold upd_owner. cbn. rewrite length_upd. lia.
  - cbn. lia.
Qed.

(** * every program step is made of such steps *)
(** owners named by effects and memos exist *)
Definition bwf (s : bstate) : Prop :=
  Forall (fun e => e_owner e < length (owners (b_core s))) (effs s) /\
  Forall (fun m => m_owner m < length (owners (b_core s))) (memos s) /\
  Forall (fun m => i_owner m < length (owners (b_core s))) (imms s).

Definition bstep_ok (s s' : bstate) : Prop :=
  cstep_ok (b_core s) (b_core s') /\ (bwf s -> bwf s').

Lemma bstep_refl s : bstep_ok s s. Proof. split; [apply cstep_refl|auto]. Qed.
Lemma bstep_trans a b c : bstep_ok a b -> bstep_ok b c -> bstep_ok a c.
Proof. intros [C1 W1] [C2 W2]. split; [eapply cstep_trans; eauto|auto]. Qed.
Lemma bstep_len s s' : bstep_ok s s' -> length (owners (b_core s)) <= length (owners (b_core s')).
Proof. intros [(_ & _ & H) _]. exact H. Qed.

Lemma Forall_lt_mono {A} (f : A -> nat) n n' l : n <= n' -> Forall (fun x => f x < n) l -> Forall (fun x => f x < n') l.
Proof. intros Hle H. eapply Forall_impl; [|exact H]. cbn. intros; lia. Qed.

Lemma bwf_grow s s' : effs s' = effs s -> memos s' = memos s -> imms s' = imms s ->
  length (owners (b_core s)) <= length (owners (b_core s')) -> bwf s -> bwf s'.
Proof.
  intros Ee Em Ei Hl (H1 & H2 & H3). unfold bwf. rewrite Ee, Em, Ei.
  repeat split; eapply Forall_lt_mono; eauto.
Qed.

(** a step that only changes the core *)
Lemma bstep_core s c : cstep_ok (b_core s) c -> bstep_ok s (set_core s c).
Proof. intros H. split; [exact H|]. apply bwf_grow; auto. destruct H as (_ & _ & H). exact H. Qed.

Lemma new_owner_memo_ok cur m c : cur < length (owners c) ->
  memo_ok (snd (new_owner (Some cur) c)) cur (IMemo m (length (owners c))).
Proof.
  intros Hlt. cbn [memo_ok]. intros Hal.
  destruct (alive c cur) eqn:Hc.
  - destruct (new_owner_child cur c Hc) as (_ & _ & H). exact H.
  - exfalso. rewrite new_owner_eq in Hal. cbn [snd] in Hal. rewrite Hc in Hal.
    unfold alive in *. cbn in Hal. rewrite nth_error_app1 in Hal by exact Hlt. congruence.
Qed.

Lemma blog_ok s l : cids l = [] -> bstep_ok s (blog s l).
Proof. intros H. apply bstep_core, cstep_skel, skel_log, H. Qed.

Lemma new_owner_len parent c : length (owners (snd (new_owner parent c))) = S (length (owners c)).
Proof.
  rewrite new_owner_eq. cbn [snd].
  destruct (match parent with Some p => if alive c p then Some p else None | None => None end);
    unfold upd_owner; cbn; rewrite ?length_upd, app_length; cbn; lia.
Qed.

Lemma exec_stmt_ok : forall st cur s, cur < length (owners (b_core s)) -> bstep_ok s (exec_stmt cur st s).
Proof.
  fix IH 1. intros st cur s Hcur.
  destruct st as [| |kind| |ty v|ty|ty|ty v|b|b|b|b|b]; cbn [exec_stmt].
  - pose proof (cstep_alloc cur (IVal (length (handles s))) (b_core s) (fun _ => I)) as H.
    destruct (alloc cur (IVal (length (handles s))) (b_core s)) as [k c]. cbn [snd] in H.
    split; [exact H|]. apply bwf_grow; auto. destruct H as (_ & _ & H). exact H.
  - pose proof (cstep_alloc cur (IVal (length (handles s))) (b_core s) (fun _ => I)) as H.
    destruct (alloc cur (IVal (length (handles s))) (b_core s)) as [k c]. cbn [snd] in H.
    split; [exact H|]. apply bwf_grow; auto. destruct H as (_ & _ & H). exact H.
  - pose proof (cstep_alloc cur (IVal (length (handles s))) (b_core s) (fun _ => I)) as H.
    destruct (alloc cur (IVal (length (handles s))) (b_core s)) as [k c]. cbn [snd] in H.
    split; [exact H|]. apply bwf_grow; auto. destruct H as (_ & _ & H). exact H.
  - apply bstep_core, cstep_reg.
  - apply bstep_core, cstep_skel, skel_provide.
  - apply blog_ok. reflexivity.
  - eapply bstep_trans; [|apply blog_ok; reflexivity].
    apply bstep_core, cstep_skel. unfold take_ctx.
    destruct (provider (b_core s) cur ty); [|apply skel_refl].
    apply skel_upd_owner. intros a. repeat split.
  - eapply bstep_trans; [|apply blog_ok; reflexivity].
    apply bstep_core, cstep_skel. unfold update_ctx.
    destruct (provider (b_core s) cur ty); [apply skel_provide|apply skel_refl].
  - pose proof (cstep_new_owner (Some cur) (b_core s)) as H.
    pose proof (new_owner_len (Some cur) (b_core s)) as Hl.
    assert (Ho : fst (new_owner (Some cur) (b_core s)) = length (owners (b_core s))) by reflexivity.
    destruct (new_owner (Some cur) (b_core s)) as [o c]. cbn [fst snd] in *. subst o.
    set (o := length (owners (b_core s))) in *.
    set (s1 := mkB c (effs s) (memos s) (handles s) (holders s ++ [(HUser true, b)]) (allkeys s) (imms s)).
    assert (H1 : bstep_ok s s1).
    { split; [exact H|]. apply bwf_grow; auto. cbn. lia. }
assert (Hgo : forall l sx, o < length (owners (b_core sx)) ->
              bstep_ok sx ((fix go (l : list stmt) (s : bstate) : bstate :=
                              match l with [] => s | x :: r => go r (exec_stmt o x s) end) l sx)).
    { induction l as [|x l IHl]; intros sx Hs0; [apply bstep_refl|].
      pose proof (IH x o sx Hs0) as Hx.
      eapply bstep_trans; [exact Hx|]. apply IHl. pose proof (bstep_len _ _ Hx). lia. }
    eapply bstep_trans; [exact H1|]. apply Hgo. cbn. lia.
  - pose proof (cstep_new_owner (Some cur) (b_core s)) as H.
    pose proof (new_owner_len (Some cur) (b_core s)) as Hl.
    assert (Ho : fst (new_owner (Some cur) (b_core s)) = length (owners (b_core s))) by reflexivity.
    destruct (new_owner (Some cur) (b_core s)) as [o c]. cbn [fst snd] in *. subst o.
    pose proof (cstep_alloc cur (IEffect (length (effs s))) c (fun _ => I)) as H2.
    destruct (alloc cur (IEffect (length (effs s))) c) as [k c2]. cbn [snd] in H2.
    pose proof (cstep_trans _ _ _ H H2) as H3. split; [exact H3|].
    intros (W1 & W2 & W3). destruct H2 as (_ & _ & Hle2). repeat split; cbn [effs memos imms b_core].
    + apply Forall_app. split.
      * eapply Forall_lt_mono; [|exact W1]. lia.
      * constructor; [cbn; lia|constructor].
    + eapply Forall_lt_mono; [|exact W2]. lia.
    + eapply Forall_lt_mono; [|exact W3]. lia.
  - pose proof (cstep_new_owner (Some cur) (b_core s)) as H.
    pose proof (new_owner_len (Some cur) (b_core s)) as Hl.
    pose proof (new_owner_memo_ok cur (length (memos s)) (b_core s) Hcur) as Hm.
    assert (Ho : fst (new_owner (Some cur) (b_core s)) = length (owners (b_core s))) by reflexivity.
    destruct (new_owner (Some cur) (b_core s)) as [o c]. cbn [fst snd] in *. subst o.
    pose proof (cstep_alloc cur (IMemo (length (memos s)) (length (owners (b_core s)))) c (fun _ => Hm)) as H2.
    destruct (alloc cur (IMemo (length (memos s)) (length (owners (b_core s)))) c) as [k c2]. cbn [snd] in H2.
    pose proof (cstep_trans _ _ _ H H2) as H3. split; [exact H3|].
    intros (W1 & W2 & W3). destruct H2 as (_ & _ & Hle2). repeat split; cbn [effs memos imms b_core].
    + eapply Forall_lt_mono; [|exact W1]. lia.
    + apply Forall_app. split.
      * eapply Forall_lt_mono; [|exact W2]. lia.
      * constructor; [cbn; lia|constructor].
    + eapply Forall_lt_mono; [|exact W3]. lia.
  - (* render effect: owner, first run, then the effect record *)
    pose proof (cstep_new_owner (Some cur) (b_core s)) as H.
    pose proof (new_owner_len (Some cur) (b_core s)) as Hl.
    assert (Ho : fst (new_owner (Some cur) (b_core s)) = length (owners (b_core s))) by reflexivity.
    destruct (new_owner (Some cur) (b_core s)) as [o c]. cbn [fst snd] in *. subst o.
    set (o := length (owners (b_core s))) in *.
    set (s0 := mkB c (effs s) (memos s) (handles s) (holders s ++ [(HRender, b)]) (allkeys s) (imms s)).
    assert (H0 : bstep_ok s s0).
    { split; [exact H|]. apply bwf_grow; auto. cbn. lia. }
    assert (H1 : bstep_ok s0 (blog s0 [LRendInit o])) by (apply blog_ok; reflexivity).
    set (s1 := blog s0 [LRendInit o]) in *.
assert (Hgo : forall l sx, o < length (owners (b_core sx)) ->
              bstep_ok sx ((fix go (l : list stmt) (s : bstate) : bstate :=
                              match l with [] => s | x :: r => go r (exec_stmt o x s) end) l sx)).
    { induction l as [|x l IHl]; intros sx Hs0; [apply bstep_refl|].
      pose proof (IH x o sx Hs0) as Hx.
      eapply bstep_trans; [exact Hx|]. apply IHl. pose proof (bstep_len _ _ Hx). lia. }
    assert (H2 : bstep_ok s1 ((fix go (l : list stmt) (s : bstate) : bstate :=
                                 match l with [] => s | x :: r => go r (exec_stmt o x s) end) b s1)).
    { apply Hgo. cbn. lia. }
    set (s2 := (fix go (l : list stmt) (s : bstate) : bstate :=
                  match l with [] => s | x :: r => go r (exec_stmt o x s) end) b s1) in *.
    assert (H02 : bstep_ok s s2) by (eapply bstep_trans; [exact H0|eapply bstep_trans; eauto]).
    split; [exact (proj1 H02)|].
    intros W. destruct (proj2 H02 W) as (W1 & W2 & W3). repeat split; cbn [effs memos imms b_core]; auto.
    apply Forall_app. split; [exact W1|]. constructor; [|constructor]. cbn [e_owner].
    pose proof (bstep_len _ _ H1). pose proof (bstep_len _ _ H2). unfold s0 in *. cbn [b_core] in *. lia.
  - (* immediate effect: owner, (empty) cleanup, first run *)
    pose proof (cstep_new_owner (Some cur) (b_core s)) as H.
    pose proof (new_owner_len (Some cur) (b_core s)) as Hl.
    assert (Ho : fst (new_owner (Some cur) (b_core s)) = length (owners (b_core s))) by reflexivity.
    destruct (new_owner (Some cur) (b_core s)) as [o c]. cbn [fst snd] in *. subst o.
    set (o := length (owners (b_core s))) in *.
    set (s1 := mkB (cleanup o c) (effs s) (memos s) (handles s) (holders s ++ [(HImm (length (imms s)), b)])
                   (allkeys s) (imms s ++ [mkImm o b true])).
    assert (Hc : cstep_ok (b_core s) (cleanup o c)) by (eapply cstep_trans; [exact H|apply cstep_exec]).
    assert (Hlen1 : length (owners (b_core s1)) = S o).
    { unfold s1. cbn [b_core]. unfold cleanup. rewrite (mono_len _ _ (exec_mono _ _ _)). exact Hl. }
    assert (H1 : bstep_ok s s1).
    { split; [exact Hc|]. intros (W1 & W2 & W3). repeat split; cbn [effs memos imms].
      - eapply Forall_lt_mono; [|exact W1]. rewrite Hlen1. lia.
      - eapply Forall_lt_mono; [|exact W2]. rewrite Hlen1. lia.
      - apply Forall_app. split; [eapply Forall_lt_mono; [|exact W3]; rewrite Hlen1; lia|].
        constructor; [cbn [i_owner]; rewrite Hlen1; lia|constructor]. }
    assert (H2 : bstep_ok s1 (blog s1 [LImm (length (imms s))])) by (apply blog_ok; reflexivity).
assert (Hgo : forall l sx, o < length (owners (b_core sx)) ->
              bstep_ok sx ((fix go (l : list stmt) (s : bstate) : bstate :=
                              match l with [] => s | x :: r => go r (exec_stmt o x s) end) l sx)).
    { induction l as [|x l IHl]; intros sx Hs0; [apply bstep_refl|].
      pose proof (IH x o sx Hs0) as Hx.
      eapply bstep_trans; [exact Hx|]. apply IHl. pose proof (bstep_len _ _ Hx). lia. }
    eapply bstep_trans; [exact H1|]. eapply bstep_trans; [exact H2|].
    apply Hgo. pose proof (bstep_len _ _ H2). lia.
Qed.

Lemma exec_body_ok cur b : forall s, cur < length (owners (b_core s)) -> bstep_ok s (exec_body cur b s).
Proof.
  unfold exec_body. induction b as [|x b IHb]; intros s Hs; cbn [fold_left]; [apply bstep_refl|].
  pose proof (exec_stmt_ok x cur s Hs) as Hx. eapply bstep_trans; [exact Hx|].
  apply IHb. pose proof (bstep_len _ _ Hx). lia.
Qed.

Lemma bwf_eff s i e : bwf s -> nth_error (effs s) i = Some e -> e_owner e < length (owners (b_core s)).
Proof. intros [H _] Hn. rewrite Forall_forall in H. apply H. eapply nth_error_In; eauto. Qed.
Lemma bwf_memo s i m : bwf s -> nth_error (memos s) i = Some m -> m_owner m < length (owners (b_core s)).
Proof. intros (_ & H & _) Hn. rewrite Forall_forall in H. apply H. eapply nth_error_In; eauto. Qed.
Lemma bwf_imm s i m : bwf s -> nth_error (imms s) i = Some m -> i_owner m < length (owners (b_core s)).
Proof. intros (_ & _ & H) Hn. rewrite Forall_forall in H. apply H. eapply nth_error_In; eauto. Qed.

Lemma Forall_upd {A} (P : A -> Prop) (f : A -> A) l : (forall x, P x -> P (f x)) ->
  forall i, Forall P l -> Forall P (upd i f l).
Proof.
  intros Hf. induction l as [|y l IH]; intros [|i] H; cbn; auto; inversion H; subst; constructor; auto.
Qed.

Lemma set_eff_ok s i f : (forall e, e_owner (f e) = e_owner e) -> bstep_ok s (set_eff s i f).
Proof.
  intros Hf. split; [apply cstep_refl|]. intros [W1 W2]. split; cbn; [|exact W2].
  apply Forall_upd; [|exact W1]. intros e He. rewrite Hf. exact He.
Qed.
Lemma set_memo_ok s i f : (forall m, m_owner (f m) = m_owner m) -> bstep_ok s (set_memo s i f).
Proof.
  intros Hf. split; [apply cstep_refl|]. intros (W1 & W2 & W3). repeat split; cbn; auto.
  apply Forall_upd; [|exact W2]. intros e He. rewrite Hf. exact He.
Qed.

Lemma bstep_bwf s s' : bstep_ok s s' -> bwf s -> bwf s'.
Proof. intros [_ H]. exact H. Qed.

Lemma poll_ok i s : bwf s -> bstep_ok s (poll i s).
Proof.
  intros W. unfold poll. destruct (nth_error (effs s) i) as [e|] eqn:He; [|apply bstep_refl].
  destruct (negb (eff_ready s e)); [apply bstep_refl|].
  destruct (negb (eff_alive s e)).
  { set (s1 := set_eff s i _).
    assert (B1 : bstep_ok s s1) by (apply set_eff_ok; reflexivity).
    eapply bstep_trans; [exact B1|]. apply bstep_core, cstep_exec. }
  destruct (negb (e_set e)); [apply set_eff_ok; reflexivity|].
  destruct (paused (b_core s) (e_owner e)); [apply set_eff_ok; reflexivity|].
  destruct (e_dirty e || e_first e); [|apply set_eff_ok; reflexivity].
  set (s1 := set_eff s i _).
  assert (B1 : bstep_ok s s1) by (apply set_eff_ok; reflexivity).
  set (s2 := set_core s1 (cleanup (e_owner e) (b_core s1))).
  assert (B2 : bstep_ok s1 s2) by (apply bstep_core, cstep_exec).
  assert (B3 : bstep_ok s2 (blog s2 [LEff i])) by (apply blog_ok; reflexivity).
  eapply bstep_trans; [exact B1|]. eapply bstep_trans; [exact B2|]. eapply bstep_trans; [exact B3|].
  apply exec_body_ok.
  pose proof (bwf_eff s i e W He) as Hb.
  pose proof (bstep_len _ _ B1). pose proof (bstep_len _ _ B2). pose proof (bstep_len _ _ B3). lia.
Qed.

Lemma run_all_ok fuel : forall picks s, bwf s -> bstep_ok s (run_all fuel picks s).
Proof.
  induction fuel as [|f IH]; intros picks s W; cbn [run_all]; destruct (ready s) as [|r0 r];
    try apply bstep_refl.
  - apply bstep_core, cstep_skel, skel_set_err.
  - pose proof (poll_ok (nth (Nat.modulo (hd 0 picks) (length (r0 :: r))) (r0 :: r) 0) s W) as B.
    eapply bstep_trans; [exact B|]. apply IH. eapply bstep_bwf; eauto.
Qed.

Lemma user_body_lt s o b : user_body s o = Some b -> o < length (owners (b_core s)).
Proof.
  unfold user_body. destruct (nth_error (holders s) o) as [[[[]|?|?|?|] b']|]; try discriminate.
  destruct (alive (b_core s) o) eqn:Hal; [|discriminate]. intros _.
  unfold alive in Hal. destruct (nth_error (owners (b_core s)) o) eqn:E; [|discriminate].
  apply nth_error_Some. congruence.
Qed.

Lemma step_ok s x : bwf s -> bstep_ok s (step s x).
Proof.
  intros W. destruct x; cbn [step].
  - destruct (user_body s o) as [b|] eqn:Hu; [|apply bstep_refl].
    set (s1 := set_core s (cleanup o (b_core s))).
    assert (B1 : bstep_ok s s1) by (apply bstep_core, cstep_exec).
    eapply bstep_trans; [exact B1|]. apply exec_body_ok.
    pose proof (user_body_lt s o b Hu). pose proof (bstep_len _ _ B1). lia.
  - destruct (user_body s o); [apply bstep_core, cstep_exec|apply bstep_refl].
  - destruct (user_body s o) as [b|]; [|apply bstep_refl].
    set (s1 := mkB _ _ _ _ _ _ _).
    assert (B1 : bstep_ok s s1) by (split; [apply cstep_refl|auto]).
    eapply bstep_trans; [exact B1|]. apply bstep_core, cstep_exec.
  - destruct (nth_error (effs s) e) as [ef|]; [|apply bstep_refl].
    destruct (negb (e_first ef) && eff_alive s ef); [apply set_eff_ok; reflexivity|apply bstep_refl].
  - destruct (nth_error (memos s) m) as [mm|]; [|apply bstep_refl].
    destruct (m_sub mm && contains (b_core s) (m_key mm)); [apply set_memo_ok; reflexivity|apply bstep_refl].
  - destruct (nth_error (memos s) m) as [mm|] eqn:Hm; [|apply bstep_refl].
    destruct (contains (b_core s) (m_key mm)); [|apply blog_ok; reflexivity].
    destruct (m_dirty mm); [|apply blog_ok; reflexivity].
    set (s1 := set_memo s m _).
    assert (B1 : bstep_ok s s1) by (apply set_memo_ok; reflexivity).
    set (s2 := set_core s1 (cleanup (m_owner mm) (b_core s1))).
    assert (B2 : bstep_ok s1 s2) by (apply bstep_core, cstep_exec).
    assert (B3 : bstep_ok s2 (blog s2 [LMemo m])) by (apply blog_ok; reflexivity).
    assert (B4 : bstep_ok (blog s2 [LMemo m]) (exec_body (m_owner mm) (m_body mm) (blog s2 [LMemo m]))).
    { apply exec_body_ok. pose proof (bwf_memo s m mm W Hm).
      pose proof (bstep_len _ _ B1). pose proof (bstep_len _ _ B2). pose proof (bstep_len _ _ B3). lia. }
    eapply bstep_trans; [exact B1|]. eapply bstep_trans; [exact B2|]. eapply bstep_trans; [exact B3|].
    eapply bstep_trans; [exact B4|]. apply blog_ok. reflexivity.
  - apply poll_ok. exact W.
  - apply run_all_ok. exact W.
  - destruct (user_body s o) as [b|] eqn:Hu; [|apply bstep_refl].
    apply exec_body_ok. eapply user_body_lt; eauto.
  - destruct (user_body s o) as [b|] eqn:Hu; [|apply bstep_refl].
    apply exec_body_ok. eapply user_body_lt; eauto.
  - destruct (nth_error (handles s) h); [apply bstep_core, cstep_exec|apply bstep_refl].
  - destruct (user_body s o); [apply bstep_core, cstep_skel, skel_set_paused|apply bstep_refl].
  - destruct (user_body s o); [apply bstep_core, cstep_skel, skel_set_paused|apply bstep_refl].
  - destruct (user_body s o); [apply blog_ok; reflexivity|apply bstep_refl].
  - destruct (nth_error (memos s) m); [apply bstep_core, cstep_exec|apply bstep_refl].
  - destruct (nth_error (effs s) e) as [ef|]; [|apply bstep_refl].
    destruct (e_render ef); [apply set_eff_ok; reflexivity|apply bstep_core, cstep_exec].
  - destruct (nth_error (effs s) e) as [ef|]; [|apply bstep_refl].
    destruct (e_render ef); [apply bstep_refl|apply set_eff_ok; reflexivity].
  - destruct (nth_error (imms s) i) as [m|] eqn:Hm; [|apply bstep_refl].
    destruct (i_held m && negb (paused (b_core s) (i_owner m))); [|apply bstep_refl].
    set (s1 := set_core s (cleanup (i_owner m) (b_core s))).
    assert (B1 : bstep_ok s s1) by (apply bstep_core, cstep_exec).
    assert (B2 : bstep_ok s1 (blog s1 [LImm i])) by (apply blog_ok; reflexivity).
    eapply bstep_trans; [exact B1|]. eapply bstep_trans; [exact B2|]. apply exec_body_ok.
    pose proof (bwf_imm s i m W Hm). pose proof (bstep_len _ _ B1). pose proof (bstep_len _ _ B2). lia.
  - destruct (nth_error (imms s) i) as [m|]; [|apply bstep_refl].
    destruct (i_held m); [|apply bstep_refl].
    set (s1 := mkB _ _ _ _ _ _ _).
    assert (B1 : bstep_ok s s1).
    { split; [apply cstep_refl|]. intros (W1 & W2 & W3). repeat split; auto. cbn [imms s1].
      apply Forall_upd; [|exact W3]. auto. }
    eapply bstep_trans; [exact B1|]. apply bstep_core, cstep_exec.
Qed.

(** ** reachable program states *)
Definition run_ops (s : bstate) (ops : list op) : bstate := fold_left step ops s.

Definition good (s : bstate) : Prop := cinv (b_core s) /\ bwf s.

Lemma good_step s x : good s -> good (step s x).
Proof. intros [I W]. destruct (step_ok s x W) as [(Hi & _) Hw]. split; auto. Qed.

Lemma good_run ops : forall s, good s -> good (run_ops s ops).
Proof. unfold run_ops. induction ops as [|x ops IH]; intros s G; cbn; [exact G|]. apply IH, good_step, G. Qed.

Lemma good_start b : good (start b).
Proof.
  unfold start. pose proof (cstep_new_owner None core0) as H.
  pose proof (new_owner_len None core0) as Hl.
  destruct (new_owner None core0) as [o c] eqn:E. cbn [snd] in *.
  assert (Eo : o = 0) by (apply (f_equal fst) in E; cbn in E; auto). subst o.
  set (s0 := mkB c [] [] [] [(HUser true, b)] [] []).
  assert (G0 : good s0).
  { split; [exact (proj1 H cinv_core0)|]. repeat split; constructor. }
  destruct G0 as [I0 W0].
  assert (B : bstep_ok s0 (exec_body 0 b s0)) by (apply exec_body_ok; cbn; lia).
  destruct B as [(Hi & _) Hw]. split; auto.
Qed.

Theorem reachable_good : forall b ops, good (run_ops (start b) ops).
Proof. intros. apply good_run, good_start. Qed.

Lemma arena_le_step s x : bwf s -> arena_le (b_core s) (b_core (step s x)).
Proof. intros W. destruct (step_ok s x W) as [(_ & H & _) _]. exact H. Qed.

Lemma arena_le_run ops : forall s, good s -> arena_le (b_core s) (b_core (run_ops s ops)).
Proof.
  unfold run_ops. induction ops as [|x ops IH]; intros s G; cbn; [apply arena_le_refl|].
  eapply arena_le_trans; [apply arena_le_step, G|]. apply IH, good_step, G.
Qed.

(** * theorems over all programs and histories *)
Definition final_core (b : list stmt) (ops : list op) : core := b_core (run_ops (start b) ops).

(** over any history no cleanup runs twice *)
Theorem r_provider : forall b ops o ty,
  use_ctx (final_core b ops) o ty =
  match provider (final_core b ops) o ty with
  | Some p => ctx_at (final_core b ops) p ty
  | None => None
  end.
Proof. intros. apply provider_holds_binding. Qed.

Theorem cleanup_never_twice : forall b ops, NoDup (cids (clog (final_core b ops))).
Proof.
  intros b ops. destruct (reachable_good b ops) as [I _]. eapply NoDup_app_l. exact (ci_nd _ I).
Qed.

(** the structural facts the per-cleanup theorems need hold in every reachable state *)
Theorem reachable_wf : forall b ops,
  wfs (final_core b ops) /\ wfp (final_core b ops) /\ nd (final_core b ops).
Proof. intros b ops. destruct (reachable_good b ops) as [I _]. destruct I; auto. Qed.

(** no_leak: once every owner is gone, nothing is left in the arena *)
Theorem no_leak : forall b ops,
  let c := final_core b ops in
  err c = false -> unowned c = false ->
  (forall p ow, nth_error (owners c) p = Some ow -> o_alive ow = false) ->
  arena_len c = 0.
Proof.
  intros b ops c He Hu Hdead. destruct (reachable_good b ops) as [I _]. fold (final_core b ops) in I. fold c in I.
  unfold arena_len.
  assert (H : forall i s, nth_error (slots c) i = Some s -> s_item s = None).
  { intros i s Hs. destruct (s_item s) as [it|] eqn:Hit; [|reflexivity]. exfalso.
    assert (Hv : valid c (i, s_ver s)).
    { unfold valid, get. cbn. rewrite Hs, Nat.eqb_refl, Hit. discriminate. }
    destruct (ci_reg c I He Hu _ Hv) as (p & ow & Hp & Hal & _). rewrite (Hdead p ow Hp) in Hal. discriminate. }
  assert (Hall : forall l, (forall s, In s l -> s_item s = None) ->
            filter (fun s => match s_item s with Some _ => true | None => false end) l = []).
  { induction l as [|s l IH]; intros Hl; [reflexivity|]. cbn. rewrite (Hl s (or_introl eq_refl)).
    apply IH. intros s' Hs'. apply Hl. right. exact Hs'. }
  rewrite Hall; [reflexivity|]. intros s Hin. apply In_nth_error in Hin as (i & Hi). eauto.
Qed.

(** no_aba: a key that resolved and then stopped resolving never resolves again, whatever is
    allocated, released or re-run afterwards *)
Theorem no_aba : forall b ops1 ops2 ops3 k,
  contains (final_core b ops1) k = true ->
  contains (final_core b (ops1 ++ ops2)) k = false ->
  contains (final_core b (ops1 ++ ops2 ++ ops3)) k = false.
Proof.
  intros b ops1 ops2 ops3 k H1 H2. unfold final_core, run_ops in *.
  rewrite !fold_left_app in *.
  set (s1 := fold_left step ops1 (start b)) in *.
  assert (G1 : good s1) by (apply (good_run ops1), good_start).
  set (s2 := fold_left step ops2 s1) in *.
  assert (G2 : good s2) by (apply (good_run ops2), G1).
  assert (St : stale (b_core s2) k).
  { eapply disposed_is_stale; [apply (arena_le_run ops2 s1 G1)|exact H1|exact H2]. }
  assert (St3 : stale (b_core (fold_left step ops3 s2)) k).
  { eapply stale_le; [apply (arena_le_run ops3 s2 G2)|exact St]. }
  unfold contains. rewrite (stale_get _ _ St3). reflexivity.
Qed.

(** an effect whose arena entry is gone does not run when its task is polled: the task ends *)
Theorem disposed_effect_never_runs : forall s i e,
  nth_error (effs s) i = Some e -> eff_alive s e = false -> e_done e = false ->
  let s' := poll i s in
  (exists ef, nth_error (effs s') i = Some ef /\ e_done ef = true) /\
  forall j, In (LEff j) (clog (b_core s')) -> In (LEff j) (clog (b_core s)).
Proof.
  intros s i e He Hc Hd s'. unfold s', poll. rewrite He.
  unfold eff_ready. rewrite Hc, Hd. cbn [negb andb orb]. rewrite Bool.orb_true_r. cbn [negb].
  split.
  - cbn. rewrite nth_error_upd_same, He. cbn. eauto.
  - intros j Hin. cbn [set_core b_core set_eff] in Hin.
    destruct (exec_conserve (fuel_of (b_core s)) (JDrop (e_owner e)) (b_core s)) as [_ (l & E)].
    unfold drop_owner in Hin. cbn [b_core set_eff] in Hin.
    (* the cascade only logs cleanups *)
    assert (Hlog : forall f jb c x, In x (clog (exec f jb c)) -> In x (clog c) \/ exists cid, x = LClean cid).
    { clear. induction f as [|f IH]; intros jb c x Hin; [left; exact Hin|].
      assert (Hfold : forall {X} (g : X -> core -> core) xs,
                (forall y c0 x0, In x0 (clog (g y c0)) -> In x0 (clog c0) \/ exists cid, x0 = LClean cid) ->
                forall c0 x0, In x0 (clog (fold_left (fun c y => g y c) xs c0)) ->
                              In x0 (clog c0) \/ exists cid, x0 = LClean cid).
      { intros X g xs Hg. induction xs as [|y xs IHx]; intros c0 x0 H0; cbn in H0; [left; exact H0|].
        destruct (IHx _ _ H0) as [H|H]; [|right; exact H]. apply Hg in H. exact H. }
      assert (Hrel : forall dead o ow,
        In x (clog (fold_left (fun c k => exec f (JRemove k) c) (o_nodes ow)
           (add_log (fold_left (fun c ch => exec f (JCleanup ch) c) (o_children ow)
                       (upd_owner o (clear_owner dead) c))
                    (rev (map LClean (o_cleanups ow)))))) -> In x (clog c) \/ exists cid, x = LClean cid).
      { intros dead o ow H.
        apply (Hfold _ (fun k c => exec f (JRemove k) c)) in H; [|intros; eapply IH; eauto].
        destruct H as [H|H]; [|right; exact H]. cbn [add_log clog] in H. apply in_app_or in H as [H|H].
        - right. apply in_rev in H. apply in_map_iff in H as (cid & <- & _). eauto.
        - apply (Hfold _ (fun ch c => exec f (JCleanup ch) c)) in H; [|intros; eapply IH; eauto].
          exact H. }
      destruct jb as [o|o|k]; cbn [exec] in Hin.
      - destruct (nth_error (owners c) o) as [ow|]; [|left; exact Hin].
        destruct (o_alive ow); [eapply Hrel; eauto|left; exact Hin].
      - destruct (nth_error (owners c) o) as [ow|]; [|left; exact Hin].
        destruct (o_alive ow); [eapply Hrel; eauto|left; exact Hin].
      - assert (Hl : clog (snd (remove k c)) = clog c) by (unfold remove; destruct (get c k); reflexivity).
        destruct (remove k c) as [[it|] c'']; cbn in Hl; [|left; congruence].
        destruct it; try (left; congruence). apply IH in Hin. rewrite Hl in Hin. exact Hin. }
    apply Hlog in Hin. destruct Hin as [H|(cid & H)]; [exact H|discriminate].
Qed.

(** ** the per-cleanup theorems, for every reachable state *)
Section Reachable.
  Variable b : list stmt.
  Variable ops : list op.
  Let c := final_core b ops.
  Hypothesis He : err c = false.

  Lemma r_wfs : wfs c. Proof. exact (proj1 (reachable_wf b ops)). Qed.
  Lemma r_nd : nd c. Proof. exact (proj2 (proj2 (reachable_wf b ops))). Qed.

  Theorem r_cleanup_runs_subtree : forall o, alive c o = true ->
    forall l, clog (cleanup o c) = l ++ clog c ->
    NoDup (cids l) /\
    forall cid, In cid (cids l) <->
                exists p ow, sub c o p /\ nth_error (owners c) p = Some ow /\ In cid (o_cleanups ow).
  Proof. intros o Ho. apply cleanup_runs_subtree; auto using r_wfs. apply nd_pending, r_nd. Qed.

  Theorem r_descendants_first : forall o, alive c o = true ->
    forall l, clog (cleanup o c) = l ++ clog c ->
    forall p a q r ar cid1 cid2,
      sub c o p -> nth_error (owners c) p = Some a -> In cid2 (o_cleanups a) ->
      In q (o_children a) -> alive c q = true -> sub c q r ->
      nth_error (owners c) r = Some ar -> In cid1 (o_cleanups ar) ->
      logged_before cid1 cid2 (cids l).
  Proof. intros o Ho. apply descendants_first; auto using r_wfs, r_nd. Qed.

  Theorem r_handles_disposed : forall o, alive c o = true ->
    forall p ow, sub c o p -> nth_error (owners c) p = Some ow ->
    gone_at (cleanup o c) p /\ forall k, In k (o_nodes ow) -> contains (cleanup o c) k = false.
  Proof.
    intros o Ho p ow Hs Hp. destruct (subtree_released c o r_wfs He Ho p ow Hs Hp) as (G & K).
    split; [exact G|]. intros k Hk. unfold contains. rewrite (K k Hk). reflexivity.
  Qed.

  Theorem r_frame : forall o,
    (forall p, ~ sub c o p -> nth_error (owners (cleanup o c)) p = nth_error (owners c) p) /\
    (forall k, (forall p ow, sub c o p -> nth_error (owners c) p = Some ow -> ~ In k (o_nodes ow)) ->
               get (cleanup o c) k = get c k).
  Proof.
    intros o. split.
    - intros p Hn. apply exec_frame; auto using r_wfs.
    - apply outside_values_untouched, r_wfs.
  Qed.

  Theorem r_context : forall o ty, o < length (owners c) -> nearest c ty o (use_ctx c o ty).
  Proof. intros o ty. apply context_nearest_ancestor. exact (proj1 (proj2 (reachable_wf b ops))). Qed.

  Theorem r_fuel : forall o k,
    err (cleanup o c) = false /\ err (drop_owner o c) = false /\ err (dispose k c) = false.
  Proof.
    intros o k. repeat split; [apply cleanup_no_err|apply drop_no_err|apply dispose_no_err]; auto using r_wfs.
  Qed.
End Reachable.

(** * examples (non-vacuity) *)
Definition ex_body : list stmt :=
  [SOnCleanup; SProvide 0 7;
   SChild [SOnCleanup; SNewStored; SUse 0;
           SChild [SOnCleanup; SNewSig; SMemo [SOnCleanup; SNewStored]]];
   SEffect [SOnCleanup; SNewStored]].

(** root cleanup after the effect and the memo ran (log newest first): the memo's scope, the
    grandchild, the child, the effect's scope, and the root's own cleanup last *)
Example ex_cleanup_order :
  let c := final_core ex_body [RunAll []; ReadMemo 0] in
  err c = false /\ alive c 0 = true /\
  cids (clog (cleanup 0 c)) = [0; 3; 1; 2; 4] /\
  arena_len c = 6 /\ arena_len (cleanup 0 c) = 0.
Proof. vm_compute. auto. Qed.

(** slot reuse after a cleanup: the old handle stays disposed (its version is stale) *)
Example ex_no_aba :
  let c1 := final_core [SChild [SNewStored]] [] in
  let c2 := final_core [SChild [SNewStored]] [Cleanup 1; Alloc 0 1] in
  contains c1 (0, 1) = true /\ contains c2 (0, 1) = false /\ contains c2 (0, 3) = true.
Proof. vm_compute. auto. Qed.

Example ex_context :
  let c := final_core ex_body [] in
  use_ctx c 2 0 = Some 7%Z /\ use_ctx c 2 1 = None /\
  use_ctx (final_core ex_body [DropOwner 0]) 2 0 = None.
Proof. vm_compute. auto. Qed.

Example ex_all_gone :
  let c := final_core ex_body [RunAll []; ReadMemo 0; DropOwner 0; DropOwner 1; DropOwner 2; RunAll []] in
  err c = false /\ unowned c = false /\ arena_len c = 0 /\
  forallb (fun ow => negb (o_alive ow)) (owners c) = true.
Proof. vm_compute. auto. Qed.

(** the other effect kinds: a RenderEffect re-runs under [with_cleanup] like every other scope, an
    ImmediateEffect re-runs synchronously; dropping their handles releases what they created *)
Definition ex_body2 : list stmt :=
  [SRender [SOnCleanup; SNewStored; SImm [SOnCleanup]]; SImm [SOnCleanup; SNewSig]].
Example ex_render_imm :
  let c0 := final_core ex_body2 [] in
  let c1 := final_core ex_body2 [NotifyEffect 0; RunAll []] in
  let c2 := final_core ex_body2 [NotifyEffect 0; RunAll []; NotifyImm 1; DisposeEffect 0; RunAll []; DropImm 1; DropOwner 0] in
  cids (clog c0) = [] /\ cids (clog c1) = [0; 1] /\
  cids (clog c2) = [5; 3; 4; 2; 0; 1] /\ arena_len c2 = 0 /\ err c2 = false.
Proof. vm_compute. auto. Qed.

(** raw arena items are released like every other arena value: a memo allocating one per run keeps
    exactly one entry (the previous one is disposed by the re-run, its key stays stale although the
    slot is reused), and nothing remains once the scopes are gone *)
Example ex_raw_items :
  let b := [SChild [SNewItem 0; SMemo [SNewItem 2; SOnCleanup]]] in
  let c1 := final_core b [ReadMemo 0] in
  let c2 := final_core b [ReadMemo 0; NotifyMemo 0; ReadMemo 0; AllocItems 1 2 5] in
  let c3 := final_core b [ReadMemo 0; NotifyMemo 0; ReadMemo 0; AllocItems 1 2 5; Cleanup 1] in
  arena_len c1 = 3 /\ contains c1 (2, 1) = true /\
  arena_len c2 = 5 /\ contains c2 (2, 1) = false /\ contains c2 (2, 3) = true /\
  arena_len c3 = 0 /\ contains c3 (0, 1) = false /\ err c3 = false /\ unowned c3 = false.
Proof. vm_compute. repeat split. Qed.

(** the other context entry points: take_context removes the nearest binding (the next lookup goes
    further up), update_context replaces it in place *)
Example ex_take_update :
  let b := [SProvide 0 7; SChild [SProvide 0 8; SChild [SUse 0; STake 0; SUse 0; SUpdate 0 9; SUse 0; STake 1]]] in
  let c := final_core b [] in
  map (fun l => match l with LUse _ r => r | _ => None end) (rev (clog c)) =
    [Some 8%Z; Some 8%Z; Some 7%Z; Some 7%Z; Some 9%Z; None] /\
  use_ctx c 1 0 = Some 9%Z /\ provider c 2 0 = Some 0.
Proof. vm_compute. repeat split. Qed.

(** Effect::stop: the stopped effect's task ends at its next poll (dropping its scope) although
    its arena entry is still there; the entry goes with the scope that created the effect *)
Example ex_stop :
  let b := [SChild [SEffect [SOnCleanup; SNewStored]]] in
  let c1 := final_core b [RunAll []; StopEffect 0] in
  let c2 := final_core b [RunAll []; StopEffect 0; NotifyEffect 0; RunAll []] in
  let c3 := final_core b [RunAll []; StopEffect 0; RunAll []; Cleanup 1] in
  arena_len c1 = 2 /\ cids (clog c1) = [] /\
  arena_len c2 = 1 /\ cids (clog c2) = [0] /\ alive c2 2 = false /\
  arena_len c3 = 0.
Proof. vm_compute. repeat split. Qed.
