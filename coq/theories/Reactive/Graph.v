(** Executable model of reactive_graph's signals, memos and derived signals (properties
    C01 / C09 / C02).  Transcribes what the code DOES (after the three [fix:] commits; the
    pre-fix variants are kept at the end for the refutation witnesses):

    - graph/sets.rs            SubscriberSet (ordered, dedup on insert, order-preserving
                               remove), SourceSet (push, duplicates allowed, clear_sources)
    - signal/subscriber_traits.rs   notification of a signal: clone the subscriber list,
                               mark_dirty each (both the generic path and the
                               RwLock<SubscriberSet> path, which used to TAKE the list)
    - computed/inner.rs        MemoInner: mark_dirty, mark_check (guard [!= Dirty], always
                               recurses), update_if_necessary (Clean / Dirty / Check with the
                               short-circuiting [any] over a snapshot of the sources and the
                               [|| state == Dirty] re-check, clear_sources, run under
                               with_observer, [changed] from the compare function, subscribers
                               marked dirty except the current observer)
    - traits.rs                Read::try_read = track (both directions of the edge) THEN
                               try_read_untracked (= update_if_necessary + value)
    - graph/subscriber.rs      OBSERVER; untrack(..) empties it
    - wrappers.rs              derived signals: the closure is re-evaluated on every read
                               under the reader's observer (get_untracked: under untrack)

    User closures are terms of [expr].  Recursion through the graph is on an index bound
    ([lvl n] serves reads of nodes < n; the body of node i is evaluated with [lvl i]), so
    every function is structurally recursive; a node that reads an index >= its own (not a
    well-formed DAG) or a mark that runs out of its bound sets the [err] flag, which
    theorems exclude by well-formedness.  No proofs in this file. *)
From Coq Require Import List ZArith Bool Arith.
Import ListNotations.
Open Scope Z_scope.

(* ------------------------------------------------------------------ programs *)
Inductive expr :=
| Const (z : Z)
| Rd (j : nat)                (* j.get()            : tracked read *)
| RdU (j : nat)               (* j.get_untracked()  : no track, observer stays *)
| Untr (e : expr)             (* untrack(|| e)      : observer emptied *)
| Add (a b : expr) | Lt (a b : expr) | Ite (c a b : expr)
| Wr (s : nat) (e : expr).    (* s.set(e), effects only; value of e *)

Inductive cmp := CNe | CAlways | CPar.             (* Memo::new / new_with_compare(|_,_| true) /
                                                      new_with_compare(parity differs): a comparator coarser than equality *)
Inductive ekind := EEffect | ERender | EWatch (immediate : bool).
Inductive decl :=
| DSig (take : bool) (init : Z)    (* take: WriteSignal / ArcTrigger path (pre-fix it took the subscribers) *)
| DMemo (c : cmp) (e : expr)
| DDer (e : expr)
| DEff (k : ekind) (body handler : expr).
Definition prog := list decl.

Inductive nstate := Clean | Check | Dirty.
Definition nstate_eqb a b :=
  match a, b with Clean, Clean | Check, Check | Dirty, Dirty => true | _, _ => false end.

(* ------------------------------------------------------------------ observation *)
Inductive event :=
| EvTop (n : nat) (v : Z)                         (* top-level read returned v *)
| EvStart (i : nat)                               (* body of i invoked *)
| EvRead (who : option nat) (j : nat) (v : Z) (t : bool)  (* inside body [who], read of j returned v; t = tracked *)
| EvEnd (i : nat) (v : Z)                         (* body of i returned v *)
| EvHStart (i : nat) | EvHEnd (i : nat) (v : Z)   (* watch handler *)
| EvIdle                                          (* executor drained *)
| EvPoll (e : option nat)                         (* task of effect e polled *)
| EvDiverge                                       (* more than 64 polls without reaching idle *)
| EvOp                                            (* a new operation of the history starts *)
| EvErr.                                          (* model left its well-formed domain *)

(* ------------------------------------------------------------------ dynamic state *)
Record node := mkNode {
  sval : Z                       (* signal value *);
  subs : list nat                (* SubscriberSet *);
  st : nstate                    (* memo state *);
  cache : option Z               (* memo value *);
  srcs : list nat                (* SourceSet of a memo / effect *);
  rlog : list (nat * Z * bool)   (* ghost: reads of the last run (node, value, tracked) *);
  since : list nat               (* ghost: causes recorded since the last run *);
  edirty : bool                  (* EffectInner.dirty *);
  eflag : bool                   (* channel Inner.set *);
  ereg : bool                    (* AtomicWaker holds the task's waker *);
  efirst : bool                  (* first_run *);
  epaused : bool                 (* owner.paused() *);
  ealive : bool                  (* Arc<RwLock<EffectInner>> not yet dropped *);
  edone : bool                   (* task finished (stream ended) *);
  emissed : bool                 (* ghost: a notification was consumed while paused *);
  epoll : bool                   (* ghost: not yet spawned, or in the middle of one iteration of its task loop *)
}.

Definition dnode : node :=
  mkNode 0 [] Dirty None [] [] [] false false false false false false false false false.

Definition set_sval n v := mkNode v (subs n) (st n) (cache n) (srcs n) (rlog n) (since n) (edirty n) (eflag n) (ereg n) (efirst n) (epaused n) (ealive n) (edone n) (emissed n) (epoll n).
Definition set_subs n v := mkNode (sval n) v (st n) (cache n) (srcs n) (rlog n) (since n) (edirty n) (eflag n) (ereg n) (efirst n) (epaused n) (ealive n) (edone n) (emissed n) (epoll n).
Definition set_st n v := mkNode (sval n) (subs n) v (cache n) (srcs n) (rlog n) (since n) (edirty n) (eflag n) (ereg n) (efirst n) (epaused n) (ealive n) (edone n) (emissed n) (epoll n).
Definition set_cache n v := mkNode (sval n) (subs n) (st n) v (srcs n) (rlog n) (since n) (edirty n) (eflag n) (ereg n) (efirst n) (epaused n) (ealive n) (edone n) (emissed n) (epoll n).
Definition set_srcs n v := mkNode (sval n) (subs n) (st n) (cache n) v (rlog n) (since n) (edirty n) (eflag n) (ereg n) (efirst n) (epaused n) (ealive n) (edone n) (emissed n) (epoll n).
Definition set_rlog n v := mkNode (sval n) (subs n) (st n) (cache n) (srcs n) v (since n) (edirty n) (eflag n) (ereg n) (efirst n) (epaused n) (ealive n) (edone n) (emissed n) (epoll n).
Definition set_since n v := mkNode (sval n) (subs n) (st n) (cache n) (srcs n) (rlog n) v (edirty n) (eflag n) (ereg n) (efirst n) (epaused n) (ealive n) (edone n) (emissed n) (epoll n).
Definition set_edirty n v := mkNode (sval n) (subs n) (st n) (cache n) (srcs n) (rlog n) (since n) v (eflag n) (ereg n) (efirst n) (epaused n) (ealive n) (edone n) (emissed n) (epoll n).
Definition set_eflag n v := mkNode (sval n) (subs n) (st n) (cache n) (srcs n) (rlog n) (since n) (edirty n) v (ereg n) (efirst n) (epaused n) (ealive n) (edone n) (emissed n) (epoll n).
Definition set_ereg n v := mkNode (sval n) (subs n) (st n) (cache n) (srcs n) (rlog n) (since n) (edirty n) (eflag n) v (efirst n) (epaused n) (ealive n) (edone n) (emissed n) (epoll n).
Definition set_efirst n v := mkNode (sval n) (subs n) (st n) (cache n) (srcs n) (rlog n) (since n) (edirty n) (eflag n) (ereg n) v (epaused n) (ealive n) (edone n) (emissed n) (epoll n).
Definition set_epaused n v := mkNode (sval n) (subs n) (st n) (cache n) (srcs n) (rlog n) (since n) (edirty n) (eflag n) (ereg n) (efirst n) v (ealive n) (edone n) (emissed n) (epoll n).
Definition set_ealive n v := mkNode (sval n) (subs n) (st n) (cache n) (srcs n) (rlog n) (since n) (edirty n) (eflag n) (ereg n) (efirst n) (epaused n) v (edone n) (emissed n) (epoll n).
Definition set_edone n v := mkNode (sval n) (subs n) (st n) (cache n) (srcs n) (rlog n) (since n) (edirty n) (eflag n) (ereg n) (efirst n) (epaused n) (ealive n) v (emissed n) (epoll n).
Definition set_emissed n v := mkNode (sval n) (subs n) (st n) (cache n) (srcs n) (rlog n) (since n) (edirty n) (eflag n) (ereg n) (efirst n) (epaused n) (ealive n) (edone n) v (epoll n).
Definition set_epoll n v := mkNode (sval n) (subs n) (st n) (cache n) (srcs n) (rlog n) (since n) (edirty n) (eflag n) (ereg n) (efirst n) (epaused n) (ealive n) (edone n) (emissed n) v.

Record state := mkState {
  nodes : list node;
  ready : list nat;          (* executor run queue, in wake order *)
  trace : list event;        (* newest first *)
  nocause : nat;             (* ghost: body invocations (not the first) that found no recorded cause *)
  halted : bool;             (* EvDiverge was emitted: the case stops *)
  err : bool
}.
Definition set_nodes s v := mkState v (ready s) (trace s) (nocause s) (halted s) (err s).
Definition set_ready s v := mkState (nodes s) v (trace s) (nocause s) (halted s) (err s).
Definition set_trace s v := mkState (nodes s) (ready s) v (nocause s) (halted s) (err s).
Definition set_nocause s v := mkState (nodes s) (ready s) (trace s) v (halted s) (err s).
Definition set_halted s v := mkState (nodes s) (ready s) (trace s) (nocause s) v (err s).
Definition set_err s := mkState (nodes s) (ready s) (EvErr :: trace s) (nocause s) (halted s) true.

Definition getn (s : state) (i : nat) : node := nth i (nodes s) dnode.
Fixpoint list_upd {A} (l : list A) (i : nat) (f : A -> A) : list A :=
  match l, i with
  | [], _ => []
  | x :: t, O => f x :: t
  | x :: t, S i => x :: list_upd t i f
  end.
Definition updn (i : nat) (f : node -> node) (s : state) : state :=
  set_nodes s (list_upd (nodes s) i f).
Definition emit (e : event) (s : state) : state := set_trace s (e :: trace s).

(* ------------------------------------------------------------------ SubscriberSet / SourceSet *)
Definition subscribe (l : list nat) (x : nat) : list nat :=
  if existsb (Nat.eqb x) l then l else l ++ [x].
Fixpoint unsubscribe (l : list nat) (x : nat) : list nat :=
  match l with
  | [] => []
  | h :: t => if Nat.eqb h x then t else h :: unsubscribe t x
  end.

(* SourceSet::clear_sources: every source (with multiplicity) forgets the subscriber *)
Definition clear_sources (i : nat) (s : state) : state :=
  let s := fold_left (fun s j => updn j (fun n => set_subs n (unsubscribe (subs n) i)) s)
                     (srcs (getn s i)) s in
  updn i (fun n => set_srcs n []) s.

(* ------------------------------------------------------------------ context *)
(* who : the body currently running (harness: top of its stack; model: owner of the read log)
   tracked : OBSERVER holds [who] (false inside untrack / outside any body) *)
Definition ctx := (option nat * bool)%type.
Definition top_ctx : ctx := (None, false).
Definition obs_of (c : ctx) : option nat := if snd c then fst c else None.
Definition obs_is (c : ctx) (k : nat) : bool :=
  match obs_of c with Some o => Nat.eqb o k | None => false end.

(* a signal or memo whose arena item was disposed (or whose owner was cleaned up): the value and
   the subscriber set are gone, every Weak pointer to it is dead.  The flag is kept in [edone]
   ("finished" for the task of an effect; for a signal / memo: disposed). *)
Definition sgone (n : node) : bool := edone n.

Section Prog.
Variable p : prog.
Definition decl_of (i : nat) : decl := nth i p (DSig false 0).
Definition mfuel : nat := S (length p).

(* ------------------------------------------------------------------ effects as subscribers
   (effect/inner.rs mark_check / mark_dirty, channel.rs Sender::notify); dropped effects are
   dead Weak pointers: no-ops *)
Definition enqueue (i : nat) (s : state) : state :=
  if existsb (Nat.eqb i) (ready s) then s else set_ready s (ready s ++ [i]).
Definition eff_notify (i : nat) (s : state) : state :=
  if ealive (getn s i) then
    let s := updn i (fun n => set_eflag n true) s in
    if ereg (getn s i) then enqueue i (updn i (fun n => set_ereg n false) s) else s
  else s.
Definition eff_mark_dirty (i : nat) (s : state) : state :=
  if ealive (getn s i) then eff_notify i (updn i (fun n => set_edirty n true) s) else s.

(* ------------------------------------------------------------------ push phase *)
Fixpoint mark_check (f : nat) (i : nat) (s : state) : state :=
  match f with
  | O => set_err s
  | S f =>
      match decl_of i with
      | DMemo _ _ =>
          let s := if nstate_eqb (st (getn s i)) Dirty then s
                   else updn i (fun n => set_st n Check) s in
          fold_left (fun s k => mark_check f k s) (subs (getn s i)) s
      | DEff _ _ _ => eff_notify i s
      | _ => s
      end
  end.

Definition mark_dirty (i : nat) (s : state) : state :=
  match decl_of i with
  | DMemo _ _ =>
      let s := updn i (fun n => set_st n Dirty) s in
      fold_left (fun s k => mark_check mfuel k s) (subs (getn s i)) s
  | DEff _ _ _ => eff_mark_dirty i s
  | _ => s
  end.

(* ghost (C09): node k tracked j in its last run *)
Definition tracks (n : node) (j : nat) : bool :=
  existsb (fun x => match x with (a, _, t) => t && Nat.eqb a j end) (rlog n).
Definition add_cause (j : nat) (s : state) : state :=
  set_nodes s (map (fun n => if tracks n j then set_since n (j :: since n) else n) (nodes s)).

(* a signal notifies: subscriber list cloned, each marked dirty in order *)
Definition notify_sig (j : nat) (s : state) : state :=
  let s := add_cause j s in
  fold_left (fun s k => mark_dirty k s) (subs (getn s j)) s.
Definition write_sig (j : nat) (v : Z) (s : state) : state :=
  if sgone (getn s j) then s          (* set on a disposed signal: nothing happens *)
  else notify_sig j (updn j (fun n => set_sval n v) s).

(* ------------------------------------------------------------------ pull phase *)
(* Track::track *)
Definition track (c : ctx) (j : nat) (s : state) : state :=
  match obs_of c with
  | Some o =>
      let s := updn o (fun n => set_srcs n (srcs n ++ [j])) s in
      updn j (fun n => set_subs n (subscribe (subs n) o)) s
  | None => s
  end.
(* Track::track on a disposed source returns at once and try_read gives None (the harness reads
   it as 0).  The model keeps the read in the source list as a DEAD source, without a
   subscriber edge: a dead source answers "unchanged" to update_if_necessary
   (graph/source.rs: the Weak does not upgrade), is never marked and never notifies, so it
   behaves like no source at all; keeping it makes the source list the tracked part of the
   read log in all cases. *)
Definition track_dead (c : ctx) (j : nat) (s : state) : state :=
  match obs_of c with
  | Some o => updn o (fun n => set_srcs n (srcs n ++ [j])) s
  | None => s
  end.
(* ghost read log of the running body + the observable event *)
Definition log_read (c : ctx) (j : nat) (v : Z) (t : bool) (inlog : bool) (s : state) : state :=
  let s := emit (EvRead (fst c) j v t) s in
  match fst c with
  | Some o => if inlog then updn o (fun n => set_rlog n (rlog n ++ [(j, v, t)])) s else s
  | None => s
  end.
(* a body starts: ghost bookkeeping *)
Definition begin_run (first : bool) (i : nat) (s : state) : state :=
  let s := if first then s
           else match since (getn s i) with
                | [] => set_nocause s (S (nocause s))
                | _ :: _ => s
                end in
  emit (EvStart i) (updn i (fun n => set_since (set_rlog n []) []) s).

Definition reader := bool -> ctx -> nat -> state -> state * Z.
Definition updater := ctx -> nat -> state -> state * bool.

Section Eval.
Variable R : reader.
Fixpoint eval (aw : bool) (c : ctx) (e : expr) (s : state) : state * Z :=
  match e with
  | Const z => (s, z)
  | Rd j => R true c j s
  | RdU j => R false c j s
  | Untr a => eval aw (fst c, false) a s
  | Add a b => let '(s, x) := eval aw c a s in let '(s, y) := eval aw c b s in (s, x + y)
  | Lt a b => let '(s, x) := eval aw c a s in let '(s, y) := eval aw c b s in
              (s, if Z.ltb x y then 1 else 0)
  | Ite g a b => let '(s, x) := eval aw c g s in
                 if Z.eqb x 0 then eval aw c b s else eval aw c a s
  | Wr t a => let '(s, v) := eval aw c a s in
              if aw then (write_sig t v s, v) else (set_err s, v)
  end.
End Eval.

Definition cache_val (n : node) : Z := match cache n with Some v => v | None => 0 end.

Section Level.
Variable U : updater.    (* update_if_necessary of lower nodes *)
Variable R : reader.     (* reads of lower nodes *)

(* needs_update, state Check: the [any] over the snapshot of the sources *)
Fixpoint any_src (c : ctx) (i : nat) (l : list nat) (s : state) : state * bool :=
  match l with
  | [] => (s, false)
  | j :: l => let '(s, ch) := U c j s in
              if ch || nstate_eqb (st (getn s i)) Dirty then (s, true) else any_src c i l s
  end.

(* MemoInner::update_if_necessary *)
Definition memo_update (c : ctx) (i : nat) (cm : cmp) (e : expr) (s : state) : state * bool :=
  let n := getn s i in
  let '(s, need) :=
    match st n with
    | Clean => (s, false)
    | Dirty => (s, true)
    | Check => any_src c i (srcs n) s
    end in
  if need then
    let old := cache (getn s i) in
    let s := clear_sources i s in
    let s := begin_run (match old with None => true | Some _ => false end) i s in
    let '(s, v) := eval R false (Some i, true) e s in
    let s := emit (EvEnd i v) s in
    let changed := match cm with
                   | CAlways => true
                   | CNe => match old with Some o => negb (Z.eqb o v) | None => true end
                   | CPar => match old with Some o => negb (Bool.eqb (Z.even o) (Z.even v)) | None => true end
                   end in
    let s := updn i (fun n => set_st (set_cache n (Some v)) Clean) s in
    let s := if changed then
               fold_left (fun s k => if obs_is c k then s else mark_dirty k s)
                         (subs (getn s i)) (add_cause i s)
             else s in
    (s, changed)
  else (updn i (fun n => set_st n Clean) s, false).

Definition node_update (c : ctx) (i : nat) (s : state) : state * bool :=
  match decl_of i with
  | DMemo cm e => if sgone (getn s i) then (s, false)       (* AnySource: dead Weak => false *)
                  else memo_update c i cm e s
  | _ => (s, false)
  end.

(* [m] = true: .get() (track first); false: .get_untracked() *)
Definition node_read (m : bool) (c : ctx) (i : nat) (s : state) : state * Z :=
  let t := m && snd c in
  match decl_of i with
  | DSig _ _ =>
      if sgone (getn s i) then
        (log_read c i 0 t true (if m then track_dead c i s else s), 0)
      else
      let s := if m then track c i s else s in
      let v := sval (getn s i) in
      (log_read c i v t true s, v)
  | DMemo cm e =>
      if sgone (getn s i) then
        (log_read c i 0 t true (if m then track_dead c i s else s), 0)
      else
      let s := if m then track c i s else s in
      let '(s, _) := memo_update c i cm e s in
      let v := cache_val (getn s i) in
      (log_read c i v t true s, v)
  | DDer e =>
      let c' := if m then c else (fst c, false) in
      let '(s, v) := eval R false c' e s in
      (log_read c i v t false s, v)
  | DEff _ _ _ => (set_err s, 0)
  end.
End Level.

Fixpoint lvl (n : nat) : updater * reader :=
  match n with
  | O => (fun _ _ s => (set_err s, false), fun _ _ _ s => (set_err s, 0))
  | S n' =>
      let UR := lvl n' in
      (fun c j s => if Nat.eqb j n' then node_update (fst UR) (snd UR) c n' s else fst UR c j s,
       fun m c j s => if Nat.eqb j n' then node_read (fst UR) (snd UR) m c n' s else snd UR m c j s)
  end.

Definition N : nat := length p.
Definition upd_top : updater := fst (lvl N).
Definition read_any : reader := snd (lvl N).

(* a read from outside any reactive context *)
Definition read_top (n : nat) (s : state) : state * Z :=
  let '(s, v) := read_any true top_ctx n s in (emit (EvTop n v) s, v).

End Prog.

(* ------------------------------------------------------------------ pre-fix variants
   (witnesses of the findings only; the theorems are about the definitions above) *)
Section Prefix.
Variable p : prog.
(* F-C02-a: impl ReactiveNode for RwLock<SubscriberSet> used to TAKE the subscribers *)
Definition notify_sig_prefix (j : nat) (s : state) : state :=
  match decl_of p j with
  | DSig true _ =>
      let ss := subs (getn s j) in
      let s := updn j (fun n => set_subs n []) (add_cause j s) in
      fold_left (fun s k => mark_dirty p k s) ss s
  | _ => notify_sig p j s
  end.
Definition write_sig_prefix (j : nat) (v : Z) (s : state) : state :=
  notify_sig_prefix j (updn j (fun n => set_sval n v) s).
End Prefix.
