(** Proofs about the transition model (C10): the code after [AsyncTransition::run(action).await]
    resumes only when every async derived value created inside the action (nested runs included)
    holds its value — for every program, every completion order and every poll order. *)
From Coq Require Import List Bool Arith Lia.
From LV Require Import Reactive.RxUtil Reactive.Transition.
Import ListNotations.

(** * shape of what the awaiting task still has to execute
    [wfr d p is]: [is] is a suffix of a flattened program, read with [d] runs open, the innermost
    of which is in phase [p] (in its action / action left / join passed); the outer ones are
    suspended inside their actions. *)
Inductive ph := PAct | PLeft | PWaited.

Inductive wfr : nat -> ph -> list instr -> Prop :=
| W_nil : wfr 0 PAct []
| W_new d is : wfr (S d) PAct is -> wfr (S d) PAct (INew :: is)
| W_enter d is : wfr (S d) PAct is -> wfr d PAct (IEnter :: is)
| W_leave d is : wfr (S d) PLeft is -> wfr (S d) PAct (ILeave :: is)
| W_wait d is : wfr (S d) PWaited is -> wfr (S d) PLeft (IWait :: is)
| W_resume d is : wfr d PAct is -> wfr (S d) PWaited (IResume :: is).

Lemma flat_item_wfr : forall it d k, wfr (S d) PAct k -> wfr (S d) PAct (flat_item it ++ k).
Proof.
  fix IH 1. intros [|l] d k H; cbn [flat_item].
  - cbn. apply W_new. exact H.
  - cbn [app]. apply W_enter. rewrite <- app_assoc.
    assert (G : forall l' k', wfr (S (S d)) PAct k' ->
                wfr (S (S d)) PAct ((fix go (l : list item) : list instr :=
                                       match l with [] => [] | x :: r => flat_item x ++ go r end) l' ++ k')).
    { induction l' as [|x l' IHl]; intros k' Hk; [exact Hk|].
      rewrite <- app_assoc. apply IH. apply IHl. exact Hk. }
    apply G. cbn. apply W_leave, W_wait, W_resume. exact H.
Qed.

Lemma program_wfr p : wfr 0 PAct (program p).
Proof.
  unfold program. rewrite <- (app_nil_r (flat_item (Nest p))).
  cbn [flat_item app]. apply W_enter. rewrite <- !app_assoc.
  assert (G : forall l' k', wfr 1 PAct k' ->
              wfr 1 PAct ((fix go (l : list item) : list instr :=
                             match l with [] => [] | x :: r => flat_item x ++ go r end) l' ++ k')).
  { induction l' as [|x l' IHl]; intros k' Hk; [exact Hk|].
    rewrite <- app_assoc. apply flat_item_wfr. apply IHl. exact Hk. }
  apply G. cbn. apply W_leave, W_wait, W_resume, W_nil.
Qed.

(** * the invariant *)
Definition hd_run (fs : list frame) : option nat :=
  match fs with [] => None | g :: _ => Some (f_run g) end.

(** every open run remembers the run that encloses it *)
Fixpoint chain (fs : list frame) : Prop :=
  match fs with [] => True | f :: tl => f_prev f = hd_run tl /\ chain tl end.

(** node [k] (registered with [reg]) is still awaited by an open run: the innermost one unless its
    join has passed ([tw]), or an outer one — and then the node is older than every run inside *)
Fixpoint cov (tw : bool) (k : nat) (reg : option nat) (fs : list frame) : Prop :=
  match fs with
  | [] => False
  | f :: tl => (tw = false /\ reg = Some (f_run f)) \/ (k < f_lo f /\ cov false k reg tl)
  end.

Definition waited (p : ph) : bool := match p with PWaited => true | _ => false end.

Record INV (d : nat) (p : ph) (s : tstate) : Prop := {
  i_depth : length (open s) = d;
  i_chain : chain (open s);
  i_cur : cur s = hd_run (match p with PAct => open s | _ => tl (open s) end);
  i_nodes : forall k n, nth_error (nodes s) k = Some n ->
                        n_value n = true \/ cov (waited p) k (n_reg n) (open s);
  i_snaps : forall r lo l, nth_error (snaps s) r = Some (Some (lo, l)) -> forallb (fun b => b) l = true
}.

Lemma holds_spec ns r : holds ns r = true ->
  forall k n, nth_error ns k = Some n -> n_reg n = Some r -> n_value n = true.
Proof.
  unfold holds. rewrite forallb_forall. intros H k n Hn Hr.
  specialize (H n (nth_error_In _ _ Hn)). rewrite Hr, Nat.eqb_refl in H. exact H.
Qed.

Lemma nth_error_skipn' {A} (l : list A) : forall lo j, nth_error (skipn lo l) j = nth_error l (lo + j).
Proof.
  induction l as [|x l IH]; intros [|lo] j; cbn; try reflexivity.
  - destruct j; reflexivity.
  - apply IH.
Qed.

Lemma snapshot_all ns lo :
  (forall k n, nth_error ns k = Some n -> lo <= k -> n_value n = true) ->
  forallb (fun b => b) (map n_value (skipn lo ns)) = true.
Proof.
  intros H. rewrite forallb_forall. intros b Hin. rewrite in_map_iff in Hin.
  destruct Hin as (n & <- & Hin). apply In_nth_error in Hin. destruct Hin as [j Hj].
  rewrite nth_error_skipn' in Hj. apply (H _ _ Hj). lia.
Qed.

(** * one poll of the awaiting task *)
Lemma exec_inv : forall is d p s, wfr d p is -> INV d p s ->
  exists d' p', wfr d' p' (rest (exec true is s)) /\ INV d' p' (exec true is s).
Proof.
  induction is as [|i rst IH]; intros d p s W I.
  - inversion W; subst. cbn [exec]. exists 0, PAct. split; [cbn; constructor|].
    destruct I as [I1 I2 I3 I4 I5]. constructor; cbn; auto.
  - destruct I as [I1 I2 I3 I4 I5].
    inversion W; subst; cbn [exec].
    + (* INew *)
      match goal with Hw : wfr ?d' ?p' rst |- _ => apply (IH d' p'); [exact Hw|] end.
      destruct (open s) as [|f fs] eqn:Ho; [discriminate|].
      constructor; cbn [open chain cur nodes snaps]; rewrite ?Ho; auto.
      intros k n Hn. rewrite nth_error_snoc in Hn.
      destruct (k <? length (nodes s)) eqn:Hlt; [apply I4; exact Hn|].
      destruct (k =? length (nodes s)); [|discriminate].
      inversion Hn; subst. right. cbn [n_reg cov waited]. left. split; [reflexivity|].
      cbn in I3. exact I3.
    + (* IEnter *)
      match goal with Hw : wfr ?d' ?p' rst |- _ => apply (IH d' p'); [exact Hw|] end.
      constructor; cbn [open chain cur nodes snaps f_prev f_run f_lo hd_run length].
      * first [rewrite I1; reflexivity | reflexivity].
      * split; [exact I3|exact I2].
      * reflexivity.
      * intros k n Hn. destruct (I4 k n Hn) as [Hv|Hc]; [left; exact Hv|].
        right. cbn [cov waited f_lo]. right. split; [|exact Hc].
        apply nth_error_Some. congruence.
      * intros r lo l Hn. rewrite nth_error_snoc in Hn.
        destruct (r <? length (snaps s)); [eapply I5; exact Hn|].
        destruct (r =? length (snaps s)); discriminate.
    + (* ILeave *)
      match goal with Hw : wfr ?d' ?p' rst |- _ => apply (IH d' p'); [exact Hw|] end.
      destruct (open s) as [|f fs] eqn:Ho; [discriminate|].
      constructor; cbn [open chain cur nodes snaps tl]; rewrite ?Ho; auto.
      cbn in I2. cbn. exact (proj1 I2).
    + (* IWait *)
      destruct (open s) as [|f fs] eqn:Ho; [discriminate|].
      destruct (holds (nodes s) (f_run f)) eqn:Hh.
      * match goal with Hw : wfr ?d' ?p' rst |- _ => apply (IH d' p'); [exact Hw|] end.
        constructor; cbn [open chain cur nodes snaps tl]; rewrite ?Ho; auto.
        intros k n Hn. destruct (I4 k n Hn) as [Hv|Hc]; [left; exact Hv|].
        cbn [cov waited] in Hc |- *. destruct Hc as [[_ Hr]|Hc].
        -- left. eapply holds_spec; eauto.
        -- right. right. exact Hc.
      * eexists _, PLeft. cbn [rest]. split; [exact W|].
        constructor; cbn [open chain cur nodes snaps tl]; rewrite ?Ho; auto.
    + (* IResume *)
      destruct (open s) as [|f fs] eqn:Ho; [discriminate|].
      assert (Hold : forall k n, nth_error (nodes s) k = Some n -> f_lo f <= k -> n_value n = true).
      { intros k n Hn Hle. destruct (I4 k n Hn) as [Hv|Hc]; [exact Hv|].
        cbn [cov waited] in Hc. destruct Hc as [[Hc _]|[Hc _]]; [discriminate|lia]. }
      match goal with Hw : wfr ?d' ?p' rst |- _ => apply (IH d' p'); [exact Hw|] end.
      constructor; cbn [open chain cur nodes snaps].
      * cbn [length] in *. lia.
      * cbn in I2. exact (proj2 I2).
      * cbn in I3. exact I3.
      * intros k n Hn. destruct (I4 k n Hn) as [Hv|Hc]; [left; exact Hv|].
        cbn [cov waited] in Hc. destruct Hc as [[Hc _]|[_ Hc]]; [discriminate|].
        right. exact Hc.
      * intros r lo l Hn. rewrite nth_error_upd in Hn.
        destruct (r =? f_run f).
        -- destruct (nth_error (snaps s) r); cbn in Hn; [|discriminate].
           inversion Hn; subst. apply snapshot_all. exact Hold.
        -- eapply I5; exact Hn.
Qed.

(** * reachable states *)
Definition Good (s : tstate) : Prop := exists d p, wfr d p (rest s) /\ INV d p s.

Lemma good_start p : Good (start p).
Proof.
  exists 0, PAct. split; [apply program_wfr|].
  constructor; cbn; auto.
  - intros [|k] n H; discriminate.
  - intros [|r] lo l H; discriminate.
Qed.

(** node-side steps only ever turn [n_value] on and leave the registrations alone *)
Lemma good_nodes s ns tw td :
  (forall k n', nth_error ns k = Some n' ->
     exists n, nth_error (nodes s) k = Some n /\ n_reg n' = n_reg n /\ (n_value n = true -> n_value n' = true)) ->
  Good s -> Good (mkT (rest s) (cur s) (open s) ns (snaps s) tw td).
Proof.
  intros H (d & p & W & [I1 I2 I3 I4 I5]). exists d, p. split; [exact W|].
  constructor; cbn; auto.
  intros k n' Hn. destruct (H k n' Hn) as (n & Hn0 & Hr & Hv).
  destruct (I4 k n Hn0) as [Hv0|Hc]; [left; auto|right; rewrite Hr; exact Hc].
Qed.

Lemma upd_nodes_ok (f : nd -> nd) ns j :
  (forall n, n_reg (f n) = n_reg n /\ (n_value n = true -> n_value (f n) = true)) ->
  forall k n', nth_error (upd j f ns) k = Some n' ->
    exists n, nth_error ns k = Some n /\ n_reg n' = n_reg n /\ (n_value n = true -> n_value n' = true).
Proof.
  intros Hf k n' Hn. rewrite nth_error_upd in Hn. destruct (k =? j).
  - destruct (nth_error ns k) as [n|]; cbn in Hn; [|discriminate]. inversion Hn; subst.
    exists n. destruct (Hf n). auto.
  - exists n'. auto.
Qed.

Lemma good_complete f s : Good s -> Good (complete f s).
Proof.
  intros G. unfold complete, set_nodes. apply good_nodes; [|exact G].
  apply upd_nodes_ok. intros n. destruct (n_done n); cbn; auto.
Qed.

Lemma good_poll t s : Good s -> Good (poll true t s).
Proof.
  intros G. destruct t as [|k]; cbn [poll].
  - destruct (t_woken s && negb (t_done s)); [|exact G].
    destruct G as (d & p & W & I). destruct (exec_inv _ _ _ _ W I) as (d' & p' & W' & I'). exists d', p'. auto.
  - destruct (nth_error (nodes s) k) as [n|]; [|exact G].
    destruct (negb (n_woken n)); [exact G|].
    destruct (n_done n && negb (n_value n)).
    + cbn [set_nodes rest cur open nodes snaps t_done t_woken].
      apply good_nodes; [|exact G]. apply upd_nodes_ok. intros m. cbn. auto.
    + unfold set_nodes. apply good_nodes; [|exact G]. apply upd_nodes_ok. intros m. cbn. auto.
Qed.

Lemma good_run_all fuel : forall picks s, Good s -> Good (run_all true fuel picks s).
Proof.
  induction fuel as [|f IH]; intros picks s G; cbn [run_all]; [exact G|].
  destruct (ready s); [exact G|]. apply IH, good_poll, G.
Qed.

Lemma good_step s e : Good s -> Good (step true s e).
Proof.
  intros G. destruct e; cbn [step]; [apply good_complete|apply good_poll|apply good_run_all]; exact G.
Qed.

Lemma good_run p evs : Good (run true p evs).
Proof.
  unfold run. assert (H : forall s, Good s -> Good (fold_left (step true) evs s)).
  { induction evs as [|e evs IH]; intros s G; cbn; [exact G|]. apply IH, good_step, G. }
  apply H, good_start.
Qed.

Lemma good_settle fuel : forall s, Good s -> Good (settle true fuel s).
Proof.
  induction fuel as [|f IH]; intros s G; cbn [settle]; [exact G|].
  set (s1 := run_all true (run_fuel s) [] s).
  assert (G1 : Good s1) by (apply good_run_all, G).
  destruct (forallb n_done (nodes s1)); [exact G1|]. apply IH.
  assert (H : forall l s, Good s -> Good (fold_left (fun s i => complete i s) l s)).
  { induction l as [|x l IHl]; intros s' G'; cbn; [exact G'|]. apply IHl, good_complete, G'. }
  apply H, G1.
Qed.

(** * the theorem: for every program of nested transitions, every history of completions and polls
    (and the final settling), whenever the code after some [run(..).await] has resumed, every async
    derived value created inside that run's action held its value at that moment *)
Theorem resumed_only_when_all_resolved : forall p evs fuel r lo l,
  nth_error (snaps (settle true fuel (run true p evs))) r = Some (Some (lo, l)) ->
  forallb (fun b => b) l = true.
Proof.
  intros p evs fuel r lo l H.
  destruct (good_settle fuel _ (good_run p evs)) as (d & ph & _ & I).
  exact (i_snaps _ _ _ I r lo l H).
Qed.

Corollary resumed_only_when_all_resolved_run : forall p evs r lo l,
  nth_error (snaps (run true p evs)) r = Some (Some (lo, l)) -> forallb (fun b => b) l = true.
Proof. intros p evs r lo l. apply (resumed_only_when_all_resolved p evs 0). Qed.

(** non-vacuity: a nested run finishes before the outer action creates another value; both runs
    resume, the outer one only after that later value has loaded *)
Example ex_nested :
  let p := [New; Nest [New]; New] in
  let s1 := run true p [Poll 0; Complete 1; Poll 2; Poll 0; Complete 0; Poll 1; Poll 0] in
  let s2 := run true p [Poll 0; Complete 1; Poll 2; Poll 0; Complete 0; Poll 1; Poll 0; Complete 2; Poll 3; Poll 0] in
  snaps s1 = [None; Some (1, [true])] /\ length (nodes s1) = 3 /\ t_done s1 = false /\
  snaps s2 = [Some (0, [true; true; true]); Some (1, [true])] /\ t_done s2 = true.
Proof. vm_compute. repeat split. Qed.

(** the variant that clears the slot instead of restoring the previous transition violates it: the
    value created after the nested run is not registered with the outer transition *)
Example clearing_variant_refuted :
  exists p evs r lo l,
    nth_error (snaps (run false p evs)) r = Some (Some (lo, l)) /\ forallb (fun b => b) l = false.
Proof. exists [Nest []; New], [Poll 0], 0, 0, [false]. vm_compute. split; reflexivity. Qed.
