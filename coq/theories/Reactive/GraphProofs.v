(** C01 at the level of operations: the global invariant holds initially, is preserved by
    every write / notify (both notification paths are the same code after the repair) and by
    every read issued from outside the graph, and a read returns a value whose whole tracked
    cone is Clean and current. *)
From Coq Require Import List ZArith Bool Arith Lia.
From LV Require Import Reactive.Graph Reactive.GraphLemmas Reactive.GraphInvariant
                       Reactive.GraphMarkProofs Reactive.GraphPullBase Reactive.GraphPullSteps
                       Reactive.GraphPullDefs Reactive.GraphPullEval Reactive.GraphPullRead
                       Reactive.GraphPullMemo Reactive.GraphPullProofs.
Import ListNotations.
Close Scope Z_scope.
Open Scope nat_scope.

Section P.
Variable p : prog.
Hypothesis wfp : wf_prog p.
Notation memob := (memob p).
Notation effb := (effb p).
Notation sigb := (sigb p).
Notation WF := (WF p).
Notation Inv := (Inv p).
Notation InvW := (InvW p).
Notation cur := (cur p).
Notation MarkRel := (MarkRel p).

(* with nothing running the bound is irrelevant *)
Lemma Inv_nil t t' s : Inv [] t s -> Inv [] t' s.
Proof.
  intros [Iw Iv]. split; auto. destruct Iw. split; auto; intros k; intros; contradiction.
Qed.

Definition Inv0 (s : state) : Prop := Inv [] 0 s.

(* ---------------------------------------------------------------- a signal is written / notifies *)
Lemma fold_mark_all l s :
  fold_left (fun a k => mark_dirty p k a) l s =
  fold_left (fun a k => if (fun _ : nat => false) k then a else mark_dirty p k a) l s.
Proof. reflexivity. Qed.

Lemma Inv_notify j v s :
  Inv0 s -> sigb j = true ->
  Inv0 (notify_sig p j (updn j (fun n => set_sval n v) s)).
Proof.
  intros [Iw Iv] Hsj. unfold notify_sig.
  assert (W : WF s) by apply Iw.
  set (s1 := updn j (fun n => set_sval n v) s).
  set (s2 := add_cause j s1).
  assert (H1 : forall k, st (getn s1 k) = st (getn s k) /\ cache (getn s1 k) = cache (getn s k) /\
                         rlog (getn s1 k) = rlog (getn s k) /\ srcs (getn s1 k) = srcs (getn s k) /\
                         subs (getn s1 k) = subs (getn s k)).
  { intros k. unfold s1. destruct (getn_updn_cases j (fun n => set_sval n v) s k) as [[-> E]|E]; rewrite E; nsimpl; auto. }
  assert (H1s : forall k, k <> j -> sval (getn s1 k) = sval (getn s k)).
  { intros k Hk. unfold s1. rewrite getn_updn_other; auto. }
  assert (H2 := fun k => add_cause_getn j s1 k). cbv zeta in H2. fold s2 in H2.
  assert (H2m := add_cause_misc j s1). fold s2 in H2m.
  assert (H12 : forall k, st (getn s2 k) = st (getn s k) /\ cache (getn s2 k) = cache (getn s k) /\
                          rlog (getn s2 k) = rlog (getn s k) /\ srcs (getn s2 k) = srcs (getn s k) /\
                          subs (getn s2 k) = subs (getn s k)).
  { intros k. specialize (H1 k). specialize (H2 k). intuition congruence. }
  assert (W2 : WF s2).
  { apply (WF_same_edges p s s2); auto.
    - destruct H2m as (->&_). unfold s1. apply nlen_updn.
    - intros k. destruct (H12 k) as (_&_&_&?&?). auto. }
  assert (HML := mark_dirty_list p (fun _ => false) (subs (getn s2 j)) (fun _ _ => False) s2 s2 W2 (MarkRel_refl p s2)).
  cbv beta iota zeta in HML.
  destruct HML as (MR & CX & DF).
  { intros y k HE; contradiction. }
  set (s' := fold_left (fun a k => mark_dirty p k a) (subs (getn s2 j)) s2) in *.
  assert (Hcore := fun k => mr_core p _ _ MR k).
  assert (F : forall k, cache (getn s' k) = cache (getn s k) /\ rlog (getn s' k) = rlog (getn s k) /\
                        srcs (getn s' k) = srcs (getn s k) /\ subs (getn s' k) = subs (getn s k) /\
                        st_le (st (getn s k)) (st (getn s' k))).
  { intros k. destruct (Hcore k) as (_&?&?&?&?&_). destruct (H12 k) as (Hs&?&?&?&?).
    pose proof (mr_st p _ _ MR k) as Hle. rewrite Hs in Hle. intuition congruence. }
  assert (Fcur : forall x, x <> j -> cur s' x = cur s x).
  { intros x Hx. unfold GraphInvariant.cur, cache_val. destruct (F x) as (->&_).
    destruct (Hcore x) as (->&_). destruct (H2 x) as (->&_). rewrite H1s; auto. }
  assert (Frl : forall k, rlog (getn s' k) = rlog (getn s k)) by (intros k; apply F).
  split; [split|]; try (intros k; intros; contradiction).
  - eapply MarkRel_WF; eauto.
  - rewrite (mr_err p _ _ MR). destruct H2m as (_&->&_). apply Iw.
  - intros k _. unfold L1. destruct (F k) as (_&->&->&_). apply Iw; auto.
  - intros k Hmk _. pose proof (inv_memo_c _ _ _ _ Iw k Hmk (fun x => x)) as HM.
    unfold GraphInvariant.MemoOKc in *. destruct (F k) as (->&->&_&_&Hle).
    destruct (cache (getn s k)).
    + intros Hc x w Hx Hmx.
      assert (Hcs : st (getn s k) = Clean) by (apply st_le_clean; rewrite <- Hc; exact Hle).
      rewrite Frl in Hx. pose proof (HM Hcs x w Hx Hmx) as Hxc.
      destruct (nstate_eqb (st (getn s' x)) Clean) eqn:En; [apply nstate_eqb_eq; auto|].
      apply nstate_eqb_neq in En. exfalso.
      assert (Hks : In k (subs (getn s' x))).
      { destruct (F x) as (_&_&_&->&_). eapply wf_src_sub; eauto.
        rewrite (inv_l1 _ _ _ _ Iw k (fun x => x)). apply in_tracked_of; eauto. }
      destruct (CX x k (fun x => x) Hmx) as [Hk _]; auto.
      { destruct (H12 x) as (->&_). exact Hxc. }
      apply (Hk Hmk Hc).
    + destruct HM as [Hd Hr]. split; auto. apply st_le_dirty. rewrite <- Hd. exact Hle.
  - intros k Hmk _. unfold GraphInvariant.MemoOKv. destruct (F k) as (->&_&_&_&Hle).
    intros Hcn Hd x w Hx. rewrite Frl in Hx.
    assert (Hds : st (getn s k) <> Dirty).
    { intros E. apply Hd. apply st_le_dirty. rewrite <- E. exact Hle. }
    destruct (Nat.eq_dec x j) as [->|Hxj].
    + exfalso. apply Hd.
      assert (Hks : In k (subs (getn s2 j))).
      { destruct (H12 j) as (_&_&_&_&->). eapply wf_src_sub; eauto.
        rewrite (inv_l1 _ _ _ _ Iw k (fun x => x)). apply in_tracked_of; eauto. }
      destruct (DF k Hks eq_refl) as [Hdk _]. auto.
    + rewrite Fcur by auto. apply (Iv k Hmk (fun x => x) Hcn Hds x w Hx).
Qed.

(* ---------------------------------------------------------------- a read from outside *)
Lemma ctx_ok_top : ctx_ok [] top_ctx.
Proof. unfold ctx_ok, top_ctx; cbn. auto. Qed.

Lemma Inv_read n s s' v :
  Inv0 s -> n < length p -> effb n = false ->
  read_top p n s = (s', v) ->
  Inv0 s' /\ PullRel p (S n) [] None s s' /\
  (memob n = true -> st (getn s' n) = Clean /\ cache (getn s' n) = Some v) /\
  (sigb n = true -> v = sval (getn s' n)).
Proof.
  intros I Hn He Hr. unfold read_top, read_any in Hr.
  destruct (snd (lvl p (N p)) true top_ctx n s) as [s1 x] eqn:E. inversion Hr; subst s' v. clear Hr.
  destruct (lvl_spec p wfp (N p)) as [_ HR].
  destruct (HR true top_ctx n s [] (N p) s1 x Hn Hn He (Inv_nil 0 (N p) s I) ctx_ok_top Logic.I E)
    as (I1 & _ & P1 & Hm & Hs).
  split; [apply Inv_emit; eapply Inv_nil; eauto|].
  split; [eapply PullRel_trans; [exact P1|apply PullRel_emit]|].
  rewrite !getn_emit. auto.
Qed.

(* ---------------------------------------------------------------- consistency of a Clean memo *)
(* the whole tracked cone of the memo is current: every tracked entry of every last-run log in
   it shows the source's present value; memo sources are themselves consistent *)
Inductive ConsistentM (s : state) : nat -> Prop :=
| cons_memo j :
    memob j = true -> cache (getn s j) <> None ->
    (forall x vx, In (x, vx, true) (rlog (getn s j)) ->
                  cur s x = vx /\ (memob x = true -> ConsistentM s x)) ->
    ConsistentM s j.

Lemma clean_consistent s : Inv0 s ->
  forall j, memob j = true -> st (getn s j) = Clean -> ConsistentM s j.
Proof.
  intros [Iw Iv] j. induction j as [j IH] using lt_wf_ind. intros Hm Hc.
  pose proof (inv_memo_c _ _ _ _ Iw j Hm (fun x => x)) as HM. unfold GraphInvariant.MemoOKc in HM.
  destruct (cache (getn s j)) eqn:Ec; [|destruct HM; congruence].
  constructor; auto; [congruence|].
  intros x vx Hx. split.
  - apply (Iv j Hm (fun x => x)); auto; congruence.
  - intros Hmx. apply IH; auto.
    + eapply wf_srclt; [apply Iw|]. rewrite (inv_l1 _ _ _ _ Iw j (fun x => x)). apply in_tracked_of; eauto.
    + eapply HM; eauto.
Qed.

End P.
