(** C01 at the level of operations: the global invariant holds initially, is preserved by
    every write / notify (both notification paths are the same code after the repair) and by
    every read issued from outside the graph, and a read returns a value whose whole tracked
    cone is Clean and current. *)
From Coq Require Import List ZArith Bool Arith Lia.
From LV Require Import Reactive.Graph Reactive.GraphLemmas Reactive.GraphInvariant
                       Reactive.GraphMarkProofs Reactive.GraphMarkOrigin Reactive.GraphQueueProofs
                       Reactive.GraphPullBase Reactive.GraphPullSteps
                       Reactive.GraphPullDefs Reactive.GraphPullEval Reactive.GraphPullRead
                       Reactive.GraphPullMemo Reactive.GraphPullProofs Reactive.GraphMarkCone.
Import ListNotations.
Close Scope Z_scope.
Open Scope nat_scope.

Section P.
Variable p : prog.
Hypothesis wfp : wf_prog p.
Notation memob := (memob p).
Notation dead := (dead p).
Notation GoneSame := (GoneSame p).
Notation effb := (effb p).
Notation sigb := (sigb p).
Notation WF := (WF p).
Notation Inv := (Inv p).
Notation Rest := (Rest p).
Notation cur := (cur p).
Notation MarkRel := (MarkRel p).

(* with nothing running the bound is irrelevant *)
Lemma Inv_nil t t' s : Inv [] t s -> Inv [] t' s.
Proof. intros I. split; try apply I. intros k []. Qed.

Definition Inv0 (s : state) : Prop := Inv [] 0 s.

(* ---------------------------------------------------------------- monotonicity of the needs *)
(* marking only raises states and flags: a node that still needs something needed it before *)
Section Mono.
Variables (s s' : state) (k : nat).
Hypothesis Hca : cache (getn s' k) = cache (getn s k).
Hypothesis Hle : st_le (st (getn s k)) (st (getn s' k)).
Hypothesis Hal : ealive (getn s' k) = ealive (getn s k).
Hypothesis Hfi : efirst (getn s' k) = efirst (getn s k).
Hypothesis Hmi : emissed (getn s' k) = emissed (getn s k).
Hypothesis Hpo : epoll (getn s' k) = epoll (getn s k).
Hypothesis Bd : bool_le (edirty (getn s k)) (edirty (getn s' k)).
Hypothesis Bf : bool_le (eflag (getn s k)) (eflag (getn s' k)).

Lemma needs_cur_mono : needs_cur p s' k -> needs_cur p s k.
Proof.
  unfold GraphInvariant.needs_cur, needs_cur_n, hasrun_n. rewrite Hca, Hal, Hfi.
  destruct (decl_of p k) as [| | |kd b h]; auto.
  - intros [Hc Hd]. split; auto. intros E. apply Hd. apply st_le_dirty. rewrite <- E. exact Hle.
  - intros (Ha & Hh & Hd). split; auto. split; auto.
    destruct (edirty (getn s k)) eqn:E; auto. rewrite (Bd eq_refl) in Hd. discriminate.
Qed.

Lemma needs_clean_mono : needs_clean p s' k -> needs_clean p s k.
Proof.
  unfold GraphInvariant.needs_clean, needs_clean_n, hasrun_n. rewrite Hca, Hal, Hfi, Hmi, Hpo.
  destruct (decl_of p k) as [| | |kd b h]; auto.
  - intros [Hc Hd]. split; auto. apply st_le_clean. rewrite <- Hd. exact Hle.
  - intros (Ha & Hh & Hd & Hf & Hrest). split; auto. split; auto.
    split; [destruct (edirty (getn s k)) eqn:E; auto; rewrite (Bd eq_refl) in Hd; discriminate|].
    split; [destruct (eflag (getn s k)) eqn:E; auto; rewrite (Bf eq_refl) in Hf; discriminate|auto].
Qed.

(* a node that will run either was going to already, or has just been made Dirty / dirty *)
Lemma will_run_cases :
  will_run p s' k ->
  will_run p s k \/ (st (getn s' k) = Dirty /\ st (getn s k) <> Dirty) \/
  (edirty (getn s' k) = true /\ edirty (getn s k) = false).
Proof.
  unfold GraphInvariant.will_run, will_run_n, hasrun_n. rewrite Hca, Hal, Hfi.
  destruct (decl_of p k) as [| | |kd b h]; try contradiction.
  - intros [Hc Hd]. destruct (nstate_eqb (st (getn s k)) Dirty) eqn:E.
    + apply nstate_eqb_eq in E. auto.
    + apply nstate_eqb_neq in E. auto.
  - intros (Ha & Hh & Hd). destruct (edirty (getn s k)) eqn:E; auto.
Qed.
End Mono.

Lemma MarkedAt_not_needs_clean s k :
  (memob k = true -> st (getn s k) <> Clean) ->
  (effb k = true -> ealive (getn s k) = true -> eflag (getn s k) = true) ->
  ~ needs_clean p s k.
Proof.
  intros M1 M2 H. unfold GraphInvariant.needs_clean, needs_clean_n in H.
  destruct (decl_of p k) eqn:Hd; try contradiction.
  - destruct H as [_ H]. apply M1; auto. unfold GraphInvariant.memob. rewrite Hd. auto.
  - destruct H as (Ha & _ & _ & Hf & _). rewrite M2 in Hf; auto; [discriminate|].
    unfold GraphInvariant.effb. rewrite Hd. auto.
Qed.

(* ---------------------------------------------------------------- a signal is written / notifies *)
(* effect-level fields and the halt flag, which no read, write or marking touches *)
Definition EffRel (s s' : state) : Prop :=
  (forall i, efirst (getn s' i) = efirst (getn s i) /\ epaused (getn s' i) = epaused (getn s i) /\
             ealive (getn s' i) = ealive (getn s i) /\ edone (getn s' i) = edone (getn s i) /\
             emissed (getn s' i) = emissed (getn s i) /\ epoll (getn s' i) = epoll (getn s i)) /\
  halted s' = halted s.

(* a write (or bare notify) while the bodies in [stk] are running, none of which depends on the
   written signal: everything at rest is marked as by a write from outside, the running bodies
   and all they have read so far are left exactly as they were *)
Lemma Inv_write stk t j v s :
  Inv stk t s -> sigb j = true -> dead s j = false ->
  (forall k, In k stk -> k <> j /\ ~ dep p k j /\ L1 s k) ->
  let s' := notify_sig p j (updn j (fun n => set_sval n v) s) in
  Inv stk t s' /\ (forall k, In k stk -> getn s' k = getn s k) /\ EffRel s s'.
Proof.
  intros I Hsj Hlive Hstk. cbv zeta.
  assert (Htr : forall k, In j (tracked_of (rlog (getn s k))) -> dep p k j).
  { intros k Hk. destruct (in_dec Nat.eq_dec k stk) as [Hin|Hin].
    - destruct (Hstk k Hin) as (_&_&HL). eapply wf_dep; [apply I|]. rewrite HL. exact Hk.
    - destruct (inv_rest _ _ _ _ I k Hin) as (HL&_). eapply wf_dep; [apply I|]. rewrite HL. exact Hk. }
  assert (Hun : forall x, x <> j -> ~ dep p x j ->
                getn (notify_sig p j (updn j (fun n => set_sval n v) s)) x = getn s x).
  { intros x Hx1 Hx2. pose proof (write_sig_untouched p j v s x (inv_wf _ _ _ _ I) Htr Hx1 Hx2) as H.
    assert (Hl0 : sgone (getn s j) = false).
    { rewrite <- Hlive. symmetry. apply dead_src. unfold GraphInvariant.effb, GraphInvariant.sigb in *.
      destruct (decl_of p j); congruence. }
    unfold write_sig in H. rewrite Hl0 in H. exact H. }
  unfold notify_sig in *.
  assert (W : WF s) by apply I.
  assert (Hdj : exists tk iv, decl_of p j = DSig tk iv).
  { unfold GraphInvariant.sigb in Hsj. destruct (decl_of p j); try discriminate. eauto. }
  destruct Hdj as (tk & iv & Hdj).
  set (s1 := updn j (fun n => set_sval n v) s).
  set (s2 := add_cause j s1).
  assert (V1 : forall k, st (getn s1 k) = st (getn s k) /\ cache (getn s1 k) = cache (getn s k) /\
                         rlog (getn s1 k) = rlog (getn s k) /\ srcs (getn s1 k) = srcs (getn s k) /\
                         subs (getn s1 k) = subs (getn s k) /\ since (getn s1 k) = since (getn s k) /\
                         qview_eq (getn s k) (getn s1 k)).
  { intros k. unfold s1. destruct (getn_updn_cases j (fun n => set_sval n v) s k) as [[_ E]|E]; rewrite E;
      unfold qview_eq; nsimpl; intuition. }
  assert (H1s : forall k, k <> j -> sval (getn s1 k) = sval (getn s k)).
  { intros k Hk. unfold s1. rewrite getn_updn_other; auto. }
  assert (H2 := fun k => add_cause_getn j s1 k). cbv zeta in H2. fold s2 in H2.
  assert (H2m := add_cause_misc j s1). fold s2 in H2m.
  assert (V2 : forall k, st (getn s2 k) = st (getn s k) /\ cache (getn s2 k) = cache (getn s k) /\
                         rlog (getn s2 k) = rlog (getn s k) /\ srcs (getn s2 k) = srcs (getn s k) /\
                         subs (getn s2 k) = subs (getn s k) /\ qview_eq (getn s k) (getn s2 k)).
  { intros k. specialize (V1 k). specialize (H2 k). unfold qview_eq in *. intuition congruence. }
  assert (Hsince2 : forall k, since (getn s2 k) = if tracks (getn s k) j then j :: since (getn s k) else since (getn s k)).
  { intros k. unfold s2. rewrite add_cause_since. destruct (V1 k) as (_&_&Hr&_&_&Hs&_).
    assert (Et : tracks (getn s1 k) j = tracks (getn s k) j) by (unfold tracks; rewrite Hr; reflexivity).
    rewrite Et, Hs. reflexivity. }
  assert (W2 : WF s2).
  { apply (WF_same_edges p s s2); auto.
    - destruct H2m as (->&_). unfold s1. apply nlen_updn.
    - intros k. destruct (V2 k) as (_&_&_&?&?&_). auto.
    - intros k. apply dead_view. destruct (V2 k) as (_&_&_&_&_&Hq). apply Hq. }
  assert (Q2 : QueueAll p s2).
  { unfold QueueAll. destruct H2m as (_&_&Hr2&_). apply (queue_transfer p s s2); [exact Hr2| |apply I].
    intros e. apply V2. }
  assert (HML := mark_dirty_list p (fun _ => false) (subs (getn s2 j)) (fun _ _ => False) s2 s2 W2 (MarkRel_refl p s2)).
  assert (OR := fun k => mark_dirty_list_origin p (fun _ => false) (subs (getn s2 j)) s2 k).
  assert (QF := mark_dirty_list_queue p (fun _ => false) (subs (getn s2 j)) s2 Q2).
  cbv beta iota zeta in HML, OR, QF.
  destruct HML as (MR & CX & DF).
  { intros y k HE; contradiction. }
  set (s' := fold_left (fun a k => mark_dirty p k a) (subs (getn s2 j)) s2) in *.
  assert (Hcore := fun k => mr_core p _ _ MR k).
  assert (F : forall k, cache (getn s' k) = cache (getn s k) /\ rlog (getn s' k) = rlog (getn s k) /\
                        srcs (getn s' k) = srcs (getn s k) /\ subs (getn s' k) = subs (getn s k) /\
                        st_le (st (getn s k)) (st (getn s' k)) /\
                        ealive (getn s' k) = ealive (getn s k) /\ efirst (getn s' k) = efirst (getn s k) /\
                        emissed (getn s' k) = emissed (getn s k) /\ epoll (getn s' k) = epoll (getn s k) /\
                        bool_le (edirty (getn s k)) (edirty (getn s' k)) /\
                        bool_le (eflag (getn s k)) (eflag (getn s' k)) /\
                        since (getn s' k) = since (getn s2 k)).
  { intros k. destruct (Hcore k) as (_&?&?&?&?&?&?&_&?&_&?&?). destruct (V2 k) as (Hs&?&?&?&?&Hq).
    unfold qview_eq in Hq. destruct Hq as (Hd&Hf&_&?&?&_&?&?).
    pose proof (mr_st p _ _ MR k) as Hle. rewrite Hs in Hle.
    pose proof (mr_edirty p _ _ MR k) as B1. pose proof (mr_eflag p _ _ MR k) as B2.
    rewrite Hd in B1. rewrite Hf in B2. intuition congruence. }
  assert (Fcur : forall x, x <> j -> cur s' x = cur s x).
  { intros x Hx. unfold GraphInvariant.cur, cache_val. destruct (F x) as (->&_).
    destruct (Hcore x) as (->&_). destruct (H2 x) as (->&_). rewrite H1s; auto. }
  assert (Frl : forall k, rlog (getn s' k) = rlog (getn s k)) by (intros k; apply F).
  assert (Hsubs2 : subs (getn s2 j) = subs (getn s j)) by apply V2.
  assert (Hunk : forall k, In k stk -> getn s' k = getn s k).
  { intros k Hk. destruct (Hstk k Hk) as (Hk1&Hk2&_). apply Hun; auto. }
  split; [|split; [exact Hunk|]].
  2:{ split.
      - intros i. destruct (Hcore i) as (_&_&_&_&_&_&E1&E2&E3&E4&E5&E6).
        destruct (V2 i) as (_&_&_&_&_&Hq). unfold qview_eq in Hq. destruct Hq as (_&_&_&G1&G3&G4&G5&G6).
        destruct (H2 i) as (_&_&_&_&_&_&_&_&_&_&G2&_).
        assert (G2' : epaused (getn s1 i) = epaused (getn s i)) by (unfold s1; apply (updn_field epaused); auto).
        repeat split; congruence.
      - rewrite (mr_halted p _ _ MR). destruct H2m as (_&_&_&->&_). reflexivity. }
  assert (Hg' : forall k, dead s' k = dead s k).
  { intros k. apply dead_view. destruct (Hcore k) as (_&_&_&_&_&_&_&_&_&->&_). destruct (V2 k) as (_&_&_&_&_&Hq). apply Hq. }
  split.
  - eapply MarkRel_WF; eauto.
  - rewrite (mr_err p _ _ MR). destruct H2m as (_&->&_). apply I.
  - rewrite (mr_nocause p _ _ MR). destruct H2m as (_&_&_&_&_&->). apply I.
  - intros k Hk.
    destruct (inv_rest _ _ _ _ I k Hk) as (R1 & R2 & R3 & R4 & R5).
    destruct (F k) as (Fca & Frk & Fsk & Fsu & Fle & Fal & Ffi & Fmi & Fpo & Fbd & Fbf & Fsi).
    split; [unfold L1; rewrite Fsk, Frk; exact R1|].
    split.
    { unfold uncached_ok in *. destruct (decl_of p k); auto. rewrite Fca, Frk.
      destruct R2 as [R2 R2'']. split; auto.
      intros Hc. destruct (R2 Hc) as [Hd Hr]. split; auto. apply st_le_dirty. rewrite <- Hd. exact Fle. }
    split; [|split].
    + intros Hn x w Hx Hgx. rewrite Frk in Hx. rewrite Hg' in Hgx.
      pose proof (R3 (needs_cur_mono s s' k Fca Fle Fal Ffi Fbd Hn) x w Hx Hgx) as Hcx.
      destruct (Nat.eq_dec x j) as [->|Hxj]; [|rewrite Fcur; auto].
      exfalso. apply (DirtyAt_not_needs_cur p s' k); auto. apply DF; auto.
      rewrite Hsubs2. eapply wf_src_sub; eauto. rewrite R1. apply in_tracked_of. eauto.
    + intros Hn x w Hx Hmx Hgx. rewrite Frk in Hx. rewrite Hg' in Hgx.
      pose proof (R4 (needs_clean_mono s s' k Fca Fle Fal Ffi Fmi Fpo Fbd Fbf Hn) x w Hx Hmx Hgx) as Hxc.
      destruct (nstate_eqb (st (getn s' x)) Clean) eqn:En; [apply nstate_eqb_eq; auto|].
      apply nstate_eqb_neq in En. exfalso.
      assert (Hks : In k (subs (getn s' x))).
      { destruct (F x) as (_&_&_&->&_). eapply wf_src_sub; eauto. rewrite R1. apply in_tracked_of; eauto. }
      destruct (CX x k (fun x => x) Hmx) as [Hk1 Hk2]; auto.
      { destruct (V2 x) as (->&_). exact Hxc. }
      apply (MarkedAt_not_needs_clean s' k Hk1 Hk2 Hn).
    + intros Hw. rewrite Fsi, Hsince2.
      assert (Hcases := will_run_cases s s' k). destruct Hcases as [Hold|Hnew]; auto.
      * destruct (tracks (getn s k) j); [discriminate|apply R5; auto].
      * assert (Hin : In k (subs (getn s2 j))).
        { destruct (OR k) as [O1 O2]. destruct (V2 k) as (Hs2&_&_&_&_&Hq). unfold qview_eq in Hq.
          destruct Hq as (Hd2&_). rewrite Hs2 in O1. rewrite Hd2 in O2.
          destruct Hnew as [[Hd Hnd]|[Hd Hnd]].
          - destruct (O1 Hd) as [?|[? _]]; [contradiction|auto].
          - destruct (O2 Hd) as [?|[? _]]; [congruence|auto]. }
        assert (Ht : tracks (getn s k) j = true).
        { apply tracks_iff. rewrite <- R1. eapply wf_sub_src; eauto. rewrite <- Hsubs2. exact Hin. }
        rewrite Ht. discriminate.
  - exact QF.
  - intros k Hk. destruct (Hstk k Hk) as (Hkj & Hkd & HL).
    destruct (inv_frame _ _ _ _ I k Hk) as (F1&F2&F3&F4&F5&F6&F7).
    assert (Ek : getn s' k = getn s k) by (apply Hunk; auto).
    assert (Hsame : forall x w, In (x, w, true) (rlog (getn s k)) -> getn s' x = getn s x).
    { intros x w Hx.
      assert (Hdx : dep p k x).
      { eapply wf_dep; [apply I|]. rewrite HL. apply in_tracked_of. eauto. }
      apply Hun.
      - intros ->. auto.
      - intros Hd. apply Hkd. eapply dep_trans; eauto. }
    split.
    { intros x w Hx Hgx. rewrite Ek in Hx. rewrite (dead_node p s s' x (Hsame x w Hx)) in Hgx. unfold GraphInvariant.cur. rewrite (Hsame x w Hx). apply (F1 x w Hx Hgx). }
    split.
    { intros x w Hx Hm Hgx. rewrite Ek in Hx. rewrite (dead_node p s s' x (Hsame x w Hx)) in Hgx. rewrite (Hsame x w Hx). apply (F2 x w Hx Hm Hgx). }
    rewrite Ek. auto 10.
Qed.

Lemma Inv_notify j v s :
  Inv0 s -> sigb j = true -> dead s j = false ->
  Inv0 (notify_sig p j (updn j (fun n => set_sval n v) s)).
Proof.
  intros I Hsj Hlive. apply (Inv_write [] 0 j v s I Hsj Hlive). intros k [].
Qed.


(* ---------------------------------------------------------------- a read from outside *)
Lemma ctx_ok_top : ctx_ok [] top_ctx.
Proof. unfold ctx_ok, top_ctx; cbn. auto. Qed.

Lemma Inv_read n s s' v :
  Inv0 s -> n < length p -> effb n = false -> dead s n = false ->
  read_top p n s = (s', v) ->
  Inv0 s' /\ PullRel p (S n) [] None s s' /\
  (memob n = true -> st (getn s' n) = Clean /\ cache (getn s' n) = Some v) /\
  (sigb n = true -> v = sval (getn s' n)).
Proof.
  intros I Hn He Hgn Hr. unfold read_top, read_any in Hr.
  destruct (snd (lvl p (N p)) true top_ctx n s) as [s1 x] eqn:E. inversion Hr; subst s' v. clear Hr.
  destruct (lvl_spec p wfp (N p)) as [_ HR].
  assert (Hcd : CtxDep p top_ctx n) by (intros w Hw; discriminate).
  destruct (HR true top_ctx n s [] (N p) s1 x Hn Hn He Hcd (Inv_nil 0 (N p) s I) ctx_ok_top Logic.I E)
    as (I1 & _ & P1 & Hm & Hs & _).
  split; [apply Inv_emit; eapply Inv_nil; eauto|].
  split; [eapply PullRel_trans; [exact P1|apply PullRel_emit]|].
  rewrite !getn_emit. split; [intros Hmn; apply Hm; auto|intros Hsn; apply Hs; auto].
Qed.

(* ---------------------------------------------------------------- consistency of a Clean memo *)
(* the whole tracked cone of the memo is current: every tracked entry of every last-run log in
   it shows the source's present value (for a source memo with a coarse comparator: a value the
   comparator does not tell from the present one); memo sources are themselves consistent; a
   source that has been disposed since is exempt (disposal is not a change) *)
Inductive ConsistentM (s : state) : nat -> Prop :=
| cons_memo j :
    memob j = true -> cache (getn s j) <> None ->
    (forall x vx, In (x, vx, true) (rlog (getn s j)) -> dead s x = false ->
                  eqv p x (cur s x) vx /\ (memob x = true -> ConsistentM s x)) ->
    ConsistentM s j.

Lemma clean_consistent s : Inv0 s ->
  forall j, memob j = true -> st (getn s j) = Clean -> ConsistentM s j.
Proof.
  intros I j. induction j as [j IH] using lt_wf_ind. intros Hm Hc.
  destruct (inv_rest _ _ _ _ I j (fun x => x)) as (R1 & R2 & R3 & R4 & _).
  destruct (memob_decl p j Hm) as (cm & e & Hd).
  unfold uncached_ok, GraphInvariant.needs_cur, GraphInvariant.needs_clean in *. rewrite Hd in *.
  cbn [needs_cur_n needs_clean_n] in *. destruct R2 as [R2 _].
  assert (Hcn : cache (getn s j) <> None).
  { intros E. destruct (R2 E). congruence. }
  constructor; auto.
  intros x vx Hx. split.
  - apply R3; auto. split; auto. congruence.
  - intros Hmx. apply IH; auto.
    + eapply wf_srclt; [apply I|]. rewrite R1. apply in_tracked_of; eauto.
    + eapply R4; eauto.
Qed.

(* the same inside a run: the cone of a Clean memo below the running frames is consistent *)
Lemma clean_consistent_stk stk t s : Inv stk t s ->
  forall j, j < t -> memob j = true -> st (getn s j) = Clean -> ConsistentM s j.
Proof.
  intros I j. induction j as [j IH] using lt_wf_ind. intros Hjt Hm Hc.
  assert (Hni : ~ In j stk).
  { intros Hin. destruct (inv_frame _ _ _ _ I j Hin) as (_&_&_&F4&_). lia. }
  destruct (inv_rest _ _ _ _ I j Hni) as (R1 & R2 & R3 & R4 & _).
  destruct (memob_decl p j Hm) as (cm & e & Hd).
  unfold uncached_ok, GraphInvariant.needs_cur, GraphInvariant.needs_clean in *. rewrite Hd in *.
  cbn [needs_cur_n needs_clean_n] in *. destruct R2 as [R2 _].
  assert (Hcn : cache (getn s j) <> None).
  { intros E. destruct (R2 E). congruence. }
  constructor; auto.
  intros x vx Hx.
  assert (Hxj : x < j).
  { eapply wf_srclt; [apply I|]. rewrite R1. apply in_tracked_of; eauto. }
  split.
  - apply R3; auto. split; auto. congruence.
  - intros Hmx. apply IH; auto; [lia|]. eapply R4; eauto.
Qed.

(* every value read during any run (of a memo or an effect body) is, at that moment, cached in
   a Clean memo with a consistent cone, or is the signal's current value: no glitch *)
Theorem read_in_run_consistent m c j s stk t s' v :
  Inv stk t s -> ctx_ok stk c -> TopOK c s -> j < t -> j < length p -> effb j = false ->
  CtxDep p c j -> dead s j = false ->
  read_any p m c j s = (s', v) ->
  Inv stk t s' /\
  (memob j = true -> cache (getn s' j) = Some v /\ ConsistentM s' j) /\
  (sigb j = true -> v = sval (getn s' j)).
Proof.
  intros I C T Hjt Hjl He Hcd Hgj Hr. unfold read_any in Hr.
  destruct (lvl_spec p wfp (N p)) as [_ HR].
  destruct (HR m c j s stk t s' v Hjl Hjt He Hcd I C T Hr) as (I' & _ & _ & Hm & Hs & _).
  split; auto. split; [|intros Hsj; apply Hs; auto].
  intros Hmj. destruct (Hm Hmj Hgj) as [Hc Hca]. split; auto.
  apply (clean_consistent_stk stk t s' I' j Hjt Hmj Hc).
Qed.

End P.
