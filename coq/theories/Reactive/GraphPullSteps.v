(** Pull phase, part 2: the primitive steps of a read and of a recomputation, field by field
    ([track], [clear_sources], [log_read], [begin_run]), and that they keep the graph
    well-formed. *)
From Coq Require Import List ZArith Bool Arith Lia.
From LV Require Import Reactive.Graph Reactive.GraphLemmas Reactive.GraphInvariant
                       Reactive.GraphMarkProofs Reactive.GraphPullBase.
Import ListNotations.
Close Scope Z_scope.
Open Scope nat_scope.

Section P.
Variable p : prog.
Notation memob := (memob p).
Notation dead := (dead p).
Notation effb := (effb p).
Notation WF := (WF p).

(* ---------------------------------------------------------------- track *)
Lemma track_none c j s : obs_of c = None -> track c j s = s.
Proof. intros H. unfold track. rewrite H. reflexivity. Qed.

Section Track.
Variables (c : ctx) (o j : nat) (s : state).
Hypothesis Ho : obs_of c = Some o.
Hypothesis Hlt : j < o.
Hypothesis Hor : o < nlen s.

Let s' := track c j s.

Lemma track_nlen : nlen s' = nlen s.
Proof. unfold s', track. rewrite Ho. rewrite !nlen_updn. reflexivity. Qed.

Lemma track_obs : getn s' o = set_srcs (getn s o) (srcs (getn s o) ++ [j]).
Proof.
  unfold s', track. rewrite Ho. rewrite getn_updn_other by lia.
  rewrite getn_updn_same; auto.
Qed.

Lemma track_src : getn s' j = set_subs (getn s j) (subscribe (subs (getn s j)) o).
Proof.
  unfold s', track. rewrite Ho. rewrite getn_updn_same by (rewrite nlen_updn; lia).
  rewrite getn_updn_other by lia. reflexivity.
Qed.

Lemma track_other k : k <> o -> k <> j -> getn s' k = getn s k.
Proof.
  intros H1 H2. unfold s', track. rewrite Ho. rewrite !getn_updn_other; auto.
Qed.

Lemma track_misc : err s' = err s /\ ready s' = ready s /\ trace s' = trace s /\
                   nocause s' = nocause s /\ halted s' = halted s.
Proof. unfold s', track. rewrite Ho. repeat split; reflexivity. Qed.

(* field views *)
Lemma track_srcs k : srcs (getn s' k) = if Nat.eqb k o then srcs (getn s o) ++ [j] else srcs (getn s k).
Proof.
  destruct (Nat.eqb_spec k o) as [->|Hk].
  - rewrite track_obs. reflexivity.
  - destruct (Nat.eq_dec k j) as [->|Hkj].
    + rewrite track_src. reflexivity.
    + rewrite track_other; auto.
Qed.

Lemma track_subs k : subs (getn s' k) = if Nat.eqb k j then subscribe (subs (getn s j)) o else subs (getn s k).
Proof.
  destruct (Nat.eqb_spec k j) as [->|Hk].
  - rewrite track_src. reflexivity.
  - destruct (Nat.eq_dec k o) as [->|Hko].
    + rewrite track_obs. reflexivity.
    + rewrite track_other; auto.
Qed.

Lemma track_rest k :
  let n := getn s k in let n' := getn s' k in
  sval n' = sval n /\ st n' = st n /\ cache n' = cache n /\ rlog n' = rlog n /\ since n' = since n /\
  edirty n' = edirty n /\ eflag n' = eflag n /\ ereg n' = ereg n /\ efirst n' = efirst n /\
  epaused n' = epaused n /\ ealive n' = ealive n /\ edone n' = edone n /\ emissed n' = emissed n /\ epoll n' = epoll n.
Proof.
  cbv zeta. destruct (Nat.eq_dec k o) as [->|Hko]; [rewrite track_obs; nsimpl; intuition|].
  destruct (Nat.eq_dec k j) as [->|Hkj]; [rewrite track_src; nsimpl; intuition|].
  rewrite track_other; auto. intuition.
Qed.

Lemma track_gone k : dead s' k = dead s k.
Proof. apply dead_view. destruct (track_rest k) as (_&_&_&_&_&_&_&_&_&_&_&H&_). exact H. Qed.

Lemma WF_track : dep p o j -> dead s j = false -> WF s -> WF s'.
Proof.
  intros Hdep Hlive W. split.
  - rewrite track_nlen. apply W.
  - intros i x. rewrite track_srcs. destruct (Nat.eqb_spec i o) as [->|].
    + rewrite in_app_iff. intros [H|[<-|[]]]; auto. eapply wf_srclt; eauto.
    + apply W.
  - intros k. rewrite track_subs. destruct (Nat.eqb k j).
    + apply nodup_subscribe. apply W.
    + apply W.
  - intros y k. rewrite track_subs, track_srcs.
    destruct (Nat.eqb_spec y j) as [->|Hy]; destruct (Nat.eqb_spec k o) as [->|Hk].
    + intros _. rewrite in_app_iff. right; left; auto.
    + rewrite in_subscribe. intros [H| ->]; [|congruence]. eapply wf_sub_src; eauto.
    + intros H. rewrite in_app_iff. left. eapply wf_sub_src; eauto.
    + apply W.
  - intros y k. rewrite track_subs, track_srcs, track_gone.
    destruct (Nat.eqb_spec y j) as [->|Hy]; destruct (Nat.eqb_spec k o) as [->|Hk].
    + intros _ _. rewrite in_subscribe. auto.
    + intros H Hg. rewrite in_subscribe. left. eapply wf_src_sub; eauto.
    + rewrite in_app_iff. intros [H|[<-|[]]] Hg; [|congruence]. eapply wf_src_sub; eauto.
    + apply W.
  - intros i x. rewrite track_srcs. destruct (Nat.eqb_spec i o) as [->|].
    + rewrite in_app_iff. intros [H|[<-|[]]]; auto. eapply wf_dep; eauto.
    + apply W.
  - intros y. rewrite track_gone, track_subs. destruct (Nat.eqb_spec y j) as [->|Hy].
    + congruence.
    + apply W.
Qed.
End Track.


(* ---------------------------------------------------------------- track_dead *)
Section TrackDead.
Variables (c : ctx) (o j : nat) (s : state).
Hypothesis Ho : obs_of c = Some o.
Hypothesis Hlt : j < o.
Hypothesis Hor : o < nlen s.

Let s' := track_dead c j s.

Lemma track_dead_nlen : nlen s' = nlen s.
Proof. unfold s', track_dead. rewrite Ho. apply nlen_updn. Qed.

Lemma track_dead_obs : getn s' o = set_srcs (getn s o) (srcs (getn s o) ++ [j]).
Proof. unfold s', track_dead. rewrite Ho. rewrite getn_updn_same; auto. Qed.

Lemma track_dead_other k : k <> o -> getn s' k = getn s k.
Proof. intros H. unfold s', track_dead. rewrite Ho. rewrite getn_updn_other; auto. Qed.

Lemma track_dead_misc : err s' = err s /\ ready s' = ready s /\ trace s' = trace s /\
                        nocause s' = nocause s /\ halted s' = halted s.
Proof. unfold s', track_dead. rewrite Ho. repeat split; reflexivity. Qed.

Lemma track_dead_srcs k : srcs (getn s' k) = if Nat.eqb k o then srcs (getn s o) ++ [j] else srcs (getn s k).
Proof.
  destruct (Nat.eqb_spec k o) as [->|Hk].
  - rewrite track_dead_obs. reflexivity.
  - rewrite track_dead_other; auto.
Qed.

Lemma track_dead_rest k :
  let n := getn s k in let n' := getn s' k in
  sval n' = sval n /\ st n' = st n /\ cache n' = cache n /\ rlog n' = rlog n /\ since n' = since n /\
  edirty n' = edirty n /\ eflag n' = eflag n /\ ereg n' = ereg n /\ efirst n' = efirst n /\
  epaused n' = epaused n /\ ealive n' = ealive n /\ edone n' = edone n /\ emissed n' = emissed n /\ epoll n' = epoll n /\
  subs n' = subs n.
Proof.
  cbv zeta. destruct (Nat.eq_dec k o) as [->|Hko]; [rewrite track_dead_obs; nsimpl; intuition|].
  rewrite track_dead_other; auto. intuition.
Qed.

Lemma WF_track_dead : dep p o j -> dead s j = true -> WF s -> WF s'.
Proof.
  intros Hdep Hdead W.
  assert (Hsu : forall k, subs (getn s' k) = subs (getn s k)) by (intros k; apply track_dead_rest).
  assert (Hgo : forall k, dead s' k = dead s k) by (intros k; apply dead_view; apply track_dead_rest).
  split.
  - rewrite track_dead_nlen. apply W.
  - intros i x. rewrite track_dead_srcs. destruct (Nat.eqb_spec i o) as [->|].
    + rewrite in_app_iff. intros [H|[<-|[]]]; auto. eapply wf_srclt; eauto.
    + apply W.
  - intros k. rewrite Hsu. apply W.
  - intros y k. rewrite Hsu, track_dead_srcs. intros H.
    destruct (Nat.eqb_spec k o) as [->|Hk]; [rewrite in_app_iff; left|]; eapply wf_sub_src; eauto.
  - intros y k. rewrite Hsu, track_dead_srcs, Hgo.
    destruct (Nat.eqb_spec k o) as [->|Hk]; [|apply W].
    rewrite in_app_iff. intros [H|[<-|[]]] Hg; [eapply wf_src_sub; eauto|congruence].
  - intros i x. rewrite track_dead_srcs. destruct (Nat.eqb_spec i o) as [->|].
    + rewrite in_app_iff. intros [H|[<-|[]]]; auto. eapply wf_dep; eauto.
    + apply W.
  - intros y. rewrite Hgo, Hsu. apply W.
Qed.
End TrackDead.

(* ---------------------------------------------------------------- clear_sources *)
Definition unsub_all (i : nat) (l : list nat) (s : state) : state :=
  fold_left (fun s j => updn j (fun n => set_subs n (unsubscribe (subs n) i)) s) l s.

Lemma unsub_all_fields i l : forall s k,
  (forall y, NoDup (subs (getn s y))) ->
  let s' := unsub_all i l s in
  nlen s' = nlen s /\
  subs (getn s' k) = (if in_dec Nat.eq_dec k l then unsubscribe (subs (getn s k)) i else subs (getn s k)) /\
  (forall y, NoDup (subs (getn s' y))) /\
  (let n := getn s k in let n' := getn s' k in
   sval n' = sval n /\ st n' = st n /\ cache n' = cache n /\ srcs n' = srcs n /\ rlog n' = rlog n /\
   since n' = since n /\ edirty n' = edirty n /\ eflag n' = eflag n /\ ereg n' = ereg n /\
   efirst n' = efirst n /\ epaused n' = epaused n /\ ealive n' = ealive n /\ edone n' = edone n /\
   emissed n' = emissed n /\ epoll n' = epoll n) /\
  err s' = err s /\ ready s' = ready s /\ trace s' = trace s /\ nocause s' = nocause s /\
  halted s' = halted s.
Proof.
  induction l as [|a t IH]; intros s k Hnd; cbn [unsub_all fold_left].
  - cbv zeta. destruct (in_dec Nat.eq_dec k []) as [[]|_]. intuition.
  - set (s1 := updn a (fun n => set_subs n (unsubscribe (subs n) i)) s).
    assert (Hnd1 : forall y, NoDup (subs (getn s1 y))).
    { intros y. unfold s1. destruct (getn_updn_cases a (fun n => set_subs n (unsubscribe (subs n) i)) s y) as [[-> E]|E];
        rewrite E; nsimpl; auto using nodup_unsubscribe. }
    specialize (IH s1 k Hnd1). cbv zeta in IH. fold (unsub_all i t s1) in *.
    destruct IH as (Hl & Hs & Hn & Hf & Hm).
    split; [rewrite Hl; unfold s1; apply nlen_updn|]. split; [|split; [exact Hn|split]].
    + rewrite Hs.
      assert (Hs1 : subs (getn s1 k) = if Nat.eqb a k && Nat.ltb a (nlen s) then unsubscribe (subs (getn s k)) i else subs (getn s k)).
      { unfold s1. rewrite getn_updn. destruct (Nat.eqb_spec a k) as [->|]; cbn [andb]; auto.
        destruct (Nat.ltb _ _); reflexivity. }
      rewrite Hs1.
      destruct (in_dec Nat.eq_dec k t) as [Ht|Ht]; destruct (in_dec Nat.eq_dec k (a :: t)) as [Hat|Hat];
        try (exfalso; apply Hat; right; exact Ht).
      * destruct (Nat.eqb_spec a k) as [->|]; cbn [andb]; auto.
        destruct (Nat.ltb _ _); auto.
        rewrite unsubscribe_notin; auto. apply not_in_unsubscribe; auto.
      * destruct Hat as [->|Hat]; [|contradiction]. rewrite Nat.eqb_refl. cbn [andb].
        destruct (Nat.ltb_spec k (nlen s)); auto.
        rewrite getn_oob by auto. reflexivity.
      * destruct (Nat.eqb_spec a k) as [->|]; cbn [andb]; auto. exfalso; apply Hat; left; auto.
    + cbv zeta.
      assert (Hf1 : let n := getn s k in let n' := getn s1 k in
        sval n' = sval n /\ st n' = st n /\ cache n' = cache n /\ srcs n' = srcs n /\ rlog n' = rlog n /\
        since n' = since n /\ edirty n' = edirty n /\ eflag n' = eflag n /\ ereg n' = ereg n /\
        efirst n' = efirst n /\ epaused n' = epaused n /\ ealive n' = ealive n /\ edone n' = edone n /\
        emissed n' = emissed n /\ epoll n' = epoll n).
      { cbv zeta. unfold s1.
        destruct (getn_updn_cases a (fun n => set_subs n (unsubscribe (subs n) i)) s k) as [[-> E]|E];
          rewrite E; nsimpl; intuition. }
      cbv zeta in Hf1. intuition congruence.
    + destruct Hm as (?&?&?&?&?). unfold s1 in *. intuition.
Qed.

Lemma clear_sources_eq i s : clear_sources i s = updn i (fun n => set_srcs n []) (unsub_all i (srcs (getn s i)) s).
Proof. reflexivity. Qed.

Section Clear.
Variables (i : nat) (s : state).
Hypothesis W : WF s.
Hypothesis Hi : i < nlen s.
Let s' := clear_sources i s.

Lemma clear_nlen : nlen s' = nlen s.
Proof.
  unfold s'. rewrite clear_sources_eq, nlen_updn.
  apply (unsub_all_fields i (srcs (getn s i)) s 0). apply W.
Qed.

Lemma clear_srcs k : srcs (getn s' k) = if Nat.eqb k i then [] else srcs (getn s k).
Proof.
  unfold s'. rewrite clear_sources_eq.
  destruct (unsub_all_fields i (srcs (getn s i)) s k (wf_nodup p s W)) as (Hl & _ & _ & Hf & _).
  cbv zeta in Hf. destruct (Nat.eqb_spec k i) as [->|Hk].
  - rewrite getn_updn_same by (rewrite Hl; auto). reflexivity.
  - rewrite getn_updn_other by auto. intuition.
Qed.

(* with symmetric edges, clearing removes i from every subscriber list and nothing else *)
Lemma clear_subs k : subs (getn s' k) = unsubscribe (subs (getn s k)) i.
Proof.
  unfold s'. rewrite clear_sources_eq.
  destruct (unsub_all_fields i (srcs (getn s i)) s k (wf_nodup p s W)) as (Hl & Hs & _ & Hf & _).
  assert (E : subs (getn (updn i (fun n => set_srcs n []) (unsub_all i (srcs (getn s i)) s)) k)
              = subs (getn (unsub_all i (srcs (getn s i)) s) k)).
  { destruct (getn_updn_cases i (fun n => set_srcs n []) (unsub_all i (srcs (getn s i)) s) k) as [[-> E]|E];
      rewrite E; reflexivity. }
  rewrite E, Hs. destruct (in_dec Nat.eq_dec k (srcs (getn s i))) as [Hin|Hin]; auto.
  rewrite unsubscribe_notin; auto. intros Hc. apply Hin. eapply wf_sub_src; eauto.
Qed.

Lemma clear_rest k :
  let n := getn s k in let n' := getn s' k in
  sval n' = sval n /\ st n' = st n /\ cache n' = cache n /\ rlog n' = rlog n /\ since n' = since n /\
  edirty n' = edirty n /\ eflag n' = eflag n /\ ereg n' = ereg n /\ efirst n' = efirst n /\
  epaused n' = epaused n /\ ealive n' = ealive n /\ edone n' = edone n /\ emissed n' = emissed n /\ epoll n' = epoll n.
Proof.
  cbv zeta. unfold s'. rewrite clear_sources_eq.
  destruct (unsub_all_fields i (srcs (getn s i)) s k (wf_nodup p s W)) as (Hl & _ & _ & Hf & _).
  cbv zeta in Hf.
  destruct (getn_updn_cases i (fun n => set_srcs n []) (unsub_all i (srcs (getn s i)) s) k) as [[-> E]|E];
    rewrite E; nsimpl; intuition.
Qed.

Lemma clear_misc : err s' = err s /\ ready s' = ready s /\ trace s' = trace s /\
                   nocause s' = nocause s /\ halted s' = halted s.
Proof.
  unfold s'. rewrite clear_sources_eq.
  destruct (unsub_all_fields i (srcs (getn s i)) s 0 (wf_nodup p s W)) as (_ & _ & _ & _ & Hm).
  exact Hm.
Qed.

Lemma clear_gone k : dead s' k = dead s k.
Proof. apply dead_view. destruct (clear_rest k) as (_&_&_&_&_&_&_&_&_&_&_&H&_). exact H. Qed.

Lemma WF_clear : WF s'.
Proof.
  split.
  - rewrite clear_nlen. apply W.
  - intros k x. rewrite clear_srcs. destruct (Nat.eqb k i); [intros []|apply W].
  - intros k. rewrite clear_subs. apply nodup_unsubscribe. apply W.
  - intros y k. rewrite clear_subs, clear_srcs. intros H.
    destruct (Nat.eqb_spec k i) as [->|Hk].
    + exfalso. eapply not_in_unsubscribe; eauto. apply W.
    + eapply wf_sub_src; eauto. eapply in_unsubscribe; eauto.
  - intros y k. rewrite clear_subs, clear_srcs, clear_gone.
    destruct (Nat.eqb_spec k i) as [->|Hk]; [intros []|].
    intros H Hg. apply in_unsubscribe_other; auto. eapply wf_src_sub; eauto.
  - intros k x. rewrite clear_srcs. destruct (Nat.eqb k i); [intros []|apply W].
  - intros y. rewrite clear_gone, clear_subs. intros Hg. rewrite (wf_gone p s W y Hg). reflexivity.
Qed.
End Clear.

End P.
