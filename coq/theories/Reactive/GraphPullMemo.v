(** Pull phase, part 6: MemoInner::update_if_necessary.  The [any] over the sources
    ([any_src]), the branch that keeps the cached value, and the preparation of a run
    (clear_sources + ghost bookkeeping). *)
From Coq Require Import List ZArith Bool Arith Lia.
From LV Require Import Reactive.Graph Reactive.GraphLemmas Reactive.GraphReplay Reactive.GraphInvariant
                       Reactive.GraphMarkProofs Reactive.GraphMarkOrigin Reactive.GraphQueueProofs
                       Reactive.GraphPullBase Reactive.GraphPullSteps
                       Reactive.GraphPullDefs Reactive.GraphPullEval.
Import ListNotations.
Close Scope Z_scope.
Open Scope nat_scope.

Section P.
Variable p : prog.
Notation memob := (memob p).
Notation dead := (dead p).
Notation GoneSame := (GoneSame p).
Notation effb := (effb p).
Notation WF := (WF p).
Notation Inv := (Inv p).
Notation Lcur := (Lcur p).
Notation Lclean := (Lclean p).
Notation Rest := (Rest p).
Notation Frame := (Frame p).
Notation cur := (cur p).
Notation queue_ok := (queue_ok p).
Notation PullRel := (PullRel p).
Notation USpec := (USpec p).

(* ---------------------------------------------------------------- the [any] over the sources *)
Lemma frame_ge stk t s k : Inv stk t s -> In k stk -> t <= k.
Proof. intros I Hk. destruct (inv_frame _ _ _ _ I k Hk) as (_&_&_&F4&_). exact F4. Qed.

Lemma any_src_spec i U : USpec i U ->
  forall l c s stk s1 need,
    (forall x, In x l -> x < i) ->
    Inv stk i s -> ctx_ok stk c ->
    st (getn s i) <> Dirty ->
    any_src U c i l s = (s1, need) ->
    Inv stk i s1 /\ PullRel i stk None s s1 /\
    (need = false ->
       st (getn s1 i) <> Dirty /\
       forall x, In x l -> memob x = true -> dead s1 x = false -> st (getn s1 x) = Clean) /\
    (need = true ->
       st (getn s1 i) = Dirty \/
       exists x, In x l /\ forall k, In x (tracked_of (rlog (getn s1 k))) -> since (getn s1 k) <> []).
Proof.
  intros HU l. induction l as [|x l IH]; intros c s stk s1 need Hl I C Hnd Ha; cbn [any_src] in Ha.
  - inversion Ha; subst. split; auto. split; [apply PullRel_refl|]. split; [|discriminate].
    intros _. split; auto. intros x [].
  - destruct (U c x s) as [s2 ch] eqn:EU.
    assert (Hx : x < i) by (apply Hl; left; auto).
    destruct (HU c x s stk i s2 ch Hx Hx I C EU) as (I2 & P2 & _ & Hcl & Hcause).
    assert (P2' : PullRel i stk None s s2) by (eapply PullRel_weaken; [|exact P2]; lia).
    destruct (ch || nstate_eqb (st (getn s2 i)) Dirty) eqn:Ec.
    + inversion Ha; subst. split; auto. split; auto. split; [discriminate|].
      intros _. destruct ch.
      * right. exists x. split; [left; auto|]. apply Hcause; auto.
      * left. cbn in Ec. apply nstate_eqb_eq in Ec. exact Ec.
    + apply orb_false_elim in Ec as [-> Ed]. apply nstate_eqb_neq in Ed.
      destruct (IH c s2 stk s1 need) as (I1 & P1 & Hn & Hy); auto.
      { intros y Hy. apply Hl; right; auto. }
      split; auto. split; [eapply PullRel_trans; eauto|]. split.
      * intros Hf. destruct (Hn Hf) as [Hd Hall]. split; auto.
        intros y [<-|Hy'] Hm Hgy; auto.
        assert (Hgx : dead s x = false).
        { rewrite <- (PullRel_GoneSame p _ _ _ _ _ P2' x), <- (PullRel_GoneSame p _ _ _ _ _ P1 x). exact Hgy. }
        destruct (Hcl Hm Hgx) as [Hc2 _].
        apply (pr_stable _ _ _ _ _ _ P1 x Hm); auto.
        intros Hin. pose proof (frame_ge stk i s x I Hin). lia.
      * intros Ht. destruct (Hy Ht) as [?|(y & Hy1 & Hy2)]; auto.
        right. exists y. split; auto. right; auto.
Qed.

(* ---------------------------------------------------------------- nothing changed: back to Clean *)
Lemma memo_keep stk i s :
  Inv stk i s -> memob i = true -> ~ In i stk ->
  st (getn s i) <> Dirty -> cache (getn s i) <> None ->
  (forall x v, In (x, v, true) (rlog (getn s i)) -> memob x = true -> dead s x = false ->
               st (getn s x) = Clean) ->
  let s' := updn i (fun n => set_st n Clean) s in
  Inv stk i s' /\ PullRel (S i) stk None s s' /\ subs (getn s' i) = subs (getn s i) /\
  st (getn s' i) = Clean /\ cache (getn s' i) <> None.
Proof.
  intros I Hm Hni Hnd Hcache Hsrc. cbv zeta.
  set (s' := updn i (fun n => set_st n Clean) s).
  assert (W : WF s) by apply I.
  assert (Hi : i < nlen s) by (eapply memob_range; eauto).
  destruct (memob_decl p i Hm) as (cm & e & Hd).
  assert (Hsame : forall k, k <> i -> getn s' k = getn s k) by (intros k Hk; apply getn_updn_other; auto).
  assert (Hat : getn s' i = set_st (getn s i) Clean) by (apply getn_updn_same; auto).
  assert (Hf : forall k, sval (getn s' k) = sval (getn s k) /\ cache (getn s' k) = cache (getn s k) /\
                         rlog (getn s' k) = rlog (getn s k) /\ srcs (getn s' k) = srcs (getn s k) /\
                         subs (getn s' k) = subs (getn s k) /\ since (getn s' k) = since (getn s k)).
  { intros k. destruct (Nat.eq_dec k i) as [->|Hk]; [rewrite Hat; nsimpl|rewrite Hsame by auto]; intuition. }
  assert (Hst : forall k, st (getn s' k) = if Nat.eqb k i then Clean else st (getn s k)).
  { intros k. destruct (Nat.eqb_spec k i) as [->|Hk]; [rewrite Hat; reflexivity|rewrite Hsame; auto]. }
  assert (Hclean : forall k, st (getn s k) = Clean -> st (getn s' k) = Clean).
  { intros k Hc. rewrite Hst. destruct (Nat.eqb k i); auto. }
  assert (Hcur : forall x, cur s' x = cur s x) by (intros x; apply cur_view; apply Hf).
  assert (Hrl : forall k, rlog (getn s' k) = rlog (getn s k)) by (intros k; apply Hf).
  assert (Hca : forall k, cache (getn s' k) = cache (getn s k)) by (intros k; apply Hf).
  assert (Hsr : forall k, srcs (getn s' k) = srcs (getn s k)) by (intros k; apply Hf).
  assert (Hq : forall k, qview_eq (getn s k) (getn s' k)).
  { intros k. destruct (Nat.eq_dec k i) as [->|Hk]; [rewrite Hat|rewrite Hsame by auto];
      unfold qview_eq; nsimpl; intuition. }
  assert (Hgs : GoneSame s s').
  { intros k. apply dead_view. destruct (Nat.eq_dec k i) as [->|Hk]; [rewrite Hat; nsimpl|rewrite Hsame by auto]; auto. }
  assert (W' : WF s').
  { apply (WF_same_edges p s s'); auto. apply nlen_updn. intros k. split; apply Hf. }
  split; [|split; [|split; [|split]]].
  - split.
    + exact W'.
    + apply I.
    + apply I.
    + intros k Hk. destruct (Nat.eq_dec k i) as [->|Hki].
      * destruct (inv_rest _ _ _ _ I i Hk) as (R1 & R2 & R3 & R4 & R5).
        split; [apply (L1_ext s s' i (Hrl i) (Hsr i)); auto|].
        unfold GraphInvariant.needs_cur, GraphInvariant.needs_clean, GraphInvariant.will_run in *.
        rewrite Hd in *. cbn [uncached_ok needs_cur_n needs_clean_n will_run_n] in *.
        rewrite Hca, Hrl. split; [split; [intros Hc; congruence|apply R2]|]. split; [|split].
        -- intros _. apply (Lcur_ext p s s' i (Hrl i) Hgs); [intros x v _; apply Hcur|]. apply R3; auto.
        -- intros _ x v Hx Hmx Hg. rewrite Hrl in Hx. rewrite (Hgs x) in Hg. apply Hclean. eapply Hsrc; eauto.
        -- intros [_ Hds]. rewrite Hst, Nat.eqb_refl in Hds. discriminate.
      * apply (Rest_ext p s s' k); [rewrite (Hsame k Hki); apply nview_eq_refl|exact Hgs| | |apply I; auto].
        -- intros x v _; apply Hcur.
        -- intros x v _ _ Hc. apply Hclean; auto.
    + apply (queue_transfer p s s'); auto. apply I.
    + intros k Hk.
      assert (Hki : k <> i) by (intros ->; auto).
      apply (Frame_ext p i s s' k (Hrl k) (Hsr k) Hgs); [| | | |apply I; auto].
      * intros _. rewrite Hst. destruct (Nat.eqb_spec k i); [congruence|auto].
      * intros _. rewrite (Hsame k Hki). auto.
      * intros x v _; apply Hcur.
      * intros x v _ _ Hc. apply Hclean; auto.
  - split.
    + apply nlen_updn.
    + intros k; apply Hf.
    + intros k Hmk Hk Hc. rewrite (Hclean k Hc), Hca, Hrl, Hsr. auto.
    + intros y Hy _. rewrite Hrl, Hsr. auto.
    + intros y Hy. rewrite Hca. destruct (Hf y) as (_&_&_&_&->&_). split; auto. split; auto.
      rewrite Hst. destruct (Nat.eqb_spec y i); [lia|apply st_le_refl].
    + intros k. destruct (Nat.eq_dec k i) as [->|Hk]; [rewrite Hat; nsimpl|rewrite Hsame by auto]; intuition.
    + reflexivity.
  - apply Hf.
  - rewrite Hst, Nat.eqb_refl. reflexivity.
  - rewrite Hca. exact Hcache.
Qed.

(* ---------------------------------------------------------------- a body is about to run *)
Lemma begin_run_getn fr i s k :
  getn (begin_run fr i s) k =
  if Nat.eqb i k && Nat.ltb i (nlen s) then set_since (set_rlog (getn s k) []) [] else getn s k.
Proof.
  unfold begin_run. rewrite getn_emit.
  set (s0 := if fr then s else match since (getn s i) with [] => set_nocause s (S (nocause s)) | _ :: _ => s end).
  assert (H0 : forall x, getn s0 x = getn s x) by (intros x; unfold s0; destruct fr; auto; destruct (since _); auto).
  assert (Hl : nlen s0 = nlen s) by (unfold s0; destruct fr; auto; destruct (since _); auto).
  rewrite getn_updn, Hl. destruct (Nat.eqb_spec i k) as [->|]; cbn [andb]; auto.
  destruct (Nat.ltb _ _); auto. rewrite H0. reflexivity.
Qed.

Lemma begin_run_misc fr i s :
  nlen (begin_run fr i s) = nlen s /\ err (begin_run fr i s) = err s /\
  ready (begin_run fr i s) = ready s /\ halted (begin_run fr i s) = halted s.
Proof.
  unfold begin_run. destruct fr; [|destruct (since (getn s i))]; unfold nlen; cbn;
    rewrite list_upd_length; auto.
Qed.

Lemma begin_run_nocause fr i s :
  fr = true \/ since (getn s i) <> [] -> nocause (begin_run fr i s) = nocause s.
Proof.
  intros H. unfold begin_run. destruct fr; [reflexivity|].
  destruct H as [H|H]; [discriminate|]. destruct (since (getn s i)); [congruence|reflexivity].
Qed.

Lemma memo_begin stk i fr s :
  InvBut p i stk i s -> queue_ok s i -> ~ In i stk -> (forall k, In k stk -> i < k) -> i < length p ->
  (memob i = true -> st (getn s i) <> Clean) ->
  (effb i = true -> edirty (getn s i) = false) ->
  (fr = true \/ since (getn s i) <> []) ->
  let s' := begin_run fr i (clear_sources i s) in
  Inv (i :: stk) i s' /\ L1 s' i /\ PullRel (S i) stk None s s' /\
  subs (getn s' i) = subs (getn s i) /\ cache (getn s' i) = cache (getn s i) /\
  st (getn s' i) = st (getn s i) /\
  (forall k, In k stk -> rlog (getn s' k) = rlog (getn s k) /\ srcs (getn s' k) = srcs (getn s k)) /\
  qview_eq (getn s i) (getn s' i).
Proof.
  intros I Hqi Hni Hgt Hil Hnc Hnd Hcause. cbv zeta.
  assert (W : WF s) by apply I.
  assert (Hi : i < nlen s) by (rewrite (wf_len p s W); auto).
  set (s1 := clear_sources i s).
  set (s' := begin_run fr i s1).
  assert (W1 : WF s1) by (apply (WF_clear p i s W Hi)).
  assert (Hl1 : nlen s1 = nlen s) by (apply (clear_nlen p i s W)).
  assert (Hc1 := fun k => clear_rest p i s W Hi k). cbv zeta in Hc1. fold s1 in Hc1.
  assert (Hsr1 := fun k => clear_srcs p i s W Hi k). fold s1 in Hsr1.
  assert (Hsu1 := fun k => clear_subs p i s W Hi k). fold s1 in Hsu1.
  assert (Hb : forall k, getn s' k = if Nat.eqb i k then set_since (set_rlog (getn s1 k) []) [] else getn s1 k).
  { intros k. unfold s'. rewrite begin_run_getn, Hl1. apply Nat.ltb_lt in Hi. rewrite Hi, andb_true_r. reflexivity. }
  assert (Hoth : forall k, k <> i -> nview_eq (getn s k) (getn s' k)).
  { intros k Hk. rewrite Hb. destruct (Nat.eqb_spec i k); [congruence|].
    specialize (Hc1 k). unfold nview_eq. rewrite Hsr1. destruct (Nat.eqb_spec k i); [congruence|]. intuition. }
  assert (Hf : forall k, sval (getn s' k) = sval (getn s k) /\ st (getn s' k) = st (getn s k) /\
                         cache (getn s' k) = cache (getn s k) /\ subs (getn s' k) = unsubscribe (subs (getn s k)) i).
  { intros k. rewrite Hb. specialize (Hc1 k). rewrite <- Hsu1.
    destruct (Nat.eqb i k); nsimpl; intuition. }
  assert (Hq : forall k, qview_eq (getn s k) (getn s' k)).
  { intros k. rewrite Hb. specialize (Hc1 k). unfold qview_eq. destruct (Nat.eqb i k); nsimpl; intuition. }
  assert (Hrl : forall k, rlog (getn s' k) = if Nat.eqb i k then [] else rlog (getn s k)).
  { intros k. rewrite Hb. specialize (Hc1 k). destruct (Nat.eqb i k); nsimpl; intuition. }
  assert (Hsr : forall k, srcs (getn s' k) = if Nat.eqb i k then [] else srcs (getn s k)).
  { intros k. rewrite Hb. rewrite (Nat.eqb_sym i k).
    destruct (Nat.eqb_spec k i) as [->|Hk]; nsimpl; rewrite Hsr1.
    - rewrite Nat.eqb_refl; reflexivity.
    - destruct (Nat.eqb_spec k i); [congruence|reflexivity]. }
  assert (Hst : forall k, st (getn s' k) = st (getn s k)) by (intros k; apply Hf).
  assert (Hca : forall k, cache (getn s' k) = cache (getn s k)) by (intros k; apply Hf).
  assert (Hcur : forall x, cur s' x = cur s x) by (intros x; apply cur_view; apply Hf).
  assert (Hrlk : forall k, k <> i -> rlog (getn s' k) = rlog (getn s k)) by (intros k Hk; apply (Hoth k Hk)).
  assert (Hsrk : forall k, k <> i -> srcs (getn s' k) = srcs (getn s k)) by (intros k Hk; apply (Hoth k Hk)).
  assert (Hrli : rlog (getn s' i) = []) by (rewrite Hrl, Nat.eqb_refl; reflexivity).
  assert (Hsri : srcs (getn s' i) = []) by (rewrite Hsr, Nat.eqb_refl; reflexivity).
  assert (Hnk : forall k, In k stk -> k <> i) by (intros k Hk ->; auto).
  assert (Hgs : GoneSame s s').
  { intros k. apply dead_view. rewrite Hb. specialize (Hc1 k). destruct (Nat.eqb i k); nsimpl; intuition. }
  assert (W' : WF s').
  { apply (WF_same_edges p s1 s'); auto.
    - unfold s'. apply begin_run_misc.
    - intros k. rewrite Hb. destruct (Nat.eqb i k); nsimpl; auto.
    - intros k. apply dead_view. rewrite Hb. destruct (Nat.eqb i k); nsimpl; auto. }
  assert (Hsui : subs (getn s' i) = subs (getn s i)).
  { destruct (Hf i) as (_&_&_&->). apply unsubscribe_notin. intros Hin.
    pose proof (wf_sub_gt p s i i W Hin). lia. }
  destruct (clear_misc p i s W) as (Ce & Cr & _ & Cn & Ch). fold s1 in Ce, Cr, Cn, Ch.
  destruct (begin_run_misc fr i s1) as (Bl & Be & Br & Bh). fold s' in Bl, Be, Br, Bh.
  split; [|split; [|split; [|split; [|split; [|split; [|split]]]]]]; auto.
  - split.
    + exact W'.
    + rewrite Be, Ce. apply I.
    + unfold s'. rewrite begin_run_nocause.
      * rewrite Cn. apply I.
      * destruct Hcause as [?|Hs]; auto. right. destruct (Hc1 i) as (_&_&_&_&->&_). exact Hs.
    + intros k Hk. assert (Hki : k <> i) by (intros ->; apply Hk; left; auto).
      apply (Rest_ext p s s' k (Hoth k Hki) Hgs).
      * intros x v _; apply Hcur.
      * intros x v _ _ Hc. rewrite Hst; auto.
      * apply (ib_rest _ _ _ _ _ I k); auto. intros Hin; apply Hk; right; auto.
    + apply (queue_transfer p s s'); auto. { rewrite Br, Cr. reflexivity. }
      intros e. destruct (Nat.eq_dec e i) as [->|He]; auto. apply (ib_queue _ _ _ _ _ I e He).
    + intros k [<-|Hk].
      * split; [intros x v Hx; rewrite Hrli in Hx; destruct Hx|].
        split; [intros x v Hx; rewrite Hrli in Hx; destruct Hx|].
        split; [intros x Hx; rewrite Hsri in Hx; destruct Hx|].
        split; [auto|]. split; [auto|]. split; [intros Hm; rewrite Hst; auto|].
        intros He. destruct (Hq i) as (->&_). auto.
      * apply (Frame_ext p i s s' k (Hrlk k (Hnk k Hk)) (Hsrk k (Hnk k Hk)) Hgs); [| | | |apply (ib_frame _ _ _ _ _ I k Hk)].
        -- intros _. rewrite Hst; auto.
        -- intros _. destruct (Hq k) as (->&_). auto.
        -- intros x v _; apply Hcur.
        -- intros x v _ _ Hc. rewrite Hst; auto.
  - unfold L1. rewrite Hsri, Hrli. reflexivity.
  - split.
    + rewrite Bl. exact Hl1.
    + intros k; apply Hf.
    + intros k Hmk Hk Hc. assert (Hki : k <> i) by (intros ->; apply (Hnc Hmk); auto).
      rewrite Hst, Hca, (Hrlk k Hki), (Hsrk k Hki). auto.
    + intros y Hy _. split; [apply Hrlk|apply Hsrk]; lia.
    + intros y Hy. rewrite Hca, Hst. split; auto. split; [apply st_le_refl|].
      destruct (Hf y) as (_&_&_&->). apply unsubscribe_notin. intros Hin.
      pose proof (wf_sub_gt p s y i W Hin). lia.
    + intros k. rewrite Hb. specialize (Hc1 k). destruct (Nat.eqb i k); nsimpl; intuition.
    + rewrite Bh. exact Ch.
Qed.

(* ---------------------------------------------------------------- the run is over *)
Lemma add_cause_node j s k :
  getn (add_cause j s) k =
  if tracks (getn s k) j then set_since (getn s k) (j :: since (getn s k)) else getn s k.
Proof.
  unfold add_cause, getn. cbn [nodes set_nodes].
  set (f := fun n : node => if tracks n j then set_since n (j :: since n) else n).
  change dnode with (f dnode) at 1.
  rewrite map_nth. reflexivity.
Qed.

Lemma add_cause_getn j s k :
  let n := getn s k in let n' := getn (add_cause j s) k in
  sval n' = sval n /\ subs n' = subs n /\ st n' = st n /\ cache n' = cache n /\ srcs n' = srcs n /\
  rlog n' = rlog n /\ edirty n' = edirty n /\ eflag n' = eflag n /\ ereg n' = ereg n /\
  efirst n' = efirst n /\ epaused n' = epaused n /\ ealive n' = ealive n /\ edone n' = edone n /\
  emissed n' = emissed n /\ epoll n' = epoll n.
Proof.
  cbv zeta. rewrite add_cause_node. destruct (tracks _ j); nsimpl; intuition.
Qed.

Lemma add_cause_misc j s :
  nlen (add_cause j s) = nlen s /\ err (add_cause j s) = err s /\ ready (add_cause j s) = ready s /\
  halted (add_cause j s) = halted s /\ trace (add_cause j s) = trace s /\ nocause (add_cause j s) = nocause s.
Proof. unfold add_cause, nlen; cbn. rewrite map_length. repeat split; reflexivity. Qed.

(* relation between the state at the end of the body and the state after the value is
   stored and the subscribers are marked *)
Record FinRel (i : nat) (s s' : state) : Prop := {
  fr_len : nlen s' = nlen s;
  fr_same : forall k, sval (getn s' k) = sval (getn s k) /\ rlog (getn s' k) = rlog (getn s k) /\
                      srcs (getn s' k) = srcs (getn s k) /\ subs (getn s' k) = subs (getn s k) /\
                      efirst (getn s' k) = efirst (getn s k) /\ epaused (getn s' k) = epaused (getn s k) /\
                      ealive (getn s' k) = ealive (getn s k) /\ edone (getn s' k) = edone (getn s k) /\
                      emissed (getn s' k) = emissed (getn s k) /\ epoll (getn s' k) = epoll (getn s k);
  fr_other : forall k, k <> i -> cache (getn s' k) = cache (getn s k) /\ st_le (st (getn s k)) (st (getn s' k));
  fr_stable : forall k, memob k = true -> k <> i -> st (getn s k) = Clean -> st (getn s' k) = Clean;
  fr_halted : halted s' = halted s
}.

Definition changed_of (cm : cmp) (old : option Z) (v : Z) : bool :=
  match cm with
  | CAlways => true
  | CNe => match old with Some o => negb (Z.eqb o v) | None => true end
  | CPar => match old with Some o => negb (Bool.eqb (Z.even o) (Z.even v)) | None => true end
  end.

Lemma DirtyAt_not_needs_cur s k : DirtyAt p s k -> ~ needs_cur p s k.
Proof.
  intros [D1 D2] H. unfold GraphInvariant.needs_cur, needs_cur_n in H.
  destruct (decl_of p k) eqn:Hd; try contradiction.
  - destruct H as [_ H]. apply H. apply D1. unfold GraphInvariant.memob. rewrite Hd. auto.
  - destruct H as (Ha & _ & Hdf). destruct D2 as [_ Hdt]; auto.
    { unfold GraphInvariant.effb. rewrite Hd. auto. } congruence.
Qed.

Lemma memo_finish stk i cm bd c v se :
  Inv (i :: stk) i se -> L1 se i ->
  decl_of p i = DMemo cm bd -> replay_body p i bd (rlog (getn se i)) = Some v ->
  memob i = true -> ~ In i stk ->
  (forall k, In k stk -> ~ In i (tracked_of (rlog (getn se k)))) ->
  (forall x, In x (subs (getn se i)) -> memob x = true -> st (getn se x) <> Clean) ->
  (forall o, obs_of c = Some o -> In o stk) ->
  (forall k, In k stk -> obs_is c k = false -> ~ In k (subs (getn se i))) ->
  let sM := updn i (fun n => set_st (set_cache n (Some v)) Clean) (emit (EvEnd i v) se) in
  let s' := if changed_of cm (cache (getn se i)) v
            then fold_left (fun s k => if obs_is c k then s else mark_dirty p k s)
                           (subs (getn sM i)) (add_cause i sM)
            else sM in
  Inv stk i s' /\ FinRel i se s' /\ st (getn s' i) = Clean /\ cache (getn s' i) = Some v /\
  (changed_of cm (cache (getn se i)) v = true ->
     forall k, In i (tracked_of (rlog (getn s' k))) -> since (getn s' k) <> []).
Proof.
  intros I HL1 Hdi Hrep Hm Hni Hnl Hroots Hobs Hpend. cbv zeta.
  assert (W : WF se) by apply I.
  assert (Hi : i < nlen se) by (eapply memob_range; eauto).
  set (sM := updn i (fun n => set_st (set_cache n (Some v)) Clean) (emit (EvEnd i v) se)).
  assert (HMo : forall k, k <> i -> getn sM k = getn se k).
  { intros k Hk. unfold sM. rewrite getn_updn_other by auto. apply getn_emit. }
  assert (HMi : getn sM i = set_st (set_cache (getn se i) (Some v)) Clean).
  { unfold sM. rewrite getn_updn_same by (rewrite nlen_emit; auto). rewrite getn_emit. reflexivity. }
  assert (HMf : forall k, sval (getn sM k) = sval (getn se k) /\ rlog (getn sM k) = rlog (getn se k) /\
                  srcs (getn sM k) = srcs (getn se k) /\ subs (getn sM k) = subs (getn se k) /\
                  since (getn sM k) = since (getn se k) /\ qview_eq (getn se k) (getn sM k) /\
                  epaused (getn sM k) = epaused (getn se k)).
  { intros k. destruct (Nat.eq_dec k i) as [->|Hk]; [rewrite HMi; nsimpl|rewrite HMo by auto];
      unfold qview_eq; nsimpl; intuition. }
  assert (HMst : forall k, st (getn sM k) = if Nat.eqb k i then Clean else st (getn se k)).
  { intros k. destruct (Nat.eqb_spec k i) as [->|Hk]; [rewrite HMi; reflexivity|rewrite HMo; auto]. }
  assert (HMca : forall k, cache (getn sM k) = if Nat.eqb k i then Some v else cache (getn se k)).
  { intros k. destruct (Nat.eqb_spec k i) as [->|Hk]; [rewrite HMi; reflexivity|rewrite HMo; auto]. }
  assert (WM : WF sM).
  { apply (WF_same_edges p se sM); auto.
    - unfold sM. rewrite nlen_updn. reflexivity.
    - intros k. destruct (HMf k) as (_&_&?&?&_). auto.
    - intros k. apply dead_view. destruct (HMf k) as (_&_&_&_&_&Hq&_). apply Hq. }
  assert (QM : QueueAll p sM).
  { unfold QueueAll. apply (queue_transfer p se sM); [reflexivity| |apply I]. intros e; apply HMf. }
  (* the frame of i *)
  destruct (inv_frame _ _ _ _ I i (or_introl eq_refl)) as (Hfr_cur & Hfr_clean & _).
  assert (Hsrc_lt : forall x w, In (x, w, true) (rlog (getn se i)) -> x <> i).
  { intros x w Hx ->. assert (In i (srcs (getn se i))).
    { rewrite HL1. apply in_tracked_of. eauto. }
    pose proof (wf_srclt p se W i i H). lia. }
  assert (Hnk : forall k, In k stk -> k <> i) by (intros k Hk ->; auto).
  assert (Hnin : forall k, ~ In k stk -> k <> i -> ~ In k (i :: stk)) by (intros k H1 H2 [H|H]; auto).
  assert (HcurM : forall x, cur sM x = if Nat.eqb x i then v else cur se x).
  { intros x. unfold GraphInvariant.cur, cache_val. rewrite HMca. destruct (HMf x) as (->&_).
    destruct (Nat.eqb_spec x i) as [->|]; auto. rewrite Hdi. reflexivity. }
  (* ---- the final state and what it shares with [se] *)
  set (ch := changed_of cm (cache (getn se i)) v).
  set (s' := if ch
             then fold_left (fun s k => if obs_is c k then s else mark_dirty p k s)
                            (subs (getn sM i)) (add_cause i sM)
             else sM).
  assert (Hfin :
    (nlen s' = nlen se /\ err s' = false /\ halted s' = halted se /\ nocause s' = 0 /\ QueueAll p s') /\
    (forall k, sval (getn s' k) = sval (getn se k) /\ rlog (getn s' k) = rlog (getn se k) /\
               srcs (getn s' k) = srcs (getn se k) /\ subs (getn s' k) = subs (getn se k) /\
               efirst (getn s' k) = efirst (getn se k) /\ epaused (getn s' k) = epaused (getn se k) /\
               ealive (getn s' k) = ealive (getn se k) /\ edone (getn s' k) = edone (getn se k) /\
               emissed (getn s' k) = emissed (getn se k) /\ epoll (getn s' k) = epoll (getn se k)) /\
    (forall k, cache (getn s' k) = if Nat.eqb k i then Some v else cache (getn se k)) /\
    st (getn s' i) = Clean /\
    (forall k, k <> i -> st_le (st (getn se k)) (st (getn s' k))) /\
    (forall k, memob k = true -> k <> i -> st (getn se k) = Clean -> st (getn s' k) = Clean) /\
    (forall x, cur s' x = if Nat.eqb x i then v else cur se x) /\
    (forall k, bool_le (edirty (getn se k)) (edirty (getn s' k)) /\ bool_le (eflag (getn se k)) (eflag (getn s' k))) /\
    (forall k, since (getn s' k) = if ch && tracks (getn se k) i then i :: since (getn se k) else since (getn se k)) /\
    (forall k, k <> i ->
       (st (getn s' k) = Dirty -> st (getn se k) = Dirty \/ (ch = true /\ In k (subs (getn se i)) /\ obs_is c k = false)) /\
       (edirty (getn s' k) = true -> edirty (getn se k) = true \/ (ch = true /\ In k (subs (getn se i)) /\ obs_is c k = false))) /\
    (ch = true -> forall k, In k (subs (getn se i)) -> obs_is c k = false -> DirtyAt p s' k) /\
    (ch = false -> eqv p i (cur se i) v)).
  { unfold s'. destruct ch eqn:Ech.
    - (* subscribers are marked *)
      set (sN := add_cause i sM).
      assert (HN := fun k => add_cause_getn i sM k). cbv zeta in HN. fold sN in HN.
      assert (HNm := add_cause_misc i sM). fold sN in HNm.
      assert (WN : WF sN).
      { apply (WF_same_edges p sM sN); auto. apply HNm. intros k. destruct (HN k) as (_&?&_&_&?&_). auto.
        intros k. apply dead_view. apply HN. }
      assert (HNst : forall k, st (getn sN k) = st (getn sM k)) by (intros k; apply HN).
      assert (HNsubs : subs (getn sN i) = subs (getn se i)).
      { destruct (HN i) as (_&->&_). apply HMf. }
      assert (QN : QueueAll p sN).
      { unfold QueueAll. destruct HNm as (_&_&Hrn&_). apply (queue_transfer p sM sN Hrn); [|exact QM].
        intros e. specialize (HN e). unfold qview_eq. intuition. }
      assert (USe : UpClosed p se) by (eapply Inv_UpClosed; eauto).
      assert (UN : UpClosed p sN).
      { intros y x Hy Hny Hx Hmx.
        rewrite HNst, HMst in Hny. rewrite HNst, HMst.
        destruct (HN y) as (_&Hsy&_). rewrite Hsy in Hx. destruct (HMf y) as (_&_&_&Hsy'&_). rewrite Hsy' in Hx.
        destruct (Nat.eqb_spec y i) as [->|Hyi]; [congruence|].
        destruct (Nat.eqb_spec x i) as [->|Hxi].
        - exfalso. apply Hny.
          assert (Hin : In y (srcs (getn se i))) by (apply (wf_sub_src p se W y i Hx)).
          rewrite HL1 in Hin. apply in_tracked_of in Hin as (w & Hw). apply (Hfr_clean y w Hw Hy).
          apply (wf_sub_live p se y i W Hx).
        - apply (USe y x Hy Hny Hx Hmx). }
      assert (Hroot : forall x, In x (subs (getn sN i)) -> memob x = true -> st (getn sN x) <> Clean).
      { intros x Hx Hmx. rewrite HNsubs in Hx. rewrite HNst, HMst.
        destruct (Nat.eqb_spec x i) as [->|]; [|apply Hroots; auto].
        pose proof (wf_sub_gt p se i i W Hx). lia. }
      assert (HsubsM : subs (getn sM i) = subs (getn sN i)).
      { rewrite HNsubs. apply HMf. }
      rewrite HsubsM.
      destruct (fold_stable p (fun k a => if obs_is c k then a else mark_dirty p k a) (subs (getn sN i)) sN WN UN)
        as (MR & UF & SF).
      { intros x a Hx Wa Ua Ma Sa Hnx. destruct (obs_is c x).
        - split; [apply MarkRel_refl|]. split; auto using StableM_refl.
        - apply mark_dirty_stable; auto. }
      { exact Hroot. }
      destruct (mark_dirty_list p (obs_is c) (subs (getn sN i)) (fun _ _ => False) sN sN WN (MarkRel_refl p sN))
        as (_ & _ & DF).
      { intros y k HE; contradiction. }
      assert (OR := fun k => mark_dirty_list_origin p (obs_is c) (subs (getn sN i)) sN k). cbv zeta in OR.
      assert (QF := mark_dirty_list_queue p (obs_is c) (subs (getn sN i)) sN QN).
      set (sF := fold_left (fun a k => if obs_is c k then a else mark_dirty p k a) (subs (getn sN i)) sN) in *.
      assert (Hcore : forall k, same_core (getn sN k) (getn sF k)) by (intros k; apply (mr_core p _ _ MR k)).
      split.
      { split; [rewrite (mr_len p _ _ MR); destruct HNm as (->&_); unfold sM; rewrite nlen_updn; reflexivity|].
        split; [rewrite (mr_err p _ _ MR); destruct HNm as (_&->&_); apply I|].
        split; [rewrite (mr_halted p _ _ MR); destruct HNm as (_&_&_&->&_); reflexivity|].
        split; [rewrite (mr_nocause p _ _ MR); destruct HNm as (_&_&_&_&_&->); apply I|exact QF]. }
      split.
      { intros k. destruct (Hcore k) as (?&?&?&?&?&?&?&?&?&?&?&?). specialize (HN k).
        destruct (HMf k) as (?&?&?&?&?&Hq&?). unfold qview_eq in Hq. intuition congruence. }
      split.
      { intros k. destruct (Hcore k) as (_&_&->&_). destruct (HN k) as (_&_&_&->&_). apply HMca. }
      split.
      { apply SF; auto. rewrite HNst, HMst, Nat.eqb_refl. reflexivity. }
      split.
      { intros k Hk. pose proof (mr_st p _ _ MR k) as H. rewrite HNst, HMst in H.
        destruct (Nat.eqb_spec k i); [congruence|auto]. }
      split.
      { intros k Hmk Hk Hc. apply SF; auto. rewrite HNst, HMst. destruct (Nat.eqb_spec k i); [congruence|auto]. }
      split.
      { intros x. rewrite <- HcurM. unfold GraphInvariant.cur, cache_val.
        destruct (Hcore x) as (->&_&->&_). destruct (HN x) as (->&_&_&->&_). reflexivity. }
      split.
      { intros k. destruct (HN k) as (_&_&_&_&_&_&Hd&Hf&_). destruct (HMf k) as (_&_&_&_&_&Hq&_).
        unfold qview_eq in Hq. destruct Hq as (Hd'&Hf'&_).
        pose proof (mr_edirty p _ _ MR k) as B1. pose proof (mr_eflag p _ _ MR k) as B2.
        rewrite Hd, Hd' in B1. rewrite Hf, Hf' in B2. auto. }
      split.
      { intros k. destruct (Hcore k) as (_&_&_&_&_&->&_). unfold sN. rewrite add_cause_since.
        cbn [andb]. destruct (HMf k) as (_&Hr&_&_&Hs&_).
        assert (Et : tracks (getn sM k) i = tracks (getn se k) i) by (unfold tracks; rewrite Hr; reflexivity).
        rewrite Et, Hs. reflexivity. }
      split.
      { intros k Hk. destruct (OR k) as [O1 O2]. rewrite HNsubs in O1, O2.
        destruct (HN k) as (_&_&Hs&_&_&_&Hd&_). rewrite Hs, HMst in O1.
        destruct (HMf k) as (_&_&_&_&_&Hq&_). unfold qview_eq in Hq. destruct Hq as (Hd'&_).
        rewrite Hd, Hd' in O2. destruct (Nat.eqb_spec k i); [congruence|].
        split; intros H; [destruct (O1 H) as [?|[? ?]]|destruct (O2 H) as [?|[? ?]]]; auto. }
      split; [|discriminate].
      intros _ k Hk Hsk. apply DF; auto. rewrite HNsubs. exact Hk.
    - (* unchanged *)
      split.
      { split; [unfold sM; rewrite nlen_updn; reflexivity|]. split; [apply I|]. split; [reflexivity|].
        split; [apply I|exact QM]. }
      split.
      { intros k. destruct (HMf k) as (?&?&?&?&?&Hq&?). unfold qview_eq in Hq. intuition. }
      split; [exact HMca|].
      split; [rewrite HMst, Nat.eqb_refl; reflexivity|].
      split.
      { intros k Hk. rewrite HMst. destruct (Nat.eqb_spec k i); [congruence|apply st_le_refl]. }
      split.
      { intros k _ Hk Hc. rewrite HMst. destruct (Nat.eqb_spec k i); [congruence|auto]. }
      split; [exact HcurM|].
      split.
      { intros k. destruct (HMf k) as (_&_&_&_&_&Hq&_). unfold qview_eq in Hq. destruct Hq as (->&->&_).
        unfold bool_le; auto. }
      split; [intros k; cbn [andb]; apply HMf|].
      split.
      { intros k Hk. rewrite HMst. destruct (Nat.eqb_spec k i); [congruence|].
        destruct (HMf k) as (_&_&_&_&_&Hq&_). unfold qview_eq in Hq. destruct Hq as (->&_). auto. }
      split; [discriminate|].
      intros _. unfold ch, changed_of in Ech. destruct cm; [|discriminate|].
      + apply eqv_eq. unfold GraphInvariant.cur, cache_val. rewrite Hdi.
        destruct (cache (getn se i)); [|discriminate].
        apply negb_false_iff in Ech. apply Z.eqb_eq in Ech. auto.
      + unfold eqv, GraphInvariant.cur, cache_val. rewrite Hdi.
        destruct (cache (getn se i)); [|discriminate].
        apply negb_false_iff in Ech. apply Bool.eqb_prop in Ech. exact Ech. }
  destruct Hfin as ((Fl & Fe & Fh & Fn & FQ) & Ff & Fca & Fsi & Fle & Fst & Fcur & Fbl & Fsince & Forigin & Fdirty & Fsame).
  assert (Frl : forall k, rlog (getn s' k) = rlog (getn se k)) by (intros k; apply Ff).
  assert (Fsr : forall k, srcs (getn s' k) = srcs (getn se k)) by (intros k; apply Ff).
  assert (Fcak : forall k, k <> i -> cache (getn s' k) = cache (getn se k)).
  { intros k Hk. rewrite Fca. destruct (Nat.eqb_spec k i); [congruence|reflexivity]. }
  assert (Fcurk : forall x, x <> i -> cur s' x = cur se x).
  { intros x Hx. rewrite Fcur. destruct (Nat.eqb_spec x i); [congruence|reflexivity]. }
  assert (Fclean : forall x, memob x = true -> st (getn se x) = Clean -> st (getn s' x) = Clean).
  { intros x Hmx Hc. destruct (Nat.eq_dec x i) as [->|Hx]; auto. }
  assert (Fgs : GoneSame se s').
  { intros k. apply dead_view. destruct (Ff k) as (_&_&_&_&_&_&_&H&_). exact H. }
  assert (W' : WF s').
  { apply (WF_same_edges p se s'); auto. intros k. destruct (Ff k) as (_&_&?&?&_). auto. }
  (* a resting node other than i that needs something needed it already *)
  assert (Hnc_mono : forall k, k <> i -> needs_cur p s' k -> needs_cur p se k).
  { intros k Hk. unfold GraphInvariant.needs_cur, needs_cur_n, hasrun_n.
    destruct (Ff k) as (_&_&_&_&Hfi&_&Hal&_). destruct (Fbl k) as [Bd _]. rewrite (Fcak k Hk), Hal, Hfi.
    destruct (decl_of p k) as [| | |kd b h]; auto.
    - intros [Hc Hd]. split; auto. intros E. apply Hd. apply st_le_dirty. rewrite <- E. apply Fle; auto.
    - intros (Ha & Hh & Hd). split; auto. split; auto.
      destruct (edirty (getn se k)) eqn:E; auto. rewrite (Bd eq_refl) in Hd. discriminate. }
  assert (Hncl_mono : forall k, k <> i -> needs_clean p s' k -> needs_clean p se k).
  { intros k Hk. unfold GraphInvariant.needs_clean, needs_clean_n, hasrun_n.
    destruct (Ff k) as (_&_&_&_&Hfi&_&Hal&_&Hmi&Hpo). destruct (Fbl k) as [Bd Bf].
    rewrite (Fcak k Hk), Hal, Hfi, Hmi, Hpo.
    destruct (decl_of p k) as [| | |kd b h]; auto.
    - intros [Hc Hd]. split; auto. apply st_le_clean. rewrite <- Hd. apply Fle; auto.
    - intros (Ha & Hh & Hd & Hf & Hrest). split; auto. split; auto.
      split; [destruct (edirty (getn se k)) eqn:E; auto; rewrite (Bd eq_refl) in Hd; discriminate|].
      split; [destruct (eflag (getn se k)) eqn:E; auto; rewrite (Bf eq_refl) in Hf; discriminate|auto]. }
  split; [|split; [|split; [|split]]]; auto.
  - split.
    + exact W'.
    + exact Fe.
    + exact Fn.
    + intros k Hk. destruct (Nat.eq_dec k i) as [->|Hki].
      * (* i itself, now at rest and Clean *)
        split; [apply (L1_ext se s' i (Frl i) (Fsr i)); exact HL1|].
        unfold GraphInvariant.needs_cur, GraphInvariant.needs_clean, GraphInvariant.will_run.
        rewrite Hdi. cbn [uncached_ok needs_cur_n needs_clean_n will_run_n].
        rewrite Fca, Nat.eqb_refl, Frl. split; [split; [discriminate|]|].
        { intros v0 Hv0. inversion Hv0; subst. exact Hrep. }
        split; [|split].
        -- intros _ x w Hx Hg. rewrite Frl in Hx. rewrite (Fgs x) in Hg. rewrite Fcurk by (eapply Hsrc_lt; eauto). eapply Hfr_cur; eauto.
        -- intros _ x w Hx Hmx Hg. rewrite Frl in Hx. rewrite (Fgs x) in Hg. apply Fclean; auto. eapply Hfr_clean; eauto.
        -- intros [_ Hd]. congruence.
      * destruct (inv_rest _ _ _ _ I k (Hnin k Hk Hki)) as (R1 & R2 & R3 & R4 & R5).
        split; [apply (L1_ext se s' k (Frl k) (Fsr k)); exact R1|].
        split.
        { unfold uncached_ok in *. destruct (decl_of p k); auto. rewrite (Fcak k Hki), Frl.
          destruct R2 as [R2 R2'']. split; auto.
          intros Hc. destruct (R2 Hc) as [Hd Hr]. split; auto. apply st_le_dirty. rewrite <- Hd. apply Fle; auto. }
        split; [|split].
        -- intros Hn x w Hx Hg. rewrite Frl in Hx. rewrite (Fgs x) in Hg.
           pose proof (R3 (Hnc_mono k Hki Hn) x w Hx Hg) as Hcx.
           destruct (Nat.eq_dec x i) as [->|Hxi]; [|rewrite Fcurk; auto].
           rewrite Fcur, Nat.eqb_refl. destruct ch eqn:Ech.
           ++ exfalso. apply (DirtyAt_not_needs_cur s' k); auto. apply (Fdirty eq_refl).
              ** eapply wf_src_sub; eauto. rewrite R1. apply in_tracked_of. eauto.
              ** destruct (obs_is c k) eqn:Eo; auto. exfalso. apply Hk.
                 unfold obs_is in Eo. destruct (obs_of c) as [o|] eqn:Eoc; [|discriminate].
                 apply Nat.eqb_eq in Eo. subst. apply Hobs; auto.
           ++ eapply eqv_trans; [apply eqv_sym; apply Fsame; auto|exact Hcx].
        -- intros Hn x w Hx Hmx Hg. rewrite Frl in Hx. rewrite (Fgs x) in Hg. apply Fclean; auto.
           apply (R4 (Hncl_mono k Hki Hn) x w Hx Hmx Hg).
        -- intros Hw. rewrite Fsince.
           assert (Hcase : will_run p se k \/ (ch = true /\ In k (subs (getn se i)))).
           { unfold GraphInvariant.will_run, will_run_n, hasrun_n in *.
             destruct (Ff k) as (_&_&_&_&Hfi&_&Hal&_). rewrite (Fcak k Hki), Hal, Hfi in Hw.
             destruct (Forigin k Hki) as [O1 O2].
             destruct (decl_of p k) as [| | |kd b h]; try contradiction.
             - destruct Hw as [Hc Hd]. destruct (O1 Hd) as [?|(?&?&?)]; auto.
             - destruct Hw as (Ha & Hh & Hd). destruct (O2 Hd) as [?|(?&?&?)]; auto. }
           destruct Hcase as [Hold|[Hch Hin]].
           ++ destruct (ch && tracks (getn se k) i); [discriminate|apply R5; auto].
           ++ assert (Ht : tracks (getn se k) i = true).
              { apply tracks_iff. rewrite <- R1. eapply wf_sub_src; eauto. }
              rewrite Hch, Ht. discriminate.
    + exact FQ.
    + intros k Hk. pose proof (inv_frame _ _ _ _ I k (or_intror Hk)) as Fk.
      apply (Frame_ext p i se s' k (Frl k) (Fsr k) Fgs); [| | | |exact Fk].
      * intros Hmk Hc E. apply Hc. apply st_le_clean. rewrite <- E. apply Fle; auto.
      * intros He Hd0. destruct (edirty (getn s' k)) eqn:Ed; auto.
        destruct (Forigin k (Hnk k Hk)) as [_ O2]. destruct (O2 Ed) as [?|(_ & Hin & Hsk)]; [congruence|].
        exfalso. apply (Hpend k Hk Hsk Hin).
      * intros x w Hx. apply Fcurk. intros ->. apply (Hnl k Hk). apply in_tracked_of. eauto.
      * intros x w _ Hmx Hc. apply Fclean; auto.
  - split.
    + exact Fl.
    + exact Ff.
    + intros k Hk. split; [apply Fcak; auto|apply Fle; auto].
    + intros k Hmk Hk Hc. apply Fst; auto.
    + exact Fh.
  - rewrite Fca, Nat.eqb_refl. reflexivity.
  - intros Hch k Hk. rewrite Frl in Hk. rewrite Fsince. fold ch in Hch. rewrite Hch.
    apply tracks_iff in Hk. rewrite Hk. discriminate.
Qed.

End P.
