(** Pull phase, part 6: MemoInner::update_if_necessary.  The [any] over the sources
    ([any_src]), the branch that keeps the cached value, and the preparation of a run
    (clear_sources + ghost bookkeeping). *)
From Coq Require Import List ZArith Bool Arith Lia.
From LV Require Import Reactive.Graph Reactive.GraphLemmas Reactive.GraphInvariant
                       Reactive.GraphMarkProofs Reactive.GraphPullBase Reactive.GraphPullSteps
                       Reactive.GraphPullDefs Reactive.GraphPullEval.
Import ListNotations.
Close Scope Z_scope.
Open Scope nat_scope.

Section P.
Variable p : prog.
Notation memob := (memob p).
Notation effb := (effb p).
Notation WF := (WF p).
Notation Inv := (Inv p).
Notation InvW := (InvW p).
Notation Lcur := (Lcur p).
Notation Lclean := (Lclean p).
Notation MemoOKc := (MemoOKc p).
Notation MemoOKv := (MemoOKv p).
Notation cur := (cur p).
Notation PullRel := (PullRel p).
Notation USpec := (USpec p).

(* ---------------------------------------------------------------- the [any] over the sources *)
Lemma any_src_spec i U : USpec i U ->
  forall l c s stk s1 need,
    (forall x, In x l -> x < i) ->
    Inv stk i s -> ctx_ok stk c ->
    st (getn s i) <> Dirty ->
    any_src U c i l s = (s1, need) ->
    Inv stk i s1 /\ PullRel i stk None s s1 /\
    (need = false ->
       st (getn s1 i) <> Dirty /\
       forall x, In x l -> memob x = true -> st (getn s1 x) = Clean).
Proof.
  intros HU l. induction l as [|x l IH]; intros c s stk s1 need Hl I C Hnd Ha; cbn [any_src] in Ha.
  - inversion Ha; subst. split; auto. split; [apply PullRel_refl|].
    intros _. split; auto. intros x [].
  - destruct (U c x s) as [s2 ch] eqn:EU.
    assert (Hx : x < i) by (apply Hl; left; auto).
    destruct (HU c x s stk i s2 ch Hx Hx I C EU) as (I2 & P2 & _ & Hcl).
    assert (P2' : PullRel i stk None s s2) by (eapply PullRel_weaken; [|exact P2]; lia).
    destruct (ch || nstate_eqb (st (getn s2 i)) Dirty) eqn:Ec.
    + inversion Ha; subst. split; auto. split; auto. discriminate.
    + apply orb_false_elim in Ec as [-> Ed]. apply nstate_eqb_neq in Ed.
      destruct (IH c s2 stk s1 need) as (I1 & P1 & Hn); auto.
      { intros y Hy. apply Hl; right; auto. }
      split; auto. split; [eapply PullRel_trans; eauto|].
      intros Hf. destruct (Hn Hf) as [Hd Hall]. split; auto.
      intros y [<-|Hy] Hm; auto.
      destruct (Hcl Hm) as [Hc2 _].
      apply (pr_stable _ _ _ _ _ _ P1 x Hm); auto.
      intros Hin. destruct I as [Iw _]. pose proof (inv_run_ge _ _ _ _ Iw x Hin). lia.
Qed.

(* ---------------------------------------------------------------- nothing changed: back to Clean *)
Lemma memo_keep stk i s :
  Inv stk i s -> memob i = true -> ~ In i stk ->
  st (getn s i) <> Dirty ->
  (forall x v, In (x, v, true) (rlog (getn s i)) -> memob x = true -> st (getn s x) = Clean) ->
  let s' := updn i (fun n => set_st n Clean) s in
  Inv stk i s' /\ PullRel (S i) stk None s s' /\ subs (getn s' i) = subs (getn s i) /\
  st (getn s' i) = Clean /\ cache (getn s' i) <> None.
Proof.
  intros [I Iv] Hm Hni Hnd Hsrc. cbv zeta.
  set (s' := updn i (fun n => set_st n Clean) s).
  assert (W : WF s) by apply I.
  assert (Hi : i < nlen s) by (eapply memob_range; eauto).
  assert (Hsame : forall k, k <> i -> getn s' k = getn s k) by (intros k Hk; apply getn_updn_other; auto).
  assert (Hat : getn s' i = set_st (getn s i) Clean) by (apply getn_updn_same; auto).
  assert (Hf : forall k, sval (getn s' k) = sval (getn s k) /\ cache (getn s' k) = cache (getn s k) /\
                         rlog (getn s' k) = rlog (getn s k) /\ srcs (getn s' k) = srcs (getn s k) /\
                         subs (getn s' k) = subs (getn s k)).
  { intros k. destruct (Nat.eq_dec k i) as [->|Hk]; [rewrite Hat; nsimpl|rewrite Hsame by auto]; intuition. }
  assert (Hst : forall k, st (getn s' k) = if Nat.eqb k i then Clean else st (getn s k)).
  { intros k. destruct (Nat.eqb_spec k i) as [->|Hk]; [rewrite Hat; reflexivity|rewrite Hsame; auto]. }
  assert (Hclean : forall k, st (getn s k) = Clean -> st (getn s' k) = Clean).
  { intros k Hc. rewrite Hst. destruct (Nat.eqb k i); auto. }
  assert (Hcur : forall x, cur s' x = cur s x) by (intros x; apply cur_view; apply Hf).
  assert (Hrl : forall k, rlog (getn s' k) = rlog (getn s k)) by (intros k; apply Hf).
  assert (Hca : forall k, cache (getn s' k) = cache (getn s k)) by (intros k; apply Hf).
  assert (Hsr : forall k, srcs (getn s' k) = srcs (getn s k)) by (intros k; apply Hf).
  assert (Hcache : cache (getn s i) <> None).
  { pose proof (inv_memo_c _ _ _ _ I i Hm Hni) as HM. unfold GraphInvariant.MemoOKc in HM.
    destruct (cache (getn s i)); [discriminate|]. destruct HM; congruence. }
  assert (W' : WF s').
  { apply (WF_same_edges p s s'); auto. apply nlen_updn. intros k. split; apply Hf. }
  split; [|split; [|split; [|split]]].
  - split; [split|].
    + exact W'.
    + apply I.
    + intros k Hk. apply (L1_ext s s' k (Hrl k) (Hsr k)). apply I; auto.
    + intros k Hmk Hk. pose proof (inv_memo_c _ _ _ _ I k Hmk Hk) as HM.
      unfold GraphInvariant.MemoOKc in *. rewrite Hca.
      destruct (cache (getn s k)) eqn:Ec.
      * intros Hc. destruct (Nat.eq_dec k i) as [->|Hki].
        -- intros x v Hx Hmx. rewrite Hrl in Hx. apply Hclean. eapply Hsrc; eauto.
        -- rewrite Hst in Hc. destruct (Nat.eqb_spec k i); [congruence|].
           apply (Lclean_ext p s s' k (Hrl k)); [|auto]. intros x v _ _ Hcx. apply Hclean; auto.
      * destruct (Nat.eq_dec k i) as [->|Hki]; [congruence|]. rewrite Hsame by auto. exact HM.
    + intros k Hk. apply (Lcur_ext p s s' k (Hrl k)); [|apply I; auto]. intros x v _; apply Hcur.
    + intros k Hk. apply (Lclean_ext p s s' k (Hrl k)); [|apply I; auto].
      intros x v _ _ Hc. apply Hclean; auto.
    + intros k x Hk. rewrite Hsr, Hrl. apply I; auto.
    + apply I.
    + apply I.
    + intros k Hk Hmk. rewrite Hst. destruct (Nat.eqb_spec k i) as [->|]; [contradiction|].
      eapply inv_run_nc; eauto.
    + intros k Hmk Hk. unfold GraphInvariant.MemoOKv. rewrite Hca. intros Hcn Hd.
      apply (Lcur_ext p s s' k (Hrl k)). { intros x v _; apply Hcur. }
      apply (Iv k Hmk Hk Hcn). destruct (Nat.eq_dec k i) as [->|Hki]; auto.
      rewrite Hst in Hd. destruct (Nat.eqb_spec k i); [congruence|auto].
  - split.
    + apply nlen_updn.
    + intros k; apply Hf.
    + intros k Hmk Hk Hc. rewrite (Hclean k Hc), Hca, Hrl, Hsr. auto.
    + intros y Hy _. rewrite Hrl, Hsr. auto.
    + intros y Hy. rewrite Hca. destruct (Hf y) as (_&_&_&_&->). split; auto. split; auto.
      rewrite Hst. destruct (Nat.eqb_spec y i); [lia|apply st_le_refl].
    + intros k. destruct (Nat.eq_dec k i) as [->|Hk]; [rewrite Hat; nsimpl|rewrite Hsame by auto]; intuition.
    + reflexivity.
  - apply Hf.
  - rewrite Hst, Nat.eqb_refl. reflexivity.
  - rewrite Hca. exact Hcache.
Qed.

(* ---------------------------------------------------------------- a body is about to run *)
Lemma begin_run_getn fr i s k :
  getn (begin_run fr i s) k =
  if Nat.eqb i k && Nat.ltb i (nlen s) then set_since (set_rlog (getn s k) []) [] else getn s k.
Proof.
  unfold begin_run. rewrite getn_emit.
  set (s0 := if fr then s else match since (getn s i) with [] => set_nocause s (S (nocause s)) | _ :: _ => s end).
  assert (H0 : forall x, getn s0 x = getn s x) by (intros x; unfold s0; destruct fr; auto; destruct (since _); auto).
  assert (Hl : nlen s0 = nlen s) by (unfold s0; destruct fr; auto; destruct (since _); auto).
  rewrite getn_updn, Hl. destruct (Nat.eqb_spec i k) as [->|]; cbn [andb]; auto.
  destruct (Nat.ltb _ _); auto. rewrite H0. reflexivity.
Qed.

Lemma begin_run_misc fr i s :
  nlen (begin_run fr i s) = nlen s /\ err (begin_run fr i s) = err s /\
  ready (begin_run fr i s) = ready s /\ halted (begin_run fr i s) = halted s.
Proof.
  unfold begin_run. destruct fr; [|destruct (since (getn s i))]; unfold nlen; cbn;
    rewrite list_upd_length; auto.
Qed.

Lemma memo_begin stk i fr s :
  Inv stk i s -> ~ In i stk -> (forall k, In k stk -> i < k) -> i < length p ->
  (memob i = true -> st (getn s i) <> Clean) ->
  let s' := begin_run fr i (clear_sources i s) in
  Inv (i :: stk) i s' /\ L1 s' i /\ PullRel (S i) stk None s s' /\
  subs (getn s' i) = subs (getn s i) /\ cache (getn s' i) = cache (getn s i) /\
  st (getn s' i) = st (getn s i) /\
  (forall k, In k stk -> rlog (getn s' k) = rlog (getn s k) /\ srcs (getn s' k) = srcs (getn s k)).
Proof.
  intros [I Iv] Hni Hgt Hil Hnc. cbv zeta.
  assert (W : WF s) by apply I.
  assert (Hi : i < nlen s) by (rewrite (wf_len p s W); auto).
  set (s1 := clear_sources i s).
  set (s' := begin_run fr i s1).
  assert (W1 : WF s1) by (apply (WF_clear p i s W Hi)).
  assert (Hl1 : nlen s1 = nlen s) by (apply (clear_nlen p i s W)).
  assert (Hc1 := fun k => clear_rest p i s W Hi k). cbv zeta in Hc1. fold s1 in Hc1.
  assert (Hsr1 := fun k => clear_srcs p i s W Hi k). fold s1 in Hsr1.
  assert (Hsu1 := fun k => clear_subs p i s W Hi k). fold s1 in Hsu1.
  assert (Hb : forall k, getn s' k = if Nat.eqb i k then set_since (set_rlog (getn s1 k) []) [] else getn s1 k).
  { intros k. unfold s'. rewrite begin_run_getn, Hl1. apply Nat.ltb_lt in Hi. rewrite Hi, andb_true_r. reflexivity. }
  assert (Hf : forall k, sval (getn s' k) = sval (getn s k) /\ st (getn s' k) = st (getn s k) /\
                         cache (getn s' k) = cache (getn s k) /\ subs (getn s' k) = unsubscribe (subs (getn s k)) i).
  { intros k. rewrite Hb. specialize (Hc1 k). rewrite <- Hsu1.
    destruct (Nat.eqb i k); nsimpl; intuition. }
  assert (Hrl : forall k, rlog (getn s' k) = if Nat.eqb i k then [] else rlog (getn s k)).
  { intros k. rewrite Hb. specialize (Hc1 k). destruct (Nat.eqb i k); nsimpl; intuition. }
  assert (Hsr : forall k, srcs (getn s' k) = if Nat.eqb i k then [] else srcs (getn s k)).
  { intros k. rewrite Hb. rewrite (Nat.eqb_sym i k).
    destruct (Nat.eqb_spec k i) as [->|Hk]; nsimpl; rewrite Hsr1.
    - rewrite Nat.eqb_refl; reflexivity.
    - destruct (Nat.eqb_spec k i); [congruence|reflexivity]. }
  assert (Hst : forall k, st (getn s' k) = st (getn s k)) by (intros k; apply Hf).
  assert (Hca : forall k, cache (getn s' k) = cache (getn s k)) by (intros k; apply Hf).
  assert (Hcur : forall x, cur s' x = cur s x) by (intros x; apply cur_view; apply Hf).
  assert (Hrlk : forall k, k <> i -> rlog (getn s' k) = rlog (getn s k)).
  { intros k Hk. rewrite Hrl. destruct (Nat.eqb_spec i k); [congruence|reflexivity]. }
  assert (Hsrk : forall k, k <> i -> srcs (getn s' k) = srcs (getn s k)).
  { intros k Hk. rewrite Hsr. destruct (Nat.eqb_spec i k); [congruence|reflexivity]. }
  assert (Hrli : rlog (getn s' i) = []) by (rewrite Hrl, Nat.eqb_refl; reflexivity).
  assert (Hsri : srcs (getn s' i) = []) by (rewrite Hsr, Nat.eqb_refl; reflexivity).
  assert (Hnk : forall k, In k stk -> k <> i) by (intros k Hk ->; auto).
  assert (W' : WF s').
  { apply (WF_same_edges p s1 s'); auto.
    - unfold s'. apply begin_run_misc.
    - intros k. rewrite Hb. destruct (Nat.eqb i k); nsimpl; auto. }
  assert (Hsui : subs (getn s' i) = subs (getn s i)).
  { destruct (Hf i) as (_&_&_&->). apply unsubscribe_notin. intros Hin.
    pose proof (wf_sub_gt p s i i W Hin). lia. }
  split; [|split; [|split; [|split; [|split; [|split]]]]]; auto.
  - split; [split|].
    + exact W'.
    + unfold s'. rewrite (proj1 (proj2 (begin_run_misc fr i s1))).
      unfold s1. rewrite (proj1 (clear_misc p i s W)). apply I.
    + intros k Hk. assert (k <> i) by (intros ->; apply Hk; left; auto).
      apply (L1_ext s s' k (Hrlk k H) (Hsrk k H)). apply I. intros Hin; apply Hk; right; auto.
    + intros k Hmk Hk. assert (k <> i) by (intros ->; apply Hk; left; auto).
      apply (MemoOKc_ext p s s' k (Hst k) (Hca k) (Hrlk k H)).
      * intros x v _ _ Hc. rewrite Hst; auto.
      * apply I; auto. intros Hin; apply Hk; right; auto.
    + intros k [<-|Hk].
      * intros x v Hx. rewrite Hrli in Hx. destruct Hx.
      * apply (Lcur_ext p s s' k (Hrlk k (Hnk k Hk))); [|apply I; auto]. intros x v _; apply Hcur.
    + intros k [<-|Hk].
      * intros x v Hx. rewrite Hrli in Hx. destruct Hx.
      * apply (Lclean_ext p s s' k (Hrlk k (Hnk k Hk))); [|apply I; auto].
        intros x v _ _ Hc. rewrite Hst; auto.
    + intros k x [<-|Hk].
      * rewrite Hsri. intros [].
      * rewrite (Hsrk k (Hnk k Hk)), (Hrlk k (Hnk k Hk)). apply I; auto.
    + intros k [<-|Hk]; auto. apply I; auto.
    + intros k [<-|Hk]; auto. eapply inv_run_range; eauto.
    + intros k [<-|Hk] Hmk; rewrite Hst; auto. eapply inv_run_nc; eauto.
    + intros k Hmk Hk. assert (k <> i) by (intros ->; apply Hk; left; auto).
      apply (MemoOKv_ext p s s' k (Hst k) (Hca k) (Hrlk k H)).
      * intros x v _; apply Hcur.
      * apply Iv; auto. intros Hin; apply Hk; right; auto.
  - unfold L1. rewrite Hsri, Hrli. reflexivity.
  - split.
    + unfold s'. rewrite (proj1 (begin_run_misc fr i s1)). exact Hl1.
    + intros k; apply Hf.
    + intros k Hmk Hk Hc. assert (k <> i) by (intros ->; apply (Hnc Hmk); auto).
      rewrite Hst, Hca, (Hrlk k H), (Hsrk k H). auto.
    + intros y Hy _. split; [apply Hrlk|apply Hsrk]; lia.
    + intros y Hy. rewrite Hca, Hst. split; auto. split; [apply st_le_refl|].
      destruct (Hf y) as (_&_&_&->). apply unsubscribe_notin. intros Hin.
      pose proof (wf_sub_gt p s y i W Hin). lia.
    + intros k. rewrite Hb. specialize (Hc1 k). destruct (Nat.eqb i k); nsimpl; intuition.
    + unfold s'. rewrite (proj2 (proj2 (proj2 (begin_run_misc fr i s1)))).
      unfold s1. apply (clear_misc p i s W).
Qed.

(* ---------------------------------------------------------------- the run is over *)
Lemma add_cause_getn j s k :
  let n := getn s k in let n' := getn (add_cause j s) k in
  sval n' = sval n /\ subs n' = subs n /\ st n' = st n /\ cache n' = cache n /\ srcs n' = srcs n /\
  rlog n' = rlog n /\ edirty n' = edirty n /\ eflag n' = eflag n /\ ereg n' = ereg n /\
  efirst n' = efirst n /\ epaused n' = epaused n /\ ealive n' = ealive n /\ edone n' = edone n /\
  emissed n' = emissed n.
Proof.
  cbv zeta. unfold add_cause, getn. cbn [nodes set_nodes].
  set (f := fun n : node => if tracks n j then set_since n (j :: since n) else n).
  change dnode with (f dnode) at 1 3 5 7 9 11 13 15 17 19 21 23 25 27.
  rewrite map_nth. unfold f. destruct (tracks _ j); nsimpl; intuition.
Qed.

Lemma add_cause_misc j s :
  nlen (add_cause j s) = nlen s /\ err (add_cause j s) = err s /\ ready (add_cause j s) = ready s /\
  halted (add_cause j s) = halted s /\ trace (add_cause j s) = trace s /\ nocause (add_cause j s) = nocause s.
Proof. unfold add_cause, nlen; cbn. rewrite map_length. repeat split; reflexivity. Qed.

(* relation between the state at the end of the body and the state after the value is
   stored and the subscribers are marked *)
Record FinRel (i : nat) (s s' : state) : Prop := {
  fr_len : nlen s' = nlen s;
  fr_same : forall k, sval (getn s' k) = sval (getn s k) /\ rlog (getn s' k) = rlog (getn s k) /\
                      srcs (getn s' k) = srcs (getn s k) /\ subs (getn s' k) = subs (getn s k) /\
                      efirst (getn s' k) = efirst (getn s k) /\ epaused (getn s' k) = epaused (getn s k) /\
                      ealive (getn s' k) = ealive (getn s k) /\ edone (getn s' k) = edone (getn s k) /\
                      emissed (getn s' k) = emissed (getn s k);
  fr_other : forall k, k <> i -> cache (getn s' k) = cache (getn s k) /\ st_le (st (getn s k)) (st (getn s' k));
  fr_stable : forall k, memob k = true -> k <> i -> st (getn s k) = Clean -> st (getn s' k) = Clean;
  fr_halted : halted s' = halted s
}.

Definition changed_of (cm : cmp) (old : option Z) (v : Z) : bool :=
  match cm with
  | CAlways => true
  | CNe => match old with Some o => negb (Z.eqb o v) | None => true end
  end.

Lemma memo_finish stk i cm c v se :
  Inv (i :: stk) i se -> L1 se i ->
  memob i = true -> ~ In i stk ->
  (forall k, In k stk -> ~ In i (tracked_of (rlog (getn se k)))) ->
  (forall x, In x (subs (getn se i)) -> memob x = true -> st (getn se x) <> Clean) ->
  (forall o, obs_of c = Some o -> In o stk) ->
  let sM := updn i (fun n => set_st (set_cache n (Some v)) Clean) (emit (EvEnd i v) se) in
  let s' := if changed_of cm (cache (getn se i)) v
            then fold_left (fun s k => if obs_is c k then s else mark_dirty p k s)
                           (subs (getn sM i)) (add_cause i sM)
            else sM in
  Inv stk i s' /\ FinRel i se s' /\ st (getn s' i) = Clean /\ cache (getn s' i) = Some v.
Proof.
  intros [I Iv] HL1 Hm Hni Hnl Hroots Hobs. cbv zeta.
  assert (W : WF se) by apply I.
  assert (Hi : i < nlen se) by (eapply memob_range; eauto).
  set (sM := updn i (fun n => set_st (set_cache n (Some v)) Clean) (emit (EvEnd i v) se)).
  assert (HMo : forall k, k <> i -> getn sM k = getn se k).
  { intros k Hk. unfold sM. rewrite getn_updn_other by auto. apply getn_emit. }
  assert (HMi : getn sM i = set_st (set_cache (getn se i) (Some v)) Clean).
  { unfold sM. rewrite getn_updn_same by (rewrite nlen_emit; auto). rewrite getn_emit. reflexivity. }
  assert (HMf : forall k, sval (getn sM k) = sval (getn se k) /\ rlog (getn sM k) = rlog (getn se k) /\
                  srcs (getn sM k) = srcs (getn se k) /\ subs (getn sM k) = subs (getn se k) /\
                  efirst (getn sM k) = efirst (getn se k) /\ epaused (getn sM k) = epaused (getn se k) /\
                  ealive (getn sM k) = ealive (getn se k) /\ edone (getn sM k) = edone (getn se k) /\
                  emissed (getn sM k) = emissed (getn se k)).
  { intros k. destruct (Nat.eq_dec k i) as [->|Hk]; [rewrite HMi; nsimpl|rewrite HMo by auto]; intuition. }
  assert (HMst : forall k, st (getn sM k) = if Nat.eqb k i then Clean else st (getn se k)).
  { intros k. destruct (Nat.eqb_spec k i) as [->|Hk]; [rewrite HMi; reflexivity|rewrite HMo; auto]. }
  assert (HMca : forall k, cache (getn sM k) = if Nat.eqb k i then Some v else cache (getn se k)).
  { intros k. destruct (Nat.eqb_spec k i) as [->|Hk]; [rewrite HMi; reflexivity|rewrite HMo; auto]. }
  assert (WM : WF sM).
  { apply (WF_same_edges p se sM); auto.
    - unfold sM. rewrite nlen_updn. reflexivity.
    - intros k. destruct (HMf k) as (_&_&?&?&_). auto. }
  (* sources of i are below i, hence different from i *)
  assert (Hsrc_lt : forall x w, In (x, w, true) (rlog (getn se i)) -> x <> i).
  { intros x w Hx ->. assert (In i (srcs (getn se i))).
    { rewrite HL1. apply in_tracked_of. eauto. }
    pose proof (wf_srclt p se W i i H). lia. }
  assert (Hfr_cur : Lcur se i) by (apply I; left; auto).
  assert (Hfr_clean : Lclean se i) by (apply I; left; auto).
  assert (Hnk : forall k, In k stk -> k <> i) by (intros k Hk ->; auto).
  assert (Hnin : forall k, ~ In k stk -> k <> i -> ~ In k (i :: stk)) by (intros k H1 H2 [H|H]; auto).
  (* ---- the final state and what it shares with [se] *)
  set (s' := if changed_of cm (cache (getn se i)) v
             then fold_left (fun s k => if obs_is c k then s else mark_dirty p k s)
                            (subs (getn sM i)) (add_cause i sM)
             else sM).
  assert (Hfin :
    nlen s' = nlen se /\ err s' = false /\ halted s' = halted se /\
    (forall k, sval (getn s' k) = sval (getn se k) /\ rlog (getn s' k) = rlog (getn se k) /\
               srcs (getn s' k) = srcs (getn se k) /\ subs (getn s' k) = subs (getn se k) /\
               efirst (getn s' k) = efirst (getn se k) /\ epaused (getn s' k) = epaused (getn se k) /\
               ealive (getn s' k) = ealive (getn se k) /\ edone (getn s' k) = edone (getn se k) /\
               emissed (getn s' k) = emissed (getn se k)) /\
    (forall k, cache (getn s' k) = if Nat.eqb k i then Some v else cache (getn se k)) /\
    st (getn s' i) = Clean /\
    (forall k, k <> i -> st_le (st (getn se k)) (st (getn s' k))) /\
    (forall k, memob k = true -> k <> i -> st (getn se k) = Clean -> st (getn s' k) = Clean) /\
    (forall x, cur s' x = if Nat.eqb x i then v else cur se x) /\
    (changed_of cm (cache (getn se i)) v = true ->
       forall k, In k (subs (getn se i)) -> obs_is c k = false -> memob k = true -> st (getn s' k) = Dirty) /\
    (changed_of cm (cache (getn se i)) v = false -> cur se i = v)).
  { assert (HcurM : forall x, cur sM x = if Nat.eqb x i then v else cur se x).
    { intros x. unfold GraphInvariant.cur, cache_val. rewrite HMca. destruct (HMf x) as (->&_).
      destruct (Nat.eqb_spec x i) as [->|]; auto.
      unfold GraphInvariant.memob in Hm. destruct (decl_of p i); try discriminate. reflexivity. }
    unfold s'. destruct (changed_of cm (cache (getn se i)) v) eqn:Ech.
    - (* subscribers are marked *)
      set (sN := add_cause i sM).
      assert (HN := fun k => add_cause_getn i sM k). cbv zeta in HN. fold sN in HN.
      assert (HNm := add_cause_misc i sM). fold sN in HNm.
      assert (WN : WF sN).
      { apply (WF_same_edges p sM sN); auto. apply HNm. intros k. destruct (HN k) as (_&?&_&_&?&_). auto. }
      assert (HNst : forall k, st (getn sN k) = st (getn sM k)) by (intros k; apply HN).
      assert (HNsubs : subs (getn sN i) = subs (getn se i)).
      { destruct (HN i) as (_&->&_). apply HMf. }
      assert (USe : UpClosed p se) by (eapply InvW_UpClosed; eauto).
      assert (UN : UpClosed p sN).
      { intros y x Hy Hny Hx Hmx.
        rewrite HNst, HMst in Hny. rewrite HNst, HMst.
        destruct (HN y) as (_&Hsy&_). rewrite Hsy in Hx. destruct (HMf y) as (_&_&_&Hsy'&_). rewrite Hsy' in Hx.
        destruct (Nat.eqb_spec y i) as [->|Hyi]; [congruence|].
        destruct (Nat.eqb_spec x i) as [->|Hxi].
        - exfalso. apply Hny.
          assert (Hin : In y (srcs (getn se i))) by (apply (wf_sub_src p se W y i Hx)).
          rewrite HL1 in Hin. apply in_tracked_of in Hin as (w & Hw). apply (Hfr_clean y w Hw Hy).
        - apply (USe y x Hy Hny Hx Hmx). }
      assert (Hroot : forall x, In x (subs (getn sN i)) -> memob x = true -> st (getn sN x) <> Clean).
      { intros x Hx Hmx. rewrite HNsubs in Hx. rewrite HNst, HMst.
        destruct (Nat.eqb_spec x i) as [->|]; [|apply Hroots; auto].
        pose proof (wf_sub_gt p se i i W Hx). lia. }
      assert (HsubsM : subs (getn sM i) = subs (getn sN i)).
      { rewrite HNsubs. apply HMf. }
      rewrite HsubsM.
      destruct (fold_stable p (fun k a => if obs_is c k then a else mark_dirty p k a) (subs (getn sN i)) sN WN UN)
        as (MR & UF & SF).
      { intros x a Hx Wa Ua Ma Sa Hnx. destruct (obs_is c x).
        - split; [apply MarkRel_refl|]. split; auto using StableM_refl.
        - apply mark_dirty_stable; auto. }
      { exact Hroot. }
      destruct (mark_dirty_list p (obs_is c) (subs (getn sN i)) (fun _ _ => False) sN sN WN (MarkRel_refl p sN))
        as (_ & _ & DF).
      { intros y k HE; contradiction. }
      set (sF := fold_left (fun a k => if obs_is c k then a else mark_dirty p k a) (subs (getn sN i)) sN) in *.
      assert (Hcore : forall k, let n := getn sM k in let n' := getn sF k in
                sval n' = sval n /\ subs n' = subs n /\ cache n' = cache n /\ srcs n' = srcs n /\
                rlog n' = rlog n /\ efirst n' = efirst n /\ epaused n' = epaused n /\
                ealive n' = ealive n /\ edone n' = edone n /\ emissed n' = emissed n).
      { intros k. cbv zeta. pose proof (mr_core p _ _ MR k) as H. unfold same_core in H. specialize (HN k).
        intuition congruence. }
      split; [rewrite (mr_len p _ _ MR); destruct HNm as (->&_); unfold sM; rewrite nlen_updn; reflexivity|].
      split; [rewrite (mr_err p _ _ MR); destruct HNm as (_&->&_); apply I|].
      split; [rewrite (mr_halted p _ _ MR); destruct HNm as (_&_&_&->&_); reflexivity|].
      split.
      { intros k. destruct (Hcore k) as (?&?&?&?&?&?&?&?&?&?). specialize (HMf k). intuition congruence. }
      split.
      { intros k. destruct (Hcore k) as (_&_&->&_). apply HMca. }
      split.
      { apply SF; auto. rewrite HNst, HMst, Nat.eqb_refl. reflexivity. }
      split.
      { intros k Hk. pose proof (mr_st p _ _ MR k) as H. rewrite HNst, HMst in H.
        destruct (Nat.eqb_spec k i); [congruence|auto]. }
      split.
      { intros k Hmk Hk Hc. apply SF; auto. rewrite HNst, HMst. destruct (Nat.eqb_spec k i); [congruence|auto]. }
      split.
      { intros x. rewrite <- HcurM. unfold GraphInvariant.cur, cache_val.
        destruct (Hcore x) as (->&_&->&_). reflexivity. }
      split; [|discriminate].
      intros _ k Hk Hsk Hmk. rewrite <- HNsubs in Hk. destruct (DF k Hk Hsk) as [Hd _]. auto.
    - (* unchanged *)
      split; [unfold sM; rewrite nlen_updn; reflexivity|].
      split; [apply I|]. split; [reflexivity|].
      split; [exact HMf|]. split; [exact HMca|].
      split; [rewrite HMst, Nat.eqb_refl; reflexivity|].
      split.
      { intros k Hk. rewrite HMst. destruct (Nat.eqb_spec k i); [congruence|apply st_le_refl]. }
      split.
      { intros k _ Hk Hc. rewrite HMst. destruct (Nat.eqb_spec k i); [congruence|auto]. }
      split; [exact HcurM|]. split; [discriminate|].
      intros _. unfold changed_of in Ech. destruct cm; [|discriminate].
      unfold GraphInvariant.cur, cache_val.
      unfold GraphInvariant.memob in Hm. destruct (decl_of p i); try discriminate.
      destruct (cache (getn se i)); [|discriminate].
      apply negb_false_iff in Ech. apply Z.eqb_eq in Ech. auto. }
  destruct Hfin as (Fl & Fe & Fh & Ff & Fca & Fsi & Fle & Fst & Fcur & Fdirty & Fsame).
  assert (Frl : forall k, rlog (getn s' k) = rlog (getn se k)) by (intros k; apply Ff).
  assert (Fsr : forall k, srcs (getn s' k) = srcs (getn se k)) by (intros k; apply Ff).
  assert (Fcak : forall k, k <> i -> cache (getn s' k) = cache (getn se k)).
  { intros k Hk. rewrite Fca. destruct (Nat.eqb_spec k i); [congruence|reflexivity]. }
  assert (Fcurk : forall x, x <> i -> cur s' x = cur se x).
  { intros x Hx. rewrite Fcur. destruct (Nat.eqb_spec x i); [congruence|reflexivity]. }
  assert (Fclean : forall x, memob x = true -> st (getn se x) = Clean -> st (getn s' x) = Clean).
  { intros x Hmx Hc. destruct (Nat.eq_dec x i) as [->|Hx]; auto. }
  assert (W' : WF s').
  { apply (WF_same_edges p se s'); auto. intros k. destruct (Ff k) as (_&_&?&?&_). auto. }
  split; [|split; [|split]]; auto.
  - split; [split|].
    + exact W'.
    + exact Fe.
    + intros k Hk. destruct (Nat.eq_dec k i) as [->|Hki].
      * apply (L1_ext se s' i (Frl i) (Fsr i)). exact HL1.
      * apply (L1_ext se s' k (Frl k) (Fsr k)). apply I; auto.
    + intros k Hmk Hk. destruct (Nat.eq_dec k i) as [->|Hki].
      * unfold GraphInvariant.MemoOKc. rewrite Fca, Nat.eqb_refl. intros _ x w Hx Hmx.
        rewrite Frl in Hx. apply Fclean; auto. eapply Hfr_clean; eauto.
      * pose proof (inv_memo_c _ _ _ _ I k Hmk (Hnin k Hk Hki)) as HM.
        unfold GraphInvariant.MemoOKc in *. rewrite (Fcak k Hki), Frl.
        destruct (cache (getn se k)).
        -- intros Hc x w Hx Hmx. apply Fclean; auto.
           assert (Hcs : st (getn se k) = Clean) by (apply st_le_clean; rewrite <- Hc; apply Fle; auto).
           rewrite Frl in Hx. apply (HM Hcs x w Hx Hmx).
        -- destruct HM as [Hd Hr]. split; auto. apply st_le_dirty. rewrite <- Hd. apply Fle; auto.
    + intros k Hk x w Hx. rewrite Frl in Hx. rewrite Fcurk.
      * eapply inv_run_cur; eauto. right; auto.
      * intros ->. apply (Hnl k Hk). apply in_tracked_of. eauto.
    + intros k Hk x w Hx Hmx. rewrite Frl in Hx. apply Fclean; auto.
      eapply inv_run_clean; eauto. right; auto.
    + intros k x Hk. rewrite Fsr, Frl. apply (inv_run_src _ _ _ _ I k x). right; auto.
    + intros k Hk. apply (inv_run_ge _ _ _ _ I k). right; auto.
    + intros k Hk. apply (inv_run_range _ _ _ _ I k). right; auto.
    + intros k Hk Hmk Hc. apply (inv_run_nc _ _ _ _ I k (or_intror Hk) Hmk).
      apply st_le_clean. rewrite <- Hc. apply Fle; auto.
    + intros k Hmk Hk. unfold GraphInvariant.MemoOKv. intros Hcn Hd x w Hx. rewrite Frl in Hx.
      destruct (Nat.eq_dec k i) as [->|Hki].
      * rewrite Fcurk by (eapply Hsrc_lt; eauto). eapply Hfr_cur; eauto.
      * assert (Hkn : ~ In k (i :: stk)) by auto.
        assert (Hcur_se : cur se x = w).
        { apply (Iv k Hmk Hkn); auto.
          - rewrite <- (Fcak k Hki). exact Hcn.
          - intros Hds. apply Hd. apply st_le_dirty. rewrite <- Hds. apply Fle; auto. }
        destruct (Nat.eq_dec x i) as [->|Hxi]; [|rewrite Fcurk; auto].
        rewrite Fcur, Nat.eqb_refl.
        destruct (changed_of cm (cache (getn se i)) v) eqn:Ech.
        -- exfalso. apply Hd. apply (Fdirty eq_refl k); auto.
           ++ eapply wf_src_sub; eauto. rewrite (inv_l1 _ _ _ _ I k Hkn). apply in_tracked_of. eauto.
           ++ destruct (obs_is c k) eqn:Eo; auto. exfalso. apply Hk.
              unfold obs_is in Eo. destruct (obs_of c) as [o|] eqn:Eoc; [|discriminate].
              apply Nat.eqb_eq in Eo. subst. apply Hobs; auto.
        -- rewrite <- Hcur_se. symmetry. apply Fsame; auto.
  - split.
    + exact Fl.
    + exact Ff.
    + intros k Hk. split; [apply Fcak; auto|apply Fle; auto].
    + intros k Hmk Hk Hc. apply Fst; auto.
    + exact Fh.
  - rewrite Fca, Nat.eqb_refl. reflexivity.
Qed.

End P.
