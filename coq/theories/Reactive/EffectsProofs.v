(** Effects, part 1: polls, pause / resume / dispose and creation preserve the graph
    invariant [Inv0] (effects whose bodies do not write signals; effects that write are
    handled separately). *)
From Coq Require Import List ZArith Bool Arith Lia.
From LV Require Import Reactive.Graph Reactive.Effects Reactive.GraphLemmas Reactive.GraphInvariant
                       Reactive.GraphMarkProofs Reactive.GraphPullBase Reactive.GraphPullSteps
                       Reactive.GraphPullDefs Reactive.GraphPullEval Reactive.GraphPullRead
                       Reactive.GraphPullMemo Reactive.GraphPullProofs Reactive.GraphProofs.
Import ListNotations.
Close Scope Z_scope.
Open Scope nat_scope.

Section P.
Variable p : prog.
Hypothesis wfp : wf_prog p.
Notation memob := (memob p).
Notation effb := (effb p).
Notation sigb := (sigb p).
Notation WF := (WF p).
Notation Inv := (Inv p).
Notation InvW := (InvW p).
Notation Inv0 := (Inv0 p).
Notation cur := (cur p).
Notation PullRel := (PullRel p).
Notation USpec := (USpec p).
Notation RSpec := (RSpec p).

(* effect bodies (and watch handlers) that do not write *)
Definition pure_effects : Prop :=
  forall i k b h, decl_of p i = DEff k b h -> expr_ok p i false b /\ expr_ok p i false h.

Lemma eval_aw R e : forall i c s, expr_ok p i false e -> eval p R true c e s = eval p R false c e s.
Proof.
  induction e as [z|j|j|a IHa|a IHa b IHb|a IHa b IHb|g IHg a IHa b IHb|w a IHa];
    intros i c s Hok; cbn [eval expr_ok] in *; auto.
  - eapply IHa; eauto.
  - destruct Hok as [Ha Hb]. rewrite (IHa i c s Ha). destruct (eval p R false c a s) as [s1 x].
    rewrite (IHb i c s1 Hb). reflexivity.
  - destruct Hok as [Ha Hb]. rewrite (IHa i c s Ha). destruct (eval p R false c a s) as [s1 x].
    rewrite (IHb i c s1 Hb). reflexivity.
  - destruct Hok as (Hg & Ha & Hb). rewrite (IHg i c s Hg). destruct (eval p R false c g s) as [s1 x].
    destruct (Z.eqb x 0); [apply (IHb i c s1 Hb)|apply (IHa i c s1 Ha)].
  - destruct Hok as (Hf & _). discriminate.
Qed.

Lemma RSpec_mono n n' R : n' <= n -> RSpec n R -> RSpec n' R.
Proof. intros Hle H m c j s stk t s' v Hj. apply H. lia. Qed.

Lemma USpec_mono n n' U : n' <= n -> USpec n U -> USpec n' U.
Proof. intros Hle H c j s stk t s' ch Hj. apply H. lia. Qed.

Lemma effb_not_memo i : effb i = true -> memob i = false.
Proof. unfold GraphInvariant.effb, GraphInvariant.memob. destruct (decl_of p i); congruence. Qed.

Lemma effb_lt i : effb i = true -> i < length p.
Proof.
  intros H. destruct (Nat.lt_ge_cases i (length p)); auto.
  unfold GraphInvariant.effb, decl_of in H. rewrite nth_overflow in H by auto. discriminate.
Qed.

(* the body of a node that is not a memo has finished: it is an ordinary node again *)
Lemma Inv_pop e stk t s :
  Inv (e :: stk) t s -> L1 s e -> memob e = false -> Inv stk t s.
Proof.
  intros [Iw Iv] HL Hm. split.
  - destruct Iw. split; auto.
    + intros i Hi. destruct (Nat.eq_dec i e) as [->|Hie]; auto. apply inv_l1. intros [H|H]; auto.
    + intros i Hmi Hi. apply inv_memo_c; auto. intros [H|H]; auto. congruence.
    + intros k Hk. apply inv_run_cur. right; auto.
    + intros k Hk. apply inv_run_clean. right; auto.
    + intros k x Hk. apply inv_run_src. right; auto.
    + intros k Hk. apply inv_run_ge. right; auto.
    + intros k Hk. apply inv_run_range. right; auto.
    + intros k Hk. apply inv_run_nc. right; auto.
  - intros i Hmi Hi. apply Iv; auto. intros [H|H]; auto. congruence.
Qed.

(* ---------------------------------------------------------------- a body of an effect runs *)
Definition run_body (first : bool) (e : nat) (c : ctx) (body : expr) (s : state) : state * Z :=
  eval p (read_any p) true c body (begin_run first e (clear_sources e s)).

Lemma eff_body_spec first e body s s' v :
  Inv0 s -> effb e = true -> expr_ok p e false body ->
  run_body first e (Some e, true) body s = (s', v) ->
  Inv0 s' /\ PullRel (S e) [] None s s' /\ Lcur p s' e /\ Lclean p s' e /\
  subs (getn s' e) = subs (getn s e).
Proof.
  intros I He Hok Hr. unfold run_body in Hr.
  assert (Hel : e < length p) by (apply effb_lt; auto).
  assert (Hnm : memob e = false) by (apply effb_not_memo; auto).
  destruct (memo_begin p [] e first s (Inv_nil p 0 e s I)) as (Ic & L1c & Pc & Hsuc & _ & _ & _); auto.
  { intros k []. } { intros Hm; congruence. }
  set (sc := begin_run first e (clear_sources e s)) in *.
  rewrite (eval_aw (read_any p) body e (Some e, true) sc Hok) in Hr.
  destruct (lvl_spec p wfp (N p)) as [_ HR].
  assert (HRe : RSpec e (read_any p)) by (apply (RSpec_mono (N p) e); [unfold N; lia|exact HR]).
  assert (Cc : ctx_ok [e] (Some e, true)) by (unfold ctx_ok; cbn; eauto).
  destruct (eval_spec p e (read_any p) HRe body (Some e, true) sc [e] e s' v Hok (le_n e) Ic Cc L1c Hr)
    as (Ie & L1e & Pe). cbn [fst] in Pe. unfold TopOK in L1e. cbn [fst] in L1e.
  split; [apply (Inv_nil p e 0); eapply Inv_pop; eauto|].
  split.
  { eapply PullRel_trans; [exact Pc|]. apply PullRel_pop; auto. intros Hm; congruence. }
  split; [apply Ie; left; auto|]. split; [apply Ie; left; auto|].
  destruct (pr_above2 _ _ _ _ _ _ Pe e (le_n e)) as (_&_&Hsu). congruence.
Qed.

End P.
