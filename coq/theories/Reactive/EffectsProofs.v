(** Effects, part 1: what one iteration of an effect's task loop preserves.  The body of an
    effect runs as a frame on top of the graph invariant; between "notification consumed" and
    "body started" the effect itself is exempted ([InvBut]).  Effect bodies may write signals,
    but not signals of their own static cone ([no_self_feed], the complement of F-C02-d). *)
From Coq Require Import List ZArith Bool Arith Lia.
From LV Require Import Reactive.Graph Reactive.Effects Reactive.GraphLemmas Reactive.GraphReplay Reactive.GraphInvariant
                       Reactive.GraphMarkProofs Reactive.GraphMarkOrigin Reactive.GraphQueueProofs
                       Reactive.GraphPullBase Reactive.GraphPullSteps
                       Reactive.GraphPullDefs Reactive.GraphPullEval Reactive.GraphPullRead
                       Reactive.GraphPullMemo Reactive.GraphPullProofs Reactive.GraphMarkCone Reactive.GraphProofs.
Import ListNotations.
Close Scope Z_scope.
Open Scope nat_scope.

Section P.
Variable p : prog.
Hypothesis wfp : wf_prog p.
Notation memob := (memob p).
Notation dead := (dead p).
Notation GoneSame := (GoneSame p).
Notation effb := (effb p).
Notation sigb := (sigb p).
Notation WF := (WF p).
Notation Inv := (Inv p).
Notation InvBut := (InvBut p).
Notation Inv0 := (Inv0 p).
Notation Rest := (Rest p).
Notation Frame := (Frame p).
Notation Lcur := (Lcur p).
Notation Lclean := (Lclean p).
Notation cur := (cur p).
Notation PullRel := (PullRel p).
Notation USpec := (USpec p).
Notation RSpec := (RSpec p).
Notation queue_ok := (queue_ok p).

(* effect bodies (and watch handlers) that do not write *)
Definition pure_effects : Prop :=
  forall i k b h, decl_of p i = DEff k b h -> expr_ok p i false b /\ expr_ok p i false h.

(* the known class of finding F-C02-d: some effect (body or watch handler) writes a signal that
   lies in its own static cone, i.e. that it may itself read, directly or through memos *)
Definition self_feeding : Prop :=
  exists i k b h x, decl_of p i = DEff k b h /\ (writes x b \/ writes x h) /\ dep p i x.
Definition no_self_feed : Prop :=
  forall i k b h x, decl_of p i = DEff k b h -> writes x b \/ writes x h -> ~ dep p i x.

Lemma not_self_feeding : ~ self_feeding -> no_self_feed.
Proof. intros H i k b h x Hd Hw Hx. apply H. exists i, k, b, h, x. auto. Qed.

Lemma pure_no_writes i e x : expr_ok p i false e -> writes x e -> False.
Proof.
  induction e as [z|j|j|a IHa|a IHa b IHb|a IHa b IHb|g IHg a IHa b IHb|w a IHa];
    cbn [expr_ok writes]; intros Hok Hw; try contradiction; try tauto.
  destruct Hok as (Hf & _). discriminate.
Qed.

Lemma pure_no_self_feed : pure_effects -> no_self_feed.
Proof.
  intros Hp i k b h x Hd Hw _. destruct (Hp i k b h Hd) as (Hb & Hh).
  destruct Hw as [Hw|Hw]; [exact (pure_no_writes i b x Hb Hw)|exact (pure_no_writes i h x Hh Hw)].
Qed.

(* what the body (or handler) of effect e must satisfy *)
Definition body_ok (e : nat) (ex : expr) : Prop :=
  expr_ok p e true ex /\ (forall x, occurs x ex -> dep p e x) /\ (forall x, writes x ex -> ~ dep p e x).

Lemma nsf_body_ok i k b h : no_self_feed -> decl_of p i = DEff k b h -> body_ok i b /\ body_ok i h.
Proof.
  intros Hn Hd.
  assert (Hil : i < length p).
  { destruct (Nat.lt_ge_cases i (length p)); auto. unfold decl_of in Hd. rewrite nth_overflow in Hd by auto. discriminate. }
  pose proof (wfp i Hil) as Hw. rewrite Hd in Hw. destruct Hw as [Hwb Hwh].
  split; (split; [assumption|split]).
  - intros x Hx. apply dep_one. unfold dep1. rewrite Hd. auto.
  - intros x Hx. apply (Hn i k b h x Hd). auto.
  - intros x Hx. apply dep_one. unfold dep1. rewrite Hd. auto.
  - intros x Hx. apply (Hn i k b h x Hd). auto.
Qed.

Lemma RSpec_mono n n' R : n' <= n -> RSpec n R -> RSpec n' R.
Proof.
  intros Hle H m c j s stk t s' v Hj Hjt He Hcd I C T Hr.
  destruct (H m c j s stk t s' v ltac:(lia) Hjt He Hcd I C T Hr) as (A1 & A2 & A3 & A4 & A5 & A6).
  split; auto. split; auto. split; auto. split; auto. split; auto.
  intros w Hw. destruct (A6 w Hw) as (D & HD & HQ). exists D. split; auto.
  cbv beta in *. intros rest. rewrite <- (HQ rest). symmetry. apply (rlvl_mono p n' n m (snd c) j (D ++ rest) Hj Hle).
Qed.

Lemma USpec_mono n n' U : n' <= n -> USpec n U -> USpec n' U.
Proof. intros Hle H c j s stk t s' ch Hj. apply H. lia. Qed.

Lemma effb_not_memo i : effb i = true -> memob i = false.
Proof. unfold GraphInvariant.effb, GraphInvariant.memob. destruct (decl_of p i); congruence. Qed.

Lemma effb_lt i : effb i = true -> i < length p.
Proof.
  intros H. destruct (Nat.lt_ge_cases i (length p)); auto.
  unfold GraphInvariant.effb, decl_of in H. rewrite nth_overflow in H by auto. discriminate.
Qed.

Definition hasrun (s : state) (e : nat) : bool := hasrun_n (decl_of p e) (getn s e).

(* ---------------------------------------------------------------- frames of effects *)
(* the body of an effect has finished: the effect is an ordinary node again *)
Lemma Inv_pop e stk t s :
  Inv (e :: stk) t s -> L1 s e -> effb e = true -> Inv stk t s.
Proof.
  intros I HL He. destruct (effb_decl p e He) as (k & b & h & Hd).
  destruct (inv_frame _ _ _ _ I e (or_introl eq_refl)) as (F1&F2&_&_&_&_&F7).
  split; try apply I.
  - intros i Hi. destruct (Nat.eq_dec i e) as [->|Hie].
    + split; auto. unfold uncached_ok, GraphInvariant.will_run, will_run_n. rewrite Hd.
      split; auto. split; auto. split; auto. intros (_&_&Hdt). rewrite (F7 He) in Hdt. discriminate.
    + apply I. intros [H|H]; auto.
  - intros x Hx. apply I. right; auto.
Qed.

(* an effect at rest whose log is current and whose memo sources are Clean can be pushed *)
Lemma Inv_push e s :
  Inv0 s -> effb e = true -> Lcur s e -> Lclean s e -> edirty (getn s e) = false ->
  Inv [e] e s.
Proof.
  intros I He Hc Hcl Hd. split; try apply I.
  - intros i Hi. apply I. intros [].
  - intros k [<-|[]]. destruct (inv_rest _ _ _ _ I e (fun x => x)) as (R1&_).
    split; auto. split; auto. split.
    { intros x Hx. left. rewrite <- R1. exact Hx. }
    split; auto. split; [apply effb_lt; auto|]. split; auto.
    intros Hm. rewrite (effb_not_memo e He) in Hm. discriminate.
Qed.

(* ---------------------------------------------------------------- updates of an exempted effect *)
Definition core_same (n n' : node) : Prop :=
  sval n' = sval n /\ subs n' = subs n /\ st n' = st n /\ cache n' = cache n /\ srcs n' = srcs n /\
  rlog n' = rlog n /\ since n' = since n.

(* an update of an effect node does not dispose (or revive) any source *)
Lemma updn_eff_GoneSame e f s : effb e = true -> GoneSame s (updn e f s).
Proof.
  intros He k. destruct (Nat.eq_dec k e) as [->|Hk].
  - rewrite !dead_eff; auto.
  - apply dead_node. apply getn_updn_other; auto.
Qed.

Lemma GoneSame_getn s s' : (forall k, getn s' k = getn s k) -> GoneSame s s'.
Proof. intros H k. apply dead_node. auto. Qed.

(* the states of the task loop differ from one another by updates of the polled effect only *)
Ltac gs :=
  repeat match goal with |- GraphPullDefs.GoneSame _ _ ?x => unfold x end;
  repeat (first [ apply GoneSame_refl
                | apply updn_eff_GoneSame; solve [auto]
                | apply GoneSame_getn; intros; rewrite ?getn_emit, ?getn_enqueue; reflexivity
                | eapply GoneSame_trans; [|apply updn_eff_GoneSame; solve [auto]] ]).

Lemma InvBut_updn e f s :
  effb e = true ->
  InvBut e [] 0 s -> (forall n, core_same n (f n)) -> InvBut e [] 0 (updn e f s).
Proof.
  intros He I Hf.
  assert (Hgs := updn_eff_GoneSame e f s He).
  assert (Hoth : forall k, k <> e -> getn (updn e f s) k = getn s k) by (intros k Hk; apply getn_updn_other; auto).
  assert (Hall : forall k, core_same (getn s k) (getn (updn e f s) k)).
  { intros k. destruct (getn_updn_cases e f s k) as [[_ E]|E]; rewrite E; auto. unfold core_same; intuition. }
  assert (Hcur : forall x, cur (updn e f s) x = cur s x).
  { intros x. apply cur_view; apply Hall. }
  split.
  - apply (WF_same_edges p s (updn e f s)); [apply nlen_updn| |exact Hgs|apply I].
    intros k. destruct (Hall k) as (_&?&_&_&?&_). auto.
  - apply I.
  - apply I.
  - intros i Hi Hie. apply (Rest_ext p s (updn e f s) i).
    + rewrite (Hoth i Hie). apply nview_eq_refl.
    + exact Hgs.
    + intros x v _. apply Hcur.
    + intros x v _ _ Hc. destruct (Hall x) as (_&_&->&_). exact Hc.
    + apply (ib_rest _ _ _ _ _ I i Hi Hie).
  - intros _. unfold L1. destruct (Hall e) as (_&_&_&_&->&->&_). apply (ib_l1 _ _ _ _ _ I). intros [].
  - intros x Hx. unfold GraphInvariant.queue_ok. rewrite ready_updn, (Hoth x Hx).
    apply (ib_queue _ _ _ _ _ I x Hx).
  - intros k [].
Qed.

Lemma InvBut_close e s : InvBut e [] 0 s -> Rest s e -> queue_ok s e -> Inv0 s.
Proof.
  intros I R Q. split; try apply I.
  - intros i Hi. destruct (Nat.eq_dec i e) as [->|Hie]; auto. apply (ib_rest _ _ _ _ _ I i Hi Hie).
  - intros x. destruct (Nat.eq_dec x e) as [->|Hx]; auto. apply (ib_queue _ _ _ _ _ I x Hx).
Qed.

Lemma InvBut_nil e t t' s : InvBut e [] t s -> InvBut e [] t' s.
Proof. intros I. split; try apply I. intros k []. Qed.

(* ---------------------------------------------------------------- evaluation of an effect body *)
Lemma EffRel_refl s : EffRel s s.
Proof. split; auto. intros i. repeat split. Qed.
Lemma EffRel_trans a b c : EffRel a b -> EffRel b c -> EffRel a c.
Proof.
  intros [H1 G1] [H2 G2]. split; [|congruence].
  intros i. specialize (H1 i). specialize (H2 i). intuition congruence.
Qed.
Lemma PullRel_EffRel b stk ex s s' : PullRel b stk ex s s' -> EffRel s s'.
Proof. intros P. split; [apply (pr_eff _ _ _ _ _ _ P)|apply P]. Qed.

(* reads as in any body; a write goes to a signal outside the effect's cone, so it leaves the
   effect and everything it has read untouched *)
Lemma eff_eval_spec e R : RSpec e R -> effb e = true ->
  forall ex c s s' v,
    body_ok e ex -> fst c = Some e -> Inv [e] e s -> TopOK c s ->
    eval p R true c ex s = (s', v) ->
    Inv [e] e s' /\ TopOK c s' /\ EffRel s s'.
Proof.
  intros HR He ex.
  induction ex as [z|j|j|a IHa|a IHa b IHb|a IHa b IHb|g IHg a IHa b IHb|w a IHa];
    intros c s s' v (Hok & Hoc & Hwr) Hc I T Hev; cbn [eval] in Hev; cbn [expr_ok] in Hok;
    cbn [occurs] in Hoc; cbn [writes] in Hwr.
  - inversion Hev; subst. split; auto. split; auto. apply EffRel_refl.
  - destruct Hok as [Hj Hej].
    assert (C : ctx_ok [e] c) by (unfold ctx_ok; rewrite Hc; eauto).
    assert (Hcd : CtxDep p c j) by (intros w Hw; rewrite Hc in Hw; inversion Hw; subst; auto).
    destruct (HR true c j s [e] e s' v Hj Hj Hej Hcd I C T Hev) as (I' & T' & P' & _).
    split; auto. split; auto. eapply PullRel_EffRel; eauto.
  - destruct Hok as [Hj Hej].
    assert (C : ctx_ok [e] c) by (unfold ctx_ok; rewrite Hc; eauto).
    assert (Hcd : CtxDep p c j) by (intros w Hw; rewrite Hc in Hw; inversion Hw; subst; auto).
    destruct (HR false c j s [e] e s' v Hj Hj Hej Hcd I C T Hev) as (I' & T' & P' & _).
    split; auto. split; auto. eapply PullRel_EffRel; eauto.
  - apply (IHa (fst c, false) s s' v); auto. split; auto.
  - destruct Hok as [Ha Hb].
    destruct (eval p R true c a s) as [s1 x] eqn:E1.
    destruct (eval p R true c b s1) as [s2 y] eqn:E2. inversion Hev; subst.
    destruct (IHa c s s1 x) as (I1 & T1 & P1); auto. { split; auto. }
    destruct (IHb c s1 s' y) as (I2 & T2 & P2); auto. { split; auto. }
    split; auto. split; auto. eapply EffRel_trans; eauto.
  - destruct Hok as [Ha Hb].
    destruct (eval p R true c a s) as [s1 x] eqn:E1.
    destruct (eval p R true c b s1) as [s2 y] eqn:E2. inversion Hev; subst.
    destruct (IHa c s s1 x) as (I1 & T1 & P1); auto. { split; auto. }
    destruct (IHb c s1 s' y) as (I2 & T2 & P2); auto. { split; auto. }
    split; auto. split; auto. eapply EffRel_trans; eauto.
  - destruct Hok as (Hg & Ha & Hb).
    destruct (eval p R true c g s) as [s1 x] eqn:E1.
    destruct (IHg c s s1 x) as (I1 & T1 & P1); auto. { split; auto. }
    destruct (Z.eqb x 0).
    + destruct (IHb c s1 s' v) as (I2 & T2 & P2); auto. { split; auto 6. }
      split; auto. split; auto. eapply EffRel_trans; eauto.
    + destruct (IHa c s1 s' v) as (I2 & T2 & P2); auto. { split; auto 6. }
      split; auto. split; auto. eapply EffRel_trans; eauto.
  - destruct Hok as (_ & Hsw & Ha).
    destruct (eval p R true c a s) as [s1 x] eqn:E1. inversion Hev; subst s' v. clear Hev.
    destruct (IHa c s s1 x) as (I1 & T1 & P1); auto. { split; auto. }
    assert (HL : L1 s1 e) by (unfold TopOK in T1; rewrite Hc in T1; exact T1).
    unfold write_sig. destruct (sgone (getn s1 w)) eqn:Egw.
    { (* set on a disposed signal: nothing happens *) split; auto. }
    assert (Hlw : dead s1 w = false).
    { rewrite dead_src; auto. unfold GraphInvariant.effb, GraphInvariant.sigb in *. destruct (decl_of p w); congruence. }
    destruct (Inv_write p [e] e w x s1 I1 Hsw Hlw) as (I2 & Hun & P2).
    { intros k [<-|[]]. split; [|split; auto].
      intros E. subst w. unfold GraphInvariant.effb, GraphInvariant.sigb in *. destruct (decl_of p e); discriminate. }
    split; auto. split.
    + unfold TopOK. rewrite Hc. unfold L1. rewrite (Hun e (or_introl eq_refl)). exact HL.
    + eapply EffRel_trans; eauto.
Qed.

(* ---------------------------------------------------------------- a body of an effect runs *)
Lemma eff_body_spec first e body s s' v :
  InvBut e [] 0 s -> queue_ok s e -> effb e = true -> body_ok e body ->
  edirty (getn s e) = false ->
  (first = true \/ since (getn s e) <> []) ->
  eval p (read_any p) true (Some e, true) body (begin_run first e (clear_sources e s)) = (s', v) ->
  Inv0 s' /\ EffRel s s' /\ Lcur s' e /\ Lclean s' e /\
  edirty (getn s' e) = false.
Proof.
  intros I Hq He Hok Hd Hcause Hr.
  assert (Hel : e < length p) by (apply effb_lt; auto).
  assert (Hnm : memob e = false) by (apply effb_not_memo; auto).
  destruct (memo_begin p [] e first s (InvBut_nil e 0 e s I) Hq) as (Ic & L1c & Pc & Hsuc & _ & _ & _ & _); auto.
  { intros k []. } { intros Hm; congruence. }
  set (sc := begin_run first e (clear_sources e s)) in *.
  destruct (lvl_spec p wfp (N p)) as [_ HR].
  assert (HRe : RSpec e (read_any p)) by (apply (RSpec_mono (N p) e); [unfold N; lia|exact HR]).
  destruct (eff_eval_spec e (read_any p) HRe He body (Some e, true) sc s' v Hok eq_refl Ic L1c Hr)
    as (Ie & L1e & Pe). unfold TopOK in L1e. cbn [fst] in L1e.
  destruct (inv_frame _ _ _ _ Ie e (or_introl eq_refl)) as (F1&F2&_&_&_&_&F7).
  split; [apply (Inv_nil p e 0); eapply Inv_pop; eauto|].
  split; [eapply EffRel_trans; [eapply PullRel_EffRel; exact Pc|exact Pe]|].
  split; auto.
Qed.

(* effect-level fields that only the executor / the owner operations touch *)
Definition eff_static (s s' : state) : Prop :=
  (forall i, epaused (getn s' i) = epaused (getn s i) /\
             ealive (getn s' i) = ealive (getn s i) /\ edone (getn s' i) = edone (getn s i) /\
             epoll (getn s' i) = epoll (getn s i)) /\
  halted s' = halted s.

Lemma eff_static_refl s : eff_static s s.
Proof. split; auto. Qed.
Lemma eff_static_trans a b c : eff_static a b -> eff_static b c -> eff_static a c.
Proof.
  intros [H1 G1] [H2 G2]. split; [|congruence].
  intros i. specialize (H1 i). specialize (H2 i). intuition congruence.
Qed.
Lemma PullRel_static b stk ex s s' : PullRel b stk ex s s' -> eff_static s s'.
Proof.
  intros P. split; [|apply P]. intros i. destruct (pr_eff _ _ _ _ _ _ P i) as (?&?&?&?&?&?). auto.
Qed.
Lemma EffRel_static s s' : EffRel s s' -> eff_static s s'.
Proof.
  intros [P Ph]. split; [|exact Ph]. intros i. destruct (P i) as (?&?&?&?&?&?). auto.
Qed.
Lemma updn_static e f s :
  (forall n, epaused (f n) = epaused n /\ ealive (f n) = ealive n /\
             edone (f n) = edone n /\ epoll (f n) = epoll n) ->
  eff_static s (updn e f s).
Proof.
  intros Hf. split; auto. intros i.
  destruct (getn_updn_cases e f s i) as [[_ E]|E]; rewrite E; auto.
Qed.

Lemma emit_static ev s : eff_static s (emit ev s).
Proof. split; auto. Qed.

(* ---------------------------------------------------------------- the handler of a watch *)
Lemma eff_handler_spec e h s :
  Inv0 s -> effb e = true -> body_ok e h ->
  Lcur s e -> Lclean s e -> edirty (getn s e) = false ->
  let s' := eff_handler p e h s in
  Inv0 s' /\ Lcur s' e /\ Lclean s' e /\ edirty (getn s' e) = false /\ eff_static s s' /\
  efirst (getn s' e) = efirst (getn s e).
Proof.
  intros I He Hok Hc Hcl Hd. cbv zeta. unfold eff_handler.
  set (s1 := emit (EvHStart e) s).
  assert (I1 : Inv0 s1) by (apply Inv_emit; auto).
  assert (I1' : Inv [e] e s1) by (apply Inv_push; auto).
  destruct (eval p (read_any p) true (Some e, false) h s1) as [s2 v] eqn:Ev.
  destruct (lvl_spec p wfp (N p)) as [_ HR].
  assert (Hel : e < length p) by (apply effb_lt; auto).
  assert (HRe : RSpec e (read_any p)) by (apply (RSpec_mono (N p) e); [unfold N; lia|exact HR]).
  assert (Cc : ctx_ok [e] (Some e, false)) by (unfold ctx_ok; cbn; eauto).
  assert (T1 : TopOK (Some e, false) s1).
  { unfold TopOK; cbn. destruct (inv_rest _ _ _ _ I1 e (fun x => x)) as (R1&_). exact R1. }
  destruct (eff_eval_spec e (read_any p) HRe He h (Some e, false) s1 s2 v Hok eq_refl I1' T1 Ev)
    as (I2 & T2 & P2). unfold TopOK in T2. cbn [fst] in T2.
  destruct (inv_frame _ _ _ _ I2 e (or_introl eq_refl)) as (F1&F2&_&_&_&_&F7).
  split; [apply Inv_emit; apply (Inv_nil p e 0); eapply Inv_pop; eauto|].
  split; auto. split; auto. split; auto. split.
  - eapply eff_static_trans; [apply emit_static|].
    eapply eff_static_trans; [eapply EffRel_static; exact P2|apply emit_static].
  - rewrite getn_emit. destruct (proj1 P2 e) as (->&_). reflexivity.
Qed.

(* ---------------------------------------------------------------- EffectInner::update_if_necessary *)
Lemma any_plain_spec e : forall l s s1 ch,
  e <= length p -> (forall x, In x l -> x < e) ->
  Inv0 s -> any_plain p top_ctx l s = (s1, ch) ->
  Inv0 s1 /\ PullRel e [] None s s1 /\
  (ch = false -> forall x, In x l -> memob x = true -> dead s1 x = false -> st (getn s1 x) = Clean) /\
  (ch = true -> exists x, In x l /\ forall k, In x (tracked_of (rlog (getn s1 k))) -> since (getn s1 k) <> []).
Proof.
  destruct (lvl_spec p wfp (N p)) as [HU _]. fold (upd_top p) in HU.
  induction l as [|x l IH]; intros s s1 ch Hel Hl I Ha; cbn [any_plain] in Ha.
  - inversion Ha; subst. split; auto. split; [apply PullRel_refl|]. split; [intros _ x []|discriminate].
  - destruct (upd_top p top_ctx x s) as [s2 c2] eqn:EU.
    assert (Hx : x < e) by (apply Hl; left; auto).
    assert (HxN : x < N p) by (unfold N; lia).
    destruct (HU top_ctx x s [] (N p) s2 c2 HxN HxN (Inv_nil p 0 (N p) s I) (ctx_ok_top) EU)
      as (I2 & P2 & _ & Hcl & Hcs).
    assert (I2' : Inv0 s2) by (eapply Inv_nil; eauto).
    assert (P2' : PullRel e [] None s s2) by (eapply PullRel_weaken; [|exact P2]; lia).
    destruct c2.
    + inversion Ha; subst. split; auto. split; auto. split; [discriminate|].
      intros _. exists x. split; [left; auto|]. apply Hcs; auto.
    + destruct (IH s2 s1 ch Hel) as (I1 & P1 & Hn & Hy); auto.
      { intros y Hy. apply Hl; right; auto. }
      split; auto. split; [eapply PullRel_trans; eauto|]. split.
      * intros Hf y [<-|Hy'] Hm Hgy; [|apply Hn; auto].
        assert (Hgx : dead s x = false).
        { rewrite <- (PullRel_GoneSame p _ _ _ _ _ P2' x), <- (PullRel_GoneSame p _ _ _ _ _ P1 x). exact Hgy. }
        destruct (Hcl Hm Hgx) as [Hc2 _]. apply (pr_stable _ _ _ _ _ _ P1 x Hm); auto.
      * intros Ht. destruct (Hy Ht) as (y & Hy1 & Hy2). exists y. split; auto. right; auto.
Qed.

Lemma eff_check_spec e s s' need :
  InvBut e [] 0 s -> Rest s e -> effb e = true -> ealive (getn s e) = true -> epoll (getn s e) = true ->
  eff_check p e s = (s', need) ->
  eff_static s s' /\
  rlog (getn s' e) = rlog (getn s e) /\ srcs (getn s' e) = srcs (getn s e) /\
  edirty (getn s' e) = false /\ emissed (getn s' e) = false /\
  (need = false -> Inv0 s' /\
     forall x v, In (x, v, true) (rlog (getn s' e)) -> memob x = true -> dead s' x = false ->
                 st (getn s' x) = Clean) /\
  (need = true -> InvBut e [] 0 s' /\ queue_ok s' e /\
     (hasrun s' e = true -> since (getn s' e) <> [])).
Proof.
  intros I HR He Ha Hp Hc. unfold eff_check in Hc.
  destruct (effb_decl p e He) as (k & b & h & Hd).
  assert (Hel : e < length p) by (apply effb_lt; auto).
  assert (Hei : e < nlen s) by (rewrite (wf_len p s (ib_wf _ _ _ _ _ I)); auto).
  set (s0 := updn e (fun n => set_emissed n false) s) in *.
  assert (E0 : getn s0 e = set_emissed (getn s e) false) by (apply getn_updn_same; auto).
  assert (IB0 : InvBut e [] 0 s0).
  { apply InvBut_updn; [exact He|exact I|]. intros n. unfold core_same; nsimpl; intuition. }
  assert (S0 : eff_static s s0) by (apply updn_static; intros n; nsimpl; auto).
  destruct HR as (R1 & R2 & R3 & R4 & R5).
  assert (Hq0 : forall d, edirty (getn s0 e) = d -> queue_ok (updn e (fun n => set_edirty n false) s0) e).
  { intros d _. unfold GraphInvariant.queue_ok, queue_ok_n. rewrite Hd.
    rewrite getn_updn_same by (unfold s0; rewrite nlen_updn; auto). rewrite E0. nsimpl.
    intros _. split; [discriminate|]. rewrite Hp. discriminate. }
  destruct (edirty (getn s0 e)) eqn:Ed0.
  - (* dirty: cleared, true *)
    inversion Hc; subst s' need. clear Hc.
    set (s1 := updn e (fun n => set_edirty n false) s0).
    assert (E1 : getn s1 e = set_edirty (set_emissed (getn s e) false) false).
    { unfold s1. rewrite getn_updn_same by (unfold s0; rewrite nlen_updn; auto). rewrite E0. reflexivity. }
    split.
    { eapply eff_static_trans; [exact S0|]. apply updn_static; intros n; nsimpl; auto. }
    rewrite E1. nsimpl. split; auto. split; auto. split; auto. split; auto.
    split; [discriminate|]. intros _. split.
    { apply InvBut_updn; auto. intros n. unfold core_same; nsimpl; intuition. }
    split; [apply (Hq0 true); auto|].
    intros Hh. apply R5. unfold GraphInvariant.will_run, will_run_n. rewrite Hd.
    rewrite E0 in Ed0. nsimpl. unfold hasrun in Hh. rewrite E1, Hd in Hh.
    split; [auto|]. split; [destruct k; cbn in *; auto|auto].
  - (* not dirty: the sources are checked with the observer hidden *)
    assert (Ed : edirty (getn s e) = false) by (rewrite E0 in Ed0; exact Ed0).
    assert (I0 : Inv0 s0).
    { apply (InvBut_close e s0 IB0).
      - unfold GraphInvariant.Rest, L1, uncached_ok, GraphInvariant.needs_cur, GraphInvariant.needs_clean,
          GraphInvariant.will_run.
        rewrite Hd, E0. cbn [needs_cur_n needs_clean_n will_run_n]. nsimpl.
        split; [exact R1|]. split; [exact Logic.I|]. split; [|split].
        + intros Hn. apply (Lcur_ext p s s0 e); [rewrite E0; reflexivity|gs| |].
          * intros x v _. apply cur_view; unfold s0; [apply (updn_field sval)|apply (updn_field cache)]; auto.
          * apply R3. unfold GraphInvariant.needs_cur. rewrite Hd. exact Hn.
        + intros (_&_&_&_&_&Hpf). rewrite Hp in Hpf. discriminate.
        + intros (_&_&Hdt). rewrite Ed in Hdt. discriminate.
      - unfold GraphInvariant.queue_ok, queue_ok_n. rewrite Hd, E0. nsimpl.
        intros _. split; [rewrite Ed; discriminate|]. rewrite Hp. discriminate. }
    destruct (any_plain p top_ctx (srcs (getn s0 e)) s0) as [s1 ch] eqn:Ea.
    inversion Hc; subst s' need. clear Hc.
    assert (Hsr0 : srcs (getn s0 e) = srcs (getn s e)) by (rewrite E0; reflexivity).
    destruct (any_plain_spec e (srcs (getn s0 e)) s0 s1 ch ltac:(lia)) as (I1 & P1 & Hn & Hy); auto.
    { intros x Hx. rewrite Hsr0 in Hx. eapply wf_srclt; eauto. apply (ib_wf _ _ _ _ _ I). }
    destruct (pr_above _ _ _ _ _ _ P1 e (le_n e)) as (Hr1 & Hs1); [discriminate|].
    assert (S1 : eff_static s0 s1) by (eapply PullRel_static; eauto).
    assert (Hei1 : e < nlen s1).
    { rewrite (wf_len p s1 (inv_wf _ _ _ _ I1)); auto. }
    set (s2 := updn e (fun n => set_edirty n false) s1).
    assert (E2 : getn s2 e = set_edirty (getn s1 e) false) by (apply getn_updn_same; auto).
    assert (Hal1 : ealive (getn s1 e) = true).
    { destruct S1 as [S1 _]. destruct (S1 e) as (_&->&_). rewrite E0. exact Ha. }
    assert (Hpo1 : epoll (getn s1 e) = true).
    { destruct S1 as [S1 _]. destruct (S1 e) as (_&_&_&->). rewrite E0. exact Hp. }
    assert (Hmi1 : emissed (getn s1 e) = false).
    { destruct (pr_eff _ _ _ _ _ _ P1 e) as (_&_&_&_&->&_). rewrite E0. reflexivity. }
    split.
    { eapply eff_static_trans; [exact S0|]. eapply eff_static_trans; [exact S1|].
      apply updn_static; intros n; nsimpl; auto. }
    rewrite E2. nsimpl. rewrite Hr1, Hs1, E0. nsimpl.
    split; auto. split; auto. split; auto. split; auto.
    assert (IB2 : InvBut e [] 0 s2).
    { apply InvBut_updn; [auto|apply Inv_InvBut; auto|]. intros n. unfold core_same; nsimpl; intuition. }
    assert (Q2 : queue_ok s2 e).
    { unfold GraphInvariant.queue_ok, queue_ok_n. rewrite Hd, E2. nsimpl.
      intros _. split; [discriminate|]. rewrite Hpo1. discriminate. }
    destruct (inv_rest _ _ _ _ I1 e (fun x => x)) as (Q1 & Q2' & Q3 & Q4 & Q5).
    split.
    + (* nothing changed *)
      intros Hf. apply orb_false_elim in Hf as [-> Hdf].
      assert (Hv : forall i, nview_eq (getn s1 i) (getn s2 i)).
      { intros i. unfold s2. destruct (getn_updn_cases e (fun n => set_edirty n false) s1 i) as [[<- E]|E];
          rewrite E; [|apply nview_eq_refl]. unfold nview_eq; nsimpl. rewrite Hdf. intuition. }
      split.
      * apply (Inv_views p [] 0 s1 s2); auto; try apply IB2.
      * intros x v Hx Hm Hgx. unfold s2. rewrite (updn_field st) by auto.
        assert (Hgx1 : dead s1 x = false).
        { rewrite <- Hgx. symmetry. apply (updn_eff_GoneSame e _ s1 He). }
        apply (Hn eq_refl); auto. rewrite Hsr0. unfold L1 in R1. rewrite R1. apply in_tracked_of. eauto.
    + intros Ht. split; auto. split; auto.
      intros Hh. assert (Hh1 : hasrun s1 e = true).
      { unfold hasrun in *. rewrite E2 in Hh. rewrite Hd in *. destruct k; cbn in *; auto. }
      destruct ch.
      * destruct (Hy eq_refl) as (x & Hx1 & Hx2). apply Hx2. unfold L1 in Q1. rewrite <- Q1, Hs1. exact Hx1.
      * cbn in Ht. apply Q5. unfold GraphInvariant.will_run, will_run_n. rewrite Hd.
        unfold hasrun in Hh1. rewrite Hd in Hh1. auto.
Qed.

(* ---------------------------------------------------------------- one iteration of the task loop *)
(* what must hold of the polled effect whenever its loop is at rest between two iterations *)
Definition IterPost (s : state) (e : nat) : Prop :=
  (hasrun s e = false -> edirty (getn s e) = true) /\
  (edirty (getn s e) = false -> eflag (getn s e) = false -> emissed (getn s e) = false ->
   hasrun s e = true -> Lclean s e).

Lemma hasrun_first e k b h s : decl_of p e = DEff k b h -> k <> ERender ->
  hasrun s e = negb (efirst (getn s e)).
Proof. intros Hd Hk. unfold hasrun, hasrun_n. rewrite Hd. destruct k; congruence. Qed.

(* the effect has just run (or was found unchanged): close the exemption *)
Lemma close_after_run e s :
  InvBut e [] 0 s -> effb e = true ->
  ealive (getn s e) = true -> epoll (getn s e) = true ->
  edirty (getn s e) = false -> (hasrun s e = true -> Lcur s e) ->
  Inv0 s.
Proof.
  intros I He Ha Hp Hd Hc. destruct (effb_decl p e He) as (k & b & h & Hde).
  apply (InvBut_close e s I).
  - split; [apply (ib_l1 _ _ _ _ _ I); intros []|].
    unfold uncached_ok, GraphInvariant.needs_cur, GraphInvariant.needs_clean,
      GraphInvariant.will_run, needs_cur_n, needs_clean_n, will_run_n. rewrite Hde.
    split; auto. split; [|split].
    + intros (_ & Hh & _). apply Hc. unfold hasrun. rewrite Hde. exact Hh.
    + intros (_&_&_&_&_&Hpf). congruence.
    + intros (_&_&Hdt). congruence.
  - unfold GraphInvariant.queue_ok, queue_ok_n. rewrite Hde. intros _.
    split; [congruence|]. intros Hpf. congruence.
Qed.

(* a run of the body from an exempted state with the dirty flag down *)
Lemma eff_run_spec first e body s :
  InvBut e [] 0 s -> effb e = true -> body_ok e body ->
  ealive (getn s e) = true -> epoll (getn s e) = true -> edirty (getn s e) = false ->
  (first = true \/ since (getn s e) <> []) ->
  let s' := eff_run p first e body s in
  Inv0 s' /\ Lcur s' e /\ Lclean s' e /\ edirty (getn s' e) = false /\ eff_static s s' /\
  efirst (getn s' e) = efirst (getn s e).
Proof.
  intros I He Hok Ha Hp Hd Hcause. cbv zeta. unfold eff_run.
  destruct (eval p (read_any p) true (Some e, true) body (begin_run first e (clear_sources e s))) as [s1 v] eqn:Ev.
  destruct (effb_decl p e He) as (k & b & h & Hde).
  assert (Hq : queue_ok s e).
  { unfold GraphInvariant.queue_ok, queue_ok_n. rewrite Hde. intros _.
    split; [congruence|]. intros Hpf. congruence. }
  destruct (eff_body_spec first e body s s1 v I Hq He Hok Hd Hcause Ev) as (I1 & P1 & Hc1 & Hcl1 & Hd1).
  split; [apply Inv_emit; auto|]. split; auto. split; auto. split; auto. split.
  - eapply eff_static_trans; [eapply EffRel_static; exact P1|apply emit_static].
  - rewrite getn_emit. destruct (proj1 P1 e) as (->&_). reflexivity.
Qed.

Lemma static_alive s s' e : eff_static s s' -> ealive (getn s' e) = ealive (getn s e).
Proof. intros [H _]. destruct (H e) as (_&->&_). reflexivity. Qed.
Lemma static_epoll s s' e : eff_static s s' -> epoll (getn s' e) = epoll (getn s e).
Proof. intros [H _]. destruct (H e) as (_&_&_&->). reflexivity. Qed.

Lemma eff_iter_spec e k b h s :
  no_self_feed -> decl_of p e = DEff k b h ->
  Inv0 s -> ealive (getn s e) = true -> epoll (getn s e) = true -> IterPost s e ->
  let s' := eff_iter p (eff_check p) e (updn e (fun n => set_eflag n false) s) in
  Inv0 s' /\ IterPost s' e /\ eff_static s s'.
Proof.
  intros Hpure Hde I Ha Hp [IP1 IP2]. cbv zeta.
  assert (He : effb e = true) by (unfold GraphInvariant.effb; rewrite Hde; auto).
  destruct (nsf_body_ok e k b h Hpure Hde) as (Hokb & Hokh).
  assert (Hel : e < length p) by (apply effb_lt; auto).
  assert (Hei : e < nlen s) by (rewrite (wf_len p s (inv_wf _ _ _ _ I)); auto).
  destruct (inv_rest _ _ _ _ I e (fun x => x)) as (R1 & R2 & R3 & R4 & R5).
  set (sa := updn e (fun n => set_eflag n false) s).
  assert (Ea : getn sa e = set_eflag (getn s e) false) by (apply getn_updn_same; auto).
  assert (IBa : InvBut e [] 0 sa).
  { apply InvBut_updn; [auto|apply Inv_InvBut; auto|]. intros n. unfold core_same; nsimpl; intuition. }
  assert (Sa : eff_static s sa) by (apply updn_static; intros n; nsimpl; auto).
  assert (Hcura : forall x, cur sa x = cur s x).
  { intros x. apply cur_view; unfold sa; [apply (updn_field sval)|apply (updn_field cache)]; auto. }
  assert (Ra : Rest sa e).
  { unfold GraphInvariant.Rest, L1, uncached_ok, GraphInvariant.needs_cur, GraphInvariant.needs_clean,
      GraphInvariant.will_run. rewrite Hde, Ea. cbn [needs_cur_n needs_clean_n will_run_n hasrun_n]. nsimpl.
    split; [exact R1|]. split; [exact Logic.I|]. split; [|split].
    - intros Hn. apply (Lcur_ext p s sa e); [rewrite Ea; reflexivity|gs|intros x v _; apply Hcura|].
      apply R3. unfold GraphInvariant.needs_cur. rewrite Hde. exact Hn.
    - intros (_&_&_&_&_&Hpf). congruence.
    - intros Hw. apply R5. unfold GraphInvariant.will_run. rewrite Hde. exact Hw. }
  unfold eff_iter. rewrite Hde. fold sa.
  destruct (epaused (getn sa e)) eqn:Epa.
  - (* paused: the notification is consumed and nothing else happens *)
    set (s' := updn e (fun n => set_emissed n true) sa).
    assert (E' : getn s' e = set_emissed (set_eflag (getn s e) false) true).
    { unfold s'. rewrite getn_updn_same by (unfold sa; rewrite nlen_updn; auto). rewrite Ea. reflexivity. }
    assert (IB' : InvBut e [] 0 s').
    { apply InvBut_updn; auto. intros n. unfold core_same; nsimpl; intuition. }
    split; [|split].
    + apply (InvBut_close e s' IB').
      * unfold GraphInvariant.Rest, L1, uncached_ok, GraphInvariant.needs_cur, GraphInvariant.needs_clean,
          GraphInvariant.will_run. rewrite Hde, E'. cbn [needs_cur_n needs_clean_n will_run_n hasrun_n]. nsimpl.
        split; [exact R1|]. split; [exact Logic.I|]. split; [|split].
        -- intros Hn. apply (Lcur_ext p s s' e); [rewrite E'; reflexivity|gs| |].
           ++ intros x v _. apply cur_view; unfold s', sa; rewrite ?(updn_field sval), ?(updn_field cache); auto.
           ++ apply R3. unfold GraphInvariant.needs_cur. rewrite Hde. exact Hn.
        -- intros (_&_&_&_&Hm&_). discriminate.
        -- intros Hw. apply R5. unfold GraphInvariant.will_run. rewrite Hde. exact Hw.
      * unfold GraphInvariant.queue_ok, queue_ok_n. rewrite Hde, E'. nsimpl. intros _.
        split; [intros _; right; reflexivity|]. intros Hpf. congruence.
    + unfold IterPost, hasrun. rewrite E'. nsimpl. split; [exact IP1|]. intros _ _ Hm. discriminate.
    + eapply eff_static_trans; [exact Sa|]. apply updn_static; intros n; nsimpl; auto.
  - (* not paused: update_if_necessary, then maybe the body *)
    assert (Haa : ealive (getn sa e) = true) by (rewrite Ea; exact Ha).
    assert (Hpa : epoll (getn sa e) = true) by (rewrite Ea; exact Hp).
    destruct (eff_check p e sa) as [sb need] eqn:Ec.
    destruct (eff_check_spec e sa sb need IBa Ra He Haa Hpa Ec) as (Sb & Hrb & Hsb & Hdb & Hmb & Hno & Hyes).
    assert (Sab : eff_static s sb) by (eapply eff_static_trans; eauto).
    assert (Hab : ealive (getn sb e) = true) by (rewrite (static_alive s sb e Sab); exact Ha).
    assert (Hpb : epoll (getn sb e) = true) by (rewrite (static_epoll s sb e Sab); exact Hp).
    assert (IBb : InvBut e [] 0 sb).
    { destruct need; [apply Hyes; auto|apply Inv_InvBut; apply Hno; auto]. }
    assert (Heib : e < nlen sb) by (rewrite (wf_len p sb (ib_wf _ _ _ _ _ IBb)); auto).
    assert (Hnothing : need = false -> efirst (getn sb e) = false \/ k = ERender ->
              Inv0 sb /\ IterPost sb e).
    { intros Hn Hf. destruct (Hno Hn) as (Ib & Hcl). split; auto.
      unfold IterPost. split.
      - intros Hh. exfalso. unfold hasrun, hasrun_n in Hh. rewrite Hde in Hh.
        destruct Hf as [Hf| ->]; [|discriminate]. rewrite Hf in Hh. destruct k; discriminate.
      - intros _ _ _ _ x v Hx Hm. eapply Hcl; eauto. }
    destruct k as [| |imm].
    + (* Effect::new / new_isomorphic *)
      set (first := efirst (getn sb e)).
      destruct (need || first) eqn:Enf.
      * set (sc := updn e (fun n => set_efirst n false) sb).
        assert (Ecc : getn sc e = set_efirst (getn sb e) false) by (apply getn_updn_same; auto).
        assert (IBc : InvBut e [] 0 sc).
        { apply InvBut_updn; auto. intros n. unfold core_same; nsimpl; intuition. }
        assert (Sc : eff_static sb sc) by (apply updn_static; intros n; nsimpl; auto).
        assert (Hcause : first = true \/ since (getn sc e) <> []).
        { destruct first eqn:Ef; auto. right. rewrite orb_false_r in Enf. subst need.
          destruct (Hyes eq_refl) as (_&_&Hsn). rewrite Ecc. nsimpl. apply Hsn.
          rewrite (hasrun_first e EEffect b h sb Hde) by discriminate. fold first. rewrite Ef. reflexivity. }
        destruct (eff_run_spec first e b sc IBc He Hokb) as (I' & Hc' & Hcl' & Hd' & S' & Hf'); auto;
          try (rewrite Ecc; nsimpl; auto).
        split; auto. split.
        -- unfold IterPost. split; [|intros; auto].
           intros Hh. exfalso. rewrite (hasrun_first e EEffect b h _ Hde) in Hh by discriminate.
           rewrite Hf', Ecc in Hh. discriminate.
        -- eapply eff_static_trans; [exact Sab|]. eapply eff_static_trans; [exact Sc|exact S'].
      * apply orb_false_elim in Enf as [Hn Hf]. destruct (Hnothing Hn (or_introl Hf)) as (Ib & Ipb).
        split; auto.
    + (* RenderEffect *)
      destruct need eqn:En.
      * destruct (Hyes eq_refl) as (_&_&Hsn).
        destruct (eff_run_spec false e b sb IBb He Hokb Hab Hpb Hdb) as (I' & Hc' & Hcl' & Hd' & S' & _).
        { right. apply Hsn. unfold hasrun, hasrun_n. rewrite Hde. reflexivity. }
        split; auto. split.
        -- unfold IterPost. split; [intros Hh; unfold hasrun, hasrun_n in Hh; rewrite Hde in Hh; discriminate|auto].
        -- eapply eff_static_trans; eauto.
      * destruct (Hnothing eq_refl (or_intror eq_refl)) as (Ib & Ipb). split; auto.
    + (* watch *)
      set (first := efirst (getn sb e)).
      destruct (need || first) eqn:Enf.
      * assert (Hcause : first = true \/ since (getn sb e) <> []).
        { destruct first eqn:Ef; auto. right. rewrite orb_false_r in Enf. subst need.
          destruct (Hyes eq_refl) as (_&_&Hsn). apply Hsn.
          rewrite (hasrun_first e (EWatch imm) b h sb Hde) by discriminate. fold first. rewrite Ef. reflexivity. }
        destruct (eff_run_spec first e b sb IBb He Hokb Hab Hpb Hdb Hcause) as (I1 & Hc1 & Hcl1 & Hd1 & S1 & _).
        set (s1 := eff_run p first e b sb) in *.
        (* the handler, if any *)
        assert (H2 : let s2 := if imm || negb first then eff_handler p e h s1 else s1 in
                     Inv0 s2 /\ Lcur s2 e /\ Lclean s2 e /\ edirty (getn s2 e) = false /\ eff_static s1 s2).
        { cbv zeta. destruct (imm || negb first).
          - destruct (eff_handler_spec e h s1 I1 He Hokh Hc1 Hcl1 Hd1) as (A1&A2&A3&A4&A5&_).
            split; [exact A1|]. split; [exact A2|]. split; [exact A3|]. split; [exact A4|exact A5].
          - split; [exact I1|]. split; [exact Hc1|]. split; [exact Hcl1|]. split; [exact Hd1|apply eff_static_refl]. }
        cbv zeta in H2. set (s2 := if imm || negb first then eff_handler p e h s1 else s1) in *.
        destruct H2 as (I2 & Hc2 & Hcl2 & Hd2 & S2).
        assert (S02 : eff_static s s2).
        { eapply eff_static_trans; [exact Sab|]. eapply eff_static_trans; eauto. }
        assert (Ha2 : ealive (getn s2 e) = true) by (rewrite (static_alive s s2 e S02); exact Ha).
        assert (Hp2 : epoll (getn s2 e) = true) by (rewrite (static_epoll s s2 e S02); exact Hp).
        set (s3 := updn e (fun n => set_efirst n false) s2).
        assert (E3 : getn s3 e = set_efirst (getn s2 e) false).
        { apply getn_updn_same. rewrite (wf_len p s2 (inv_wf _ _ _ _ I2)); auto. }
        assert (IB3 : InvBut e [] 0 s3).
        { apply InvBut_updn; [auto|apply Inv_InvBut; auto|]. intros n. unfold core_same; nsimpl; intuition. }
        assert (Hv3 : forall x, cur s3 x = cur s2 x).
        { intros x. apply cur_view; unfold s3; [apply (updn_field sval)|apply (updn_field cache)]; auto. }
        assert (Hc3 : Lcur s3 e).
        { apply (Lcur_ext p s2 s3 e); [rewrite E3; reflexivity|gs|intros x v _; apply Hv3|exact Hc2]. }
        assert (Hcl3 : Lclean s3 e).
        { apply (Lclean_ext p s2 s3 e); [rewrite E3; reflexivity|gs| |exact Hcl2].
          intros x v _ _ Hcx. unfold s3. rewrite (updn_field st); auto. }
        split.
        -- apply (close_after_run e s3 IB3 He).
           ++ rewrite E3; nsimpl; auto.
           ++ rewrite E3; nsimpl; auto.
           ++ rewrite E3; nsimpl; auto.
           ++ intros _; exact Hc3.
        -- split.
           ++ unfold IterPost. split; [|intros; auto].
              intros Hh. exfalso. rewrite (hasrun_first e (EWatch imm) b h _ Hde) in Hh by discriminate.
              rewrite E3 in Hh. discriminate.
           ++ eapply eff_static_trans; [exact S02|]. apply updn_static; intros n; nsimpl; auto.
      * apply orb_false_elim in Enf as [Hn Hf]. destruct (Hnothing Hn (or_introl Hf)) as (Ib & Ipb).
        split; auto.
Qed.

End P.
