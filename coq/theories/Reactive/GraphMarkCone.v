(** Marking stays inside the static cone: a write to signal j (and the marking it starts) leaves
    every node that does not statically depend on j exactly as it was.  This is what makes a
    write issued by a running effect harmless to that effect, provided the effect does not
    depend on the signal it writes. *)
From Coq Require Import List ZArith Bool Arith Lia.
From LV Require Import Reactive.Graph Reactive.GraphLemmas Reactive.GraphInvariant
                       Reactive.GraphMarkProofs Reactive.GraphMarkOrigin Reactive.GraphPullMemo.
Import ListNotations.
Close Scope Z_scope.
Open Scope nat_scope.

Section P.
Variable p : prog.
Variable j : nat.
Notation dep := (dep p).

(* subscriber edges lie inside the static cone *)
Definition SubDep (s : state) : Prop := forall y k, In k (subs (getn s y)) -> dep k y.

Lemma WF_SubDep s : WF p s -> SubDep s.
Proof. intros W y k H. eapply wf_sub_dep; eauto. Qed.

(* [s'] differs from [s] only at nodes that depend on j, and not in their subscriber lists *)
Definition Local (s s' : state) : Prop :=
  (forall x, ~ dep x j -> getn s' x = getn s x) /\ (forall y, subs (getn s' y) = subs (getn s y)).

Lemma Local_refl s : Local s s.
Proof. split; auto. Qed.
Lemma Local_trans a b c : Local a b -> Local b c -> Local a c.
Proof.
  intros [H1 G1] [H2 G2]. split.
  - intros x Hx. rewrite H2, H1; auto.
  - intros y. rewrite G2, G1; auto.
Qed.
Lemma Local_SubDep s s' : Local s s' -> SubDep s -> SubDep s'.
Proof. intros [_ G] H y k. rewrite G. apply H. Qed.

Lemma updn_Local i f s : dep i j -> (forall n, subs (f n) = subs n) -> Local s (updn i f s).
Proof.
  intros Hi Hf. split.
  - intros x Hx. apply getn_updn_other. intros ->. auto.
  - intros y. apply (updn_field subs); auto.
Qed.

Lemma eff_notify_subs i s y : subs (getn (eff_notify i s) y) = subs (getn s y).
Proof.
  unfold eff_notify. destruct (ealive (getn s i)); auto.
  destruct (ereg (getn _ i)).
  - rewrite getn_enqueue, (updn_field subs), (updn_field subs); auto.
  - rewrite (updn_field subs); auto.
Qed.

Lemma eff_notify_Local i s : dep i j -> Local s (eff_notify i s).
Proof.
  intros Hi. split.
  - intros x Hx. apply eff_notify_other. intros ->. auto.
  - apply eff_notify_subs.
Qed.

Lemma eff_mark_dirty_Local i s : dep i j -> Local s (eff_mark_dirty i s).
Proof.
  intros Hi. unfold eff_mark_dirty. destruct (ealive (getn s i)); [|apply Local_refl].
  apply (Local_trans _ (updn i (fun n => set_edirty n true) s)); [apply updn_Local; [auto|reflexivity]|apply eff_notify_Local; auto].
Qed.

Lemma fold_Local (g : nat -> state -> state) (l : list nat) :
  (forall k a, In k l -> SubDep a -> Local a (g k a)) ->
  forall s, SubDep s -> Local s (fold_left (fun a k => g k a) l s).
Proof.
  induction l as [|x t IH]; intros Hg s HS; cbn; [apply Local_refl|].
  assert (L1 : Local s (g x s)) by (apply Hg; auto; left; auto).
  eapply Local_trans; [exact L1|]. apply IH.
  - intros k a Hk. apply Hg. right; auto.
  - eapply Local_SubDep; eauto.
Qed.

Lemma mark_check_Local f : forall i s, SubDep s -> dep i j -> Local s (mark_check p f i s).
Proof.
  induction f as [|f IH]; intros i s HS Hi; cbn [mark_check].
  - split; auto.
  - destruct (decl_of p i); try apply Local_refl.
    + set (s1 := if nstate_eqb (st (getn s i)) Dirty then s else updn i (fun n => set_st n Check) s).
      assert (L1 : Local s s1).
      { unfold s1. destruct (nstate_eqb _ _); [apply Local_refl|]. apply updn_Local; [auto|reflexivity]. }
      eapply Local_trans; [exact L1|].
      apply (fold_Local (fun k a => mark_check p f k a)); [|eapply Local_SubDep; eauto].
      intros k a Hk Ha. apply IH; auto.
      eapply dep_trans; [|exact Hi]. apply (Local_SubDep s s1 L1 HS i k Hk).
    + apply eff_notify_Local; auto.
Qed.

Lemma mark_dirty_Local i s : SubDep s -> dep i j -> Local s (mark_dirty p i s).
Proof.
  intros HS Hi. unfold mark_dirty. destruct (decl_of p i); try apply Local_refl.
  - set (s1 := updn i (fun n => set_st n Dirty) s).
    assert (L1 : Local s s1) by (apply updn_Local; [auto|reflexivity]).
    eapply Local_trans; [exact L1|].
    apply (fold_Local (fun k a => mark_check p (mfuel p) k a)); [|eapply Local_SubDep; eauto].
    intros k a Hk Ha. apply mark_check_Local; auto.
    eapply dep_trans; [|exact Hi]. apply (Local_SubDep s s1 L1 HS i k Hk).
  - apply eff_mark_dirty_Local; auto.
Qed.

(* the whole write: value stored, causes recorded, subscribers marked *)
Lemma write_sig_untouched v s x :
  WF p s -> (forall k, In j (tracked_of (rlog (getn s k))) -> dep k j) ->
  x <> j -> ~ dep x j -> getn (write_sig p j v s) x = getn s x.
Proof.
  intros W Htr Hxj Hx. unfold write_sig. destruct (sgone (getn s j)); [reflexivity|]. unfold notify_sig.
  set (s1 := updn j (fun n => set_sval n v) s).
  set (s2 := add_cause j s1).
  assert (H1 : forall k, k <> j -> getn s1 k = getn s k) by (intros k Hk; apply getn_updn_other; auto).
  assert (Hsu1 : forall y, subs (getn s1 y) = subs (getn s y)) by (intros y; apply (updn_field subs); auto).
  assert (Hrl1 : forall y, rlog (getn s1 y) = rlog (getn s y)) by (intros y; apply (updn_field rlog); auto).
  assert (H2 : getn s2 x = getn s x).
  { unfold s2. rewrite add_cause_node. destruct (tracks (getn s1 x) j) eqn:Et; [|apply H1; auto].
    exfalso. apply Hx. apply Htr. apply tracks_iff in Et. rewrite Hrl1 in Et. exact Et. }
  assert (Hsu2 : forall y, subs (getn s2 y) = subs (getn s y)).
  { intros y. destruct (add_cause_getn j s1 y) as (_&E&_). fold s2 in E. rewrite E. apply Hsu1. }
  assert (HS2 : SubDep s2).
  { intros y k. rewrite Hsu2. apply WF_SubDep; auto. }
  destruct (fold_Local (fun k a => mark_dirty p k a) (subs (getn s2 j))) with (s := s2) as [L _]; auto.
  - intros k a Hk Ha. apply mark_dirty_Local; auto.
  - rewrite L; auto.
Qed.

End P.
