(** Model of reactive_graph's ownership tree and arena (C08).
    Anchors: reactive_graph/src/owner.rs ([Owner::new], [with_cleanup], [Cleanup::cleanup] for
    RwLock<OwnerInner>, [Drop for OwnerInner], [on_cleanup], [pause]/[resume]),
    owner/arena.rs + owner/arena_item.rs (global slotmap, [ArenaItem::new_with_storage],
    [is_disposed], [dispose]), owner/context.rs ([provide_context], [with_context]),
    owner/stored_value.rs, effect/effect.rs (the task loop of [Effect::new]), channel.rs
    ([Inner::drop] wakes the task, [Receiver::poll_next] ends the stream once the sender is gone),
    computed/inner.rs ([MemoInner::owner], re-run under [with_cleanup]).

    Part 1 ("core"): owners + arena, with the release cascade as one fuel-indexed function.
    Part 2 ("programs"): scope bodies (a small statement language), effects with their tasks and
    channel flags, lazily re-run memos, and the history operations of the correspondence check.
    Every program step acts on the core through the core operations only.

    No proofs in this file. *)
From Coq Require Import List ZArith Bool Arith.
From LV Require Import Reactive.RxUtil.
Import ListNotations.

(** * Part 1: owners and arena *)

(** slotmap key: (slot index, version) *)
Definition key := (nat * nat)%type.

(** what an arena slot holds, as far as ownership is concerned *)
Inductive item :=
| IVal (h : nat)              (* a signal or stored value; h = harness handle number *)
| IEffect (e : nat)           (* Option<Arc<RwLock<EffectInner>>>: holds the channel Sender *)
| IMemo (m : nat) (o : nat).  (* ArcMemo: MemoInner holds the memo's own Owner [o] *)

Record slot := mkSlot { s_ver : nat; s_item : option item }.

Record owner := mkOwner {
  o_parent : option nat;          (* Weak *)
  o_children : list nat;          (* Vec<Weak>, in creation order *)
  o_nodes : list key;
  o_cleanups : list nat;          (* cleanup closures, identified by their registration number *)
  o_ctx : list (nat * Z);         (* TypeId -> value, newest binding first *)
  o_paused : bool;
  o_alive : bool                  (* strong count > 0 *)
}.

(** one log for everything observable, newest first *)
Inductive lent :=
| LClean (cid : nat)
| LEff (e : nat)
| LMemo (m : nat)
| LUse (ty : nat) (r : option Z)
| LRead (m : nat) (ok : bool)
| LRendInit (o : nat)          (* first, synchronous run of a RenderEffect, under owner o *)
| LImm (i : nat).              (* run of an ImmediateEffect *)

Record core := mkCore {
  owners : list owner;
  slots : list slot;
  free : list nat;                (* slotmap free list, head = next slot to reuse *)
  clog : list lent;
  next_cid : nat;
  err : bool;                     (* fuel ran out (excluded by theorem) *)
  unowned : bool                  (* ghost: something was allocated with no live current owner *)
}.

Definition core0 : core := mkCore [] [] [] [] 0 false false.

Definition set_owners (c : core) (os : list owner) : core :=
  mkCore os (slots c) (free c) (clog c) (next_cid c) (err c) (unowned c).
Definition set_arena (c : core) (sl : list slot) (fr : list nat) : core :=
  mkCore (owners c) sl fr (clog c) (next_cid c) (err c) (unowned c).
Definition add_log (c : core) (l : list lent) : core :=
  mkCore (owners c) (slots c) (free c) (l ++ clog c) (next_cid c) (err c) (unowned c).
Definition set_err (c : core) : core :=
  mkCore (owners c) (slots c) (free c) (clog c) (next_cid c) true (unowned c).

Definition alive (c : core) (o : nat) : bool :=
  match nth_error (owners c) o with Some ow => o_alive ow | None => false end.

(** ** arena = slotmap: occupied slots have the key's version; removal bumps the version *)
Definition get (c : core) (k : key) : option item :=
  match nth_error (slots c) (fst k) with
  | Some s => if s_ver s =? snd k then s_item s else None
  | None => None
  end.
Definition contains (c : core) (k : key) : bool :=
  match get c k with Some _ => true | None => false end.

Definition insert (it : item) (c : core) : key * core :=
  match free c with
  | i :: fr =>
      match nth_error (slots c) i with
      | Some s => ((i, S (s_ver s)),
                   set_arena c (upd i (fun _ => mkSlot (S (s_ver s)) (Some it)) (slots c)) fr)
      | None => ((length (slots c), 1), set_arena c (slots c ++ [mkSlot 1 (Some it)]) fr)
      end
  | [] => ((length (slots c), 1), set_arena c (slots c ++ [mkSlot 1 (Some it)]) [])
  end.

Definition remove (k : key) (c : core) : option item * core :=
  match get c k with
  | Some it => (Some it,
                set_arena c (upd (fst k) (fun s => mkSlot (S (s_ver s)) None) (slots c))
                          (fst k :: free c))
  | None => (None, c)
  end.

Definition arena_len (c : core) : nat :=
  length (filter (fun s => match s_item s with Some _ => true | None => false end) (slots c)).

(** ** owners *)
Definition upd_owner (o : nat) (f : owner -> owner) (c : core) : core :=
  set_owners c (upd o f (owners c)).

(** [Owner::new()] with [parent] = the current owner (its Weak must still upgrade) *)
Definition new_owner (parent : option nat) (c : core) : nat * core :=
  let par := match parent with
             | Some p => if alive c p then Some p else None
             | None => None
             end in
  let oid := length (owners c) in
  let c1 := set_owners c (owners c ++ [mkOwner par [] [] [] [] false true]) in
  (oid, match par with
        | Some p => upd_owner p (fun ow => mkOwner (o_parent ow) (o_children ow ++ [oid]) (o_nodes ow)
                                             (o_cleanups ow) (o_ctx ow) (o_paused ow) (o_alive ow)) c1
        | None => c1
        end).

(** [on_cleanup]: pushed on the current owner if there is one *)
Definition reg_cleanup (o : nat) (c : core) : core :=
  let cid := next_cid c in
  let c1 := mkCore (owners c) (slots c) (free c) (clog c) (S cid) (err c) (unowned c) in
  if alive c o
  then upd_owner o (fun ow => mkOwner (o_parent ow) (o_children ow) (o_nodes ow)
                                      (o_cleanups ow ++ [cid]) (o_ctx ow) (o_paused ow) (o_alive ow)) c1
  else c1.

(** [ArenaItem::new_with_storage]: insert, then register with the current owner *)
Definition alloc (o : nat) (it : item) (c : core) : key * core :=
  let '(k, c1) := insert it c in
  if alive c o
  then (k, upd_owner o (fun ow => mkOwner (o_parent ow) (o_children ow) (o_nodes ow ++ [k])
                                          (o_cleanups ow) (o_ctx ow) (o_paused ow) (o_alive ow)) c1)
  else (k, mkCore (owners c1) (slots c1) (free c1) (clog c1) (next_cid c1) (err c1) true).

Definition provide (o : nat) (ty : nat) (v : Z) (c : core) : core :=
  upd_owner o (fun ow => mkOwner (o_parent ow) (o_children ow) (o_nodes ow) (o_cleanups ow)
                                 ((ty, v) :: o_ctx ow) (o_paused ow) (o_alive ow)) c.

Fixpoint assoc (ty : nat) (l : list (nat * Z)) : option Z :=
  match l with
  | [] => None
  | (t, v) :: r => if t =? ty then Some v else assoc ty r
  end.

(** [with_context]: own map first, then the parents as long as their Weak upgrades *)
Fixpoint lookup_ctx (fuel : nat) (c : core) (o : nat) (ty : nat) : option Z :=
  match fuel with
  | O => None
  | S f =>
      match nth_error (owners c) o with
      | None => None
      | Some ow =>
          match assoc ty (o_ctx ow) with
          | Some v => Some v
          | None =>
              match o_parent ow with
              | Some p => if alive c p then lookup_ctx f c p ty else None
              | None => None
              end
          end
      end
  end.
Definition use_ctx (c : core) (o : nat) (ty : nat) : option Z :=
  lookup_ctx (S (length (owners c))) c o ty.

(** the owner whose map holds the binding [with_context] finds ([take_context] removes the binding
    there, [update_context] mutates it there) *)
Fixpoint lookup_owner (fuel : nat) (c : core) (o : nat) (ty : nat) : option nat :=
  match fuel with
  | O => None
  | S f =>
      match nth_error (owners c) o with
      | None => None
      | Some ow =>
          match assoc ty (o_ctx ow) with
          | Some _ => Some o
          | None =>
              match o_parent ow with
              | Some p => if alive c p then lookup_owner f c p ty else None
              | None => None
              end
          end
      end
  end.
Definition provider (c : core) (o : nat) (ty : nat) : option nat :=
  lookup_owner (S (length (owners c))) c o ty.

Definition unbind (ty : nat) (l : list (nat * Z)) : list (nat * Z) :=
  filter (fun p => negb (fst p =? ty)) l.
Definition take_ctx (o : nat) (ty : nat) (c : core) : core :=
  match provider c o ty with
  | Some p => upd_owner p (fun ow => mkOwner (o_parent ow) (o_children ow) (o_nodes ow) (o_cleanups ow)
                                             (unbind ty (o_ctx ow)) (o_paused ow) (o_alive ow)) c
  | None => c
  end.
Definition update_ctx (o : nat) (ty : nat) (v : Z) (c : core) : core :=
  match provider c o ty with
  | Some p => provide p ty v c
  | None => c
  end.

(** ** the release cascade
    [JCleanup o]: Cleanup::cleanup on owner [o] (no-op if its Weak no longer upgrades);
    [JDrop o]:    the last strong reference to [o] goes away: Drop for OwnerInner;
    [JRemove k]:  arena.remove(k); dropping an ArcMemo drops the memo's own Owner. *)
Inductive job := JCleanup (o : nat) | JDrop (o : nat) | JRemove (k : key).

Definition clear_owner (dead : bool) (ow : owner) : owner :=
  mkOwner (o_parent ow) [] [] [] (if dead then [] else o_ctx ow) (o_paused ow)
          (if dead then false else o_alive ow).

Fixpoint exec (fuel : nat) (j : job) (c : core) : core :=
  match fuel with
  | O => set_err c
  | S f =>
      let release (dead : bool) (o : nat) (ow : owner) :=
        (* take(cleanups), take(nodes), take(children) *)
        let c1 := upd_owner o (clear_owner dead) c in
        (* children first … *)
        let c2 := fold_left (fun c ch => exec f (JCleanup ch) c) (o_children ow) c1 in
        (* … then this owner's cleanups in registration order … *)
        let c3 := add_log c2 (rev (map LClean (o_cleanups ow))) in
        (* … then its arena nodes *)
        fold_left (fun c k => exec f (JRemove k) c) (o_nodes ow) c3 in
      match j with
      | JCleanup o =>
          match nth_error (owners c) o with
          | Some ow => if o_alive ow then release false o ow else c
          | None => c
          end
      | JDrop o =>
          match nth_error (owners c) o with
          | Some ow => if o_alive ow then release true o ow else c
          | None => c
          end
      | JRemove k =>
          match remove k c with
          | (Some (IMemo _ mo), c') => exec f (JDrop mo) c'
          | (_, c') => c'
          end
      end
  end.

Definition fuel_of (c : core) : nat := 2 * length (owners c) + 2.
Definition cleanup (o : nat) (c : core) : core := exec (fuel_of c) (JCleanup o) c.
Definition drop_owner (o : nat) (c : core) : core := exec (fuel_of c) (JDrop o) c.
Definition dispose (k : key) (c : core) : core := exec (fuel_of c) (JRemove k) c.

(** [Owner::pause] / [resume]: the flag is set on the subtree reachable through the children
    lists (dead Weak children are skipped, and not descended into) *)
Fixpoint set_paused (fuel : nat) (b : bool) (o : nat) (c : core) : core :=
  match fuel with
  | O => set_err c
  | S f =>
      match nth_error (owners c) o with
      | Some ow =>
          if o_alive ow then
            fold_left (fun c ch => set_paused f b ch c) (o_children ow)
                      (upd_owner o (fun ow => mkOwner (o_parent ow) (o_children ow) (o_nodes ow)
                                                      (o_cleanups ow) (o_ctx ow) b (o_alive ow)) c)
          else c
      | None => c
      end
  end.
Definition paused (c : core) (o : nat) : bool :=
  match nth_error (owners c) o with Some ow => o_paused ow | None => false end.

(** * Part 2: programs *)
Inductive stmt :=
| SNewSig | SNewStored
| SNewItem (kind : nat)        (* raw ArenaItem::<T, S>::new_with_storage(v), [kind] naming one of the
                                  harness' (T, S) pairs: inserted and registered with the current
                                  owner whatever T and S are *)
| SOnCleanup
| SProvide (ty : nat) (v : Z) | SUse (ty : nat)
| STake (ty : nat)             (* take_context::<T>(): the value of the nearest binding, which is removed *)
| SUpdate (ty : nat) (v : Z)   (* update_context::<T>(|c| replace(c, v)): the old value; the nearest binding becomes v *)
| SChild (b : list stmt)       (* let o = Owner::new(); o.with(|| b) — the handle is retained *)
| SEffect (b : list stmt)      (* Effect::new(move |_| { trigger.track(); b }) *)
| SMemo (b : list stmt)        (* Memo::new(move |_| { trigger.track(); b; 0 }) — runs when read *)
| SRender (b : list stmt)      (* RenderEffect::new: runs b at once under its own owner, re-runs
                                  from its task; not an arena item: lives as long as its handle *)
| SImm (b : list stmt).        (* ImmediateEffect::new: runs b at once and on every notification,
                                  synchronously; owner held by the effect, i.e. by its handle *)

Fixpoint size_stmt (s : stmt) : nat :=
  match s with
  | SChild b | SEffect b | SMemo b | SRender b | SImm b =>
      S ((fix go (l : list stmt) : nat := match l with [] => 0 | x :: r => size_stmt x + go r end) b)
  | _ => 1
  end.
Definition size_body (b : list stmt) : nat := fold_right (fun s n => size_stmt s + n) 0 b.

Record eff := mkEff {
  e_owner : nat; e_key : key; e_body : list stmt;
  e_render : bool;   (* a RenderEffect: no arena entry, the handle holds the Sender *)
  e_held : bool;     (* RenderEffect: the harness still holds the handle; Effect: not stopped *)
  e_set : bool;      (* channel flag *)
  e_dirty : bool;    (* EffectInner.dirty *)
  e_first : bool;    (* first_run; the effect subscribes to its trigger when it runs *)
  e_woken : bool; e_done : bool
}.
Record memo := mkMemo {
  m_owner : nat; m_key : key; m_body : list stmt;
  m_dirty : bool; m_sub : bool
}.
(** who holds the strong reference to an owner *)
Inductive holder := HUser (held : bool) | HEffect (e : nat) | HMemo (m : nat) | HImm (i : nat) | HRender.

Record imm := mkImm { i_owner : nat; i_body : list stmt; i_held : bool }.

Record bstate := mkB {
  b_core : core;
  effs : list eff;
  memos : list memo;
  handles : list key;                       (* retained signal / stored-value handles *)
  holders : list (holder * list stmt);      (* per owner: holder and the scope's body *)
  allkeys : list key;                       (* every arena key handed out, in order *)
  imms : list imm
}.

Definition set_core (s : bstate) (c : core) : bstate :=
  mkB c (effs s) (memos s) (handles s) (holders s) (allkeys s) (imms s).
Definition blog (s : bstate) (l : list lent) : bstate := set_core s (add_log (b_core s) l).

Fixpoint exec_stmt (cur : nat) (st : stmt) (s : bstate) : bstate :=
  match st with
  | SNewSig | SNewStored | SNewItem _ =>
      let '(k, c) := alloc cur (IVal (length (handles s))) (b_core s) in
      mkB c (effs s) (memos s) (handles s ++ [k]) (holders s) (allkeys s ++ [k]) (imms s)
  | SOnCleanup => set_core s (reg_cleanup cur (b_core s))
  | SProvide ty v => set_core s (provide cur ty v (b_core s))
  | SUse ty => blog s [LUse ty (use_ctx (b_core s) cur ty)]
  | STake ty => blog (set_core s (take_ctx cur ty (b_core s))) [LUse ty (use_ctx (b_core s) cur ty)]
  | SUpdate ty v => blog (set_core s (update_ctx cur ty v (b_core s))) [LUse ty (use_ctx (b_core s) cur ty)]
  | SChild b =>
      let '(o, c) := new_owner (Some cur) (b_core s) in
      let s1 := mkB c (effs s) (memos s) (handles s) (holders s ++ [(HUser true, b)]) (allkeys s) (imms s) in
      (fix go (l : list stmt) (s : bstate) : bstate :=
         match l with [] => s | x :: r => go r (exec_stmt o x s) end) b s1
  | SEffect b =>
      let e := length (effs s) in
      let '(o, c) := new_owner (Some cur) (b_core s) in
      let '(k, c) := alloc cur (IEffect e) c in
      mkB c (effs s ++ [mkEff o k b false true true true true true false]) (memos s) (handles s)
          (holders s ++ [(HEffect e, b)]) (allkeys s ++ [k]) (imms s)
  | SMemo b =>
      let m := length (memos s) in
      let '(o, c) := new_owner (Some cur) (b_core s) in
      let '(k, c) := alloc cur (IMemo m o) c in
      mkB c (effs s) (memos s ++ [mkMemo o k b true false]) (handles s)
          (holders s ++ [(HMemo m, b)]) (allkeys s ++ [k]) (imms s)
  | SRender b =>
      (* Owner::new(); first run at once under owner.with; then the task is spawned: effects
         created by the body have spawned their tasks before, so this one is numbered after them *)
      let '(o, c) := new_owner (Some cur) (b_core s) in
      let s1 := blog (mkB c (effs s) (memos s) (handles s) (holders s ++ [(HRender, b)]) (allkeys s) (imms s))
                     [LRendInit o] in
      let s2 := (fix go (l : list stmt) (s : bstate) : bstate :=
                   match l with [] => s | x :: r => go r (exec_stmt o x s) end) b s1 in
      mkB (b_core s2) (effs s2 ++ [mkEff o (0, 0) b true true false false false true false]) (memos s2)
          (handles s2) (holders s2) (allkeys s2) (imms s2)
  | SImm b =>
      (* EffectInner::new (Owner::new()), then update_if_necessary: Dirty, so it runs at once *)
      let i := length (imms s) in
      let '(o, c) := new_owner (Some cur) (b_core s) in
      let s1 := mkB (cleanup o c) (effs s) (memos s) (handles s) (holders s ++ [(HImm i, b)]) (allkeys s)
                    (imms s ++ [mkImm o b true]) in
      (fix go (l : list stmt) (s : bstate) : bstate :=
         match l with [] => s | x :: r => go r (exec_stmt o x s) end) b (blog s1 [LImm i])
  end.
Definition exec_body (cur : nat) (b : list stmt) (s : bstate) : bstate :=
  fold_left (fun s x => exec_stmt cur x s) b s.

(** the root scope: [Owner::new()] with no current owner, body run under it *)
Definition start (b : list stmt) : bstate :=
  let '(o, c) := new_owner None core0 in
  exec_body o b (mkB c [] [] [] [(HUser true, b)] [] []).

Inductive op :=
| Rerun (o : nat) | Cleanup (o : nat) | DropOwner (o : nat)
| NotifyEffect (e : nat) | NotifyMemo (m : nat) | ReadMemo (m : nat)
| Poll (e : nat) | RunAll (picks : list nat)
| Alloc (o : nat) (n : nat) | AllocItems (o : nat) (n : nat) (kind : nat) | Dispose (h : nat)
| Pause (o : nat) | Resume (o : nat) | UseAt (o : nat) (ty : nat)
| DisposeMemo (m : nat) | DisposeEffect (e : nat)
| StopEffect (e : nat)         (* Effect::stop: the EffectInner is taken out of its arena entry (the
                                  Sender goes away), the entry itself stays until it is released *)
| NotifyImm (i : nat) | DropImm (i : nat).

(** the harness still holds the handle of user scope [o] *)
Definition user_body (s : bstate) (o : nat) : option (list stmt) :=
  match nth_error (holders s) o with
  | Some (HUser true, b) => if alive (b_core s) o then Some b else None
  | _ => None
  end.

(** the effect's Sender still exists: its arena entry (Effect) or its handle (RenderEffect) *)
Definition eff_alive (s : bstate) (e : eff) : bool :=
  if e_render e then e_held e else e_held e && contains (b_core s) (e_key e).
Definition eff_ready (s : bstate) (e : eff) : bool :=
  negb (e_done e) && (e_woken e || negb (eff_alive s e)).
Definition ready (s : bstate) : list nat := idx_from (eff_ready s) 0 (effs s).

Definition set_eff (s : bstate) (i : nat) (f : eff -> eff) : bstate :=
  mkB (b_core s) (upd i f (effs s)) (memos s) (handles s) (holders s) (allkeys s) (imms s).
Definition set_memo (s : bstate) (i : nat) (f : memo -> memo) : bstate :=
  mkB (b_core s) (effs s) (upd i f (memos s)) (handles s) (holders s) (allkeys s) (imms s).

(** one poll of the task spawned by [Effect::new]:
      while rx.next().await.is_some() {
          if !owner.paused() && (subscriber.update_if_necessary() || first_run) {
              first_run = false; clear_sources; owner.with_cleanup(|| fun.run(..)) } } *)
Definition poll (i : nat) (s : bstate) : bstate :=
  match nth_error (effs s) i with
  | None => s
  | Some e =>
      if negb (eff_ready s e) then s else
      if negb (eff_alive s e) then
        (* the Sender is gone: the stream ends, the task returns and drops the effect's Owner *)
        let s1 := set_eff s i (fun e => mkEff (e_owner e) (e_key e) (e_body e) (e_render e) (e_held e) (e_set e) (e_dirty e)
                                              (e_first e) false true) in
        set_core s1 (drop_owner (e_owner e) (b_core s1))
      else if negb (e_set e) then
        set_eff s i (fun e => mkEff (e_owner e) (e_key e) (e_body e) (e_render e) (e_held e) false (e_dirty e) (e_first e)
                                    false (e_done e))
      else if paused (b_core s) (e_owner e) then
        set_eff s i (fun e => mkEff (e_owner e) (e_key e) (e_body e) (e_render e) (e_held e) false (e_dirty e) (e_first e)
                                    false (e_done e))
      else if e_dirty e || e_first e then
        let s1 := set_eff s i (fun e => mkEff (e_owner e) (e_key e) (e_body e) (e_render e) (e_held e) false false false
                                              false (e_done e)) in
        let s2 := set_core s1 (cleanup (e_owner e) (b_core s1)) in
        exec_body (e_owner e) (e_body e) (blog s2 [LEff i])
      else
        set_eff s i (fun e => mkEff (e_owner e) (e_key e) (e_body e) (e_render e) (e_held e) false false (e_first e)
                                    false (e_done e))
  end.

Fixpoint run_all (fuel : nat) (picks : list nat) (s : bstate) : bstate :=
  match ready s with
  | [] => s
  | r =>
      match fuel with
      | O => set_core s (set_err (b_core s))
      | S f => run_all f (tl picks) (poll (nth (Nat.modulo (hd 0 picks) (length r)) r 0) s)
      end
  end.
(** every task runs at most once per call; tasks spawned meanwhile come from effect statements
    inside the bodies that ran *)
Definition run_fuel (s : bstate) : nat :=
  S (length (effs s) + fold_right (fun e n => size_body (e_body e) + n) 0 (effs s)).

Definition step (s : bstate) (x : op) : bstate :=
  match x with
  | Rerun o =>
      match user_body s o with
      | Some b => exec_body o b (set_core s (cleanup o (b_core s)))
      | None => s
      end
  | Cleanup o =>
      match user_body s o with
      | Some _ => set_core s (cleanup o (b_core s))
      | None => s
      end
  | DropOwner o =>
      match user_body s o with
      | Some b =>
          let s1 := mkB (b_core s) (effs s) (memos s) (handles s)
                        (upd o (fun _ => (HUser false, b)) (holders s)) (allkeys s) (imms s) in
          set_core s1 (drop_owner o (b_core s1))
      | None => s
      end
  | NotifyEffect i =>
      match nth_error (effs s) i with
      | Some e =>
          (* the trigger's subscriber set holds a Weak to the EffectInner, and only once the
             effect has run (and tracked the trigger) *)
          if negb (e_first e) && eff_alive s e
          then set_eff s i (fun e => mkEff (e_owner e) (e_key e) (e_body e) (e_render e) (e_held e) true true (e_first e)
                                           (negb (e_done e)) (e_done e))
          else s
      | None => s
      end
  | NotifyMemo i =>
      match nth_error (memos s) i with
      | Some m =>
          if m_sub m && contains (b_core s) (m_key m)
          then set_memo s i (fun m => mkMemo (m_owner m) (m_key m) (m_body m) true (m_sub m))
          else s
      | None => s
      end
  | ReadMemo i =>
      match nth_error (memos s) i with
      | Some m =>
          if contains (b_core s) (m_key m) then
            if m_dirty m then
              let s1 := set_memo s i (fun m => mkMemo (m_owner m) (m_key m) (m_body m) false true) in
              let s2 := set_core s1 (cleanup (m_owner m) (b_core s1)) in
              blog (exec_body (m_owner m) (m_body m) (blog s2 [LMemo i])) [LRead i true]
            else blog s [LRead i true]
          else blog s [LRead i false]
      | None => s
      end
  | Poll i => poll i s
  | RunAll picks => run_all (run_fuel s) picks s
  | Alloc o n =>
      match user_body s o with
      | Some _ => exec_body o (repeat SNewStored n) s
      | None => s
      end
  | AllocItems o n kind =>
      match user_body s o with
      | Some _ => exec_body o (repeat (SNewItem kind) n) s
      | None => s
      end
  | Dispose h =>
      match nth_error (handles s) h with
      | Some k => set_core s (dispose k (b_core s))
      | None => s
      end
  | Pause o =>
      match user_body s o with
      | Some _ => set_core s (set_paused (S (length (owners (b_core s)))) true o (b_core s))
      | None => s
      end
  | Resume o =>
      match user_body s o with
      | Some _ => set_core s (set_paused (S (length (owners (b_core s)))) false o (b_core s))
      | None => s
      end
  | UseAt o ty =>
      match user_body s o with
      | Some _ => blog s [LUse ty (use_ctx (b_core s) o ty)]
      | None => s
      end
  | DisposeMemo i =>
      match nth_error (memos s) i with
      | Some m => set_core s (dispose (m_key m) (b_core s))
      | None => s
      end
  | DisposeEffect i =>
      match nth_error (effs s) i with
      | Some e =>
          if e_render e
          then (* dropping the RenderEffect handle drops the Sender *)
               set_eff s i (fun e => mkEff (e_owner e) (e_key e) (e_body e) (e_render e) false (e_set e)
                                           (e_dirty e) (e_first e) (e_woken e) (e_done e))
          else set_core s (dispose (e_key e) (b_core s))
      | None => s
      end
  | StopEffect i =>
      match nth_error (effs s) i with
      | Some e =>
          if e_render e then s
          else set_eff s i (fun e => mkEff (e_owner e) (e_key e) (e_body e) (e_render e) false (e_set e)
                                           (e_dirty e) (e_first e) (e_woken e) (e_done e))
      | None => s
      end
  | NotifyImm i =>
      match nth_error (imms s) i with
      | Some m =>
          (* mark_dirty -> update_if_necessary: runs now, unless its owner is paused *)
          if i_held m && negb (paused (b_core s) (i_owner m))
          then exec_body (i_owner m) (i_body m)
                 (blog (set_core s (cleanup (i_owner m) (b_core s))) [LImm i])
          else s
      | None => s
      end
  | DropImm i =>
      match nth_error (imms s) i with
      | Some m =>
          if i_held m
          then let s1 := mkB (b_core s) (effs s) (memos s) (handles s) (holders s) (allkeys s)
                             (upd i (fun m => mkImm (i_owner m) (i_body m) false) (imms s)) in
               set_core s1 (drop_owner (i_owner m) (b_core s1))
          else s
      | None => s
      end
  end.

(** end of a case: the harness drops every scope handle it still holds, then lets the tasks end *)
Definition drop_all (s : bstate) : bstate :=
  let s := fold_left (fun s o => step s (DropOwner o)) (seq 0 (length (holders s))) s in
  let s := fold_left (fun s e => match nth_error (effs s) e with
                                 | Some ef => if e_render ef then step s (DisposeEffect e) else s
                                 | None => s end) (seq 0 (length (effs s))) s in
  fold_left (fun s i => step s (DropImm i)) (seq 0 (length (imms s))) s.
