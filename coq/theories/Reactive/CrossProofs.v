(** C19 — proofs about the cross-thread write / memo / mid-notification protocols of
    Reactive/Cross.v. *)
From Coq Require Import List ZArith Bool Arith Lia.
From LV Require Import Reactive.Park Reactive.ParkProofs Reactive.Cross.
Import ListNotations.
Open Scope Z_scope.

(* ------------------------------------------------------------------------------------ *)
(** * (d) mid-notification read (F-C19-b, open: design limitation) *)

(** the effect's task is polled (with a notification pending) while the writer stands inside
    `mark_subscribers_check`, between two `mark_dirty` calls *)
Definition mid_poll (s : gst) (t : nat) : bool :=
  match t, g_marks s with
  | O, Some _ => g_epending s
  | _, _ => false
  end.

Fixpoint has_mid_poll (s : gst) (sched : list nat) : bool :=
  match sched with
  | [] => false
  | t :: r => mid_poll s t || has_mid_poll (gstep t s) r
  end.

(** witness: s.set(2) marks memo a, the effect runs on the other thread and reads the new
    a = 3 with the stale b = 2, then b is marked *)
Example no_glitch_across_threads_refuted :
  exists vals sched, existsb (fun p => negb (consistent p)) (g_log (grun (ginit vals) sched)) = true.
Proof. exists [2], [1; 1; 0; 1; 0]%nat. vm_compute. reflexivity. Qed.

Example glitch_witness_log :
  rev (g_log (grun (ginit [2]) [1; 1; 0; 1; 0]%nat)) = [(2, 2); (3, 2); (3, 4)].
Proof. vm_compute. reflexivity. Qed.

(** outside a notification each memo is dirty or holds the value computed from the current
    s; inside one, every subscriber already passed by the mark loop is dirty *)
Definition memo_ok (s : gst) (x : mid) : Prop := g_dirty s x = false -> g_val s x = fof x (g_sv s).
Definition subs_ok (l : list mid) : Prop := l = [MA; MB] \/ l = [MB; MA].

Record GInv (s : gst) : Prop := mkGInv {
  G_log : forallb consistent (g_log s) = true;
  G_subs : subs_ok (g_subs s);
  G_state : match g_marks s with
            | None => memo_ok s MA /\ memo_ok s MB
            | Some l => forall x, ~ In x l -> g_dirty s x = true
            end;
}.

Lemma GInv_init vals : GInv (ginit vals).
Proof. constructor; cbn; auto. - left; auto. - split; intros _; reflexivity. Qed.

Lemma subs_ok_filter l x : subs_ok l -> subs_ok (filter (fun y => negb (mid_eqb x y)) l ++ [x]).
Proof. intros [-> | ->]; destruct x; cbn; unfold subs_ok; auto. Qed.

Lemma subs_ok_in l x : subs_ok l -> In x l.
Proof. intros [-> | ->]; destruct x; cbn; auto. Qed.

(** pulling a memo outside a notification *)
Lemma g_update_idle s x o :
  GInv s -> g_marks s = None ->
  let s' := snd (g_update s x o) in
  GInv s' /\ g_marks s' = None /\ g_sv s' = g_sv s /\ g_dirty s' x = false
  /\ g_log s' = g_log s /\ g_vals s' = g_vals s
  /\ (forall y, g_dirty s y = false -> g_dirty s' y = false).
Proof.
  intros [H1 H2 H3] Hm. rewrite Hm in H3. destruct H3 as [Ha Hb].
  unfold g_update. destruct (g_dirty s x) eqn:Hd; cbn.
  - destruct x; cbn.
    + split; [|repeat split; auto].
      * constructor; cbn; auto.
        -- apply (subs_ok_filter _ MA); auto.
        -- rewrite Hm. split; unfold memo_ok; cbn; auto.
      * intros y Hy. destruct y; cbn in *; auto.
    + split; [|repeat split; auto].
      * constructor; cbn; auto.
        -- apply (subs_ok_filter _ MB); auto.
        -- rewrite Hm. split; unfold memo_ok; cbn; auto.
      * intros y Hy. destruct y; cbn in *; auto.
  - split; [|repeat split; auto].
    constructor; auto. rewrite Hm; auto.
Qed.

Lemma GInv_set_ed s ed ep : GInv s -> GInv (g_set_ed s ed ep).
Proof. intros [H1 H2 H3]; constructor; cbn; auto. Qed.

Lemma GInv_run_effect s : GInv s -> g_marks s = None -> GInv (g_run_effect s) /\ g_marks (g_run_effect s) = None.
Proof.
  intros HI Hm. unfold g_run_effect.
  pose proof (g_update_idle s MA true HI Hm) as A. cbn zeta in A.
  destruct (g_update s MA true) as [ca s1]. cbn [snd] in A.
  destruct A as (I1 & M1 & V1 & D1 & L1 & W1 & K1).
  pose proof (g_update_idle s1 MB true I1 M1) as B. cbn zeta in B.
  destruct (g_update s1 MB true) as [cb s2]. cbn [snd] in B.
  destruct B as (I2 & M2 & V2 & D2 & L2 & W2 & K2).
  destruct I2 as [J1 J2 J3]. rewrite M2 in J3. destruct J3 as [Oa Ob].
  split; [|cbn; auto].
  constructor; cbn -[Z.mul Z.sub Z.add Z.eqb consistent]; auto.
  - rewrite J1, andb_true_r. unfold consistent. cbn [fst snd].
    assert (Da : g_adirty s2 = false) by (apply (K2 MA); exact D1).
    specialize (Oa Da). specialize (Ob D2). cbn in Oa, Ob. rewrite Oa, Ob.
    unfold FA, FB. apply Z.eqb_eq. lia.
  - rewrite M2. split; auto.
Qed.

Lemma GInv_rx s : GInv s -> g_marks s = None -> GInv (g_rx s).
Proof.
  intros HI Hm. unfold g_rx. destruct (g_epending s); auto.
  set (s0 := g_set_ed s (g_edirty s) false).
  assert (I0 : GInv s0) by (apply GInv_set_ed; auto).
  assert (M0 : g_marks s0 = None) by (cbn; auto).
  destruct (g_edirty s0) eqn:Hd.
  - apply GInv_run_effect; [apply GInv_set_ed; auto|cbn; auto].
  - pose proof (g_update_idle s0 MA false I0 M0) as A. cbn zeta in A.
    destruct (g_update s0 MA false) as [ca s1]. cbn [snd] in A.
    destruct A as (I1 & M1 & _).
    assert (X : exists cb s2, (if ca then (false, s1) else g_update s1 MB false) = (cb, s2)
                              /\ GInv s2 /\ g_marks s2 = None).
    { destruct ca.
      - exists false, s1; auto.
      - pose proof (g_update_idle s1 MB false I1 M1) as B. cbn zeta in B.
        destruct (g_update s1 MB false) as [cb s2]. cbn [snd] in B.
        destruct B as (I2 & M2 & _). exists cb, s2; auto. }
    destruct X as (cb & s2 & E & I2 & M2). rewrite E.
    destruct (ca || cb || g_edirty s2).
    + apply GInv_run_effect; [apply GInv_set_ed; auto|cbn; auto].
    + apply GInv_set_ed; auto.
Qed.

Lemma GInv_wr s : GInv s -> GInv (g_wr s).
Proof.
  intros [H1 H2 H3]. unfold g_wr. destruct (g_marks s) as [l|] eqn:Hm.
  - destruct l as [|x l].
    + unfold g_set_marks. constructor; cbn; auto.
      pose proof (H3 MA (fun f => f)) as A. pose proof (H3 MB (fun f => f)) as B0.
      cbn in A, B0. split; unfold memo_ok; cbn; intros D; congruence.
    + assert (Dx : g_dirty (g_mark s x) x = true) by (destruct x; reflexivity).
      assert (Dy : forall y, g_dirty s y = true -> g_dirty (g_mark s x) y = true)
        by (intros y Hy; destruct x, y; cbn in *; auto).
      assert (L : g_log (g_mark s x) = g_log s) by (destruct x; reflexivity).
      assert (S : g_subs (g_mark s x) = g_subs s) by (destruct x; reflexivity).
      assert (All : forall y, ~ In y l -> g_dirty (g_mark s x) y = true).
      { intros y Hy. destruct (mid_eqb x y) eqn:E.
        - destruct x, y; try discriminate; auto.
        - apply Dy, H3. intros [->|Hin]; auto. destruct y; discriminate. }
      destruct l as [|x' l'].
      * unfold g_set_marks. constructor; cbn; rewrite ?L, ?S; auto.
        pose proof (All MA (fun f => f)) as A. pose proof (All MB (fun f => f)) as B0.
        split; unfold memo_ok; cbn; intros D.
        -- change (g_adirty (g_mark s x)) with (g_dirty (g_mark s x) MA) in D. congruence.
        -- change (g_bdirty (g_mark s x)) with (g_dirty (g_mark s x) MB) in D. congruence.
      * unfold g_set_marks. constructor; cbn -[In]; rewrite ?L, ?S; auto.
  - destruct (g_vals s) as [|v rest]; [constructor; auto; rewrite Hm; auto|].
    cbn. destruct (g_subs s) as [|y l] eqn:Hs.
    + destruct H2; discriminate.
    + unfold g_set_marks. constructor; cbn -[In]; auto.
      intros x Hx. exfalso. apply Hx. apply subs_ok_in; auto.
Qed.

Lemma GInv_step s t : GInv s -> mid_poll s t = false -> GInv (gstep t s).
Proof.
  intros HI Hp. destruct t as [|[|t]]; cbn; auto.
  - unfold mid_poll in Hp. destruct (g_marks s) eqn:Hm.
    + unfold g_rx. rewrite Hp. auto.
    + apply GInv_rx; auto.
  - apply GInv_wr; auto.
Qed.

(** ** except for mid-notification polls, every effect run sees one consistent value of s *)
Theorem no_glitch_except_mid_notification :
  forall (vals : list Z) (sched : list nat),
    has_mid_poll (ginit vals) sched = false ->
    forallb consistent (g_log (grun (ginit vals) sched)) = true.
Proof.
  intros vals sched. generalize (GInv_init vals). generalize (ginit vals).
  induction sched as [|t r IH]; intros s HI Hp; cbn in *.
  - apply HI.
  - apply orb_false_iff in Hp as [P1 P2]. apply IH; auto. apply GInv_step; auto.
Qed.

(** hypotheses satisfiable: two writes, the effect's task polled only between them *)
Example no_glitch_except_nontrivial :
  has_mid_poll (ginit [2; 3]) [1; 1; 1; 0; 1; 1; 1; 0; 0]%nat = false
  /\ rev (g_log (grun (ginit [2; 3]) [1; 1; 1; 0; 1; 1; 1; 0; 0]%nat)) = [(2, 2); (3, 4); (4, 6)].
Proof. vm_compute. split; reflexivity. Qed.

(** and the refuting witness belongs to the excluded class *)
Example glitch_witness_is_mid_poll : has_mid_poll (ginit [2]) [1; 1; 0; 1; 0]%nat = true.
Proof. vm_compute. reflexivity. Qed.

(* ------------------------------------------------------------------------------------ *)
(** * (c) signal writes are linearizable: the final value is that of executing the writes
    sequentially in the order in which they took the value lock, and that order respects every
    thread's program order *)

Definition op_at (progs : list (list op)) (j i : nat) : op := nth i (nth j progs []) OPull.
Definition is_write (o : op) : bool := match o with OPull => false | _ => true end.

(** sequential execution of the writes listed newest-first *)
Fixpoint replay (progs : list (list op)) (l : list (nat * nat)) : Z :=
  match l with
  | [] => 1
  | (j, i) :: r => apply_op (op_at progs j i) (replay progs r)
  end.

(** indices < n of the writes of program p, newest first *)
Fixpoint widx (p : list op) (n : nat) : list nat :=
  match n with
  | O => []
  | S k => if is_write (nth k p OPull) then k :: widx p k else widx p k
  end.

Definition proj (j : nat) (l : list (nat * nat)) : list nat :=
  map snd (filter (fun q => fst q =? j)%nat l).
Arguments proj : simpl never.

(** number of operations of the thread whose write (if any) has been applied *)
Definition nw (x : thr) : nat :=
  (t_idx x + match t_ph x with TUnlocked | TMark => 1 | _ => 0 end)%nat.

Definition phase_ok (x : thr) : Prop :=
  match t_ph x with
  | TIdle => True
  | TUnlocked | TMark => exists o r, t_ops x = o :: r /\ is_write o = true
  | TNeeds | TComputed _ => exists r, t_ops x = OPull :: r
  end.

Record WInv (progs : list (list op)) (s : mst) : Prop := mkWInv {
  W_sv : m_sv s = replay progs (m_order s);
  W_thr : forall j x, nth_error (m_thr s) j = Some x ->
          exists p, nth_error progs j = Some p /\ t_ops x = skipn (t_idx x) p
                    /\ proj j (m_order s) = widx p (nw x) /\ phase_ok x
                    /\ (t_idx x <= length p)%nat;
}.

Lemma WInv_init progs : WInv progs (minit progs).
Proof.
  constructor; cbn; auto.
  intros j x H. rewrite nth_error_map in H.
  destruct (nth_error progs j) as [p|] eqn:Hp; [|discriminate].
  injection H as <-. exists p. cbn. repeat split; auto. lia.
Qed.

Lemma skipn_cons_nth {A} (p : list A) n o r d : skipn n p = o :: r -> nth n p d = o /\ skipn (S n) p = r.
Proof.
  revert n; induction p as [|h t IH]; intros [|n] H; cbn in *; try discriminate.
  - injection H as -> ->. auto.
  - apply IH; auto.
Qed.

Lemma skipn_some_le {A} (p : list A) n o r : skipn n p = o :: r -> (n < length p)%nat.
Proof.
  revert n; induction p as [|h t IH]; intros [|n] H; cbn in *; try discriminate; try lia.
  apply IH in H. lia.
Qed.

Lemma proj_cons_other j k i l : j <> k -> proj j ((k, i) :: l) = proj j l.
Proof. intros H. unfold proj. cbn. destruct (k =? j)%nat eqn:E; auto. apply Nat.eqb_eq in E. congruence. Qed.
Lemma proj_cons_same j i l : proj j ((j, i) :: l) = i :: proj j l.
Proof. unfold proj. cbn. rewrite Nat.eqb_refl. reflexivity. Qed.

(** a step of thread j that does not write: the order is unchanged, only thread j moves *)
Lemma WInv_move progs s j x x' sv' d v :
  WInv progs s -> nth_error (m_thr s) j = Some x ->
  sv' = m_sv s ->
  (forall p, nth_error progs j = Some p -> t_ops x = skipn (t_idx x) p ->
             (t_idx x <= length p)%nat ->
             t_ops x' = skipn (t_idx x') p /\ widx p (nw x') = widx p (nw x) /\ phase_ok x'
             /\ (t_idx x' <= length p)%nat) ->
  WInv progs (set_thr (mkM sv' d v (m_order s) (m_thr s)) j x').
Proof.
  intros [H1 H2] Hx -> Hmove. constructor; cbn; auto.
  intros k y Hy. destruct (nth_upd_cases _ _ _ _ _ _ Hx Hy) as [[-> ->]|[Hne Hy']].
  - destruct (H2 _ _ Hx) as (p & Hp & Ho & Hpr & Hph & Hle).
    destruct (Hmove p Hp Ho Hle) as (A & B & C & D). exists p. repeat split; auto. congruence.
  - apply H2; auto.
Qed.

Ltac fin :=
  repeat split; auto;
  try (unfold nw; cbn;
       match goal with H : t_ph _ = _ |- _ => rewrite ?H end;
       rewrite ?Nat.add_0_r, ?Nat.add_1_r; cbn;
       match goal with H : nth _ _ OPull = _ |- _ => rewrite ?H end; reflexivity);
  try (unfold phase_ok in *; cbn in *;
       match goal with H : t_ph _ = _ |- _ => rewrite ?H in * end; eauto);
  try (match goal with H : t_ops _ = _ :: _ |- _ => rewrite ?H end; cbn in *; congruence);
  try (cbn; lia).

Lemma WInv_thr_step progs s j x :
  WInv progs s -> nth_error (m_thr s) j = Some x -> WInv progs (thr_step s j x).
Proof.
  intros HI Hx. pose proof HI as [H1 H2].
  destruct (H2 _ _ Hx) as (p & Hp & Ho & Hpr & Hph & Hle).
  unfold thr_step. destruct (t_panic x); auto.
  destruct (t_ops x) as [|o r] eqn:Hops; auto.
  symmetry in Ho. pose proof (skipn_cons_nth p (t_idx x) o r OPull Ho) as [Hn Hs].
  pose proof (skipn_some_le p (t_idx x) o r Ho) as Hlt.
  destruct (t_ph x) eqn:Hph'.
  - destruct o as [w|d|].
    + (* OSet *)
      constructor; cbn.
      * unfold op_at. rewrite (nth_error_nth _ _ _ Hp), Hn. cbn. auto.
      * intros k y Hy. destruct (nth_upd_cases _ _ _ _ _ _ Hx Hy) as [[-> ->]|[Hne Hy']].
        -- exists p. cbn. rewrite proj_cons_same. unfold nw; cbn. rewrite ?Hops.
           repeat split; auto.
           ++ rewrite Nat.add_1_r. cbn. rewrite Hn. cbn. f_equal.
              rewrite Hpr. unfold nw. rewrite Hph'. rewrite Nat.add_0_r. reflexivity.
           ++ unfold phase_ok; cbn. eauto.
        -- destruct (H2 _ _ Hy') as (q & Hq & A & B & C & D). exists q.
           rewrite proj_cons_other by auto. repeat split; auto.
    + (* OAdd *)
      constructor; cbn.
      * unfold op_at. rewrite (nth_error_nth _ _ _ Hp), Hn. cbn. rewrite H1. reflexivity.
      * intros k y Hy. destruct (nth_upd_cases _ _ _ _ _ _ Hx Hy) as [[-> ->]|[Hne Hy']].
        -- exists p. cbn. rewrite proj_cons_same. unfold nw; cbn. rewrite ?Hops.
           repeat split; auto.
           ++ rewrite Nat.add_1_r. cbn. rewrite Hn. cbn. f_equal.
              rewrite Hpr. unfold nw. rewrite Hph'. rewrite Nat.add_0_r. reflexivity.
           ++ unfold phase_ok; cbn. eauto.
        -- destruct (H2 _ _ Hy') as (q & Hq & A & B & C & D). exists q.
           rewrite proj_cons_other by auto. repeat split; auto.
    + (* OPull *)
      destruct (m_dirty s).
      * eapply (WInv_move progs s j x); eauto.
        intros q Hq _ _. rewrite Hp in Hq. injection Hq as <-. cbn. fin.
      * destruct (m_val s).
        -- replace s with (mkM (m_sv s) (m_dirty s) (m_val s) (m_order s) (m_thr s)) at 1 by (destruct s; reflexivity).
           eapply (WInv_move progs s j x); eauto.
           intros q Hq _ _. rewrite Hp in Hq. injection Hq as <-. cbn. fin.
        -- replace s with (mkM (m_sv s) (m_dirty s) (m_val s) (m_order s) (m_thr s)) at 1 by (destruct s; reflexivity).
           eapply (WInv_move progs s j x); eauto.
           intros q Hq _ _. rewrite Hp in Hq. injection Hq as <-. cbn. fin.
  - (* TUnlocked -> TMark *)
    assert (Wo : is_write o = true).
    { unfold phase_ok in Hph. rewrite Hph' in Hph. destruct Hph as (o' & r' & E & Wr). congruence. }
    replace s with (mkM (m_sv s) (m_dirty s) (m_val s) (m_order s) (m_thr s)) at 1 by (destruct s; reflexivity).
    eapply (WInv_move progs s j x); eauto.
    intros q Hq _ _. rewrite Hp in Hq. injection Hq as <-. cbn. fin.
  - (* TMark: mark_dirty, operation done *)
    assert (Wo : is_write o = true).
    { unfold phase_ok in Hph. rewrite Hph' in Hph. destruct Hph as (o' & r' & E & Wr). congruence. }
    eapply (WInv_move progs s j x); eauto.
    intros q Hq _ _. rewrite Hp in Hq. injection Hq as <-. unfold op_done; cbn. fin.
  - (* TNeeds *)
    assert (Hpull : o = OPull).
    { unfold phase_ok in Hph. rewrite Hph' in Hph. destruct Hph as (r' & Hr'). congruence. }
    rewrite Hpull in *. clear Hpull.
    eapply (WInv_move progs s j x); eauto.
    intros q Hq _ _. rewrite Hp in Hq. injection Hq as <-. cbn. fin.
  - (* TComputed *)
    assert (Hpull : o = OPull).
    { unfold phase_ok in Hph. rewrite Hph' in Hph. destruct Hph as (r' & Hr'). congruence. }
    rewrite Hpull in *. clear Hpull.
    eapply (WInv_move progs s j x); eauto.
    intros q Hq _ _. rewrite Hp in Hq. injection Hq as <-. unfold op_done; cbn. fin.
Qed.

Lemma WInv_mrun progs sched : forall s, WInv progs s -> WInv progs (mrun s sched).
Proof.
  induction sched as [|t r IH]; intros s H; cbn; auto. apply IH.
  unfold mstep. destruct (nth_error (m_thr s) t) eqn:E; auto. apply WInv_thr_step; auto.
Qed.

(** all writes of program p, newest first *)
Definition all_writes (p : list op) : list nat := widx p (length p).

Lemma skipn_nil_length {A} (p : list A) n : skipn n p = [] -> (n <= length p)%nat -> n = length p.
Proof.
  revert n; induction p as [|h t IH]; intros [|n] H L; cbn in *; auto; try discriminate; try lia.
  f_equal. apply IH; auto. lia.
Qed.

Lemma mrun_length sched : forall s, length (m_thr (mrun s sched)) = length (m_thr s).
Proof.
  induction sched as [|t r IH]; intros s; cbn; auto.
  change (fold_left (fun s0 t0 => mstep t0 s0) r (mstep t s)) with (mrun (mstep t s) r).
  rewrite IH.
  unfold mstep. destruct (nth_error (m_thr s) t) as [x|] eqn:Hx; auto.
  unfold thr_step. destruct (t_panic x); auto. destruct (t_ops x); auto.
  destruct (t_ph x), o; try destruct (m_dirty s); try destruct (m_val s);
    cbn; rewrite ?upd_length; auto.
Qed.

(** for every schedule: the signal holds the result of executing, one after the other, the
    writes in the order [m_order] in which they took the lock; restricted to one thread that
    order is the thread's own program order; and once every thread has finished it contains
    every write of every thread: the final value is that of a sequential order of all writes *)
Theorem linearizable_final_values :
  forall (progs : list (list op)) (sched : list nat),
    let s := mrun (minit progs) sched in
    m_sv s = replay progs (m_order s)
    /\ (forall j x, nth_error (m_thr s) j = Some x ->
          exists p, nth_error progs j = Some p /\ proj j (m_order s) = widx p (nw x))
    /\ (mterminal s ->
        forall j p, nth_error progs j = Some p -> proj j (m_order s) = all_writes p).
Proof.
  intros progs sched s.
  assert (HI : WInv progs s) by (apply WInv_mrun, WInv_init).
  assert (HL : length (m_thr s) = length progs).
  { subst s. rewrite mrun_length. cbn. apply map_length. }
  destruct HI as [H1 H2]. split; [auto|]. split.
  - intros j x Hx. destruct (H2 _ _ Hx) as (p & Hp & _ & Hpr & _). eauto.
  - intros T j p Hp.
    assert (Hj : (j < length (m_thr s))%nat).
    { rewrite HL. apply nth_error_Some. congruence. }
    destruct (nth_error (m_thr s) j) as [x|] eqn:Hx; [|apply nth_error_None in Hx; lia].
    destruct (H2 _ _ Hx) as (q & Hq & Ho & Hpr & Hph & Hle). rewrite Hp in Hq. injection Hq as <-.
    pose proof (T x (nth_error_In _ _ Hx)) as F. unfold thr_finished in F.
    apply andb_true_iff in F as [_ F]. destruct (t_ops x) eqn:Hops; [|discriminate].
    rewrite Hpr. unfold all_writes. f_equal.
    assert (Hph0 : t_ph x = TIdle).
    { unfold phase_ok in Hph. destruct (t_ph x); auto.
      - destruct Hph as (o & r & E & _); congruence.
      - destruct Hph as (o & r & E & _); congruence.
      - destruct Hph as (r & E); congruence.
      - destruct Hph as (r & E); congruence. }
    unfold nw. rewrite Hph0, Nat.add_0_r. apply skipn_nil_length; auto.
Qed.

(** hypotheses satisfiable: two writers interleaved at every yield point *)
Example linearizable_nontrivial :
  let progs := [[OAdd 1; OSet 7]; [OAdd 5; OAdd 3]] in
  let s := mrun (minit progs) [0; 1; 0; 1; 1; 0; 1; 0; 0; 1; 1; 0]%nat in
  forallb thr_finished (m_thr s) = true /\ rev (m_order s) = [(0, 0); (1, 0); (1, 1); (0, 1)]%nat
  /\ m_sv s = 7.
Proof. vm_compute. repeat split; reflexivity. Qed.

(* ------------------------------------------------------------------------------------ *)
(** * memo pulls are not atomic across threads (F-C19-d, F-C19-e: open design limitations) *)

(** F-C19-d: the pull computes from s = 2, a concurrent write marks the memo dirty, the pull
    then stores its value and sets the state to Clean: the memo stays 20 although s = 3 *)
Example memo_final_value_refuted :
  exists progs sched,
    let s := mrun (minit progs) sched in
    forallb thr_finished (m_thr s) = true /\ final_pull s <> F (m_sv s).
Proof.
  exists [[OSet 2; OSet 3]; [OPull]], [0; 0; 0; 1; 1; 0; 0; 0; 1]%nat.
  vm_compute. split; [reflexivity|discriminate].
Qed.

(** F-C19-e: two concurrent pulls both find the memo dirty; the second takes the value the first
    one has just stored, leaving `None` in a Clean memo; the next read unwraps `None` *)
Example memo_pull_panic_refuted :
  exists progs sched, existsb t_panic (m_thr (mrun (minit progs) sched)) = true.
Proof.
  exists [[OSet 2]; [OPull; OPull]; [OPull]], [0; 0; 0; 1; 2; 1; 1; 2; 1]%nat.
  vm_compute. reflexivity.
Qed.

(** a pull that overlaps nothing: the same programs run one operation at a time are fine *)
Example memo_sequential_ok :
  let s := mrun (minit [[OSet 2; OSet 3]; [OPull]]) [0; 0; 0; 1; 1; 1; 0; 0; 0]%nat in
  final_pull s = F (m_sv s) /\ existsb t_panic (m_thr s) = false.
Proof. vm_compute. split; reflexivity. Qed.

(* ------------------------------------------------------------------------------------ *)
(** * (e) signal read vs concurrent write (F-C19-f, open) *)

Example signal_read_total_refuted : exists sched, r_r (rrun rinit sched) = RPanic.
Proof. exists [0; 1]%nat. reflexivity. Qed.

Lemma rstep_no_panic s t :
  r_r s <> RPanic -> (match t, r_w s, r_r s with 1%nat, W1, R0 => true | _, _, _ => false end) = false ->
  r_r (rstep t s) <> RPanic.
Proof.
  intros H C. destruct t as [|[|t]]; cbn; auto.
  - destruct (r_w s); auto.
  - destruct (r_r s) eqn:E; cbn; try congruence.
    destruct (r_w s); cbn; try discriminate.
Qed.

(** except when the read falls inside the write's critical section, the reader never panics
    (and it then returns the value before or after the write) *)
Theorem signal_read_total_except_contended :
  forall sched, read_under_write rinit sched = false ->
    r_r (rrun rinit sched) <> RPanic
    /\ forall v, r_r (rrun rinit sched) = RDone v -> v = 1 \/ v = 2.
Proof.
  intros sched.
  assert (G : forall s, r_r s <> RPanic -> (r_sv s = 1 \/ r_sv s = 2) ->
              (forall v, r_r s = RDone v -> v = 1 \/ v = 2) ->
              read_under_write s sched = false ->
              r_r (rrun s sched) <> RPanic /\ forall v, r_r (rrun s sched) = RDone v -> v = 1 \/ v = 2).
  { induction sched as [|t r IH]; intros s H Hv Hd C; cbn in *; auto.
    apply orb_false_iff in C as [C1 C2]. apply IH; auto.
    - apply rstep_no_panic; auto.
    - destruct t as [|[|t]]; cbn; auto; destruct (r_w s); cbn; auto; destruct (r_r s); cbn; auto.
    - destruct t as [|[|t]]; cbn; auto.
      + destruct (r_w s); cbn; auto.
      + destruct (r_r s) eqn:E; cbn; auto.
        * destruct (r_w s); cbn; try discriminate; intros v [= <-]; auto.
        * rewrite E. auto.
        * rewrite E. auto. }
  apply G; cbn; auto; discriminate.
Qed.

Example signal_read_except_nontrivial :
  read_under_write rinit [0; 0; 1]%nat = false /\ r_r (rrun rinit [0; 0; 1]%nat) = RDone 2
  /\ read_under_write rinit [0; 1]%nat = true.
Proof. repeat split; reflexivity. Qed.

(* ------------------------------------------------------------------------------------ *)
(** * (f) read guards / synchronous reads vs the completion of a reload: BOUNDED sweeps
    (two threads, every schedule of at most 12 slots) *)
Fixpoint scheds2 (n : nat) : list (list nat) :=
  match n with
  | O => [[]]
  | S k => flat_map (fun l => [0%nat :: l; 1%nat :: l]) (scheds2 k)
  end.
Lemma In_scheds2 l : Forall (fun t => (t < 2)%nat) l -> In l (scheds2 (length l)).
Proof.
  induction 1 as [|t l Ht Hl IH]; cbn; auto.
  apply in_flat_map. exists l. split; auto.
  destruct t as [|[|t]]; cbn; auto. lia.
Qed.

(** once thread 1 is done and the executor has nothing left to do, the store has happened:
    the reader saw the old or the new value and the final value is the new one *)
Definition h_quiet (s : hst) : bool := (h_p1 s =? 2)%nat && (h_p0 s =? 2)%nat && negb (h_dwoken s).
Definition h_good (s : hst) : bool := (h_val s =? 2) && ((h_got s =? 1) || (h_got s =? 2)) && negb (h_wwait s).
Definition d_quiet (s : dst) : bool := (d_p0 s =? 2)%nat && negb (d_p1 s =? 0)%nat.
Definition d_good (s : dst) : bool := (d_p1 s =? 2)%nat && (d_val s =? 2) && ((d_got s =? 1) || (d_got s =? 2)).

Lemma guard_sweep :
  forallb (fun n => forallb (fun l => implb (h_quiet (hrun hinit l)) (h_good (hrun hinit l))
                                      && implb (d_quiet (drun dinit l)) (d_good (drun dinit l)))
                            (scheds2 n)) (seq 0 13) = true.
Proof. vm_compute. reflexivity. Qed.

Theorem guard_vs_reload_bounded :
  forall sched, (length sched <= 12)%nat -> Forall (fun t => (t < 2)%nat) sched ->
    (h_quiet (hrun hinit sched) = true -> h_good (hrun hinit sched) = true)
    /\ (d_quiet (drun dinit sched) = true -> d_good (drun dinit sched) = true).
Proof.
  intros sched Hlen Hall. pose proof guard_sweep as S. rewrite forallb_forall in S.
  assert (Hin : In (length sched) (seq 0 13)) by (apply in_seq; lia).
  specialize (S _ Hin). rewrite forallb_forall in S.
  specialize (S _ (In_scheds2 _ Hall)). apply andb_true_iff in S as [S0 S1].
  split; intros Q; [rewrite Q in S0|rewrite Q in S1]; cbn in *; auto.
Qed.

Example guard_vs_reload_nontrivial :
  h_wwait (hrun hinit [1; 0]%nat) = true /\ h_quiet (hrun hinit [1; 0; 0; 1; 0]%nat) = true
  /\ d_p1 (drun dinit [0; 1]%nat) = 1%nat /\ d_quiet (drun dinit [0; 1; 0]%nat) = true.
Proof. vm_compute. repeat split; reflexivity. Qed.

(* ------------------------------------------------------------------------------------ *)
(** * (g) await vs a user's write guard (F-C19-g, fixed) *)

Definition WOk (s : wst) : Prop :=
  (w_val s = 1 \/ w_val s = 7)
  /\ (w_held s = true <-> w_p0 s = 1%nat)
  /\ match w_a s with
     | UParked w => w = true
     | UBlocked => w_held s = true
     | UDone v => v = 1 \/ v = 7
     | U0 => True
     end.

Lemma WOk_step kind t s : WOk s -> WOk (wstep true kind t s).
Proof.
  intros (Hv & Hh & Ha). unfold WOk. destruct t as [|[|t]]; cbn; [| |repeat split; auto; apply Hh].
  - destruct (w_p0 s) as [|[|n]] eqn:Hp; destruct (w_a s) eqn:Ea; cbn; rewrite ?Hp, ?Ea;
      repeat split; intros;
      try solve [auto | discriminate | tauto | (right; reflexivity) | intuition congruence].
  - destruct (w_a s) as [|[|]| |v] eqn:Ea; destruct (w_held s) eqn:Eh; destruct kind; cbn;
      rewrite ?Ea, ?Eh; repeat split; intros;
      try solve [auto | discriminate | tauto | (right; reflexivity) | intuition congruence].
Qed.

Lemma WOk_run kind sched : forall s, WOk s -> WOk (wrun true kind s sched).
Proof. induction sched as [|t r IH]; intros s H; cbn; auto. apply IH, WOk_step, H. Qed.

(** with the fix: for every kind of future and every schedule, once nothing can move the
    awaiter has resumed with the value before or after the user's write *)
Theorem await_vs_write_guard :
  forall kind sched, let s := wrun true kind winit sched in
    w_terminal s -> exists v, w_a s = UDone v /\ (v = 1 \/ v = 7).
Proof.
  intros kind sched s [Hp Ht].
  assert (H : WOk s) by (apply WOk_run; repeat split; cbn; auto; discriminate).
  destruct H as (Hv & Hh & Ha). destruct (w_a s) as [|[|]| |v] eqn:E; try contradiction.
  - discriminate.
  - destruct Hh as [H _]. specialize (H Ha). congruence.
  - eauto.
Qed.

(** before the fix: the awaiter polls while the guard is held and is never woken *)
Example await_vs_write_guard_prefix_refuted :
  exists sched, let s := wrun false 1 winit sched in
    w_terminal s /\ w_a s = UParked false.
Proof. exists [0; 1; 0]%nat. cbn. repeat split; auto. Qed.

Example await_vs_write_guard_nontrivial :
  w_terminal (wrun true 1 winit [0; 1; 1; 0; 1]%nat) /\ w_a (wrun true 1 winit [0; 1; 1; 0; 1]%nat) = UDone 7
  /\ w_polls (wrun true 1 winit [0; 1; 1; 0; 1]%nat) = 3%nat.
Proof. cbn. repeat split; auto. Qed.
