(** Pull phase, part 1: static well-formedness of programs, the primitive steps of a read
    ([track], [clear_sources], [log_read], [begin_run]) and what they do to the structure of
    the graph, and stability of Clean memos under the marking that a recomputation triggers
    (marks only ever travel through memos that are already not Clean). *)
From Coq Require Import List ZArith Bool Arith Lia.
From LV Require Import Reactive.Graph Reactive.GraphLemmas Reactive.GraphInvariant
                       Reactive.GraphMarkProofs.
Import ListNotations.
Close Scope Z_scope.
Open Scope nat_scope.

Section P.
Variable p : prog.
Notation memob := (memob p).
Notation effb := (effb p).
Notation sigb := (sigb p).
Notation WF := (WF p).
Notation MarkRel := (MarkRel p).

(* ---------------------------------------------------------------- programs: DAG by index *)
Fixpoint expr_ok (i : nat) (aw : bool) (e : expr) : Prop :=
  match e with
  | Const _ => True
  | Rd j | RdU j => j < i /\ effb j = false
  | Untr a => expr_ok i aw a
  | Add a b | Lt a b => expr_ok i aw a /\ expr_ok i aw b
  | Ite c a b => expr_ok i aw c /\ expr_ok i aw a /\ expr_ok i aw b
  | Wr t a => aw = true /\ sigb t = true /\ expr_ok i aw a
  end.

Definition decl_ok (i : nat) (d : decl) : Prop :=
  match d with
  | DSig _ _ => True
  | DMemo _ e => expr_ok i false e
  | DDer e => expr_ok i false e
  | DEff _ b h => expr_ok i true b /\ expr_ok i true h
  end.

Definition wf_prog : Prop := forall i, i < length p -> decl_ok i (decl_of p i).

(* ---------------------------------------------------------------- upward closure of not-Clean *)
Definition UpClosed (s : state) : Prop :=
  forall y x, memob y = true -> st (getn s y) <> Clean -> In x (subs (getn s y)) ->
  memob x = true -> st (getn s x) <> Clean.

Lemma UpClosed_MarkRel s s' :
  MarkRel s s' -> UpClosed s ->
  (forall y, memob y = true -> st (getn s y) = Clean -> st (getn s' y) = Clean) ->
  UpClosed s'.
Proof.
  intros M U Hst y x Hy Hn Hx Hmx Hc.
  destruct (mr_core p _ _ M y) as (_&Hs&_). rewrite Hs in Hx.
  destruct (nstate_eqb (st (getn s y)) Clean) eqn:E.
  - apply nstate_eqb_eq in E. apply Hn. apply Hst; auto.
  - apply nstate_eqb_neq in E. apply (U y x Hy E Hx Hmx).
    apply st_le_clean. rewrite <- Hc. apply M.
Qed.

(* marking from a root that is not Clean never reaches a Clean memo *)
Definition StableM (s s' : state) : Prop :=
  forall x, memob x = true -> st (getn s x) = Clean -> st (getn s' x) = Clean.

Lemma StableM_refl s : StableM s s. Proof. intros x; auto. Qed.
Lemma StableM_trans a b c : StableM a b -> StableM b c -> StableM a c.
Proof. intros H1 H2 x Hm Hc. apply H2; auto. Qed.

Lemma fold_stable (g : nat -> state -> state) (l : list nat) : forall s,
  WF s -> UpClosed s ->
  (forall x a, In x l -> WF a -> UpClosed a -> MarkRel s a -> StableM s a ->
        (memob x = true -> st (getn a x) <> Clean) ->
        MarkRel a (g x a) /\ UpClosed (g x a) /\ StableM a (g x a)) ->
  (forall x, In x l -> memob x = true -> st (getn s x) <> Clean) ->
  let s' := fold_left (fun a k => g k a) l s in
  MarkRel s s' /\ UpClosed s' /\ StableM s s'.
Proof.
  induction l as [|x t IH]; intros s W U Hg Hroot; cbn.
  - split; [apply MarkRel_refl|]. split; auto using StableM_refl.
  - destruct (Hg x s) as (M1 & U1 & S1); auto using MarkRel_refl, StableM_refl.
    { left; auto. } { apply Hroot; left; auto. }
    assert (W1 : WF (g x s)) by (eapply MarkRel_WF; eauto).
    destruct (IH (g x s) W1 U1) as (M2 & U2 & S2).
    + intros y a Hy Wa Ua Ma Sa Hny. apply Hg; auto.
      * right; auto.
      * eapply MarkRel_trans; eauto.
      * eapply StableM_trans; eauto.
    + intros y Hy Hm Hc. apply (Hroot y); auto. right; auto.
      apply st_le_clean. rewrite <- Hc. apply M1.
    + split; [eapply MarkRel_trans; eauto|]. split; auto. eapply StableM_trans; eauto.
Qed.

Lemma mark_check_stable f : forall i s,
  WF s -> UpClosed s -> (memob i = true -> st (getn s i) <> Clean) -> length p - i < f ->
  let s' := mark_check p f i s in
  MarkRel s s' /\ UpClosed s' /\ StableM s s'.
Proof.
  induction f as [|f IH]; intros i s W U Hroot Hf; [lia|].
  assert (MR : MarkRel s (mark_check p (S f) i s)).
  { destruct (mark_check_spec p (S f) i (fun _ _ => False) s s W (MarkRel_refl p s)) as (M&_); auto.
    intros y k _ _ H0 Hn; congruence. }
  cbn [mark_check] in *. destruct (decl_of p i) eqn:Hd.
  - split; auto. split; auto using StableM_refl.
  - assert (Hm : memob i = true) by (unfold GraphInvariant.memob; rewrite Hd; auto).
    assert (Hi : i < nlen s) by (eapply memob_range; eauto).
    set (s1 := if nstate_eqb (st (getn s i)) Dirty then s else updn i (fun n => set_st n Check) s) in *.
    assert (M1 : MarkRel s s1).
    { unfold s1. destruct (nstate_eqb _ Dirty) eqn:Ed; [apply MarkRel_refl|].
      apply nstate_eqb_neq in Ed.
      apply updn_MarkRel; cbv zeta; intros; try congruence; nsimpl;
        try (unfold same_core; nsimpl; intuition); unfold bool_le; auto.
      destruct (st (getn s i)); try exact I. congruence. }
    assert (S1 : StableM s s1).
    { intros x Hx Hc. unfold s1. destruct (nstate_eqb _ _); auto.
      rewrite getn_updn_other; auto. intros ->. apply Hroot; auto. }
    assert (U1 : UpClosed s1) by (eapply UpClosed_MarkRel; eauto).
    assert (W1 : WF s1) by (eapply MarkRel_WF; eauto).
    assert (Hn1 : st (getn s1 i) <> Clean).
    { intros Hc. apply (Hroot Hm). apply st_le_clean. rewrite <- Hc. apply M1. }
    destruct (fold_stable (fun k a => mark_check p f k a) (subs (getn s1 i)) s1 W1 U1) as (M2 & U2 & S2).
    + intros x a Hx Wa Ua Ma Sa Hnx. apply IH; auto.
      assert (Hix : i < x) by (apply (wf_sub_gt p s1 i x W1 Hx)).
      assert (Hil : i < length p) by (rewrite <- (wf_len p s W); exact Hi). lia.
    + intros x Hx Hmx. apply (U1 i x); auto.
    + split; auto. split; auto. eapply StableM_trans; eauto.
  - split; auto. split; auto using StableM_refl.
  - assert (He : effb i = true) by (unfold GraphInvariant.effb; rewrite Hd; auto).
    assert (S1 : StableM s (eff_notify i s)).
    { intros x Hx Hc. rewrite eff_notify_other; auto. intros ->.
      unfold GraphInvariant.memob in Hx. rewrite Hd in Hx. discriminate. }
    split; auto. split; auto. eapply UpClosed_MarkRel; eauto.
Qed.

Lemma mark_dirty_stable i s :
  WF s -> UpClosed s -> (memob i = true -> st (getn s i) <> Clean) ->
  let s' := mark_dirty p i s in
  MarkRel s s' /\ UpClosed s' /\ StableM s s'.
Proof.
  intros W U Hroot.
  assert (MR : MarkRel s (mark_dirty p i s)).
  { destruct (mark_dirty_spec p i (fun _ _ => False) s s W (MarkRel_refl p s)) as (M&_); auto.
    intros y k _ _ H0 Hn; congruence. }
  unfold mark_dirty in *. destruct (decl_of p i) eqn:Hd.
  - split; auto. split; auto using StableM_refl.
  - assert (Hm : memob i = true) by (unfold GraphInvariant.memob; rewrite Hd; auto).
    assert (Hi : i < nlen s) by (eapply memob_range; eauto).
    set (s1 := updn i (fun n => set_st n Dirty) s) in *.
    assert (M1 : MarkRel s s1).
    { apply updn_MarkRel; cbv zeta; intros; try congruence; nsimpl;
        try (unfold same_core; nsimpl; intuition); unfold bool_le; auto.
      destruct (st (getn s i)); exact I. }
    assert (S1 : StableM s s1).
    { intros x Hx Hc. unfold s1. rewrite getn_updn_other; auto. intros ->. apply Hroot; auto. }
    assert (U1 : UpClosed s1) by (eapply UpClosed_MarkRel; eauto).
    assert (W1 : WF s1) by (eapply MarkRel_WF; eauto).
    assert (Hn1 : st (getn s1 i) <> Clean).
    { unfold s1. rewrite getn_updn_same; auto. nsimpl. discriminate. }
    destruct (fold_stable (fun k a => mark_check p (mfuel p) k a) (subs (getn s1 i)) s1 W1 U1) as (M2 & U2 & S2).
    + intros x a Hx Wa Ua Ma Sa Hnx. apply mark_check_stable; auto. unfold mfuel; lia.
    + intros x Hx Hmx. apply (U1 i x); auto.
    + split; auto. split; auto. eapply StableM_trans; eauto.
  - split; auto. split; auto using StableM_refl.
  - assert (He : effb i = true) by (unfold GraphInvariant.effb; rewrite Hd; auto).
    assert (S1 : StableM s (eff_mark_dirty i s)).
    { intros x Hx Hc. rewrite eff_mark_dirty_other; auto. intros ->.
      unfold GraphInvariant.memob in Hx. rewrite Hd in Hx. discriminate. }
    split; auto. split; auto. eapply UpClosed_MarkRel; eauto.
Qed.

End P.
