(** Model of reactive_graph's async derived values (C10).
    Anchors: reactive_graph/src/computed/async_derived/arc_async_derived.rs (the [spawn_derived!]
    task loop, [set_inner_value], [notify_subs], [Write] / [Notify] for ArcAsyncDerived),
    async_derived/inner.rs ([mark_dirty], [mark_check], [update_if_necessary]),
    async_derived/future_impls.rs ([AsyncDerivedFuture::poll], [park_if_still_loading]),
    channel.rs (flag + AtomicWaker), leptos_server/src/resource.rs (how a resource builds its
    source memo and uses [new_with_manual_dependencies]; [refetch]).

    One node over three input signals. [cfg] fixes the shape of its sources:
      0: the fetcher reads signals 0 and 1 directly;
      1: it reads two memos (signal 0 halved, signal 1);
      2: it reads memo m3 and then memo m2, where m3 depends on m2 (m2 = signal 0 * 10,
         m3 = m2 > 25);
      3: resource-like: one memo over (refetch counter, signal 0 halved), tracked by hand,
         the fetcher reads it untracked; optionally created with an initial value.
    [once] makes the node a leptos_server once-resource (one future, no sources; its task is the
    tail of the same loop); [rf_tracks] (shape 0) lets the fetcher track the refetch counter, as
    LocalResource does. Awaiters are polled by hand with a fresh waker each time; awaiters created
    under a Suspense boundary register it with the node ([susp_reg]), and the load that starts
    next holds one task of the boundary per registration until its future completes ([susp_held]).
    [hidden] / [own_only] / [drop_stale] select the repaired code (all [true]) or the code
    before "fix: async derived values check their sources without being the observer …"
    ([hidden = false]), before "fix: only an async derived value's own task consumes its
    dirty state" ([own_only = false]) and before "fix: an async derived value does not reuse its
    initial future once a source has changed" ([drop_stale = false]).
    Memos are assumed to behave to their specification (a memo's cached value is refreshed when it
    is pulled, and it marks its subscribers — except the current observer — when that changes
    the value): [seen] holds the cached values. The executor and the completion of fetch futures
    are explicit events. Polls are atomic (threads: C19).

    No proofs in this file. *)
From Coq Require Import List ZArith Bool Arith.
From LV Require Import Reactive.RxUtil.
Import ListNotations.
Open Scope Z_scope.

Record cfg := mkCfg {
  shape : nat;
  dep : nat;              (* 0: no dependent; 1: an effect reading the node; 2: … and a memo over signal 2 *)
  hidden : bool;
  own_only : bool;
  drop_stale : bool;
  rf_tracks : bool;       (* shape 0 only: the fetcher also tracks the refetch counter (LocalResource) *)
  once : bool;            (* a once-resource: one future, no sources; [shape] is 0 *)
  fetchf : Z * Z -> Z     (* the fetcher, applied to the inputs read when the future is created *)
}.

Record fut := mkFut { f_res : Z; f_done : bool; f_alive : bool }.
Inductive tstate := TIdle | TFetch (f : nat) (v : nat).
(** an awaiter polled by hand: every poll brings a fresh waker (generation [gen]); [wakes] counts
    the invocations of the latest one *)
Inductive astate := APending (gen : nat) (wakes : nat) | ADone (v : Z) | APanic.

Record node := mkN {
  sigs : list Z;
  refetch_n : Z;
  seen : list Z;
  st_dirty : bool;
  flag : bool;
  woken : bool;
  rx_reg : bool;
  polled : bool;
  version : nat;
  value : option Z;
  loading : bool;
  wakers : list (nat * nat);
  task : tstate;
  init_fut : option nat;
  first_run : bool;
  futs : list fut;
  manual : bool;
  cap : Z * Z;
  d_set : bool;
  d_dirty : bool;
  d_first : bool;
  d_woken : bool;
  d_reg : bool;
  d_sub : bool;
  d_seen : Z;
  dlog : list (option Z);
  awaiters : list astate;
  legit : list Z;
  notified : nat;
  aw_sus : list bool;
  susp_reg : nat;
  susp_held : nat
}.
Definition set_sigs (x : list Z) (s : node) : node :=
  mkN x (refetch_n s) (seen s) (st_dirty s) (flag s) (woken s) (rx_reg s) (polled s) (version s) (value s) (loading s) (wakers s) (task s) (init_fut s) (first_run s) (futs s) (manual s) (cap s) (d_set s) (d_dirty s) (d_first s) (d_woken s) (d_reg s) (d_sub s) (d_seen s) (dlog s) (awaiters s) (legit s) (notified s) (aw_sus s) (susp_reg s) (susp_held s).
Definition set_refetch_n (x : Z) (s : node) : node :=
  mkN (sigs s) x (seen s) (st_dirty s) (flag s) (woken s) (rx_reg s) (polled s) (version s) (value s) (loading s) (wakers s) (task s) (init_fut s) (first_run s) (futs s) (manual s) (cap s) (d_set s) (d_dirty s) (d_first s) (d_woken s) (d_reg s) (d_sub s) (d_seen s) (dlog s) (awaiters s) (legit s) (notified s) (aw_sus s) (susp_reg s) (susp_held s).
Definition set_seen (x : list Z) (s : node) : node :=
  mkN (sigs s) (refetch_n s) x (st_dirty s) (flag s) (woken s) (rx_reg s) (polled s) (version s) (value s) (loading s) (wakers s) (task s) (init_fut s) (first_run s) (futs s) (manual s) (cap s) (d_set s) (d_dirty s) (d_first s) (d_woken s) (d_reg s) (d_sub s) (d_seen s) (dlog s) (awaiters s) (legit s) (notified s) (aw_sus s) (susp_reg s) (susp_held s).
Definition set_st_dirty (x : bool) (s : node) : node :=
  mkN (sigs s) (refetch_n s) (seen s) x (flag s) (woken s) (rx_reg s) (polled s) (version s) (value s) (loading s) (wakers s) (task s) (init_fut s) (first_run s) (futs s) (manual s) (cap s) (d_set s) (d_dirty s) (d_first s) (d_woken s) (d_reg s) (d_sub s) (d_seen s) (dlog s) (awaiters s) (legit s) (notified s) (aw_sus s) (susp_reg s) (susp_held s).
Definition set_flag (x : bool) (s : node) : node :=
  mkN (sigs s) (refetch_n s) (seen s) (st_dirty s) x (woken s) (rx_reg s) (polled s) (version s) (value s) (loading s) (wakers s) (task s) (init_fut s) (first_run s) (futs s) (manual s) (cap s) (d_set s) (d_dirty s) (d_first s) (d_woken s) (d_reg s) (d_sub s) (d_seen s) (dlog s) (awaiters s) (legit s) (notified s) (aw_sus s) (susp_reg s) (susp_held s).
Definition set_woken (x : bool) (s : node) : node :=
  mkN (sigs s) (refetch_n s) (seen s) (st_dirty s) (flag s) x (rx_reg s) (polled s) (version s) (value s) (loading s) (wakers s) (task s) (init_fut s) (first_run s) (futs s) (manual s) (cap s) (d_set s) (d_dirty s) (d_first s) (d_woken s) (d_reg s) (d_sub s) (d_seen s) (dlog s) (awaiters s) (legit s) (notified s) (aw_sus s) (susp_reg s) (susp_held s).
Definition set_rx_reg (x : bool) (s : node) : node :=
  mkN (sigs s) (refetch_n s) (seen s) (st_dirty s) (flag s) (woken s) x (polled s) (version s) (value s) (loading s) (wakers s) (task s) (init_fut s) (first_run s) (futs s) (manual s) (cap s) (d_set s) (d_dirty s) (d_first s) (d_woken s) (d_reg s) (d_sub s) (d_seen s) (dlog s) (awaiters s) (legit s) (notified s) (aw_sus s) (susp_reg s) (susp_held s).
Definition set_polled (x : bool) (s : node) : node :=
  mkN (sigs s) (refetch_n s) (seen s) (st_dirty s) (flag s) (woken s) (rx_reg s) x (version s) (value s) (loading s) (wakers s) (task s) (init_fut s) (first_run s) (futs s) (manual s) (cap s) (d_set s) (d_dirty s) (d_first s) (d_woken s) (d_reg s) (d_sub s) (d_seen s) (dlog s) (awaiters s) (legit s) (notified s) (aw_sus s) (susp_reg s) (susp_held s).
Definition set_version (x : nat) (s : node) : node :=
  mkN (sigs s) (refetch_n s) (seen s) (st_dirty s) (flag s) (woken s) (rx_reg s) (polled s) x (value s) (loading s) (wakers s) (task s) (init_fut s) (first_run s) (futs s) (manual s) (cap s) (d_set s) (d_dirty s) (d_first s) (d_woken s) (d_reg s) (d_sub s) (d_seen s) (dlog s) (awaiters s) (legit s) (notified s) (aw_sus s) (susp_reg s) (susp_held s).
Definition set_value (x : option Z) (s : node) : node :=
  mkN (sigs s) (refetch_n s) (seen s) (st_dirty s) (flag s) (woken s) (rx_reg s) (polled s) (version s) x (loading s) (wakers s) (task s) (init_fut s) (first_run s) (futs s) (manual s) (cap s) (d_set s) (d_dirty s) (d_first s) (d_woken s) (d_reg s) (d_sub s) (d_seen s) (dlog s) (awaiters s) (legit s) (notified s) (aw_sus s) (susp_reg s) (susp_held s).
Definition set_loading (x : bool) (s : node) : node :=
  mkN (sigs s) (refetch_n s) (seen s) (st_dirty s) (flag s) (woken s) (rx_reg s) (polled s) (version s) (value s) x (wakers s) (task s) (init_fut s) (first_run s) (futs s) (manual s) (cap s) (d_set s) (d_dirty s) (d_first s) (d_woken s) (d_reg s) (d_sub s) (d_seen s) (dlog s) (awaiters s) (legit s) (notified s) (aw_sus s) (susp_reg s) (susp_held s).
Definition set_wakers (x : list (nat * nat)) (s : node) : node :=
  mkN (sigs s) (refetch_n s) (seen s) (st_dirty s) (flag s) (woken s) (rx_reg s) (polled s) (version s) (value s) (loading s) x (task s) (init_fut s) (first_run s) (futs s) (manual s) (cap s) (d_set s) (d_dirty s) (d_first s) (d_woken s) (d_reg s) (d_sub s) (d_seen s) (dlog s) (awaiters s) (legit s) (notified s) (aw_sus s) (susp_reg s) (susp_held s).
Definition set_task (x : tstate) (s : node) : node :=
  mkN (sigs s) (refetch_n s) (seen s) (st_dirty s) (flag s) (woken s) (rx_reg s) (polled s) (version s) (value s) (loading s) (wakers s) x (init_fut s) (first_run s) (futs s) (manual s) (cap s) (d_set s) (d_dirty s) (d_first s) (d_woken s) (d_reg s) (d_sub s) (d_seen s) (dlog s) (awaiters s) (legit s) (notified s) (aw_sus s) (susp_reg s) (susp_held s).
Definition set_init_fut (x : option nat) (s : node) : node :=
  mkN (sigs s) (refetch_n s) (seen s) (st_dirty s) (flag s) (woken s) (rx_reg s) (polled s) (version s) (value s) (loading s) (wakers s) (task s) x (first_run s) (futs s) (manual s) (cap s) (d_set s) (d_dirty s) (d_first s) (d_woken s) (d_reg s) (d_sub s) (d_seen s) (dlog s) (awaiters s) (legit s) (notified s) (aw_sus s) (susp_reg s) (susp_held s).
Definition set_first_run (x : bool) (s : node) : node :=
  mkN (sigs s) (refetch_n s) (seen s) (st_dirty s) (flag s) (woken s) (rx_reg s) (polled s) (version s) (value s) (loading s) (wakers s) (task s) (init_fut s) x (futs s) (manual s) (cap s) (d_set s) (d_dirty s) (d_first s) (d_woken s) (d_reg s) (d_sub s) (d_seen s) (dlog s) (awaiters s) (legit s) (notified s) (aw_sus s) (susp_reg s) (susp_held s).
Definition set_futs (x : list fut) (s : node) : node :=
  mkN (sigs s) (refetch_n s) (seen s) (st_dirty s) (flag s) (woken s) (rx_reg s) (polled s) (version s) (value s) (loading s) (wakers s) (task s) (init_fut s) (first_run s) x (manual s) (cap s) (d_set s) (d_dirty s) (d_first s) (d_woken s) (d_reg s) (d_sub s) (d_seen s) (dlog s) (awaiters s) (legit s) (notified s) (aw_sus s) (susp_reg s) (susp_held s).
Definition set_manual (x : bool) (s : node) : node :=
  mkN (sigs s) (refetch_n s) (seen s) (st_dirty s) (flag s) (woken s) (rx_reg s) (polled s) (version s) (value s) (loading s) (wakers s) (task s) (init_fut s) (first_run s) (futs s) x (cap s) (d_set s) (d_dirty s) (d_first s) (d_woken s) (d_reg s) (d_sub s) (d_seen s) (dlog s) (awaiters s) (legit s) (notified s) (aw_sus s) (susp_reg s) (susp_held s).
Definition set_cap (x : Z * Z) (s : node) : node :=
  mkN (sigs s) (refetch_n s) (seen s) (st_dirty s) (flag s) (woken s) (rx_reg s) (polled s) (version s) (value s) (loading s) (wakers s) (task s) (init_fut s) (first_run s) (futs s) (manual s) x (d_set s) (d_dirty s) (d_first s) (d_woken s) (d_reg s) (d_sub s) (d_seen s) (dlog s) (awaiters s) (legit s) (notified s) (aw_sus s) (susp_reg s) (susp_held s).
Definition set_d_set (x : bool) (s : node) : node :=
  mkN (sigs s) (refetch_n s) (seen s) (st_dirty s) (flag s) (woken s) (rx_reg s) (polled s) (version s) (value s) (loading s) (wakers s) (task s) (init_fut s) (first_run s) (futs s) (manual s) (cap s) x (d_dirty s) (d_first s) (d_woken s) (d_reg s) (d_sub s) (d_seen s) (dlog s) (awaiters s) (legit s) (notified s) (aw_sus s) (susp_reg s) (susp_held s).
Definition set_d_dirty (x : bool) (s : node) : node :=
  mkN (sigs s) (refetch_n s) (seen s) (st_dirty s) (flag s) (woken s) (rx_reg s) (polled s) (version s) (value s) (loading s) (wakers s) (task s) (init_fut s) (first_run s) (futs s) (manual s) (cap s) (d_set s) x (d_first s) (d_woken s) (d_reg s) (d_sub s) (d_seen s) (dlog s) (awaiters s) (legit s) (notified s) (aw_sus s) (susp_reg s) (susp_held s).
Definition set_d_first (x : bool) (s : node) : node :=
  mkN (sigs s) (refetch_n s) (seen s) (st_dirty s) (flag s) (woken s) (rx_reg s) (polled s) (version s) (value s) (loading s) (wakers s) (task s) (init_fut s) (first_run s) (futs s) (manual s) (cap s) (d_set s) (d_dirty s) x (d_woken s) (d_reg s) (d_sub s) (d_seen s) (dlog s) (awaiters s) (legit s) (notified s) (aw_sus s) (susp_reg s) (susp_held s).
Definition set_d_woken (x : bool) (s : node) : node :=
  mkN (sigs s) (refetch_n s) (seen s) (st_dirty s) (flag s) (woken s) (rx_reg s) (polled s) (version s) (value s) (loading s) (wakers s) (task s) (init_fut s) (first_run s) (futs s) (manual s) (cap s) (d_set s) (d_dirty s) (d_first s) x (d_reg s) (d_sub s) (d_seen s) (dlog s) (awaiters s) (legit s) (notified s) (aw_sus s) (susp_reg s) (susp_held s).
Definition set_d_reg (x : bool) (s : node) : node :=
  mkN (sigs s) (refetch_n s) (seen s) (st_dirty s) (flag s) (woken s) (rx_reg s) (polled s) (version s) (value s) (loading s) (wakers s) (task s) (init_fut s) (first_run s) (futs s) (manual s) (cap s) (d_set s) (d_dirty s) (d_first s) (d_woken s) x (d_sub s) (d_seen s) (dlog s) (awaiters s) (legit s) (notified s) (aw_sus s) (susp_reg s) (susp_held s).
Definition set_d_sub (x : bool) (s : node) : node :=
  mkN (sigs s) (refetch_n s) (seen s) (st_dirty s) (flag s) (woken s) (rx_reg s) (polled s) (version s) (value s) (loading s) (wakers s) (task s) (init_fut s) (first_run s) (futs s) (manual s) (cap s) (d_set s) (d_dirty s) (d_first s) (d_woken s) (d_reg s) x (d_seen s) (dlog s) (awaiters s) (legit s) (notified s) (aw_sus s) (susp_reg s) (susp_held s).
Definition set_d_seen (x : Z) (s : node) : node :=
  mkN (sigs s) (refetch_n s) (seen s) (st_dirty s) (flag s) (woken s) (rx_reg s) (polled s) (version s) (value s) (loading s) (wakers s) (task s) (init_fut s) (first_run s) (futs s) (manual s) (cap s) (d_set s) (d_dirty s) (d_first s) (d_woken s) (d_reg s) (d_sub s) x (dlog s) (awaiters s) (legit s) (notified s) (aw_sus s) (susp_reg s) (susp_held s).
Definition set_dlog (x : list (option Z)) (s : node) : node :=
  mkN (sigs s) (refetch_n s) (seen s) (st_dirty s) (flag s) (woken s) (rx_reg s) (polled s) (version s) (value s) (loading s) (wakers s) (task s) (init_fut s) (first_run s) (futs s) (manual s) (cap s) (d_set s) (d_dirty s) (d_first s) (d_woken s) (d_reg s) (d_sub s) (d_seen s) x (awaiters s) (legit s) (notified s) (aw_sus s) (susp_reg s) (susp_held s).
Definition set_awaiters (x : list astate) (s : node) : node :=
  mkN (sigs s) (refetch_n s) (seen s) (st_dirty s) (flag s) (woken s) (rx_reg s) (polled s) (version s) (value s) (loading s) (wakers s) (task s) (init_fut s) (first_run s) (futs s) (manual s) (cap s) (d_set s) (d_dirty s) (d_first s) (d_woken s) (d_reg s) (d_sub s) (d_seen s) (dlog s) x (legit s) (notified s) (aw_sus s) (susp_reg s) (susp_held s).
Definition set_legit (x : list Z) (s : node) : node :=
  mkN (sigs s) (refetch_n s) (seen s) (st_dirty s) (flag s) (woken s) (rx_reg s) (polled s) (version s) (value s) (loading s) (wakers s) (task s) (init_fut s) (first_run s) (futs s) (manual s) (cap s) (d_set s) (d_dirty s) (d_first s) (d_woken s) (d_reg s) (d_sub s) (d_seen s) (dlog s) (awaiters s) x (notified s) (aw_sus s) (susp_reg s) (susp_held s).
Definition set_notified (x : nat) (s : node) : node :=
  mkN (sigs s) (refetch_n s) (seen s) (st_dirty s) (flag s) (woken s) (rx_reg s) (polled s) (version s) (value s) (loading s) (wakers s) (task s) (init_fut s) (first_run s) (futs s) (manual s) (cap s) (d_set s) (d_dirty s) (d_first s) (d_woken s) (d_reg s) (d_sub s) (d_seen s) (dlog s) (awaiters s) (legit s) x (aw_sus s) (susp_reg s) (susp_held s).
Definition set_aw_sus (x : list bool) (s : node) : node :=
  mkN (sigs s) (refetch_n s) (seen s) (st_dirty s) (flag s) (woken s) (rx_reg s) (polled s) (version s) (value s) (loading s) (wakers s) (task s) (init_fut s) (first_run s) (futs s) (manual s) (cap s) (d_set s) (d_dirty s) (d_first s) (d_woken s) (d_reg s) (d_sub s) (d_seen s) (dlog s) (awaiters s) (legit s) (notified s) x (susp_reg s) (susp_held s).
Definition set_susp_reg (x : nat) (s : node) : node :=
  mkN (sigs s) (refetch_n s) (seen s) (st_dirty s) (flag s) (woken s) (rx_reg s) (polled s) (version s) (value s) (loading s) (wakers s) (task s) (init_fut s) (first_run s) (futs s) (manual s) (cap s) (d_set s) (d_dirty s) (d_first s) (d_woken s) (d_reg s) (d_sub s) (d_seen s) (dlog s) (awaiters s) (legit s) (notified s) (aw_sus s) x (susp_held s).
Definition set_susp_held (x : nat) (s : node) : node :=
  mkN (sigs s) (refetch_n s) (seen s) (st_dirty s) (flag s) (woken s) (rx_reg s) (polled s) (version s) (value s) (loading s) (wakers s) (task s) (init_fut s) (first_run s) (futs s) (manual s) (cap s) (d_set s) (d_dirty s) (d_first s) (d_woken s) (d_reg s) (d_sub s) (d_seen s) (dlog s) (awaiters s) (legit s) (notified s) (aw_sus s) (susp_reg s) x.

(** * sources *)
Definition sg (s : node) (i : nat) : Z := nth i (sigs s) 0.
Definition m2_of (s : node) : Z := sg s 0 * 10.
Definition m3_of (s : node) : Z := if m2_of s >? 25 then 1 else 0.

(** current values of the memo sources, in the order the fetcher reads them *)
Definition curvals (c : cfg) (s : node) : list Z :=
  if once c then [] else
  match shape c with
  | O => []
  | 1%nat => [sg s 0 / 2; sg s 1]
  | 2%nat => [m3_of s; m2_of s]
  | _ => [refetch_n s; sg s 0 / 2]
  end.
(** the other sources a source pulls before it recomputes itself *)
Definition pulls (c : cfg) (j : nat) : list nat :=
  if once c then [] else
  match shape c, j with
  | 2%nat, O => [1%nat]
  | _, _ => []
  end.
(** what the fetcher reads *)
Definition inputs (c : cfg) (s : node) : Z * Z :=
  if once c then (7, 7) else
  match shape c with
  | O => (sg s 0, sg s 1)
  | 1%nat => (sg s 0 / 2, sg s 1)
  | 2%nat => (m3_of s, m2_of s)
  | _ => (sg s 0 / 2, 0)
  end.

(** channel.rs: [Sender::notify] sets the flag and wakes the registered waker (taking it) *)
Definition n_notify (s : node) : node :=
  let s := set_flag true s in
  if rx_reg s then set_woken true (set_rx_reg false s) else s.
Definition d_notify (s : node) : node :=
  let s := set_d_set true s in
  if d_reg s then set_d_woken true (set_d_reg false s) else s.

(** inner.rs [mark_dirty] / [mark_check] (the state is never Notifying between atomic steps) *)
Definition n_mark_dirty (s : node) : node := n_notify (set_st_dirty true s).
Definition n_mark_check (s : node) : node := n_notify s.

(** pulling memo source [k]: its cache is refreshed; returns whether the value changed.
    A memo that changes marks the memos that read it dirty, and those pass a check mark on to
    their subscribers whoever the observer is: in shape 2, a change of m2 reaches the node as a
    [mark_check] through m3. *)
Definition refresh (c : cfg) (k : nat) (s : node) : bool * node :=
  let new := nth k (curvals c s) 0 in
  let ch := negb (new =? nth k (seen s) 0) in
  let s := set_seen (upd k (fun _ => new) (seen s)) s in
  (ch, match shape c, k with
       | 2%nat, 1%nat => if ch then n_mark_check s else s
       | _, _ => s
       end).

(** [source.update_if_necessary()] for source [j]; [marks]: the node is not the observer, so a
    memo that changed marks it dirty *)
Definition check_src (c : cfg) (marks : bool) (j : nat) (s : node) : bool * node :=
  let s1 := fold_left (fun s k => let '(ch, s') := refresh c k s in
                                  if ch && marks then n_mark_dirty s' else s')
                      (pulls c j) s in
  let '(ch, s2) := refresh c j s1 in
  (ch, if ch && marks then n_mark_dirty s2 else s2).

Fixpoint check_all (c : cfg) (marks : bool) (js : list nat) (s : node) : bool * node :=
  match js with
  | [] => (false, s)
  | j :: r => let '(ch, s') := check_src c marks j s in
              if ch then (true, s') else check_all c marks r s'
  end.

(** inner.rs [update_if_necessary]; [own]: called by the node's own task (observer = the node) *)
Definition n_update (c : cfg) (own : bool) (s : node) : bool * node :=
  let may_clear := own || negb (own_only c) in
  if st_dirty s then (true, if may_clear then set_st_dirty false s else s)
  else
    let '(any, s1) := check_all c (hidden c || negb own) (seq 0 (length (curvals c s))) s in
    if hidden c then
      let d := st_dirty s1 in
      (any || d, if d && may_clear then set_st_dirty false s1 else s1)
    else (any, s1).

(** the fetcher runs: every source is read in order (memo caches refreshed; no dirty marks: the
    node is the observer, or the read is untracked), a future over the inputs is created *)
Definition read_all (c : cfg) (s : node) : node :=
  fold_left (fun s j => snd (check_src c false j s)) (seq 0 (length (curvals c s))) s.

Definition create_fut (c : cfg) (s : node) : nat * node :=
  let s := read_all c s in
  let fid := length (futs s) in
  (fid, set_futs (futs s ++ [mkFut (fetchf c (inputs c s)) false true]) (set_cap (inputs c s) s)).

(** * notify_subs *)
Definition wake_awaiter (g : nat) (a : astate) : astate :=
  match a with
  | APending g' w => if (g' =? g)%nat then APending g' (S w) else a   (* a stale waker: nobody listens *)
  | x => x
  end.

Definition d_mark_dirty (s : node) : node := d_notify (set_d_dirty true s).

Definition notify_subs (s : node) : node :=
  let s := set_loading false s in
  let s := if d_sub s then d_mark_dirty s else s in
  let s := set_awaiters (fold_left (fun aws ag => upd (fst ag) (wake_awaiter (snd ag)) aws) (wakers s) (awaiters s)) s in
  set_notified (S (notified s)) (set_wakers [] s).

Definition store (r : Z) (s : node) : node :=
  notify_subs (set_legit (r :: legit s) (set_manual false (set_value (Some r) s))).

(** * the node's task *)
(** the loop of the real task is unbounded; it stops within four rounds (a completed fetch, the
    flag, possibly the completed initial future, the flag once more). Should the fuel ever run
    out, the task is left ready, so that nothing is lost — the theorems cover that branch, and
    the correspondence check would see the extra ready task. *)
Fixpoint n_loop (c : cfg) (fuel : nat) (s : node) : node :=
  match fuel with
  | O => set_woken true s
  | S f =>
      match task s with
      | TIdle =>
          (* rx.next(): register the waker, take the flag *)
          let s := set_rx_reg true s in
          if flag s then
            let s := set_flag false s in
            let '(u, s) := n_update c true s in
            if u || first_run s then
              (* the check reported a change: the initial future is stale, drop it *)
              let s := if u && drop_stale c then
                         match init_fut s with
                         | Some i => set_init_fut None
                                       (set_futs (upd i (fun fu => mkFut (f_res fu) (f_done fu) false) (futs s)) s)
                         | None => s
                         end
                       else s in
              let '(fid, s) := match init_fut s with
                               | Some i => (i, set_init_fut None s)
                               | None => create_fut c s
                               end in
              let v := S (version s) in
              (* the Suspense contexts registered since the last load each get a task handle,
                 held until this load's future has completed *)
              let s := set_susp_held (susp_reg s) (set_susp_reg 0%nat s) in
              n_loop c f (set_task (TFetch fid v)
                            (set_version v (set_loading true (set_first_run false s))))
            else n_loop c f s
          else s
      | TFetch fid v =>
          match nth_error (futs s) fid with
          | Some fu =>
              if f_done fu then
                let s := set_susp_held 0%nat s in
                let s := if (version s =? v)%nat then store (f_res fu) s else s in
                n_loop c f (set_task TIdle s)
              else s
          | None => s
          end
      end
  end.

Definition n_poll (c : cfg) (s : node) : node :=
  if woken s then
    let s := set_woken false s in
    (* prologue, once: a node already marked dirty throws the initial future away *)
    let s := if polled s then s
             else let s := set_polled true s in
                  if st_dirty s then
                    match init_fut s with
                    | Some i => set_init_fut None
                                  (set_futs (upd i (fun fu => mkFut (f_res fu) (f_done fu) false) (futs s)) s)
                    | None => s
                    end
                  else s in
    n_loop c 6 s
  else s.

(** * the dependent effect *)
Definition d_update (c : cfg) (s : node) : bool * node :=
  if d_dirty s then (true, set_d_dirty false s)
  else if negb (d_sub s) then (false, s)
  else
    (* sources in read order: the node, then (dep = 2) the memo over signal 2 *)
    let '(a, s) := n_update c false s in
    let '(a, s) :=
      if a then (true, s)
      else if (dep c =? 2)%nat then
        let new := sg s 2 / 2 in
        let ch := negb (new =? d_seen s) in
        let s := set_d_seen new s in
        (ch, if ch then d_mark_dirty s else s)
      else (false, s) in
    let d := d_dirty s in
    (a || d, set_d_dirty false s).

Definition d_body (c : cfg) (s : node) : node :=
  let s := set_dlog (dlog s ++ [value s]) (set_d_sub true s) in
  if (dep c =? 2)%nat then set_d_seen (sg s 2 / 2) s else s.

(** while rx.next().await.is_some() { if update_if_necessary() || first_run { run } } — a memo
    that changed during the check has marked the effect itself: the flag is set again and the
    loop goes round once more within the same poll *)
Fixpoint d_loop (c : cfg) (fuel : nat) (s : node) : node :=
  match fuel with
  | O => s
  | S f =>
      let s := set_d_reg true s in
      if d_set s then
        let s := set_d_set false s in
        let '(u, s) := d_update c s in
        d_loop c f (if u || d_first s then d_body c (set_d_first false s) else s)
      else s
  end.

Definition d_poll (c : cfg) (s : node) : node :=
  if d_woken s then d_loop c 4 (set_d_woken false s) else s.

(** * events *)
Inductive event :=
| WriteSig (i : nat) (v : Z)
| Refetch
| ManualSet (v : Z)
| Notify
| Complete (f : nat)
| PollTask (t : nat)
| RunAll (picks : list nat)
| NewAwaiter (sus : bool)      (* sus: created and polled under an owner providing a SuspenseContext *)
| PollAwaiter (a : nat).

Definition write_marks (c : cfg) (i : nat) (s : node) : node :=
  let s :=
    if once c then s else
    match shape c, i with
    | O, O | O, 1%nat => n_mark_dirty s
    | 1%nat, O | 1%nat, 1%nat => n_mark_check s
    | 2%nat, O => n_mark_check s
    | S (S (S _)), O => n_mark_check s
    | _, _ => s
    end in
  if (dep c =? 2)%nat && (i =? 2)%nat && d_sub s then d_notify s else s.

Definition complete (f : nat) (s : node) : node :=
  match nth_error (futs s) f with
  | Some fu =>
      if f_done fu || negb (f_alive fu) then s
      else
        let s := set_futs (upd f (fun fu => mkFut (f_res fu) true (f_alive fu)) (futs s)) s in
        match task s with
        | TFetch g _ => if (g =? f)%nat then set_woken true s else s
        | TIdle => s
        end
  | None => s
  end.

Definition poll_awaiter (c : cfg) (a : nat) (s : node) : node :=
  match nth_error (awaiters s) a with
  | Some (APending g w) =>
      (* AsyncDerivedFuture::poll registers the ambient SuspenseContext with the node on every
         poll; OnceResourceFuture keeps it in a list of its own *)
      let s := if nth a (aw_sus s) false && negb (once c) then set_susp_reg (S (susp_reg s)) s else s in
      if loading s then
        set_awaiters (upd a (fun _ => APending (S g) 0) (awaiters s)) (set_wakers (wakers s ++ [(a, S g)]) s)
      else set_awaiters (upd a (fun _ => match value s with Some v => ADone v | None => APanic end)
                             (awaiters s)) s
  | _ => s
  end.

Definition ready (c : cfg) (s : node) : list nat :=
  (if woken s then [0%nat] else []) ++ (if (0 <? dep c)%nat && d_woken s then [1%nat] else []).

Definition poll_task (c : cfg) (t : nat) (s : node) : node :=
  match t with
  | O => n_poll c s
  | 1%nat => if (0 <? dep c)%nat then d_poll c s else s
  | _ => s
  end.

Fixpoint run_all (c : cfg) (fuel : nat) (picks : list nat) (s : node) : node :=
  match fuel with
  | O => s
  | S f =>
      match ready c s with
      | [] => s
      | r => run_all c f (tl picks) (poll_task c (nth (Nat.modulo (hd 0%nat picks) (length r)) r 0%nat) s)
      end
  end.

Definition step (c : cfg) (s : node) (e : event) : node :=
  match e with
  | WriteSig i v => write_marks c i (set_sigs (upd i (fun _ => v) (sigs s)) s)
  | Refetch =>
      let s := set_refetch_n (refetch_n s + 1) s in
      if once c then s else
      match shape c with
      | S (S (S _)) => n_mark_check s
      | O => if rf_tracks c then n_mark_dirty s else s
      | _ => s
      end
  | ManualSet v => notify_subs (set_legit (v :: legit s) (set_manual true (set_value (Some v) s)))
  | Notify => notify_subs s
  | Complete f => complete f s
  | PollTask t => poll_task c t s
  | RunAll picks => run_all c 64 picks s
  | NewAwaiter sus => set_aw_sus (aw_sus s ++ [sus]) (set_awaiters (awaiters s ++ [APending 0 0]) s)
  | PollAwaiter a => poll_awaiter c a s
  end.

(** * construction ([spawn_derived!] up to spawning the task, then the dependent effect) *)
Definition init (c : cfg) (initial : option Z) : node :=
  let s0 := mkN [0; 0; 0] 0 [] false false true false false 0%nat None true [] TIdle None true []
                false (0, 0) false false true false false false 0 [] [] [] 0%nat [] 0%nat 0%nat in
  (* the fetcher is called once: sources computed and subscribed, first future created *)
  let '(fid, s1) := create_fut c (set_seen (curvals c s0) s0) in
  let s2 :=
    if once c then
      (* ArcOnceResource::new: the task awaits the one future, stores its value, turns loading
         off, wakes the wakers and notifies the trigger — the tail of the loop of a node whose
         only fetch is in flight and which has no sources *)
      set_task (TFetch fid 1%nat) (set_version 1%nat (set_first_run false s1))
    else
    match initial with
    | Some v =>
        (* is_ready: the value is known, the future just created is dropped unpolled *)
        set_legit [v] (set_manual true (set_value (Some v)
          (set_loading false (set_first_run false
            (set_futs (upd fid (fun fu => mkFut (f_res fu) (f_done fu) false) (futs s1)) s1)))))
    | None =>
        (* polled once (pending), so the task is notified to pick it up *)
        set_flag true (set_init_fut (Some fid) s1)
    end in
  (* effect_base: dirty, notified once, task spawned *)
  if (0 <? dep c)%nat then set_d_dirty true (set_d_woken true (set_d_set true s2)) else s2.

Definition run (c : cfg) (initial : option Z) (evs : list event) : node :=
  fold_left (step c) evs (init c initial).
