(** Basic facts about the state representation of [Graph]: node lookup / update, the
    SubscriberSet operations, and which fields each primitive step touches. *)
From Coq Require Import List ZArith Bool Arith Lia.
From LV Require Import Reactive.Graph.
Import ListNotations.
Close Scope Z_scope.
Open Scope nat_scope.

Ltac nsimpl :=
  cbn [sval subs st cache srcs rlog since edirty eflag ereg efirst epaused ealive edone emissed epoll set_epoll
       set_sval set_subs set_st set_cache set_srcs set_rlog set_since set_edirty set_eflag
       set_ereg set_efirst set_epaused set_ealive set_edone set_emissed
       nodes ready trace nocause halted err
       set_nodes set_ready set_trace set_nocause set_halted set_err emit] in *.

(* ------------------------------------------------------------------ lists *)
Lemma list_upd_length {A} (l : list A) i f : length (list_upd l i f) = length l.
Proof. revert i; induction l as [|x t IH]; intros [|i]; cbn; auto. Qed.

Lemma nth_list_upd_same {A} (l : list A) i f d :
  i < length l -> nth i (list_upd l i f) d = f (nth i l d).
Proof.
  revert i; induction l as [|x t IH]; intros [|i] H; cbn in *; try lia; auto.
  apply IH; lia.
Qed.

Lemma nth_list_upd_other {A} (l : list A) i j f d :
  i <> j -> nth j (list_upd l i f) d = nth j l d.
Proof.
  revert i j; induction l as [|x t IH]; intros [|i] [|j] H; cbn; auto; try congruence.
Qed.

Lemma list_upd_oob {A} (l : list A) i f : length l <= i -> list_upd l i f = l.
Proof.
  revert i; induction l as [|x t IH]; intros [|i] H; cbn in *; auto; try lia.
  f_equal; apply IH; lia.
Qed.

(* ------------------------------------------------------------------ nodes *)
Definition nlen (s : state) : nat := length (nodes s).

Lemma nlen_updn i f s : nlen (updn i f s) = nlen s.
Proof. unfold nlen, updn; cbn. apply list_upd_length. Qed.

Lemma getn_updn_same i f s : i < nlen s -> getn (updn i f s) i = f (getn s i).
Proof. intros H; unfold getn, updn; cbn. apply nth_list_upd_same; exact H. Qed.

Lemma getn_updn_other i j f s : i <> j -> getn (updn i f s) j = getn s j.
Proof. intros H; unfold getn, updn; cbn. apply nth_list_upd_other; exact H. Qed.

Lemma updn_oob i f s : nlen s <= i -> updn i f s = s.
Proof.
  intros H; unfold updn. rewrite list_upd_oob by exact H. destruct s; reflexivity.
Qed.

Lemma getn_updn i j f s :
  getn (updn i f s) j = if Nat.eqb i j && Nat.ltb i (nlen s) then f (getn s i) else getn s j.
Proof.
  destruct (Nat.eqb_spec i j) as [->|Hn].
  - destruct (Nat.ltb_spec j (nlen s)) as [Hl|Hl]; cbn [andb].
    + apply getn_updn_same; auto.
    + rewrite updn_oob; auto.
  - cbn [andb]. apply getn_updn_other; auto.
Qed.

Lemma getn_updn_cases i f s j :
  (i = j /\ getn (updn i f s) j = f (getn s j)) \/ getn (updn i f s) j = getn s j.
Proof.
  rewrite getn_updn. destruct (Nat.eqb_spec i j) as [->|]; cbn [andb]; auto.
  destruct (Nat.ltb _ _); auto.
Qed.

Lemma updn_field {A} (proj : node -> A) i f s k :
  (forall n, proj (f n) = proj n) -> proj (getn (updn i f s) k) = proj (getn s k).
Proof.
  intros H. destruct (getn_updn_cases i f s k) as [[_ E]|E]; rewrite E; auto.
Qed.

Lemma list_upd_id {A} (l : list A) i f d : f (nth i l d) = nth i l d -> list_upd l i f = l.
Proof.
  revert i; induction l as [|x t IH]; intros [|i] H; cbn in *; auto; f_equal; auto.
Qed.

Lemma updn_id i f s : f (getn s i) = getn s i -> updn i f s = s.
Proof.
  intros H. unfold updn. unfold getn in H. rewrite (list_upd_id (nodes s) i f dnode H).
  destruct s; reflexivity.
Qed.

Lemma ready_updn i f s : ready (updn i f s) = ready s.  Proof. reflexivity. Qed.
Lemma trace_updn i f s : trace (updn i f s) = trace s.  Proof. reflexivity. Qed.
Lemma err_updn i f s : err (updn i f s) = err s.        Proof. reflexivity. Qed.
Lemma halted_updn i f s : halted (updn i f s) = halted s. Proof. reflexivity. Qed.
Lemma nocause_updn i f s : nocause (updn i f s) = nocause s. Proof. reflexivity. Qed.
Lemma getn_emit e s i : getn (emit e s) i = getn s i.   Proof. reflexivity. Qed.
Lemma nlen_emit e s : nlen (emit e s) = nlen s.         Proof. reflexivity. Qed.
Lemma err_emit e s : err (emit e s) = err s.            Proof. reflexivity. Qed.
Lemma getn_set_ready s r i : getn (set_ready s r) i = getn s i. Proof. reflexivity. Qed.
Lemma getn_set_nocause s r i : getn (set_nocause s r) i = getn s i. Proof. reflexivity. Qed.
Lemma err_set_err s : err (set_err s) = true.           Proof. reflexivity. Qed.

(* out-of-range lookups give the default node *)
Lemma getn_oob s i : nlen s <= i -> getn s i = dnode.
Proof. intros H; unfold getn. apply nth_overflow; exact H. Qed.

(* ------------------------------------------------------------------ SubscriberSet *)
Lemma in_subscribe l x y : In y (subscribe l x) <-> In y l \/ y = x.
Proof.
  unfold subscribe. destruct (existsb (Nat.eqb x) l) eqn:E.
  - split; [auto|]. intros [H| ->]; auto.
    apply existsb_exists in E as (z & Hz & Hxz). apply Nat.eqb_eq in Hxz; subst; auto.
  - rewrite in_app_iff; cbn. intuition.
Qed.

Lemma nodup_snoc (l : list nat) x : NoDup l -> ~ In x l -> NoDup (l ++ [x]).
Proof.
  induction 1 as [|h t Hh Ht IH]; cbn; intros Hx.
  - constructor; [intros []|constructor].
  - constructor.
    + rewrite in_app_iff; cbn. intuition.
    + apply IH; intuition.
Qed.

Lemma nodup_subscribe l x : NoDup l -> NoDup (subscribe l x).
Proof.
  intros H; unfold subscribe. destruct (existsb (Nat.eqb x) l) eqn:E; auto.
  apply nodup_snoc; auto.
  intros Hin. assert (existsb (Nat.eqb x) l = true); [|congruence].
  apply existsb_exists; exists x; split; auto. apply Nat.eqb_refl.
Qed.

Lemma in_unsubscribe l x y : In y (unsubscribe l x) -> In y l.
Proof.
  induction l as [|h t IH]; cbn; auto.
  destruct (Nat.eqb h x); cbn; intuition.
Qed.

Lemma in_unsubscribe_other l x y : y <> x -> In y l -> In y (unsubscribe l x).
Proof.
  intros Hn; induction l as [|h t IH]; cbn; auto.
  destruct (Nat.eqb_spec h x) as [->|Hhx]; cbn; intuition congruence.
Qed.

Lemma nodup_unsubscribe l x : NoDup l -> NoDup (unsubscribe l x).
Proof.
  induction 1 as [|h t Hh Ht IH]; cbn; [constructor|].
  destruct (Nat.eqb h x); auto. constructor; auto.
  intros Hin; apply Hh. eapply in_unsubscribe; eauto.
Qed.

Lemma not_in_unsubscribe l x : NoDup l -> ~ In x (unsubscribe l x).
Proof.
  induction 1 as [|h t Hh Ht IH]; cbn; auto.
  destruct (Nat.eqb_spec h x) as [->|Hhx]; auto.
  cbn; intuition.
Qed.

Lemma unsubscribe_notin l x : ~ In x l -> unsubscribe l x = l.
Proof.
  induction l as [|h t IH]; cbn; auto. intros H.
  destruct (Nat.eqb_spec h x) as [->|Hhx]; [tauto|]. f_equal; apply IH; tauto.
Qed.

(* ------------------------------------------------------------------ nstate *)
Lemma nstate_eqb_eq a b : nstate_eqb a b = true <-> a = b.
Proof. destruct a, b; cbn; split; intros; congruence. Qed.
Lemma nstate_eqb_neq a b : nstate_eqb a b = false <-> a <> b.
Proof. destruct a, b; cbn; split; intros; congruence. Qed.
