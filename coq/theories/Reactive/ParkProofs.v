(** C19 — proofs about the park/wake protocols of Reactive/Park.v. *)
From Coq Require Import List ZArith Bool Arith Lia.
From LV Require Import Reactive.Park.
Import ListNotations.

(* ------------------------------------------------------------------------------------ *)
(** * list update lemmas *)

Lemma upd_length {A} (l : list A) i x : length (upd l i x) = length l.
Proof. revert i; induction l as [|h t IH]; intros [|i]; cbn; auto. Qed.

Lemma nth_upd_eq {A} (l : list A) i x a :
  nth_error l i = Some a -> nth_error (upd l i x) i = Some x.
Proof. revert i; induction l as [|h t IH]; intros [|i]; cbn; try discriminate; auto. Qed.

Lemma nth_upd_ne {A} (l : list A) i j x : i <> j -> nth_error (upd l i x) j = nth_error l j.
Proof.
  revert i j; induction l as [|h t IH]; intros [|i] [|j] H; cbn; auto; try congruence.
Qed.

Lemma nth_upd_none {A} (l : list A) i x : nth_error l i = None -> upd l i x = l.
Proof. revert i; induction l as [|h t IH]; intros [|i]; cbn; try discriminate; auto.
  intros H. now rewrite IH. Qed.

Lemma In_upd {A} (l : list A) i x y : In y (upd l i x) -> y = x \/ In y l.
Proof.
  revert i; induction l as [|h t IH]; intros [|i]; cbn; auto.
  - intros [H|H]; auto.
  - intros [H|H]; auto. destruct (IH _ H); auto.
Qed.

Lemma nth_upd_cases {A} (l : list A) i j x a y :
  nth_error l i = Some a -> nth_error (upd l i x) j = Some y ->
  (j = i /\ y = x) \/ (j <> i /\ nth_error l j = Some y).
Proof.
  intros Hi Hj. destruct (Nat.eq_dec i j) as [->|Hne].
  - rewrite (nth_upd_eq _ _ _ _ Hi) in Hj. left; split; congruence.
  - rewrite nth_upd_ne in Hj by auto. right; auto.
Qed.

(* ------------------------------------------------------------------------------------ *)
(** * (a) await path: invariant of the repaired protocol *)

Definition is_guard (a : awaiter) : bool :=
  match a_pc a with ALoaded GGuard => true | _ => false end.
Definition nguard (l : list awaiter) : nat := length (filter is_guard l).
Definition g1 (a : awaiter) : nat := if is_guard a then 1 else 0.

Lemma nguard_upd l i x a :
  nth_error l i = Some a -> nguard (upd l i x) + g1 a = nguard l + g1 x.
Proof.
  unfold nguard, g1. revert i; induction l as [|h t IH]; intros [|i]; cbn; try discriminate.
  - intros [= ->]. destruct (is_guard a), (is_guard x); cbn; lia.
  - intros H. specialize (IH _ H). destruct (is_guard h); cbn; lia.
Qed.

(** loading is still true / the value has been written *)
Definition cpre (c : cpc) : bool := match c with CStart | CWait | CStored => true | _ => false end.
Definition cwritten (c : cpc) : bool := match c with CStart | CWait => false | _ => true end.

Record Inv (s : ast) : Prop := mkInv {
  I_load : loading s = cpre (c_pc s);
  I_wak : wakers s <> [] -> c_pc s <> CDone;
  I_park : forall i a, nth_error (aws s) i = Some a -> a_pc a = AParked -> a_woken a = false ->
           In i (wakers s);
  I_wbit : wbit s = true <-> c_pc s = CWait;
  I_readers : readers s = nguard (aws s);
  I_wait : c_pc s = CWait -> cwoken s = false -> readers s <> 0;
  I_val : cwritten (c_pc s) = true -> value s = Some VAL;
  I_done : forall a v, In a (aws s) -> a_pc a = ADone v -> v = VAL;
}.

Lemma Inv_init kinds : Inv (ainit kinds).
Proof.
  constructor; cbn -[nguard]; auto; try congruence.
  - intros i a H Hp. apply nth_error_In in H. apply in_map_iff in H as (k & <- & _). discriminate.
  - split; discriminate.
  - induction kinds; cbn; auto.
  - intros a v H Hp. apply in_map_iff in H as (k & <- & _). discriminate.
Qed.

(** changes that the invariant does not see *)
Lemma Inv_set_vq s q : Inv s -> Inv (set_vq s q).
Proof. intros [H1 H2 H3 H4 H5 H6 H7 H8]; constructor; cbn -[nguard]; auto. Qed.

Lemma is_guard_wake a : is_guard (mkA (a_val a) (a_pc a) true (a_polls a)) = is_guard a.
Proof. reflexivity. Qed.

Lemma Inv_wake s i : Inv s -> Inv (wake_aw s i).
Proof.
  intros [H1 H2 H3 H4 H5 H6 H7 H8]. unfold wake_aw.
  destruct (nth_error (aws s) i) as [a|] eqn:Ha; [|constructor; auto].
  constructor; cbn -[nguard]; auto.
  - intros j b Hj Hp Hw. destruct (nth_upd_cases _ _ _ _ _ _ Ha Hj) as [[-> ->]|[Hne Hj']].
    + discriminate.
    + eauto.
  - pose proof (nguard_upd _ _ (mkA (a_val a) (a_pc a) true (a_polls a)) _ Ha) as E.
    unfold g1 in E. rewrite is_guard_wake in E. destruct (is_guard a); lia.
  - intros b v Hb Hp. apply In_upd in Hb as [->|Hb]; eauto.
    cbn in Hp. eapply H8; eauto. eapply nth_error_In; eauto.
Qed.

Lemma Inv_notify1 s : Inv s -> Inv (notify1 s).
Proof.
  intros H. unfold notify1. destruct (existsb snd (vq s)); auto.
  destruct (vq s) as [|[i b] q]; auto. apply Inv_wake, Inv_set_vq, H.
Qed.

Lemma Inv_drop_listener s i : Inv s -> Inv (drop_listener s i).
Proof.
  intros H. unfold drop_listener.
  destruct (existsb _ (vq s)); [apply Inv_notify1|]; apply Inv_set_vq, H.
Qed.

(** waking every registered waker *)
Lemma fold_wake_fields l : forall s,
  let s' := fold_left wake_aw l s in
  loading s' = loading s /\ value s' = value s /\ wakers s' = wakers s /\ readers s' = readers s
  /\ wbit s' = wbit s /\ cwoken s' = cwoken s /\ c_pc s' = c_pc s /\ vq s' = vq s.
Proof.
  induction l as [|i l IH]; intros s; cbn; [repeat split|].
  specialize (IH (wake_aw s i)). cbn in IH.
  assert (E : loading (wake_aw s i) = loading s /\ value (wake_aw s i) = value s
              /\ wakers (wake_aw s i) = wakers s /\ readers (wake_aw s i) = readers s
              /\ wbit (wake_aw s i) = wbit s /\ cwoken (wake_aw s i) = cwoken s
              /\ c_pc (wake_aw s i) = c_pc s /\ vq (wake_aw s i) = vq s).
  { unfold wake_aw. destruct (nth_error (aws s) i); cbn; repeat split. }
  destruct IH as (A1 & A2 & A3 & A4 & A5 & A6 & A7 & A8).
  destruct E as (B1 & B2 & B3 & B4 & B5 & B6 & B7 & B8).
  repeat split; congruence.
Qed.

Lemma fold_wake_nth l : forall s j b,
  nth_error (aws (fold_left wake_aw l s)) j = Some b ->
  exists a, nth_error (aws s) j = Some a /\ a_pc b = a_pc a /\ a_val b = a_val a
            /\ (a_woken b = false -> a_woken a = false /\ ~ In j l).
Proof.
  induction l as [|i l IH]; intros s j b H; cbn in *.
  - exists b. split; [auto|]. split; [auto|]. split; [auto|]. intros Hb; split; auto.
  - apply IH in H as (a & Ha & Hp & Hv & Hw).
    unfold wake_aw in Ha. destruct (nth_error (aws s) i) as [ai|] eqn:Hi.
    + cbn in Ha. destruct (nth_upd_cases _ _ _ _ _ _ Hi Ha) as [[-> ->]|[Hne Ha']].
      * exists ai. split; [auto|]. split; [auto|]. split; [auto|].
        intros Hb. apply Hw in Hb as [Hb _]. discriminate.
      * exists a. split; [auto|]. split; [auto|]. split; [auto|].
        intros Hb. apply Hw in Hb as [Hb Hn]. split; auto.
        intros [E|Hin]; auto.
    + exists a. split; [auto|]. split; [auto|]. split; [auto|].
      intros Hb. apply Hw in Hb as [Hb Hn]. split; auto.
      intros [E|Hin]; auto. subst i. congruence.
Qed.

Lemma Inv_fold_wake l s : Inv s -> Inv (fold_left wake_aw l s).
Proof. revert s; induction l; cbn; auto. intros s H. apply IHl, Inv_wake, H. Qed.

(* ------------------------------------------------------------------------------------ *)
(** * preservation *)

Ltac park_tac Ha :=
  let j := fresh "j" in let b := fresh "b" in let Hj := fresh "Hj" in let Hp := fresh "Hp" in
  let Hwk := fresh "Hwk" in let Hne := fresh "Hne" in let Hj' := fresh "Hj'" in
  intros j b Hj Hp Hwk;
  destruct (nth_upd_cases _ _ _ _ _ _ Ha Hj) as [[-> ->]|[Hne Hj']]; [discriminate|eauto].

Lemma Inv_poll_start s i a :
  Inv s -> nth_error (aws s) i = Some a -> (a_pc a = AStart \/ a_pc a = AParked) ->
  Inv (poll_start i a s).
Proof.
  intros HI Ha Hpc.
  assert (G0 : g1 a = 0) by (unfold g1, is_guard; destruct Hpc as [-> | ->]; reflexivity).
  assert (HV : loading s = false -> cur_value s = VAL).
  { destruct HI as [H1 H2 H3 H4 H5 H6 H7 H8].
    intros Hl. unfold cur_value. rewrite H7; auto. destruct (c_pc s); cbn in *; congruence. }
  unfold poll_start.
  destruct (a_val a) eqn:Hv; [destruct (wbit s) eqn:Hw|]; destruct (loading s) eqn:Hl;
    pose proof HI as [H1 H2 H3 H4 H5 H6 H7 H8].
  - (* listener *)
    refine (mkInv _ _ _ _ _ _ _ _ _); cbn -[nguard]; auto.
    + park_tac Ha.
    + pose proof (nguard_upd _ _ (mkA true (ALoaded GListen) false (S (a_polls a))) _ Ha) as E.
      unfold g1 at 2 in E. cbn in E. lia.
    + intros b v Hb Hp. apply In_upd in Hb as [->|Hb]; [discriminate|eauto].
  - (* (false, Pending): impossible, a waiting writer implies loading *)
    exfalso. apply H4 in Hw. rewrite Hw in H1. cbn in H1. congruence.
  - (* guard *)
    refine (mkInv _ _ _ _ _ _ _ _ _); cbn -[nguard]; auto.
    + park_tac Ha.
    + pose proof (nguard_upd _ _ (mkA true (ALoaded GGuard) false (S (a_polls a))) _ Ha) as E.
      unfold g1 at 2 in E. cbn in E. lia.
    + intros b v Hb Hp. apply In_upd in Hb as [->|Hb]; [discriminate|eauto].
  - (* done *)
    refine (mkInv _ _ _ _ _ _ _ _ _); cbn -[nguard]; auto.
    + park_tac Ha.
    + pose proof (nguard_upd _ _ (mkA true (ADone (cur_value s)) false (S (a_polls a))) _ Ha) as E.
      unfold g1 at 2 in E. cbn in E. lia.
    + intros b v Hb Hp. apply In_upd in Hb as [->|Hb]; [|eauto].
      cbn in Hp. injection Hp as <-. auto.
  - refine (mkInv _ _ _ _ _ _ _ _ _); cbn -[nguard]; auto.
    + park_tac Ha.
    + pose proof (nguard_upd _ _ (mkA false (ALoaded GNone) false (S (a_polls a))) _ Ha) as E.
      unfold g1 at 2 in E. cbn in E. lia.
    + intros b v Hb Hp. apply In_upd in Hb as [->|Hb]; [discriminate|eauto].
  - refine (mkInv _ _ _ _ _ _ _ _ _); cbn -[nguard]; auto.
    + park_tac Ha.
    + pose proof (nguard_upd _ _ (mkA false (ADone (cur_value s)) false (S (a_polls a))) _ Ha) as E.
      unfold g1 at 2 in E. cbn in E. lia.
    + intros b v Hb Hp. apply In_upd in Hb as [->|Hb]; [|eauto].
      cbn in Hp. injection Hp as <-. auto.
Qed.

(** parking in the repaired protocol, before the guard / listener is dropped *)
Definition park_mid (i : nat) (a : awaiter) (s : ast) : ast :=
  let s1 := set_aw s i (mkA (a_val a) AParked (a_woken a) (a_polls a)) in
  if loading s1 then set_wakers s1 (wakers s1 ++ [i]) else wake_aw s1 i.

Lemma park_mid_facts s i a g :
  Inv s -> nth_error (aws s) i = Some a -> a_pc a = ALoaded g ->
  let s2 := park_mid i a s in
  loading s2 = loading s /\ value s2 = value s /\ wbit s2 = wbit s /\ cwoken s2 = cwoken s
  /\ c_pc s2 = c_pc s /\ readers s2 = readers s /\ vq s2 = vq s
  /\ (wakers s2 <> [] -> c_pc s2 <> CDone)
  /\ (forall j b, nth_error (aws s2) j = Some b -> a_pc b = AParked -> a_woken b = false ->
                  In j (wakers s2))
  /\ nguard (aws s2) + g1 a = nguard (aws s)
  /\ (forall b v, In b (aws s2) -> a_pc b = ADone v -> v = VAL).
Proof.
  intros HI Ha Hpc s2. pose proof HI as [H1 H2 H3 H4 H5 H6 H7 H8].
  set (a' := mkA (a_val a) AParked (a_woken a) (a_polls a)).
  assert (Ha1 : nth_error (upd (aws s) i a') i = Some a') by (eapply nth_upd_eq; eauto).
  assert (N1 : nguard (upd (aws s) i a') + g1 a = nguard (aws s)).
  { pose proof (nguard_upd _ _ a' _ Ha) as E. unfold g1 at 2 in E. cbn in E. lia. }
  subst s2. unfold park_mid. fold a'. cbn [loading set_aw].
  destruct (loading s) eqn:Hl.
  - cbn -[nguard]. repeat (split; [auto|]); auto.
    + intros _ Hd. rewrite Hd in H1. cbn in H1. congruence.
    + intros j b Hj Hp Hw. destruct (nth_upd_cases _ _ _ _ _ _ Ha Hj) as [[-> ->]|[Hne Hj']].
      * apply in_or_app; right; left; auto.
      * apply in_or_app; left; eauto.
    + intros b v Hb Hp. apply In_upd in Hb as [->|Hb]; [discriminate|eauto].
  - unfold wake_aw. cbn [aws set_aw]. rewrite Ha1. cbn -[nguard].
    repeat (split; [auto|]); auto.
    + intros j b Hj Hp Hw.
      destruct (nth_upd_cases _ _ _ _ _ _ Ha1 Hj) as [[-> ->]|[Hne Hj']]; [discriminate|].
      rewrite nth_upd_ne in Hj' by auto. eauto.
    + pose proof (nguard_upd _ _ (mkA (a_val a) AParked true (a_polls a)) _ Ha1) as E.
      unfold g1 at 1 2 in E. cbn in E. lia.
    + intros b v Hb Hp. apply In_upd in Hb as [->|Hb]; [discriminate|].
      apply In_upd in Hb as [->|Hb]; [discriminate|eauto].
Qed.

Lemma Inv_poll_park s i a g :
  Inv s -> nth_error (aws s) i = Some a -> a_pc a = ALoaded g -> Inv (poll_park Fixed i a g s).
Proof.
  intros HI Ha Hpc.
  pose proof (park_mid_facts s i a g HI Ha Hpc) as F. cbn zeta in F.
  change (poll_park Fixed i a g s) with
    (match g with
     | GGuard => release_guard (park_mid i a s)
     | GListen => drop_listener (park_mid i a s) i
     | GNone => park_mid i a s
     end).
  set (s2 := park_mid i a s) in *.
  destruct F as (F1 & F2 & F3 & F4 & F5 & F6 & F7 & F8 & F9 & F10 & F11).
  pose proof HI as [H1 H2 H3 H4 H5 H6 H7 H8].
  assert (A1 : loading s2 = cpre (c_pc s2)) by congruence.
  assert (A4 : wbit s2 = true <-> c_pc s2 = CWait) by (rewrite F3, F5; auto).
  assert (A7 : cwritten (c_pc s2) = true -> value s2 = Some VAL) by (rewrite F5, F2; auto).
  assert (Hmid : g1 a = 0 -> Inv s2).
  { intros G0.
    assert (A5 : readers s2 = nguard (aws s2)) by (rewrite F6, H5; lia).
    assert (A6 : c_pc s2 = CWait -> cwoken s2 = false -> readers s2 <> 0)
      by (rewrite F5, F4, F6; auto).
    exact (mkInv _ A1 F8 F9 A4 A5 A6 A7 F11). }
  destruct g.
  - apply Hmid. unfold g1, is_guard. rewrite Hpc. reflexivity.
  - (* the read guard is dropped; the last reader wakes the waiting writer *)
    assert (G1 : g1 a = 1) by (unfold g1, is_guard; rewrite Hpc; reflexivity).
    unfold release_guard.
    refine (mkInv _ _ _ _ _ _ _ _ _); cbn -[nguard].
    + exact A1.
    + exact F8.
    + exact F9.
    + exact A4.
    + rewrite F6, H5. lia.
    + rewrite F5, F3, F4, F6. intros Hc Hw. apply H4 in Hc as Hb. rewrite Hb in Hw.
      destruct (pred (readers s) =? 0) eqn:E; cbn in Hw; [discriminate|].
      apply Nat.eqb_neq in E. auto.
    + exact A7.
    + exact F11.
  - apply Inv_drop_listener, Hmid. unfold g1, is_guard. rewrite Hpc. reflexivity.
Qed.

Lemma Inv_aw_step s i a :
  Inv s -> nth_error (aws s) i = Some a -> Inv (aw_step Fixed i a s).
Proof.
  intros HI Ha. unfold aw_step. destruct (a_pc a) eqn:Hpc.
  - apply Inv_poll_start; auto.
  - eapply Inv_poll_park; eauto.
  - destruct (a_woken a); auto. apply Inv_poll_start; auto.
  - auto.
Qed.

Lemma Inv_try_write s :
  Inv s -> (c_pc s = CStart \/ c_pc s = CWait) -> Inv (try_write s).
Proof.
  intros HI Hc. pose proof HI as [H1 H2 H3 H4 H5 H6 H7 H8]. unfold try_write.
  destruct (readers s =? 0) eqn:Hr.
  - apply Inv_notify1. refine (mkInv _ _ _ _ _ _ _ _ _); cbn -[nguard].
    + rewrite H1. destruct Hc as [-> | ->]; reflexivity.
    + intros _; discriminate.
    + exact H3.
    + split; discriminate.
    + exact H5.
    + discriminate.
    + reflexivity.
    + exact H8.
  - apply Nat.eqb_neq in Hr.
    refine (mkInv _ _ _ _ _ _ _ _ _); cbn -[nguard].
    + rewrite H1. destruct Hc as [-> | ->]; reflexivity.
    + intros _; discriminate.
    + exact H3.
    + split; auto.
    + exact H5.
    + auto.
    + discriminate.
    + exact H8.
Qed.

Lemma Inv_comp_step s : Inv s -> Inv (comp_step s).
Proof.
  intros HI. pose proof HI as [H1 H2 H3 H4 H5 H6 H7 H8]. unfold comp_step.
  destruct (c_pc s) eqn:Hc.
  - apply Inv_try_write; auto.
  - destruct (cwoken s); auto. apply Inv_try_write; auto.
  - refine (mkInv _ _ _ _ _ _ _ _ _); cbn -[nguard].
    + reflexivity.
    + intros _; discriminate.
    + exact H3.
    + destruct H4 as [A B]. split; [intros X; apply A in X|]; discriminate.
    + exact H5.
    + discriminate.
    + intros _. apply H7. reflexivity.
    + exact H8.
  - unfold set_cpc. refine (mkInv _ _ _ _ _ _ _ _ _); cbn -[nguard].
    + rewrite H1. reflexivity.
    + intros _; discriminate.
    + exact H3.
    + destruct H4 as [A B]. split; [intros X; apply A in X; discriminate|discriminate].
    + exact H5.
    + discriminate.
    + intros _. apply H7. reflexivity.
    + exact H8.
  - (* drain: every registered waker is woken *)
    pose proof (fold_wake_fields (wakers s) s) as F. cbn zeta in F.
    destruct F as (F1 & F2 & F3 & F4 & F5 & F6 & F7 & F8).
    pose proof (Inv_fold_wake (wakers s) s HI) as [G1 G2 G3 G4 G5 G6 G7 G8].
    unfold set_cpc, set_wakers.
    refine (mkInv _ _ _ _ _ _ _ _ _); cbn -[nguard].
    + rewrite F1, H1. reflexivity.
    + intros X; congruence.
    + intros j b Hj Hp Hw. exfalso.
      apply fold_wake_nth in Hj as (a & Ha & Hpa & Hva & Hwa).
      apply Hwa in Hw as [Hw Hn]. apply Hn. eapply H3; eauto. congruence.
    + rewrite F5. destruct H4 as [A B]. split; [intros X; apply A in X; discriminate|discriminate].
    + exact G5.
    + discriminate.
    + intros _. rewrite F2. apply H7. reflexivity.
    + exact G8.
  - auto.
Qed.

Lemma Inv_astep s t : Inv s -> Inv (astep Fixed t s).
Proof.
  intros HI. unfold astep. destruct (nth_error (aws s) t) eqn:Ha.
  - eapply Inv_aw_step; eauto.
  - destruct (t =? length (aws s)); auto. apply Inv_comp_step; auto.
Qed.

Lemma Inv_arun sched : forall s, Inv s -> Inv (arun Fixed s sched).
Proof. induction sched as [|t r IH]; intros s H; cbn; auto. apply IH, Inv_astep, H. Qed.

(** ** no lost wake-up, for every number of awaiters and every schedule *)
Lemma Inv_terminal_all_done s :
  Inv s -> aterminal s -> c_pc s = CDone /\ forall a, In a (aws s) -> a_pc a = ADone VAL.
Proof.
  intros [H1 H2 H3 H4 H5 H6 H7 H8] [Tc Ta].
  assert (Hc : c_pc s = CDone).
  { unfold comp_enabled in Tc. destruct (c_pc s) eqn:Hc; try discriminate; auto.
    exfalso. specialize (H6 eq_refl Tc). rewrite H5 in H6. unfold nguard in H6.
    destruct (filter is_guard (aws s)) as [|a l] eqn:Hf; [auto|].
    assert (Hin : In a (filter is_guard (aws s))) by (rewrite Hf; left; auto).
    apply filter_In in Hin as [Hin Hg]. specialize (Ta _ Hin).
    unfold is_guard in Hg. unfold aw_enabled in Ta. destruct (a_pc a); discriminate. }
  split; auto. intros a Hin.
  assert (Hw : wakers s = []).
  { destruct (wakers s) eqn:E; auto. exfalso. apply H2; auto. discriminate. }
  pose proof (Ta _ Hin) as En. unfold aw_enabled in En.
  destruct (a_pc a) eqn:Hp; try discriminate.
  - exfalso. apply In_nth_error in Hin as [i Hi]. specialize (H3 _ _ Hi Hp En). rewrite Hw in H3. auto.
  - f_equal. eapply H8; eauto.
Qed.

Theorem no_lost_wakeup :
  forall (kinds : list bool) (sched : list nat),
    let s := arun Fixed (ainit kinds) sched in
    aterminal s ->
    c_pc s = CDone /\ forall a, In a (aws s) -> a_pc a = ADone VAL.
Proof.
  intros kinds sched s T. apply Inv_terminal_all_done; auto. apply Inv_arun, Inv_init.
Qed.

(** hypotheses satisfiable: 2 awaiters (ready() and into_future()), a schedule in which the
    second awaiter holds the read guard while the completer wants to write *)
Example no_lost_wakeup_nontrivial :
  let s := arun Fixed (ainit [false; true]) [1; 2; 0; 2; 1; 2; 2; 0; 2; 2; 0; 1; 0; 1] in
  aterminalb s = true /\ map a_polls (aws s) = [2; 2]%nat.
Proof. vm_compute. split; reflexivity. Qed.

(** ** the protocol before the fix loses a wake-up: witness of length 6
    (awaiter loads `loading = true`; completer stores the value, clears `loading`, drains;
    awaiter pushes its waker and parks for ever) *)
Example no_lost_wakeup_prefix_refuted :
  exists kinds sched,
    let s := arun Prefix (ainit kinds) sched in
    aterminal s /\ exists a, In a (aws s) /\ a_pc a = AParked /\ a_woken a = false.
Proof.
  exists [false], [0; 1; 1; 1; 1; 0]%nat. cbn zeta. split.
  - split; [vm_compute; reflexivity|]. intros a. vm_compute. intros [<-|[]]. reflexivity.
  - eexists. split; [vm_compute; left; reflexivity|]. split; reflexivity.
Qed.

(** same window with `into_future()` (the awaiter polls the value lock between load and push) *)
Example no_lost_wakeup_prefix_refuted_value :
  let s := arun Prefix (ainit [true]) [1; 0; 1; 1; 1; 0]%nat in
  aterminalb s = true /\ map aw_done (aws s) = [false].
Proof. vm_compute. split; reflexivity. Qed.

(** and the repaired protocol on the same schedules *)
Example no_lost_wakeup_fixed_on_witness :
  map aw_done (aws (arun Fixed (ainit [false]) [0; 1; 1; 1; 1; 0; 0]%nat)) = [true]
  /\ map aw_done (aws (arun Fixed (ainit [true]) [1; 0; 1; 1; 1; 0; 0]%nat)) = [true].
Proof. vm_compute. split; reflexivity. Qed.

(* ------------------------------------------------------------------------------------ *)
(** * (b) effect notification channel *)

Definition count {A} (P : A -> bool) (l : list A) : nat := length (filter P l).
Definition b2n (b : bool) : nat := if b then 1 else 0.

Lemma count_upd {A} (P : A -> bool) l i x a :
  nth_error l i = Some a -> count P (upd l i x) + b2n (P a) = count P l + b2n (P x).
Proof.
  unfold count, b2n. revert i; induction l as [|h t IH]; intros [|i]; cbn; try discriminate.
  - intros [= ->]. destruct (P a), (P x); cbn; lia.
  - intros H. specialize (IH _ H). destruct (P h); cbn; lia.
Qed.

Lemma count_pos_ex {A} (P : A -> bool) l : count P l <> 0 -> exists x, In x l /\ P x = true.
Proof.
  unfold count. destruct (filter P l) as [|x r] eqn:E; [cbn; congruence|]. intros _.
  assert (H : In x (filter P l)) by (rewrite E; left; auto).
  apply filter_In in H. eauto.
Qed.

Definition nonempty {A} (l : list A) : bool := match l with [] => false | _ => true end.
(** a sender between `set.store(true)` and `waker.wake()` *)
Definition is_pending (x : sender) : bool :=
  match s_ph x with PN2 => nonempty (s_ops x) | _ => false end.
(** a sender that has written the signal but not yet marked the effect dirty *)
Definition is_unmarked (x : sender) : bool :=
  match s_ph x with PM | PN1 => nonempty (s_ops x) | _ => false end.

Definition alive (s : cst) : Prop := c_rpc s <> RParked \/ c_rwoken s = true.

Record CInv (s : cst) : Prop := mkCInv {
  C_reg : c_reg s = true \/ c_rwoken s = true;
  C_flag : c_flag s = true -> alive s \/ count is_pending (c_snd s) <> 0;
  C_dirty : c_dirty s = true -> c_flag s = true \/ c_rpc s = RWantLock;
  C_log : hd_error (c_log s) = Some (c_sv s) \/ c_dirty s = true
          \/ count is_unmarked (c_snd s) <> 0;
}.

Lemma CInv_init fine progs : CInv (cinit fine progs).
Proof.
  constructor; cbn; auto; try discriminate.
Qed.

(** lock and wait-queue bookkeeping is invisible to the invariant *)
Lemma CInv_lockq s l q :
  CInv s ->
  CInv (mkC (c_fine s) (c_flag s) (c_reg s) (c_rwoken s) (c_dirty s) l (c_sv s) (c_log s)
            (c_rpc s) (c_snd s) q).
Proof. intros [H1 H2 H3 H4]; constructor; auto. Qed.

Lemma CInv_rx_run s :
  (c_reg s = true \/ c_rwoken s = true) ->
  (hd_error (c_log s) = Some (c_sv s) \/ c_dirty s = true \/ count is_unmarked (c_snd s) <> 0) ->
  CInv (rx_run s).
Proof.
  intros H1 H4. unfold rx_run, c_with_rx. destruct (c_elock s).
  - refine (mkCInv _ _ _ _ _); cbn.
    + exact H1.
    + intros _. left. left. discriminate.
    + intros _. right. reflexivity.
    + exact H4.
  - refine (mkCInv _ _ _ _ _); cbn.
    + left; reflexivity.
    + intros _. left. left. discriminate.
    + discriminate.
    + destruct (c_dirty s) eqn:Hd; cbn; auto.
Qed.

Lemma CInv_rx_step s : CInv s -> CInv (rx_step s).
Proof.
  intros HI. pose proof HI as [H1 H2 H3 H4]. unfold rx_step.
  destruct (c_rpc s) eqn:Hr.
  - destruct (c_rwoken s) eqn:Hw; auto. unfold c_with_rx.
    refine (mkCInv _ _ _ _ _); cbn.
    + left; reflexivity.
    + intros _. left. left. discriminate.
    + intros Hd. apply H3 in Hd as [Hd|Hd]; auto. discriminate.
    + exact H4.
  - destruct (c_flag s) eqn:Hf.
    + apply CInv_rx_run; unfold c_with_rx; cbn; auto.
    + unfold c_with_rx. refine (mkCInv _ _ _ _ _); cbn.
      * exact H1.
      * discriminate.
      * intros Hd. apply H3 in Hd as [Hd|Hd]; discriminate.
      * exact H4.
  - auto.
Qed.

(** AtomicWaker::wake: afterwards the receiver's task is woken (it was registered, or a wake
    is already outstanding) *)
Lemma do_wake_alive s : (c_reg s = true \/ c_rwoken s = true) -> c_rwoken (do_wake s) = true.
Proof. intros [H|H]; unfold do_wake; rewrite ?H; cbn; auto. destruct (c_reg s); cbn; auto. Qed.

Lemma do_wake_fields s :
  c_fine (do_wake s) = c_fine s /\ c_flag (do_wake s) = c_flag s /\ c_dirty (do_wake s) = c_dirty s
  /\ c_elock (do_wake s) = c_elock s /\ c_sv (do_wake s) = c_sv s /\ c_log (do_wake s) = c_log s
  /\ c_rpc (do_wake s) = c_rpc s /\ c_snd (do_wake s) = c_snd s /\ c_waitq (do_wake s) = c_waitq s.
Proof. unfold do_wake. destruct (c_reg s); cbn; repeat split. Qed.

Lemma CInv_do_wake s : CInv s -> CInv (do_wake s).
Proof.
  intros [H1 H2 H3 H4]. pose proof (do_wake_alive s H1) as A.
  pose proof (do_wake_fields s) as (F1 & F2 & F3 & F4 & F5 & F6 & F7 & F8 & F9).
  refine (mkCInv _ _ _ _ _).
  - right; auto.
  - intros _. left. right. auto.
  - rewrite F3, F2, F7. auto.
  - rewrite F6, F5, F3, F8. auto.
Qed.

Lemma is_pending_next x : is_pending (next_op x) = false.
Proof. reflexivity. Qed.
Lemma is_unmarked_next x : is_unmarked (next_op x) = false.
Proof. reflexivity. Qed.

(** `mark_dirty` of the effect by sender j standing at PN1 *)
Lemma CInv_snd_n1 s j x :
  CInv s -> nth_error (c_snd s) j = Some x -> s_ph x = PN1 -> s_ops x <> [] ->
  CInv (snd_n1 s j x).
Proof.
  intros HI Hx Hp Ho. pose proof HI as [H1 H2 H3 H4]. unfold snd_n1.
  assert (Ux : is_unmarked x = true) by (unfold is_unmarked; rewrite Hp; destruct (s_ops x); auto; congruence).
  assert (Px : is_pending x = false) by (unfold is_pending; rewrite Hp; auto).
  destruct (c_elock s).
  - apply (CInv_lockq s (Some n) (c_waitq s ++ [S j])) in HI. exact HI.
  - destruct (c_fine s) eqn:Hfine.
    + (* fine: flag set, paused before the wake, holding the lock *)
      unfold set_snd. refine (mkCInv _ _ _ _ _); cbn.
      * exact H1.
      * intros _. right.
        pose proof (count_upd is_pending _ _ (mkSnd (s_ops x) PN2) _ Hx) as E.
        rewrite Px in E. unfold b2n at 2 in E. unfold is_pending at 3 in E. cbn in E.
        destruct (s_ops x); [congruence|]. cbn in E. unfold count in *. lia.
      * intros _. left; reflexivity.
      * right; left; reflexivity.
    + (* coarse: flag set and receiver woken in the same segment *)
      set (s1 := mkC false true (c_reg s) (c_rwoken s) true None (c_sv s) (c_log s)
                     (c_rpc s) (c_snd s) (c_waitq s)).
      assert (A : c_rwoken (do_wake s1) = true) by (apply do_wake_alive; exact H1).
      pose proof (do_wake_fields s1) as (F1 & F2 & F3 & F4 & F5 & F6 & F7 & F8 & F9).
      unfold set_snd. refine (mkCInv _ _ _ _ _); cbn.
      * right; auto.
      * intros _. left. right. auto.
      * intros _. left. rewrite F2. reflexivity.
      * right; left. rewrite F3. reflexivity.
Qed.

Lemma CInv_resume s t : CInv s -> CInv (resume s t).
Proof.
  intros HI. destruct t as [|j]; cbn.
  - destruct HI as [H1 H2 H3 H4]. apply CInv_rx_run; auto.
  - destruct (nth_error (c_snd s) j) as [x|] eqn:Hx; auto.
    destruct (s_ph x) eqn:Hp; auto. destruct (s_ops x) eqn:Ho; auto.
    apply CInv_snd_n1; auto. congruence.
Qed.

Lemma CInv_settle fuel : forall s, CInv s -> CInv (settle fuel s).
Proof.
  induction fuel as [|f IH]; intros s HI; cbn; auto.
  destruct (c_elock s); auto. destruct (c_waitq s) as [|t q]; auto.
  apply IH, CInv_resume. apply (CInv_lockq s None q HI).
Qed.

Lemma count_upd_same {A} (P : A -> bool) l i x a :
  nth_error l i = Some a -> P a = P x -> count P (upd l i x) = count P l.
Proof. intros H E. pose proof (count_upd P l i x a H) as C. rewrite E in C. lia. Qed.

Lemma CInv_snd_step s j x :
  CInv s -> nth_error (c_snd s) j = Some x -> CInv (snd_step s j x).
Proof.
  intros HI Hx. pose proof HI as [H1 H2 H3 H4]. unfold snd_step.
  destruct (existsb (Nat.eqb (S j)) (c_waitq s)); auto.
  destruct (s_ops x) as [|v rest] eqn:Ho; auto.
  destruct (s_ph x) eqn:Hp.
  - (* the write *)
    unfold set_snd. refine (mkCInv _ _ _ _ _); cbn -[count].
    + exact H1.
    + rewrite (count_upd_same is_pending _ _ (mkSnd (v :: rest) PM) _ Hx); auto.
      unfold is_pending. rewrite Hp. reflexivity.
    + exact H3.
    + right; right.
      pose proof (count_upd is_unmarked _ _ (mkSnd (v :: rest) PM) _ Hx) as E.
      assert (U0 : is_unmarked x = false) by (unfold is_unmarked; rewrite Hp; reflexivity).
      rewrite U0 in E. cbn in E. lia.
  - (* subscribers cloned *)
    unfold set_snd. refine (mkCInv _ _ _ _ _); cbn -[count].
    + exact H1.
    + rewrite (count_upd_same is_pending _ _ (mkSnd (v :: rest) PN1) _ Hx); auto.
      unfold is_pending. rewrite Hp. reflexivity.
    + exact H3.
    + rewrite (count_upd_same is_unmarked _ _ (mkSnd (v :: rest) PN1) _ Hx); auto.
      unfold is_unmarked. rewrite Hp, Ho. reflexivity.
  - apply CInv_snd_n1; auto. congruence.
  - (* wake; unlock; blocked threads continue *)
    apply CInv_settle.
    pose proof (CInv_do_wake s HI) as [D1 D2 D3 D4].
    pose proof (do_wake_alive s H1) as A.
    pose proof (do_wake_fields s) as (F1 & F2 & F3 & F4 & F5 & F6 & F7 & F8 & F9).
    unfold set_snd. refine (mkCInv _ _ _ _ _); cbn -[count].
    + right; auto.
    + intros _. left. right. auto.
    + exact D3.
    + rewrite F8.
      rewrite (count_upd_same is_unmarked _ _ (next_op x) _ Hx).
      * rewrite <- F8. exact D4.
      * unfold is_unmarked at 1. rewrite Hp. reflexivity.
Qed.

Lemma CInv_cstep s t : CInv s -> CInv (cstep t s).
Proof.
  intros HI. destruct t as [|j]; cbn.
  - apply CInv_rx_step; auto.
  - destruct (nth_error (c_snd s) j) eqn:Hx; auto. apply CInv_snd_step; auto.
Qed.

Lemma CInv_crun sched : forall s, CInv s -> CInv (crun s sched).
Proof. induction sched as [|t r IH]; intros s H; cbn; auto. apply IH, CInv_cstep, H. Qed.

(** ** no lost notification: once every writer has finished and the effect's task is parked
    with no wake outstanding, its last run saw the final value of the signal *)
Lemma CInv_terminal s :
  CInv s -> cterminal s ->
  hd_error (c_log s) = Some (c_sv s) /\ c_flag s = false /\ c_dirty s = false.
Proof.
  intros [H1 H2 H3 H4] (Ts & Tr & Tw).
  assert (NP : count is_pending (c_snd s) = 0).
  { destruct (count is_pending (c_snd s)) eqn:E; auto. exfalso.
    assert (Hne : count is_pending (c_snd s) <> 0) by lia.
    apply count_pos_ex in Hne as (x & Hin & Hp). apply Ts in Hin.
    unfold snd_finished in Hin. unfold is_pending in Hp.
    destruct (s_ops x); [destruct (s_ph x)|]; discriminate. }
  assert (NU : count is_unmarked (c_snd s) = 0).
  { destruct (count is_unmarked (c_snd s)) eqn:E; auto. exfalso.
    assert (Hne : count is_unmarked (c_snd s) <> 0) by lia.
    apply count_pos_ex in Hne as (x & Hin & Hp). apply Ts in Hin.
    unfold snd_finished in Hin. unfold is_unmarked in Hp.
    destruct (s_ops x); [destruct (s_ph x)|]; discriminate. }
  assert (Hf : c_flag s = false).
  { destruct (c_flag s) eqn:E; auto. exfalso.
    destruct (H2 eq_refl) as [[A|A]|A]; congruence. }
  assert (Hd : c_dirty s = false).
  { destruct (c_dirty s) eqn:E; auto. exfalso.
    destruct (H3 eq_refl) as [A|A]; congruence. }
  repeat split; auto.
  destruct H4 as [A|[A|A]]; auto; congruence.
Qed.

Theorem no_lost_notification :
  forall (fine : bool) (progs : list (list Z)) (sched : list nat),
    let s := crun (cinit fine progs) sched in
    cterminal s ->
    hd_error (c_log s) = Some (c_sv s) /\ c_flag s = false /\ c_dirty s = false.
Proof.
  intros fine progs sched s T. apply CInv_terminal; auto. apply CInv_crun, CInv_init.
Qed.

(** hypotheses satisfiable: a sender paused between `set.store(true)` and `wake` while the
    receiver consumes the flag and blocks on the effect's lock; two notifications *)
Example no_lost_notification_nontrivial :
  let pre := [1; 1; 1; 1; 0; 1; 1; 1; 0]%nat in
  let s1 := crun (cinit true [[5; 6]%Z]) pre in
  let s := crun (cinit true [[5; 6]%Z]) (pre ++ [1; 0; 0; 0; 0]%nat) in
  (c_rpc s1 = RWantLock /\ c_waitq s1 = [0]%nat /\ c_elock s1 = Some 1%nat)
  /\ c_rpc s = RParked /\ c_rwoken s = false /\ map snd_finished (c_snd s) = [true]
  /\ c_log s = [6; 0]%Z.
Proof. vm_compute. repeat split; reflexivity. Qed.

(* ------------------------------------------------------------------------------------ *)
(** * (a') await path with the waker callbacks as yield points: BOUNDED sweep
    one awaiter (ready() or into_future()) and the completer, every schedule of at most 14
    slots.  (The unbounded theorem [no_lost_wakeup] is about the coarser steps.) *)

Fixpoint scheds (n : nat) : list (list nat) :=
  match n with
  | O => [[]]
  | S k => flat_map (fun l => [0 :: l; 1 :: l]) (scheds k)
  end.

Lemma In_scheds l : Forall (fun t => t < 2) l -> In l (scheds (length l)).
Proof.
  induction 1 as [|t l Ht Hl IH]; cbn; auto.
  apply in_flat_map. exists l. split; auto.
  destruct t as [|[|t]]; cbn; auto. lia.
Qed.

Definition u_all_done (u : ust) : bool :=
  match c_pc (u_s u) with CDone => true | _ => false end
  && forallb (fun a => match a_pc a with ADone v => Z.eqb v VAL | _ => false end) (aws (u_s u)).

Definition u_ok (kind : bool) (l : list nat) : bool :=
  let u := urun (uinit [kind]) l in implb (uterminalb u) (u_all_done u).

Lemma u_sweep : forallb (fun n => forallb (fun l => u_ok false l && u_ok true l) (scheds n)) (seq 0 15) = true.
Proof. vm_compute. reflexivity. Qed.

Theorem no_lost_wakeup_callback_points_bounded :
  forall (kind : bool) (sched : list nat),
    length sched <= 14 -> Forall (fun t => t < 2) sched ->
    let u := urun (uinit [kind]) sched in
    uterminalb u = true -> u_all_done u = true.
Proof.
  intros kind sched Hlen Hall u T.
  pose proof u_sweep as S. rewrite forallb_forall in S.
  assert (Hin : In (length sched) (seq 0 15)) by (apply in_seq; lia).
  specialize (S _ Hin). rewrite forallb_forall in S.
  specialize (S _ (In_scheds _ Hall)). apply andb_true_iff in S as [S0 S1].
  unfold u_ok in *. subst u. destruct kind; [rewrite T in S1|rewrite T in S0]; cbn in *; auto.
Qed.

(** hypotheses satisfiable: the awaiter is pre-empted inside the wakers lock, the completer
    blocks on the lock at its drain and continues when the awaiter has pushed *)
Example callback_points_nontrivial :
  let u1 := urun (uinit [false]) [0; 0; 1; 1; 1; 1]%nat in
  let u := urun (uinit [false]) [0; 0; 1; 1; 1; 1; 0; 0]%nat in
  (u_wl u1 = Some 0%nat /\ u_wq u1 = [1]%nat) /\ uterminalb u = true /\ u_all_done u = true.
Proof. vm_compute. repeat split; reflexivity. Qed.
