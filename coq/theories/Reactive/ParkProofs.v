(** C19 — proofs about the park/wake protocols of Reactive/Park.v. *)
From Coq Require Import List ZArith Bool Arith Lia.
From LV Require Import Reactive.Park.
Import ListNotations.

(* ------------------------------------------------------------------------------------ *)
(** * list update lemmas *)

Lemma upd_length {A} (l : list A) i x : length (upd l i x) = length l.
Proof. revert i; induction l as [|h t IH]; intros [|i]; cbn; auto. Qed.

Lemma nth_upd_eq {A} (l : list A) i x a :
  nth_error l i = Some a -> nth_error (upd l i x) i = Some x.
Proof. revert i; induction l as [|h t IH]; intros [|i]; cbn; try discriminate; auto. Qed.

Lemma nth_upd_ne {A} (l : list A) i j x : i <> j -> nth_error (upd l i x) j = nth_error l j.
Proof.
  revert i j; induction l as [|h t IH]; intros [|i] [|j] H; cbn; auto; try congruence.
Qed.

Lemma nth_upd_none {A} (l : list A) i x : nth_error l i = None -> upd l i x = l.
Proof. revert i; induction l as [|h t IH]; intros [|i]; cbn; try discriminate; auto.
  intros H. now rewrite IH. Qed.

Lemma In_upd {A} (l : list A) i x y : In y (upd l i x) -> y = x \/ In y l.
Proof.
  revert i; induction l as [|h t IH]; intros [|i]; cbn; auto.
  - intros [H|H]; auto.
  - intros [H|H]; auto. destruct (IH _ H); auto.
Qed.

Lemma nth_upd_cases {A} (l : list A) i j x a y :
  nth_error l i = Some a -> nth_error (upd l i x) j = Some y ->
  (j = i /\ y = x) \/ (j <> i /\ nth_error l j = Some y).
Proof.
  intros Hi Hj. destruct (Nat.eq_dec i j) as [->|Hne].
  - rewrite (nth_upd_eq _ _ _ _ Hi) in Hj. left; split; congruence.
  - rewrite nth_upd_ne in Hj by auto. right; auto.
Qed.

(* ------------------------------------------------------------------------------------ *)
(** * (a) await path: invariant of the repaired protocol *)

Definition is_guard (a : awaiter) : bool :=
  match a_pc a with ALoaded GGuard => true | _ => false end.
Definition nguard (l : list awaiter) : nat := length (filter is_guard l).
Definition g1 (a : awaiter) : nat := if is_guard a then 1 else 0.

Lemma nguard_upd l i x a :
  nth_error l i = Some a -> nguard (upd l i x) + g1 a = nguard l + g1 x.
Proof.
  unfold nguard, g1. revert i; induction l as [|h t IH]; intros [|i]; cbn; try discriminate.
  - intros [= ->]. destruct (is_guard a), (is_guard x); cbn; lia.
  - intros H. specialize (IH _ H). destruct (is_guard h); cbn; lia.
Qed.

(** loading is still true / the value has been written *)
Definition cpre (c : cpc) : bool := match c with CStart | CWait | CStored => true | _ => false end.
Definition cwritten (c : cpc) : bool := match c with CStart | CWait => false | _ => true end.

Record Inv (s : ast) : Prop := mkInv {
  I_load : loading s = cpre (c_pc s);
  I_wak : wakers s <> [] -> c_pc s <> CDone;
  I_park : forall i a, nth_error (aws s) i = Some a -> a_pc a = AParked -> a_woken a = false ->
           In i (wakers s);
  I_wbit : wbit s = true <-> c_pc s = CWait;
  I_readers : readers s = nguard (aws s);
  I_wait : c_pc s = CWait -> cwoken s = false -> readers s <> 0;
  I_val : cwritten (c_pc s) = true -> value s = Some VAL;
  I_done : forall a v, In a (aws s) -> a_pc a = ADone v -> v = VAL;
}.

Lemma Inv_init kinds : Inv (ainit kinds).
Proof.
  constructor; cbn -[nguard]; auto; try congruence.
  - intros i a H Hp. apply nth_error_In in H. apply in_map_iff in H as (k & <- & _). discriminate.
  - split; discriminate.
  - induction kinds; cbn; auto.
  - intros a v H Hp. apply in_map_iff in H as (k & <- & _). discriminate.
Qed.

(** changes that the invariant does not see *)
Lemma Inv_set_vq s q : Inv s -> Inv (set_vq s q).
Proof. intros [H1 H2 H3 H4 H5 H6 H7 H8]; constructor; cbn -[nguard]; auto. Qed.

Lemma is_guard_wake a : is_guard (mkA (a_val a) (a_pc a) true (a_polls a)) = is_guard a.
Proof. reflexivity. Qed.

Lemma Inv_wake s i : Inv s -> Inv (wake_aw s i).
Proof.
  intros [H1 H2 H3 H4 H5 H6 H7 H8]. unfold wake_aw.
  destruct (nth_error (aws s) i) as [a|] eqn:Ha; [|constructor; auto].
  constructor; cbn -[nguard]; auto.
  - intros j b Hj Hp Hw. destruct (nth_upd_cases _ _ _ _ _ _ Ha Hj) as [[-> ->]|[Hne Hj']].
    + discriminate.
    + eauto.
  - pose proof (nguard_upd _ _ (mkA (a_val a) (a_pc a) true (a_polls a)) _ Ha) as E.
    unfold g1 in E. rewrite is_guard_wake in E. destruct (is_guard a); lia.
  - intros b v Hb Hp. apply In_upd in Hb as [->|Hb]; eauto.
    cbn in Hp. eapply H8; eauto. eapply nth_error_In; eauto.
Qed.

Lemma Inv_notify1 s : Inv s -> Inv (notify1 s).
Proof.
  intros H. unfold notify1. destruct (existsb snd (vq s)); auto.
  destruct (vq s) as [|[i b] q]; auto. apply Inv_wake, Inv_set_vq, H.
Qed.

Lemma Inv_drop_listener s i : Inv s -> Inv (drop_listener s i).
Proof.
  intros H. unfold drop_listener.
  destruct (existsb _ (vq s)); [apply Inv_notify1|]; apply Inv_set_vq, H.
Qed.

(** waking every registered waker *)
Lemma fold_wake_fields l : forall s,
  let s' := fold_left wake_aw l s in
  loading s' = loading s /\ value s' = value s /\ wakers s' = wakers s /\ readers s' = readers s
  /\ wbit s' = wbit s /\ cwoken s' = cwoken s /\ c_pc s' = c_pc s /\ vq s' = vq s.
Proof.
  induction l as [|i l IH]; intros s; cbn; [repeat split|].
  specialize (IH (wake_aw s i)). cbn in IH.
  assert (E : loading (wake_aw s i) = loading s /\ value (wake_aw s i) = value s
              /\ wakers (wake_aw s i) = wakers s /\ readers (wake_aw s i) = readers s
              /\ wbit (wake_aw s i) = wbit s /\ cwoken (wake_aw s i) = cwoken s
              /\ c_pc (wake_aw s i) = c_pc s /\ vq (wake_aw s i) = vq s).
  { unfold wake_aw. destruct (nth_error (aws s) i); cbn; repeat split. }
  destruct IH as (A1 & A2 & A3 & A4 & A5 & A6 & A7 & A8).
  destruct E as (B1 & B2 & B3 & B4 & B5 & B6 & B7 & B8).
  repeat split; congruence.
Qed.

Lemma fold_wake_nth l : forall s j b,
  nth_error (aws (fold_left wake_aw l s)) j = Some b ->
  exists a, nth_error (aws s) j = Some a /\ a_pc b = a_pc a /\ a_val b = a_val a
            /\ (a_woken b = false -> a_woken a = false /\ ~ In j l).
Proof.
  induction l as [|i l IH]; intros s j b H; cbn in *.
  - exists b. split; [auto|]. split; [auto|]. split; [auto|]. intros Hb; split; auto.
  - apply IH in H as (a & Ha & Hp & Hv & Hw).
    unfold wake_aw in Ha. destruct (nth_error (aws s) i) as [ai|] eqn:Hi.
    + cbn in Ha. destruct (nth_upd_cases _ _ _ _ _ _ Hi Ha) as [[-> ->]|[Hne Ha']].
      * exists ai. split; [auto|]. split; [auto|]. split; [auto|].
        intros Hb. apply Hw in Hb as [Hb _]. discriminate.
      * exists a. split; [auto|]. split; [auto|]. split; [auto|].
        intros Hb. apply Hw in Hb as [Hb Hn]. split; auto.
        intros [E|Hin]; auto.
    + exists a. split; [auto|]. split; [auto|]. split; [auto|].
      intros Hb. apply Hw in Hb as [Hb Hn]. split; auto.
      intros [E|Hin]; auto. subst i. congruence.
Qed.

Lemma Inv_fold_wake l s : Inv s -> Inv (fold_left wake_aw l s).
Proof. revert s; induction l; cbn; auto. intros s H. apply IHl, Inv_wake, H. Qed.

(* ------------------------------------------------------------------------------------ *)
(** * preservation *)

Ltac park_tac Ha :=
  let j := fresh "j" in let b := fresh "b" in let Hj := fresh "Hj" in let Hp := fresh "Hp" in
  let Hwk := fresh "Hwk" in let Hne := fresh "Hne" in let Hj' := fresh "Hj'" in
  intros j b Hj Hp Hwk;
  destruct (nth_upd_cases _ _ _ _ _ _ Ha Hj) as [[-> ->]|[Hne Hj']]; [discriminate|eauto].

Lemma Inv_poll_start s i a :
  Inv s -> nth_error (aws s) i = Some a -> (a_pc a = AStart \/ a_pc a = AParked) ->
  Inv (poll_start i a s).
Proof.
  intros HI Ha Hpc.
  assert (G0 : g1 a = 0) by (unfold g1, is_guard; destruct Hpc as [-> | ->]; reflexivity).
  assert (HV : loading s = false -> cur_value s = VAL).
  { destruct HI as [H1 H2 H3 H4 H5 H6 H7 H8].
    intros Hl. unfold cur_value. rewrite H7; auto. destruct (c_pc s); cbn in *; congruence. }
  unfold poll_start.
  destruct (a_val a) eqn:Hv; [destruct (wbit s) eqn:Hw|]; destruct (loading s) eqn:Hl;
    pose proof HI as [H1 H2 H3 H4 H5 H6 H7 H8].
  - (* listener *)
    refine (mkInv _ _ _ _ _ _ _ _ _); cbn -[nguard]; auto.
    + park_tac Ha.
    + pose proof (nguard_upd _ _ (mkA true (ALoaded GListen) false (S (a_polls a))) _ Ha) as E.
      unfold g1 at 2 in E. cbn in E. lia.
    + intros b v Hb Hp. apply In_upd in Hb as [->|Hb]; [discriminate|eauto].
  - (* (false, Pending): impossible, a waiting writer implies loading *)
    exfalso. apply H4 in Hw. rewrite Hw in H1. cbn in H1. congruence.
  - (* guard *)
    refine (mkInv _ _ _ _ _ _ _ _ _); cbn -[nguard]; auto.
    + park_tac Ha.
    + pose proof (nguard_upd _ _ (mkA true (ALoaded GGuard) false (S (a_polls a))) _ Ha) as E.
      unfold g1 at 2 in E. cbn in E. lia.
    + intros b v Hb Hp. apply In_upd in Hb as [->|Hb]; [discriminate|eauto].
  - (* done *)
    refine (mkInv _ _ _ _ _ _ _ _ _); cbn -[nguard]; auto.
    + park_tac Ha.
    + pose proof (nguard_upd _ _ (mkA true (ADone (cur_value s)) false (S (a_polls a))) _ Ha) as E.
      unfold g1 at 2 in E. cbn in E. lia.
    + intros b v Hb Hp. apply In_upd in Hb as [->|Hb]; [|eauto].
      cbn in Hp. injection Hp as <-. auto.
  - refine (mkInv _ _ _ _ _ _ _ _ _); cbn -[nguard]; auto.
    + park_tac Ha.
    + pose proof (nguard_upd _ _ (mkA false (ALoaded GNone) false (S (a_polls a))) _ Ha) as E.
      unfold g1 at 2 in E. cbn in E. lia.
    + intros b v Hb Hp. apply In_upd in Hb as [->|Hb]; [discriminate|eauto].
  - refine (mkInv _ _ _ _ _ _ _ _ _); cbn -[nguard]; auto.
    + park_tac Ha.
    + pose proof (nguard_upd _ _ (mkA false (ADone (cur_value s)) false (S (a_polls a))) _ Ha) as E.
      unfold g1 at 2 in E. cbn in E. lia.
    + intros b v Hb Hp. apply In_upd in Hb as [->|Hb]; [|eauto].
      cbn in Hp. injection Hp as <-. auto.
Qed.
