(** Model of reactive_graph's async transitions (C10, "every task that awaited it has been resumed
    with a value").
    Anchors: reactive_graph/src/transition.rs ([AsyncTransition::run]: install the transition in
    the global slot remembering the one installed before, run the action, put the previous one
    back, then wait for every ready-channel that was registered meanwhile; [register]: called by
    an async derived value when it is created without a value, with the slot's current content),
    computed/async_derived/arc_async_derived.rs (the part of [spawn_derived!] that registers the
    ready channel and fires it from [set_inner_value]).

    One task awaits [AsyncTransition::run(action)]. The action is a list of items: create an async
    derived value (its fetch future is completed by the history), or await a nested
    [AsyncTransition::run(items)]. The nested awaits make the task a sequential program; it is
    flattened into instructions, and one poll of the task executes instructions until a wait that
    cannot pass. Nodes are numbered in creation order, runs in the order they start. Node k's task
    is task k + 1, the awaiting task is task 0.

    [restore = true] is the code of /repo: leaving an action puts the previously installed
    transition back. [restore = false] is a variant that clears the slot instead (a transition that
    finishes inside the action of another one then uninstalls the outer one too).

    No proofs in this file. *)
From Coq Require Import List Bool Arith.
From LV Require Import Reactive.RxUtil.
Import ListNotations.

Inductive item := New | Nest (l : list item).

Inductive instr :=
| IEnter     (* AsyncTransition::run: install a new transition, remember the previous one *)
| INew       (* ArcAsyncDerived::new & co.: registers its ready channel with the installed transition *)
| ILeave     (* the action's future has finished: put the previous transition back *)
| IWait      (* join_all(pending).await *)
| IResume.   (* the code after run(..).await *)

Fixpoint flat_item (it : item) : list instr :=
  match it with
  | New => [INew]
  | Nest l => IEnter :: (fix go (l : list item) : list instr :=
                           match l with [] => [] | x :: r => flat_item x ++ go r end) l
                     ++ [ILeave; IWait; IResume]
  end.
Definition flat (l : list item) : list instr := flat_map flat_item l.
Definition program (l : list item) : list instr := flat_item (Nest l).

Record nd := mkNd {
  n_done : bool;          (* the fetch future has its result *)
  n_value : bool;         (* the node's task has stored it: value = Some, loading = false, ready channel fired *)
  n_woken : bool;         (* the node's task is in the executor's ready set *)
  n_reg : option nat      (* the transition its ready channel was registered with *)
}.

(** an open [run]: its number, the transition that was installed before it, the number of nodes
    that existed when it started *)
Record frame := mkFr { f_run : nat; f_prev : option nat; f_lo : nat }.

Record tstate := mkT {
  rest : list instr;                       (* what the awaiting task still has to execute *)
  cur : option nat;                        (* the global slot *)
  open : list frame;                       (* innermost first *)
  nodes : list nd;
  snaps : list (option (nat * list bool)); (* per started run: None, or at its resumption (lo, for each
                                              node created inside its action, i.e. from node lo on:
                                              does it hold its value?) *)
  t_woken : bool;
  t_done : bool
}.

Definition start (p : list item) : tstate := mkT (program p) None [] [] [] true false.

Definition holds (ns : list nd) (r : nat) : bool :=
  forallb (fun n => match n_reg n with
                    | Some r' => if r' =? r then n_value n else true
                    | None => true
                    end) ns.

(** execute from the head of [rest] until a wait that cannot pass *)
Fixpoint exec (restore : bool) (is : list instr) (s : tstate) : tstate :=
  match is with
  | [] => mkT [] (cur s) (open s) (nodes s) (snaps s) false true
  | i :: tl =>
      match i with
      | IEnter =>
          let r := length (snaps s) in
          exec restore tl (mkT tl (Some r) (mkFr r (cur s) (length (nodes s)) :: open s) (nodes s)
                               (snaps s ++ [None]) (t_woken s) (t_done s))
      | INew =>
          exec restore tl (mkT tl (cur s) (open s) (nodes s ++ [mkNd false false true (cur s)])
                               (snaps s) (t_woken s) (t_done s))
      | ILeave =>
          let prev := match open s with f :: _ => if restore then f_prev f else None | [] => None end in
          exec restore tl (mkT tl prev (open s) (nodes s) (snaps s) (t_woken s) (t_done s))
      | IWait =>
          match open s with
          | f :: _ =>
              if holds (nodes s) (f_run f)
              then exec restore tl (mkT tl (cur s) (open s) (nodes s) (snaps s) (t_woken s) (t_done s))
              else mkT is (cur s) (open s) (nodes s) (snaps s) false (t_done s)
          | [] => mkT is (cur s) (open s) (nodes s) (snaps s) false (t_done s)
          end
      | IResume =>
          match open s with
          | f :: fs =>
              exec restore tl (mkT tl (cur s) fs (nodes s)
                                   (upd (f_run f) (fun _ => Some (f_lo f, map n_value (skipn (f_lo f) (nodes s))))
                                        (snaps s))
                                   (t_woken s) (t_done s))
          | [] => mkT is (cur s) (open s) (nodes s) (snaps s) false (t_done s)
          end
      end
  end.

(** the run the awaiting task is blocked on, if it is blocked in a wait *)
Definition waiting_on (s : tstate) : option nat :=
  match rest s, open s with
  | IWait :: _, f :: _ => Some (f_run f)
  | _, _ => None
  end.

Inductive event := Complete (f : nat) | Poll (t : nat) | RunAll (picks : list nat).

Definition set_nodes (s : tstate) (ns : list nd) : tstate :=
  mkT (rest s) (cur s) (open s) ns (snaps s) (t_woken s) (t_done s).

Definition complete (f : nat) (s : tstate) : tstate :=
  set_nodes s (upd f (fun n => if n_done n then n else mkNd true (n_value n) true (n_reg n)) (nodes s)).

Definition poll (restore : bool) (t : nat) (s : tstate) : tstate :=
  match t with
  | O => if t_woken s && negb (t_done s) then exec restore (rest s) s else s
  | S k =>
      match nth_error (nodes s) k with
      | Some n =>
          if negb (n_woken n) then s else
          if n_done n && negb (n_value n) then
            (* set_inner_value: store, loading off, fire the ready channel: wakes the awaiting
               task if it is parked on the join of the transition the channel was registered with *)
            let s1 := set_nodes s (upd k (fun n => mkNd true true false (n_reg n)) (nodes s)) in
            let wake := match n_reg n, waiting_on s with
                        | Some r, Some r' => r =? r'
                        | _, _ => false
                        end in
            mkT (rest s1) (cur s1) (open s1) (nodes s1) (snaps s1)
                (if wake then negb (t_done s1) else t_woken s1) (t_done s1)
          else set_nodes s (upd k (fun n => mkNd (n_done n) (n_value n) false (n_reg n)) (nodes s))
      | None => s
      end
  end.

Definition ready (s : tstate) : list nat :=
  (if t_woken s && negb (t_done s) then [0] else []) ++ map S (idx_from n_woken 0 (nodes s)).

Fixpoint run_all (restore : bool) (fuel : nat) (picks : list nat) (s : tstate) : tstate :=
  match fuel with
  | O => s
  | S f =>
      match ready s with
      | [] => s
      | r => run_all restore f (tl picks) (poll restore (nth (Nat.modulo (hd 0 picks) (length r)) r 0) s)
      end
  end.

(** every poll either finishes a node's business, or advances / parks the awaiting task *)
Definition run_fuel (s : tstate) : nat := 4 * (length (rest s) + length (nodes s)) + 8.

Definition step (restore : bool) (s : tstate) (e : event) : tstate :=
  match e with
  | Complete f => complete f s
  | Poll t => poll restore t s
  | RunAll picks => run_all restore (run_fuel s) picks s
  end.

Definition run (restore : bool) (p : list item) (evs : list event) : tstate :=
  fold_left (step restore) evs (start p).

(** end of a case: every future completes, the executor runs until idle; again while nodes appear *)
Fixpoint settle (restore : bool) (fuel : nat) (s : tstate) : tstate :=
  match fuel with
  | O => s
  | S f =>
      let s1 := run_all restore (run_fuel s) [] s in
      if forallb n_done (nodes s1) then s1
      else settle restore f (fold_left (fun s i => complete i s) (seq 0 (length (nodes s1))) s1)
  end.
