(** Pull phase, part 5: reads of signals and of derived signals meet the reader
    specification. *)
From Coq Require Import List ZArith Bool Arith Lia.
From LV Require Import Reactive.Graph Reactive.GraphLemmas Reactive.GraphReplay Reactive.GraphInvariant
                       Reactive.GraphMarkProofs Reactive.GraphPullBase Reactive.GraphPullSteps
                       Reactive.GraphPullDefs Reactive.GraphPullEval.
Import ListNotations.
Close Scope Z_scope.
Open Scope nat_scope.

Section P.
Variable p : prog.
Hypothesis wfp : wf_prog p.
Notation memob := (memob p).
Notation dead := (dead p).
Notation GoneSame := (GoneSame p).
Notation effb := (effb p).
Notation sigb := (sigb p).
Notation Inv := (Inv p).
Notation cur := (cur p).
Notation PullRel := (PullRel p).
Notation RSpec := (RSpec p).

Lemma log_read_nolog c j v t s : log_read c j v t false s = emit (EvRead (fst c) j v t) s.
Proof. unfold log_read. destruct (fst c); reflexivity. Qed.

Lemma obs_of_tracked (c : ctx) stk : ctx_ok stk c -> snd c = true -> exists o, fst c = Some o /\ obs_of c = Some o.
Proof.
  unfold ctx_ok, obs_of. destruct c as [[w|] tr]; cbn; intros H ->; eauto.
  destruct H; discriminate.
Qed.

Lemma obs_of_untracked (c : ctx) : snd c = false -> obs_of c = None.
Proof. unfold obs_of. intros ->. reflexivity. Qed.

Lemma decl_in_range i : (forall tk iv, decl_of p i <> DSig tk iv) -> i < length p.
Proof.
  intros H. destruct (Nat.lt_ge_cases i (length p)); auto.
  exfalso. apply (H false 0%Z). unfold decl_of. apply nth_overflow; auto.
Qed.

Lemma track_dead_none c j s : obs_of c = None -> track_dead c j s = s.
Proof. intros H. unfold track_dead. rewrite H. reflexivity. Qed.

(* a read of a disposed signal / memo: 0, nothing recomputed, a dead source at most *)
Lemma read_gone i m c s stk t :
  (forall x t0 rest, Bool.eqb t0 (m && snd c) = true ->
     rlvl p (S i) m (snd c) i ((i, x, t0) :: rest) = Some (x, rest)) ->
  dead s i = true -> i < t -> CtxDep p c i -> Inv stk t s -> ctx_ok stk c -> TopOK c s ->
  let s' := log_read c i 0 (m && snd c) true (if m then track_dead c i s else s) in
  Inv stk t s' /\ TopOK c s' /\ PullRel (S i) stk (fst c) s s' /\
  Growth c s s' (fun D => forall rest, rlvl p (S i) m (snd c) i (D ++ rest) = Some (0%Z, rest)).
Proof.
  intros Hlv Hg Hit Hcd I C T. cbv zeta.
  assert (Hwr : forall w, fst c = Some w -> w < nlen s).
  { intros w Hw. pose proof (who_on_stack stk c w C Hw) as Hin.
    destruct (inv_frame _ _ _ _ I w Hin) as (_&_&_&_&F5&_). rewrite (wf_len p s (inv_wf _ _ _ _ I)). exact F5. }
  destruct (m && snd c) eqn:Et.
  - apply andb_prop in Et as [-> Hs].
    destruct (obs_of_tracked c stk C Hs) as (o & Hw & Ho).
    destruct (Inv_track_dead p stk t c o i s I C Ho T Hit (Hcd o Hw) Hg) as (I1 & Hp & P1 & Hsro & Hrl).
    set (s1 := track_dead c i s) in *.
    assert (Hg1 : dead s1 i = true) by (rewrite (PullRel_GoneSame p _ _ _ _ _ P1 i); exact Hg).
    destruct (Inv_log_tracked p stk t c o i 0%Z s1 I1 C Hw) as (I2 & T2 & P2); auto.
    + intros k x Hk Hko Hx. rewrite Hsro in Hx by auto. rewrite Hrl.
      destruct (inv_frame _ _ _ _ I k Hk) as (_&_&F3&_). apply F3; auto.
    + intros k Hk. destruct (inv_frame _ _ _ _ I k Hk) as (_&_&_&F4&_). exact F4.
    + intros E. congruence.
    + intros _ E. congruence.
    + split; auto. split; auto. split.
      { rewrite Hw. eapply PullRel_trans; eauto. }
      intros w Hw0. exists [(i, 0%Z, true)]. split.
      { rewrite log_read_rlog_who; auto; [rewrite Hrl; reflexivity|].
        rewrite (pr_len _ _ _ _ _ _ P1). auto. }
      intros rest. apply Hlv. reflexivity.
  - assert (Hs1 : (if m then track_dead c i s else s) = s).
    { destruct m; auto. cbn in Et. apply track_dead_none. apply obs_of_untracked; auto. }
    rewrite Hs1.
    destruct (Inv_log_untracked p stk t c i 0%Z true s I C T) as (I2 & T2 & P2).
    split; auto. split; auto. split; auto.
    intros w Hw0. exists [(i, 0%Z, false)]. split.
    { apply log_read_rlog_who; auto. }
    intros rest. apply Hlv. reflexivity.
Qed.

Lemma read_sig U R i tk iv : decl_of p i = DSig tk iv ->
  forall m c s stk t s' v, i < t -> CtxDep p c i -> Inv stk t s -> ctx_ok stk c -> TopOK c s ->
  node_read p U R m c i s = (s', v) ->
  Inv stk t s' /\ TopOK c s' /\ PullRel (S i) stk (fst c) s s' /\
  (memob i = true -> dead s i = false -> st (getn s' i) = Clean /\ cache (getn s' i) = Some v) /\
  (sigb i = true -> dead s i = false -> v = sval (getn s' i)) /\
  Growth c s s' (fun D => forall rest, rlvl p (S i) m (snd c) i (D ++ rest) = Some (v, rest)).
Proof.
  intros Hd m c s stk t s' v Hit Hcd I C T Hr. unfold node_read in Hr. rewrite Hd in Hr.
  assert (Hnm : memob i = false) by (unfold GraphInvariant.memob; rewrite Hd; auto).
  assert (Hwr : forall w, fst c = Some w -> w < nlen s).
  { intros w Hw. pose proof (who_on_stack stk c w C Hw) as Hin.
    destruct (inv_frame _ _ _ _ I w Hin) as (_&_&_&_&F5&_). rewrite (wf_len p s (inv_wf _ _ _ _ I)). exact F5. }
  assert (Hlvx : forall x t0 rest, Bool.eqb t0 (m && snd c) = true ->
            rlvl p (S i) m (snd c) i ((i, x, t0) :: rest) = Some (x, rest)).
  { intros x t0 rest Ht. cbn [rlvl]. rewrite Nat.eqb_refl, Hd. rewrite ?Nat.eqb_refl. cbn [andb]. rewrite Ht. reflexivity. }
  assert (Hlv := Hlvx (sval (getn s i))).
  assert (Eg : dead s i = sgone (getn s i)) by (apply dead_src; unfold GraphInvariant.effb; rewrite Hd; reflexivity).
  destruct (sgone (getn s i)) eqn:Eg0.
  { inversion Hr; subst s' v. clear Hr.
    destruct (read_gone i m c s stk t Hlvx Eg Hit Hcd I C T) as (I2 & T2 & P2 & G2).
    split; auto. split; auto. split; auto. split; [intros _ E; congruence|]. split; [intros _ E; congruence|exact G2]. }
  destruct (m && snd c) eqn:Et.
  - (* tracked *)
    apply andb_prop in Et as [-> Hs].
    destruct (obs_of_tracked c stk C Hs) as (o & Hw & Ho).
    destruct (Inv_track p stk t c o i s I C Ho T Hit (Hcd o Hw) Eg) as (I1 & Hp & P1 & Hsro & Hrl & _).
    set (s1 := track c i s) in *. inversion Hr; subst s' v. clear Hr.
    destruct (Inv_log_tracked p stk t c o i (sval (getn s1 i)) s1 I1 C Hw) as (I2 & T2 & P2); auto.
    + intros k x Hk Hko Hx. rewrite Hsro in Hx by auto. rewrite Hrl.
      destruct (inv_frame _ _ _ _ I k Hk) as (_&_&F3&_). apply F3; auto.
    + intros k Hk. destruct (inv_frame _ _ _ _ I k Hk) as (_&_&_&F4&_). exact F4.
    + intros _. unfold GraphInvariant.cur. rewrite Hd. reflexivity.
    + intros Hm; congruence.
    + split; auto. split; auto. split.
      { rewrite Hw. eapply PullRel_trans; eauto. }
      split; [intros Hm; congruence|]. split.
      { intros _ _. destruct (log_read_other_fields c i (sval (getn s1 i)) true true s1 i) as (->&_). reflexivity. }
      intros w Hw0. assert (Hsv : sval (getn s1 i) = sval (getn s i)) by (apply (pr_sval _ _ _ _ _ _ P1)).
      exists [(i, sval (getn s i), true)]. split.
      { rewrite Hsv. rewrite log_read_rlog_who; auto; [rewrite Hrl; reflexivity|].
        rewrite (pr_len _ _ _ _ _ _ P1). auto. }
      intros rest. rewrite Hsv. apply Hlv. reflexivity.
  - (* untracked *)
    assert (Hs1 : (if m then track c i s else s) = s).
    { destruct m; auto. cbn in Et. apply track_none. apply obs_of_untracked; auto. }
    rewrite Hs1 in Hr. inversion Hr; subst s' v. clear Hr.
    destruct (Inv_log_untracked p stk t c i (sval (getn s i)) true s I C T) as (I2 & T2 & P2).
    split; auto. split; auto. split; auto.
    split; [intros Hm; congruence|]. split.
    { intros _ _. destruct (log_read_other_fields c i (sval (getn s i)) false true s i) as (->&_). reflexivity. }
    intros w Hw0. exists [(i, sval (getn s i), false)]. split.
    { apply log_read_rlog_who; auto. }
    intros rest. apply Hlv. reflexivity.
Qed.

Lemma read_der U R i e : decl_of p i = DDer e -> RSpec i R ->
  forall m c s stk t s' v, i < t -> CtxDep p c i -> Inv stk t s -> ctx_ok stk c -> TopOK c s ->
  node_read p U R m c i s = (s', v) ->
  Inv stk t s' /\ TopOK c s' /\ PullRel (S i) stk (fst c) s s' /\
  (memob i = true -> dead s i = false -> st (getn s' i) = Clean /\ cache (getn s' i) = Some v) /\
  (sigb i = true -> dead s i = false -> v = sval (getn s' i)) /\
  Growth c s s' (fun D => forall rest, rlvl p (S i) m (snd c) i (D ++ rest) = Some (v, rest)).
Proof.
  intros Hd HR m c s stk t s' v Hit Hcd I C T Hr. unfold node_read in Hr. rewrite Hd in Hr.
  assert (Hnm : memob i = false) by (unfold GraphInvariant.memob; rewrite Hd; auto).
  assert (Hns : sigb i = false) by (unfold GraphInvariant.sigb; rewrite Hd; auto).
  assert (Hil : i < length p).
  { apply decl_in_range. intros tk iv; rewrite Hd; discriminate. }
  assert (Hok : expr_ok p i false e).
  { pose proof (wfp i Hil) as H. rewrite Hd in H. exact H. }
  set (c' := if m then c else (fst c, false)) in *.
  assert (C' : ctx_ok stk c') by (unfold c'; destruct m; auto using ctx_ok_untr).
  assert (Hfc : fst c' = fst c) by (unfold c'; destruct m; auto).
  assert (T' : TopOK c' s) by (unfold TopOK in *; rewrite Hfc; auto).
  destruct (eval p R false c' e s) as [s2 x] eqn:Ev.
  inversion Hr; subst s' v. clear Hr.
  assert (Hdp : forall x, occurs x e -> CtxDep p c' x).
  { intros y Hy w Hw. rewrite Hfc in Hw. eapply dep_trans; [apply (Hcd w Hw)|].
    apply dep_one. unfold dep1. rewrite Hd. exact Hy. }
  destruct (eval_spec p i R HR e c' s stk t s2 x Hok Hdp ltac:(lia) I C' T' Ev) as (I2 & T2 & P2 & G2).
  assert (Hsc : snd c' = m && snd c) by (unfold c'; destruct m; reflexivity).
  rewrite log_read_nolog.
  split; [apply Inv_emit; auto|]. split.
  { unfold TopOK in *. rewrite Hfc in T2. destruct (fst c); auto. }
  split.
  { rewrite Hfc in P2. eapply PullRel_trans; [eapply PullRel_weaken; [|exact P2]; lia|].
    apply PullRel_emit. }
  split; [intros; congruence|]. split; [intros; congruence|].
  intros w Hw0. rewrite <- Hfc in Hw0. destruct (G2 w Hw0) as (D & R2 & Q2). exists D.
  split; [rewrite getn_emit; exact R2|].
  intros rest. cbn [rlvl]. rewrite Nat.eqb_refl, Hd, <- Hsc. apply Q2.
Qed.

End P.
