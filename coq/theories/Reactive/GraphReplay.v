(** Replaying a body over a read log: the specification side of "the value is what recomputing
    the function over the logged reads gives".  [rexpr] evaluates an expression taking every
    read from the log instead of the graph (derived signals are inlined: their inner reads are
    in the log, their own result is not); it fails when the log does not have the shape the
    evaluation produces.  Definitions and small lemmas only. *)
From Coq Require Import List ZArith Bool Arith Lia.
From LV Require Import Reactive.Graph.
Import ListNotations.
Open Scope Z_scope.

Definition lentry := (nat * Z * bool)%type.
Definition rreader := bool -> bool -> nat -> list lentry -> option (Z * list lentry).

Section Rexpr.
Variable Rr : rreader.
Fixpoint rexpr (tr : bool) (e : expr) (l : list lentry) : option (Z * list lentry) :=
  match e with
  | Const z => Some (z, l)
  | Rd j => Rr true tr j l
  | RdU j => Rr false tr j l
  | Untr a => rexpr false a l
  | Add a b =>
      match rexpr tr a l with
      | Some (x, l1) => match rexpr tr b l1 with Some (y, l2) => Some (x + y, l2) | None => None end
      | None => None
      end
  | Lt a b =>
      match rexpr tr a l with
      | Some (x, l1) => match rexpr tr b l1 with
                        | Some (y, l2) => Some (if Z.ltb x y then 1 else 0, l2)
                        | None => None
                        end
      | None => None
      end
  | Ite g a b =>
      match rexpr tr g l with
      | Some (x, l1) => if Z.eqb x 0 then rexpr tr b l1 else rexpr tr a l1
      | None => None
      end
  | Wr _ a => rexpr tr a l
  end.
End Rexpr.

Section P.
Variable p : prog.

(* reading node j (< n) in mode m (true: get, false: get_untracked) in a tracked / untracked
   context: a signal or a memo consumes one entry, a derived signal replays its body *)
Fixpoint rlvl (n : nat) : rreader :=
  match n with
  | O => fun _ _ _ _ => None
  | S n' => fun m tr j l =>
      if Nat.eqb j n' then
        match decl_of p n' with
        | DDer e => rexpr (rlvl n') (m && tr) e l
        | DEff _ _ _ => None
        | _ => match l with
               | (j', v, t) :: l' => if Nat.eqb j' j && Bool.eqb t (m && tr) then Some (v, l') else None
               | [] => None
               end
        end
      else rlvl n' m tr j l
  end.

(* the body of node i over its complete log *)
Definition replay_body (i : nat) (e : expr) (l : list lentry) : option Z :=
  match rexpr (rlvl i) true e l with
  | Some (v, []) => Some v
  | _ => None
  end.

Lemma rlvl_mono (n : nat) : forall (n' : nat) m tr (j : nat) l, (j < n)%nat -> (n <= n')%nat -> rlvl n' m tr j l = rlvl n m tr j l.
Proof.
  intros n'. induction n' as [|k IH]; intros m tr j l Hj Hn; [lia|].
  destruct (Nat.eq_dec n (S k)) as [->|Hne]; auto.
  cbn [rlvl]. destruct (Nat.eqb_spec j k) as [->|Hjk]; [lia|]. apply IH; lia.
Qed.

End P.
