(** Model of reactive_graph's actions (C17).
    Anchors: reactive_graph/src/actions/action.rs ([ArcAction::dispatch] / [dispatch_local],
    [ActionAbortHandle::abort], [ArcAction::clear], [pending]/[version]/[value]/[input]),
    reactive_graph/src/actions/multi_action.rs ([ArcMultiAction::dispatch], [dispatch_sync],
    [ArcSubmission::cancel]); leptos_server/src/{action,multi_action}.rs only wrap these.

    One [task] per dispatch = the future spawned by [dispatch]:
      select_biased! { _ = abort_rx => …, result = fut => … }; if in_flight == 0 { input = None }
    The executor is an explicit part of the history: a task runs only when an event polls it.
    [biased = true] is the code after "fix: an aborted action dispatch never writes its result";
    [biased = false] is the code before it ([futures::select!], which picks pseudo-randomly when
    both branches are ready: the pick is the oracle bit [c] of the poll event).

    No proofs in this file. *)
From Coq Require Import List ZArith Bool Arith.
From LV Require Import Reactive.RxUtil.
Import ListNotations.

(** the abort handle of a dispatch: still held by the caller, consumed by [abort()] (message
    in the channel), or dropped (channel closed without a message: the receiver is then
    *terminated* for [select!], i.e. the abort branch is disabled — dropping is not aborting) *)
Inductive handle := Held | Sent | Dropped.

Record task := mkTask {
  t_woken : bool;            (* in the executor's ready set *)
  t_handle : handle;
  t_result : option Z;       (* the action future's output, once available *)
  t_done : bool;             (* the spawned task has returned *)
  t_curver : nat             (* [current_version] captured at dispatch *)
}.

(** ghost: the writes to [value] in the order they happened (newest first) *)
Inductive wev := Wrote (k : nat) (r : Z) | Cleared.

Record astate := mkA {
  in_flight : nat;
  input : option Z;
  value : option Z;
  version : nat;
  dispatched : nat;          (* ArcStoredValue<usize>: read, never written by the code *)
  tasks : list task;
  wlog : list wev            (* ghost *)
}.

Definition init : astate := mkA 0 None None 0 0 [] [].

Inductive event :=
| Dispatch (i : Z)
| Abort (k : nat)
| DropH (k : nat)
| Complete (k : nat) (r : Z)
| Poll (k : nat) (c : bool)        (* c: take the abort branch if both are ready (pre-fix only) *)
| Clear
| RunAll (picks : list nat) (c : bool).

Definition set_tasks (s : astate) (ts : list task) : astate :=
  mkA (in_flight s) (input s) (value s) (version s) (dispatched s) ts (wlog s).

(** a waker registered by a pending poll (or the initial spawn) puts the task in the ready set;
    a finished task has dropped its receivers: sending to it wakes nothing *)
Definition wake (t : task) : task :=
  if t_done t then t else mkTask true (t_handle t) (t_result t) (t_done t) (t_curver t).

Definition do_dispatch (i : Z) (s : astate) : astate :=
  mkA (S (in_flight s)) (Some i) (value s) (version s) (dispatched s)
      (tasks s ++ [mkTask true Held None false (dispatched s)]) (wlog s).

Definition set_handle (h : handle) (t : task) : task :=
  match t_handle t with
  | Held => wake (mkTask (t_woken t) h (t_result t) (t_done t) (t_curver t))
  | _ => t
  end.

Definition set_result (r : Z) (t : task) : task :=
  match t_result t with
  | None => wake (mkTask (t_woken t) (t_handle t) (Some r) (t_done t) (t_curver t))
  | Some _ => t
  end.

(** [if in_flight.get_untracked() == 0 { input.update(|inp| **inp = None) }] *)
Definition finish_input (s : astate) : astate :=
  if in_flight s =? 0
  then mkA (in_flight s) None (value s) (version s) (dispatched s) (tasks s) (wlog s)
  else s.

Definition finish_task (t : task) : task :=
  mkTask false (t_handle t) (t_result t) true (t_curver t).
Definition unwake (t : task) : task :=
  mkTask false (t_handle t) (t_result t) (t_done t) (t_curver t).

Definition abort_ready (t : task) : bool :=
  match t_handle t with Sent => true | _ => false end.

(** one poll of the task of dispatch [k] *)
Definition poll (biased : bool) (k : nat) (c : bool) (s : astate) : astate :=
  match nth_error (tasks s) k with
  | None => s
  | Some t =>
      if t_done t || negb (t_woken t) then s else
      let take_abort :=
        match t_result t with
        | None => abort_ready t
        | Some _ => abort_ready t && (biased || c)
        end in
      if take_abort then
        (* _ = abort_rx => in_flight -= 1 (saturating) *)
        finish_input (mkA (pred (in_flight s)) (input s) (value s) (version s) (dispatched s)
                          (upd k finish_task (tasks s)) (wlog s))
      else
        match t_result t with
        | Some r =>
            (* result = fut => in_flight -= 1; if dispatched <= current_version { version += 1; value = Some(result) } *)
            let ts := upd k finish_task (tasks s) in
            finish_input
              (if dispatched s <=? t_curver t
               then mkA (pred (in_flight s)) (input s) (Some r) (S (version s)) (dispatched s) ts
                        (Wrote k r :: wlog s)
               else mkA (pred (in_flight s)) (input s) (value s) (version s) (dispatched s) ts (wlog s))
        | None => set_tasks s (upd k unwake (tasks s))
        end
  end.

Definition is_ready (t : task) : bool := t_woken t && negb (t_done t).

Definition ready (s : astate) : list nat := idx_from is_ready 0 (tasks s).
Definition idle (s : astate) : bool := match ready s with [] => true | _ => false end.

(** poll ready tasks until none is ready; the j-th poll takes element [picks[j] mod len] of the
    ascending ready list. No poll readies another task, so [length tasks] polls suffice. *)
Fixpoint run_all (biased : bool) (fuel : nat) (picks : list nat) (c : bool) (s : astate) : astate :=
  match fuel with
  | O => s
  | S f =>
      match ready s with
      | [] => s
      | r => run_all biased f (tl picks) c
                     (poll biased (nth (Nat.modulo (hd 0 picks) (length r)) r 0) c s)
      end
  end.

Definition step (biased : bool) (s : astate) (e : event) : astate :=
  match e with
  | Dispatch i => do_dispatch i s
  | Abort k => set_tasks s (upd k (set_handle Sent) (tasks s))
  | DropH k => set_tasks s (upd k (set_handle Dropped) (tasks s))
  | Complete k r => set_tasks s (upd k (set_result r) (tasks s))
  | Poll k c => poll biased k c s
  | Clear => mkA (in_flight s) (input s) None (version s) (dispatched s) (tasks s)
                 (Cleared :: wlog s)
  | RunAll picks c => run_all biased (length (tasks s)) picks c s
  end.

Definition run (biased : bool) (evs : list event) : astate := fold_left (step biased) evs init.

(** leptos_server's [ArcServerAction::new] / [ServerAction::new]: [ArcAction::new_with_value(err, …)]
    where [err] is the error decoded from a [ServerActionError] context whose path is the server
    function's (a failed form post without JS/WASM, restored from the URL), else [None] *)
Definition init_with (v0 : option Z) : astate := mkA 0 None v0 0 0 [] [].
Definition run_from (v0 : option Z) (biased : bool) (evs : list event) : astate :=
  fold_left (step biased) evs (init_with v0).

(** ** re-entrant histories: one synchronous observer (an ImmediateEffect reading one field of the
    action) that, each time that field is published and while its budget lasts, dispatches to /
    aborts a dispatch of the SAME action from inside the notification. Publications, in the order
    of the code: dispatch = in_flight += 1; input := Some (observers of input run; the task is
    spawned after that); completion = in_flight -= 1; version += 1 (observers of version);
    value := Some r (observers of value); then, for completion and abort alike, if in_flight == 0
    (read at that point): input := None (observers of input); clear = value := None (observers of
    value). Only combinations in which the observer's action does not publish the observed field
    are generated (version | value x dispatch | abort, input x abort): no nested notification.
    The theorems of ActionProofs.v are about [run] (no observer); this part is compared with the
    implementation, not proved. *)
Inductive field := FVersion | FValue | FInput.
Inductive oact := ODispatch (i : Z) | OAbort (k : nat).
Definition observer := (field * oact)%type.

Definition field_eqb (a b : field) : bool :=
  match a, b with
  | FVersion, FVersion | FValue, FValue | FInput, FInput => true
  | _, _ => false
  end.

(** state and remaining budget *)
Definition ostate := (astate * nat)%type.

Definition fire (ob : option observer) (f : field) (sb : ostate) : ostate :=
  match ob, sb with
  | Some (fo, a), (s, S b) =>
      if field_eqb fo f then
        (match a with
         | ODispatch i => do_dispatch i s
         | OAbort k => set_tasks s (upd k (set_handle Sent) (tasks s))
         end, b)
      else sb
  | _, _ => sb
  end.

(** the epilogue of the spawned task: [if in_flight == 0 { input = None }] *)
Definition finish_input_obs (ob : option observer) (sb : ostate) : ostate :=
  if in_flight (fst sb) =? 0
  then fire ob FInput
            (let s := fst sb in mkA (in_flight s) None (value s) (version s) (dispatched s) (tasks s) (wlog s),
             snd sb)
  else sb.

Definition dispatch_obs (ob : option observer) (i : Z) (sb : ostate) : ostate :=
  let s := fst sb in
  (* in_flight += 1; input := Some i; observers of input; then the task is spawned *)
  let s1 := mkA (S (in_flight s)) (Some i) (value s) (version s) (dispatched s) (tasks s) (wlog s) in
  let '(s2, b2) := fire ob FInput (s1, snd sb) in
  (set_tasks s2 (tasks s2 ++ [mkTask true Held None false (dispatched s)]), b2).

Definition poll_obs (ob : option observer) (k : nat) (sb : ostate) : ostate :=
  let s := fst sb in
  match nth_error (tasks s) k with
  | None => sb
  | Some t =>
      if t_done t || negb (t_woken t) then sb else
      let take_abort := abort_ready t in
      if take_abort then
        finish_input_obs ob
          (mkA (pred (in_flight s)) (input s) (value s) (version s) (dispatched s)
               (upd k finish_task (tasks s)) (wlog s), snd sb)
      else
        match t_result t with
        | Some r =>
            let s1 := mkA (pred (in_flight s)) (input s) (value s) (version s) (dispatched s)
                          (upd k finish_task (tasks s)) (wlog s) in
            if dispatched s <=? t_curver t then
              let '(s2, b2) := fire ob FVersion
                                 (mkA (in_flight s1) (input s1) (value s1) (S (version s1)) (dispatched s1)
                                      (tasks s1) (wlog s1), snd sb) in
              let sb3 := fire ob FValue
                           (mkA (in_flight s2) (input s2) (Some r) (version s2) (dispatched s2) (tasks s2)
                                (Wrote k r :: wlog s2), b2) in
              finish_input_obs ob sb3
            else finish_input_obs ob (s1, snd sb)
        | None => (set_tasks s (upd k unwake (tasks s)), snd sb)
        end
  end.

Fixpoint run_all_obs (ob : option observer) (fuel : nat) (picks : list nat) (sb : ostate) : ostate :=
  match fuel with
  | O => sb
  | S f =>
      match ready (fst sb) with
      | [] => sb
      | r => run_all_obs ob f (tl picks) (poll_obs ob (nth (Nat.modulo (hd 0 picks) (length r)) r 0) sb)
      end
  end.

Definition step_obs (ob : option observer) (sb : ostate) (e : event) : ostate :=
  let s := fst sb in
  match e with
  | Dispatch i => dispatch_obs ob i sb
  | Abort k => (set_tasks s (upd k (set_handle Sent) (tasks s)), snd sb)
  | DropH k => (set_tasks s (upd k (set_handle Dropped) (tasks s)), snd sb)
  | Complete k r => (set_tasks s (upd k (set_result r) (tasks s)), snd sb)
  | Poll k _ => poll_obs ob k sb
  | Clear => fire ob FValue
               (mkA (in_flight s) (input s) None (version s) (dispatched s) (tasks s) (Cleared :: wlog s), snd sb)
  | RunAll picks _ => run_all_obs ob (2 * (length (tasks s) + snd sb) + 2) picks sb
  end.

(** [pending()] = ArcMemo(in_flight > 0) *)
Definition pending (s : astate) : bool := negb (in_flight s =? 0).

(** ------------------------------------------------------------------ multi-action *)
Record sub := mkSub {
  s_input : option Z;
  s_value : option Z;
  s_pending : bool;
  s_canceled : bool;
  s_result : option Z;       (* output of the submission's future, once available *)
  s_woken : bool;
  s_done : bool;             (* no task (dispatch_sync) or task returned *)
}.

Record mstate := mkM { m_version : nat; m_subs : list sub }.
Definition minit : mstate := mkM 0 [].

Inductive mevent :=
| MDispatch (i : Z)
| MSync (v : Z)
| MCancel (k : nat)
| MComplete (k : nat) (r : Z)
| MPoll (k : nat)
| MRunAll (picks : list nat).

Definition sub_cancel (u : sub) : sub :=
  mkSub (s_input u) (s_value u) (s_pending u) true (s_result u) (s_woken u) (s_done u).
Definition sub_complete (r : Z) (u : sub) : sub :=
  match s_result u with
  | Some _ => u
  | None => if s_done u then u
            else mkSub (s_input u) (s_value u) (s_pending u) (s_canceled u) (Some r) true (s_done u)
  end.
(** the spawned task: [let v = fut.await; if !canceled { value = Some(v) }; input = None;
    pending = false; version += 1] — returns the new record and whether it finished *)
Definition sub_poll (u : sub) : sub * bool :=
  if s_done u || negb (s_woken u) then (u, false) else
  match s_result u with
  | None => (mkSub (s_input u) (s_value u) (s_pending u) (s_canceled u) None false false, false)
  | Some r =>
      (mkSub None (if s_canceled u then s_value u else Some r) false (s_canceled u)
             (Some r) false true, true)
  end.

Definition mpoll (k : nat) (s : mstate) : mstate :=
  match nth_error (m_subs s) k with
  | None => s
  | Some u =>
      let '(u', fin) := sub_poll u in
      mkM (if fin then S (m_version s) else m_version s) (upd k (fun _ => u') (m_subs s))
  end.

Definition sub_ready (u : sub) : bool := s_woken u && negb (s_done u).
Definition mready (s : mstate) : list nat := idx_from sub_ready 0 (m_subs s).
Definition midle (s : mstate) : bool := match mready s with [] => true | _ => false end.

Fixpoint mrun_all (fuel : nat) (picks : list nat) (s : mstate) : mstate :=
  match fuel with
  | O => s
  | S f =>
      match mready s with
      | [] => s
      | r => mrun_all f (tl picks) (mpoll (nth (Nat.modulo (hd 0 picks) (length r)) r 0) s)
      end
  end.

Definition mstep (s : mstate) (e : mevent) : mstate :=
  match e with
  | MDispatch i => mkM (m_version s) (m_subs s ++ [mkSub (Some i) None true false None true false])
  | MSync v => mkM (S (m_version s)) (m_subs s ++ [mkSub None (Some v) false false None false true])
  | MCancel k => mkM (m_version s) (upd k sub_cancel (m_subs s))
  | MComplete k r => mkM (m_version s) (upd k (sub_complete r) (m_subs s))
  | MPoll k => mpoll k s
  | MRunAll picks => mrun_all (length (m_subs s)) picks s
  end.

Definition mrun (evs : list mevent) : mstate := fold_left mstep evs minit.
