(** Executable entry point of the C17 model for the correspondence check.
    case (0 variant events [restore]) : single action — the variant (Arc / arena / local / server)
                              is not modelled, all run the same [dispatch] code; restore: see
                              [restored];
    case (1 events)         : multi-action.
    events: (0 i) dispatch, (1 k) abort / cancel, (2 k r) complete, (3 k c) poll, (4) clear,
            (5 picks) run until idle, (6 k) drop the abort handle, (7 v) dispatch_sync. *)
From Coq Require Import List ZArith Bool.
From LV Require Import Base.Sexp Reactive.Action.
Import ListNotations.

Definition dec_event (e : sexp) : option event :=
  match as_Z (nth_s 0 e) with
  | 0%Z => Some (Dispatch (as_Z (nth_s 1 e)))
  | 1%Z => Some (Abort (as_nat (nth_s 1 e)))
  | 2%Z => Some (Complete (as_nat (nth_s 1 e)) (as_Z (nth_s 2 e)))
  | 3%Z => Some (Poll (as_nat (nth_s 1 e)) (as_bool (nth_s 2 e)))
  | 4%Z => Some Clear
  | 5%Z => Some (RunAll (as_nats (nth_s 1 e)) true)
  | 6%Z => Some (DropH (as_nat (nth_s 1 e)))
  | _ => None
  end.

Definition s_optZ (o : option Z) : sexp := sopt Num o.

Definition obs (s : astate) : sexp :=
  Lst [sbool (pending s); snat (version s); s_optZ (value s); s_optZ (input s); sbool (idle s)].

Fixpoint trace (biased : bool) (s : astate) (evs : list sexp) : list sexp :=
  match evs with
  | [] => []
  | e :: r =>
      let s' := match dec_event e with Some ev => step biased s ev | None => s end in
      obs s' :: trace biased s' r
  end.

(** optional 5th element of a single-action case: (field action arg budget), a synchronous
    observer of field (0 version, 1 value, 2 input) that dispatches arg (action 0) / aborts dispatch
    arg (action 1) from inside the notification, at most budget times *)
Definition dec_observer (x : sexp) : option (observer * nat) :=
  match x with
  | Lst [Num f; Num a; Num arg; Num b] =>
      let fd := match f with 0%Z => FVersion | 1%Z => FValue | _ => FInput end in
      let ac := match a with 0%Z => ODispatch arg | _ => OAbort (Z.to_nat arg) end in
      Some ((fd, ac), Z.to_nat b)
  | _ => None
  end.

Fixpoint trace_obs (ob : option observer) (sb : ostate) (evs : list sexp) : list sexp :=
  match evs with
  | [] => []
  | e :: r =>
      let sb' := match dec_event e with Some ev => step_obs ob sb ev | None => sb end in
      obs (fst sb') :: trace_obs ob sb' r
  end.

Definition dec_mevent (e : sexp) : option mevent :=
  match as_Z (nth_s 0 e) with
  | 0%Z => Some (MDispatch (as_Z (nth_s 1 e)))
  | 1%Z => Some (MCancel (as_nat (nth_s 1 e)))
  | 2%Z => Some (MComplete (as_nat (nth_s 1 e)) (as_Z (nth_s 2 e)))
  | 3%Z => Some (MPoll (as_nat (nth_s 1 e)))
  | 5%Z => Some (MRunAll (as_nats (nth_s 1 e)))
  | 7%Z => Some (MSync (as_Z (nth_s 1 e)))
  | _ => None
  end.

Definition mobs (s : mstate) : sexp :=
  Lst [snat (m_version s);
       Lst (map (fun u => Lst [s_optZ (s_input u); s_optZ (s_value u);
                               sbool (s_pending u); sbool (s_canceled u)]) (m_subs s));
       sbool (midle s)].

Fixpoint mtrace (s : mstate) (evs : list sexp) : list sexp :=
  match evs with
  | [] => []
  | e :: r =>
      let s' := match dec_mevent e with Some ev => mstep s ev | None => s end in
      mobs s' :: mtrace s' r
  end.

(** optional 4th element of a single-action case (server actions only): (p r) = the action is
    created under a ServerActionError context; p = 1: for this server function's path, carrying
    the encoded error r; p = 2: for this path, with an undecodable payload (the action then starts
    with a Deserialization error, which the harness prints as -1000001); p = 0: for another path *)
Definition restored (x : sexp) : option Z :=
  match x with
  | Lst [Num 1%Z; Num r] => Some r
  | Lst [Num 2%Z; _] => Some (-1000001)%Z
  | _ => None
  end.

(** opcode 2 = the single-action case on the code as it was before the fix (unbiased select):
    only used by the corpus witness, never compared with the implementation *)
Definition run_C17 (c : sexp) : sexp :=
  match as_Z (nth_s 0 c) with
  | 0%Z =>
      match dec_observer (nth_s 4 c) with
      | Some (ob, b) => Lst (trace_obs (Some ob) (init_with (restored (nth_s 3 c)), b) (as_list (nth_s 2 c)))
      | None => Lst (trace true (init_with (restored (nth_s 3 c))) (as_list (nth_s 2 c)))
      end
  | 1%Z => Lst (mtrace minit (as_list (nth_s 1 c)))
  | 2%Z => Lst (trace false init (as_list (nth_s 2 c)))
  | _ => Lst []
  end.
