(** C18 — what the parser of Html/MacroParse.v does on the pieces of HTML the macro paths emit:
    escaped text, markers, start tags with printed attributes, end tags, raw text. *)
From Coq Require Import List NArith Bool Lia.
From LV Require Import Base.Bytes Html.Macro Html.MacroParse Html.MacroSort.
Import ListNotations.
Open Scope N_scope.

Lemma feed_app : forall a b st, feed st (a ++ b) = feed (feed st a) b.
Proof. intros. unfold feed. apply fold_left_app. Qed.
Lemma feed_cons : forall c s st, feed st (c :: s) = feed (step st c) s.
Proof. reflexivity. Qed.
Lemma feed_nil : forall st, feed st [] = st.
Proof. reflexivity. Qed.

Lemma push_text_app : forall a b cur, push_text (a ++ b) cur = push_text b (push_text a cur).
Proof. intros. unfold push_text. apply fold_left_app. Qed.
Lemma push_text_cons : forall c s cur, push_text (c :: s) cur = push_text s (push_char c cur).
Proof. reflexivity. Qed.
Lemma push_text_nil : forall cur, push_text [] cur = cur.
Proof. reflexivity. Qed.
Lemma push_text_one : forall c cur, push_text [c] cur = push_char c cur.
Proof. reflexivity. Qed.

Lemma enc_text_cons : forall c s, enc_text (c :: s) = enc_text_char c ++ enc_text s.
Proof. reflexivity. Qed.
Lemma enc_attr_cons : forall c s, enc_attr (c :: s) = enc_attr_char c ++ enc_attr s.
Proof. reflexivity. Qed.
Lemma enc_text_app : forall a b, enc_text (a ++ b) = enc_text a ++ enc_text b.
Proof. intros. unfold enc_text. apply flat_map_app. Qed.

(** ---- escaped text in the data state ---- *)
Lemma feed_enc_text_char : forall c k cur,
    feed (St MData k cur) (enc_text_char c) = St MData k (push_char c cur).
Proof.
  intros c k cur. unfold enc_text_char.
  destruct (c =? 38) eqn:E1; [apply N.eqb_eq in E1; subst; reflexivity|].
  destruct (c =? 60) eqn:E2; [apply N.eqb_eq in E2; subst; reflexivity|].
  destruct (c =? 62) eqn:E3; [apply N.eqb_eq in E3; subst; reflexivity|].
  rewrite feed_cons, feed_nil. cbn [step]. unfold data_char. now rewrite E2, E1.
Qed.

Lemma feed_enc_text : forall s k cur,
    feed (St MData k cur) (enc_text s) = St MData k (push_text s cur).
Proof.
  induction s as [|c s IH]; intros k cur; [reflexivity|].
  rewrite enc_text_cons, feed_app, feed_enc_text_char, IH. reflexivity.
Qed.

Lemma feed_marker : forall k cur, feed (St MData k cur) marker = St MData k cur.
Proof. reflexivity. Qed.

(** ---- escaped text in the escapable-raw-text state (title) ---- *)
Lemma feed_enc_text_char_rc : forall t c k cur,
    feed (St (MRc t) k cur) (enc_text_char c) = St (MRc t) k (push_char c cur).
Proof.
  intros t c k cur. unfold enc_text_char.
  destruct (c =? 38) eqn:E1; [apply N.eqb_eq in E1; subst; reflexivity|].
  destruct (c =? 60) eqn:E2; [apply N.eqb_eq in E2; subst; reflexivity|].
  destruct (c =? 62) eqn:E3; [apply N.eqb_eq in E3; subst; reflexivity|].
  rewrite feed_cons, feed_nil. cbn [step]. unfold rc_char. now rewrite E2, E1.
Qed.

Lemma feed_enc_text_rc : forall t s k cur,
    feed (St (MRc t) k cur) (enc_text s) = St (MRc t) k (push_text s cur).
Proof.
  induction s as [|c s IH]; intros k cur; [reflexivity|].
  rewrite enc_text_cons, feed_app, feed_enc_text_char_rc, IH. reflexivity.
Qed.

(** ---- escaped attribute values ---- *)
Lemma feed_enc_attr_char : forall t a n v c k cur,
    feed (St (MAttrVal t a n v) k cur) (enc_attr_char c) = St (MAttrVal t a n (v ++ [c])) k cur.
Proof.
  intros t a n v c k cur. unfold enc_attr_char.
  destruct (c =? 38) eqn:E1; [apply N.eqb_eq in E1; subst; reflexivity|].
  destruct (c =? 60) eqn:E2; [apply N.eqb_eq in E2; subst; reflexivity|].
  destruct (c =? 62) eqn:E3; [apply N.eqb_eq in E3; subst; reflexivity|].
  destruct (c =? 34) eqn:E4; [apply N.eqb_eq in E4; subst; reflexivity|].
  rewrite feed_cons, feed_nil. cbn [step]. unfold val_char. now rewrite E4, E1.
Qed.

Lemma feed_enc_attr : forall t a n s v k cur,
    feed (St (MAttrVal t a n v) k cur) (enc_attr s) = St (MAttrVal t a n (v ++ s)) k cur.
Proof.
  induction s as [|c s IH]; intros v k cur; [now rewrite app_nil_r|].
  rewrite enc_attr_cons, feed_app, feed_enc_attr_char, IH, <- app_assoc. reflexivity.
Qed.

(** ---- names ---- *)
Definition name_okb (n : bytes) : bool := negb (is_nil n) && forallb is_name_char n.

Lemma name_char_not : forall c, is_name_char c = true ->
    (c =? 62) = false /\ (c =? 61) = false /\ (c =? 33) = false /\ (c =? 47) = false /\ (c =? 32) = false.
Proof.
  intros c H. repeat split.
  all: match goal with |- (?y =? ?x) = false =>
         destruct (y =? x) eqn:E; [apply N.eqb_eq in E; subst; vm_compute in H; discriminate | reflexivity] end.
Qed.

Lemma feed_open_name : forall n n0 k cur, forallb is_name_char n = true ->
    feed (St (MOpenName n0) k cur) n = St (MOpenName (n0 ++ n)) k cur.
Proof.
  induction n as [|c n IH]; intros n0 k cur H; [now rewrite app_nil_r|].
  cbn [forallb] in H. apply andb_true_iff in H as [Hc Hn].
  rewrite feed_cons. cbn [step]. rewrite Hc, IH by assumption. now rewrite <- app_assoc.
Qed.

Lemma feed_close_name : forall n n0 k cur, forallb is_name_char n = true ->
    feed (St (MCloseName n0) k cur) n = St (MCloseName (n0 ++ n)) k cur.
Proof.
  induction n as [|c n IH]; intros n0 k cur H; [now rewrite app_nil_r|].
  cbn [forallb] in H. apply andb_true_iff in H as [Hc Hn].
  rewrite feed_cons. cbn [step]. rewrite Hc, IH by assumption. now rewrite <- app_assoc.
Qed.

Lemma feed_attr_name : forall n t a n0 k cur, forallb is_name_char n = true ->
    feed (St (MAttrName t a n0) k cur) n = St (MAttrName t a (n0 ++ n)) k cur.
Proof.
  induction n as [|c n IH]; intros t a n0 k cur H; [now rewrite app_nil_r|].
  cbn [forallb] in H. apply andb_true_iff in H as [Hc Hn].
  rewrite feed_cons. cbn [step]. rewrite Hc, IH by assumption. now rewrite <- app_assoc.
Qed.

Lemma feed_rawclose_name : forall n t n0 k cur, forallb is_name_char n = true ->
    feed (St (MRawClose t n0) k cur) n = St (MRawClose t (n0 ++ n)) k cur.
Proof.
  induction n as [|c n IH]; intros t n0 k cur H; [now rewrite app_nil_r|].
  cbn [forallb] in H. apply andb_true_iff in H as [Hc Hn].
  rewrite feed_cons. cbn [step]. destruct (name_char_not c Hc) as (E & _). rewrite E.
  rewrite IH by assumption. now rewrite <- app_assoc.
Qed.

Lemma feed_rcclose_name : forall n t n0 k cur, forallb is_name_char n = true ->
    feed (St (MRcClose t n0) k cur) n = St (MRcClose t (n0 ++ n)) k cur.
Proof.
  induction n as [|c n IH]; intros t n0 k cur H; [now rewrite app_nil_r|].
  cbn [forallb] in H. apply andb_true_iff in H as [Hc Hn].
  rewrite feed_cons. cbn [step]. destruct (name_char_not c Hc) as (E & _). rewrite E.
  rewrite IH by assumption. now rewrite <- app_assoc.
Qed.

Lemma name_okb_inv : forall n, name_okb n = true ->
    exists c r, n = c :: r /\ is_name_char c = true /\ forallb is_name_char r = true.
Proof.
  intros [|c r] H; unfold name_okb in H; cbn in H; [discriminate|].
  apply andb_true_iff in H as [Hc Hr]. now exists c, r.
Qed.

Lemma name_okb_all : forall n, name_okb n = true -> forallb is_name_char n = true.
Proof. intros n H. unfold name_okb in H. now apply andb_true_iff in H as [_ H]. Qed.

(** ---- printed attributes ---- *)
Definition val_of (kv : bytes * option bytes) : bytes * bytes :=
  (fst kv, match snd kv with None => [] | Some v => v end).

(** "we are inside the start tag of [t] and have read the attributes [a]" *)
Definition attr_pos (t : bytes) (a : list (bytes * bytes)) (m : mode) : Prop :=
  (m = MOpenName t /\ a = [])
  \/ m = MAttrs t a
  \/ (exists a0 n, m = MAttrName t a0 n /\ a = a0 ++ [(n, [])]).

Lemma attr_pos_space : forall t a m k cur, attr_pos t a m ->
    step (St m k cur) 32 = St (MAttrs t a) k cur.
Proof.
  intros t a m k cur [[-> ->] | [-> | (a0 & n & -> & ->)]]; reflexivity.
Qed.

Lemma attr_pos_gt : forall t a m k cur, attr_pos t a m ->
    step (St m k cur) 62 = open_tag t a k cur.
Proof.
  intros t a m k cur [[-> ->] | [-> | (a0 & n & -> & ->)]]; reflexivity.
Qed.

Lemma feed_print_attr : forall t a m k cur kv,
    attr_pos t a m -> name_okb (fst kv) = true ->
    exists m', feed (St m k cur) (print_attr kv) = St m' k cur /\ attr_pos t (a ++ [val_of kv]) m'.
Proof.
  intros t a m k cur [n v] Hp Hn. cbn [fst] in Hn.
  destruct (name_okb_inv n Hn) as (c & r & -> & Hc & Hr).
  unfold print_attr. cbn [fst snd]. destruct v as [v|]; cbn [app].
  - rewrite feed_cons, (attr_pos_space _ _ _ _ _ Hp), feed_cons. cbn [step]. rewrite Hc.
    rewrite feed_app, feed_attr_name by assumption. cbn [app].
    rewrite feed_cons. cbn [step].
    replace (is_name_char 61) with false by reflexivity. cbn [N.eqb Pos.eqb].
    rewrite feed_cons. cbn [step N.eqb Pos.eqb].
    rewrite feed_app, feed_enc_attr. cbn [app]. rewrite feed_cons, feed_nil. cbn [step val_char N.eqb Pos.eqb].
    eexists. split; [reflexivity|]. right. left. reflexivity.
  - rewrite feed_cons, (attr_pos_space _ _ _ _ _ Hp), feed_cons. cbn [step]. rewrite Hc.
    rewrite app_nil_r, feed_attr_name by assumption.
    eexists. split; [reflexivity|]. right. right. now exists a, (c :: r).
Qed.

Lemma feed_print_attrs : forall l t a m k cur,
    attr_pos t a m -> forallb (fun kv => name_okb (fst kv)) l = true ->
    exists m', feed (St m k cur) (print_attrs l) = St m' k cur /\ attr_pos t (a ++ map val_of l) m'.
Proof.
  induction l as [|kv l IH]; intros t a m k cur Hp Hl.
  - exists m. split; [reflexivity | now rewrite app_nil_r].
  - cbn [forallb] in Hl. apply andb_true_iff in Hl as [Hkv Hl].
    unfold print_attrs. cbn [flat_map]. fold (print_attrs l). rewrite feed_app.
    destruct (feed_print_attr t a m k cur kv Hp Hkv) as (m1 & E1 & P1). rewrite E1.
    destruct (IH t _ m1 k cur P1 Hl) as (m2 & E2 & P2). exists m2. split; [exact E2|].
    cbn [map]. now rewrite <- app_assoc in P2.
Qed.

(** a whole start tag *)
Lemma feed_start_tag : forall tag l k cur,
    name_okb tag = true -> forallb (fun kv => name_okb (fst kv)) l = true ->
    feed (St MData k cur) ([60] ++ tag ++ print_attrs l ++ [62]) = open_tag tag (map val_of l) k cur.
Proof.
  intros tag l k cur Ht Hl.
  destruct (name_okb_inv tag Ht) as (c & r & -> & Hc & Hr).
  cbn [app]. rewrite feed_cons. cbn [step data_char N.eqb Pos.eqb]. rewrite feed_cons. cbn [step].
  destruct (name_char_not c Hc) as (_ & _ & E33 & E47 & _). rewrite E33, E47, Hc.
  rewrite feed_app, feed_open_name by assumption. cbn [app]. rewrite feed_app.
  destruct (feed_print_attrs l (c :: r) [] (MOpenName (c :: r)) k cur) as (m' & E & P);
    [left; now split | assumption|].
  rewrite E. rewrite feed_cons, feed_nil. cbn [app] in P. now apply attr_pos_gt.
Qed.

(** an end tag, in the data state *)
Lemma feed_end_tag : forall tag a pc k cur,
    name_okb tag = true ->
    feed (St MData ((tag, a, pc) :: k) cur) ([60; 47] ++ tag ++ [62])
    = St MData k (TElem tag (norm_attrs a) (rev cur) :: pc).
Proof.
  intros tag a pc k cur Ht. cbn [app]. rewrite !feed_cons. cbn [step data_char N.eqb Pos.eqb].
  rewrite feed_app, feed_close_name by now apply name_okb_all. cbn [app].
  rewrite feed_cons, feed_nil. cbn [step].
  replace (is_name_char 62) with false by reflexivity. cbn [N.eqb Pos.eqb].
  unfold close_tag. now rewrite beq_refl.
Qed.

(** an end tag after escapable raw text *)
Lemma feed_end_tag_rc : forall tag a pc k cur,
    name_okb tag = true ->
    feed (St (MRc tag) ((tag, a, pc) :: k) cur) ([60; 47] ++ tag ++ [62])
    = St MData k (TElem tag (norm_attrs a) (rev cur) :: pc).
Proof.
  intros tag a pc k cur Ht. cbn [app]. rewrite !feed_cons. cbn [step rc_char N.eqb Pos.eqb].
  rewrite feed_app, feed_rcclose_name by now apply name_okb_all. cbn [app].
  rewrite feed_cons, feed_nil. cbn [step N.eqb Pos.eqb]. rewrite beq_refl.
  unfold close_tag. now rewrite beq_refl.
Qed.

(** ---- raw text: everything up to the first "</" is text ---- *)
Fixpoint no_lt_slash (s : bytes) : bool :=
  match s with
  | [] => true
  | c :: r => negb ((c =? 60) && match r with d :: _ => d =? 47 | [] => false end) && no_lt_slash r
  end.

(** the text logically read so far = what was pushed, plus a pending '<' in state [MRawLt] *)
Lemma feed_raw_text : forall s t k cur,
    no_lt_slash s = true ->
    (feed (St (MRaw t) k cur) s = St (MRaw t) k (push_text s cur) /\ (last s 0 =? 60) = false)
    \/ (exists s', s = s' ++ [60] /\ feed (St (MRaw t) k cur) s = St (MRawLt t) k (push_text s' cur)).
Proof.
  intros s t. induction s as [|c s IH] using rev_ind; intros k cur H.
  - left. split; reflexivity.
  - assert (Hs : no_lt_slash s = true /\ (((last s 0 =? 60) && (c =? 47)) = false)).
    { clear IH. induction s as [|d s IHs]; [split; reflexivity|].
      cbn [app no_lt_slash] in H. apply andb_true_iff in H as [H1 H2].
      destruct s as [|e s].
      - cbn [app] in H1. cbn [no_lt_slash last]. split.
        + destruct (d =? 60); reflexivity.
        + apply negb_true_iff in H1. exact H1.
      - destruct (IHs H2) as [H3 H4]. split.
        + cbn [no_lt_slash]. cbn [app] in H1. rewrite H1. exact H3.
        + exact H4. }
    destruct Hs as [Hs Hc]. rewrite feed_app. destruct (IH k cur Hs) as [[E L] | (s' & -> & E)].
    + rewrite E, feed_cons, feed_nil. cbn [step]. destruct (c =? 60) eqn:E60.
      * right. exists s. apply N.eqb_eq in E60. subst. split; reflexivity.
      * left. split; [now rewrite push_text_app | rewrite last_last; exact E60].
    + rewrite E, feed_cons, feed_nil. cbn [step]. rewrite last_last in Hc. cbn [N.eqb Pos.eqb andb] in Hc.
      rewrite Hc. destruct (c =? 60) eqn:E60.
      * right. exists (s' ++ [60]). apply N.eqb_eq in E60. subst. split; [reflexivity|].
        now rewrite push_text_app.
      * left. split; [|rewrite last_last; exact E60].
        now rewrite !push_text_app.
Qed.

Lemma feed_raw_element_end : forall s tag a pc k cur,
    name_okb tag = true -> no_lt_slash s = true ->
    feed (St (MRaw tag) ((tag, a, pc) :: k) cur) (s ++ [60; 47] ++ tag ++ [62])
    = St MData k (TElem tag (norm_attrs a) (rev (push_text s cur)) :: pc).
Proof.
  intros s tag a pc k cur Ht Hs. rewrite feed_app.
  assert (Hclose : forall cur', feed (St (MRawClose tag []) ((tag, a, pc) :: k) cur') (tag ++ [62])
                                = St MData k (TElem tag (norm_attrs a) (rev cur') :: pc)).
  { intros cur'. rewrite feed_app, feed_rawclose_name by now apply name_okb_all. cbn [app].
    rewrite feed_cons, feed_nil. cbn [step N.eqb Pos.eqb]. rewrite beq_refl. unfold close_tag. now rewrite beq_refl. }
  destruct (feed_raw_text s tag ((tag, a, pc) :: k) cur Hs) as [[E _] | (s' & -> & E)]; rewrite E.
  - cbn [app]. rewrite !feed_cons. cbn [step N.eqb Pos.eqb]. apply Hclose.
  - cbn [app]. rewrite !feed_cons. cbn [step N.eqb Pos.eqb]. rewrite Hclose.
    now rewrite push_text_app.
Qed.
