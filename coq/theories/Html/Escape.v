(** C06 — what html_escape 0.2.13 does (encode/html_entity/mod.rs), byte level.
    [encode_text]: & < > ; [encode_double_quoted_attribute]: the same and the double quote.
    Every other byte is copied (multi-byte UTF-8 sequences contain no ASCII byte, so byte-wise
    replacement is what the crate's loop over [text_bytes] does). No proofs in this file. *)
From Coq Require Import List NArith Bool.
From LV Require Import Base.Bytes.
Import ListNotations.
Open Scope N_scope.

Definition e_amp : bytes := [38; 97; 109; 112; 59].          (* &amp; *)
Definition e_lt : bytes := [38; 108; 116; 59].               (* &lt; *)
Definition e_gt : bytes := [38; 103; 116; 59].               (* &gt; *)
Definition e_quot : bytes := [38; 113; 117; 111; 116; 59].   (* &quot; *)

Definition esc_text_byte (b : N) : bytes :=
  if b =? 38 then e_amp else if b =? 60 then e_lt else if b =? 62 then e_gt else [b].
Definition encode_text (s : bytes) : bytes := flat_map esc_text_byte s.

Definition esc_attr_byte (b : N) : bytes :=
  if b =? 38 then e_amp else if b =? 60 then e_lt else if b =? 62 then e_gt
  else if b =? 34 then e_quot else [b].
Definition encode_dq (s : bytes) : bytes := flat_map esc_attr_byte s.
