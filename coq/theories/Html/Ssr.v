(** C06 — what tachys' server rendering does for a small view grammar, and the tree a browser
    is expected to build from it.

    Transcribes, byte level: RenderHtml::to_html_with_buf for String / char / integer / unit
    children (tachys/src/view/{strings,primitives,tuples}.rs: the [<!>] separator after a text
    sibling, the placeholder space for an empty string, escaping iff the parent escapes),
    HtmlElement::to_html_with_buf and attributes_to_html (html/element/mod.rs: regular
    attributes in order, then class, then style, both trimmed and escaped; children rendered
    iff the element is not self-closing; the content of textarea escaped as a whole since
    commit 0599234; script and style children raw), AttributeValue::to_html for strings and
    booleans (html/attribute/value.rs), class / style assembly (html/class.rs, html/style.rs),
    and leptos_meta's inject_meta_context over the harness's fixed shell (meta/src/lib.rs:
    title text escaped since commit 081c916).  No proofs in this file. *)
From Coq Require Import List ZArith NArith Bool.
From LV Require Import Base.Bytes Html.Escape Html.Tokenizer Html.Script.
Import ListNotations.
Open Scope N_scope.

(** * views *)
Inductive tag := Div | Span | Section | Input | Br | Img | Textarea | Title | ScriptT | StyleT.

Inductive vattr :=
| AStr (name value : bytes)          (* custom_attribute(name, String) *)
| ABool (name : bytes) (on : bool)   (* custom_attribute(name, bool) *)
| AClass (value : bytes)             (* class(String) *)
| AToggle (name : bytes) (on : bool) (* class((name, bool)) *)
| AStyle (value : bytes)             (* style(String) *)
| AProp (name value : bytes)         (* style((name, String)) *)
| AId (value : bytes).               (* id(String) *)

Inductive view :=
| VText (s : bytes)                  (* String child *)
| VChar (c : N)                      (* char child (a scalar value) *)
| VNum (z : Z)                       (* i64 child *)
| VUnit                              (* () *)
| VEl (t : tag) (attrs : list vattr) (kids : list view).

Definition tag_name (t : tag) : bytes :=
  match t with
  | Div => [100; 105; 118]
  | Span => [115; 112; 97; 110]
  | Section => [115; 101; 99; 116; 105; 111; 110]
  | Input => [105; 110; 112; 117; 116]
  | Br => [98; 114]
  | Img => [105; 109; 103]
  | Textarea => textarea_name
  | Title => title_name
  | ScriptT => script_name
  | StyleT => style_name
  end.

Definition is_void (t : tag) : bool := match t with Input | Br | Img => true | _ => false end.
(** ElementType::ESCAPE_CHILDREN *)
Definition escape_children (t : tag) : bool :=
  match t with Textarea | ScriptT | StyleT => false | _ => true end.

(** * text-like children *)
(** i64 as Display *)
Definition dec_z (z : Z) : bytes :=
  match z with
  | Z0 => [48]
  | Zpos p => dec (Npos p)
  | Zneg p => 45 :: dec (Npos p)
  end.

(** the text a text-like child stands for; [None]: not text-like *)
Definition leaf_text (v : view) : option bytes :=
  match v with
  | VText s => Some s
  | VChar c => Some (utf8 c)
  | VNum z => Some (dec_z z)
  | _ => None
  end.

(** view::Position, as far as SSR distinguishes it *)
Inductive pos := FirstChild | NextChild | AfterText.

Definition marker : bytes := [60; 33; 62].   (* <!> *)

(** * attributes (attributes_to_html) *)
Definition attr_html (name value : bytes) : bytes :=
  [32] ++ name ++ [61; 34] ++ encode_dq value ++ [34].

(** White_Space (what str::trim_start / trim_end remove), as UTF-8 *)
Definition ws1 (a : N) : bool := in_range 9 13 a || (a =? 32).
Definition ws2 (a b : N) : bool := (a =? 194) && ((b =? 133) || (b =? 160)).
Definition ws3 (a b c : N) : bool :=
  ((a =? 225) && (b =? 154) && (c =? 128))
  || ((a =? 226) && (b =? 128) && (in_range 128 138 c || (c =? 168) || (c =? 169) || (c =? 175)))
  || ((a =? 226) && (b =? 129) && (c =? 159))
  || ((a =? 227) && (b =? 128) && (c =? 128)).

Fixpoint trim_start (s : bytes) : bytes :=
  match s with
  | a :: t =>
      if ws1 a then trim_start t
      else match t with
           | b :: t' =>
               if ws2 a b then trim_start t'
               else match t' with
                    | c :: t'' => if ws3 a b c then trim_start t'' else s
                    | [] => s
                    end
           | [] => s
           end
  | [] => []
  end.
(** on the reversed string the encodings are reversed too *)
Fixpoint trim_start_rev (s : bytes) : bytes :=
  match s with
  | a :: t =>
      if ws1 a then trim_start_rev t
      else match t with
           | b :: t' =>
               if ws2 b a then trim_start_rev t'
               else match t' with
                    | c :: t'' => if ws3 c b a then trim_start_rev t'' else s
                    | [] => s
                    end
           | [] => s
           end
  | [] => []
  end.
Definition trim (s : bytes) : bytes := rev (trim_start_rev (rev (trim_start s))).

(** the three buffers attributes write into: regular attributes, class, style *)
Definition attr_step (st : bytes * bytes * bytes) (a : vattr) : bytes * bytes * bytes :=
  let '(buf, cls, sty) := st in
  match a with
  | AStr n v => (buf ++ attr_html n v, cls, sty)
  | ABool n on => (if on then buf ++ [32] ++ n else buf, cls, sty)
  | AClass v => (buf, cls ++ [32] ++ v, sty)
  | AToggle n on => (buf, cls ++ [32] ++ (if on then n else []), sty)
  | AStyle v => (buf, cls, sty ++ v ++ [59])
  | AProp n v => (buf, cls, sty ++ n ++ [58] ++ v ++ [59])
  | AId v => (buf ++ attr_html [105; 100] v, cls, sty)
  end.

Definition class_name : bytes := [99; 108; 97; 115; 115].
Definition style_attr_name : bytes := [115; 116; 121; 108; 101].

Definition attrs_html (attrs : list vattr) : bytes :=
  let '(buf, cls, sty) := fold_left attr_step attrs ([], [], []) in
  buf
  ++ (match cls with [] => [] | _ => attr_html class_name (trim cls) end)
  ++ (match sty with [] => [] | _ => attr_html style_attr_name (trim sty) end).

(** * rendering *)
(** a child rendered with escape = false (inside textarea, script, style): no markers, no
    placeholder; nested elements render as usual *)
Fixpoint render (esc : bool) (p : pos) (v : view) {struct v} : bytes * pos :=
  match v with
  | VEl t attrs kids =>
      let open := [60] ++ tag_name t ++ attrs_html attrs ++ [62] in
      let inner :=
        (fix go (p : pos) (l : list view) : bytes :=
           match l with
           | [] => []
           | k :: l' => let '(h, p') := render (escape_children t) p k in h ++ go p' l'
           end) FirstChild kids in
      let body :=
        if is_void t then []
        else (match t with Textarea => encode_text inner | _ => inner end)
             ++ [60; 47] ++ tag_name t ++ [62] in
      (open ++ body, NextChild)
  | VUnit => (if esc then marker else [], if esc then NextChild else p)
  | _ =>
      let s := match leaf_text v with Some s => s | None => [] end in
      let sep := match p with AfterText => if esc then marker else [] | _ => [] end in
      let txt :=
        match v with
        | VText [] => if esc then [32] else []
        | _ => if esc then encode_text s else s
        end in
      (sep ++ txt, AfterText)
  end.

Fixpoint render_list (esc : bool) (p : pos) (l : list view) : bytes :=
  match l with
  | [] => []
  | k :: l' => let '(h, p') := render esc p k in h ++ render_list esc p' l'
  end.

(** RenderHtml::to_html *)
Definition to_html (v : view) : bytes := fst (render true FirstChild v).

(** * the document of the harness: leptos_meta over a fixed shell *)
Definition shell_a : bytes :=   (* <!DOCTYPE html><html *)
  [60; 33; 68; 79; 67; 84; 89; 80; 69; 32; 104; 116; 109; 108; 62; 60; 104; 116; 109; 108].
Definition shell_b : bytes :=   (* ><head><meta charset="utf-8"> *)
  [62; 60; 104; 101; 97; 100; 62; 60; 109; 101; 116; 97; 32; 99; 104; 97; 114; 115; 101; 116; 61; 34; 117; 116; 102; 45; 56; 34; 62].
Definition shell_marker : bytes := [60; 33; 45; 45; 72; 69; 65; 68; 45; 45; 62].   (* <!--HEAD--> *)
Definition shell_c : bytes := [60; 47; 104; 101; 97; 100; 62; 60; 98; 111; 100; 121].   (* </head><body *)
Definition shell_d : bytes := [60; 47; 98; 111; 100; 121; 62; 60; 47; 104; 116; 109; 108; 62].   (* </body></html> *)
Definition shell_tail : bytes := [60; 33; 45; 45; 116; 97; 105; 108; 45; 45; 62].   (* <!--tail--> *)

Definition title_html (t : bytes) : bytes :=
  [60] ++ title_name ++ [62] ++ encode_text t ++ [60; 47] ++ title_name ++ [62].
Definition meta_html (name content : bytes) : bytes :=   (* <meta name=".." content=".."> *)
  [60; 109; 101; 116; 97] ++ attr_html [110; 97; 109; 101] name
  ++ attr_html [99; 111; 110; 116; 101; 110; 116] content ++ [62].
Definition link_html (href : bytes) : bytes :=           (* <link href=".." rel="canonical"> *)
  [60; 108; 105; 110; 107] ++ attr_html [104; 114; 101; 102] href
  ++ attr_html [114; 101; 108] [99; 97; 110; 111; 110; 105; 99; 97; 108] ++ [62].

(** the application shell of the harness varies: with or without the <!--HEAD--> marker of
    <MetaTags/>, and with a literal <title> of its own before (1) or after (2) the marker's place *)
Definition static_title : bytes :=   (* <title>My App</title> *)
  [60; 116; 105; 116; 108; 101; 62; 77; 121; 32; 65; 112; 112; 60; 47; 116; 105; 116; 108; 101; 62].

Record docu := {
  d_title : option bytes; d_metas : list (bytes * bytes); d_link : option bytes;
  d_lang : option bytes; d_class : option bytes; d_body : view;
  d_nomarker : bool; d_static : Z }.

Definition opt_bytes (f : bytes -> bytes) (o : option bytes) : bytes :=
  match o with Some s => f s | None => [] end.

Definition document_html (d : docu) : bytes :=
  shell_a ++ opt_bytes (attr_html [108; 97; 110; 103]) (d_lang d)
  ++ shell_b
  (* inject_meta_context: the title goes where the marker is — without marker, right before
     </head> — and the other tags right before </head> *)
  ++ (if d_nomarker d
      then (match d_static d with 0%Z => [] | _ => static_title end) ++ opt_bytes title_html (d_title d)
      else (match d_static d with 1%Z => static_title | _ => [] end) ++ opt_bytes title_html (d_title d)
           ++ shell_marker ++ (match d_static d with 2%Z => static_title | _ => [] end))
  ++ flat_map (fun m => meta_html (fst m) (snd m)) (d_metas d) ++ opt_bytes link_html (d_link d)
  ++ shell_c ++ opt_bytes (fun c => attrs_html [AClass c]) (d_class d) ++ [62]
  ++ to_html (d_body d) ++ shell_d ++ shell_tail.

(** * what the browser is expected to build *)
Definition text_nodes (s : bytes) : list node := match s with [] => [] | _ => [NText s] end.

(** attributes in emission order; the tokenizer keeps the first of equal names *)
Definition tree_attr_step (st : list attr * bytes * bytes) (a : vattr) : list attr * bytes * bytes :=
  let '(acc, cls, sty) := st in
  match a with
  | AStr n v => (add_attr acc (n, norm_attr v), cls, sty)
  | ABool n on => (if on then add_attr acc (n, []) else acc, cls, sty)
  | AClass v => (acc, cls ++ [32] ++ v, sty)
  | AToggle n on => (acc, cls ++ [32] ++ (if on then n else []), sty)
  | AStyle v => (acc, cls, sty ++ v ++ [59])
  | AProp n v => (acc, cls, sty ++ n ++ [58] ++ v ++ [59])
  | AId v => (add_attr acc ([105; 100], norm_attr v), cls, sty)
  end.
Definition tree_attrs (attrs : list vattr) : list attr :=
  let '(acc, cls, sty) := fold_left tree_attr_step attrs ([], [], []) in
  let acc := match cls with [] => acc | _ => add_attr acc (class_name, norm_attr (trim cls)) end in
  match sty with [] => acc | _ => add_attr acc (style_attr_name, norm_attr (trim sty)) end.

(** the raw text of the children of a text-only element (escape = false) *)
Fixpoint raw_text (l : list view) : bytes :=
  match l with
  | [] => []
  | k :: l' => (match leaf_text k with Some s => s | None => [] end) ++ raw_text l'
  end.

Fixpoint tree (p : pos) (v : view) {struct v} : list node * pos :=
  match v with
  | VEl t attrs kids =>
      let name := tag_name t in
      let at_ := tree_attrs attrs in
      let kids_nodes :=
        if is_void t then []
        else match t with
             | Textarea => text_nodes (drop_lf (norm_attr (raw_text kids)))
             | ScriptT | StyleT => text_nodes (norm_attr (raw_text kids))
             | Title =>
                 (* RCDATA, but ESCAPE_CHILDREN = true: a single text-like child renders as in
                    an ordinary element (placeholder space for the empty string) and is read
                    back as text; more children would leak their markers into the text *)
                 match kids with
                 | [k] => text_nodes (norm_attr (match k with
                                                  | VText [] => [32]
                                                  | _ => match leaf_text k with Some s => s | None => [] end
                                                  end))
                 | _ => []
                 end
             | _ =>
                 (fix go (p : pos) (l : list view) : list node :=
                    match l with
                    | [] => []
                    | k :: l' => let '(ns, p') := tree p k in ns ++ go p' l'
                    end) FirstChild kids
             end in
      ([NEl name at_ kids_nodes], NextChild)
  | VUnit => ([NComment []], NextChild)
  | _ =>
      let s := match leaf_text v with Some s => s | None => [] end in
      let sep := match p with AfterText => [NComment []] | _ => [] end in
      let txt := match v with VText [] => [32] | _ => norm_body s end in
      (sep ++ text_nodes txt, AfterText)
  end.

Fixpoint tree_list (p : pos) (l : list view) : list node :=
  match l with
  | [] => []
  | k :: l' => let '(ns, p') := tree p k in ns ++ tree_list p' l'
  end.

Definition tree_of (v : view) : list node := fst (tree FirstChild v).

(** * well-formed views: what the generator produces and the theorems assume *)
(** attribute names are program text: lower-case letters, digits and '-' *)
Definition name_byte_ok (c : N) : bool := is_lower c || is_digit c || (c =? 45).
Definition name_ok (n : bytes) : bool :=
  match n with [] => false | c :: _ => is_lower c && forallb name_byte_ok n end.

Definition attr_ok (a : vattr) : bool :=
  match a with
  | AStr n _ => name_ok n
  | ABool n _ => name_ok n
  | _ => true
  end.

Definition text_like (v : view) : bool := match v with VText _ | VChar _ | VNum _ => true | _ => false end.

Fixpoint view_ok (v : view) : bool :=
  match v with
  | VEl t attrs kids =>
      forallb attr_ok attrs
      && (fix all (l : list view) : bool := match l with [] => true | k :: l' => view_ok k && all l' end) kids
      && (match t with
          | Textarea | ScriptT | StyleT => forallb text_like kids
          | Title => match kids with [] => true | [k] => text_like k | _ => false end
          | _ => true
          end)
  | VChar c => (c <? 55296) || ((57343 <? c) && (c <? 1114112))
  | _ => true
  end.

(** the class of open finding F-C06-b: a script / style element whose children contain the
    beginning of its own end tag, or (script) a comment opener *)
Fixpoint has_sub (p s : bytes) : bool :=
  match s with
  | [] => match p with [] => true | _ => false end
  | _ :: t => (match strip_ci p s with Some _ => true | None => false end) || has_sub p t
  end.
Definition raw_breakout (t : tag) (kids : list view) : bool :=
  match t with
  | ScriptT => has_sub ([60; 47] ++ script_name) (raw_text kids) || has_sub [60; 33; 45; 45] (raw_text kids)
  | StyleT => has_sub ([60; 47] ++ style_name) (raw_text kids)
  | _ => false
  end.
Fixpoint known_class (v : view) : bool :=
  match v with
  | VEl t attrs kids =>
      raw_breakout t kids
      || (fix any (l : list view) : bool := match l with [] => false | k :: l' => known_class k || any l' end) kids
  | _ => false
  end.
