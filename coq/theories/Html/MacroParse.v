(** C18 — a small HTML parser for the subset of HTML the two macro paths emit.

    One pass over the bytes, one byte at a time (a state machine: no fuel, compositional over
    [++]).  Start tags with double-quoted attribute values, end tags, void elements, raw-text
    elements, the four character references the escapers emit (plus [&#39;]/[&#x27;]/[&apos;]),
    and [<!…>] comments, which are dropped, so that text on both sides of a [<!>] marker is
    ONE text node.  Attribute lists become attribute SETS ([norm_attrs]).
    Independent of Html/Tokenizer.v (a larger tokenizer written for C06/C07).  No proofs here. *)
From Coq Require Import List NArith Bool Ascii String.
From LV Require Import Base.Bytes Html.Macro.
Import ListNotations.
Open Scope N_scope.

Definition is_name_char (c : N) : bool :=
  is_alnum c || (c =? 45) || (c =? 95) || (c =? 58).      (* - _ : *)
Definition is_ent_char (c : N) : bool := is_alnum c || (c =? 35).   (* # *)

(** elements whose content is raw text up to the matching end tag ([noscript]: scripting
    enabled, as in browsers) *)
Definition parser_raw : list bytes := Eval vm_compute in map bs ["script"; "style"; "noscript"]%string.

Definition n_amp : bytes := Eval vm_compute in bs "amp".
Definition n_lt : bytes := Eval vm_compute in bs "lt".
Definition n_gt : bytes := Eval vm_compute in bs "gt".
Definition n_quot : bytes := Eval vm_compute in bs "quot".
Definition n_apos : bytes := Eval vm_compute in bs "apos".
Definition n_39 : bytes := Eval vm_compute in bs "#39".
Definition n_x27 : bytes := Eval vm_compute in bs "#x27".
(** escapable raw text (RCDATA): no tags and no comments inside, but character references *)
Definition parser_rcdata : list bytes := Eval vm_compute in map bs ["title"; "textarea"]%string.

Definition decode_ent (acc : bytes) : bytes :=
  if beq acc n_amp then [38]
  else if beq acc n_lt then [60]
  else if beq acc n_gt then [62]
  else if beq acc n_quot then [34]
  else if beq acc n_apos || beq acc n_39 || beq acc n_x27 then [39]
  else [38] ++ acc ++ [59].

Inductive mode :=
| MData
| MEnt (acc : bytes)
| MLt
| MBang
| MOpenName (name : bytes)
| MCloseName (name : bytes)
| MAttrs (tag : bytes) (attrs : list (bytes * bytes))
| MAttrName (tag : bytes) (attrs : list (bytes * bytes)) (name : bytes)
| MAttrEq (tag : bytes) (attrs : list (bytes * bytes)) (name : bytes)
| MAttrVal (tag : bytes) (attrs : list (bytes * bytes)) (name val : bytes)
| MAttrValEnt (tag : bytes) (attrs : list (bytes * bytes)) (name val acc : bytes)
| MRaw (tag : bytes)
| MRawLt (tag : bytes)
| MRawClose (tag name : bytes)
| MRc (tag : bytes)
| MRcEnt (tag acc : bytes)
| MRcLt (tag : bytes)
| MRcClose (tag name : bytes).

(** an open element: tag, attributes, the (reversed) children its parent had so far *)
Definition frame : Type := bytes * list (bytes * bytes) * list tree.

Inductive pstate := St (m : mode) (stack : list frame) (cur : list tree).

Definition open_tag (tag : bytes) (attrs : list (bytes * bytes)) (stack : list frame)
           (cur : list tree) : pstate :=
  if mem tag html_void then St MData stack (TElem tag (norm_attrs attrs) [] :: cur)
  else St (if mem tag parser_raw then MRaw tag
           else if mem tag parser_rcdata then MRc tag else MData) ((tag, attrs, cur) :: stack) [].

Definition close_tag (name : bytes) (stack : list frame) (cur : list tree) : pstate :=
  match stack with
  | (tag, attrs, pcur) :: st =>
      if beq tag name then St MData st (TElem tag (norm_attrs attrs) (rev cur) :: pcur)
      else St MData stack cur
  | [] => St MData stack cur
  end.

Definition data_char (c : N) (stack : list frame) (cur : list tree) : pstate :=
  if c =? 60 then St MLt stack cur
  else if c =? 38 then St (MEnt []) stack cur
  else St MData stack (push_char c cur).

Definition rc_char (t : bytes) (c : N) (stack : list frame) (cur : list tree) : pstate :=
  if c =? 60 then St (MRcLt t) stack cur
  else if c =? 38 then St (MRcEnt t []) stack cur
  else St (MRc t) stack (push_char c cur).

Definition val_char (t : bytes) (a : list (bytes * bytes)) (n v : bytes) (c : N)
           (stack : list frame) (cur : list tree) : pstate :=
  if c =? 34 then St (MAttrs t (a ++ [(n, v)])) stack cur
  else if c =? 38 then St (MAttrValEnt t a n v []) stack cur
  else St (MAttrVal t a n (v ++ [c])) stack cur.

Definition step (st : pstate) (c : N) : pstate :=
  let '(St m stack cur) := st in
  match m with
  | MData => data_char c stack cur
  | MEnt acc =>
      if c =? 59 then St MData stack (push_text (decode_ent acc) cur)
      else if is_ent_char c && (N.of_nat (List.length acc) <? 6) then St (MEnt (acc ++ [c])) stack cur
      else data_char c stack (push_text (38 :: acc) cur)
  | MLt =>
      if c =? 33 then St MBang stack cur
      else if c =? 47 then St (MCloseName []) stack cur
      else if is_name_char c then St (MOpenName [c]) stack cur
      else data_char c stack (push_char 60 cur)
  | MBang => if c =? 62 then St MData stack cur else st
  | MOpenName n =>
      if is_name_char c then St (MOpenName (n ++ [c])) stack cur
      else if c =? 62 then open_tag n [] stack cur
      else St (MAttrs n []) stack cur
  | MCloseName n =>
      if is_name_char c then St (MCloseName (n ++ [c])) stack cur
      else if c =? 62 then close_tag n stack cur
      else st
  | MAttrs t a =>
      if is_name_char c then St (MAttrName t a [c]) stack cur
      else if c =? 62 then open_tag t a stack cur
      else st
  | MAttrName t a n =>
      if is_name_char c then St (MAttrName t a (n ++ [c])) stack cur
      else if c =? 61 then St (MAttrEq t a n) stack cur
      else if c =? 62 then open_tag t (a ++ [(n, [])]) stack cur
      else St (MAttrs t (a ++ [(n, [])])) stack cur
  | MAttrEq t a n =>
      if c =? 34 then St (MAttrVal t a n []) stack cur
      else if c =? 62 then open_tag t (a ++ [(n, [])]) stack cur
      else st
  | MAttrVal t a n v => val_char t a n v c stack cur
  | MAttrValEnt t a n v acc =>
      if c =? 59 then St (MAttrVal t a n (v ++ decode_ent acc)) stack cur
      else if is_ent_char c && (N.of_nat (List.length acc) <? 6) then
        St (MAttrValEnt t a n v (acc ++ [c])) stack cur
      else val_char t a n (v ++ 38 :: acc) c stack cur
  | MRaw t => if c =? 60 then St (MRawLt t) stack cur else St (MRaw t) stack (push_char c cur)
  | MRawLt t =>
      if c =? 47 then St (MRawClose t []) stack cur
      else if c =? 60 then St (MRawLt t) stack (push_char 60 cur)
      else St (MRaw t) stack (push_char c (push_char 60 cur))
  | MRawClose t n =>
      if c =? 62 then
        (if beq n t then close_tag t stack cur
         else St (MRaw t) stack (push_text ([60; 47] ++ n ++ [62]) cur))
      else St (MRawClose t (n ++ [c])) stack cur
  | MRc t => rc_char t c stack cur
  | MRcEnt t acc =>
      if c =? 59 then St (MRc t) stack (push_text (decode_ent acc) cur)
      else if is_ent_char c && (N.of_nat (List.length acc) <? 6) then St (MRcEnt t (acc ++ [c])) stack cur
      else rc_char t c stack (push_text (38 :: acc) cur)
  | MRcLt t =>
      if c =? 47 then St (MRcClose t []) stack cur
      else rc_char t c stack (push_char 60 cur)
  | MRcClose t n =>
      if c =? 62 then
        (if beq n t then close_tag t stack cur
         else St (MRc t) stack (push_text ([60; 47] ++ n ++ [62]) cur))
      else St (MRcClose t (n ++ [c])) stack cur
  end.

Definition feed (st : pstate) (s : bytes) : pstate := fold_left step s st.

(** end of input: pending text is flushed, half-read tags are dropped, open elements are closed *)
Fixpoint close_all (stack : list frame) (cur : list tree) : list tree :=
  match stack with
  | [] => cur
  | (tag, attrs, pcur) :: st => close_all st (TElem tag (norm_attrs attrs) (rev cur) :: pcur)
  end.
Definition finish (st : pstate) : list tree :=
  let '(St m stack cur) := st in
  let cur' :=
    match m with
    | MEnt acc | MRcEnt _ acc => push_text (38 :: acc) cur
    | MLt | MRawLt _ | MRcLt _ => push_char 60 cur
    | MRawClose _ n | MRcClose _ n => push_text ([60; 47] ++ n) cur
    | _ => cur
    end in
  rev (close_all stack cur').

Definition parse (s : bytes) : list tree := finish (feed (St MData [] []) s).
