(** C12 — model of the server->client data channel of leptos.

    Transcribes what [hydration_context/src/ssr.rs] (SsrSharedContext, AsyncDataStream,
    js_string) and [hydration_context/src/hydrate.rs] (id counter) DO, at the level of Unicode
    code points (a Rust [String] is a sequence of scalar values; the harness prints chunks as
    [chars()]), plus the two readers on the browser side that the property is about: an
    ECMAScript (ES2019, sloppy mode, Annex B) string-literal decoder and substring scanners for
    what can end / derail an HTML script element.  No proofs in this file. *)
From Coq Require Import List ZArith NArith Bool.
From LV Require Import Base.Sexp Base.Bytes ServerFn.ErrorCodec.
Import ListNotations.
Open Scope N_scope.

Definition str := list N.      (* code points *)

(** * fixed pieces of the emitted script text *)
Definition k_lbrack : str := [91].  (* [ *)
Definition k_comma_sp : str := [44; 32].  (* ,  *)
Definition k_rbrack : str := [93].  (* ] *)
Definition k_resolved_init : str := [95; 95; 82; 69; 83; 79; 76; 86; 69; 68; 95; 82; 69; 83; 79; 85; 82; 67; 69; 83; 61; 91; 93; 59].  (* __RESOLVED_RESOURCES=[]; *)
Definition k_errors_open : str := [95; 95; 83; 69; 82; 73; 65; 76; 73; 90; 69; 68; 95; 69; 82; 82; 79; 82; 83; 61; 91].  (* __SERIALIZED_ERRORS=[ *)
Definition k_comma : str := [44].  (* , *)
Definition k_close_arr : str := [93; 59].  (* ]; *)
Definition k_pending_open : str := [95; 95; 80; 69; 78; 68; 73; 78; 71; 95; 82; 69; 83; 79; 85; 82; 67; 69; 83; 61; 91].  (* __PENDING_RESOURCES=[ *)
Definition k_resolvers : str := [95; 95; 82; 69; 83; 79; 85; 82; 67; 69; 95; 82; 69; 83; 79; 76; 86; 69; 82; 83; 61; 91; 93; 59].  (* __RESOURCE_RESOLVERS=[]; *)
Definition k_resolved_at : str := [95; 95; 82; 69; 83; 79; 76; 86; 69; 68; 95; 82; 69; 83; 79; 85; 82; 67; 69; 83; 91].  (* __RESOLVED_RESOURCES[ *)
Definition k_assign : str := [93; 32; 61; 32].  (* ] =  *)
Definition k_semi : str := [59].  (* ; *)
Definition k_errors_push : str := [95; 95; 83; 69; 82; 73; 65; 76; 73; 90; 69; 68; 95; 69; 82; 82; 79; 82; 83; 46; 112; 117; 115; 104; 40].  (* __SERIALIZED_ERRORS.push( *)
Definition k_close_call : str := [41; 59].  (* ); *)
Definition k_incomplete_open : str := [95; 95; 73; 78; 67; 79; 77; 80; 76; 69; 84; 69; 95; 67; 72; 85; 78; 75; 83; 61; 91].  (* __INCOMPLETE_CHUNKS=[ *)
Definition k_script_end : str := [60; 47; 115; 99; 114; 105; 112; 116].  (* </script *)
Definition k_comment_open : str := [60; 33; 45; 45].  (* <!-- *)

(** * numbers as text *)

(** [usize as Display]: decimal, no leading zeros *)
Fixpoint dec_fuel (fuel : nat) (n : N) (acc : str) : str :=
  match fuel with
  | O => acc
  | S f => let acc' := (48 + n mod 10) :: acc in
           if n <? 10 then acc' else dec_fuel f (n / 10) acc'
  end.
Definition dec (n : N) : str := dec_fuel (S (N.to_nat (N.log2 n))) n [].

Definition hex_lower_digit (d : N) : N := if d <? 10 then 48 + d else 87 + d.
(** [{:x}] : lower-case hex, no leading zeros (as in [char::escape_unicode]) *)
Fixpoint hex_fuel (fuel : nat) (n : N) (acc : str) : str :=
  match fuel with
  | O => acc
  | S f => let acc' := hex_lower_digit (n mod 16) :: acc in
           if n <? 16 then acc' else hex_fuel f (n / 16) acc'
  end.
Definition hex_lower (n : N) : str := hex_fuel (S (N.to_nat (N.log2 n))) n [].

(** * Rust's Debug escaping of one character

    [char::escape_debug_ext]: named escapes, then [\u{..}] for every character that is
    Grapheme_Extend or not printable, else the character itself.  The two Unicode tables are
    not transcribed: [esc c] says whether real Rust writes [c] (outside the named escapes) as
    [\u{..}]; every statement below is for an arbitrary [esc], and the correspondence check
    obtains the bit for every character it uses from the real formatter. *)
Section Esc.
Variable esc : N -> bool.

Definition unicode_escape (c : N) : str := [92; 117; 123] ++ hex_lower c ++ [125].

(** [impl Debug for str], one character (double quote escaped, single quote not) *)
Definition debug_char (c : N) : str :=
  if c =? 0 then [92; 48]
  else if c =? 9 then [92; 116]
  else if c =? 13 then [92; 114]
  else if c =? 10 then [92; 110]
  else if c =? 92 then [92; 92]
  else if c =? 34 then [92; 34]
  else if esc c then unicode_escape c
  else [c].
Definition debug_str (s : str) : str := [34] ++ flat_map debug_char s ++ [34].

Definition lt_escape : str := [92; 117; 48; 48; 51; 99].       (* backslash u003c *)
Definition nul_escape : str := [92; 117; 48; 48; 48; 48].      (* \u0000 *)

(** [js_string] of ssr.rs as repaired (commits 1045e8b, 6cb2d26, 0d234dc): per character,
    [<] -> <, NUL -> \u0000, ['] as is, everything else [char::escape_debug] *)
Definition js_char (c : N) : str :=
  if c =? 60 then lt_escape
  else if c =? 0 then nul_escape
  else if c =? 39 then [39]
  else debug_char c.
Definition js_string (s : str) : str := [34] ++ flat_map js_char s ++ [34].

(** the code before the repair: [data.replace('<', "\\u003c")] and then [{:?}] for resource
    data; plain [{:?}] for error messages *)
Definition replace_lt (s : str) : str :=
  flat_map (fun c => if c =? 60 then lt_escape else [c]) s.
Definition js_string_prefix_data (s : str) : str := debug_str (replace_lt s).
Definition js_string_prefix_error (s : str) : str := debug_str s.

(** * the server-side shared context *)

(** a future handed to [write_async]: the id it was registered under, the case-controlled
    gate it waits for ([None]: ready at once, as SharedValue's [async move { value }]) and the
    string it resolves to *)
Record fut := { f_id : N; f_gate : option nat; f_data : str }.

Inductive phase :=
| NotStarted
| Initial (chunk : str)      (* pending_data() was called; its first chunk is fixed already *)
| Streaming                  (* AsyncDataStream *)
| Final                      (* the __INCOMPLETE_CHUNKS chunk was emitted *)
| Ended.

Definition two64 : N := 18446744073709551616.

Record st := {
  hyd : bool;                       (* is_hydrating *)
  next_hyd : N;                     (* id *)
  next_non : N;                     (* non_hydration_id *)
  abuf : list fut;                  (* async_buf *)
  errs : list (N * N * str);        (* errors: boundary, error id, message *)
  sealed : list N;
  incomplete : list N;
  done : list nat;                  (* completed gates *)
  ngates : nat;
  ids : list N;                     (* what next_id returned so far (script-level calls) *)
  ph : phase;
  islands : bool;
  client_next : N;                  (* HydrateSharedContext.id *)
  client_ids : list N;
  handed : list (bool * N);         (* ghost: every id the server's next_id returned, tagged with
                                       "the browser repeats this call" *)
  log : list sexp                   (* newest first *)
}.

Definition init (isl : bool) : st :=
  {| hyd := negb isl; next_hyd := 0; next_non := two64 - 1; abuf := []; errs := [];
     sealed := []; incomplete := []; done := []; ngates := 0; ids := []; ph := NotStarted;
     islands := isl; client_next := 0; client_ids := []; handed := []; log := [] |}.

Definition set_log (s : st) (l : list sexp) : st :=
  {| hyd := hyd s; next_hyd := next_hyd s; next_non := next_non s; abuf := abuf s;
     errs := errs s; sealed := sealed s; incomplete := incomplete s; done := done s;
     ngates := ngates s; ids := ids s; ph := ph s; islands := islands s;
     client_next := client_next s; client_ids := client_ids s; handed := handed s; log := l |}.
Definition push_log (s : st) (e : sexp) : st := set_log s (e :: log s).

(** SsrSharedContext::next_id: fetch_add on [id] while hydrating, fetch_sub on
    [non_hydration_id] (starting at usize::MAX) otherwise; both wrap *)
Definition next_id (s : st) : N * st :=
  if hyd s then
    (next_hyd s,
     {| hyd := hyd s; next_hyd := (next_hyd s + 1) mod two64; next_non := next_non s;
        abuf := abuf s; errs := errs s; sealed := sealed s; incomplete := incomplete s;
        done := done s; ngates := ngates s; ids := ids s; ph := ph s; islands := islands s;
        client_next := client_next s; client_ids := client_ids s;
        handed := handed s ++ [(negb (islands s) || hyd s, next_hyd s)]; log := log s |})
  else
    (next_non s,
     {| hyd := hyd s; next_hyd := next_hyd s; next_non := (next_non s + two64 - 1) mod two64;
        abuf := abuf s; errs := errs s; sealed := sealed s; incomplete := incomplete s;
        done := done s; ngates := ngates s; ids := ids s; ph := ph s; islands := islands s;
        client_next := client_next s; client_ids := client_ids s;
        handed := handed s ++ [(negb (islands s) || hyd s, next_non s)]; log := log s |}).

(** the browser runs the same program — in islands mode only the parts the server rendered
    with is_hydrating = true — and HydrateSharedContext::next_id always counts up *)
Definition client_step (s : st) : st :=
  if negb (islands s) || hyd s then
    {| hyd := hyd s; next_hyd := next_hyd s; next_non := next_non s; abuf := abuf s;
       errs := errs s; sealed := sealed s; incomplete := incomplete s; done := done s;
       ngates := ngates s; ids := ids s; ph := ph s; islands := islands s;
       client_next := (client_next s + 1) mod two64;
       client_ids := client_ids s ++ [client_next s]; handed := handed s; log := log s |}
  else s.

Definition upd (s : st) (h : bool) (ab : list fut) (er : list (N * N * str)) (se inc : list N)
  (dn : list nat) (ng : nat) (is_ : list N) (p : phase) : st :=
  {| hyd := h; next_hyd := next_hyd s; next_non := next_non s; abuf := ab; errs := er;
     sealed := se; incomplete := inc; done := dn; ngates := ng; ids := is_; ph := p;
     islands := islands s; client_next := client_next s; client_ids := client_ids s;
     handed := handed s; log := log s |}.

Definition set_hyd s b := upd s b (abuf s) (errs s) (sealed s) (incomplete s) (done s) (ngates s) (ids s) (ph s).
Definition set_abuf s ab := upd s (hyd s) ab (errs s) (sealed s) (incomplete s) (done s) (ngates s) (ids s) (ph s).
Definition set_errs s er := upd s (hyd s) (abuf s) er (sealed s) (incomplete s) (done s) (ngates s) (ids s) (ph s).
Definition set_sealed s se := upd s (hyd s) (abuf s) (errs s) se (incomplete s) (done s) (ngates s) (ids s) (ph s).
Definition set_incomplete s inc := upd s (hyd s) (abuf s) (errs s) (sealed s) inc (done s) (ngates s) (ids s) (ph s).
Definition set_done s dn := upd s (hyd s) (abuf s) (errs s) (sealed s) (incomplete s) dn (ngates s) (ids s) (ph s).
Definition set_ngates s ng := upd s (hyd s) (abuf s) (errs s) (sealed s) (incomplete s) (done s) ng (ids s) (ph s).
Definition set_ids s is_ := upd s (hyd s) (abuf s) (errs s) (sealed s) (incomplete s) (done s) (ngates s) is_ (ph s).
Definition set_ph s p := upd s (hyd s) (abuf s) (errs s) (sealed s) (incomplete s) (done s) (ngates s) (ids s) p.

(** ** chunk assembly *)
Definition error_entry (e : N * N * str) : str :=
  let '(b, i, m) := e in
  k_lbrack ++ dec b ++ k_comma_sp ++ dec i ++ k_comma_sp ++ js_string m ++ k_rbrack.

(** the chunk built eagerly by pending_data() (sync_buf is never written to by any code of
    /repo, so __RESOLVED_RESOURCES=[] is always empty) *)
Definition initial_chunk (er : list (N * N * str)) (ab : list fut) : str :=
  k_resolved_init ++
  k_errors_open ++ flat_map (fun e => error_entry e ++ k_comma) er ++ k_close_arr ++
  k_pending_open ++ flat_map (fun f => dec (f_id f) ++ k_comma) ab ++ k_close_arr ++
  k_resolvers.

Definition resolved_stmt (f : fut) : str :=
  k_resolved_at ++ dec (f_id f) ++ k_assign ++ js_string (f_data f) ++ k_semi.
Definition error_stmt (e : N * N * str) : str :=
  k_errors_push ++ error_entry e ++ k_close_call.
Definition incomplete_chunk (inc : list N) : str :=
  k_incomplete_open ++ flat_map (fun i => dec i ++ k_comma) inc ++ k_close_arr.

Definition mem_nat (k : nat) (l : list nat) : bool := existsb (Nat.eqb k) l.
Definition mem_N (k : N) (l : list N) : bool := existsb (N.eqb k) l.
Definition is_ready (dn : list nat) (f : fut) : bool :=
  match f_gate f with None => true | Some k => mem_nat k dn end.

(** one AsyncDataStream::poll_next: every future is polled in buffer order, ready ones are
    written and dropped, the others stay (in order); all registered errors are taken, those
    of unsealed boundaries written *)
Definition async_poll (s : st) : str * st :=
  let ready := filter (is_ready (done s)) (abuf s) in
  let rest := filter (fun f => negb (is_ready (done s) f)) (abuf s) in
  let shown := filter (fun e => negb (mem_N (fst (fst e)) (sealed s))) (errs s) in
  (flat_map resolved_stmt ready ++ flat_map error_stmt shown,
   set_errs (set_abuf s rest) []).

Definition entry_chunk (c : str) : sexp := Lst [Num 8%Z; Num 0%Z; Lst (map sN c)].
Definition entry_pending : sexp := Lst [Num 8%Z; Num 1%Z].
Definition entry_end : sexp := Lst [Num 8%Z; Num 2%Z].
Definition entry_nostream : sexp := Lst [Num 8%Z; Num 3%Z].

(** one poll of the stream returned by pending_data():
    once(initial).chain(AsyncDataStream).chain(once(incomplete chunks)) *)
Definition poll (s : st) : st :=
  match ph s with
  | NotStarted => push_log s entry_nostream
  | Initial c => push_log (set_ph s Streaming) (entry_chunk c)
  | Streaming =>
      let '(text, s') := async_poll s in
      match abuf s', text with
      | [], [] =>   (* Ready(None): the chain moves on to the last chunk within the same poll *)
          push_log (set_incomplete (set_ph s' Final) []) (entry_chunk (incomplete_chunk (incomplete s')))
      | _, [] => push_log s' entry_pending
      | _, _ => push_log s' (entry_chunk text)
      end
  | Final => push_log (set_ph s Ended) entry_end
  | Ended => push_log s entry_end
  end.

Definition start_stream (s : st) : st :=
  match ph s with
  | NotStarted => set_errs (set_ph s (Initial (initial_chunk (errs s) (abuf s)))) []
  | _ => s
  end.

(** ** codecs ([codee]): what [Ser::encode(value).into_encoded_string()] yields for a String *)
Definition hex2 (n : N) : str := [hex_lower_digit (n / 16); hex_lower_digit (n mod 16)].
(** serde_json's string formatter *)
Definition json_char (c : N) : str :=
  if c =? 34 then [92; 34]
  else if c =? 92 then [92; 92]
  else if c =? 8 then [92; 98]
  else if c =? 12 then [92; 102]
  else if c =? 10 then [92; 110]
  else if c =? 13 then [92; 114]
  else if c =? 9 then [92; 116]
  else if c <? 32 then [92; 117; 48; 48] ++ hex2 c
  else [c].
Definition json_string (s : str) : str := [34] ++ flat_map json_char s ++ [34].
(** UTF-8 encoding of a scalar value (char::encode_utf8) *)
Definition utf8 (c : N) : bytes :=
  if c <? 128 then [c]
  else if c <? 2048 then [192 + c / 64; 128 + c mod 64]
  else if c <? 65536 then [224 + c / 4096; 128 + (c / 64) mod 64; 128 + c mod 64]
  else [240 + c / 262144; 128 + (c / 4096) mod 64; 128 + (c / 64) mod 64; 128 + c mod 64].

(** [IntoEncodedString for Vec<u8>] (leptos_server/src/lib.rs): base64, STANDARD_NO_PAD — the
    model of the engine is builder C13's [ServerFn.ErrorCodec.b64_encode false false] *)
Definition bytes_to_encoded_string (l : bytes) : str := b64_encode false false l.
(** [FromEncodedStr for [u8]] *)
Definition bytes_from_encoded_str (s : str) : option bytes :=
  match b64_decode false false s with inl l => Some l | inr _ => None end.

(** codec 0: JsonSerdeCodec, 1: FromToStringCodec (Encoded = String: the identity),
    2: FromToBytesCodec (Encoded = Vec<u8>: the UTF-8 bytes, sent as base64),
    3: MiniserdeCodec and 4: SerdeLite<JsonSerdeCodec> (a String value is written as the same
    JSON string literal by miniserde and, through serde-lite's Intermediate, by serde_json),
    6: an identity codec over Vec<u8> (the harness's stand-in for the binary codecs whose output
    is arbitrary bytes): every code point of the case string modulo 256, sent as base64.
    5 (RkyvCodec) is not modelled: cases with it are judged by the oracle only. *)
Definition encode (codec : Z) (s : str) : str :=
  match codec with
  | 0%Z | 3%Z | 4%Z => json_string s
  | 2%Z => bytes_to_encoded_string (flat_map utf8 s)
  | 6%Z => bytes_to_encoded_string (map (fun c => c mod 256) s)
  | _ => s
  end.

(** ** the script language of a case *)
Definition idsrc (s : st) (x : sexp) : N :=
  match as_Z (nth_s 0 x) with
  | 1%Z => nth (as_nat (nth_s 1 x)) (ids s) 0
  | _ => as_N (nth_s 1 x)
  end.

Definition complete (s : st) (k : nat) : st :=
  if Nat.ltb k (ngates s) then (if mem_nat k (done s) then s else set_done s (k :: done s)) else s.

Fixpoint first_undone (k : nat) (n : nat) (dn : list nat) : option nat :=
  match n with
  | O => None
  | S n' => if mem_nat k dn then first_undone (S k) n' dn else Some k
  end.

(** the next future to complete: the first usable entry of [order] (consumed up to it), else
    the lowest-numbered unfinished one *)
Fixpoint next_gate (order : list nat) (ng : nat) (dn : list nat) : option nat * list nat :=
  match order with
  | [] => (first_undone 0 ng dn, [])
  | k :: rest => if Nat.ltb k ng && negb (mem_nat k dn) then (Some k, rest) else next_gate rest ng dn
  end.

(** SsrSharedContext::consume_buffers: both buffers are taken, the futures awaited one after
    the other in registration order; the harness completes futures while that is pending *)
Fixpoint consume_loop (fuel : nat) (order : list nat) (s : st) : st :=
  if forallb (is_ready (done s)) (abuf s) then
    push_log (set_abuf s [])
      (Lst [Num 14%Z;
            Lst (map (fun f => Lst [Lst (map sN (dec (f_id f))); Lst (map sN (f_data f))]) (abuf s))])
  else
    match fuel with
    | O => push_log s (Lst [Num 97%Z])          (* fuel exhausted *)
    | S fuel' =>
        match next_gate order (ngates s) (done s) with
        | (Some k, rest) => consume_loop fuel' rest (complete (push_log s (Lst [Num 7%Z; snat k])) k)
        | (None, _) => push_log s (Lst [Num 96%Z])   (* pending with nothing left to wait for *)
        end
    end.

Definition cmd (s : st) (c : sexp) : st :=
  match as_Z (nth_s 0 c) with
  | 0%Z =>
      let h := hyd s in
      let '(i, s1) := next_id s in
      let s2 := push_log (set_ids s1 (ids s1 ++ [i])) (Lst [Num 0%Z; Lst (map sN (dec i))]) in
      client_step s2
  | 1%Z => set_hyd s (as_bool (nth_s 1 c))
  | 2%Z =>
      let i := idsrc s (nth_s 1 c) in
      let f := {| f_id := i; f_gate := Some (ngates s); f_data := as_bytes (nth_s 2 c) |} in
      set_ngates (set_abuf s (abuf s ++ [f])) (S (ngates s))
  | 3%Z =>
      set_errs s (errs s ++ [(idsrc s (nth_s 1 c), idsrc s (nth_s 2 c), as_bytes (nth_s 3 c))])
  | 4%Z => set_sealed s (idsrc s (nth_s 1 c) :: sealed s)
  | 5%Z => set_incomplete s (incomplete s ++ [idsrc s (nth_s 1 c)])
  | 6%Z => start_stream s
  | 7%Z => complete s (as_nat (nth_s 1 c))
  | 8%Z => poll s
  | 9%Z =>
      let b := idsrc s (nth_s 1 c) in
      let es := filter (fun e => fst (fst e) =? b) (errs s) in
      push_log s (Lst [Num 9%Z; Lst (map (fun e => Lst [Lst (map sN (dec (snd (fst e)))); Lst (map sN (snd e))]) es)])
  | 10%Z =>
      push_log s (Lst [Num 10%Z; sbool (mem_N (idsrc s (nth_s 1 c)) (incomplete s))])
  | 14%Z => consume_loop (S (ngates s)) (as_nats (nth_s 1 c)) s
  | 12%Z =>
      (* Resource (0) / OnceResource (1) / SharedValue (2)::new: next_id, and — only while
         hydrating — write_async of the encoded value *)
      let kind := as_Z (nth_s 1 c) in
      let data := encode (as_Z (nth_s 2 c)) (as_bytes (nth_s 3 c)) in
      (* the harness logs the string the codec hands over and whether the real browser-side
         construction of the same resource, reading that string, yields the value: it does *)
      let s := push_log s (Lst [Num 13%Z; Num 1%Z; Lst (map sN data)]) in
      let s0 := client_step s in
      let '(i, s1) := next_id s0 in
      match kind with
      | 2%Z =>
          if hyd s1 then set_abuf s1 (abuf s1 ++ [{| f_id := i; f_gate := None; f_data := data |}])
          else s1
      | _ =>
          let k := ngates s1 in
          let s2 := set_ngates s1 (S k) in
          if hyd s2 then set_abuf s2 (abuf s2 ++ [{| f_id := i; f_gate := Some k; f_data := data |}])
          else s2
      end
  | _ => s
  end.

Definition last_is_pending (s : st) : bool :=
  match log s with e :: _ => sexp_eqb e entry_pending | [] => false end.

(** what the harness does after the script: make sure the stream exists, then poll it to the
    end, completing the lowest-numbered unfinished future whenever it is pending *)
Fixpoint drain (fuel : nat) (s : st) : st :=
  match ph s with
  | Ended => s
  | _ =>
    match fuel with
    | O => push_log s (Lst [Num 99%Z])            (* fuel exhausted: excluded by drain_fuel_enough *)
    | S fuel' =>
        let s1 := poll s in
        if last_is_pending s1 then
          match first_undone 0 (ngates s1) (done s1) with
          | Some k => drain fuel' (complete (push_log s1 (Lst [Num 7%Z; snat k])) k)
          | None => push_log s1 (Lst [Num 98%Z])  (* pending with nothing left to wait for *)
          end
        else drain fuel' s1
    end
  end.

Definition session (isl : bool) (script : list sexp) : st :=
  let s := fold_left cmd script (init isl) in
  let s := start_stream s in
  let s := drain (2 * (ngates s + length (abuf s)) + 8) s in
  push_log s (Lst [Num 11%Z; Lst (map (fun i => Lst (map sN (dec i))) (client_ids s))]).

End Esc.

(** * cases that drive leptos components: what they amount to at the level of the context *)
(** [(15 rmode children)]: a real <ErrorBoundary/> rendered on the server. The component takes an
    id for itself ([next_id]) before its children are built; children that are resources take
    theirs when they are built ([(12 ..)]), nested boundaries likewise, depth first; when the view
    is rendered every [Err] child throws: the hook of the boundary it belongs to takes an id for
    the error and registers it under the boundary's id ([ErrorBoundaryErrorHook::throw]).
    [eb_construct] / [eb_render] spell that out with the primitive commands; a boundary's id is
    referred to as "the k-th id handed out", [n0] being the number handed out before, [nb] the
    number of boundaries of the tree (their ids come first, in preorder).
    child: (0 text) Ok | (1 message) Err | (2 kind codec text variant) resource | (3 children) *)
Fixpoint eb_construct (fuel : nat) (children : list sexp) : list sexp :=
  match fuel with
  | O => []
  | S f =>
      flat_map (fun c =>
        match as_Z (nth_s 0 c) with
        | 2%Z => [Lst [Num 12%Z; nth_s 1 c; nth_s 2 c; nth_s 3 c; nth_s 4 c]]
        | 3%Z => Lst [Num 0%Z] :: eb_construct f (as_list (nth_s 1 c))
        | _ => []
        end) children
  end.

(** state: boundaries met so far, errors thrown so far, commands *)
Fixpoint eb_render (fuel : nat) (n0 nb bidx : nat) (children : list sexp)
  (acc : nat * nat * list sexp) : nat * nat * list sexp :=
  match fuel with
  | O => acc
  | S f =>
      fold_left (fun (a : nat * nat * list sexp) c =>
        let '(p, q, out) := a in
        match as_Z (nth_s 0 c) with
        | 1%Z =>
            (p, S q,
             out ++ [Lst [Num 0%Z];
                     Lst [Num 3%Z; Lst [Num 1%Z; snat bidx]; Lst [Num 1%Z; snat (n0 + nb + q)]; nth_s 1 c]])
        | 3%Z => eb_render f n0 nb (n0 + p) (as_list (nth_s 1 c)) (S p, q, out)
        | _ => a
        end) children acc
  end.

Definition is_next_id (c : sexp) : bool := Z.eqb (as_Z (nth_s 0 c)) 0.

Definition expand_cmd (acc : nat * list sexp) (c : sexp) : nat * list sexp :=
  let '(n0, out) := acc in
  match as_Z (nth_s 0 c) with
  | 0%Z => (S n0, out ++ [c])
  | 15%Z =>
      let ch := as_list (nth_s 2 c) in
      let cons := Lst [Num 0%Z] :: eb_construct 8 ch in
      let nb := length (filter is_next_id cons) in
      let '(_, ne, rend) := eb_render 8 n0 nb n0 ch (1%nat, 0%nat, []) in
      (n0 + nb + ne, out ++ cons ++ rend)%nat
  | 19%Z =>
      (* a real <Suspense/> / <Transition/>: one id at construction; if its children read a
         LocalResource the chunk is sent incomplete, under that id *)
      (S n0,
       out ++ Lst [Num 0%Z] ::
              (if as_bool (nth_s 3 c) then [Lst [Num 5%Z; Lst [Num 1%Z; snat n0]]] else []))
  | _ => (n0, out ++ [c])
  end.
(** the script of a case in primitive commands *)
Definition expand (script : list sexp) : list sexp := snd (fold_left expand_cmd script (0%nat, [])).

(** leptos_integration_utils::build_response: every chunk of pending_data() becomes
    [format!("<script{nonce}>{chunk}</script>")] (no nonce in the modelled mode) *)
Definition k_script_open : str := [60; 115; 99; 114; 105; 112; 116; 62].  (* <script> *)
Definition k_script_close : str := [60; 47; 115; 99; 114; 105; 112; 116; 62].  (* </script> *)
Definition wrap_chunk (c : str) : str := k_script_open ++ c ++ k_script_close.
Definition wrap_entry (e : sexp) : sexp :=
  match e with
  | Lst [Num 8%Z; Num 0%Z; Lst c] =>
      Lst [Num 8%Z; Num 0%Z; Lst (map sN k_script_open ++ c ++ map sN k_script_close)]
  | _ => e
  end.

(** * the browser side, 1: ECMAScript string literals (ES2019 11.8.4 + Annex B.1.2) *)

Definition is_octal (c : N) : bool := in_range 48 55 c.

(** UTF-16 code units of a code point *)
Definition utf16 (c : N) : list N :=
  if c <? 65536 then [c] else [55296 + (c - 65536) / 1024; 56320 + (c - 65536) mod 1024].

(** JS string -> Rust String as wasm-bindgen's [as_string] / TextEncoder does it: surrogate
    pairs combine, lone surrogates become U+FFFD *)
Fixpoint utf16_dec (l : list N) : str :=
  match l with
  | [] => []
  | u :: t =>
      if in_range 55296 56319 u then
        match t with
        | v :: t' =>
            if in_range 56320 57343 v
            then (65536 + (u - 55296) * 1024 + (v - 56320)) :: utf16_dec t'
            else 65533 :: utf16_dec t
        | [] => [65533]
        end
      else if in_range 56320 57343 u then 65533 :: utf16_dec t
      else u :: utf16_dec t
  end.

(** hex digits up to the closing brace of [\u{...}]; at least one digit, value <= 0x10FFFF *)
Fixpoint hex_braced (acc : N) (seen : bool) (l : str) : option (N * str) :=
  match l with
  | [] => None
  | c :: t =>
      if c =? 125 then (if seen && (acc <=? 1114111) then Some (acc, t) else None)
      else match hex_val c with
           | Some d => if acc <=? 1114111 then hex_braced (acc * 16 + d) true t else None
           | None => None
           end
  end.

Inductive jstep :=
| JClose (rest : str)                   (* closing quote *)
| JUnits (u : list N) (rest : str)      (* code units contributed by one DoubleStringCharacter *)
| JErr.                                 (* not a string literal (SyntaxError) *)

(** after a backslash *)
Definition js_escape (t : str) : jstep :=
  match t with
  | [] => JErr
  | e :: t' =>
      (* LineContinuation: \ LF, \ CR, \ CR LF, \ LS, \ PS contribute nothing *)
      if (e =? 10) || (e =? 8232) || (e =? 8233) then JUnits [] t'
      else if e =? 13 then
        match t' with
        | 10 :: t'' => JUnits [] t''
        | _ => JUnits [] t'
        end
      (* SingleEscapeCharacter *)
      else if e =? 98 then JUnits [8] t'
      else if e =? 102 then JUnits [12] t'
      else if e =? 110 then JUnits [10] t'
      else if e =? 114 then JUnits [13] t'
      else if e =? 116 then JUnits [9] t'
      else if e =? 118 then JUnits [11] t'
      (* HexEscapeSequence *)
      else if e =? 120 then
        match t' with
        | h1 :: h2 :: t'' =>
            match hex_val h1, hex_val h2 with
            | Some a, Some b => JUnits [a * 16 + b] t''
            | _, _ => JErr
            end
        | _ => JErr
        end
      (* UnicodeEscapeSequence *)
      else if e =? 117 then
        match t' with
        | 123 :: t'' =>
            match hex_braced 0 false t'' with
            | Some (v, rest) => JUnits (utf16 v) rest
            | None => JErr
            end
        | h1 :: h2 :: h3 :: h4 :: t'' =>
            match hex_val h1, hex_val h2, hex_val h3, hex_val h4 with
            | Some a, Some b, Some c, Some d => JUnits [((a * 16 + b) * 16 + c) * 16 + d] t''
            | _, _, _, _ => JErr
            end
        | _ => JErr
        end
      (* \0 not followed by a digit, and the legacy octal escapes of sloppy-mode scripts *)
      else if is_octal e then
        let d1 := e - 48 in
        match t' with
        | c2 :: t'' =>
            if is_octal c2 then
              let d2 := c2 - 48 in
              if d1 <=? 3 then
                match t'' with
                | c3 :: t''' =>
                    if is_octal c3 then JUnits [(d1 * 8 + d2) * 8 + (c3 - 48)] t'''
                    else JUnits [d1 * 8 + d2] t''
                | [] => JUnits [d1 * 8 + d2] t''
                end
              else JUnits [d1 * 8 + d2] t''
            else JUnits [d1] t'
        | [] => JUnits [d1] t'
        end
      (* \8 \9 (NonOctalDecimalEscapeSequence) and every NonEscapeCharacter, including
         the quotes and the backslash: the character itself *)
      else JUnits (utf16 e) t'
  end.

Definition js_step (inp : str) : jstep :=
  match inp with
  | [] => JErr
  | c :: t =>
      if c =? 34 then JClose t
      else if (c =? 10) || (c =? 13) then JErr      (* raw line terminator; LS/PS are allowed *)
      else if c =? 92 then js_escape t
      else JUnits (utf16 c) t
  end.

Fixpoint js_lit_fuel (fuel : nat) (acc : list N) (inp : str) : option (list N * str) :=
  match fuel with
  | O => None
  | S f =>
      match js_step inp with
      | JClose rest => Some (acc, rest)
      | JUnits u rest => js_lit_fuel f (acc ++ u) rest
      | JErr => None
      end
  end.

(** a double-quoted literal at the head of [inp]: the string the browser hands to wasm (as code
    points) and the remaining source text; [None] = syntax error *)
Definition js_read (inp : str) : option (str * str) :=
  match inp with
  | 34 :: t =>
      match js_lit_fuel (S (length t)) [] t with
      | Some (u, rest) => Some (utf16_dec u, rest)
      | None => None
      end
  | _ => None
  end.

(** * the browser side, 2: what ends or derails an HTML script element *)
Definition lower (c : N) : N := if in_range 65 90 c then c + 32 else c.
Fixpoint prefix_ci (p s : str) : bool :=
  match p, s with
  | [], _ => true
  | _ :: _, [] => false
  | a :: p', b :: s' => (a =? lower b) && prefix_ci p' s'
  end.
Fixpoint contains_ci (p s : str) : bool :=
  match s with
  | [] => match p with [] => true | _ => false end
  | _ :: t => prefix_ci p s || contains_ci p t
  end.
Definition has_script_end (s : str) : bool := contains_ci (k_script_end) s.
Definition has_comment_open (s : str) : bool := contains_ci (k_comment_open) s.
Definition inert (s : str) : bool := negb (has_script_end s) && negb (has_comment_open s).

(** * the browser side, 3: where a script element ends *)
(** HTML 13.2.5.4 / 13.2.5.15-17 (script data, less-than sign, end tag open, end tag name): the
    text of a script element whose content starts at [s] runs up to the first [</script] (ASCII
    case-insensitive) that is followed by white space, [/] or [>]. That is the whole story as
    long as no [<!--] comes before it (the escaped states are entered by nothing else). [None]:
    the element is never closed. *)
Definition tag_end_char (c : N) : bool :=
  (c =? 9) || (c =? 10) || (c =? 12) || (c =? 13) || (c =? 32) || (c =? 47) || (c =? 62).
Fixpoint script_text (s : str) : option str :=
  match s with
  | [] => None
  | c :: rest =>
      if prefix_ci k_script_end s &&
         match skipn 8 s with d :: _ => tag_end_char d | [] => false end
      then Some []
      else option_map (cons c) (script_text rest)
  end.
