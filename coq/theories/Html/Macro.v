(** C18 — executable model of the two code paths of leptos' [view!] macro.

    Transcribed from  leptos_macro/src/view/mod.rs  ([render_view], [is_inert_element],
    [inert_element_to_tokens], [node_to_tokens], [element_to_tokens], [attribute_to_tokens],
    [class_to_tokens], [style_to_tokens], [is_self_closing], [is_svg_element], …) and from the
    part of tachys that renders what the builder path constructs
    (html/element/mod.rs [to_html_with_buf], [attributes_to_html]; html/class.rs, html/style.rs,
    html/attribute/value.rs [to_html]; view/strings.rs, view/tuples.rs; html/mod.rs [InertElement];
    html/element/elements.rs SELF_CLOSING / ESCAPE_CHILDREN tables).

    A template is the syntax tree rstml hands to the macro, with every Rust expression
    replaced by the value it evaluates to (a string / a bool).  NOT modelled (compared only by
    the harness): rstml parsing, token plumbing, components and slots, spreads, [inner_html], the
    doctype, the global-class form; events, directives, properties and node refs are one constructor [ASilent]
    (they keep an element off the inert path and render nothing).  No proofs in this file. *)
From Coq Require Import List NArith Bool Ascii String.
From LV Require Import Base.Bytes.
Import ListNotations.
Open Scope N_scope.

(** ---- byte-string helpers ---- *)
Fixpoint bs (s : string) : bytes :=
  match s with EmptyString => [] | String c r => N_of_ascii c :: bs r end.

Fixpoint beq (a b : bytes) : bool :=
  match a, b with
  | [], [] => true
  | x :: a, y :: b => (x =? y) && beq a b
  | _, _ => false
  end.
Definition mem (x : bytes) (l : list bytes) : bool := existsb (beq x) l.

Definition is_nil {A} (l : list A) : bool := match l with [] => true | _ => false end.

(** ASCII whitespace (the part of [char::is_whitespace] the model covers, see ASSUMPTIONS) *)
Definition is_ws (c : N) : bool := (c =? 32) || ((9 <=? c) && (c <=? 13)).

Fixpoint trim_start (s : bytes) : bytes :=
  match s with c :: r => if is_ws c then trim_start r else s | [] => [] end.
Fixpoint trim_end (s : bytes) : bytes :=
  match s with
  | [] => []
  | c :: r => let r' := trim_end r in if is_ws c && is_nil r' then [] else c :: r'
  end.
(** [str::trim_start().trim_end()] *)
Definition trim (s : bytes) : bytes := trim_end (trim_start s).

(** ---- html_escape::encode_text / encode_double_quoted_attribute ---- *)
Definition e_amp : bytes := Eval vm_compute in bs "&amp;".
Definition e_lt : bytes := Eval vm_compute in bs "&lt;".
Definition e_gt : bytes := Eval vm_compute in bs "&gt;".
Definition e_quot : bytes := Eval vm_compute in bs "&quot;".
Definition marker : bytes := Eval vm_compute in bs "<!>".
Definition enc_text_char (c : N) : bytes :=
  if c =? 38 then e_amp else if c =? 60 then e_lt else if c =? 62 then e_gt else [c].
Definition enc_attr_char (c : N) : bytes :=
  if c =? 38 then e_amp else if c =? 60 then e_lt else if c =? 62 then e_gt
  else if c =? 34 then e_quot else [c].
Definition enc_text (s : bytes) : bytes := flat_map enc_text_char s.
Definition enc_attr (s : bytes) : bytes := flat_map enc_attr_char s.

(** ---- template AST ---- *)
Inductive aval :=
| VLit (v : bytes)              (* name="v"                      *)
| VNone                         (* name                          *)
| VDynStr (v : bytes)           (* name={e}, e : String = v; also name=2.50 / 'c' / -1: any value that
                                   is not a string literal and whose Display is v *)
| VDynBool (b : bool)           (* name={e}, e : bool            *)
| VDynOpt (o : option bytes).   (* name={e}, e : Option<String>  *)

Inductive attr :=
| APlain (name : bytes) (v : aval)          (* also name = "class" / "style" (VLit / VDynStr only);
                                               [name] is the HTML name: both paths map http_equiv,
                                               accept_charset, aria_x to the dashed name *)
| AClassTog (name : bytes) (v : option bool) (* class:name   |  class:name={b}                      *)
| AClassTup (names : list bytes) (b : bool)  (* class=("n", b)  |  class=(["n1","n2"], b)            *)
| AStyleProp (prop : bytes) (v : bytes)      (* style:prop="v"  |  style:prop={e}                    *)
| AStyleTup (prop : bytes) (v : bytes)       (* style=("prop", "v")                                  *)
| ASilent.                                   (* on:ev=f | prop:x=v | use:d | node_ref=r: instructions to the
                                               builder that render nothing ([is_special_key]: never static) *)

Inductive node :=
| NText (s : bytes)                                   (* "literal"                  *)
| NBlock (s : bytes)                                  (* {e}, e : String = s        *)
| NElem (tag : bytes) (attrs : list attr) (children : list node)
| NFrag (children : list node)                        (* <> … </>                   *)
| NComment.                                           (* <!-- "…" -->: dropped by the macro, but an element
                                                         holding one is never inert       *)

(** ---- tables of the macro (leptos_macro/src/view/mod.rs) ---- *)
Definition macro_void : list bytes := Eval vm_compute in map bs
  ["area"; "base"; "br"; "col"; "embed"; "hr"; "img"; "input"; "link"; "meta"; "param"; "source";
   "track"; "wbr"]%string.
(** elements whose text children the inert path does not escape ([escapes_children]) *)
Definition macro_raw : list bytes := Eval vm_compute in map bs ["script"; "style"; "noscript"]%string.
Definition macro_svg : list bytes := Eval vm_compute in map bs
  ["animate"; "animateMotion"; "animateTransform"; "circle"; "clipPath"; "defs"; "desc"; "discard";
   "ellipse"; "feBlend"; "feColorMatrix"; "feComponentTransfer"; "feComposite"; "feConvolveMatrix";
   "feDiffuseLighting"; "feDisplacementMap"; "feDistantLight"; "feDropShadow"; "feFlood"; "feFuncA";
   "feFuncB"; "feFuncG"; "feFuncR"; "feGaussianBlur"; "feImage"; "feMerge"; "feMergeNode";
   "feMorphology"; "feOffset"; "fePointLight"; "feSpecularLighting"; "feSpotLight"; "feTile";
   "feTurbulence"; "filter"; "foreignObject"; "g"; "hatch"; "hatchpath"; "image"; "line";
   "linearGradient"; "marker"; "mask"; "metadata"; "mpath"; "path"; "pattern"; "polygon"; "polyline";
   "radialGradient"; "rect"; "set"; "stop"; "svg"; "switch"; "symbol"; "text"; "textPath"; "tspan";
   "use"; "use_"; "view"]%string.
Definition macro_mathml : list bytes := Eval vm_compute in map bs
  ["annotation"; "maction"; "math"; "menclose"; "merror"; "mfenced"; "mfrac"; "mi"; "mmultiscripts";
   "mn"; "mo"; "mover"; "mpadded"; "mphantom"; "mprescripts"; "mroot"; "mrow"; "ms"; "mspace"; "msqrt";
   "mstyle"; "msub"; "msubsup"; "msup"; "mtable"; "mtd"; "mtext"; "mtr"; "munder"; "munderover";
   "semantics"]%string.
Definition is_custom (tag : bytes) : bool := existsb (N.eqb 45) tag.
(** [is_component_tag_name]: last path segment starts with an ASCII upper-case letter *)
Definition is_component (tag : bytes) : bool :=
  match tag with c :: _ => is_upper c | [] => false end.

(** ---- tables of the renderer (tachys/src/html/element/elements.rs) ---- *)
Definition tachys_void : list bytes := Eval vm_compute in map bs
  ["area"; "base"; "br"; "col"; "embed"; "hr"; "img"; "input"; "link"; "meta"; "source"; "track";
   "wbr"]%string.
(** ESCAPE_CHILDREN = false *)
Definition tachys_raw : list bytes := Eval vm_compute in map bs ["noscript"; "script"; "style"; "textarea"]%string.

Definition k_textarea : bytes := Eval vm_compute in bs "textarea".
Definition k_svg : bytes := Eval vm_compute in bs "svg".
Definition k_math : bytes := Eval vm_compute in bs "math".
(** [is_ambiguous_element]: resolved by the namespace of the parent *)
Definition macro_ambiguous : list bytes := Eval vm_compute in map bs ["a"; "script"; "style"; "title"]%string.
(** [is_svg_html_integration_point]: their content is parsed as HTML *)
Definition svg_integration : list bytes := Eval vm_compute in map bs ["foreignObject"; "desc"; "title"]%string.
Definition k_class : bytes := Eval vm_compute in bs "class".
Definition k_style : bytes := Eval vm_compute in bs "style".

(** ---- the inert-subtree test ([is_inert_element]) ---- *)
Definition attr_static (a : attr) : bool :=
  match a with
  | APlain _ (VLit _) => true
  | APlain _ VNone => true
  | _ => false        (* class:n with or without a value, tuples, style:…, {expr} values *)
  end.

Fixpoint all_static (n : node) : bool :=
  match n with
  | NText _ => true
  | NElem tag attrs ch =>
      negb (is_component tag) && forallb attr_static attrs && forallb all_static ch
  | NBlock _ | NFrag _ | NComment => false
  end.

Definition is_inert_element (n : node) : bool :=
  match n with
  | NElem tag attrs ch =>
      negb (is_nil attrs && is_nil ch)
      && negb (mem tag macro_svg || mem tag macro_mathml)
      && all_static n
  | _ => false
  end.

(** ---- attributes as printed: [ name] or [ name="escaped value"] (both paths push exactly this
    shape: inert_element_to_tokens / <&str as AttributeValue>::to_html, bool::to_html) ---- *)
Definition print_attr (kv : bytes * option bytes) : bytes :=
  [32] ++ fst kv ++
  match snd kv with None => [] | Some v => [61; 34] ++ enc_attr v ++ [34] end.
Definition print_attrs (l : list (bytes * option bytes)) : bytes := flat_map print_attr l.

(** ---- inert path: the string [inert_element_to_tokens] builds at compile time ---- *)
Definition i_attr (a : attr) : list (bytes * option bytes) :=
  match a with
  | APlain name (VLit v) => [(name, Some v)]     (* [push_class] for "class": same shape *)
  | APlain name VNone => if beq name k_class then [] else [(name, None)]
  | _ => []                                       (* not reached on an inert subtree *)
  end.

(** [inert_element_to_tokens]. [foreign] = the node lies in SVG / MathML content (for the root: the
    parent's namespace is Svg or Math): there every element, <style> and <script> included, is an
    ordinary element to the HTML parser, so its text is escaped; inside the HTML integration points
    (foreignObject, desc, title) the rule by element name applies again. *)
Fixpoint inert_node (foreign escape : bool) (n : node) : bytes :=
  match n with
  | NText s => if escape then enc_text s else s
  | NElem tag attrs ch =>
      let foreign_el := foreign || beq tag k_svg || beq tag k_math in
      let escape' := foreign_el || negb (mem tag macro_raw) in
      let foreign' := foreign_el && negb (mem tag svg_integration) in
      [60] ++ tag ++ print_attrs (flat_map i_attr attrs) ++ [62] ++
      (if mem tag macro_void then []
       else flat_map (inert_node foreign' escape') ch ++ [60; 47] ++ tag ++ [62])
  | NBlock _ | NFrag _ | NComment => []            (* [_ => {}] *)
  end.
(** an inert element below an HTML parent *)
Definition inert_html (n : node) : bytes := inert_node false true n.

(** ---- builder path, attributes ---- *)
Definition is_tuple (a : attr) : bool :=
  match a with AClassTup _ _ | AStyleTup _ _ => true | _ => false end.
(** first path segment of the key, if it is [class] (Some true) or [style] (Some false) *)
Definition cs_key (a : attr) : option bool :=
  match a with
  | APlain n _ => if beq n k_class then Some true else if beq n k_style then Some false else None
  | AClassTup _ _ => Some true
  | AStyleTup _ _ => Some false
  | _ => None
  end.
(** the comparator of [node.attributes_mut()[..].sort_by(…)], [true] = Ordering::Less *)
Definition attr_less (a b : attr) : bool :=
  if is_tuple a then false
  else if is_tuple b then true
  else match cs_key a, cs_key b with
       | Some x, Some y => negb (Bool.eqb x y)   (* class/style vs the other one: Less; same: Equal *)
       | Some _, None => true
       | _, _ => false
       end.
(** [slice::sort_by] on fewer than 21 elements is [insertion_sort_shift_left]: each element
    moves left past the elements it is less than.  [racc] = sorted prefix, last element first. *)
Fixpoint insert_tail (x : attr) (racc : list attr) : list attr :=
  match racc with
  | y :: r => if attr_less x y then y :: insert_tail x r else x :: racc
  | [] => [x]
  end.
Definition sort_attrs (l : list attr) : list attr :=
  rev (fold_left (fun racc x => insert_tail x racc) l []).

(** what one builder call contributes: (regular attributes, pushes onto the class buffer,
    pushes onto the style buffer) *)
Definition b_plain (a : attr) : list (bytes * option bytes) :=
  match a with
  | APlain n v =>
      if beq n k_class || beq n k_style then [] else
      match v with
      | VLit s | VDynStr s | VDynOpt (Some s) => [(n, Some s)]
      | VNone | VDynBool true => [(n, None)]
      | VDynBool false | VDynOpt None => []
      end
  | _ => []
  end.
(** html/class.rs: [Class::to_html] pushes ' ' then the value *)
Definition b_class (a : attr) : list bytes :=
  match a with
  | APlain n (VLit s) | APlain n (VDynStr s) => if beq n k_class then [s] else []
  | AClassTog n None | AClassTog n (Some true) => [n]
  | AClassTog n (Some false) => [[]]
  | AClassTup ns b => map (fun n => if b then n else []) ns
  | _ => []
  end.
(** html/style.rs: a whole value pushes [v] then ';', a pair pushes [name:v] then ';' *)
Definition b_style (a : attr) : list bytes :=
  match a with
  | APlain n (VLit s) | APlain n (VDynStr s) => if beq n k_style then [s] else []
  | AStyleProp p v | AStyleTup p v => [p ++ [58] ++ v]
  | _ => []
  end.
(** [attributes_to_html] *)
Definition b_attr_list (attrs : list attr) : list (bytes * option bytes) :=
  let l := sort_attrs attrs in
  let class := flat_map (fun p => 32 :: p) (flat_map b_class l) in
  let style := flat_map (fun p => p ++ [59]) (flat_map b_style l) in
  flat_map b_plain l
  ++ (if is_nil class then [] else [(k_class, Some (trim class))])
  ++ (if is_nil style then [] else [(k_style, Some (trim style))]).

(** ---- builder path, nodes ---- *)
Inductive position := PFirst | PNext | PAfterText.

(** view/strings.rs [<&str as RenderHtml>::to_html_with_buf] *)
Definition r_text (escape : bool) (pos : position) (s : bytes) : bytes * position :=
  ((match pos with PAfterText => if escape then marker else [] | _ => [] end)
   ++ (if escape then (if is_nil s then [32] else enc_text s) else s),
   PAfterText).

(** how the builder path picks the element constructor: custom(..) / svg:: / mathml:: / html:: *)
Definition b_void (tag : bytes) : bool :=
  if is_custom tag || mem tag macro_svg || mem tag macro_mathml then false else mem tag tachys_void.
Definition b_escape (tag : bytes) : bool :=
  if is_custom tag || mem tag macro_svg || mem tag macro_mathml then true
  else negb (mem tag tachys_raw).

(** rendering a sequence of views: the position is threaded through (view/tuples.rs) *)
Definition thread {A} (f : position -> A -> bytes * position)
  : position -> list A -> bytes * position :=
  fix go (pos : position) (l : list A) {struct l} : bytes * position :=
    match l with
    | [] => ([], pos)
    | x :: r => let '(h, p) := f pos x in
                let '(t, p') := go p r in (h ++ t, p')
    end.

(** [escapes_content_as_text]: the children of <textarea> are rendered with escape = false
    and the result is escaped as a whole *)
Definition b_whole (tag : bytes) : bool := negb (b_escape tag) && beq tag k_textarea.

(** [TagType]: the namespace handed down to the children of an element *)
Inductive ptype := PUnknown | PHtml | PSvg | PMath.
Definition is_foreign (pt : ptype) : bool := match pt with PSvg | PMath => true | _ => false end.
(** an ambiguous name below an SVG parent is built with tachys::svg::name() (never void, children
    escaped); below Unknown / Html / Math with the HTML constructor *)
Definition svg_ctor (pt : ptype) (tag : bytes) : bool :=
  negb (is_custom tag) && mem tag macro_ambiguous && match pt with PSvg => true | _ => false end.
Definition b_void_p (pt : ptype) (tag : bytes) : bool := if svg_ctor pt tag then false else b_void tag.
Definition b_escape_p (pt : ptype) (tag : bytes) : bool := if svg_ctor pt tag then true else b_escape tag.
Definition b_whole_p (pt : ptype) (tag : bytes) : bool := negb (b_escape_p pt tag) && beq tag k_textarea.
(** [parent_type] after the element picked its constructor, then [child_type] *)
Definition own_type (pt : ptype) (tag : bytes) : ptype :=
  if is_custom tag then pt
  else if mem tag macro_svg then PSvg
  else if mem tag macro_mathml then PMath
  else if mem tag macro_ambiguous then pt
  else PHtml.
Definition child_type (pt : ptype) (tag : bytes) : ptype :=
  match own_type pt tag with
  | PSvg => if mem tag svg_integration then PHtml else PSvg
  | t => t
  end.

(** [node_to_tokens] followed by [to_html_with_buf] of what it built.
    [io] = inert-HTML optimisation enabled ([view!]; false for [template!] and for the
    "builder path" of the theorems); [top] = [top_level]; [pt] = [parent_type]. *)
Fixpoint r_node (io top escape : bool) (pt : ptype) (pos : position) (n : node) {struct n}
  : bytes * position :=
  match n with
  | NText s => if is_nil s then ([], pos) else r_text escape pos s
  | NBlock s => r_text escape pos s
  | NFrag ch => thread (fun pos x => r_node io true escape pt pos x) pos ch
  | NComment => ([], pos)
  | NElem tag attrs ch =>
      if negb top && io && is_inert_element n then (inert_node (is_foreign pt) true n, PNext)
      else
        let body :=
          if mem tag macro_void then []
          else
            let raw := fst (thread (fun pos x => r_node io false (b_escape_p pt tag) (child_type pt tag) pos x)
                                   PFirst ch) in
            if b_whole_p pt tag then enc_text raw else raw in
        ([60] ++ tag ++ print_attrs (b_attr_list attrs) ++ [62]
         ++ (if b_void_p pt tag then [] else body ++ [60; 47] ++ tag ++ [62]),
         PNext)
  end.

Definition r_list (io top escape : bool) (pt : ptype) (pos : position) (l : list node) : bytes * position :=
  thread (fun pos x => r_node io top escape pt pos x) pos l.

(** does [node_to_tokens] return [Some] for this node? (empty literals and fragments without
    such a node yield no tokens) *)
Fixpoint has_tokens (n : node) : bool :=
  match n with
  | NText s => negb (is_nil s)
  | NBlock _ | NElem _ _ _ => true
  | NFrag ch => existsb has_tokens ch
  | NComment => false
  end.

(** [render_view] + [to_html()]: 1 node = that node at top level, more = a fragment; if nothing
    yields tokens the view is [()], which renders as a lone marker (view/tuples.rs) *)
Definition view_html (io : bool) (t : list node) : bytes :=
  if existsb has_tokens t then fst (r_list io true true PUnknown PFirst t) else marker.
(** the builder path alone: the inert optimisation disabled ([template!], or no eligible subtree) *)
Definition builder_html (t : list node) : bytes := view_html false t.

(** ---- what a template denotes: an element tree with attribute sets and merged text ---- *)
Inductive tree :=
| TText (s : bytes)
| TElem (tag : bytes) (attrs : list (bytes * bytes)) (children : list tree).

(** a forest under construction is kept reversed; text is appended to a preceding text node *)
Definition push_char (c : N) (cur : list tree) : list tree :=
  match cur with
  | TText s :: r => TText (s ++ [c]) :: r
  | _ => TText [c] :: cur
  end.
Definition push_text (s : bytes) (cur : list tree) : list tree :=
  fold_left (fun cur c => push_char c cur) s cur.

(** splitting, for the two attributes whose value is a list: class (tokens separated by ASCII
    whitespace) and style (declarations separated by ';') *)
Fixpoint split_on (sep : N -> bool) (s : bytes) : list bytes :=
  match s with
  | [] => [[]]
  | c :: r => if sep c then [] :: split_on sep r
              else match split_on sep r with p :: ps => (c :: p) :: ps | [] => [[c]] end
  end.
Definition nonempty (s : bytes) : bool := negb (is_nil s).
Definition tokens (s : bytes) : list bytes := filter nonempty (split_on is_ws s).
Definition decls (s : bytes) : list bytes :=
  filter nonempty (map trim (split_on (N.eqb 59) s)).

(** lexicographic orders used to make attribute sets canonical *)
Fixpoint lex_le {A} (le eqb : A -> A -> bool) (a b : list A) : bool :=
  match a, b with
  | [], _ => true
  | _ :: _, [] => false
  | x :: a, y :: b => if eqb x y then lex_le le eqb a b else le x y
  end.
Definition ble : bytes -> bytes -> bool := lex_le N.leb N.eqb.
Definition pair_le (p q : bytes * bytes) : bool :=
  lex_le ble beq [fst p; snd p] [fst q; snd q].

Fixpoint insert_sorted {A} (le : A -> A -> bool) (x : A) (l : list A) : list A :=
  match l with
  | [] => [x]
  | y :: r => if le x y then x :: l else y :: insert_sorted le x r
  end.
Definition sort {A} (le : A -> A -> bool) (l : list A) : list A :=
  fold_right (insert_sorted le) [] l.
Fixpoint dedup (l : list bytes) : list bytes :=
  match l with
  | x :: ((y :: _) as r) => if beq x y then dedup r else x :: dedup r
  | _ => l
  end.
Fixpoint join (sep : N) (l : list bytes) : bytes :=
  match l with [] => [] | [x] => x | x :: r => x ++ sep :: join sep r end.

Definition is_cs (k : bytes) : bool := beq k k_class || beq k k_style.
(** the attribute SET of a list of (name, value) pairs: every [class] entry contributes its
    tokens, every [style] entry its declarations; an empty class / style is no attribute;
    everything else is kept as a pair; the result is sorted *)
Definition norm_attrs (l : list (bytes * bytes)) : list (bytes * bytes) :=
  let plain := filter (fun kv => negb (is_cs (fst kv))) l in
  let cls := flat_map (fun kv => if beq (fst kv) k_class then tokens (snd kv) else []) l in
  let sty := flat_map (fun kv => if beq (fst kv) k_style then decls (snd kv) else []) l in
  sort pair_le plain
  ++ (if is_nil cls then [] else [(k_class, join 32 (dedup (sort ble cls)))])
  ++ (if is_nil sty then [] else [(k_style, join 59 (dedup (sort ble sty)))]).

(** the (name, value) pairs an attribute of the template stands for; a boolean attribute is the
    empty string (HTML: [<input disabled>] = [disabled=""]) *)
Definition attr_pairs (a : attr) : list (bytes * bytes) :=
  match a with
  | APlain n (VLit s) | APlain n (VDynStr s) | APlain n (VDynOpt (Some s)) => [(n, s)]
  | APlain n VNone | APlain n (VDynBool true) =>
      if is_cs n then [] else [(n, [])]
  | APlain n (VDynBool false) | APlain n (VDynOpt None) => []
  | AClassTog n None | AClassTog n (Some true) => [(k_class, n)]
  | AClassTog n (Some false) => []
  | AClassTup ns b => if b then map (fun n => (k_class, n)) ns else []
  | AStyleProp p v | AStyleTup p v => [(k_style, p ++ [58] ++ v)]
  | ASilent => []
  end.
Definition denote_attrs (attrs : list attr) : list (bytes * bytes) :=
  norm_attrs (flat_map attr_pairs attrs).

(** HTML void elements (no content, no end tag) *)
Definition html_void : list bytes := tachys_void.

(** push the denotation of [n] onto the reversed forest [cur] *)
Fixpoint dn (n : node) (cur : list tree) {struct n} : list tree :=
  match n with
  | NText s | NBlock s => push_text s cur
  | NFrag ch => fold_left (fun cur x => dn x cur) ch cur
  | NComment => cur
  | NElem tag attrs ch =>
      TElem tag (denote_attrs attrs)
        (rev (if mem tag html_void then [] else fold_left (fun cur x => dn x cur) ch []))
      :: cur
  end.
Definition dn_list (l : list node) (cur : list tree) : list tree :=
  fold_left (fun cur x => dn x cur) l cur.
Definition denote (t : list node) : list tree := rev (dn_list t []).
