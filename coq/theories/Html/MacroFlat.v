(** C18 — the two renderers of Html/Macro.v with every element resolved by its NAME alone (the HTML
    constructor unless the name is custom / SVG / MathML), i.e. without the parent-namespace rule for
    the ambiguous names a / script / style / title and without the inert path's foreign-content rule.
    Auxiliary to the proofs: MacroProofs.v shows that on well-formed templates (no script / style /
    noscript below an SVG or MathML element) they coincide with [inert_node] / [r_node]. *)
From Coq Require Import List NArith Bool.
From LV Require Import Base.Bytes Html.Macro.
Import ListNotations.
Open Scope N_scope.

Fixpoint inert_node0 (escape : bool) (n : node) : bytes :=
  match n with
  | NText s => if escape then enc_text s else s
  | NElem tag attrs ch =>
      let escape' := negb (mem tag macro_raw) in
      [60] ++ tag ++ print_attrs (flat_map i_attr attrs) ++ [62] ++
      (if mem tag macro_void then []
       else flat_map (inert_node0 escape') ch ++ [60; 47] ++ tag ++ [62])
  | NBlock _ | NFrag _ | NComment => []            (* [_ => {}] *)
  end.

(** [node_to_tokens] followed by [to_html_with_buf] of what it built.
    [io] = inert-HTML optimisation enabled ([view!]; false for [template!] and for the
    "builder path" of the theorems); [top] = [top_level]. *)
Fixpoint r_node0 (io top escape : bool) (pos : position) (n : node) {struct n} : bytes * position :=
  match n with
  | NText s => if is_nil s then ([], pos) else r_text escape pos s
  | NBlock s => r_text escape pos s
  | NFrag ch => thread (fun pos x => r_node0 io true escape pos x) pos ch
  | NComment => ([], pos)
  | NElem tag attrs ch =>
      if negb top && io && is_inert_element n then (inert_node0 true n, PNext)
      else
        let body :=
          if mem tag macro_void then []
          else
            let raw := fst (thread (fun pos x => r_node0 io false (b_escape tag) pos x) PFirst ch) in
            if b_whole tag then enc_text raw else raw in
        ([60] ++ tag ++ print_attrs (b_attr_list attrs) ++ [62]
         ++ (if b_void tag then [] else body ++ [60; 47] ++ tag ++ [62]),
         PNext)
  end.

Definition r_list0 (io top escape : bool) (pos : position) (l : list node) : bytes * position :=
  thread (fun pos x => r_node0 io top escape pos x) pos l.

