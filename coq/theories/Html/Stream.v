(** C07 — executable model of streaming SSR.

    Part 1 (Section Machine): [tachys::ssr::StreamBuilder] — its buffer/queue operations
    and [impl Stream for StreamBuilder :: poll_next], transcribed over abstract futures:
    a future is an id [fid] plus a closure ([K] for in-order chunks, [KO] for out-of-order
    chunks); what it yields when polled after completion is given by [res]/[reso], which may
    depend on the set of futures complete at that moment.  Readiness is an explicit
    [done : fid -> bool]; a schedule is a list of [event]s.

    Part 2: a view grammar with the three renderers of [RenderHtml]
    ([to_html_with_buf], [to_html_async_with_buf::<false>] and [::<true>]) for text,
    elements, tuples, [Suspend], a Suspense-like boundary (the StreamBuilder calls of
    leptos' [SuspenseBoundary]), an ErrorBoundary-like [append] wrapper and raw
    [push_sync]/[push_async] nodes, including every [Position] decision.

    HTML is a list of tokens: plain bytes, the suspense marker comments
    [<!--s-ID-o-->]/[<!--s-ID-c-->] and the [<template id="IDf">] / [</template><script>…]
    delimiters of an out-of-order replacement ([serialize] gives the bytes).  Rust's
    [sync_buf.find(marker)] is modelled as a search for the marker token.

    No proofs in this file. *)
From Coq Require Import Ascii String.
From Coq Require Import List NArith Bool.
Import ListNotations.
Open Scope N_scope.

Definition fid := N.
Definition bytes := list N.

(* ------------------------------------------------------------------ tokens *)
Inductive tok :=
| TB (b : N)                         (* one byte of ordinary HTML *)
| TOpen (i : list N)                 (* <!--s-1-2-o-->  (write_chunk_marker(true))  *)
| TClose (i : list N)                (* <!--s-1-2-c-->  *)
| TTplS (i : list N)                 (* OooChunk::push_start *)
| TTplE (i : list N) (replace : bool)(* OooChunk::push_end_with_nonce(replace, id, _, None) *).
Definition html := list tok.

Definition tb (s : bytes) : html := map TB s.

Fixpoint list_N_eqb (a b : list N) : bool :=
  match a, b with
  | [], [] => true
  | x :: a, y :: b => (x =? y) && list_N_eqb a b
  | _, _ => false
  end.

Definition is_open (i : list N) (t : tok) : bool :=
  match t with TOpen j => list_N_eqb i j | _ => false end.
Definition is_close (i : list N) (t : tok) : bool :=
  match t with TClose j => list_N_eqb i j | _ => false end.

(** index of the first element satisfying [p]  (str::find) *)
Fixpoint find_idx {A} (p : A -> bool) (l : list A) : option nat :=
  match l with
  | [] => None
  | x :: l => if p x then Some O else option_map S (find_idx p l)
  end.

(* ------------------------------------------------------------------ serialisation *)
Fixpoint bytes_of_string (s : string) : bytes :=
  match s with
  | EmptyString => []
  | String c s => N_of_ascii c :: bytes_of_string s
  end.

Fixpoint dec_fuel (fuel : nat) (n : N) (acc : bytes) : bytes :=
  match fuel with
  | O => acc
  | S k => let acc' := (48 + n mod 10) :: acc in
           if n <? 10 then acc' else dec_fuel k (n / 10) acc'
  end.
Definition dec (n : N) : bytes := dec_fuel 24 n [].

(** "1-2-" *)
Definition id_str (i : list N) : bytes := flat_map (fun p => dec p ++ [45]) i.

Definition script_head : bytes := Eval vm_compute in bytes_of_string
  "</template><script>(function() { let id = """.
Definition script_mid : bytes := Eval vm_compute in bytes_of_string
  """;let open = undefined;let close = undefined;let walker = document.createTreeWalker(document.body, NodeFilter.SHOW_COMMENT);while(walker.nextNode()) {if(walker.currentNode.textContent == `s-${id}o`){ open=walker.currentNode; } else if(walker.currentNode.textContent == `s-${id}c`) { close = walker.currentNode;}}let range = new Range(); range.setStartBefore(open); range.setEndBefore(close);".
Definition script_replace : bytes := Eval vm_compute in bytes_of_string
  "range.deleteContents(); let tpl = document.getElementById(`${id}f`); close.parentNode.insertBefore(tpl.content.cloneNode(true), close);close.remove();".
Definition script_keep : bytes := Eval vm_compute in bytes_of_string "close.remove();open.remove();".
Definition script_tail : bytes := Eval vm_compute in bytes_of_string "})()</script>".

Definition marker_head : bytes := Eval vm_compute in bytes_of_string "<!--s-".
Definition marker_o : bytes := Eval vm_compute in bytes_of_string "o-->".
Definition marker_c : bytes := Eval vm_compute in bytes_of_string "c-->".
Definition tpl_head : bytes := Eval vm_compute in bytes_of_string "<template id=""".
Definition tpl_tail : bytes := Eval vm_compute in bytes_of_string "f"">".

Definition ser_tok (t : tok) : bytes :=
  match t with
  | TB b => [b]
  | TOpen i => marker_head ++ id_str i ++ marker_o
  | TClose i => marker_head ++ id_str i ++ marker_c
  | TTplS i => tpl_head ++ id_str i ++ tpl_tail
  | TTplE i r => script_head ++ id_str i ++ script_mid
                 ++ (if r then script_replace else script_keep) ++ script_tail
  end.
Definition serialize (h : html) : bytes := flat_map ser_tok h.

(* ================================================================== Part 1 *)
Section Machine.
Variables K KO : Type.

Inductive chunk :=
| CSync (s : html)
| CAsync (f : fid) (k : K)
| COoo (f : fid) (k : KO).

Record ooo_chunk := { oid : list N; ochunks : list chunk; oreplace : bool }.

(** what a completed future yields when it is polled, given which futures are complete *)
Variable res : K -> (fid -> bool) -> list chunk.
Variable reso : KO -> (fid -> bool) -> ooo_chunk.

Record sb := {
  sync_buf : html;
  chunks : list chunk;
  pending : option (fid * K);
  pending_ooo : list (fid * KO);
  bid : option (list N);
}.

Definition sb_new (i : option (list N)) : sb :=
  {| sync_buf := []; chunks := []; pending := None; pending_ooo := []; bid := i |}.

Definition set_sync (b : sb) (s : html) : sb :=
  {| sync_buf := s; chunks := chunks b; pending := pending b;
     pending_ooo := pending_ooo b; bid := bid b |}.
Definition set_chunks (b : sb) (c : list chunk) : sb :=
  {| sync_buf := sync_buf b; chunks := c; pending := pending b;
     pending_ooo := pending_ooo b; bid := bid b |}.
Definition set_pending (b : sb) (p : option (fid * K)) : sb :=
  {| sync_buf := sync_buf b; chunks := chunks b; pending := p;
     pending_ooo := pending_ooo b; bid := bid b |}.
Definition set_pooo (b : sb) (p : list (fid * KO)) : sb :=
  {| sync_buf := sync_buf b; chunks := chunks b; pending := pending b;
     pending_ooo := p; bid := bid b |}.
Definition set_bid (b : sb) (i : option (list N)) : sb :=
  {| sync_buf := sync_buf b; chunks := chunks b; pending := pending b;
     pending_ooo := pending_ooo b; bid := i |}.

Definition is_nil {A} (l : list A) : bool := match l with [] => true | _ => false end.

(** push_sync / with_buf *)
Definition push_sync (s : html) (b : sb) : sb := set_sync b (sync_buf b ++ s).

(** "flush sync chunk": mem::take(sync_buf); if !empty { chunks.push_back(Sync) } *)
Definition flush (b : sb) : sb :=
  if is_nil (sync_buf b) then b
  else set_sync (set_chunks b (chunks b ++ [CSync (sync_buf b)])) [].

Definition push_async (f : fid) (k : K) (b : sb) : sb :=
  let b := flush b in set_chunks b (chunks b ++ [CAsync f k]).

Definition take_chunks (b : sb) : list chunk * sb :=
  let b := flush b in (chunks b, set_chunks b []).

Fixpoint split_last (l : list N) : option (list N * N) :=
  match l with
  | [] => None
  | [x] => Some ([], x)
  | x :: l => match split_last l with
              | Some (p, y) => Some (x :: p, y)
              | None => None
              end
  end.

(** the id after [append]: if the other stream numbered on from a clone of this stream's id,
    continue after the ids it used *)
Definition merge_id (mine theirs : option (list N)) : option (list N) :=
  match mine, theirs with
  | Some m, Some t =>
      match split_last m, split_last t with
      | Some (pm, a), Some (pt, b) =>
          if list_N_eqb pm pt && (a <? b) then Some (pm ++ [b]) else Some m
      | _, _ => Some m
      end
  | _, _ => mine
  end.

Definition append (b other : sb) : sb :=
  let b := if existsb (fun c => match c with COoo _ _ => false | _ => true end) (chunks other)
           then flush b else b in
  let b := set_sync (set_chunks b (chunks b ++ chunks other)) (sync_buf b ++ sync_buf other) in
  set_bid b (merge_id (bid b) (bid other)).

Fixpoint push_to_last_sync (c : list chunk) (s : html) : list chunk :=
  match c with
  | [] => [CSync s]
  | [CSync buf] => [CSync (buf ++ s)]
  | [x] => [x; CSync s]
  | x :: c => x :: push_to_last_sync c s
  end.

Definition finish (b : sb) : sb :=
  if is_nil (sync_buf b) then b
  else set_sync (set_chunks b (push_to_last_sync (chunks b) (sync_buf b))) [].

Fixpoint incr_last (i : list N) : list N :=
  match i with
  | [] => []
  | [x] => [x + 1]
  | x :: i => x :: incr_last i
  end.
Definition next_id (b : sb) : sb := set_bid b (option_map incr_last (bid b)).
Definition clone_id (b : sb) : option (list N) := bid b.
Definition child_id (b : sb) : option (list N) := option_map (fun i => i ++ [0]) (bid b).

Definition write_chunk_marker (opening : bool) (b : sb) : sb :=
  match bid b with
  | Some i => push_sync [if opening then TOpen i else TClose i] b
  | None => b
  end.

(** push_async_out_of_order: chunks.push_back(OutOfOrder) — the sync buffer is not flushed *)
Definition push_ooo (f : fid) (k : KO) (b : sb) : sb :=
  set_chunks b (chunks b ++ [COoo f k]).

(* ---- poll_next ---- *)
Inductive pres := PPending | PSome (s : html) | PNone | PFuel | PPanic.

Definition sync_payloads (c : list chunk) : list html :=
  flat_map (fun x => match x with CSync s => [s] | _ => [] end) c.
Definition non_sync (c : list chunk) : list chunk :=
  filter (fun x => match x with CSync _ => false | _ => true end) c.

(** the loop after [Some(StreamChunk::Sync(value))]: swallow following Sync chunks; an
    OutOfOrder chunk met next is moved to pending_ooo; an Async chunk is put back *)
Fixpoint coalesce (buf : html) (c : list chunk) (po : list (fid * KO))
  : html * list chunk * list (fid * KO) :=
  match c with
  | [] => (buf, [], po)
  | CSync s :: c => coalesce (buf ++ s) c po
  | CAsync f k :: c => (buf, CAsync f k :: c, po)
  | COoo f k :: c => (buf, c, po ++ [(f, k)])
  end.

(** result, new state, and the future (if any) that was polled and returned Pending —
    i.e. the future that now holds the task's waker *)
Fixpoint poll_next (fuel : nat) (done : fid -> bool) (b : sb) : pres * sb * option fid :=
  match fuel with
  | O => (PFuel, b, None)
  | S fuel =>
    match pending b with
    | Some (f, k) =>
        if done f then
          poll_next fuel done (set_chunks (set_pending b None) (res k done ++ chunks b))
        else (PPending, b, Some f)
    | None =>
      match chunks b with
      | [] =>
        match pending_ooo b with
        | (g, k) :: rest =>
          if done g then
            let oc := reso k done in
            let b := set_pooo b rest in
            match find_idx (is_open (oid oc)) (sync_buf b) with
            | Some start =>
              match find_idx (is_close (oid oc)) (sync_buf b) with
              | None => (PPanic, b, None)                       (* .unwrap() *)
              | Some e =>
                if Nat.ltb e start then (PPanic, b, None)        (* end - start underflows *)
                else
                  let before := firstn start (sync_buf b) in
                  let after := skipn (S e) (sync_buf b) in
                  let kept := if oreplace oc then []
                              else firstn (e - S start) (skipn (S start) (sync_buf b)) in
                  let buf := before ++ kept
                             ++ concat (rev (sync_payloads (ochunks oc))) ++ after in
                  let b := set_sync b buf in
                  let b := set_chunks b (rev (non_sync (ochunks oc)) ++ chunks b) in
                  poll_next fuel done b
              end
            | None =>
              let buf := sync_buf b ++ [TTplS (oid oc)]
                         ++ concat (rev (sync_payloads (ochunks oc)))
                         ++ [TTplE (oid oc) (oreplace oc)] in
              let b := set_sync b buf in
              let b := set_chunks b (non_sync (ochunks oc) ++ chunks b) in
              poll_next fuel done b
            end
          else
            let b := set_pooo b (rest ++ [(g, k)]) in
            if is_nil (sync_buf b) then (PPending, b, Some g)
            else (PSome (sync_buf b), set_sync b [], Some g)
        | [] =>
          if is_nil (sync_buf b) then (PNone, b, None)
          else (PSome (sync_buf b), set_sync b [], None)
        end
      | CSync v :: rest =>
        let '(buf, rest', po) := coalesce (sync_buf b ++ v) rest (pending_ooo b) in
        poll_next fuel done (set_pooo (set_chunks (set_sync b buf) rest') po)
      | CAsync f k :: rest =>
        let b := set_chunks (set_pending b (Some (f, k))) rest in
        if is_nil (sync_buf b) then poll_next fuel done b
        else (PSome (sync_buf b), set_sync b [], None)
      | COoo g k :: rest =>
        let b := set_chunks (set_pooo b (pending_ooo b ++ [(g, k)])) rest in
        if is_nil (sync_buf b) then poll_next fuel done b
        else (PSome (sync_buf b), set_sync b [], None)
      end
    end
  end.

(* ---- driving a stream: schedules, wakers ---- *)
Inductive event := EComplete (f : fid) | EPoll.

Inductive obs :=
| OPending | OSome (s : html) | ONone | OWake (n : N) | OStall | OBound | OFuel | OPanic.

(** concatenation of the chunks a run emitted *)
Definition somes (l : list obs) : html :=
  flat_map (fun o => match o with OSome s => s | _ => [] end) l.

Definition memf (f : fid) (l : list fid) : bool := existsb (N.eqb f) l.
Definition removef (f : fid) (l : list fid) : list fid := filter (fun g => negb (N.eqb f g)) l.

Record run_state := {
  rs_sb : sb;
  rs_done : list fid;      (* completed futures *)
  rs_reg : list fid;       (* futures holding the task's waker *)
  rs_ended : bool;         (* the stream has returned None *)
}.

Definition obs_of (r : pres) : obs :=
  match r with
  | PPending => OPending | PSome s => OSome s | PNone => ONone | PFuel => OFuel | PPanic => OPanic
  end.

Definition step_poll (fuel : nat) (s : run_state) : run_state * pres :=
  let '(r, b, w) := poll_next fuel (fun f => memf f (rs_done s)) (rs_sb s) in
  let reg := match w with Some f => if memf f (rs_reg s) then rs_reg s else f :: rs_reg s
                        | None => rs_reg s end in
  ({| rs_sb := b; rs_done := rs_done s; rs_reg := reg;
      rs_ended := match r with PNone => true | _ => rs_ended s end |}, r).

(** completing a future wakes the task iff the future holds its waker *)
Definition step_complete (f : fid) (s : run_state) : run_state * N :=
  if memf f (rs_done s) then (s, 0)
  else
    let w := if memf f (rs_reg s) then 1 else 0 in
    ({| rs_sb := rs_sb s; rs_done := f :: rs_done s; rs_reg := removef f (rs_reg s);
        rs_ended := rs_ended s |}, w).

(** drive 0: the schedule literally *)
Fixpoint run_events (fuel : nat) (ev : list event) (s : run_state) : run_state * list obs :=
  match ev with
  | [] => (s, [])
  | EPoll :: ev =>
      let '(s, r) := step_poll fuel s in
      let '(s', l) := run_events fuel ev s in (s', obs_of r :: l)
  | EComplete f :: ev =>
      let '(s, w) := step_complete f s in
      let '(s', l) := run_events fuel ev s in (s', OWake w :: l)
  end.

Fixpoint complete_all (fs : list fid) (s : run_state) : run_state * list obs :=
  match fs with
  | [] => (s, [])
  | f :: fs =>
      if memf f (rs_done s) then complete_all fs s
      else let '(s, w) := step_complete f s in
           let '(s', l) := complete_all fs s in (s', OWake w :: l)
  end.

(** poll until the stream returns None, at most [n] times *)
Fixpoint drain (fuel : nat) (n : nat) (s : run_state) : run_state * list obs :=
  if rs_ended s then (s, [])
  else match n with
       | O => (s, [OBound])
       | S n => let '(s, r) := step_poll fuel s in
                let '(s', l) := drain fuel n s in (s', obs_of r :: l)
       end.

(** what `while let Some(x) = stream.next().await` does once woken: poll until the stream
    returns Pending or None *)
Fixpoint run_task (fuel : nat) (n : nat) (s : run_state) : run_state * list obs :=
  match n with
  | O => (s, [OBound])
  | S n =>
      let '(s, r) := step_poll fuel s in
      match r with
      | PSome _ => let '(s', l) := run_task fuel n s in (s', obs_of r :: l)
      | _ => (s, [obs_of r])
      end
  end.

(** drive 1: an executor — poll only after a wake-up *)
Fixpoint run_exec (fuel : nat) (n : nat) (order : list fid) (s : run_state) : run_state * list obs :=
  match order with
  | [] => (s, if rs_ended s then [] else [OStall])
  | f :: order =>
      if memf f (rs_done s) then run_exec fuel n order s
      else
        let '(s, w) := step_complete f s in
        if (0 <? w) && negb (rs_ended s) then
          let '(s, l1) := run_task fuel n s in
          let '(s', l2) := run_exec fuel n order s in (s', OWake w :: l1 ++ l2)
        else
          let '(s', l2) := run_exec fuel n order s in (s', OWake w :: l2)
  end.

End Machine.

Arguments CSync {K KO}.
Arguments CAsync {K KO}.
Arguments COoo {K KO}.
Arguments sb_new {K KO}.

(* ================================================================== Part 2: views *)
Inductive position := FirstChild | NextChild | NextChildAfterText.
(** Position::{Current, OnlyChild, LastChild} are never produced by the renderers below *)

Inductive view :=
| VText (s : bytes)
| VElem (tag : N) (child : view)
| VTuple (vs : list view)                  (* [] is the unit view () *)
| VSuspend (f : fid) (v : view)
| VBoundary (f : fid) (fb : view) (content : view) (some : bool)
| VAppend (v : view)
| VRawSync (s : bytes)
| VRawAsync (f : fid) (v : view).

(** closure of an in-order chunk future: OUT_OF_ORDER flag, the id for
    StreamBuilder::new(id), the copied position, the view to render *)
Record clo := { c_ooo : bool; c_id : option (list N); c_pos : position; c_view : view }.
(** closure of an out-of-order chunk future; [None]: the future yields None (replace = false) *)
Record oclo := { o_id : option (list N); o_pos : position; o_view : option view }.

Definition vchunk := chunk clo oclo.
Definition vsb := sb clo oclo.

(** html_escape::encode_text *)
Definition ent_amp : bytes := Eval vm_compute in bytes_of_string "&amp;".
Definition ent_lt : bytes := Eval vm_compute in bytes_of_string "&lt;".
Definition ent_gt : bytes := Eval vm_compute in bytes_of_string "&gt;".
Definition escape_byte (b : N) : bytes :=
  if b =? 38 then ent_amp
  else if b =? 60 then ent_lt
  else if b =? 62 then ent_gt
  else [b].
Definition escape (s : bytes) : bytes := flat_map escape_byte s.

Definition tag_div : bytes := Eval vm_compute in bytes_of_string "div".
Definition tag_p : bytes := Eval vm_compute in bytes_of_string "p".
Definition tag_span : bytes := Eval vm_compute in bytes_of_string "span".
Definition tag_b : bytes := Eval vm_compute in bytes_of_string "b".
Definition tag_name (t : N) : bytes :=
  match t with
  | 0 => tag_div
  | 1 => tag_p
  | 2 => tag_span
  | _ => tag_b
  end.
Definition open_tag (t : N) : html := tb ([60] ++ tag_name t ++ [62]).
Definition close_tag (t : N) : html := tb ([60; 47] ++ tag_name t ++ [62]).
Definition marker : html := tb [60; 33; 62].   (* <!> *)

Definition after_text (p : position) : bool :=
  match p with NextChildAfterText => true | _ => false end.

(** <&str as RenderHtml>::to_html_with_buf (escape = true) *)
Definition text_html (s : bytes) (pos : position) : html :=
  (if after_text pos then marker else [])
  ++ tb (if is_nil s then [32] else escape s).

(** RenderHtml::to_html_with_buf *)
Fixpoint to_html (done : fid -> bool) (v : view) (pos : position) : html * position :=
  match v with
  | VText s => (text_html s pos, NextChildAfterText)
  | VElem t c =>
      let '(h, _) := to_html done c FirstChild in
      (open_tag t ++ h ++ close_tag t, NextChild)
  | VTuple [] => (marker, NextChild)
  | VTuple vs =>
      (fix go (vs : list view) (pos : position) : html * position :=
         match vs with
         | [] => ([], pos)
         | v :: vs => let '(h, pos) := to_html done v pos in
                      let '(h', pos) := go vs pos in (h ++ h', pos)
         end) vs pos
  | VSuspend f c => if done f then to_html done c pos else ([], pos)
  | VBoundary f fb c some => to_html done fb pos        (* SuspenseBoundary: the fallback *)
  | VAppend c => to_html done c pos                    (* ErrorBoundary, no errors: its children
                                                           and the position they leave *)
  | VRawSync s => (tb s, pos)
  | VRawAsync f c => if done f then (fst (to_html done c pos), pos) else ([], pos)
  end.

(** the document of the fully awaited view *)
Fixpoint resolved (v : view) (pos : position) : html * position :=
  match v with
  | VText s => (text_html s pos, NextChildAfterText)
  | VElem t c =>
      let '(h, _) := resolved c FirstChild in
      (open_tag t ++ h ++ close_tag t, NextChild)
  | VTuple [] => (marker, NextChild)
  | VTuple vs =>
      (fix go (vs : list view) (pos : position) : html * position :=
         match vs with
         | [] => ([], pos)
         | v :: vs => let '(h, pos) := resolved v pos in
                      let '(h', pos) := go vs pos in (h ++ h', pos)
         end) vs pos
  | VSuspend f c => resolved c pos
  | VBoundary f fb c some => if some then resolved c pos else resolved fb pos
  | VAppend c => resolved c pos
  | VRawSync s => (tb s, pos)
  | VRawAsync f c => (fst (resolved c pos), pos)
  end.

(** RenderHtml::to_html_async_with_buf::<OUT_OF_ORDER> *)
Fixpoint render (ooo : bool) (done : fid -> bool) (v : view) (b : vsb) (pos : position)
  : vsb * position :=
  match v with
  | VText s => (push_sync _ _ (text_html s pos) b, NextChildAfterText)
  | VElem t c =>
      let b := push_sync _ _ (open_tag t) b in
      let '(b, _) := render ooo done c b FirstChild in
      (push_sync _ _ (close_tag t) b, NextChild)
  | VTuple [] => (push_sync _ _ marker b, NextChild)
  | VTuple vs =>
      (fix go (vs : list view) (b : vsb) (pos : position) : vsb * position :=
         match vs with
         | [] => (b, pos)
         | v :: vs => let '(b, pos) := render ooo done v b pos in go vs b pos
         end) vs b pos
  | VSuspend f c =>
      if done f then render ooo done c b pos
      else
        let b := next_id _ _ b in
        let id := clone_id _ _ b in
        if ooo then
          (* push_fallback::<()>: marker, "<!>", marker (on a copy of the position) *)
          let b := write_chunk_marker _ _ true b in
          let b := push_sync _ _ marker b in
          let b := write_chunk_marker _ _ false b in
          (push_ooo _ _ f {| o_id := id; o_pos := pos; o_view := Some c |} b, pos)
        else
          (push_async _ _ f {| c_ooo := false; c_id := id; c_pos := pos; c_view := c |} b,
           NextChild)
  | VBoundary f fb c some =>
      let b := next_id _ _ b in
      if done f then render ooo done (if some then c else fb) b pos
      else
        let id := clone_id _ _ b in
        if ooo then
          let b := write_chunk_marker _ _ true b in
          let b := push_sync _ _ (fst (to_html done fb pos)) b in
          let b := write_chunk_marker _ _ false b in
          (push_ooo _ _ f {| o_id := id; o_pos := pos;
                             o_view := if some then Some c else None |} b, pos)
        else
          (push_async _ _ f {| c_ooo := false; c_id := id; c_pos := pos;
                               c_view := if some then c else fb |} b, NextChild)
  | VAppend c =>
      let '(nb, pos') := render ooo done c (sb_new (clone_id _ _ b)) pos in
      (append _ _ b nb, pos')
  | VRawSync s => (push_sync _ _ (tb s) b, pos)
  | VRawAsync f c =>
      (push_async _ _ f {| c_ooo := ooo; c_id := clone_id _ _ b; c_pos := pos; c_view := c |} b,
       pos)
  end.

(** the async block given to push_async *)
Definition res_clo (k : clo) (done : fid -> bool) : list vchunk :=
  let '(b, _) := render (c_ooo k) done (c_view k) (sb_new (c_id k)) (c_pos k) in
  fst (take_chunks _ _ (finish _ _ b)).

(** the async block of push_async_out_of_order_with_nonce *)
Definition res_oclo (k : oclo) (done : fid -> bool) : ooo_chunk clo oclo :=
  let ids := match o_id k with Some i => i | None => [] end in
  let sub := sb_new (option_map (fun i => i ++ [0]) (o_id k)) in
  let b := match o_view k with
           | Some v => fst (render true done v sub (o_pos k))
           | None => sub
           end in
  {| oid := ids; ochunks := fst (take_chunks _ _ (finish _ _ b));
     oreplace := match o_view k with Some _ => true | None => false end |}.

Definition vpoll := poll_next clo oclo res_clo res_oclo.

(** to_html_stream_in_order / to_html_stream_out_of_order *)
Definition stream_of (ooo : bool) (done : fid -> bool) (v : view) : vsb :=
  let b0 := sb_new (if ooo then Some [0] else None) in
  finish _ _ (fst (render ooo done v b0 FirstChild)).

(** futures of a view, in the order the harness creates them *)
Fixpoint futures_of (v : view) : list fid :=
  match v with
  | VText _ | VRawSync _ => []
  | VElem _ c | VAppend c => futures_of c
  | VTuple vs => flat_map futures_of vs
  | VSuspend f c | VRawAsync f c => f :: futures_of c
  | VBoundary f fb c _ => f :: futures_of fb ++ futures_of c
  end.

Fixpoint vsize (v : view) : nat :=
  match v with
  | VText _ | VRawSync _ => 1
  | VElem _ c | VAppend c => S (vsize c)
  | VTuple vs => S (fold_right (fun v n => (vsize v + n)%nat) O vs)
  | VSuspend _ c | VRawAsync _ c => S (vsize c)
  | VBoundary _ fb c _ => S (vsize fb + vsize c)
  end.

(** enough for every poll of a stream rendered from [v] (StreamProofs.poll_fuel_enough) *)
Definition poll_fuel (v : view) : nat := (4 * vsize v + 4)%nat.

(* ---- replacement scripts, by their effect on the document ---- *)
(** index of the last element satisfying [p] (the script keeps the last match of its walk) *)
Definition find_last {A} (p : A -> bool) (l : list A) : option nat :=
  match find_idx p (rev l) with
  | Some k => Some (length l - S k)%nat
  | None => None
  end.

(** the script pushed by OooChunk::push_end: range = [open, close) *)
Definition apply_ooo (doc : html) (i : list N) (tpl : html) (replace : bool) : option html :=
  match find_last (is_open i) doc, find_last (is_close i) doc with
  | Some o, Some c =>
      if Nat.leb o c then
        if replace then Some (firstn o doc ++ tpl ++ skipn (S c) doc)
        else Some (firstn o doc ++ firstn (c - S o) (skipn (S o) doc) ++ skipn (S c) doc)
      else None
  | _, _ => None          (* open/close undefined: the script throws *)
  end.

(** browser view of the concatenated stream: text is appended to the document, a
    <template> is inert, its script rewrites the document parsed so far.
    [None] = some script failed. *)
Fixpoint apply_scripts (h : html) (doc : html) (tpl : option html) : option html :=
  match h with
  | [] => match tpl with None => Some doc | Some _ => None end
  | TTplS _ :: h => match tpl with None => apply_scripts h doc (Some []) | Some _ => None end
  | TTplE i r :: h =>
      match tpl with
      | Some t => match apply_ooo doc i t r with
                  | Some doc' => apply_scripts h doc' None
                  | None => None
                  end
      | None => None
      end
  | t :: h =>
      match tpl with
      | None => apply_scripts h (doc ++ [t]) None
      | Some c => apply_scripts h doc (Some (c ++ [t]))
      end
  end.
