(** C12 — proofs about the model in Script.v. *)
From Coq Require Import List ZArith NArith Bool Lia.
From LV Require Import Base.Sexp Base.Bytes ServerFn.ErrorCodec ServerFn.Base64Proofs Html.Script.
Import ListNotations.
Open Scope N_scope.

Ltac bdestr :=
  repeat match goal with
  | |- context [N.leb ?a ?b] => destruct (N.leb_spec a b)
  | |- context [N.ltb ?a ?b] => destruct (N.ltb_spec a b)
  | |- context [N.eqb ?a ?b] => destruct (N.eqb_spec a b)
  | H : context [N.leb ?a ?b] |- _ => destruct (N.leb_spec a b)
  | H : context [N.ltb ?a ?b] |- _ => destruct (N.ltb_spec a b)
  | H : context [N.eqb ?a ?b] |- _ => destruct (N.eqb_spec a b)
  end.

(** a Unicode scalar value: what a Rust [char] can hold *)
Definition scalar (c : N) : Prop := c <= 1114111 /\ ~ (55296 <= c <= 57343).

(** * hexadecimal: [\u{..}] is read back as the code point *)
Lemma hex_fuel_acc f : forall n acc, hex_fuel f n acc = hex_fuel f n [] ++ acc.
Proof.
  induction f as [|f IH]; intros n acc; cbn [hex_fuel]; [reflexivity|].
  destruct (n <? 16); [reflexivity|].
  rewrite IH. rewrite (IH _ [_]). rewrite <- app_assoc. reflexivity.
Qed.

Lemma hex_val_lower_digit d : d < 16 -> hex_val (hex_lower_digit d) = Some d /\ hex_lower_digit d <> 125.
Proof.
  intros Hd. unfold hex_val, hex_lower_digit, is_digit, in_range.
  destruct (N.ltb_spec d 10).
  - replace ((48 <=? 48 + d) && (48 + d <=? 57)) with true
      by (symmetry; apply andb_true_iff; split; apply N.leb_le; lia).
    split; [f_equal; lia | lia].
  - replace ((48 <=? 87 + d) && (87 + d <=? 57)) with false
      by (symmetry; apply andb_false_iff; right; apply N.leb_gt; lia).
    replace ((65 <=? 87 + d) && (87 + d <=? 70)) with false
      by (symmetry; apply andb_false_iff; right; apply N.leb_gt; lia).
    replace ((97 <=? 87 + d) && (87 + d <=? 102)) with true
      by (symmetry; apply andb_true_iff; split; apply N.leb_le; lia).
    split; [f_equal; lia | lia].
Qed.

Lemma log2_div16 n : 16 <= n -> N.log2 (n / 16) < N.log2 n.
Proof.
  intros H. change 16 with (2 ^ 4). rewrite <- N.shiftr_div_pow2, N.log2_shiftr.
  assert (4 <= N.log2 n) by (apply N.log2_le_pow2; lia). lia.
Qed.

Lemma hex_braced_digits f : forall n seen tail,
  (N.to_nat (N.log2 n) < f)%nat -> n <= 1114111 ->
  hex_braced 0 seen (hex_fuel f n [] ++ tail) = hex_braced n true tail.
Proof.
  induction f as [|f IH]; intros n seen tail Hf Hn; [lia|].
  cbn [hex_fuel]. destruct (N.ltb_spec n 16) as [Hlt|Hge].
  - rewrite N.mod_small by lia. cbn [app hex_braced].
    destruct (hex_val_lower_digit n Hlt) as [Hv Hne].
    destruct (N.eqb_spec (hex_lower_digit n) 125); [contradiction|].
    rewrite Hv. cbn. reflexivity.
  - rewrite hex_fuel_acc, <- app_assoc. cbn [app].
    assert (Hlog := log2_div16 n Hge).
    rewrite IH by (try lia; apply N.div_le_upper_bound; lia).
    cbn [hex_braced].
    assert (Hm : n mod 16 < 16) by (apply N.mod_lt; lia).
    destruct (hex_val_lower_digit _ Hm) as [Hv Hne].
    destruct (N.eqb_spec (hex_lower_digit (n mod 16)) 125); [contradiction|].
    rewrite Hv.
    assert (Hq : n / 16 <= 1114111) by (apply N.div_le_upper_bound; lia).
    destruct (N.leb_spec (n / 16) 1114111); [|lia].
    f_equal. rewrite (N.div_mod n 16) at 3 by lia. lia.
Qed.

Lemma hex_braced_lower n tail : n <= 1114111 ->
  hex_braced 0 false (hex_lower n ++ 125 :: tail) = Some (n, tail).
Proof.
  intros Hn. unfold hex_lower. rewrite hex_braced_digits by lia.
  cbn [hex_braced]. rewrite N.eqb_refl. cbn [andb].
  destruct (N.leb_spec n 1114111); [reflexivity|lia].
Qed.

(** * UTF-16: what the browser hands back to wasm is the scalar values that were written *)
Lemma utf16_dec_cons u t :
  utf16_dec (u :: t) =
  if in_range 55296 56319 u then
    match t with
    | v :: t' =>
        if in_range 56320 57343 v
        then (65536 + (u - 55296) * 1024 + (v - 56320)) :: utf16_dec t'
        else 65533 :: utf16_dec t
    | [] => [65533]
    end
  else if in_range 56320 57343 u then 65533 :: utf16_dec t
  else u :: utf16_dec t.
Proof. reflexivity. Qed.

Lemma in_range_true lo hi b : lo <= b -> b <= hi -> in_range lo hi b = true.
Proof. intros. unfold in_range. apply andb_true_iff; split; apply N.leb_le; assumption. Qed.
Lemma in_range_false lo hi b : b < lo \/ hi < b -> in_range lo hi b = false.
Proof.
  intros H. unfold in_range. apply andb_false_iff.
  destruct H; [left|right]; apply N.leb_gt; assumption.
Qed.

Lemma utf16_dec_scalar c l : scalar c -> utf16_dec (utf16 c ++ l) = c :: utf16_dec l.
Proof.
  intros [Hmax Hsur]. unfold utf16. destruct (N.ltb_spec c 65536) as [Hs|Hb].
  - cbn [app]. rewrite utf16_dec_cons.
    rewrite (in_range_false 55296 56319) by lia.
    rewrite (in_range_false 56320 57343) by lia. reflexivity.
  - cbn [app]. rewrite utf16_dec_cons.
    assert (Hq : (c - 65536) / 1024 < 1024) by (apply N.div_lt_upper_bound; lia).
    assert (Hr : (c - 65536) mod 1024 < 1024) by (apply N.mod_lt; lia).
    assert (Hdm := N.div_mod (c - 65536) 1024 ltac:(lia)).
    set (q := (c - 65536) / 1024) in *. set (r := (c - 65536) mod 1024) in *.
    clearbody q r.
    rewrite (in_range_true 55296 56319) by lia.
    rewrite (in_range_true 56320 57343) by lia.
    f_equal. lia.
Qed.

Lemma utf16_dec_scalars s : Forall scalar s -> utf16_dec (flat_map utf16 s) = s.
Proof.
  induction 1 as [|c s Hc _ IH]; [reflexivity|].
  cbn [flat_map]. rewrite utf16_dec_scalar by assumption. now rewrite IH.
Qed.

(** * one character of the emitted literal is read back as that character *)
Section WithEsc.
Variable esc : N -> bool.

Lemma js_step_debug_char c tail :
  scalar c -> c <> 0 ->
  js_step (debug_char esc c ++ tail) = JUnits (utf16 c) tail.
Proof.
  intros [Hmax Hsur] H0. unfold debug_char.
  destruct (N.eqb_spec c 0); [contradiction|].
  destruct (N.eqb_spec c 9); [subst; reflexivity|].
  destruct (N.eqb_spec c 13); [subst; reflexivity|].
  destruct (N.eqb_spec c 10); [subst; reflexivity|].
  destruct (N.eqb_spec c 92); [subst; reflexivity|].
  destruct (N.eqb_spec c 34); [subst; reflexivity|].
  destruct (esc c).
  - unfold unicode_escape. cbn [app js_step N.eqb Pos.eqb orb js_escape].
    change (117 =? 10) with false. cbn [orb].
    rewrite <- app_assoc. cbn [app]. rewrite hex_braced_lower by assumption. reflexivity.
  - cbn [app js_step].
    destruct (N.eqb_spec c 34); [contradiction|].
    destruct (N.eqb_spec c 10); [contradiction|].
    destruct (N.eqb_spec c 13); [contradiction|].
    destruct (N.eqb_spec c 92); [contradiction|]. reflexivity.
Qed.

Lemma js_step_js_char c tail :
  scalar c -> js_step (js_char esc c ++ tail) = JUnits (utf16 c) tail.
Proof.
  intros Hc. unfold js_char.
  destruct (N.eqb_spec c 60); [subst; reflexivity|].
  destruct (N.eqb_spec c 0); [subst; reflexivity|].
  destruct (N.eqb_spec c 39); [subst; reflexivity|].
  now apply js_step_debug_char.
Qed.

Lemma js_char_nonempty c : js_char esc c <> [].
Proof.
  unfold js_char, debug_char, unicode_escape, lt_escape, nul_escape.
  repeat match goal with |- context [if ?b then _ else _] => destruct b end; discriminate.
Qed.

Lemma js_lit_body s : forall fuel acc tail,
  Forall scalar s ->
  Nat.le (length (flat_map (js_char esc) s ++ 34 :: tail)) fuel ->
  js_lit_fuel fuel acc (flat_map (js_char esc) s ++ 34 :: tail) = Some (acc ++ flat_map utf16 s, tail).
Proof.
  induction s as [|c s IH]; intros fuel acc tail Hs Hlen.
  - cbn [flat_map app] in *. destruct fuel; [cbn in Hlen; lia|].
    cbn [js_lit_fuel js_step]. rewrite N.eqb_refl. now rewrite app_nil_r.
  - inversion Hs as [|? ? Hc Hs']; subst.
    cbn [flat_map] in *. rewrite <- app_assoc in *.
    destruct fuel.
    { destruct (js_char esc c) eqn:E; [now apply js_char_nonempty in E| cbn in Hlen; lia]. }
    cbn [js_lit_fuel]. rewrite js_step_js_char by assumption.
    rewrite IH; [now rewrite <- app_assoc | assumption |].
    destruct (js_char esc c) eqn:E; [now apply js_char_nonempty in E|].
    cbn [app length] in Hlen. rewrite app_length in Hlen. lia.
Qed.

(** the literal written for [s], followed by any other text, reads back as exactly [s] and
    leaves exactly that text *)
Lemma payload_roundtrip s rest :
  Forall scalar s -> js_read (js_string esc s ++ rest) = Some (s, rest).
Proof.
  intros Hs. unfold js_string, js_read. cbn [app]. rewrite <- app_assoc. cbn [app].
  rewrite js_lit_body; [| assumption | lia].
  cbn [app]. now rewrite utf16_dec_scalars.
Qed.

End WithEsc.

(** * nothing the server emits contains '<' *)
Definition nolt (l : str) : Prop := Forall (fun c => c <> 60) l.
Definition nolt_b (l : str) : bool := forallb (fun c => negb (c =? 60)) l.
Lemma nolt_b_ok l : nolt_b l = true -> nolt l.
Proof.
  unfold nolt_b, nolt. rewrite forallb_forall, Forall_forall. intros H c Hc.
  specialize (H c Hc). now destruct (N.eqb_spec c 60).
Qed.
Lemma nolt_app a b : nolt a -> nolt b -> nolt (a ++ b).
Proof. unfold nolt. intros. apply Forall_app; now split. Qed.
Lemma nolt_flat_map {A} (f : A -> str) l : (forall x, nolt (f x)) -> nolt (flat_map f l).
Proof. intros H. induction l; cbn [flat_map]; [constructor | now apply nolt_app]. Qed.

Lemma nolt_dec_fuel f : forall n acc, nolt acc -> nolt (dec_fuel f n acc).
Proof.
  induction f as [|f IH]; intros n acc Ha; cbn [dec_fuel]; [assumption|].
  assert (Hm : n mod 10 < 10) by (apply N.mod_lt; lia).
  assert (Hd : nolt ((48 + n mod 10) :: acc)) by (constructor; [lia | assumption]).
  destruct (n <? 10); [assumption | now apply IH].
Qed.
Lemma nolt_dec n : nolt (dec n).
Proof. apply nolt_dec_fuel. constructor. Qed.

Lemma nolt_hex_fuel f : forall n acc, nolt acc -> nolt (hex_fuel f n acc).
Proof.
  induction f as [|f IH]; intros n acc Ha; cbn [hex_fuel]; [assumption|].
  assert (Hm : n mod 16 < 16) by (apply N.mod_lt; lia).
  assert (Hd : nolt (hex_lower_digit (n mod 16) :: acc)).
  { constructor; [|assumption]. unfold hex_lower_digit. destruct (N.ltb_spec (n mod 16) 10); lia. }
  destruct (n <? 16); [assumption | now apply IH].
Qed.

Section Inert.
Variable esc : N -> bool.

Lemma nolt_js_char c : nolt (js_char esc c).
Proof.
  unfold js_char. destruct (N.eqb_spec c 60); [now apply nolt_b_ok|].
  destruct (c =? 0); [now apply nolt_b_ok|].
  destruct (c =? 39); [now apply nolt_b_ok|].
  unfold debug_char.
  repeat match goal with |- context [if N.eqb c ?k then _ else _] =>
    destruct (N.eqb c k); [now apply nolt_b_ok|] end.
  destruct (esc c).
  - unfold unicode_escape. apply nolt_app; [now apply nolt_b_ok|].
    apply nolt_app; [|now apply nolt_b_ok]. apply nolt_hex_fuel. constructor.
  - constructor; [assumption | constructor].
Qed.

Lemma nolt_js_string s : nolt (js_string esc s).
Proof.
  unfold js_string. apply nolt_app; [now apply nolt_b_ok|].
  apply nolt_app; [|now apply nolt_b_ok]. apply nolt_flat_map, nolt_js_char.
Qed.

Ltac nolt_tac :=
  repeat first
    [ apply nolt_js_string | apply nolt_dec | apply nolt_app
    | apply nolt_flat_map; intros ? | now apply nolt_b_ok ].

Lemma nolt_error_entry e : nolt (error_entry esc e).
Proof. destruct e as [[b i] m]. unfold error_entry. nolt_tac. Qed.
Lemma nolt_initial_chunk er ab : nolt (initial_chunk esc er ab).
Proof. unfold initial_chunk. nolt_tac; apply nolt_error_entry. Qed.
Lemma nolt_resolved_stmt f : nolt (resolved_stmt esc f).
Proof. unfold resolved_stmt. nolt_tac. Qed.
Lemma nolt_error_stmt e : nolt (error_stmt esc e).
Proof. unfold error_stmt. nolt_tac; apply nolt_error_entry. Qed.
Lemma nolt_incomplete_chunk inc : nolt (incomplete_chunk inc).
Proof. unfold incomplete_chunk. nolt_tac. Qed.

(** no '<' means: no end tag, no comment opener, nothing that leaves the script-data state *)
Lemma lower_60 b : lower b = 60 -> b = 60.
Proof. unfold lower, in_range. destruct (N.leb_spec 65 b); destruct (N.leb_spec b 90); cbn [andb]; lia. Qed.

Lemma nolt_contains_ci p l : nolt l -> contains_ci (60 :: p) l = false.
Proof.
  induction 1 as [|b l Hb _ IH]; [reflexivity|].
  cbn [contains_ci prefix_ci]. rewrite IH.
  destruct (N.eqb_spec 60 (lower b)) as [E|E]; [|reflexivity].
  symmetry in E. apply lower_60 in E. contradiction.
Qed.

Lemma nolt_inert l : nolt l -> inert l = true.
Proof.
  intros H. unfold inert, has_script_end, has_comment_open, k_script_end, k_comment_open.
  now rewrite !nolt_contains_ci.
Qed.

(** ** the invariant carried through a whole session *)
Definition chunk_ok (e : sexp) : Prop := forall c, e = entry_chunk c -> nolt c.
Definition Inv (s : st) : Prop :=
  Forall chunk_ok (log s) /\ (forall c, ph s = Initial c -> nolt c).

Lemma sN_inj a b : sN a = sN b -> a = b.
Proof. unfold sN. intros H. injection H as H. now apply N2Z.inj. Qed.
Lemma map_sN_inj a : forall b, map sN a = map sN b -> a = b.
Proof.
  induction a as [|x a IH]; intros [|y b] H; try discriminate; [reflexivity|].
  cbn [map] in H. injection H as H1 H2. f_equal; [first [now apply sN_inj | now apply N2Z.inj] | now apply IH].
Qed.

Lemma chunk_ok_chunk c : nolt c -> chunk_ok (entry_chunk c).
Proof.
  intros H c' E. unfold entry_chunk in E. injection E as E. apply map_sN_inj in E. now subst.
Qed.
Lemma chunk_ok_other z rest : z <> 8%Z -> chunk_ok (Lst (Num z :: rest)).
Proof. intros Hz c E. unfold entry_chunk in E. injection E as E1 _. contradiction. Qed.
Lemma chunk_ok_short z1 z2 : chunk_ok (Lst [Num z1; Num z2]).
Proof. intros c E. unfold entry_chunk in E. discriminate E. Qed.

Lemma Inv_push s e : Inv s -> chunk_ok e -> Inv (push_log s e).
Proof. intros [H1 H2] He. split; [constructor; assumption | exact H2]. Qed.

(** setters that leave [log] and [ph] alone *)
Lemma Inv_same s s' : log s' = log s -> ph s' = ph s -> Inv s -> Inv s'.
Proof. intros El Ep [H1 H2]. split; [now rewrite El | now rewrite Ep]. Qed.

Lemma Inv_set_ph s p : Inv s -> (forall c, p = Initial c -> nolt c) -> Inv (set_ph s p).
Proof. intros [H1 _] Hp. split; [exact H1 | exact Hp]. Qed.

Lemma Inv_next_id s : Inv s -> Inv (snd (next_id s)).
Proof. intros H. unfold next_id. destruct (hyd s); now apply (Inv_same s). Qed.
Lemma Inv_client_step s : Inv s -> Inv (client_step s).
Proof. intros H. unfold client_step. destruct (negb (islands s) || hyd s); [now apply (Inv_same s) | assumption]. Qed.
Lemma Inv_complete s k : Inv s -> Inv (complete s k).
Proof.
  intros H. unfold complete. destruct (Nat.ltb k (ngates s)); [|assumption].
  destruct (mem_nat k (done s)); [assumption | now apply (Inv_same s)].
Qed.
Lemma Inv_start_stream s : Inv s -> Inv (start_stream esc s).
Proof.
  intros H. unfold start_stream. destruct (ph s) eqn:E; try assumption.
  apply (Inv_same (set_ph s (Initial (initial_chunk esc (errs s) (abuf s))))); try reflexivity.
  apply Inv_set_ph; [assumption|]. intros c Ec. injection Ec as <-. apply nolt_initial_chunk.
Qed.

Lemma Inv_poll s : Inv s -> Inv (poll esc s).
Proof.
  intros H. unfold poll. destruct (ph s) eqn:E.
  - apply Inv_push; [assumption | apply chunk_ok_short].
  - apply Inv_push.
    + apply Inv_set_ph; [assumption | discriminate].
    + apply chunk_ok_chunk. destruct H as [_ H]. now apply H.
  - unfold async_poll.
    set (s' := set_errs (set_abuf s _) []).
    set (text := _ ++ _).
    assert (Ht : nolt text).
    { subst text. apply nolt_app; apply nolt_flat_map; intros ?;
        [apply nolt_resolved_stmt | apply nolt_error_stmt]. }
    assert (Hs' : Inv s') by (now apply (Inv_same s)).
    destruct (abuf s'); destruct text.
    + apply Inv_push.
      * apply (Inv_same (set_ph s' Final)); try reflexivity. apply Inv_set_ph; [assumption | discriminate].
      * apply chunk_ok_chunk, nolt_incomplete_chunk.
    + apply Inv_push; [assumption | now apply chunk_ok_chunk].
    + apply Inv_push; [assumption | apply chunk_ok_short].
    + apply Inv_push; [assumption | now apply chunk_ok_chunk].
  - apply Inv_push; [|apply chunk_ok_short]. apply Inv_set_ph; [assumption | discriminate].
  - apply Inv_push; [assumption | apply chunk_ok_short].
Qed.

Lemma Inv_consume fuel : forall order s, Inv s -> Inv (consume_loop fuel order s).
Proof.
  induction fuel as [|fuel IH]; intros order s H; cbn [consume_loop].
  - destruct (forallb (is_ready (done s)) (abuf s));
      (apply Inv_push; [try assumption; now apply (Inv_same s) | apply chunk_ok_other; discriminate]).
  - destruct (forallb (is_ready (done s)) (abuf s)).
    + apply Inv_push; [now apply (Inv_same s) | apply chunk_ok_other; discriminate].
    + destruct (next_gate order (ngates s) (done s)) as [[k|] rest].
      * apply IH, Inv_complete, Inv_push; [assumption | apply chunk_ok_other; discriminate].
      * apply Inv_push; [assumption | apply chunk_ok_other; discriminate].
Qed.

Lemma Inv_cmd s c : Inv s -> Inv (cmd esc s c).
Proof.
  intros H. unfold cmd.
  destruct (as_Z (nth_s 0 c)) as [|p|p]; [| |exact H].
  - (* next_id *)
    destruct (next_id s) as [i s1] eqn:E.
    apply Inv_client_step, Inv_push; [|apply chunk_ok_other; discriminate].
    apply (Inv_same s1); try reflexivity.
    change s1 with (snd (i, s1)). rewrite <- E. now apply Inv_next_id.
  - do 4 (try destruct p as [p|p|]); try exact H;
      try (now apply (Inv_same s));
      try (apply Inv_push; [assumption | apply chunk_ok_other; discriminate]).
    all: try (now apply Inv_complete); try (now apply Inv_start_stream); try (now apply Inv_poll);
      try (now apply Inv_consume).
    (* 12 *)
    assert (H0 : Inv (push_log s (Lst [Num 13%Z; Num 1%Z; Lst (map sN (encode (as_Z (nth_s 2 c)) (as_bytes (nth_s 3 c))))]))).
    { apply Inv_push; [assumption | apply chunk_ok_other; discriminate]. }
    destruct (next_id (client_step (push_log s (Lst [Num 13%Z; Num 1%Z; Lst (map sN (encode (as_Z (nth_s 2 c)) (as_bytes (nth_s 3 c))))])))) as [i s1] eqn:E.
    assert (H1 : Inv s1).
    { change s1 with (snd (i, s1)). rewrite <- E. now apply Inv_next_id, Inv_client_step. }
    destruct (as_Z (nth_s 1 c)) as [|q|q];
      try (destruct (hyd (set_ngates s1 (S (ngates s1)))); now apply (Inv_same s1)).
    do 2 (try destruct q as [q|q|]);
      try (destruct (hyd (set_ngates s1 (S (ngates s1)))); now apply (Inv_same s1)).
    destruct (hyd s1); [now apply (Inv_same s1) | assumption].
Qed.

Lemma Inv_drain fuel : forall s, Inv s -> Inv (drain esc fuel s).
Proof.
  induction fuel as [|fuel IH]; intros s H; cbn [drain].
  - destruct (ph s); try assumption; (apply Inv_push; [assumption | apply chunk_ok_other; discriminate]).
  - assert (Hp := Inv_poll s H).
    assert (Hstep : Inv
      (if last_is_pending (poll esc s)
       then match first_undone 0 (ngates (poll esc s)) (done (poll esc s)) with
            | Some k => drain esc fuel (complete (push_log (poll esc s) (Lst [Num 7%Z; snat k])) k)
            | None => push_log (poll esc s) (Lst [Num 98%Z])
            end
       else drain esc fuel (poll esc s))).
    { destruct (last_is_pending (poll esc s)); [|now apply IH].
      destruct (first_undone 0 _ _).
      - apply IH, Inv_complete, Inv_push; [assumption | apply chunk_ok_other; discriminate].
      - apply Inv_push; [assumption | apply chunk_ok_other; discriminate]. }
    destruct (ph s); assumption.
Qed.

Lemma Inv_fold script : forall s, Inv s -> Inv (fold_left (cmd esc) script s).
Proof. induction script as [|c script IH]; intros s H; cbn [fold_left]; [assumption | now apply IH, Inv_cmd]. Qed.

Lemma Inv_init isl : Inv (init isl).
Proof. split; [constructor | discriminate]. Qed.

Lemma Inv_session isl script : Inv (session esc isl script).
Proof.
  unfold session. apply Inv_push; [|apply chunk_ok_other; discriminate].
  apply Inv_drain, Inv_start_stream, Inv_fold, Inv_init.
Qed.

(** whatever the payloads, error messages, ids, modes, commands and completion order: no chunk
    the stream emits contains '<' ... *)
Lemma chunks_have_no_lt isl script c :
  In (entry_chunk c) (log (session esc isl script)) -> nolt c.
Proof.
  intros Hin. destruct (Inv_session isl script) as [H _].
  rewrite Forall_forall in H. now apply (H _ Hin).
Qed.

(** ... hence none contains [</script] (any case) or [<!--] *)
Lemma script_inert isl script c :
  In (entry_chunk c) (log (session esc isl script)) -> inert c = true.
Proof. intros H. now apply nolt_inert, (chunks_have_no_lt isl script). Qed.

(** ... and, wrapped by build_response as [<script>chunk</script>], the element the browser
    sees ends exactly at the tag that was appended: its text is the chunk, nothing of the chunk
    is parsed as markup, and no [<!--] switches the tokenizer to the escaped states *)
Lemma nolt_script_text l : nolt l -> script_text (l ++ k_script_close) = Some l.
Proof.
  induction 1 as [|b l Hb _ IH]; [vm_compute; reflexivity|].
  change ((b :: l) ++ k_script_close) with (b :: (l ++ k_script_close)).
  cbn [script_text]. rewrite IH. cbn [option_map].
  unfold k_script_end. cbn [prefix_ci].
  destruct (N.eqb_spec 60 (lower b)) as [E|E].
  - symmetry in E. apply lower_60 in E. contradiction.
  - reflexivity.
Qed.

Lemma script_element_text isl script c :
  In (entry_chunk c) (log (session esc isl script)) ->
  script_text (c ++ k_script_close) = Some c /\ has_comment_open c = false.
Proof.
  intros H. pose proof (chunks_have_no_lt isl script c H) as Hn. split.
  - now apply nolt_script_text.
  - unfold has_comment_open, k_comment_open. now apply nolt_contains_ci.
Qed.

End Inert.

(** the statement is about something: a chunk with a hostile payload, and a text that does end
    the element early when it is not escaped *)
Example script_element_text_nonvacuous :
  script_text ([120; 60; 47; 83; 67; 82; 73; 80; 84; 32; 62; 121] ++ k_script_close) = Some [120].
Proof. vm_compute. reflexivity. Qed.

(** the hypotheses are satisfiable and the conclusion is not vacuous: a hostile error message
    and a hostile payload do end up in chunks of the session's log *)
Definition hostile : str := [60; 47; 115; 99; 114; 105; 112; 116; 62; 60; 33; 45; 45; 0; 49; 92; 34].
Definition demo_script : list sexp :=
  [ Lst [Num 0%Z];
    Lst [Num 3%Z; Lst [Num 1%Z; Num 0%Z]; Lst [Num 0%Z; Num 7%Z]; sbytes hostile];
    Lst [Num 2%Z; Lst [Num 1%Z; Num 0%Z]; sbytes hostile] ].
Definition demo_fut : fut := {| f_id := 0; f_gate := Some 0%nat; f_data := hostile |}.
Example script_inert_nonvacuous :
  let c1 := initial_chunk (fun _ => false) [(0, 7, hostile)] [demo_fut] in
  let c2 := resolved_stmt (fun _ => false) demo_fut in
  c1 <> c2 /\
  In (entry_chunk c1) (log (session (fun _ => false) false demo_script)) /\
  In (entry_chunk c2) (log (session (fun _ => false) false demo_script)) /\
  inert c1 = true /\ inert c2 = true /\ inert hostile = false.
Proof.
  cbv zeta. split; [|split; [|split]].
  - vm_compute. discriminate.
  - vm_compute. repeat first [left; reflexivity | right].
  - vm_compute. repeat first [left; reflexivity | right].
  - vm_compute. auto.
Qed.

Example payload_roundtrip_nonvacuous :
  js_read (js_string (fun c => c =? 769) (hostile ++ [769; 128512; 8232]) ++ [59]) =
  Some (hostile ++ [769; 128512; 8232], [59]).
Proof. vm_compute. reflexivity. Qed.

(** * the code before the repair violated both statements *)
(** F-C12-a: "a<b" was emitted as "a\\u003cb" *)
Example payload_roundtrip_prefix_refuted_lt :
  exists s, Forall scalar s /\
    js_read (js_string_prefix_data (fun _ => false) s) <> Some (s, []).
Proof.
  exists [97; 60; 98]. split.
  - repeat constructor; unfold scalar; lia.
  - vm_compute. discriminate.
Qed.
(** F-C12-c: NUL followed by '1' was emitted as "\01" = U+0001 *)
Example payload_roundtrip_prefix_refuted_nul :
  exists s, Forall scalar s /\
    js_read (js_string_prefix_data (fun _ => false) s) = Some ([1], []) /\ s <> [1].
Proof.
  exists [0; 49]. split; [|split].
  - repeat constructor; unfold scalar; lia.
  - vm_compute. reflexivity.
  - discriminate.
Qed.
(** F-C12-b: error messages were not '<'-escaped *)
Example script_inert_prefix_refuted :
  exists m, Forall scalar m /\ inert (js_string_prefix_error (fun _ => false) m) = false.
Proof.
  exists [60; 47; 115; 99; 114; 105; 112; 116; 62]. split.
  - repeat constructor; unfold scalar; lia.
  - vm_compute. reflexivity.
Qed.

(** * id counters *)
(** the part of the state the id counters live in, and the only two things a session does to
    it: hand out an id (server's next_id and, where the browser repeats the call, the
    browser's), and switch is_hydrating *)
Record ctr := {
  c_hyd : bool; c_isl : bool; c_next_hyd : N; c_next_non : N;
  c_client_next : N; c_client_ids : list N; c_handed : list (bool * N) }.

Definition proj (s : st) : ctr :=
  {| c_hyd := hyd s; c_isl := islands s; c_next_hyd := next_hyd s; c_next_non := next_non s;
     c_client_next := client_next s; c_client_ids := client_ids s; c_handed := handed s |}.

Definition c_next (c : ctr) : ctr :=
  let rep := negb (c_isl c) || c_hyd c in
  {| c_hyd := c_hyd c; c_isl := c_isl c;
     c_next_hyd := if c_hyd c then (c_next_hyd c + 1) mod two64 else c_next_hyd c;
     c_next_non := if c_hyd c then c_next_non c else (c_next_non c + two64 - 1) mod two64;
     c_client_next := if rep then (c_client_next c + 1) mod two64 else c_client_next c;
     c_client_ids := if rep then c_client_ids c ++ [c_client_next c] else c_client_ids c;
     c_handed := c_handed c ++ [(rep, if c_hyd c then c_next_hyd c else c_next_non c)] |}.

Definition c_set (c : ctr) (b : bool) : ctr :=
  {| c_hyd := b; c_isl := c_isl c; c_next_hyd := c_next_hyd c; c_next_non := c_next_non c;
     c_client_next := c_client_next c; c_client_ids := c_client_ids c; c_handed := c_handed c |}.

Inductive ev := ENext | ESet (b : bool).
Definition c_step (c : ctr) (e : ev) : ctr := match e with ENext => c_next c | ESet b => c_set c b end.

(** what a command does to the counters *)
Definition event_of (c : sexp) : list ev :=
  match as_Z (nth_s 0 c) with
  | 0%Z => [ENext]
  | 12%Z => [ENext]
  | 1%Z => [ESet (as_bool (nth_s 1 c))]
  | _ => []
  end.

Section Ids.
Variable esc : N -> bool.

Lemma proj_next_client s : proj (client_step (snd (next_id s))) = c_next (proj s).
Proof.
  destruct s as [h nh nn ab er se inc dn ng is_ p isl cn ci hd lg].
  unfold next_id, client_step, c_next, proj. destruct h, isl; reflexivity.
Qed.
Lemma proj_client_next s : proj (snd (next_id (client_step s))) = c_next (proj s).
Proof.
  destruct s as [h nh nn ab er se inc dn ng is_ p isl cn ci hd lg].
  unfold next_id, client_step, c_next, proj. destruct h, isl; reflexivity.
Qed.

Lemma proj_complete s k : proj (complete s k) = proj s.
Proof. unfold complete. destruct (Nat.ltb k (ngates s)); [|reflexivity]. now destruct (mem_nat k (done s)). Qed.
Lemma proj_start_stream s : proj (start_stream esc s) = proj s.
Proof. unfold start_stream. now destruct (ph s). Qed.
Lemma proj_poll s : proj (poll esc s) = proj s.
Proof.
  unfold poll. destruct (ph s); try reflexivity.
  unfold async_poll. set (s' := set_errs _ _). set (t := _ ++ _).
  change (proj s) with (proj s'). now destruct (abuf s'), t.
Qed.

Lemma proj_consume fuel : forall order s, proj (consume_loop fuel order s) = proj s.
Proof.
  induction fuel as [|fuel IH]; intros order s; cbn [consume_loop].
  - now destruct (forallb (is_ready (done s)) (abuf s)).
  - destruct (forallb (is_ready (done s)) (abuf s)); [reflexivity|].
    destruct (next_gate order (ngates s) (done s)) as [[k|] rest]; [|reflexivity].
    rewrite IH, proj_complete. reflexivity.
Qed.

Lemma proj_cmd s c : proj (cmd esc s c) = fold_left c_step (event_of c) (proj s).
Proof.
  unfold cmd, event_of.
  destruct (as_Z (nth_s 0 c)) as [|p|p]; [| |reflexivity].
  - cbn [fold_left c_step]. rewrite <- proj_next_client.
    destruct (next_id s) as [i s1]. cbn [snd].
    unfold client_step, push_log, set_log, set_ids, upd; cbn.
    now destruct (negb (islands s1) || hyd s1).
  - do 4 (try destruct p as [p|p|]); try reflexivity.
    all: try apply proj_complete; try apply proj_start_stream; try apply proj_poll; try apply proj_consume.
    cbn [fold_left c_step].
    change (proj s) with (proj (push_log s (Lst [Num 13%Z; Num 1%Z; Lst (map sN (encode (as_Z (nth_s 2 c)) (as_bytes (nth_s 3 c))))]))).
    rewrite <- proj_client_next.
    destruct (next_id (client_step (push_log s (Lst [Num 13%Z; Num 1%Z; Lst (map sN (encode (as_Z (nth_s 2 c)) (as_bytes (nth_s 3 c))))])))) as [i s1]. cbn [snd].
    destruct (as_Z (nth_s 1 c)) as [|q|q];
      try (now destruct (hyd (set_ngates s1 (S (ngates s1))))).
    do 2 (try destruct q as [q|q|]);
      try (now destruct (hyd (set_ngates s1 (S (ngates s1))))).
    now destruct (hyd s1).
Qed.

Lemma proj_fold script : forall s,
  proj (fold_left (cmd esc) script s) = fold_left c_step (flat_map event_of script) (proj s).
Proof.
  induction script as [|c script IH]; intros s; cbn [fold_left flat_map]; [reflexivity|].
  now rewrite IH, proj_cmd, fold_left_app.
Qed.

Lemma proj_drain fuel : forall s, proj (drain esc fuel s) = proj s.
Proof.
  induction fuel as [|fuel IH]; intros s; cbn [drain]; [now destruct (ph s)|].
  assert (H : proj
      (if last_is_pending (poll esc s)
       then match first_undone 0 (ngates (poll esc s)) (done (poll esc s)) with
            | Some k => drain esc fuel (complete (push_log (poll esc s) (Lst [Num 7%Z; snat k])) k)
            | None => push_log (poll esc s) (Lst [Num 98%Z])
            end
       else drain esc fuel (poll esc s)) = proj s).
  { destruct (last_is_pending (poll esc s)); [|now rewrite IH, proj_poll].
    destruct (first_undone 0 _ _); [rewrite IH, proj_complete|]; apply proj_poll. }
  now destruct (ph s).
Qed.

(** the id counters at the end of a session are those of its event trace *)
Lemma proj_session isl script :
  proj (session esc isl script) = fold_left c_step (flat_map event_of script) (proj (init isl)).
Proof.
  unfold session.
  change (proj (push_log ?s _)) with (proj s).
  now rewrite proj_drain, proj_start_stream, proj_fold.
Qed.
End Ids.

(** ** properties of counter traces *)
Definition c0 (isl : bool) : ctr := proj (init isl).

(** a non-islands application never leaves hydration mode *)
Definition trace_ok (isl : bool) (t : list ev) : Prop := isl = false -> ~ In (ESet false) t.

Definition aligned (c : ctr) : Prop :=
  c_next_hyd c = c_client_next c /\
  map snd (filter fst (c_handed c)) = c_client_ids c /\
  (c_isl c = false -> c_hyd c = true).

Lemma aligned_step c e :
  aligned c -> (c_isl c = false -> e <> ESet false) -> aligned (c_step c e).
Proof.
  intros (H1 & H2 & H3) He. destruct e as [|b]; cbn [c_step].
  - unfold c_next, aligned; cbn.
    destruct (c_hyd c) eqn:Eh; destruct (c_isl c) eqn:Ei; cbn [negb orb];
      try (specialize (H3 eq_refl); discriminate);
      rewrite filter_app, map_app; cbn [filter fst map snd];
      repeat split; try congruence; try (now rewrite app_nil_r);
      try (intros; discriminate); now rewrite H1, H2.
  - unfold c_set, aligned; cbn. repeat split; try assumption.
    intros Ei. destruct b; [reflexivity|]. now specialize (He Ei).
Qed.

Lemma c_isl_step c e : c_isl (c_step c e) = c_isl c.
Proof. now destruct e. Qed.
Lemma c_isl_fold t : forall c, c_isl (fold_left c_step t c) = c_isl c.
Proof. induction t as [|e t IH]; intros c; cbn [fold_left]; [reflexivity | now rewrite IH, c_isl_step]. Qed.

Lemma aligned_fold t : forall c,
  aligned c -> (c_isl c = false -> ~ In (ESet false) t) -> aligned (fold_left c_step t c).
Proof.
  induction t as [|e t IH]; intros c Ha Ht; cbn [fold_left]; [assumption|].
  apply IH.
  - apply aligned_step; [assumption|]. intros Ei E. apply (Ht Ei). now left.
  - rewrite c_isl_step. intros Ei H. apply (Ht Ei). now right.
Qed.

(** the ids the server hands to code that the browser re-runs are exactly the ids the browser
    hands out, in order — for every trace of id requests and mode switches *)
Lemma ids_align_trace isl t :
  trace_ok isl t ->
  let c := fold_left c_step t (c0 isl) in
  map snd (filter fst (c_handed c)) = c_client_ids c.
Proof.
  intros Ht. apply aligned_fold.
  - unfold aligned, c0, proj, init; cbn. repeat split. intros ->. reflexivity.
  - exact Ht.
Qed.

Definition two63 : N := 9223372036854775808.

(** counters after at most [k] requests, [k <= 2^63]: no wrap-around has happened, hydrated ids
    are below the hydration counter, non-hydrated ones above the other counter *)
Definition bounded (k : nat) (c : ctr) : Prop :=
  aligned c /\
  (length (c_handed c) <= k)%nat /\
  c_next_hyd c = N.of_nat (length (c_client_ids c)) /\
  (length (c_client_ids c) <= length (c_handed c))%nat /\
  c_client_ids c = map N.of_nat (seq 0 (length (c_client_ids c))) /\
  two64 - 1 - N.of_nat (length (c_handed c)) <= c_next_non c /\ c_next_non c < two64 /\
  (forall i, In (true, i) (c_handed c) -> i < c_next_hyd c) /\
  (forall j, In (false, j) (c_handed c) -> c_next_non c < j).

Lemma seq_snoc n : seq 0 (S n) = seq 0 n ++ [n].
Proof. now rewrite seq_S. Qed.

Lemma bounded_step k c e :
  bounded k c -> N.of_nat (S k) <= two63 -> (c_isl c = false -> e <> ESet false) ->
  bounded (S k) (c_step c e).
Proof.
  intros (Ha & Hk & Hn & Hle & Hseq & Hlo & Hhi & Ht & Hf) Hb He.
  assert (Ha' := aligned_step c e Ha He).
  split; [exact Ha'|]. clear Ha'.
  destruct Ha as (A1 & A2 & A3).
  assert (Hk2 : N.of_nat (length (c_handed c)) < two63) by lia.
  unfold two63, two64 in *.
  destruct e as [|b]; cbn [c_step].
  2: { unfold c_set; cbn [c_hyd c_isl c_next_hyd c_next_non c_client_next c_client_ids c_handed].
       repeat split; try assumption; lia. }
  unfold c_next; cbn [c_hyd c_isl c_next_hyd c_next_non c_client_next c_client_ids c_handed].
  unfold two64 in *.
  destruct (c_hyd c) eqn:Eh.
  - (* hydrating: the browser repeats the call *)
    replace (negb (c_isl c) || true) with true by (now destruct (c_isl c)).
    rewrite !app_length; cbn [length].
    assert (Hlen : N.of_nat (length (c_client_ids c)) + 1 < 18446744073709551616) by lia.
    rewrite N.mod_small by lia.
    repeat split; try lia.
    + rewrite Nat.add_1_r, seq_snoc, map_app. cbn [map]. rewrite <- Hseq. now rewrite <- A1, Hn.
    + intros i Hi. apply in_app_or in Hi. destruct Hi as [Hi|[Hi|[]]].
      * specialize (Ht i Hi). lia.
      * injection Hi as <-. lia.
    + intros j Hj. apply in_app_or in Hj. destruct Hj as [Hj|[Hj|[]]]; [now apply Hf | discriminate].
  - (* not hydrating: only possible in islands mode, the browser skips the call *)
    destruct (c_isl c) eqn:Ei; [|specialize (A3 eq_refl); congruence].
    cbn [negb orb]. rewrite !app_length; cbn [length].
    replace ((c_next_non c + 18446744073709551616 - 1) mod 18446744073709551616) with (c_next_non c - 1).
    2: { replace (c_next_non c + 18446744073709551616 - 1) with (c_next_non c - 1 + 1 * 18446744073709551616) by lia.
         rewrite N.mod_add by lia. rewrite N.mod_small; lia. }
    repeat split; try lia; try assumption.
    + intros i Hi. apply in_app_or in Hi. destruct Hi as [Hi|[Hi|[]]]; [now apply Ht | discriminate].
    + intros j Hj. apply in_app_or in Hj. destruct Hj as [Hj|[Hj|[]]].
      * specialize (Hf j Hj). lia.
      * injection Hj as <-. lia.
Qed.

Lemma bounded_fold t : forall k c,
  bounded k c -> N.of_nat (k + length t) <= two63 -> (c_isl c = false -> ~ In (ESet false) t) ->
  bounded (k + length t) (fold_left c_step t c).
Proof.
  induction t as [|e t IH]; intros k c Hb Hk Ht; cbn [fold_left length].
  - now rewrite Nat.add_0_r.
  - cbn [length] in Hk. replace (k + S (length t))%nat with (S k + length t)%nat in * by lia.
    apply IH; [apply bounded_step | assumption |].
    + assumption.
    + unfold two63 in *. lia.
    + intros Ei E. apply (Ht Ei). now left.
    + rewrite c_isl_step. intros Ei H. apply (Ht Ei). now right.
Qed.

Lemma bounded_c0 isl : bounded 0 (c0 isl).
Proof.
  unfold bounded, aligned, c0, proj, init, two64; cbn.
  repeat split; try lia; try (intros; contradiction). intros ->. reflexivity.
Qed.

(** ... they are 0, 1, 2, ... *)
Lemma client_ids_count_up isl t :
  trace_ok isl t -> N.of_nat (length t) <= two63 ->
  let c := fold_left c_step t (c0 isl) in
  c_client_ids c = map N.of_nat (seq 0 (length (c_client_ids c))).
Proof.
  intros Ht Hb. destruct (bounded_fold t 0 (c0 isl) (bounded_c0 isl) Hb Ht) as (_ & _ & _ & _ & H & _).
  exact H.
Qed.

(** ... and never collide with an id handed out in a non-hydrated region *)
Lemma hydrated_ids_disjoint isl t i j :
  trace_ok isl t -> N.of_nat (length t) <= two63 ->
  let c := fold_left c_step t (c0 isl) in
  In (true, i) (c_handed c) -> In (false, j) (c_handed c) -> i < j.
Proof.
  intros Ht Hb c Hi Hj.
  destruct (bounded_fold t 0 (c0 isl) (bounded_c0 isl) Hb Ht)
    as (_ & Hk & Hn & Hle & _ & Hlo & _ & H1 & H2).
  specialize (H1 i Hi). specialize (H2 j Hj). fold c in Hk, Hn, Hle, Hlo, H1, H2.
  cbn [Nat.add] in Hk. unfold two63, two64 in *. lia.
Qed.

(** ** the same, for whole sessions of the model that is compared with the real code *)
Definition script_ok (isl : bool) (script : list sexp) : Prop :=
  isl = false -> forall c, In c script -> as_Z (nth_s 0 c) = 1%Z -> as_bool (nth_s 1 c) = true.

Lemma events_ok isl script : script_ok isl script -> trace_ok isl (flat_map event_of script).
Proof.
  intros H Ei Hin. apply in_flat_map in Hin. destruct Hin as (c & Hc & He).
  specialize (H Ei c Hc). unfold event_of in He.
  destruct (as_Z (nth_s 0 c)) as [|p|p]; try (destruct He as [He|[]]; discriminate); try contradiction.
  do 4 (try destruct p as [p|p|]); try contradiction; try (destruct He as [He|[]]; discriminate).
  destruct He as [He|[]]. injection He as He. rewrite H in He; [discriminate | reflexivity].
Qed.

Lemma events_length script : (length (flat_map event_of script) <= length script)%nat.
Proof.
  induction script as [|c script IH]; cbn [flat_map length]; [lia|].
  rewrite app_length. assert (length (event_of c) <= 1)%nat; [|lia].
  unfold event_of. destruct (as_Z (nth_s 0 c)) as [|p|p]; cbn; try lia.
  do 4 (try destruct p as [p|p|]); cbn; lia.
Qed.

Section SessionIds.
Variable esc : N -> bool.

Lemma ids_align isl script :
  script_ok isl script ->
  let s := session esc isl script in
  map snd (filter fst (handed s)) = client_ids s.
Proof.
  intros Hok s.
  change (handed s) with (c_handed (proj s)). change (client_ids s) with (c_client_ids (proj s)).
  subst s. rewrite proj_session. apply ids_align_trace, events_ok, Hok.
Qed.

Lemma ids_count_up isl script :
  script_ok isl script -> N.of_nat (length script) <= two63 ->
  let s := session esc isl script in
  client_ids s = map N.of_nat (seq 0 (length (client_ids s))).
Proof.
  intros Hok Hb s.
  change (client_ids s) with (c_client_ids (proj s)).
  subst s. rewrite proj_session. apply client_ids_count_up; [now apply events_ok|].
  assert (H := events_length script). unfold two63 in *. lia.
Qed.

Lemma ids_disjoint isl script i j :
  script_ok isl script -> N.of_nat (length script) <= two63 ->
  let s := session esc isl script in
  In (true, i) (handed s) -> In (false, j) (handed s) -> i < j.
Proof.
  intros Hok Hb s.
  change (handed s) with (c_handed (proj s)).
  subst s. rewrite proj_session. apply hydrated_ids_disjoint; [now apply events_ok|].
  assert (H := events_length script). unfold two63 in *. lia.
Qed.
End SessionIds.

(** non-vacuity: an islands session that hands out ids from both counters, in nested regions *)
Definition ids_demo : list sexp :=
  [ Lst [Num 0%Z]; Lst [Num 1%Z; Num 1%Z]; Lst [Num 0%Z];
    Lst [Num 12%Z; Num 0%Z; Num 1%Z; sbytes hostile]; Lst [Num 1%Z; Num 0%Z]; Lst [Num 0%Z];
    Lst [Num 1%Z; Num 1%Z]; Lst [Num 12%Z; Num 2%Z; Num 0%Z; sbytes hostile] ].
Example ids_align_nonvacuous :
  script_ok true ids_demo /\
  handed (session (fun _ => false) true ids_demo) =
    [(false, 18446744073709551615); (true, 0); (true, 1); (false, 18446744073709551614); (true, 2)] /\
  client_ids (session (fun _ => false) true ids_demo) = [0; 1; 2].
Proof. split; [intros H; discriminate H | split; vm_compute; reflexivity]. Qed.
(** without the side condition the statement is false: a non-islands program that switches
    hydration off gets ids from the other counter while the browser keeps counting *)
Example ids_align_needs_script_ok :
  let s := session (fun _ => false) false [Lst [Num 1%Z; Num 0%Z]; Lst [Num 0%Z]] in
  map snd (filter fst (handed s)) <> client_ids s.
Proof. vm_compute. discriminate. Qed.


(** * binary encodings: [IntoEncodedString for Vec<u8>] / [FromEncodedStr for [u8]] *)
(** any byte buffer, sent as unpadded base64, is decoded back to exactly that buffer *)
Lemma binary_payload_roundtrip l :
  all_bytes l = true -> bytes_from_encoded_str (bytes_to_encoded_string l) = Some l.
Proof.
  intros H. unfold bytes_from_encoded_str, bytes_to_encoded_string.
  now rewrite (base64_roundtrip false false l H).
Qed.

Lemma ascii_scalars l : forallb (fun b => b <? 128) l = true -> Forall scalar l.
Proof.
  rewrite forallb_forall, Forall_forall. intros H c Hc. specialize (H c Hc).
  apply N.ltb_lt in H. unfold scalar. lia.
Qed.

(** ... also through the script: the literal the server writes for the encoded buffer is read
    by the browser as a string that the client-side decoder turns back into the buffer *)
Lemma binary_payload_delivered esc l rest :
  all_bytes l = true ->
  exists s, js_read (js_string esc (bytes_to_encoded_string l) ++ rest) = Some (s, rest)
            /\ bytes_from_encoded_str s = Some l.
Proof.
  intros H. exists (bytes_to_encoded_string l). split.
  - apply payload_roundtrip, ascii_scalars. unfold bytes_to_encoded_string.
    now apply b64_encode_ascii.
  - now apply binary_payload_roundtrip.
Qed.

Example binary_payload_nonvacuous :
  bytes_to_encoded_string [104; 195; 169; 0; 255] = [97; 77; 79; 112; 65; 80; 56]
  /\ bytes_from_encoded_str [97; 77; 79; 112; 65; 80; 56] = Some [104; 195; 169; 0; 255].
Proof. split; vm_compute; reflexivity. Qed.

(** * consume_buffers: whatever the completion order, every id comes out with the data that was
    registered under it, in registration order *)
Definition pair_entry (f : fut) : sexp := Lst [Lst (map sN (dec (f_id f))); Lst (map sN (f_data f))].

Lemma abuf_complete s k : abuf (complete s k) = abuf s.
Proof. unfold complete. destruct (Nat.ltb k (ngates s)); [|reflexivity]. now destruct (mem_nat k (done s)). Qed.

Lemma consume_pairs fuel : forall order s l rest,
  log (consume_loop fuel order s) = Lst [Num 14%Z; Lst l] :: rest ->
  l = map pair_entry (abuf s).
Proof.
  induction fuel as [|fuel IH]; intros order s l rest H; cbn [consume_loop] in H.
  - destruct (forallb (is_ready (done s)) (abuf s)); cbn in H; [|discriminate].
    now injection H as <- _.
  - destruct (forallb (is_ready (done s)) (abuf s)); [cbn in H; now injection H as <- _|].
    destruct (next_gate order (ngates s) (done s)) as [[k|] rest']; [|cbn in H; discriminate].
    apply IH in H. now rewrite abuf_complete in H.
Qed.

Example consume_pairs_nonvacuous :
  exists l rest,
    log (consume_loop 3 [1%nat; 0%nat]
           (set_ngates (set_abuf (init false)
              [{| f_id := 5; f_gate := Some 0%nat; f_data := [97] |};
               {| f_id := 9; f_gate := Some 1%nat; f_data := [98] |}]) 2))
    = Lst [Num 14%Z; Lst l] :: rest /\ length l = 2%nat.
Proof. eexists. eexists. split; [vm_compute; reflexivity | reflexivity]. Qed.
