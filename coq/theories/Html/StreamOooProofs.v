(** C07 — proofs about the out-of-order stream: token documents with fallback regions,
    the effect of the replacement scripts, uniqueness of the suspense ids. *)
From Coq Require Import List NArith Bool Lia Arith.
From LV Require Import Html.Stream Html.StreamProofs.
Import ListNotations.
Local Open Scope nat_scope.

(* ------------------------------------------------------------------ ids *)
Lemma list_N_eqb_eq a : forall b, list_N_eqb a b = true <-> a = b.
Proof.
  induction a as [|x a IH]; intros [|y b]; simpl; split; intros H; try congruence; auto.
  - apply andb_true_iff in H. destruct H as [E1 E2]. apply N.eqb_eq in E1. apply IH in E2. congruence.
  - inversion H; subst. rewrite N.eqb_refl. simpl. apply IH. reflexivity.
Qed.
Lemma list_N_eqb_refl a : list_N_eqb a a = true.
Proof. apply list_N_eqb_eq. reflexivity. Qed.
Lemma list_N_eqb_neq a b : a <> b -> list_N_eqb a b = false.
Proof. intros H. destruct (list_N_eqb a b) eqn:E; auto. apply list_N_eqb_eq in E. contradiction. Qed.

(* ------------------------------------------------------------------ plain HTML, documents with regions *)
Definition is_tb (t : tok) : Prop := match t with TB _ => True | _ => False end.
Definition plain (h : html) : Prop := Forall is_tb h.

Lemma plain_app a b : plain a -> plain b -> plain (a ++ b).
Proof. unfold plain. intros. apply Forall_app. auto. Qed.
Lemma plain_tb s : plain (tb s).
Proof. unfold plain, tb. apply Forall_forall. intros x Hx. apply in_map_iff in Hx.
  destruct Hx as [b [E _]]. subst. exact I. Qed.
Lemma plain_nil : plain [].
Proof. constructor. Qed.

(** a document: ordinary bytes and fallback regions [<!--s-i-o--> F <!--s-i-c-->] with plain F;
    the index lists the regions (id, fallback) in document order *)
Inductive wfd : html -> list (list N * html) -> Prop :=
| wfd_nil : wfd [] []
| wfd_tb b l rs : wfd l rs -> wfd (TB b :: l) rs
| wfd_reg i F l rs : plain F -> wfd l rs -> wfd (TOpen i :: F ++ TClose i :: l) ((i, F) :: rs).

Lemma wfd_plain h : plain h -> wfd h [].
Proof.
  induction h as [|t h IH]; intros P; [constructor|].
  inversion P as [|? ? Ht Hh]; subst. destruct t; simpl in Ht; try contradiction.
  constructor. auto.
Qed.
Lemma wfd_app a ra : wfd a ra -> forall b rb, wfd b rb -> wfd (a ++ b) (ra ++ rb).
Proof.
  induction 1; intros b0 rb Hb; simpl; auto.
  - constructor. auto.
  - rewrite <- app_assoc. simpl. constructor; auto.
Qed.

Definition rids (rs : list (list N * html)) : list (list N) := map fst rs.

Lemma wfd_no_open a ra i : wfd a ra -> ~ In i (rids ra) -> forall t, In t a -> is_open i t = false.
Proof.
  induction 1; intros Hn t Ht; simpl in *.
  - contradiction.
  - destruct Ht as [Ht|Ht]; subst; auto.
  - destruct Ht as [Ht|Ht]; subst.
    + simpl. apply list_N_eqb_neq. intro; subst; auto.
    + apply in_app_iff in Ht. destruct Ht as [Ht|Ht].
      * unfold plain in H. rewrite Forall_forall in H. specialize (H t Ht).
        destruct t; simpl in *; try contradiction; auto.
      * destruct Ht as [Ht|Ht]; subst; auto.
Qed.
Lemma wfd_no_close a ra i : wfd a ra -> ~ In i (rids ra) -> forall t, In t a -> is_close i t = false.
Proof.
  induction 1; intros Hn t Ht; simpl in *.
  - contradiction.
  - destruct Ht as [Ht|Ht]; subst; auto.
  - destruct Ht as [Ht|Ht]; subst; auto.
    apply in_app_iff in Ht. destruct Ht as [Ht|Ht].
    + unfold plain in H. rewrite Forall_forall in H. specialize (H t Ht).
      destruct t; simpl in *; try contradiction; auto.
    + destruct Ht as [Ht|Ht]; subst; auto.
      simpl. apply list_N_eqb_neq. intro; subst; auto.
Qed.
Lemma plain_no_marker F i : plain F ->
  forall t, In t F -> is_open i t = false /\ is_close i t = false.
Proof.
  intros P t Ht. unfold plain in P. rewrite Forall_forall in P. specialize (P t Ht).
  destruct t; simpl in *; try contradiction; auto.
Qed.

(** a region with a given id can be cut out of a document whose ids are distinct *)
Lemma wfd_split D rs : wfd D rs -> forall i F, In (i, F) rs -> NoDup (rids rs) ->
  exists A B ra rb, D = A ++ TOpen i :: F ++ TClose i :: B /\ wfd A ra /\ wfd B rb
                    /\ rs = ra ++ (i, F) :: rb /\ ~ In i (rids ra) /\ ~ In i (rids rb) /\ plain F.
Proof.
  induction 1; intros j G Hin Hnd.
  - contradiction.
  - destruct (IHwfd j G Hin Hnd) as [A [B [ra [rb [E [WA [WB [Er [Na [Nb P]]]]]]]]]].
    exists (TB b :: A), B, ra, rb. subst. repeat split; auto. constructor; auto.
  - simpl in Hnd. inversion Hnd as [|? ? Hni Hnd']; subst. destruct Hin as [Hin|Hin].
    + inversion Hin; subst. exists [], l, [], rs. repeat split; auto; constructor.
    + destruct (IHwfd j G Hin Hnd') as [A [B [ra [rb [E [WA [WB [Er [Na [Nb P]]]]]]]]]].
      exists (TOpen i :: F ++ TClose i :: A), B, ((i, F) :: ra), rb. subst.
      repeat split; auto.
      * simpl. rewrite <- app_assoc. reflexivity.
      * constructor; auto.
      * simpl. intros [X|X]; auto. subst. apply Hni. unfold rids. rewrite map_app, in_app_iff.
        right. left. reflexivity.
Qed.

(* ------------------------------------------------------------------ searching *)
Lemma find_idx_first {A} (p : A -> bool) l x r :
  (forall y, In y l -> p y = false) -> p x = true -> find_idx p (l ++ x :: r) = Some (length l).
Proof.
  induction l as [|y l IH]; intros Hn Hx; simpl.
  - rewrite Hx. reflexivity.
  - rewrite (Hn y (or_introl eq_refl)). rewrite IH; auto. intros z Hz. apply Hn. right. auto.
Qed.
Lemma find_idx_none {A} (p : A -> bool) l :
  (forall y, In y l -> p y = false) -> find_idx p l = None.
Proof.
  induction l as [|y l IH]; intros Hn; simpl; auto.
  rewrite (Hn y (or_introl eq_refl)). rewrite IH; auto. intros z Hz. apply Hn. right. auto.
Qed.
Lemma find_last_last {A} (p : A -> bool) l x r :
  (forall y, In y r -> p y = false) -> p x = true -> find_last p (l ++ x :: r) = Some (length l).
Proof.
  intros Hn Hx. unfold find_last. rewrite rev_app_distr. simpl. rewrite <- app_assoc. simpl.
  rewrite find_idx_first; auto.
  - rewrite rev_length, app_length. simpl. f_equal. lia.
  - intros y Hy. apply Hn. apply in_rev. auto.
Qed.

(** both searches find the unique region *)
Lemma region_found A ra B rb i F X :
  wfd A ra -> ~ In i (rids ra) -> plain F ->
  find_idx (is_open i) (A ++ TOpen i :: F ++ TClose i :: X) = Some (length A)
  /\ find_idx (is_close i) (A ++ TOpen i :: F ++ TClose i :: X) = Some (length A + S (length F))
  /\ (wfd B rb -> ~ In i (rids rb) -> X = B ->
      find_last (is_open i) (A ++ TOpen i :: F ++ TClose i :: X) = Some (length A)
      /\ find_last (is_close i) (A ++ TOpen i :: F ++ TClose i :: X) = Some (length A + S (length F))).
Proof.
  intros WA Na P. split; [|split].
  - apply find_idx_first; [eapply wfd_no_open; eauto|simpl; apply list_N_eqb_refl].
  - replace (A ++ TOpen i :: F ++ TClose i :: X) with ((A ++ TOpen i :: F) ++ TClose i :: X)
      by (rewrite <- app_assoc; reflexivity).
    rewrite find_idx_first; [f_equal; rewrite app_length; simpl; lia| |simpl; apply list_N_eqb_refl].
    intros y Hy. apply in_app_iff in Hy. destruct Hy as [Hy|[Hy|Hy]].
    + eapply wfd_no_close; eauto.
    + subst. reflexivity.
    + apply (plain_no_marker F i P y Hy).
  - intros WB Nb E. subst X. split.
    + apply find_last_last; [|simpl; apply list_N_eqb_refl].
      intros y Hy. apply in_app_iff in Hy. destruct Hy as [Hy|[Hy|Hy]].
      * apply (plain_no_marker F i P y Hy).
      * subst. reflexivity.
      * eapply wfd_no_open; eauto.
    + replace (A ++ TOpen i :: F ++ TClose i :: B) with ((A ++ TOpen i :: F) ++ TClose i :: B)
        by (rewrite <- app_assoc; reflexivity).
      rewrite find_last_last; [f_equal; rewrite app_length; simpl; lia| |simpl; apply list_N_eqb_refl].
      intros y Hy. eapply wfd_no_close; eauto.
Qed.

Lemma firstn_app_exact {A} (l r : list A) : firstn (length l) (l ++ r) = l.
Proof. rewrite firstn_app, Nat.sub_diag, firstn_all. simpl. apply app_nil_r. Qed.
Lemma skipn_app_exact {A} (l r : list A) : skipn (length l) (l ++ r) = r.
Proof. rewrite skipn_app, Nat.sub_diag, skipn_all. reflexivity. Qed.

(** the replacement script on a document with a unique region [i] *)
Lemma apply_ooo_region A ra B rb i F t r :
  wfd A ra -> wfd B rb -> ~ In i (rids ra) -> ~ In i (rids rb) -> plain F ->
  apply_ooo (A ++ TOpen i :: F ++ TClose i :: B) i t r
  = Some (if r then A ++ t ++ B else A ++ F ++ B).
Proof.
  intros WA WB Na Nb P.
  destruct (region_found A ra B rb i F B WA Na P) as [_ [_ L]].
  destruct (L WB Nb eq_refl) as [L1 L2]. unfold apply_ooo. rewrite L1, L2.
  assert (Nat.leb (length A) (length A + S (length F)) = true) as Le by (apply Nat.leb_le; lia).
  rewrite Le.
  assert (firstn (length A) (A ++ TOpen i :: F ++ TClose i :: B) = A) as F1 by apply firstn_app_exact.
  assert (skipn (S (length A + S (length F))) (A ++ TOpen i :: F ++ TClose i :: B) = B) as S1.
  { replace (A ++ TOpen i :: F ++ TClose i :: B) with ((A ++ TOpen i :: F ++ [TClose i]) ++ B)
      by (rewrite <- !app_assoc; simpl; rewrite <- app_assoc; reflexivity).
    replace (S (length A + S (length F))) with (length (A ++ TOpen i :: F ++ [TClose i]))
      by (rewrite !app_length; simpl; rewrite app_length; simpl; lia).
    apply skipn_app_exact. }
  rewrite F1, S1. destruct r; auto.
  f_equal. f_equal.
  replace (A ++ TOpen i :: F ++ TClose i :: B) with ((A ++ [TOpen i]) ++ F ++ TClose i :: B)
    by (rewrite <- app_assoc; reflexivity).
  replace (S (length A)) with (length (A ++ [TOpen i])) by (rewrite app_length; simpl; lia).
  rewrite skipn_app_exact.
  replace (length A + S (length F) - length (A ++ [TOpen i])) with (length F)
    by (rewrite app_length; simpl; lia).
  rewrite firstn_app_exact. reflexivity.
Qed.

(* ------------------------------------------------------------------ filling regions *)
Definition env := list (list N * html).
Fixpoint lookup (e : env) (i : list N) : option html :=
  match e with
  | [] => None
  | (j, c) :: e => if list_N_eqb i j then Some c else lookup e i
  end.

(** replace every region whose id is in [e] by its entry *)
Fixpoint fill (e : env) (skip : option (list N)) (l : html) : html :=
  match l with
  | [] => []
  | t :: l =>
      match skip with
      | Some i => if is_close i t then fill e None l else fill e (Some i) l
      | None =>
          match t with
          | TOpen i => match lookup e i with
                       | Some c => c ++ fill e (Some i) l
                       | None => t :: fill e None l
                       end
          | _ => t :: fill e None l
          end
      end
  end.

Lemma fill_skip_region e i F l : plain F -> fill e (Some i) (F ++ TClose i :: l) = fill e None l.
Proof.
  intros P. induction F as [|t F IH]; simpl.
  - rewrite list_N_eqb_refl. reflexivity.
  - inversion P as [|? ? Ht PF]; subst. destruct t; simpl in Ht; try contradiction. simpl. auto.
Qed.

Lemma fill_wfd_app e a ra : wfd a ra -> (forall i, In i (rids ra) -> lookup e i <> None) ->
  forall b, fill e None (a ++ b) = fill e None a ++ fill e None b.
Proof.
  induction 1; intros Hl b0; simpl; auto.
  - rewrite IHwfd; auto.
  - destruct (lookup e i) as [c|] eqn:E.
    + rewrite <- app_assoc. simpl. rewrite !fill_skip_region by auto.
      rewrite IHwfd, app_assoc; auto. intros j Hj. apply Hl. right. auto.
    + exfalso. apply (Hl i); simpl; auto.
Qed.

Lemma fill_plain e h : plain h -> fill e None h = h.
Proof.
  induction h as [|t h IH]; intros P; simpl; auto.
  inversion P as [|? ? Ht Ph]; subst. destruct t; simpl in Ht; try contradiction. rewrite IH; auto.
Qed.

Lemma fill_region e i F c l : lookup e i = Some c -> plain F ->
  fill e None (TOpen i :: F ++ TClose i :: l) = c ++ fill e None l.
Proof. intros E P. simpl. rewrite E, fill_skip_region; auto. Qed.

Lemma fill_ext e e' a ra : wfd a ra ->
  (forall i, In i (rids ra) -> lookup e i = lookup e' i /\ lookup e i <> None) ->
  fill e None a = fill e' None a.
Proof.
  induction 1; intros Hl; simpl; auto.
  - rewrite IHwfd; auto.
  - destruct (Hl i (or_introl eq_refl)) as [E Nn]. rewrite <- E. destruct (lookup e i); [|congruence].
    rewrite !fill_skip_region by auto. rewrite IHwfd; auto. intros j Hj. apply Hl. right. auto.
Qed.

(* ------------------------------------------------------------------ the browser, as a state machine *)
Definition bstate := (html * option html)%type.   (* document, open template content *)

Definition as_step (st : bstate) (t : tok) : option bstate :=
  let '(doc, tpl) := st in
  match t with
  | TTplS _ => match tpl with None => Some (doc, Some []) | Some _ => None end
  | TTplE i r =>
      match tpl with
      | Some c => match apply_ooo doc i c r with
                  | Some doc' => Some (doc', None)
                  | None => None
                  end
      | None => None
      end
  | _ => match tpl with
         | None => Some (doc ++ [t], None)
         | Some c => Some (doc, Some (c ++ [t]))
         end
  end.

Fixpoint as_run (st : bstate) (h : html) : option bstate :=
  match h with
  | [] => Some st
  | t :: h => match as_step st t with Some st' => as_run st' h | None => None end
  end.

Lemma apply_scripts_run h : forall doc tpl,
  apply_scripts h doc tpl =
  match as_run (doc, tpl) h with
  | Some (d, None) => Some d
  | _ => None
  end.
Proof.
  induction h as [|t h IH]; intros doc tpl.
  - simpl. destruct tpl; reflexivity.
  - destruct t; cbn [apply_scripts as_run as_step].
    + destruct tpl; apply IH.
    + destruct tpl; apply IH.
    + destruct tpl; apply IH.
    + destruct tpl; [reflexivity|apply IH].
    + destruct tpl as [c|]; [|reflexivity]. destruct (apply_ooo doc i c replace); [apply IH|reflexivity].
Qed.

Lemma apply_scripts_of_run h D :
  as_run ([], None) h = Some (D, None) -> apply_scripts h [] None = Some D.
Proof. intros H. rewrite apply_scripts_run. unfold html in *. rewrite H. reflexivity. Qed.

Lemma as_run_app a : forall st b,
  as_run st (a ++ b) = match as_run st a with Some st' => as_run st' b | None => None end.
Proof.
  induction a as [|t a IH]; intros st b; simpl; auto.
  destruct (as_step st t); auto.
Qed.

Definition notpl (h : html) : Prop :=
  Forall (fun t => match t with TTplS _ | TTplE _ _ => False | _ => True end) h.

Lemma notpl_app a b : notpl a -> notpl b -> notpl (a ++ b).
Proof. unfold notpl. intros. apply Forall_app. auto. Qed.
Lemma plain_notpl h : plain h -> notpl h.
Proof.
  unfold plain, notpl. intros P. eapply Forall_impl; [|exact P]. intros t Ht.
  destruct t; simpl in *; auto.
Qed.
Lemma wfd_notpl D rs : wfd D rs -> notpl D.
Proof.
  induction 1.
  - constructor.
  - constructor; [exact I|auto].
  - constructor; [exact I|]. apply notpl_app; [apply plain_notpl; auto|]. constructor; [exact I|auto].
Qed.

Lemma as_run_notpl h : notpl h -> forall doc, as_run (doc, None) h = Some (doc ++ h, None).
Proof.
  induction h as [|t h IH]; intros P doc; simpl.
  - rewrite app_nil_r. reflexivity.
  - inversion P as [|? ? Ht Ph]; subst.
    destruct t; simpl in Ht; try contradiction; cbn [as_step]; rewrite IH by auto;
      rewrite <- app_assoc; reflexivity.
Qed.
Lemma as_run_tpl_content h : notpl h -> forall doc c, as_run (doc, Some c) h = Some (doc, Some (c ++ h)).
Proof.
  induction h as [|t h IH]; intros P doc c; simpl.
  - rewrite app_nil_r. reflexivity.
  - inversion P as [|? ? Ht Ph]; subst.
    destruct t; simpl in Ht; try contradiction; cbn [as_step]; rewrite IH by auto;
      rewrite <- app_assoc; reflexivity.
Qed.

(** a complete template block *)
Lemma as_run_block doc i t r : notpl t ->
  as_run (doc, None) (TTplS i :: t ++ [TTplE i r]) =
  match apply_ooo doc i t r with Some d => Some (d, None) | None => None end.
Proof.
  intros P. cbn [as_run as_step]. rewrite as_run_app, as_run_tpl_content by auto.
  cbn [as_run as_step app]. destruct (apply_ooo doc i t r); reflexivity.
Qed.

(* ------------------------------------------------------------------ id arithmetic *)
Definition bump (n : nat) (i : list N) : list N := Nat.iter n incr_last i.

Lemma incr_last_snoc p x : incr_last (p ++ [x]) = p ++ [(x + 1)%N].
Proof.
  induction p as [|y p IH]; simpl; auto.
  rewrite IH. destruct (p ++ [x]) eqn:E; [destruct p; discriminate|reflexivity].
Qed.
Lemma bump_snoc n p x : bump n (p ++ [x]) = p ++ [(x + N.of_nat n)%N].
Proof.
  induction n as [|n IH].
  - unfold bump. cbn [Nat.iter]. rewrite N.add_0_r. reflexivity.
  - change (bump (S n) (p ++ [x])) with (incr_last (bump n (p ++ [x]))).
    rewrite IH, incr_last_snoc. f_equal. f_equal. lia.
Qed.
Lemma nonempty_snoc (i : list N) : i <> [] -> exists p x, i = p ++ [x].
Proof.
  intros H. destruct (exists_last H) as [p [x E]]. eauto.
Qed.
Lemma bump_inj i a b : i <> [] -> bump a i = bump b i -> a = b.
Proof.
  intros H E. destruct (nonempty_snoc i H) as [p [x Ei]]. subst.
  rewrite !bump_snoc in E. apply app_inv_head in E. inversion E. lia.
Qed.
Lemma bump_add a b i : bump a (bump b i) = bump (a + b) i.
Proof.
  induction a as [|a IH]; [reflexivity|].
  change (bump (S a) (bump b i)) with (incr_last (bump a (bump b i))). rewrite IH. reflexivity.
Qed.
Lemma bump_nonempty n i : i <> [] -> bump n i <> [].
Proof.
  intros H. destruct (nonempty_snoc i H) as [p [x Ei]]. subst. rewrite bump_snoc.
  destruct p; discriminate.
Qed.
Lemma bump_length n i : length (bump n i) = length i.
Proof.
  destruct i as [|y i'] eqn:E.
  - induction n as [|n IHn]; [reflexivity|].
    change (bump (S n) []) with (incr_last (bump n [])).
    destruct (bump n []); [reflexivity|discriminate].
  - assert (i <> []) as H by (subst; discriminate). rewrite <- E.
    destruct (nonempty_snoc i H) as [p [x Ei]]. rewrite Ei, bump_snoc, !app_length. reflexivity.
Qed.

(* ------------------------------------------------------------------ well-formed out-of-order views *)
Fixpoint wf_ooo (v : view) : bool :=
  match v with
  | VText _ | VRawSync _ => true
  | VElem _ c => wf_ooo c
  | VTuple vs => (fix go (vs : list view) : bool :=
                    match vs with [] => true | v :: vs => wf_ooo v && go vs end) vs
  | VSuspend _ c => wf_ooo c
  | VBoundary _ fb c sm => wf_ooo fb && wf_ooo c && (sm || is_nil (futures_of fb))
  | VAppend c => wf_ooo c
  | VRawAsync _ _ => false
  end.
Lemma wf_ooo_tuple v vs : wf_ooo (VTuple (v :: vs)) = wf_ooo v && wf_ooo (VTuple vs).
Proof. reflexivity. Qed.

Lemma text_html_plain s p : plain (text_html s p).
Proof.
  unfold text_html. apply plain_app; [destruct (after_text p); [apply plain_tb|apply plain_nil]|].
  apply plain_tb.
Qed.

Lemma to_html_plain d v : wf_ooo v = true -> forall p, plain (fst (to_html d v p)).
Proof.
  induction v using view_ind'; intros W p; try (cbn [wf_ooo] in W; discriminate).
  - cbn [to_html fst]. apply text_html_plain.
  - cbn [to_html]. specialize (IHv W FirstChild). destruct (to_html d v FirstChild). cbn [fst] in *.
    apply plain_app; [apply plain_tb|apply plain_app; [auto|apply plain_tb]].
  - destruct vs as [|v vs]; [cbn [to_html fst]; apply plain_tb|]. rewrite to_html_tuple.
    revert p W. induction H as [|w ws Hw Hws IH]; intros p W.
    + cbn [to_html_list fst]. apply plain_nil.
    + rewrite wf_ooo_tuple in W. apply andb_true_iff in W. destruct W as [W1 W2].
      cbn [to_html_list]. specialize (Hw W1 p). destruct (to_html d w p) as [h1 p1].
      specialize (IH p1). destruct ws as [|w' ws'].
      * cbn [to_html_list fst] in *. rewrite app_nil_r. exact Hw.
      * specialize (IH W2). destruct (to_html_list d (w' :: ws') p1). cbn [fst] in *.
        apply plain_app; auto.
  - cbn [to_html]. destruct (d f); [apply IHv; auto|apply plain_nil].
  - cbn [to_html]. cbn [wf_ooo] in W. apply andb_true_iff in W. destruct W as [W _].
    apply andb_true_iff in W. destruct W as [W1 _]. apply IHv1; auto.
  - cbn [to_html fst]. cbn [wf_ooo] in W. apply IHv; auto.
  - cbn [to_html fst]. apply plain_tb.
Qed.

Lemma resolved_plain v : wf_ooo v = true -> forall p, plain (fst (resolved v p)).
Proof.
  induction v using view_ind'; intros W p; try (cbn [wf_ooo] in W; discriminate).
  - cbn [resolved fst]. apply text_html_plain.
  - cbn [resolved]. specialize (IHv W FirstChild). destruct (resolved v FirstChild). cbn [fst] in *.
    apply plain_app; [apply plain_tb|apply plain_app; [auto|apply plain_tb]].
  - destruct vs as [|v vs]; [cbn [resolved fst]; apply plain_tb|]. rewrite resolved_tuple.
    revert p W. induction H as [|w ws Hw Hws IH]; intros p W.
    + cbn [resolved_list fst]. apply plain_nil.
    + rewrite wf_ooo_tuple in W. apply andb_true_iff in W. destruct W as [W1 W2].
      cbn [resolved_list]. specialize (Hw W1 p). destruct (resolved w p) as [h1 p1].
      specialize (IH p1). destruct ws as [|w' ws'].
      * cbn [resolved_list fst] in *. rewrite app_nil_r. exact Hw.
      * specialize (IH W2). destruct (resolved_list (w' :: ws') p1). cbn [fst] in *.
        apply plain_app; auto.
  - cbn [resolved]. apply IHv; auto.
  - cbn [resolved]. cbn [wf_ooo] in W. apply andb_true_iff in W. destruct W as [W _].
    apply andb_true_iff in W. destruct W as [W1 W2]. destruct sm; [apply IHv2|apply IHv1]; auto.
  - cbn [resolved fst]. cbn [wf_ooo] in W. apply IHv; auto.
  - cbn [resolved fst]. apply plain_tb.
Qed.

(** without futures, the synchronous render is the resolved render *)
Lemma to_html_nofut d v : futures_of v = [] -> forall p, to_html d v p = resolved v p.
Proof.
  induction v using view_ind'; intros Fv p; cbn [futures_of] in Fv; try discriminate; auto.
  - cbn [to_html resolved]. rewrite (IHv Fv). reflexivity.
  - destruct vs as [|v vs]; [reflexivity|]. rewrite to_html_tuple, resolved_tuple.
    revert p Fv. induction H as [|w ws Hw Hws IH]; intros p Fv; auto.
    cbn [flat_map] in Fv. apply app_eq_nil in Fv. destruct Fv as [F1 F2].
    cbn [to_html_list resolved_list]. rewrite (Hw F1 p). destruct (resolved w p) as [h1 p1].
    rewrite (IH p1 F2). reflexivity.
  - cbn [to_html resolved]. rewrite (IHv Fv). reflexivity.
Qed.

(* ------------------------------------------------------------------ what an out-of-order render produces *)
Notation vchunkT := (chunk clo oclo).
Definition cof (l : list (fid * oclo)) : list vchunkT := map (fun fk => COoo (fst fk) (snd fk)) l.

(** the final content of a closure whose region currently shows the fallback [F] *)
Definition fin (k : oclo) (F : html) : html :=
  match o_view k with Some c => fst (resolved c (o_pos k)) | None => F end.

Fixpoint env_of (ks : list (fid * oclo)) (rs : list (list N * html)) : env :=
  match ks, rs with
  | (f, k) :: ks, (i, F) :: rs => (i, fin k F) :: env_of ks rs
  | _, _ => []
  end.

Lemma lookup_app e1 e2 i :
  lookup (e1 ++ e2) i = match lookup e1 i with Some c => Some c | None => lookup e2 i end.
Proof. induction e1 as [|[j c] e1 IH]; simpl; auto. destruct (list_N_eqb i j); auto. Qed.

Section Spec.
(** [chk]: also track the content (needs the position hypotheses); otherwise structure only *)
Variable chk : bool.

Definition clo_ok (k : oclo) : Prop :=
  match o_view k with
  | Some c => wf_ooo c = true /\ (chk = true -> pf true true (fun _ => false) c (o_pos k) = true)
  | None => True
  end.

(** closures and regions, numbered by strictly increasing bumps of [i0] in (lo, hi] *)
Inductive numbered (i0 : list N) : nat -> nat -> list (fid * oclo) -> list (list N * html) -> Prop :=
| nb_nil lo hi : lo <= hi -> numbered i0 lo hi [] []
| nb_cons lo hi j f k F ks rs :
    lo < j -> o_id k = Some (bump j i0) -> clo_ok k -> plain F ->
    numbered i0 j hi ks rs ->
    numbered i0 lo hi ((f, k) :: ks) ((bump j i0, F) :: rs).

Lemma numbered_le i0 lo hi ks rs : numbered i0 lo hi ks rs -> lo <= hi.
Proof. induction 1; lia. Qed.
Lemma numbered_weaken i0 lo hi ks rs : numbered i0 lo hi ks rs ->
  forall lo' hi', lo' <= lo -> hi <= hi' -> numbered i0 lo' hi' ks rs.
Proof.
  induction 1; intros lo' hi' A B.
  - constructor. lia.
  - econstructor; eauto. lia.
Qed.
Lemma numbered_app i0 lo mid ks1 rs1 : numbered i0 lo mid ks1 rs1 ->
  forall hi ks2 rs2, numbered i0 mid hi ks2 rs2 -> numbered i0 lo hi (ks1 ++ ks2) (rs1 ++ rs2).
Proof.
  induction 1; intros hi' ks2 rs2 N2; simpl.
  - eapply numbered_weaken; eauto.
  - econstructor; eauto.
Qed.
Lemma numbered_shift i0 m lo hi ks rs : numbered (bump m i0) lo hi ks rs ->
  numbered i0 (lo + m) (hi + m) ks rs.
Proof.
  induction 1.
  - constructor. lia.
  - rewrite bump_add in *. econstructor; eauto. lia.
Qed.
Lemma numbered_len i0 lo hi ks rs : numbered i0 lo hi ks rs -> length ks = length rs.
Proof. induction 1; simpl; auto. Qed.
Lemma numbered_ids i0 lo hi ks rs : numbered i0 lo hi ks rs ->
  forall i, In i (rids rs) -> exists j, lo < j <= hi /\ i = bump j i0.
Proof.
  induction 1; intros i Hi; simpl in Hi; [contradiction|].
  destruct Hi as [Hi|Hi].
  - subst. exists j. pose proof (numbered_le _ _ _ _ _ H3). split; [lia|auto].
  - destruct (IHnumbered i Hi) as [j' [A B]]. exists j'. split; [lia|auto].
Qed.
Lemma numbered_nodup i0 lo hi ks rs : i0 <> [] -> numbered i0 lo hi ks rs -> NoDup (rids rs).
Proof.
  intros Hn. induction 1; simpl; constructor; auto.
  intros Hi. destruct (numbered_ids _ _ _ _ _ H3 _ Hi) as [j' [A B]].
  apply bump_inj in B; auto. lia.
Qed.

Lemma env_of_app ks1 rs1 ks2 rs2 : length ks1 = length rs1 ->
  env_of (ks1 ++ ks2) (rs1 ++ rs2) = env_of ks1 rs1 ++ env_of ks2 rs2.
Proof.
  revert rs1. induction ks1 as [|[f k] ks1 IH]; intros [|[i F] rs1] L; simpl in *; try discriminate; auto.
  rewrite IH; auto.
Qed.
Lemma env_of_lookup i0 lo hi ks rs : numbered i0 lo hi ks rs ->
  forall i, In i (rids rs) -> lookup (env_of ks rs) i <> None.
Proof.
  induction 1; intros i Hi; simpl in *; [contradiction|].
  destruct (list_N_eqb i (bump j i0)) eqn:E; [discriminate|].
  destruct Hi as [Hi|Hi]; [subst; rewrite list_N_eqb_refl in E; discriminate|auto].
Qed.
Lemma env_of_lookup_none i0 lo hi ks rs : numbered i0 lo hi ks rs ->
  forall i, ~ In i (rids rs) -> lookup (env_of ks rs) i = None.
Proof.
  induction 1; intros i Hi; simpl in *; auto.
  destruct (list_N_eqb i (bump j i0)) eqn:E.
  - apply list_N_eqb_eq in E. subst. exfalso. apply Hi. auto.
  - apply IHnumbered. intro. apply Hi. auto.
Qed.

(** filling two consecutive pieces with the union of their environments *)
Lemma fill_two i0 lo mid hi ks1 rs1 ks2 rs2 t1 t2 : i0 <> [] ->
  numbered i0 lo mid ks1 rs1 -> numbered i0 mid hi ks2 rs2 -> wfd t1 rs1 -> wfd t2 rs2 ->
  fill (env_of (ks1 ++ ks2) (rs1 ++ rs2)) None (t1 ++ t2)
  = fill (env_of ks1 rs1) None t1 ++ fill (env_of ks2 rs2) None t2.
Proof.
  intros Hn N1 N2 W1 W2. rewrite env_of_app by (eapply numbered_len; eauto).
  rewrite (fill_wfd_app _ t1 rs1 W1).
  - f_equal.
    + apply (fill_ext _ _ t1 rs1 W1). intros i Hi. rewrite lookup_app.
      pose proof (env_of_lookup _ _ _ _ _ N1 i Hi) as L.
      destruct (lookup (env_of ks1 rs1) i); [split; [reflexivity|discriminate]|congruence].
    + apply (fill_ext _ _ t2 rs2 W2). intros i Hi. rewrite lookup_app.
      assert (~ In i (rids rs1)) as Ni.
      { intros Hi1. destruct (numbered_ids _ _ _ _ _ N1 _ Hi1) as [j1 [A1 B1]].
        destruct (numbered_ids _ _ _ _ _ N2 _ Hi) as [j2 [A2 B2]]. subst.
        apply bump_inj in B2; auto. lia. }
      rewrite (env_of_lookup_none _ _ _ _ _ N1 i Ni).
      split; [reflexivity|apply (env_of_lookup _ _ _ _ _ N2 i Hi)].
  - intros i Hi. rewrite lookup_app. pose proof (env_of_lookup _ _ _ _ _ N1 i Hi) as L.
    destruct (lookup (env_of ks1 rs1) i); [discriminate|congruence].
Qed.

End Spec.

(* ------------------------------------------------------------------ the render specification *)
Notation vsb := (sb clo oclo).

Definition ospec (chk : bool) (d : fid -> bool) (v : view) (b : vsb) (i0 : list N)
  (p q : position) : Prop :=
  exists t ks rs hi,
    sync_buf (fst (render true d v b p)) = sync_buf b ++ t
    /\ chunks (fst (render true d v b p)) = chunks b ++ cof ks
    /\ bid (fst (render true d v b p)) = Some (bump hi i0)
    /\ wfd t rs /\ numbered chk i0 0 hi ks rs
    /\ (chk = true ->
        fill (env_of ks rs) None t = fst (resolved v q)
        /\ peq (snd (render true d v b p)) (snd (resolved v q))).

Lemma wcm_sync o (b : vsb) i : bid b = Some i ->
  sync_buf (write_chunk_marker o b) = sync_buf b ++ [if o then TOpen i else TClose i].
Proof. unfold write_chunk_marker. intros E. rewrite E. reflexivity. Qed.

Ltac sbg :=
  cbn [fst snd chunks sync_buf pending pending_ooo bid set_sync set_chunks set_pending set_pooo
       set_bid push_sync next_id clone_id push_ooo sb_new c_view c_ooo c_id c_pos o_view o_id o_pos].

Lemma next_id_bid (b : vsb) i : bid b = Some i -> bid (next_id b) = Some (bump 1 i).
Proof. intros E. cbn [next_id bid set_bid]. rewrite E. reflexivity. Qed.

Lemma split_last_snoc p x : split_last (p ++ [x]) = Some (p, x).
Proof.
  induction p as [|y p IH]; [reflexivity|]. simpl. rewrite IH.
  destruct (p ++ [x]) eqn:E; [destruct p; discriminate|reflexivity].
Qed.
Lemma merge_bump i hi : i <> [] -> merge_id (Some i) (Some (bump hi i)) = Some (bump hi i).
Proof.
  intros H. destruct (nonempty_snoc i H) as [p [x E]]. subst. rewrite bump_snoc.
  unfold merge_id. rewrite !split_last_snoc, list_N_eqb_refl. cbn [andb].
  destruct (x <? x + N.of_nat hi)%N eqn:El; [reflexivity|].
  apply N.ltb_ge in El. assert (hi = 0) by lia. subst hi. cbn. rewrite N.add_0_r. reflexivity.
Qed.

Lemma render_ooo_spec chk d v : wf_ooo v = true ->
  forall b i0 p q, bid b = Some i0 -> i0 <> [] -> peq p q ->
  (chk = true -> pf true false d v q = true) ->
  ospec chk d v b i0 p q.
Proof.
  induction v using view_ind'; intros W b i0 p q Eb Hn E PF; try (cbn [wf_ooo] in W; discriminate).
  - (* text *)
    exists (text_html s p), [], [], 0. cbn [render fst snd]. sb_simpl. cbn [cof map].
    rewrite app_nil_r.
    split; [reflexivity|split; [reflexivity|split; [exact Eb|split; [|split]]]].
    + apply wfd_plain, text_html_plain.
    + constructor. lia.
    + intros C. cbn [resolved fst snd env_of]. rewrite fill_plain by apply text_html_plain.
      split; [apply text_html_peq; auto|apply peq_refl].
  - (* element *)
    cbn [wf_ooo] in W.
    assert (plain (open_tag t)) as PO by (unfold open_tag; apply plain_tb).
    assert (plain (close_tag t)) as PC by (unfold close_tag; apply plain_tb).
    assert (chk = true -> pf true false d v FirstChild = true) as PF' by (intros C; apply (PF C)).
    destruct (IHv W (push_sync (open_tag t) b) i0 FirstChild FirstChild Eb Hn (peq_refl _) PF')
      as [t1 [ks [rs [hi [A1 [A2 [A3 [A4 [A5 A6]]]]]]]]].
    exists (open_tag t ++ t1 ++ close_tag t), ks, rs, hi. cbn [render].
    destruct (render true d v (push_sync (open_tag t) b) FirstChild) as [b1 p1]. cbn [fst snd] in *.
    sb_simpl. rewrite A1. sb_simpl. split; [rewrite <- !app_assoc; reflexivity|].
    split; [exact A2|split; [exact A3|split; [|split; [exact A5|]]]].
    + replace rs with ([] ++ rs ++ []) by (rewrite app_nil_r; reflexivity).
      apply wfd_app; [apply wfd_plain; auto|apply wfd_app; [auto|apply wfd_plain; auto]].
    + intros C. destruct (A6 C) as [B1 _]. cbn [resolved].
      destruct (resolved v FirstChild) as [h q1]. cbn [fst snd] in *. split; [|apply peq_refl].
      rewrite (fill_wfd_app _ (open_tag t) [] (wfd_plain _ PO)) by (intros i []).
      rewrite (fill_plain _ _ PO).
      rewrite (fill_wfd_app _ t1 rs A4) by (apply (env_of_lookup _ _ _ _ _ _ A5)).
      rewrite B1, (fill_plain _ _ PC). reflexivity.
  - (* tuple *)
    destruct vs as [|v vs].
    + exists marker, [], [], 0. cbn [render fst snd]. sb_simpl. cbn [cof map]. rewrite app_nil_r.
      split; [reflexivity|split; [reflexivity|split; [exact Eb|split; [|split]]]].
      * apply wfd_plain, plain_tb.
      * constructor. lia.
      * intros C. cbn [resolved fst snd env_of]. split; [apply fill_plain, plain_tb|apply peq_refl].
    + unfold ospec. rewrite render_tuple, resolved_tuple.
      assert (chk = true -> pf_list true false d (v :: vs) q = true) as PFl
        by (intros C; rewrite <- pf_tuple; apply (PF C)).
      clear PF. revert b i0 p q Eb Hn E PFl W.
      induction H as [|w ws Hw Hws IH]; intros b i0 p q Eb Hn E PFl W.
      * exists [], [], [], 0. cbn [render_list fst snd resolved_list cof map env_of].
        rewrite !app_nil_r.
        split; [reflexivity|split; [reflexivity|split; [exact Eb|split; [constructor|split]]]].
        -- constructor. lia.
        -- intros C. cbn [fill]. split; [reflexivity|exact E].
      * rewrite wf_ooo_tuple in W. apply andb_true_iff in W. destruct W as [W1 W2].
        assert (chk = true -> pf true false d w q = true) as PF1.
        { intros C. specialize (PFl C). cbn [pf_list] in PFl. apply andb_true_iff in PFl. tauto. }
        destruct (Hw W1 b i0 p q Eb Hn E PF1)
          as [t1 [ks1 [rs1 [h1 [A1 [A2 [A3 [A4 [A5 A6]]]]]]]]].
        cbn [render_list resolved_list].
        destruct (render true d w b p) as [b1 p1]. destruct (resolved w q) as [hq q1] eqn:Er.
        cbn [fst snd] in *.
        assert (bump h1 i0 <> []) as Hn1 by (apply bump_nonempty; auto).
        assert (chk = true -> peq p1 q1) as E1' by (intros C; apply (A6 C)).
        (* the position after [w] is only known to agree when [chk]; otherwise any equivalent
           position will do for the structure — use p1 itself *)
        destruct chk eqn:Echk.
        -- specialize (E1' eq_refl).
           assert (true = true -> pf_list true false d ws q1 = true) as PF2.
           { intros C. specialize (PFl C). cbn [pf_list] in PFl. rewrite Er in PFl. cbn [snd] in PFl.
             apply andb_true_iff in PFl. tauto. }
           destruct (IH b1 (bump h1 i0) p1 q1 A3 Hn1 E1' PF2 W2)
             as [t2 [ks2 [rs2 [h2 [B1 [B2 [B3 [B4 [B5 B6]]]]]]]]].
           exists (t1 ++ t2), (ks1 ++ ks2), (rs1 ++ rs2), (h2 + h1).
           destruct (render_list true d ws b1 p1) as [b2 p2].
           destruct (resolved_list ws q1) as [hq2 q2]. cbn [fst snd] in *.
           apply numbered_shift in B5. cbn [plus] in B5.
           split; [rewrite B1, A1, app_assoc; reflexivity|].
           split; [rewrite B2, A2; unfold cof; rewrite map_app, app_assoc; reflexivity|].
           split; [rewrite B3, bump_add; reflexivity|].
           split; [apply wfd_app; auto|].
           split; [eapply numbered_app; eauto|].
           intros _. destruct (A6 eq_refl) as [C1 C2]. destruct (B6 eq_refl) as [D1 D2].
           split; [|exact D2].
           rewrite (fill_two true i0 0 h1 (h2 + h1) ks1 rs1 ks2 rs2 t1 t2 Hn A5 B5 A4 B4).
           rewrite C1, D1. reflexivity.
        -- assert (false = true -> pf_list true false d ws p1 = true) as PF2 by discriminate.
           destruct (IH b1 (bump h1 i0) p1 p1 A3 Hn1 (peq_refl _) PF2 W2)
             as [t2 [ks2 [rs2 [h2 [B1 [B2 [B3 [B4 [B5 B6]]]]]]]]].
           exists (t1 ++ t2), (ks1 ++ ks2), (rs1 ++ rs2), (h2 + h1).
           destruct (render_list true d ws b1 p1) as [b2 p2].
           destruct (resolved_list ws q1) as [hq2 q2]. cbn [fst snd] in *.
           apply numbered_shift in B5. cbn [plus] in B5.
           split; [rewrite B1, A1, app_assoc; reflexivity|].
           split; [rewrite B2, A2; unfold cof; rewrite map_app, app_assoc; reflexivity|].
           split; [rewrite B3, bump_add; reflexivity|].
           split; [apply wfd_app; auto|].
           split; [eapply numbered_app; eauto|discriminate].
  - (* Suspend *)
    cbn [wf_ooo] in W. unfold ospec. cbn [render resolved]. destruct (d f) eqn:Ed.
    + assert (chk = true -> pf true false d v q = true) as PF'.
      { intros C. specialize (PF C). cbn [pf negb andb] in PF. rewrite Ed in PF. exact PF. }
      destruct (IHv W b i0 p q Eb Hn E PF') as [t [ks [rs [hi X]]]].
      exists t, ks, rs, hi. exact X.
    + set (i1 := bump 1 i0).
      set (k := {| o_id := Some i1; o_pos := p; o_view := Some v |}).
      exists (TOpen i1 :: marker ++ [TClose i1]), [(f, k)], [(i1, marker)], 1.
      assert (bid (next_id b) = Some i1) as Eb1 by (apply next_id_bid; auto).
      cbn [fst snd]. sbg.
      rewrite (wcm_sync false _ i1) by (sbg; rewrite wcm_bid; exact Eb1).
      sbg. rewrite (wcm_sync true _ i1 Eb1), wcm_chunks. sbg. rewrite wcm_chunks.
      sbg. rewrite wcm_bid. sbg. rewrite wcm_bid, Eb1.
      split; [rewrite <- !app_assoc; reflexivity|].
      split; [rewrite Eb; reflexivity|].
      split; [reflexivity|].
      split; [apply (wfd_reg i1 marker [] []); [unfold marker; apply plain_tb|constructor]|].
      split.
      * apply (nb_cons chk i0 0 1 1 f k marker [] []); auto.
        -- unfold clo_ok, k. cbn [o_view o_pos]. split; auto. intros C. specialize (PF C).
           cbn [pf negb andb] in PF. rewrite Ed in PF. apply andb_true_iff in PF.
           destruct PF as [_ PF]. rewrite (pf_peq true _ v true p q E).
           rewrite (pf_strict_d true _ d v q). exact PF.
        -- apply plain_tb.
        -- constructor. lia.
      * intros C. specialize (PF C). cbn [pf negb andb] in PF. rewrite Ed in PF.
        apply andb_true_iff in PF. destruct PF as [PF1 _]. apply eqb_prop in PF1.
        cbn [resolved env_of].
        assert (lookup [(i1, fin k marker)] i1 = Some (fst (resolved v p))) as L
          by (cbn [lookup]; rewrite list_N_eqb_refl; reflexivity).
        assert (plain marker) as PM by (unfold marker; apply plain_tb).
        change (TOpen i1 :: marker ++ [TClose i1]) with (TOpen i1 :: marker ++ TClose i1 :: []).
        rewrite (fill_region _ i1 marker _ [] L PM).
        cbn [fill]. rewrite app_nil_r. destruct (resolved_peq v p q E) as [R1 _].
        split; [exact R1|]. unfold peq in *. rewrite PF1. exact E.
  - (* Boundary *)
    cbn [wf_ooo] in W. apply andb_true_iff in W. destruct W as [W W3].
    apply andb_true_iff in W. destruct W as [W1 W2].
    unfold ospec. cbn [render]. set (x := if sm then v2 else v1).
    assert (bid (next_id b) = Some (bump 1 i0)) as Eb1 by (apply next_id_bid; auto).
    assert (bump 1 i0 <> []) as Hn1 by (apply bump_nonempty; auto).
    assert (resolved (VBoundary f v1 v2 sm) q = resolved x q) as Ex
      by (cbn [resolved]; destruct sm; reflexivity).
    destruct (d f) eqn:Ed.
    + assert (chk = true -> pf true false d x q = true) as PF'.
      { intros C. specialize (PF C). cbn [pf negb andb] in PF. rewrite Ed in PF. exact PF. }
      assert (wf_ooo x = true) as Wx by (unfold x; destruct sm; auto).
      assert (ospec chk d x (next_id b) (bump 1 i0) p q) as S
        by (unfold x in *; destruct sm; [apply IHv2|apply IHv1]; auto).
      destruct S as [t [ks [rs [hi [A1 [A2 [A3 [A4 [A5 A6]]]]]]]]].
      exists t, ks, rs, (hi + 1). rewrite Ex. fold x.
      split; [exact A1|split; [exact A2|split; [rewrite A3, bump_add; reflexivity|]]].
      split; [exact A4|split; [|exact A6]].
      apply numbered_shift in A5. eapply numbered_weaken; eauto. lia.
    + set (i1 := bump 1 i0).
      set (F := fst (to_html d v1 p)).
      set (k := {| o_id := Some i1; o_pos := p; o_view := if sm then Some v2 else None |}).
      assert (plain F) as PFb by (apply to_html_plain; auto).
      exists (TOpen i1 :: F ++ [TClose i1]), [(f, k)], [(i1, F)], 1.
      cbn [fst snd]. sbg.
      rewrite (wcm_sync false _ i1) by (sbg; rewrite wcm_bid; exact Eb1).
      sbg. rewrite (wcm_sync true _ i1 Eb1), wcm_chunks. sbg. rewrite wcm_chunks.
      sbg. rewrite wcm_bid. sbg. rewrite wcm_bid. fold i1 in Eb1. rewrite Eb1.
      split; [rewrite <- !app_assoc; reflexivity|].
      split; [rewrite Eb; reflexivity|].
      split; [reflexivity|].
      split; [apply (wfd_reg i1 F [] [] PFb wfd_nil)|].
      split.
      * apply (nb_cons chk i0 0 1 1 f k F [] []); auto.
        -- unfold clo_ok, k. cbn [o_view o_pos]. destruct sm; [|exact I]. split; auto.
           intros C. specialize (PF C). cbn [pf negb andb] in PF. rewrite Ed in PF.
           apply andb_true_iff in PF. destruct PF as [_ PF]. rewrite (pf_peq true _ v2 true p q E).
           rewrite (pf_strict_d true _ d v2 q). exact PF.
        -- constructor. lia.
      * intros C. specialize (PF C). cbn [pf negb andb] in PF. rewrite Ed in PF.
        apply andb_true_iff in PF. destruct PF as [PF1 _]. apply eqb_prop in PF1. fold x in PF1.
        rewrite Ex. cbn [env_of].
        assert (lookup [(i1, fin k F)] i1 = Some (fin k F)) as L
          by (cbn [lookup]; rewrite list_N_eqb_refl; reflexivity).
        change (TOpen i1 :: F ++ [TClose i1]) with (TOpen i1 :: F ++ TClose i1 :: []).
        rewrite (fill_region _ i1 F _ [] L PFb).
        cbn [fill]. rewrite app_nil_r.
        destruct (resolved_peq x p q E) as [R1 _].
        split; [|unfold peq in *; rewrite PF1; exact E].
        unfold fin, k. cbn [o_view o_pos]. unfold x in *. destruct sm; [exact R1|].
        cbn [orb] in W3. apply is_nil_true in W3. unfold F. rewrite (to_html_nofut d v1 W3 p).
        exact R1.
  - (* append: the ErrorBoundary call pattern *)
    cbn [wf_ooo] in W.
    assert (chk = true -> pf true false d v q = true) as PF' by (intros C; apply (PF C)).
    destruct (IHv W (sb_new (clone_id b)) i0 p q Eb Hn E PF')
      as [t [ks [rs [hi [A1 [A2 [A3 [A4 [A5 A6]]]]]]]]].
    exists t, ks, rs, hi. unfold ospec in *. cbn [render resolved].
    destruct (render true d v (sb_new (clone_id b)) p) as [nb p1]. cbn [fst snd] in *.
    cbn [sync_buf chunks sb_new app] in A1, A2.
    unfold append. rewrite A2.
    assert (existsb (fun c : vchunkT => match c with COoo _ _ => false | _ => true end) (cof ks) = false) as Ex.
    { clear. induction ks as [|[f k] ks IH]; simpl; auto. }
    rewrite Ex. sbg. rewrite A1, A3, Eb.
    split; [reflexivity|split; [reflexivity|split; [apply merge_bump; auto|
      split; [exact A4|split; [exact A5|]]]]].
    intros C. destruct (A6 C) as [B1 B2]. split; [exact B1|exact B2].
  - (* push_sync *)
    exists (tb s), [], [], 0. cbn [render fst snd]. sb_simpl. cbn [cof map]. rewrite app_nil_r.
    split; [reflexivity|split; [reflexivity|split; [exact Eb|split; [|split]]]].
    + apply wfd_plain, plain_tb.
    + constructor. lia.
    + intros C. cbn [resolved fst snd env_of]. split; [apply fill_plain, plain_tb|exact E].
Qed.

(* ------------------------------------------------------------------ ids: prefix order *)
Definition sprefix (i j : list N) : Prop := exists s, s <> [] /\ j = i ++ s.
Definition antichain (l : list (list N)) : Prop :=
  forall i j, In i l -> In j l -> ~ sprefix i j.

Lemma sprefix_irrefl i : ~ sprefix i i.
Proof.
  intros [s [Hs E]]. rewrite <- (app_nil_r i) in E at 1. apply app_inv_head in E. congruence.
Qed.
Lemma sprefix_trans i j k : sprefix i j -> sprefix j k -> sprefix i k.
Proof.
  intros [s [Hs E]] [s' [Hs' E']]. exists (s ++ s'). split.
  - destruct s; [congruence|discriminate].
  - rewrite E', E, app_assoc. reflexivity.
Qed.
Lemma sprefix_snoc i x : sprefix i (i ++ [x]).
Proof. exists [x]. split; [discriminate|reflexivity]. Qed.
(** a strict prefix of i ++ [x] is i or a strict prefix of i *)
Lemma sprefix_snoc_inv j i x : sprefix j (i ++ [x]) -> j = i \/ sprefix j i.
Proof.
  intros [s [Hs E]]. destruct (exists_last Hs) as [s' [y Es]]. subst s.
  rewrite app_assoc in E. apply app_inj_tail in E. destruct E as [E _]. subst i.
  destruct s' as [|z s']; [left; rewrite app_nil_r; reflexivity|].
  right. exists (z :: s'). split; [discriminate|reflexivity].
Qed.

(** the ids handed out while resolving the chunk with id [i]: i ++ [j], j >= 1 *)
Lemma child_id i j : bump j (i ++ [0%N]) = i ++ [N.of_nat j].
Proof. rewrite bump_snoc. reflexivity. Qed.

Lemma antichain_replace l i news :
  antichain l -> In i l ->
  (forall n, In n news -> exists x, n = i ++ [x]) ->
  forall l', (forall j, In j l' -> (In j l /\ j <> i) \/ In j news) ->
  antichain l'.
Proof.
  intros A Hi Hn l' Hl a b Ha Hb S.
  destruct (Hl a Ha) as [[Ha1 Ha2]|Ha1]; destruct (Hl b Hb) as [[Hb1 Hb2]|Hb1].
  - apply (A a b); auto.
  - destruct (Hn b Hb1) as [x E]. subst b. destruct (sprefix_snoc_inv _ _ _ S) as [E|E].
    + contradiction.
    + apply (A a i); auto.
  - destruct (Hn a Ha1) as [x E]. subst a. apply (A i b); auto.
    eapply sprefix_trans; [apply sprefix_snoc|exact S].
  - destruct (Hn a Ha1) as [x E]. destruct (Hn b Hb1) as [y E']. subst.
    destruct S as [s [Hs E]]. rewrite <- app_assoc in E. apply app_inv_head in E.
    destruct s as [|z s]; [congruence|]. simpl in E. inversion E.
Qed.

(* ------------------------------------------------------------------ the state invariant *)
Notation vochunk := (ooo_chunk clo oclo).

Definition ooo_of (c : list vchunkT) : list (fid * oclo) :=
  flat_map (fun x => match x with COoo f k => [(f, k)] | _ => [] end) c.
Definition Tb (b : vsb) : html := sync_buf b ++ concat (sync_payloads (chunks b)).
Definition Qb (b : vsb) : list (fid * oclo) := ooo_of (chunks b) ++ pending_ooo b.
Definition nocasync (c : list vchunkT) : Prop :=
  Forall (fun x => match x with CAsync _ _ => False | _ => True end) c.
Definition nosync (c : list vchunkT) : Prop := sync_payloads c = [].
Definition kid (fk : fid * oclo) : option (list N) := o_id (snd fk).

Lemma ooo_of_cof l : ooo_of (cof l) = l.
Proof. induction l as [|[f k] l IH]; simpl; auto. rewrite IH. reflexivity. Qed.
Lemma payloads_cof l : sync_payloads (cof l) = [].
Proof. induction l as [|[f k] l IH]; simpl; auto. Qed.
Lemma ooo_of_app a b : ooo_of (a ++ b) = ooo_of a ++ ooo_of b.
Proof. unfold ooo_of. apply flat_map_app. Qed.
Lemma payloads_app (a b : list vchunkT) : sync_payloads (a ++ b) = sync_payloads a ++ sync_payloads b.
Proof. unfold sync_payloads. apply flat_map_app. Qed.
Lemma cof_app a b : cof (a ++ b) = cof a ++ cof b.
Proof. unfold cof. apply map_app. Qed.
Lemma cof_rev a : rev (cof a) = cof (rev a).
Proof. unfold cof. rewrite map_rev. reflexivity. Qed.
Lemma non_sync_cof l : non_sync (cof l) = cof l.
Proof. induction l as [|[f k] l IH]; simpl; auto. rewrite IH. reflexivity. Qed.
Lemma nocasync_cof l : nocasync (cof l).
Proof. induction l as [|[f k] l IH]; constructor; auto; exact I. Qed.

Section Invariant.
Variable chk : bool.
Variable R : html.     (* the resolved document *)

(** closures of the state vs. regions of the document *)
Record Qok (Q : list (fid * oclo)) (rs : list (list N * html)) (e : env) : Prop := {
  q_clo : forall f k, In (f, k) Q ->
          exists i F, o_id k = Some i /\ In (i, F) rs /\ clo_ok chk k /\ lookup e i = Some (fin k F);
  q_reg : forall i F, In (i, F) rs -> exists f k, In (f, k) Q /\ o_id k = Some i;
  q_nodup : NoDup (map kid Q);
}.

Definition shapeA (b : vsb) : Prop :=
  exists l tail, chunks b = cof l ++ tail
                 /\ (tail = [] \/ exists s, tail = [CSync s] /\ sync_buf b = []).

Definition OInv (E : html) (b : vsb) : Prop :=
  pending b = None /\ nocasync (chunks b) /\
  exists D rs e,
    as_run ([], None) (E ++ Tb b) = Some (D, None)
    /\ wfd D rs /\ NoDup (rids rs) /\ antichain (rids rs) /\ (forall i, In i (rids rs) -> i <> [])
    /\ Qok (Qb b) rs e
    /\ (chk = true -> fill e None D = R)
    /\ ((E = [] /\ D = Tb b /\ shapeA b)
        \/ (nosync (chunks b)
            /\ forall f k i, In (f, k) (pending_ooo b) -> o_id k = Some i ->
               forall t, In t (sync_buf b) -> is_open i t = false)).

End Invariant.

(* ------------------------------------------------------------------ resolving one closure *)
Lemma push_last_cof ks t : push_to_last_sync (cof ks) t = cof ks ++ [CSync t].
Proof.
  induction ks as [|[f k] ks IH]; [reflexivity|].
  destruct ks as [|[f' k'] ks']; [reflexivity|].
  change (cof ((f, k) :: (f', k') :: ks')) with (COoo f k :: cof ((f', k') :: ks')).
  change (push_to_last_sync (COoo f k :: cof ((f', k') :: ks')) t)
    with (COoo f k :: push_to_last_sync (cof ((f', k') :: ks')) t).
  rewrite IH. reflexivity.
Qed.

(** what the future of an out-of-order chunk yields *)
Lemma res_oclo_spec chk d k i : o_id k = Some i -> i <> [] -> clo_ok chk k ->
  exists t ks rs hi,
    oid (res_oclo k d) = i
    /\ concat (rev (sync_payloads (ochunks (res_oclo k d)))) = t
    /\ non_sync (ochunks (res_oclo k d)) = cof ks
    /\ oreplace (res_oclo k d) = (match o_view k with Some _ => true | None => false end)
    /\ wfd t rs /\ numbered chk (i ++ [0%N]) 0 hi ks rs
    /\ (o_view k = None -> t = [] /\ ks = [] /\ rs = [])
    /\ (chk = true -> forall c, o_view k = Some c ->
          fill (env_of ks rs) None t = fst (resolved c (o_pos k))).
Proof.
  intros Ei Hn Ok. destruct k as [oi pos [c|]]; cbn [o_id o_pos o_view] in *; subst oi.
  - unfold clo_ok in Ok. cbn [o_view o_pos] in Ok. destruct Ok as [W PFs].
    assert (i ++ [0%N] <> []) as Hn' by (destruct i; discriminate).
    assert (chk = true -> pf true false d c pos = true) as PF'
      by (intros C; eapply pf_weaken; apply (PFs C)).
    destruct (render_ooo_spec chk d c W (sb_new (Some (i ++ [0%N]))) (i ++ [0%N]) pos pos
                eq_refl Hn' (peq_refl _) PF') as [t [ks [rs [hi [A1 [A2 [A3 [A4 [A5 A6]]]]]]]]].
    exists t, ks, rs, hi. unfold res_oclo. cbn [o_id o_pos o_view oid ochunks oreplace option_map].
    rewrite take_finish.
    set (b1 := fst (render true d c (sb_new (Some (i ++ [0%N]))) pos)) in *.
    cbn [sync_buf chunks sb_new app] in A1, A2.
    assert (chunks (finish b1) = if is_nil t then cof ks else cof ks ++ [CSync t]) as Ec.
    { unfold finish. rewrite A1. destruct (is_nil t) eqn:En; cbn [chunks set_sync set_chunks].
      - exact A2.
      - rewrite A2. apply push_last_cof. }
    rewrite Ec.
    split; [reflexivity|]. split.
    { destruct (is_nil t) eqn:En.
      - apply is_nil_true in En. rewrite payloads_cof, En. reflexivity.
      - rewrite payloads_app, payloads_cof. cbn. rewrite app_nil_r. reflexivity. }
    split.
    { destruct (is_nil t).
      - apply non_sync_cof.
      - unfold non_sync. rewrite filter_app. fold (non_sync (cof ks)). rewrite non_sync_cof.
        cbn. apply app_nil_r. }
    split; [reflexivity|]. split; [exact A4|]. split; [exact A5|]. split; [discriminate|].
    intros C c' Ec'. inversion Ec'; subst c'. apply (A6 C).
  - exists [], [], [], 0. unfold res_oclo. cbn [o_id o_pos o_view oid ochunks oreplace option_map].
    rewrite take_finish. cbn.
    repeat split; auto; try constructor; try lia. intros C c Ec. discriminate.
Qed.

(* ------------------------------------------------------------------ list helpers *)
Lemma nodup_app_iff {A} (a b : list A) :
  NoDup (a ++ b) <-> NoDup a /\ NoDup b /\ (forall x, In x a -> ~ In x b).
Proof.
  induction a as [|x a IH]; simpl.
  - split; [intros H; repeat split; auto; constructor|tauto].
  - split.
    + intros H. inversion H as [|? ? Hx Hn]; subst. apply IH in Hn. destruct Hn as [A1 [A2 A3]].
      rewrite in_app_iff in Hx. repeat split; auto.
      * constructor; auto.
      * intros y [Hy|Hy]; subst; auto.
    + intros [A1 [A2 A3]]. inversion A1 as [|? ? Hx Hn]; subst. constructor.
      * rewrite in_app_iff. intros [H|H]; auto. apply (A3 x); auto.
      * apply IH. repeat split; auto.
Qed.
Lemma nodup_map_some {A} (l : list A) : NoDup l -> NoDup (map (fun i => Some i) l).
Proof.
  induction 1; simpl; constructor; auto.
  intros Hx. apply in_map_iff in Hx. destruct Hx as [y [E Hy]]. inversion E; subst. auto.
Qed.
Lemma rids_app a b : rids (a ++ b) = rids a ++ rids b.
Proof. unfold rids. apply map_app. Qed.
Lemma rids_in i F rs : In (i, F) rs -> In i (rids rs).
Proof. intros H. unfold rids. apply in_map_iff. exists (i, F). auto. Qed.
Lemma rs_functional rs i F F' : NoDup (rids rs) -> In (i, F) rs -> In (i, F') rs -> F = F'.
Proof.
  induction rs as [|[j G] rs IH]; intros Nd H1 H2; simpl in *; [contradiction|].
  inversion Nd as [|? ? Hj Nd']; subst.
  destruct H1 as [H1|H1]; destruct H2 as [H2|H2].
  - congruence.
  - inversion H1; subst. exfalso. apply Hj. eapply rids_in; eauto.
  - inversion H2; subst. exfalso. apply Hj. eapply rids_in; eauto.
  - auto.
Qed.

Lemma numbered_clo chk i0 lo hi ks rs : i0 <> [] -> numbered chk i0 lo hi ks rs ->
  forall f k, In (f, k) ks ->
  exists j F, lo < j /\ o_id k = Some (bump j i0) /\ In (bump j i0, F) rs /\ clo_ok chk k
              /\ lookup (env_of ks rs) (bump j i0) = Some (fin k F).
Proof.
  intros Hn. induction 1; intros f0 k0 Hin; simpl in Hin; [contradiction|].
  destruct Hin as [Hin|Hin].
  - inversion Hin; subst. exists j, F. repeat split; auto.
    + left. reflexivity.
    + cbn [env_of lookup]. rewrite list_N_eqb_refl. reflexivity.
  - destruct (IHnumbered f0 k0 Hin) as [j' [F' [A [B [C [D E]]]]]].
    exists j', F'. repeat split; auto; try lia.
    + right. exact C.
    + cbn [env_of lookup]. rewrite list_N_eqb_neq; auto.
      intro X. apply bump_inj in X; auto. lia.
Qed.
Lemma numbered_reg chk i0 lo hi ks rs : numbered chk i0 lo hi ks rs ->
  forall i F, In (i, F) rs -> exists f k, In (f, k) ks /\ o_id k = Some i.
Proof.
  induction 1; intros i F0 Hin; simpl in Hin; [contradiction|].
  destruct Hin as [Hin|Hin].
  - inversion Hin; subst. exists f, k. split; [left; reflexivity|auto].
  - destruct (IHnumbered i F0 Hin) as [f' [k' [A B]]]. exists f', k'. split; [right; auto|auto].
Qed.
Lemma numbered_kids chk i0 lo hi ks rs : numbered chk i0 lo hi ks rs ->
  map kid ks = map (fun i => Some i) (rids rs).
Proof. induction 1; simpl; auto. unfold kid at 1. cbn [snd]. rewrite H0, IHnumbered. reflexivity. Qed.

(* ------------------------------------------------------------------ resolving a region of the document *)
Lemma qok_defined chk Q rs e : Qok chk Q rs e -> forall j, In j (rids rs) -> lookup e j <> None.
Proof.
  intros [Qc Qr _] j Hj. unfold rids in Hj. apply in_map_iff in Hj. destruct Hj as [[j' F] [E Hin]].
  simpl in E. subst j'. destruct (Qr j F Hin) as [f [k [Hk Ek]]].
  destruct (Qc f k Hk) as [i' [F' [A [B [C D]]]]]. rewrite Ek in A. inversion A; subst. congruence.
Qed.

Lemma resolve_step chk R d D rs e g k Q' i F A B ra rb :
  D = A ++ TOpen i :: F ++ TClose i :: B -> wfd A ra -> wfd B rb -> rs = ra ++ (i, F) :: rb ->
  plain F ->
  NoDup (rids rs) -> antichain (rids rs) -> (forall j, In j (rids rs) -> j <> []) ->
  Qok chk ((g, k) :: Q') rs e -> o_id k = Some i ->
  (chk = true -> fill e None D = R) ->
  exists t ks rsn e',
    oid (res_oclo k d) = i
    /\ concat (rev (sync_payloads (ochunks (res_oclo k d)))) = t
    /\ non_sync (ochunks (res_oclo k d)) = cof ks
    /\ wfd t rsn
    /\ (forall j, In j (rids rsn) -> exists x, j = i ++ [x])
    /\ (oreplace (res_oclo k d) = false -> t = [] /\ ks = [] /\ rsn = [])
    /\ let X := if oreplace (res_oclo k d) then t else F in
       wfd (A ++ X ++ B) (ra ++ rsn ++ rb)
       /\ NoDup (rids (ra ++ rsn ++ rb)) /\ antichain (rids (ra ++ rsn ++ rb))
       /\ (forall j, In j (rids (ra ++ rsn ++ rb)) -> j <> [])
       /\ Qok chk (ks ++ Q') (ra ++ rsn ++ rb) e'
       /\ (chk = true -> fill e' None (A ++ X ++ B) = R).
Proof.
  intros ED WA WB Ers PF Nd Ac Ne Qk Ek Fl.
  assert (In (i, F) rs) as Hin by (subst rs; apply in_app_iff; right; left; reflexivity).
  assert (i <> []) as Hni by (apply Ne; eapply rids_in; eauto).
  destruct Qk as [Qc Qr Qn].
  destruct (Qc g k (or_introl eq_refl)) as [i' [F' [E1 [E2 [Ok Lk]]]]].
  rewrite Ek in E1. inversion E1; subst i'. clear E1.
  assert (F' = F) by (eapply rs_functional; eauto). subst F'.
  destruct (res_oclo_spec chk d k i Ek Hni Ok) as [t [ks [rsn [hi [S1 [S2 [S3 [S4 [S5 [S6 [S7 S8]]]]]]]]]]].
  assert (i ++ [0%N] <> []) as Hn0 by (destruct i; discriminate).
  assert (forall j, In j (rids rsn) -> exists x, j = i ++ [x]) as Hnew.
  { intros j Hj. destruct (numbered_ids _ _ _ _ _ _ S6 j Hj) as [m [_ Em]]. subst j.
    rewrite child_id. eauto. }
  (* facts about the old index *)
  rewrite Ers in Nd. rewrite rids_app in Nd. cbn [rids map fst] in Nd.
  apply nodup_app_iff in Nd. destruct Nd as [Nda [Ndb' Ndab]].
  apply NoDup_cons_iff in Ndb'. destruct Ndb' as [Hib Ndb]. fold (rids rb) in Hib, Ndb.
  assert (~ In i (rids ra)) as Hia by (intros H; apply (Ndab i H); left; reflexivity).
  assert (forall j, In j (rids ra) \/ In j (rids rb) -> In j (rids rs) /\ j <> i) as Hold.
  { intros j Hj. rewrite Ers, rids_app, in_app_iff. cbn [rids map fst In]. split; [tauto|].
    intro; subst j. destruct Hj; contradiction. }
  assert (forall j, In j (rids rsn) -> ~ In j (rids ra) /\ ~ In j (rids rb)) as Hfresh.
  { intros j Hj. destruct (Hnew j Hj) as [x Ex]. subst j.
    split; intros H; (apply (Ac i (i ++ [x])); [eapply rids_in; eauto| |apply sprefix_snoc]);
      apply (proj1 (Hold (i ++ [x]) ltac:(auto))). }
  assert (NoDup (rids rsn)) as Ndn by (eapply numbered_nodup; eauto).
  exists t, ks, rsn, (env_of ks rsn ++ e).
  split; [exact S1|]. split; [exact S2|]. split; [exact S3|]. split; [exact S5|].
  split; [exact Hnew|].
  split. { rewrite S4. destruct (o_view k); [discriminate|]. intros _. apply S7. reflexivity. }
  cbv zeta.
  assert (wfd (if oreplace (res_oclo k d) then t else F) rsn) as WX.
  { rewrite S4. destruct (o_view k) eqn:Ev; [exact S5|].
    destruct (S7 eq_refl) as [_ [_ Z]]. subst rsn. apply wfd_plain; auto. }
  split. { apply wfd_app; [auto|apply wfd_app; auto]. }
  split.
  { rewrite !rids_app. apply nodup_app_iff. split; [auto|split].
    - apply nodup_app_iff. split; [auto|split; [auto|]]. intros x Hx.
      destruct (Hfresh x Hx); auto.
    - intros x Hx Hx'. apply in_app_iff in Hx'. destruct Hx' as [Hx'|Hx'].
      + destruct (Hfresh x Hx'); contradiction.
      + apply (Ndab x Hx). right. exact Hx'. }
  split.
  { apply (antichain_replace (rids rs) i (rids rsn)); auto.
    - eapply rids_in; eauto.
    - intros j Hj. rewrite !rids_app, !in_app_iff in Hj.
      destruct Hj as [Hj|[Hj|Hj]]; auto; left; apply Hold; auto. }
  split.
  { intros j Hj. rewrite !rids_app, !in_app_iff in Hj. destruct Hj as [Hj|[Hj|Hj]].
    - apply Ne. apply Hold; auto.
    - destruct (Hnew j Hj) as [x Ex]. subst j. destruct i; discriminate.
    - apply Ne. apply Hold; auto. }
  assert (forall j, In j (rids ra) \/ In j (rids rb) -> lookup (env_of ks rsn ++ e) j = lookup e j) as Lold.
  { intros j Hj. rewrite lookup_app.
    rewrite (env_of_lookup_none _ _ _ _ _ _ S6); auto.
    intros Hn. destruct (Hfresh j Hn). destruct Hj; contradiction. }
  split.
  { constructor.
    - intros f0 k0 Hin0. apply in_app_iff in Hin0. destruct Hin0 as [Hin0|Hin0].
      + destruct (numbered_clo _ _ _ _ _ _ Hn0 S6 f0 k0 Hin0) as [m [F0 [_ [B1 [B2 [B3 B4]]]]]].
        exists (bump m (i ++ [0%N])), F0. split; [auto|split; [|split; [auto|]]].
        * apply in_app_iff. right. apply in_app_iff. left. exact B2.
        * rewrite lookup_app, B4. reflexivity.
      + destruct (Qc f0 k0 (or_intror Hin0)) as [j [F0 [B1 [B2 [B3 B4]]]]].
        assert (j <> i) as Hji.
        { intro; subst j. cbn [map] in Qn. inversion Qn as [|? ? Hk _]; subst. apply Hk.
          apply in_map_iff. exists (f0, k0). split; [|auto]. unfold kid. cbn [snd]. congruence. }
        subst rs. apply in_app_iff in B2. cbn [In] in B2.
        assert (In (j, F0) ra \/ In (j, F0) rb) as B2'.
        { destruct B2 as [B2|[B2|B2]]; auto. inversion B2. congruence. }
        exists j, F0. split; [auto|split; [|split; [auto|]]].
        * rewrite !in_app_iff. tauto.
        * rewrite Lold; auto. destruct B2'; [left|right]; eapply rids_in; eauto.
    - intros j F0 Hj. rewrite !in_app_iff in Hj. destruct Hj as [Hj|[Hj|Hj]].
      + destruct (Qr j F0) as [f0 [k0 [C1 C2]]]; [subst rs; apply in_app_iff; auto|].
        destruct C1 as [C1|C1].
        * inversion C1; subst. rewrite Ek in C2. inversion C2; subst. exfalso. apply Hia.
          eapply rids_in; eauto.
        * exists f0, k0. split; [apply in_app_iff; auto|auto].
      + destruct (numbered_reg _ _ _ _ _ _ S6 j F0 Hj) as [f0 [k0 [C1 C2]]].
        exists f0, k0. split; [apply in_app_iff; auto|auto].
      + destruct (Qr j F0) as [f0 [k0 [C1 C2]]]; [subst rs; apply in_app_iff; right; right; auto|].
        destruct C1 as [C1|C1].
        * inversion C1; subst. rewrite Ek in C2. inversion C2; subst. exfalso. apply Hib.
          eapply rids_in; eauto.
        * exists f0, k0. split; [apply in_app_iff; auto|auto].
    - rewrite map_app. apply nodup_app_iff. split; [|split].
      + rewrite (numbered_kids _ _ _ _ _ _ S6). apply nodup_map_some; auto.
      + cbn [map] in Qn. inversion Qn; auto.
      + intros x Hx Hx'. rewrite (numbered_kids _ _ _ _ _ _ S6) in Hx.
        apply in_map_iff in Hx. destruct Hx as [j [Ej Hj]]. subst x.
        apply in_map_iff in Hx'. destruct Hx' as [[f0 k0] [E0 H0]]. unfold kid in E0. cbn [snd] in E0.
        destruct (Qc f0 k0 (or_intror H0)) as [j' [F0 [B1 [B2 _]]]].
        rewrite E0 in B1. inversion B1; subst j'.
        destruct (Hnew j Hj) as [x Ex]. subst j.
        apply (Ac i (i ++ [x])); [eapply rids_in; eauto|eapply rids_in; eauto|apply sprefix_snoc]. }
  intros C. specialize (Fl C). specialize (S8 C).
  assert (forall j, In j (rids rs) -> lookup e j <> None) as Ldef.
  { apply (qok_defined chk ((g, k) :: Q') rs e). constructor; auto. }
  rewrite ED in Fl.
  rewrite (fill_wfd_app e A ra WA) in Fl
    by (intros j Hj; apply Ldef; apply Hold; auto).
  rewrite (fill_region e i F (fin k F) B Lk PF) in Fl.
  rewrite (fill_wfd_app _ A ra WA)
    by (intros j Hj; rewrite Lold by auto; apply Ldef; apply Hold; auto).
  rewrite (fill_ext _ e A ra WA)
    by (intros j Hj; split; [apply Lold; auto|rewrite Lold by auto; apply Ldef; apply Hold; auto]).
  assert (fill (env_of ks rsn ++ e) None B = fill e None B) as FB.
  { apply (fill_ext _ e B rb WB). intros j Hj.
    split; [apply Lold; auto|rewrite Lold by auto; apply Ldef; apply Hold; auto]. }
  rewrite <- Fl. f_equal.
  rewrite S4. destruct (o_view k) as [c|] eqn:Ev.
  - rewrite (fill_wfd_app _ t rsn S5).
    + rewrite FB. f_equal. unfold fin. rewrite Ev. rewrite <- (S8 c eq_refl).
      apply (fill_ext _ _ t rsn S5). intros j Hj. rewrite lookup_app.
      pose proof (env_of_lookup _ _ _ _ _ _ S6 j Hj) as L.
      destruct (lookup (env_of ks rsn) j); [split; [reflexivity|discriminate]|congruence].
    + intros j Hj. rewrite lookup_app. pose proof (env_of_lookup _ _ _ _ _ _ S6 j Hj) as L.
      destruct (lookup (env_of ks rsn) j); [discriminate|congruence].
  - rewrite (fill_wfd_app _ F [] (wfd_plain _ PF)) by (intros j []).
    rewrite (fill_plain _ _ PF), FB. unfold fin. rewrite Ev. reflexivity.
Qed.

(* ------------------------------------------------------------------ the invariant is preserved by poll_next *)
From Coq Require Import Permutation.

Lemma qok_perm chk Q Q' rs e : Permutation Q Q' -> Qok chk Q rs e -> Qok chk Q' rs e.
Proof.
  intros P [Qc Qr Qn]. constructor.
  - intros f k H. apply (Qc f k). eapply Permutation_in; [apply Permutation_sym; exact P|exact H].
  - intros i F H. destruct (Qr i F H) as [f [k [A B]]]. exists f, k. split; auto.
    eapply Permutation_in; eauto.
  - eapply Permutation_NoDup; [apply Permutation_map; exact P|exact Qn].
Qed.

Lemma find_idx_some_in {T} (p : T -> bool) l n : find_idx p l = Some n -> exists x, In x l /\ p x = true.
Proof.
  revert n. induction l as [|y l IH]; intros n H; simpl in H; [discriminate|].
  destruct (p y) eqn:E.
  - exists y. split; [left; auto|auto].
  - destruct (find_idx p l) as [m|] eqn:Em; [|discriminate].
    destruct (IH m eq_refl) as [x [H1 H2]]. exists x. split; [right; auto|auto].
Qed.

Notation ostep := (step1 clo oclo res_clo res_oclo).
Notation oret := (ret1 clo oclo res_oclo).

Section Preserve.
Variable chk : bool.
Variable R : html.
Notation Inv := (OInv chk R).

(** the common part of the splice and template moves: the closure at the head of pending_ooo
    has its region in the document *)
Lemma head_region (b : vsb) g k rest D rs e :
  pending_ooo b = (g, k) :: rest -> chunks b = [] ->
  wfd D rs -> NoDup (rids rs) -> Qok chk (Qb b) rs e ->
  exists i F A B ra rb,
    o_id k = Some i /\ D = A ++ TOpen i :: F ++ TClose i :: B /\ wfd A ra /\ wfd B rb
    /\ rs = ra ++ (i, F) :: rb /\ ~ In i (rids ra) /\ ~ In i (rids rb) /\ plain F
    /\ Qok chk ((g, k) :: rest) rs e.
Proof.
  intros Ho Hc W Nd Qk. unfold Qb in Qk. rewrite Hc, Ho in Qk. cbn [ooo_of flat_map app] in Qk.
  destruct (q_clo _ _ _ _ Qk g k (or_introl eq_refl)) as [i [F [A1 [A2 _]]]].
  destruct (wfd_split D rs W i F A2 Nd) as [A [B [ra [rb [X1 [X2 [X3 [X4 [X5 [X6 X7]]]]]]]]]].
  exists i, F, A, B, ra, rb. repeat split; auto; apply Qk.
Qed.

Lemma oinv_step d E b b' : ostep d b b' -> Inv E b -> Inv E b'.
Proof.
  intros S [Hp [Hca [D [rs [e [Hrun [W [Nd [Ac [Ne [Qk [Fl Mode]]]]]]]]]]]].
  destruct S.
  - (* ready: impossible *) rewrite Hp in Hp0. discriminate.
  - (* sync *)
    destruct Mode as [[EE [ED [l [tail [Sc St]]]]]|[Ns _]].
    2:{ unfold nosync in Ns. rewrite Hc in Ns. discriminate. }
    rewrite Hc in Sc. destruct l as [|[f0 k0] l]; [|discriminate]. cbn [cof map app] in Sc.
    destruct St as [St|[s [St Sb]]]; [subst tail; discriminate|]. subst tail.
    injection St as Ev Er. subst s rest. rewrite Sb in Hco. cbn [app coalesce] in Hco.
    injection Hco as H1 H2 H3. subst buf rest' po.
    split; [exact Hp|]. split; [constructor|].
    assert (Tb (set_pooo (set_chunks (set_sync b v) []) (pending_ooo b)) = Tb b) as ET.
    { unfold Tb. sbg. rewrite Hc, Sb. cbn. rewrite !app_nil_r. reflexivity. }
    assert (Qb (set_pooo (set_chunks (set_sync b v) []) (pending_ooo b)) = Qb b) as EQ.
    { unfold Qb. sbg. rewrite Hc. reflexivity. }
    exists D, rs, e. rewrite ET, EQ.
    split; [exact Hrun|split; [exact W|split; [exact Nd|split; [exact Ac|split; [exact Ne|
      split; [exact Qk|split; [exact Fl|]]]]]]].
    left. split; [auto|split; [auto|]]. exists [], []. sbg. split; [reflexivity|left; reflexivity].
  - (* async: impossible *)
    rewrite Hc in Hca. inversion Hca as [|? ? X _]; subst. contradiction.
  - (* an out-of-order chunk moves to pending_ooo *)
    split; [exact Hp|]. split; [rewrite Hc in Hca; inversion Hca; auto|].
    assert (Tb (set_chunks (set_pooo b (pending_ooo b ++ [(g, k)])) rest) = Tb b) as ET.
    { unfold Tb. sbg. rewrite Hc. reflexivity. }
    exists D, rs, e. rewrite ET.
    split; [exact Hrun|split; [exact W|split; [exact Nd|split; [exact Ac|split; [exact Ne|
      split; [|split; [exact Fl|]]]]]]].
    + eapply qok_perm; [|exact Qk]. unfold Qb. sbg. rewrite Hc. cbn [ooo_of flat_map app].
      fold (ooo_of rest). rewrite app_assoc. apply Permutation_cons_append.
    + destruct Mode as [[EE [ED [l [tail [Sc St]]]]]|[Ns Ht]].
      * left. split; [auto|split; [auto|]].
        rewrite Hc in Sc. destruct l as [|[f0 k0] l].
        -- cbn [cof map app] in Sc. destruct St as [St|[s [St Sb]]]; subst tail; discriminate.
        -- cbn [cof map app] in Sc. inversion Sc. exists l, tail. sbg. split; [auto|exact St].
      * right. sbg. split.
        -- unfold nosync in *. rewrite Hc in Ns. exact Ns.
        -- intros f0 k0 i0 Hin Eo t Ht'. rewrite Hs in Ht'. contradiction.
  - (* splice in place *)
    destruct (head_region b g k rest D rs e Ho Hc W Nd Qk)
      as [i [F [A [B [ra [rb [Ei [ED [WA [WB [Ers [Nia [Nib [PF Qk']]]]]]]]]]]]]].
    destruct (resolve_step chk R d D rs e g k rest i F A B ra rb ED WA WB Ers PF Nd Ac Ne Qk' Ei Fl)
      as [t [ks [rsn [e' [S1 [S2 [S3 [S4 [S5 [S6 S7]]]]]]]]]].
    cbv zeta in S7. destruct S7 as [T1 [T2 [T3 [T4 [T5 T6]]]]].
    rewrite S1 in Hfo, Hfc.
    (* mode A: the marker is in the buffer *)
    destruct Mode as [[EE [EDT Sh]]|[Ns Ht]].
    2:{ exfalso. destruct (find_idx_some_in _ _ _ Hfo) as [x [Hx Px]].
        assert (In (g, k) (pending_ooo b)) as Hg by (rewrite Ho; left; reflexivity).
        rewrite (Ht g k i Hg Ei x Hx) in Px. discriminate. }
    assert (Tb b = sync_buf b) as ETb by (unfold Tb; rewrite Hc; cbn; apply app_nil_r).
    rewrite ETb in EDT. rewrite <- EDT, ED in Hfo, Hfc.
    destruct (region_found A ra B rb i F B WA Nia PF) as [F1 [F2 _]].
    rewrite F1 in Hfo. rewrite F2 in Hfc. inversion Hfo; subst start. inversion Hfc; subst e0.
    clear Hfo Hfc.
    assert (firstn (length A) (sync_buf b) = A) as X1
      by (rewrite <- EDT, ED; apply firstn_app_exact).
    assert (skipn (S (length A + S (length F))) (sync_buf b) = B) as X2.
    { rewrite <- EDT, ED.
      replace (A ++ TOpen i :: F ++ TClose i :: B) with ((A ++ TOpen i :: F ++ [TClose i]) ++ B)
        by (rewrite <- !app_assoc; simpl; rewrite <- app_assoc; reflexivity).
      replace (S (length A + S (length F))) with (length (A ++ TOpen i :: F ++ [TClose i]))
        by (rewrite !app_length; simpl; rewrite app_length; simpl; lia).
      apply skipn_app_exact. }
    assert (firstn (length A + S (length F) - S (length A)) (skipn (S (length A)) (sync_buf b)) = F) as X3.
    { rewrite <- EDT, ED.
      replace (A ++ TOpen i :: F ++ TClose i :: B) with ((A ++ [TOpen i]) ++ F ++ TClose i :: B)
        by (rewrite <- app_assoc; reflexivity).
      replace (S (length A)) with (length (A ++ [TOpen i])) by (rewrite app_length; simpl; lia).
      rewrite skipn_app_exact.
      replace (length A + S (length F) - length (A ++ [TOpen i])) with (length F)
        by (rewrite app_length; simpl; lia).
      apply firstn_app_exact. }
    rewrite X1, X2, X3, S2, S3, app_nil_r, cof_rev.
    set (X := if oreplace (res_oclo k d) then t else F) in *.
    assert ((if oreplace (res_oclo k d) then [] else F) ++ t = X) as EX.
    { unfold X. destruct (oreplace (res_oclo k d)) eqn:Er; [reflexivity|].
      destruct (S6 eq_refl) as [Z _]. rewrite Z. apply app_nil_r. }
    replace ((if oreplace (res_oclo k d) then [] else F) ++ t ++ B) with (X ++ B)
      by (rewrite <- EX, <- app_assoc; reflexivity).
    set (b1 := set_chunks (set_sync (set_pooo b rest) (A ++ X ++ B)) (cof (rev ks))).
    assert (Tb b1 = A ++ X ++ B) as ET1
      by (unfold Tb, b1; sbg; rewrite payloads_cof; cbn; apply app_nil_r).
    split; [exact Hp|]. split; [apply nocasync_cof|].
    exists (A ++ X ++ B), (ra ++ rsn ++ rb), e'. rewrite ET1, EE. cbn [app].
    split; [rewrite as_run_notpl by (eapply wfd_notpl; eauto); reflexivity|].
    split; [exact T1|split; [exact T2|split; [exact T3|split; [exact T4|split; [|split; [exact T6|]]]]]].
    + eapply qok_perm; [|exact T5]. unfold Qb, b1. sbg. rewrite ooo_of_cof.
      apply Permutation_app_tail. apply Permutation_rev.
    + left. split; [reflexivity|split; [reflexivity|]]. exists (rev ks), []. unfold b1. sbg.
      split; [rewrite app_nil_r; reflexivity|left; reflexivity].
  - (* template + script *)
    destruct (head_region b g k rest D rs e Ho Hc W Nd Qk)
      as [i [F [A [B [ra [rb [Ei [ED [WA [WB [Ers [Nia [Nib [PF Qk']]]]]]]]]]]]]].
    destruct (resolve_step chk R d D rs e g k rest i F A B ra rb ED WA WB Ers PF Nd Ac Ne Qk' Ei Fl)
      as [t [ks [rsn [e' [S1 [S2 [S3 [S4 [S5 [S6 S7]]]]]]]]]].
    cbv zeta in S7. destruct S7 as [T1 [T2 [T3 [T4 [T5 T6]]]]].
    rewrite S1 in *.
    assert (Tb b = sync_buf b) as ETb by (unfold Tb; rewrite Hc; cbn; apply app_nil_r).
    destruct Mode as [[EE [EDT Sh]]|[Ns Ht]].
    { (* mode A is impossible: the marker would have been found *)
      exfalso. rewrite ETb in EDT. rewrite <- EDT, ED in Hfo.
      destruct (region_found A ra B rb i F B WA Nia PF) as [F1 _]. congruence. }
    rewrite S2, S3, app_nil_r.
    set (b1 := set_chunks (set_sync (set_pooo b rest)
                  (sync_buf b ++ [TTplS i] ++ t ++ [TTplE i (oreplace (res_oclo k d))])) (cof ks)).
    assert (Tb b1 = sync_buf b ++ TTplS i :: t ++ [TTplE i (oreplace (res_oclo k d))]) as ET1
      by (unfold Tb, b1; sbg; rewrite payloads_cof; cbn; apply app_nil_r).
    split; [exact Hp|]. split; [apply nocasync_cof|].
    set (X := if oreplace (res_oclo k d) then t else F) in *.
    exists (A ++ X ++ B), (ra ++ rsn ++ rb), e'. rewrite ET1.
    split.
    { rewrite ETb in Hrun. rewrite app_assoc, as_run_app, Hrun.
      rewrite as_run_block by (eapply wfd_notpl; eauto).
      rewrite ED, (apply_ooo_region A ra B rb i F t _ WA WB Nia Nib PF).
      unfold X. destruct (oreplace (res_oclo k d)); reflexivity. }
    split; [exact T1|split; [exact T2|split; [exact T3|split; [exact T4|split; [|split; [exact T6|]]]]]].
    + unfold Qb, b1. sbg. rewrite ooo_of_cof. exact T5.
    + right. unfold b1. sbg. split; [apply payloads_cof|].
      intros f0 k0 i0 Hin Eo x Hx. rewrite !in_app_iff in Hx. cbn [In] in Hx.
      destruct Hx as [Hx|[[Hx|[]]|[Hx|[Hx|[]]]]].
      * apply (Ht f0 k0 i0); auto. rewrite Ho. right. exact Hin.
      * subst x. reflexivity.
      * (* a marker inside the template content belongs to a new closure *)
        destruct (is_open i0 x) eqn:Eo'; [|reflexivity]. exfalso.
        destruct x; simpl in Eo'; try discriminate. apply list_N_eqb_eq in Eo'. subst i1.
        (* i0 is the id of an old closure: it is in rs, different from i; new ids are fresh *)
        destruct (q_clo _ _ _ _ Qk' f0 k0 (or_intror Hin)) as [j [F0 [B1 [B2 _]]]].
        rewrite Eo in B1. inversion B1; subst j.
        assert (~ In i0 (rids rsn)) as Nn.
        { intros Hn. destruct (S5 i0 Hn) as [y Ey]. subst i0.
          apply (Ac i (i ++ [y])); [subst rs; rewrite rids_app, in_app_iff; right; left; reflexivity
                                   |eapply rids_in; eauto|apply sprefix_snoc]. }
        pose proof (wfd_no_open t rsn i0 S4 Nn (TOpen i0) Hx) as Z. simpl in Z.
        rewrite list_N_eqb_refl in Z. discriminate.
      * subst x. reflexivity.
Qed.

End Preserve.

Section Preserve2.
Variable chk : bool.
Variable R : html.
Notation Inv := (OInv chk R).

Lemma oinv_ret d E b x : oret d b x -> Inv E b ->
  fst (fst x) <> PPanic /\ Inv (E ++ out (fst (fst x))) (snd (fst x)).
Proof.
  intros S [Hp [Hca [D [rs [e [Hrun [W [Nd [Ac [Ne [Qk [Fl Mode]]]]]]]]]]]].
  destruct S; cbn [fst snd out].
  - rewrite Hp in Hp0. discriminate.
  - rewrite Hc in Hca. inversion Hca as [|? ? X _]; subst. contradiction.
  - (* flush before an out-of-order chunk *)
    split; [discriminate|].
    set (b1 := set_sync (set_chunks (set_pooo b (pending_ooo b ++ [(g, k)])) rest) []).
    assert (Tb b = sync_buf b ++ Tb b1) as ET by (unfold Tb, b1; sbg; rewrite Hc; reflexivity).
    split; [exact Hp|]. split; [rewrite Hc in Hca; inversion Hca; auto|].
    exists D, rs, e. rewrite <- app_assoc, <- ET.
    split; [exact Hrun|split; [exact W|split; [exact Nd|split; [exact Ac|split; [exact Ne|
      split; [|split; [exact Fl|]]]]]]].
    + eapply qok_perm; [|exact Qk]. unfold Qb, b1. sbg. rewrite Hc. cbn [ooo_of flat_map app].
      fold (ooo_of rest). rewrite app_assoc. apply Permutation_cons_append.
    + right. unfold b1. sbg. split; [|intros f0 k0 i0 _ _ t []].
      destruct Mode as [[EE [ED [l [tail [Sc St]]]]]|[Ns _]].
      * destruct St as [St|[s [St Sb]]]; [|congruence]. subst tail. rewrite app_nil_r in Sc.
        rewrite Hc in Sc. destruct l as [|[f0 k0] l]; [discriminate|]. cbn [cof map] in Sc.
        inversion Sc. unfold nosync. apply payloads_cof.
      * unfold nosync in *. rewrite Hc in Ns. exact Ns.
  - (* rotation, Pending *)
    split; [discriminate|]. rewrite app_nil_r.
    set (b1 := set_pooo b (rest ++ [(g, k)])).
    assert (Tb b1 = Tb b) as ET by reflexivity.
    split; [exact Hp|]. split; [exact Hca|].
    exists D, rs, e. rewrite ET.
    split; [exact Hrun|split; [exact W|split; [exact Nd|split; [exact Ac|split; [exact Ne|
      split; [|split; [exact Fl|]]]]]]].
    + eapply qok_perm; [|exact Qk]. unfold Qb, b1. sbg. rewrite Ho.
      apply Permutation_app_head. apply Permutation_cons_append.
    + destruct Mode as [[EE [ED [l [tail [Sc St]]]]]|[Ns Ht]].
      * left. split; [auto|split; [auto|]]. exists l, tail. unfold b1. sbg. auto.
      * right. unfold b1. sbg. split; [auto|]. intros f0 k0 i0 _ _ t Ht'. rewrite Hs in Ht'.
        contradiction.
  - (* rotation, flush *)
    split; [discriminate|].
    set (b1 := set_sync (set_pooo b (rest ++ [(g, k)])) []).
    assert (Tb b = sync_buf b ++ Tb b1) as ET by (unfold Tb, b1; sbg; rewrite Hc; reflexivity).
    split; [exact Hp|]. split; [exact Hca|].
    exists D, rs, e. rewrite <- app_assoc, <- ET.
    split; [exact Hrun|split; [exact W|split; [exact Nd|split; [exact Ac|split; [exact Ne|
      split; [|split; [exact Fl|]]]]]]].
    + eapply qok_perm; [|exact Qk]. unfold Qb, b1. sbg. rewrite Ho.
      apply Permutation_app_head. apply Permutation_cons_append.
    + right. unfold b1. sbg. split; [unfold nosync; rewrite Hc; reflexivity|].
      intros f0 k0 i0 _ _ t [].
  - (* None *)
    split; [discriminate|]. rewrite app_nil_r.
    split; [exact Hp|]. split; [exact Hca|]. exists D, rs, e.
    split; [exact Hrun|split; [exact W|split; [exact Nd|split; [exact Ac|split; [exact Ne|
      split; [exact Qk|split; [exact Fl|exact Mode]]]]]]].
  - (* last flush *)
    split; [discriminate|].
    set (b1 := set_sync b []).
    assert (Tb b = sync_buf b ++ Tb b1) as ET by (unfold Tb, b1; sbg; rewrite Hc; reflexivity).
    split; [exact Hp|]. split; [exact Hca|].
    exists D, rs, e. rewrite <- app_assoc, <- ET.
    split; [exact Hrun|split; [exact W|split; [exact Nd|split; [exact Ac|split; [exact Ne|
      split; [exact Qk|split; [exact Fl|]]]]]]].
    right. unfold b1. sbg. split; [unfold nosync; rewrite Hc; reflexivity|].
    intros f0 k0 i0 Hin. rewrite Ho in Hin. contradiction.
  - (* unwrap of a missing closing marker: impossible *)
    exfalso.
    destruct (head_region chk b g k rest D rs e Ho Hc W Nd Qk)
      as [i [F [A [B [ra [rb [Ei [ED [WA [WB [Ers [Nia [Nib [PF Qk']]]]]]]]]]]]]].
    assert (oid (res_oclo k d) = i) as S1 by (unfold res_oclo; cbn [oid]; rewrite Ei; reflexivity).
    rewrite S1 in *.
    assert (Tb b = sync_buf b) as ETb by (unfold Tb; rewrite Hc; cbn; apply app_nil_r).
    destruct Mode as [[EE [EDT Sh]]|[Ns Ht]].
    + rewrite ETb in EDT. rewrite <- EDT, ED in Hfc.
      destruct (region_found A ra B rb i F B WA Nia PF) as [_ [F2 _]]. congruence.
    + destruct (find_idx_some_in _ _ _ Hfo) as [x [Hx Px]].
      assert (In (g, k) (pending_ooo b)) as Hg by (rewrite Ho; left; reflexivity).
      rewrite (Ht g k i Hg Ei x Hx) in Px. discriminate.
  - (* closing marker before the opening one: impossible *)
    exfalso.
    destruct (head_region chk b g k rest D rs e Ho Hc W Nd Qk)
      as [i [F [A [B [ra [rb [Ei [ED [WA [WB [Ers [Nia [Nib [PF Qk']]]]]]]]]]]]]].
    assert (oid (res_oclo k d) = i) as S1 by (unfold res_oclo; cbn [oid]; rewrite Ei; reflexivity).
    rewrite S1 in *.
    assert (Tb b = sync_buf b) as ETb by (unfold Tb; rewrite Hc; cbn; apply app_nil_r).
    destruct Mode as [[EE [EDT Sh]]|[Ns Ht]].
    + rewrite ETb in EDT. rewrite <- EDT, ED in Hfo, Hfc.
      destruct (region_found A ra B rb i F B WA Nia PF) as [F1 [F2 _]].
      rewrite F1 in Hfo. rewrite F2 in Hfc. inversion Hfo; subst. inversion Hfc; subst.
      apply Nat.ltb_lt in Hlt. lia.
    + destruct (find_idx_some_in _ _ _ Hfo) as [x [Hx Px]].
      assert (In (g, k) (pending_ooo b)) as Hg by (rewrite Ho; left; reflexivity).
      rewrite (Ht g k i Hg Ei x Hx) in Px. discriminate.
Qed.

(** poll_next preserves the invariant, with the emitted chunk appended to the ghost stream *)
Lemma oinv_poll : forall fuel d b E, Inv E b ->
  let x := vpoll fuel d b in
  fst (fst x) <> PPanic /\ Inv (E ++ out (fst (fst x))) (snd (fst x)).
Proof.
  intros fuel d b.
  apply (poll_ind_gen clo oclo res_clo res_oclo d (fun b x => forall E, Inv E b ->
    fst (fst x) <> PPanic /\ Inv (E ++ out (fst (fst x))) (snd (fst x)))).
  - intros b0 x S E I. apply (oinv_ret d E b0 x S I).
  - intros b0 b1 x S IH E I. apply IH. eapply oinv_step; eauto.
  - intros b0 E I. cbn [fst snd out]. rewrite app_nil_r. split; [discriminate|exact I].
Qed.

End Preserve2.

(* ------------------------------------------------------------------ the initial state *)
From LV Require Import Base.Sexp Html.StreamRun.
Local Open Scope nat_scope.

Lemma ooo_of_app_sync l t : ooo_of (cof l ++ [CSync t]) = l.
Proof. rewrite ooo_of_app, ooo_of_cof. cbn. apply app_nil_r. Qed.

Lemma sprefix_length i j : sprefix i j -> length i < length j.
Proof.
  intros [s [Hs E]]. subst j. rewrite app_length. destruct s; [congruence|simpl; lia].
Qed.

Lemma oinv_init chk d v : wf_ooo v = true ->
  (chk = true -> pf true false d v FirstChild = true) ->
  OInv chk (fst (resolved v FirstChild)) [] (stream_of true d v).
Proof.
  intros W PF. unfold stream_of.
  set (b0 := sb_new (Some [0%N]) : vsb).
  assert ([0%N] <> []) as Hn by discriminate.
  destruct (render_ooo_spec chk d v W b0 [0%N] FirstChild FirstChild eq_refl Hn (peq_refl _) PF)
    as [t [ks [rs [hi [A1 [A2 [A3 [A4 [A5 A6]]]]]]]]].
  pose proof (render_keeps true d v b0 FirstChild) as [Kp Ko].
  set (b1 := fst (render true d v b0 FirstChild)) in *.
  cbn [sync_buf chunks b0 sb_new app] in A1, A2.
  assert (pending (finish b1) = None) as Ep
    by (unfold finish; destruct (is_nil _); cbn [pending set_sync set_chunks]; rewrite Kp; reflexivity).
  assert (pending_ooo (finish b1) = []) as Eo
    by (unfold finish; destruct (is_nil _); cbn [pending_ooo set_sync set_chunks]; rewrite Ko; reflexivity).
  assert (chunks (finish b1) = if is_nil t then cof ks else cof ks ++ [CSync t]) as Ec.
  { unfold finish. rewrite A1. destruct (is_nil t) eqn:En; cbn [chunks set_sync set_chunks].
    - exact A2.
    - rewrite A2. apply push_last_cof. }
  assert (Tb (finish b1) = t) as ET.
  { unfold Tb. rewrite finish_sync, Ec. destruct (is_nil t) eqn:En.
    - apply is_nil_true in En. rewrite payloads_cof, En. reflexivity.
    - rewrite payloads_app, payloads_cof. cbn. apply app_nil_r. }
  assert (Qb (finish b1) = ks) as EQ.
  { unfold Qb. rewrite Eo, Ec, app_nil_r. destruct (is_nil t); [apply ooo_of_cof|apply ooo_of_app_sync]. }
  split; [exact Ep|]. split.
  { rewrite Ec. destruct (is_nil t); [apply nocasync_cof|].
    apply Forall_app. split; [apply nocasync_cof|constructor; [exact I|constructor]]. }
  exists t, rs, (env_of ks rs). rewrite ET, EQ. cbn [app].
  split; [rewrite as_run_notpl by (eapply wfd_notpl; eauto); reflexivity|].
  split; [exact A4|]. split; [eapply numbered_nodup; eauto|].
  split.
  { intros i j Hi Hj S. apply sprefix_length in S.
    destruct (numbered_ids _ _ _ _ _ _ A5 i Hi) as [a [_ Ea]].
    destruct (numbered_ids _ _ _ _ _ _ A5 j Hj) as [c [_ Ec']]. subst.
    rewrite !bump_length in S. lia. }
  split.
  { intros i Hi. destruct (numbered_ids _ _ _ _ _ _ A5 i Hi) as [a [_ Ea]]. subst.
    apply bump_nonempty. exact Hn. }
  split.
  { constructor.
    - intros f k Hin. destruct (numbered_clo _ _ _ _ _ _ Hn A5 f k Hin) as [j [F [_ [B1 [B2 [B3 B4]]]]]].
      exists (bump j [0%N]), F. auto.
    - apply (numbered_reg _ _ _ _ _ _ A5).
    - rewrite (numbered_kids _ _ _ _ _ _ A5). apply nodup_map_some. eapply numbered_nodup; eauto. }
  split; [intros C; apply (A6 C)|].
  left. split; [reflexivity|split; [reflexivity|]].
  destruct (is_nil t) eqn:En.
  - exists ks, []. rewrite Ec, app_nil_r. auto.
  - exists ks, [CSync t]. rewrite Ec. split; [reflexivity|]. right. exists t. split; [reflexivity|].
    apply finish_sync.
Qed.

(* ------------------------------------------------------------------ the end of the stream *)
Lemma oinv_done chk R E (b : vsb) :
  OInv chk R E b -> chunks b = [] -> pending_ooo b = [] -> sync_buf b = [] ->
  exists D, as_run ([], None) E = Some (D, None) /\ plain D /\ (chk = true -> D = R).
Proof.
  intros [Hp [Hca [D [rs [e [Hrun [W [Nd [Ac [Ne [Qk [Fl Mode]]]]]]]]]]]] Hc Ho Hs.
  assert (Tb b = []) as ET by (unfold Tb; rewrite Hc, Hs; reflexivity).
  assert (rs = []) as Ers.
  { destruct rs as [|[i F] rs]; auto. destruct (q_reg _ _ _ _ Qk i F (or_introl eq_refl)) as [f [k [Hin _]]].
    unfold Qb in Hin. rewrite Hc, Ho in Hin. destruct Hin. }
  subst rs. rewrite ET, app_nil_r in Hrun.
  assert (plain D) as PD.
  { clear -W. remember [] as rs0 eqn:Er. induction W as [|x l rs0 W IH|].
    - constructor.
    - constructor; [exact I|apply IH; exact Er].
    - discriminate. }
  exists D. split; [exact Hrun|split; [exact PD|]].
  intros C. rewrite <- (Fl C). symmetry. apply fill_plain. exact PD.
Qed.

(** an exhausted stream: nothing buffered, queued or pending *)
Definition exhausted (b : vsb) : Prop :=
  chunks b = [] /\ pending b = None /\ pending_ooo b = [] /\ sync_buf b = [].

Lemma poll_none_exhausted : forall fuel d (b : vsb),
  fst (fst (vpoll fuel d b)) = PNone -> exhausted (snd (fst (vpoll fuel d b))).
Proof.
  intros fuel d b.
  apply (poll_ind_gen clo oclo res_clo res_oclo d (fun b x =>
    fst (fst x) = PNone -> exhausted (snd (fst x)))).
  - intros b0 x S E. destruct S; cbn [fst snd] in *; try discriminate. unfold exhausted. auto.
  - intros b0 b1 x S IH. exact IH.
  - intros b0 E. discriminate.
Qed.

Lemma poll_exhausted fuel d (b : vsb) : exhausted b -> vpoll (S fuel) d b = (PNone, b, None).
Proof.
  intros [Hc [Hp [Ho Hs]]]. cbn [vpoll poll_next]. rewrite Hp, Hc, Ho, Hs. reflexivity.
Qed.

(* ------------------------------------------------------------------ runs of the out-of-order stream *)
Notation vrs := (run_state clo oclo).
Notation vspoll := (step_poll clo oclo res_clo res_oclo).

Section OooRuns.
Variable chk : bool.
Variable R : html.
Notation Inv := (OInv chk R).

Definition eok (s : vrs) : Prop := rs_ended s = true -> exhausted (rs_sb s).

Lemma spoll_oinv fuel s E : Inv E (rs_sb s) -> eok s ->
  Inv (E ++ somes [obs_of (snd (vspoll fuel s))]) (rs_sb (fst (vspoll fuel s)))
  /\ eok (fst (vspoll fuel s)) /\ snd (vspoll fuel s) <> PPanic.
Proof.
  intros I Ek. rewrite (spoll_eq clo oclo res_clo res_oclo). cbv zeta. cbn [fst snd rs_sb rs_ended].
  pose proof (oinv_poll chk R fuel (dn clo oclo s) (rs_sb s) E I) as OP.
  pose proof (poll_none_exhausted fuel (dn clo oclo s) (rs_sb s)) as PN.
  unfold vpoll in *. cbv zeta in OP.
  destruct OP as [Np I']. rewrite out_obs. split; [exact I'|split; [|exact Np]].
  unfold eok. cbn [rs_ended rs_sb]. intros En.
  destruct (fst (fst (poll_next clo oclo res_clo res_oclo fuel (dn clo oclo s) (rs_sb s)))) eqn:Er;
    try (apply PN; reflexivity);
    (specialize (Ek En); destruct fuel as [|fuel];
     [cbn [poll_next snd fst] in *; exact Ek
     |pose proof (poll_exhausted fuel (dn clo oclo s) _ Ek) as PE; unfold vpoll in PE;
      rewrite PE in Er; cbn [fst] in Er; discriminate]).
Qed.

Lemma run_events_oinv fuel : forall ev s E, Inv E (rs_sb s) -> eok s ->
  let x := run_events clo oclo res_clo res_oclo fuel ev s in
  Inv (E ++ somes (snd x)) (rs_sb (fst x)) /\ eok (fst x).
Proof.
  induction ev as [|[f|] ev IH]; intros s E I Ek; cbn [run_events].
  - cbn [fst snd somes flat_map]. rewrite app_nil_r. auto.
  - destruct (step_complete clo oclo f s) as [s1 w] eqn:Ec.
    assert (rs_sb s1 = rs_sb s /\ rs_ended s1 = rs_ended s) as [Esb Een].
    { unfold step_complete in Ec. destruct (memf f (rs_done s)); inversion Ec; auto. }
    assert (Inv E (rs_sb s1)) as I1 by (rewrite Esb; auto).
    assert (eok s1) as E1 by (unfold eok; rewrite Esb, Een; auto).
    specialize (IH s1 E I1 E1). destruct (run_events clo oclo res_clo res_oclo fuel ev s1) as [s2 l].
    cbn [fst snd] in *. exact IH.
  - destruct (spoll_oinv fuel s E I Ek) as [I1 [E1 _]].
    destruct (vspoll fuel s) as [s1 r]. cbn [fst snd] in *.
    specialize (IH s1 _ I1 E1). destruct (run_events clo oclo res_clo res_oclo fuel ev s1) as [s2 l].
    cbn [fst snd] in *. destruct IH as [A B]. split; [|exact B].
    rewrite <- app_assoc in A. rewrite <- somes_app in A. exact A.
Qed.

Lemma drain_oinv fuel : forall n s E, Inv E (rs_sb s) -> eok s ->
  let x := drain clo oclo res_clo res_oclo fuel n s in
  Inv (E ++ somes (snd x)) (rs_sb (fst x)) /\ eok (fst x).
Proof.
  induction n as [|n IH]; intros s E I Ek; cbn [drain]; destruct (rs_ended s) eqn:En;
    try (cbn [fst snd somes flat_map]; rewrite app_nil_r; auto; fail).
  destruct (spoll_oinv fuel s E I Ek) as [I1 [E1 _]].
  destruct (vspoll fuel s) as [s1 r]. cbn [fst snd] in *.
  specialize (IH s1 _ I1 E1). destruct (drain clo oclo res_clo res_oclo fuel n s1) as [s2 l].
  cbn [fst snd] in *. destruct IH as [A B]. split; [|exact B].
  rewrite <- app_assoc in A. rewrite <- somes_app in A. exact A.
Qed.

Lemma run_task_oinv fuel : forall n s E, Inv E (rs_sb s) -> eok s ->
  let x := run_task clo oclo res_clo res_oclo fuel n s in
  Inv (E ++ somes (snd x)) (rs_sb (fst x)) /\ eok (fst x).
Proof.
  induction n as [|n IH]; intros s E I Ek; cbn [run_task].
  - cbn [fst snd somes flat_map]. rewrite app_nil_r. auto.
  - destruct (spoll_oinv fuel s E I Ek) as [I1 [E1 _]].
    destruct (vspoll fuel s) as [s1 r]. cbn [fst snd] in *.
    destruct r as [|x| | |]; try (cbn [fst snd]; auto; fail).
    specialize (IH s1 _ I1 E1). destruct (run_task clo oclo res_clo res_oclo fuel n s1) as [s2 l].
    cbn [fst snd] in *. destruct IH as [A B]. split; [|exact B].
    rewrite <- app_assoc in A. rewrite <- somes_app in A. exact A.
Qed.

Lemma run_exec_oinv fuel n : forall order s E, Inv E (rs_sb s) -> eok s ->
  let x := run_exec clo oclo res_clo res_oclo fuel n order s in
  Inv (E ++ somes (snd x)) (rs_sb (fst x)) /\ eok (fst x).
Proof.
  induction order as [|f order IH]; intros s E I Ek; cbn [run_exec].
  - destruct (rs_ended s); cbn [fst snd somes flat_map]; rewrite app_nil_r; auto.
  - destruct (memf f (rs_done s)) eqn:Md; [apply IH; auto|].
    destruct (step_complete clo oclo f s) as [s1 w] eqn:Ec.
    assert (rs_sb s1 = rs_sb s /\ rs_ended s1 = rs_ended s) as [Esb Een].
    { unfold step_complete in Ec. rewrite Md in Ec. inversion Ec; auto. }
    assert (Inv E (rs_sb s1)) as I1 by (rewrite Esb; auto).
    assert (eok s1) as E1 by (unfold eok; rewrite Esb, Een; auto).
    destruct ((0 <? w)%N && negb (rs_ended s1)).
    + pose proof (run_task_oinv fuel n s1 E I1 E1) as RT.
      destruct (run_task clo oclo res_clo res_oclo fuel n s1) as [s2 l1]. cbn [fst snd] in RT.
      destruct RT as [I2 E2].
      specialize (IH s2 _ I2 E2). destruct (run_exec clo oclo res_clo res_oclo fuel n order s2) as [s3 l2].
      cbn [fst snd] in *. destruct IH as [A B]. split; [|exact B].
      change (OWake w :: l1 ++ l2) with ([OWake w] ++ l1 ++ l2).
      rewrite !somes_app. cbn [somes flat_map app]. rewrite app_assoc. exact A.
    + specialize (IH s1 E I1 E1). destruct (run_exec clo oclo res_clo res_oclo fuel n order s1) as [s3 l2].
      cbn [fst snd] in *. exact IH.
Qed.

End OooRuns.

(* ------------------------------------------------------------------ theorems *)
Notation vgood := (good clo oclo wclo woclo fclo foclo).
Notation vphi := (phi clo oclo wclo woclo).

Section OooTheorems.
Variable chk : bool.
Variable v : view.
Variable init : list fid.
Variable n : nat.
Hypothesis Hn : poll_fuel v <= n.
Hypothesis Hw : wf_ooo v = true.
Hypothesis Hk : chk = true -> known_class true init v = false.

Let R := fst (resolved v FirstChild).
Let F := futures_of v.
Let fuel := poll_fuel v.
Let s0 := init_state true init v.
Definition SInv (b : vsb) : Prop := exists E, OInv chk R E b.

Lemma ooo_pf : chk = true -> pf true false (mem init) v FirstChild = true.
Proof.
  intros C. specialize (Hk C). unfold known_class in Hk.
  destruct (pf _ _ _ _ _); simpl in Hk; congruence.
Qed.

Lemma ooo_init : OInv chk R [] (rs_sb s0).
Proof. unfold s0, init_state. cbn [rs_sb]. apply oinv_init; [exact Hw|apply ooo_pf]. Qed.

Lemma sinv_poll : forall fuel d (b : vsb), SInv b ->
  SInv (snd (fst (vpoll fuel d b))) /\ fst (fst (vpoll fuel d b)) <> PPanic.
Proof.
  intros fl d b [E I]. destruct (oinv_poll chk R fl d b E I) as [A B]. split; [eexists; eauto|auto].
Qed.

Lemma ooo_good0 : vgood SInv F fuel n s0.
Proof.
  constructor.
  - exists []. apply ooo_init.
  - unfold s0, init_state. cbn [rs_sb]. apply stream_of_f.
  - unfold s0, init_state. cbn [rs_sb].
    pose proof (stream_of_mu true (fun f => memf f init) v). unfold fuel. lia.
  - unfold s0, init_state. cbn [rs_sb].
    pose proof (stream_of_mu true (fun f => memf f init) v). lia.
Qed.

Lemma eok0 : eok s0.
Proof. unfold eok, s0, init_state. cbn [rs_ended]. discriminate. Qed.

(** the literal drive: the stream ends, nothing goes wrong, and the browser's document after all
    scripts is plain HTML — the resolved render when [chk] *)
Lemma ooo_free ev :
  let l := run_free n true v init ev in
  (exists D, apply_scripts (somes l) [] None = Some D /\ plain D /\ (chk = true -> D = R))
  /\ In ONone l /\ clean l.
Proof.
  cbv zeta. unfold run_free. fold fuel. fold s0.
  pose proof ooo_good0 as G0. pose proof ooo_init as I0. pose proof eok0 as K0.
  pose proof (run_events_oinv chk R fuel ev s0 [] I0 K0) as RE.
  pose proof (run_events_good clo oclo res_clo res_oclo wclo woclo res_clo_w res_oclo_w
                fclo foclo res_clo_f res_oclo_f SInv sinv_poll F fuel n ev s0 G0) as RG.
  destruct (run_events clo oclo res_clo res_oclo fuel ev s0) as [s1 l1]. cbn [fst snd app] in *.
  destruct RE as [I1 K1]. destruct RG as [G1 [D1 [CL1 EN1]]].
  pose proof (complete_all_good clo oclo wclo woclo fclo foclo SInv F fuel n
                (sort_N (futures_of v)) s1 G1) as CA.
  destruct (complete_all clo oclo (sort_N (futures_of v)) s1) as [s2 l2]. cbn [fst snd] in *.
  destruct CA as [G2 [D2 [Esb [Een [S2 CL2]]]]].
  assert (all_done clo oclo F s2) as AD.
  { intros f Hf. apply D2. left. apply sort_N_in. exact Hf. }
  assert (vphi (rs_sb s2) < n) as Hp.
  { pose proof (phi_le clo oclo wclo woclo (rs_sb s2)). pose proof (g_n _ _ _ _ _ _ _ _ _ _ _ G2). lia. }
  pose proof (drain_terminates clo oclo res_clo res_oclo wclo woclo res_clo_w res_oclo_w
                fclo foclo res_clo_f res_oclo_f SInv sinv_poll F fuel n n s2 G2 AD Hp) as DT.
  assert (OInv chk R (somes l1) (rs_sb s2)) as I2 by (rewrite Esb; auto).
  assert (eok s2) as K2 by (unfold eok; rewrite Esb, Een; auto).
  pose proof (drain_oinv chk R fuel n s2 (somes l1) I2 K2) as DI.
  destruct (drain clo oclo res_clo res_oclo fuel n s2) as [s3 l3]. cbn [fst snd] in *.
  destruct DT as [En3 [G3 [Len3 [L3 N3]]]]. destruct DI as [I3 K3].
  destruct (K3 En3) as [Xc [Xp [Xo Xs]]].
  destruct (oinv_done chk R _ _ I3 Xc Xo Xs) as [D [Hr [PD HD]]].
  split; [|split].
  - exists D. rewrite !somes_app, S2. cbn [app]. split; [apply apply_scripts_of_run; exact Hr|auto].
  - rewrite !in_app_iff. destruct (rs_ended s2) eqn:En2.
    + symmetry in Een. destruct (EN1 Een) as [X|X]; [|auto].
      unfold s0, init_state in X. cbn [rs_ended] in X. discriminate.
    + right. right. apply N3. reflexivity.
  - apply clean_app; [auto|apply clean_app; [auto|]].
    intros o Ho. destruct (L3 o Ho) as [X|[x X]]; subst; repeat split; discriminate.
Qed.

(** the executor drive *)
Lemma ooo_exec ev :
  let l := run_executor n true v init ev in
  (exists D, apply_scripts (somes l) [] None = Some D /\ plain D /\ (chk = true -> D = R))
  /\ In ONone l /\ clean l.
Proof.
  cbv zeta. unfold run_executor. fold fuel. fold s0.
  pose proof ooo_good0 as G0. pose proof ooo_init as I0. pose proof eok0 as K0.
  assert (vphi (rs_sb s0) < n) as Hp.
  { pose proof (phi_le clo oclo wclo woclo (rs_sb s0)). pose proof (g_n _ _ _ _ _ _ _ _ _ _ _ G0). lia. }
  pose proof (run_task_parked clo oclo res_clo res_oclo wclo woclo res_clo_w res_oclo_w
                fclo foclo res_clo_f res_oclo_f SInv sinv_poll F fuel n n s0 G0 Hp) as RT.
  pose proof (run_task_oinv chk R fuel n s0 [] I0 K0) as TI.
  destruct (run_task clo oclo res_clo res_oclo fuel n s0) as [s1 l1]. cbn [fst snd app] in *.
  destruct RT as [P1 [G1 [D1 [L1 N1]]]]. destruct TI as [I1 K1].
  assert (forall f, In f F ->
            In f (completes ev ++ sort_N (futures_of v)) \/ memf f (rs_done s1) = true) as Hall.
  { intros f Hf. left. apply in_app_iff. right. apply sort_N_in. exact Hf. }
  pose proof (run_exec_ends clo oclo res_clo res_oclo wclo woclo res_clo_w res_oclo_w
                fclo foclo res_clo_f res_oclo_f SInv sinv_poll F fuel n
                (completes ev ++ sort_N (futures_of v)) s1 G1 P1 Hall) as RE.
  pose proof (run_exec_oinv chk R fuel n (completes ev ++ sort_N (futures_of v)) s1 (somes l1) I1 K1) as EI.
  destruct (run_exec clo oclo res_clo res_oclo fuel n (completes ev ++ sort_N (futures_of v)) s1)
    as [s2 l2]. cbn [fst snd] in *.
  destruct RE as [En [L2 N2]]. destruct EI as [I2 K2].
  destruct (K2 En) as [Xc [Xp [Xo Xs]]].
  destruct (oinv_done chk R _ _ I2 Xc Xo Xs) as [D [Hr [PD HD]]].
  split; [|split].
  - exists D. rewrite somes_app. split; [apply apply_scripts_of_run; exact Hr|auto].
  - apply in_app_iff. destruct N2 as [N2|N2]; [|auto].
    destruct (N1 N2) as [X|X]; [|auto]. unfold s0, init_state in X. cbn [rs_ended] in X. discriminate.
  - intros o Ho. apply in_app_iff in Ho. destruct Ho as [Ho|Ho].
    + destruct (L1 o Ho) as [X|[X|[x X]]]; subst; repeat split; discriminate.
    + destruct (L2 o Ho) as [X|[X|[[x X]|[w X]]]]; subst; repeat split; discriminate.
Qed.

(** at every moment of every run the browser's document (with what is buffered) is the resolved
    render in which exactly the still unresolved boundaries show their fallback *)
Lemma ooo_prefix ev :
  let x := run_events clo oclo res_clo res_oclo fuel ev s0 in
  exists D rs e,
    apply_scripts (somes (snd x) ++ Tb (rs_sb (fst x))) [] None = Some D
    /\ wfd D rs /\ NoDup (rids rs)
    /\ (forall i F0, In (i, F0) rs -> exists f k, In (f, k) (Qb (rs_sb (fst x))) /\ o_id k = Some i)
    /\ (forall f k, In (f, k) (Qb (rs_sb (fst x))) -> exists i F0, o_id k = Some i /\ In (i, F0) rs)
    /\ (chk = true -> fill e None D = R).
Proof.
  cbv zeta.
  pose proof (run_events_oinv chk R fuel ev s0 [] ooo_init eok0) as [I _].
  destruct (run_events clo oclo res_clo res_oclo fuel ev s0) as [s1 l1]. cbn [fst snd app] in *.
  destruct I as [_ [_ [D [rs [e [Hrun [W [Nd [_ [_ [Qk [Fl _]]]]]]]]]]]].
  exists D, rs, e.
  split; [apply apply_scripts_of_run; exact Hrun|
          split; [exact W|split; [exact Nd|split; [apply Qk|split; [|exact Fl]]]]].
  intros f k Hin. destruct (q_clo _ _ _ _ Qk f k Hin) as [i [F0 [A [B _]]]]. eauto.
Qed.

End OooTheorems.

(* ------------------------------------------------------------------ statements for Properties_C07 *)
(** F-C07-a aside, after all replacement scripts have run the out-of-order stream is the resolved
    render — for every well-formed view and every schedule *)
Theorem ooo_after_scripts_free v init n ev :
  poll_fuel v <= n -> wf_ooo v = true -> known_class true init v = false ->
  let l := run_free n true v init ev in
  apply_scripts (somes l) [] None = Some (fst (resolved v FirstChild)) /\ In ONone l /\ clean l.
Proof.
  intros Hn Hw Hk. cbv zeta.
  destruct (ooo_free true v init n Hn Hw (fun _ => Hk) ev) as [[D [A [_ B]]] [C1 C2]].
  rewrite (B eq_refl) in A. auto.
Qed.

Theorem ooo_after_scripts_exec v init n ev :
  poll_fuel v <= n -> wf_ooo v = true -> known_class true init v = false ->
  let l := run_executor n true v init ev in
  apply_scripts (somes l) [] None = Some (fst (resolved v FirstChild)) /\ In ONone l /\ clean l.
Proof.
  intros Hn Hw Hk. cbv zeta.
  destruct (ooo_exec true v init n Hn Hw (fun _ => Hk) ev) as [[D [A [_ B]]] [C1 C2]].
  rewrite (B eq_refl) in A. auto.
Qed.

(** for EVERY well-formed view (F-C07-a included): the stream ends, no panic, no stall, and every
    replacement script finds its markers — what remains is plain HTML without any marker *)
Theorem ooo_always_sound v init n ev :
  poll_fuel v <= n -> wf_ooo v = true ->
  (let l := run_free n true v init ev in
   (exists D, apply_scripts (somes l) [] None = Some D /\ plain D) /\ In ONone l /\ clean l)
  /\ (let l := run_executor n true v init ev in
      (exists D, apply_scripts (somes l) [] None = Some D /\ plain D) /\ In ONone l /\ clean l).
Proof.
  intros Hn Hw. assert (false = true -> known_class true init v = false) as Hk by discriminate.
  split; cbv zeta.
  - destruct (ooo_free false v init n Hn Hw Hk ev) as [[D [A [B _]]] [C1 C2]]. eauto.
  - destruct (ooo_exec false v init n Hn Hw Hk ev) as [[D [A [B _]]] [C1 C2]]. eauto.
Qed.

(** each boundary shows its fallback until it is replaced: at every moment of every run, what the
    browser has (plus what is still buffered) is a document whose fallback regions are exactly the
    unresolved chunks, and filling those regions with their final content gives the resolved render *)
Theorem ooo_fallback_until_replaced v init ev :
  wf_ooo v = true -> known_class true init v = false ->
  let x := run_events clo oclo res_clo res_oclo (poll_fuel v) ev (init_state true init v) in
  exists D rs e,
    apply_scripts (somes (snd x) ++ Tb (rs_sb (fst x))) [] None = Some D
    /\ wfd D rs /\ NoDup (rids rs)
    /\ (forall i F0, In (i, F0) rs -> exists f k, In (f, k) (Qb (rs_sb (fst x))) /\ o_id k = Some i)
    /\ (forall f k, In (f, k) (Qb (rs_sb (fst x))) -> exists i F0, o_id k = Some i /\ In (i, F0) rs)
    /\ fill e None D = fst (resolved v FirstChild).
Proof.
  intros Hw Hk. cbv zeta.
  destruct (ooo_prefix true v init Hw (fun _ => Hk) ev) as [D [rs [e [A [B [C [D1 [D2 D3]]]]]]]].
  exists D, rs, e. repeat split; auto.
Qed.

Definition witness_ooo : view :=
  VElem 0%N (VTuple [VElem 1%N (VText [108%N]); VSuspend 1%N (VText [109%N]); VText [114%N]]).

(** <div>(<p>l</p>, Suspend(pending -> "m"), "r")</div>: the out-of-order stream leaves
    <div><p>l</p>mr</div>, the resolved render is <div><p>l</p>m<!>r</div> *)
Lemma ooo_after_scripts_refuted :
  exists v init ev, wf_ooo v = true /\
    apply_scripts (somes (run_free (poll_fuel v) true v init ev)) [] None
    <> Some (fst (resolved v FirstChild)).
Proof.
  exists witness_ooo, [], [EPoll; EComplete 1%N; EPoll]. split; [reflexivity|].
  vm_compute. intros H. discriminate H.
Qed.

Example known_class_witness_ooo : known_class true [] witness_ooo = true.
Proof. reflexivity. Qed.

Example ooo_nonvacuous :
  let v := VElem 0%N (VTuple [VElem 1%N (VText [97%N]);
                              VBoundary 1%N (VElem 2%N (VText [76%N]))
                                (VTuple [VElem 3%N (VText [67%N]);
                                         VSuspend 2%N (VElem 1%N (VText [105%N]))]) true;
                              VSuspend 3%N (VElem 2%N (VText [121%N]))]) in
  wf_ooo v = true /\ known_class true [] v = false /\ futures_of v = [1%N; 2%N; 3%N].
Proof. repeat split; reflexivity. Qed.
