(** Executable entry point of the C12 model for the correspondence check. *)
From Coq Require Import List ZArith NArith Bool.
From LV Require Import Base.Sexp Base.Bytes Html.Script.
Import ListNotations.

(** case: (1 mode escset script) -> the session log, oldest entry first.
    mode 0: SsrSharedContext::new(), 1: ::new_islands(), 4: ::default() (= new()),
    2: the context and the <script> wrapping of build_response (mode 3, the same with a random
    nonce, is not modelled). Component-level commands are spelled out first ([expand]).
    [escset] lists the code points real Rust's Debug writes as \u{..} (obtained from the real
    formatter by the generator). (0 text) asks the harness for exactly that classification; the
    model has no Unicode tables and answers (). *)
Definition run_C12 (c : sexp) : sexp :=
  match as_Z (nth_s 0 c) with
  | 1%Z =>
      let mode := as_Z (nth_s 1 c) in
      let isl := Z.eqb mode 1 in
      let escset := as_bytes (nth_s 2 c) in
      let esc := fun x => existsb (N.eqb x) escset in
      let l := rev (log (session esc isl (expand (as_list (nth_s 3 c))))) in
      Lst (if Z.eqb mode 2 then map wrap_entry l else l)
  | _ => Lst []
  end.
