(** Executable entry point of the C12 model for the correspondence check. *)
From Coq Require Import List ZArith NArith Bool.
From LV Require Import Base.Sexp Base.Bytes Html.Script.
Import ListNotations.

(** case: (1 mode escset script) -> the session log, oldest entry first.
    [escset] lists the code points real Rust's Debug writes as \u{..} (obtained from the real
    formatter by the generator). (0 text) asks the harness for exactly that classification; the
    model has no Unicode tables and answers (). *)
Definition run_C12 (c : sexp) : sexp :=
  match as_Z (nth_s 0 c) with
  | 1%Z =>
      let isl := as_bool (nth_s 1 c) in
      let escset := as_bytes (nth_s 2 c) in
      let esc := fun x => existsb (N.eqb x) escset in
      Lst (rev (log (session esc isl (as_list (nth_s 3 c)))))
  | _ => Lst []
  end.
