(** Executable entry point of the C18 model for the correspondence check.

    case  = (0 (node …))                      a template (the nodes inside [view! { … }])
    node  = (0 text) | (1 text)               "literal" | {block evaluating to text}
          | (2 tag (attr …) (node …))         element
          | (3 (node …))                      fragment
          | (4)                               <!-- comment -->
    attr  = (0 name aval) | (1 name tog) | (2 (name …) b) | (3 prop v) | (4 prop v)
          | (5) on:/prop:/use:/node_ref (renders nothing)
    aval  = (0 v) string literal | (1) no value | (2 v) {String} or a non-string literal displaying as v
          | (3 b) {bool} or true/false | (4) {None} | (5 v) {Some v}
    tog   = 0 no value | 1 {false} | 2 {true}

    observation = (view_html  builder_html  (inert_html)?  denote  parse(view_html)  parse(builder_html))
    where view_html is what [view!] renders (inert optimisation on), builder_html what the builder
    path alone renders ([template!]), inert_html the compile-time string if the template is a single
    inert element; trees are (0 text) | (1 tag ((name value) …) (tree …)). *)
From Coq Require Import List ZArith NArith.
From LV Require Import Base.Sexp Base.Bytes Html.Macro Html.MacroParse.
Import ListNotations.

Definition as_aval (s : sexp) : aval :=
  match as_Z (nth_s 0 s) with
  | 0%Z => VLit (as_bytes (nth_s 1 s))
  | 1%Z => VNone
  | 2%Z => VDynStr (as_bytes (nth_s 1 s))
  | 3%Z => VDynBool (as_bool (nth_s 1 s))
  | 4%Z => VDynOpt None
  | _ => VDynOpt (Some (as_bytes (nth_s 1 s)))
  end.

Definition as_attr (s : sexp) : attr :=
  match as_Z (nth_s 0 s) with
  | 0%Z => APlain (as_bytes (nth_s 1 s)) (as_aval (nth_s 2 s))
  | 1%Z => AClassTog (as_bytes (nth_s 1 s))
             (match as_Z (nth_s 2 s) with 0%Z => None | 1%Z => Some false | _ => Some true end)
  | 2%Z => AClassTup (map as_bytes (as_list (nth_s 1 s))) (as_bool (nth_s 2 s))
  | 3%Z => AStyleProp (as_bytes (nth_s 1 s)) (as_bytes (nth_s 2 s))
  | 4%Z => AStyleTup (as_bytes (nth_s 1 s)) (as_bytes (nth_s 2 s))
  | _ => ASilent
  end.

Fixpoint as_node (s : sexp) {struct s} : node :=
  match s with
  | Num _ => NText []
  | Lst l =>
      match l with
      | Num 0%Z :: t :: _ => NText (as_bytes t)
      | Num 1%Z :: t :: _ => NBlock (as_bytes t)
      | Num 2%Z :: tag :: attrs :: Lst ch :: _ =>
          NElem (as_bytes tag) (map as_attr (as_list attrs)) (map as_node ch)
      | Num 3%Z :: Lst ch :: _ => NFrag (map as_node ch)
      | Num 4%Z :: _ => NComment
      | _ => NText []
      end
  end.

Fixpoint s_tree (t : tree) : sexp :=
  match t with
  | TText s => Lst [Num 0%Z; sbytes s]
  | TElem tag attrs ch =>
      Lst [Num 1%Z; sbytes tag;
           Lst (map (fun kv => Lst [sbytes (fst kv); sbytes (snd kv)]) attrs);
           Lst (map s_tree ch)]
  end.
Definition s_forest (f : list tree) : sexp := Lst (map s_tree f).

Definition run_C18 (c : sexp) : sexp :=
  let t := map as_node (as_list (nth_s 1 c)) in
  let v := view_html true t in
  let b := builder_html t in
  Lst [sbytes v; sbytes b;
       (match t with
        | [n] => if is_inert_element n then Lst [sbytes (inert_html n)] else Lst []
        | _ => Lst []
        end);
       s_forest (denote t); s_forest (parse v); s_forest (parse b)].
