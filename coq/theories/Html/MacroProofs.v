(** C18 — both paths of the [view!] macro render the tree the template denotes. *)
From Coq Require Import String.
From Coq Require Import List NArith Bool Lia Permutation.
From LV Require Import Base.Bytes Html.Macro Html.MacroParse Html.MacroSort Html.MacroParseProofs
     Html.MacroAttrProofs Html.MacroFlat.
Import ListNotations.
Open Scope N_scope.

(** ---- well-formed templates ---- *)
Definition k_param : bytes := Eval vm_compute in bs "param".
Definition k_title : bytes := Eval vm_compute in bs "title".

Definition is_textish (n : node) : bool :=
  match n with NText _ | NBlock _ => true | _ => false end.
Definition text_of (n : node) : bytes :=
  match n with NText s | NBlock s => s | _ => [] end.
(** children that produce a text node on the builder path *)
Definition renders_text (n : node) : bool :=
  match n with NText s => negb (is_nil s) | NBlock _ => true | _ => false end.

(** no element named script / style / noscript anywhere below an SVG / MathML element. There the
    macro resolves the ambiguous names (a, script, style, title) by the namespace of the parent and
    the inert path escapes all text (foreign content), and the HTML parser reads such an element as
    an ordinary one — whereas Html/MacroParse.v knows raw-text elements by name only.  Such templates
    are compared with the model byte for byte and judged by the oracle, outside the theorems. *)
Fixpoint no_rawish (n : node) : bool :=
  match n with
  | NElem tag _ ch => negb (mem tag macro_raw) && forallb no_rawish ch
  | NFrag ch => forallb no_rawish ch
  | _ => true
  end.
Definition no_foreign_raw (tag : bytes) (ch : list node) : bool :=
  if mem tag macro_svg || mem tag macro_mathml then forallb no_rawish ch else true.

(** Names are readable, no components, no obsolete <param>; a block never evaluates to the empty
    string; void elements are empty; raw-text elements contain only text without "</"; title
    contains only text; no script / style / noscript below SVG / MathML. *)
Fixpoint wf_node (n : node) : bool :=
  match n with
  | NText _ => true
  | NBlock s => negb (is_nil s)
  | NFrag ch => forallb wf_node ch
  | NComment => true
  | NElem tag attrs ch =>
      name_okb tag && no_foreign_raw tag ch && negb (is_component tag) && negb (beq tag k_param)
      && forallb wf_attr attrs && forallb wf_node ch
      && (if mem tag html_void then is_nil ch else true)
      && (if mem tag parser_raw then forallb is_textish ch && no_lt_slash (flat_map text_of ch) else true)
      && (if mem tag parser_rcdata then forallb is_textish ch else true)
  end.

(** the class of finding F-C18-f: some <title> has two children that render text.
    [nta n = true] means the template is NOT in that class. *)
Fixpoint nta (n : node) : bool :=
  match n with
  | NElem tag _ ch =>
      (if beq tag k_title then N.of_nat (List.length (filter renders_text ch)) <=? 1 else true)
      && forallb nta ch
  | NFrag ch => forallb nta ch
  | _ => true
  end.
Definition KnownClass (t : list node) : Prop := forallb nta t = false.

Lemma node_ind' : forall P : node -> Prop,
    (forall s, P (NText s)) -> (forall s, P (NBlock s)) ->
    (forall tag attrs ch, Forall P ch -> P (NElem tag attrs ch)) ->
    (forall ch, Forall P ch -> P (NFrag ch)) -> P NComment -> forall n, P n.
Proof.
  intros P Ht Hb He Hf Hc. fix IH 1. intros [s|s|tag attrs ch|ch|].
  - apply Ht.
  - apply Hb.
  - apply He. induction ch as [|x ch IHch]; constructor; [apply IH | exact IHch].
  - apply Hf. induction ch as [|x ch IHch]; constructor; [apply IH | exact IHch].
  - apply Hc.
Qed.

(** ---- the element tables of macro, renderer and parser agree ---- *)
Lemma mem_app : forall x a b, mem x (a ++ b) = mem x a || mem x b.
Proof. intros. unfold mem. apply existsb_app. Qed.

Lemma void_agree : forall tag, beq tag k_param = false -> mem tag macro_void = mem tag html_void.
Proof.
  intros tag H. unfold html_void.
  assert (E1 : macro_void = firstn 10 tachys_void ++ [k_param] ++ skipn 10 tachys_void) by reflexivity.
  assert (E2 : mem tag tachys_void = mem tag (firstn 10 tachys_void) || mem tag (skipn 10 tachys_void)).
  { rewrite <- mem_app. now rewrite firstn_skipn. }
  rewrite E1, E2, !mem_app. unfold mem at 2. cbn [existsb]. rewrite H. reflexivity.
Qed.

Lemma table_forall : forall (P : bytes -> bool) L, forallb P L = true ->
    forall tag, mem tag L = true -> P tag = true.
Proof. intros P L H tag M. apply mem_In in M. rewrite forallb_forall in H. now apply H. Qed.

Definition foreign (t : bytes) : bool := is_custom t || mem t macro_svg || mem t macro_mathml.

Lemma raw_agree_macro : forall tag, mem tag macro_raw = mem tag parser_raw.
Proof. reflexivity. Qed.

Lemma tachys_raw_split : forall tag, mem tag tachys_raw = mem tag parser_raw || beq tag k_textarea.
Proof.
  intros tag. unfold mem, tachys_raw, parser_raw, k_textarea. cbn [existsb].
  repeat match goal with |- context [beq tag ?x] => destruct (beq tag x) end; reflexivity.
Qed.

Lemma b_void_eq : forall tag, b_void tag = mem tag html_void.
Proof.
  intros tag. unfold b_void, html_void. fold (foreign tag). destruct (foreign tag) eqn:E; [|reflexivity].
  destruct (mem tag tachys_void) eqn:M; [|reflexivity].
  assert (H : negb (foreign tag) = true)
    by (apply (table_forall (fun t => negb (foreign t)) tachys_void); [reflexivity | exact M]).
  rewrite E in H. discriminate.
Qed.

(** raw-text elements: children neither escaped one by one nor as a whole *)
Lemma b_escape_raw : forall tag, mem tag parser_raw = true -> b_escape tag = false /\ b_whole tag = false.
Proof.
  intros tag M.
  assert (H : (negb (foreign tag) && negb (beq tag k_textarea)) = true)
    by (apply (table_forall (fun t => negb (foreign t) && negb (beq t k_textarea)) parser_raw);
        [reflexivity | exact M]).
  apply andb_true_iff in H as [H1 H2]. apply negb_true_iff in H1, H2.
  unfold b_whole, b_escape. fold (foreign tag). rewrite H1, H2, tachys_raw_split, M. now split.
Qed.

(** neither raw text nor escapable raw text: children escaped one by one *)
Lemma b_escape_data : forall tag, mem tag parser_raw = false -> mem tag parser_rcdata = false ->
    b_escape tag = true /\ b_whole tag = false.
Proof.
  intros tag M1 M2.
  assert (Hta : beq tag k_textarea = false).
  { unfold mem, parser_rcdata in M2. cbn [existsb] in M2. apply orb_false_iff in M2 as [_ M2].
    now apply orb_false_iff in M2 as [M2 _]. }
  unfold b_whole, b_escape. fold (foreign tag). rewrite tachys_raw_split, M1, Hta.
  destruct (foreign tag); now split.
Qed.

Lemma rcdata_cases : forall tag, mem tag parser_rcdata = true ->
    (tag = k_title /\ b_escape tag = true /\ b_whole tag = false)
    \/ (tag = k_textarea /\ b_escape tag = false /\ b_whole tag = true).
Proof.
  intros tag M. apply mem_In in M. destruct M as [<-|[<-|[]]]; [left | right]; repeat split.
Qed.

Lemma raw_not_void : forall tag, mem tag parser_raw = true -> mem tag html_void = false.
Proof.
  intros tag M. apply negb_true_iff.
  apply (table_forall (fun t => negb (mem t html_void)) parser_raw); [reflexivity | exact M].
Qed.
Lemma raw_not_rcdata : forall tag, mem tag parser_raw = true -> mem tag parser_rcdata = false.
Proof.
  intros tag M. apply negb_true_iff.
  apply (table_forall (fun t => negb (mem t parser_rcdata)) parser_raw); [reflexivity | exact M].
Qed.
Lemma rcdata_not_void : forall tag, mem tag parser_rcdata = true -> mem tag html_void = false.
Proof.
  intros tag M. apply negb_true_iff.
  apply (table_forall (fun t => negb (mem t html_void)) parser_rcdata); [reflexivity | exact M].
Qed.

(** ---- folds ---- *)
Lemma dn_list_cons : forall x l cur, dn_list (x :: l) cur = dn_list l (dn x cur).
Proof. reflexivity. Qed.
Lemma dn_list_app : forall a b cur, dn_list (a ++ b) cur = dn_list b (dn_list a cur).
Proof. intros. unfold dn_list. apply fold_left_app. Qed.

Lemma dn_list_texts : forall ch cur, forallb is_textish ch = true ->
    dn_list ch cur = push_text (flat_map text_of ch) cur.
Proof.
  induction ch as [|x ch IH]; intros cur H; [reflexivity|].
  cbn [forallb] in H. apply andb_true_iff in H as [Hx H]. rewrite dn_list_cons, IH by assumption.
  cbn [flat_map]. rewrite push_text_app. destruct x; try discriminate; reflexivity.
Qed.

Lemma glue_start : forall (tag PA X : bytes),
    [60] ++ tag ++ PA ++ [62] ++ X = ([60] ++ tag ++ PA ++ [62]) ++ X.
Proof. intros. cbn [app]. now rewrite <- !app_assoc. Qed.

Lemma glue_body : forall (body tag : bytes), body ++ [60; 47] ++ tag ++ [62] = body ++ ([60; 47] ++ tag ++ [62]).
Proof. reflexivity. Qed.

(** what the parser makes of an element once its start tag has been read *)
Lemma open_tag_void : forall tag a k cur, mem tag html_void = true ->
    open_tag tag a k cur = St MData k (TElem tag (norm_attrs a) [] :: cur).
Proof. intros. unfold open_tag. now rewrite H. Qed.

Lemma open_tag_nonvoid : forall tag a k cur, mem tag html_void = false ->
    open_tag tag a k cur =
    St (if mem tag parser_raw then MRaw tag else if mem tag parser_rcdata then MRc tag else MData)
       ((tag, a, cur) :: k) [].
Proof. intros. unfold open_tag. now rewrite H. Qed.

(** ---- the inert path ---- *)
Lemma inert_raw_children : forall ch,
    forallb is_textish ch = true -> forallb all_static ch = true ->
    flat_map (inert_node0 false) ch = flat_map text_of ch
    /\ flat_map (inert_node0 true) ch = enc_text (flat_map text_of ch).
Proof.
  induction ch as [|x ch IH]; intros Ht Hs; [now split|].
  cbn [forallb] in Ht, Hs. apply andb_true_iff in Ht as [Hx Ht]. apply andb_true_iff in Hs as [Hsx Hs].
  destruct (IH Ht Hs) as [IH1 IH2]. cbn [flat_map]. rewrite IH1, IH2, enc_text_app.
  destruct x; try discriminate; now split.
Qed.

Definition inert_ok (n : node) : Prop :=
  wf_node n = true -> nta n = true -> all_static n = true ->
  forall k cur, feed (St MData k cur) (inert_node0 true n) = St MData k (dn n cur).

Lemma inert_children : forall ch, Forall inert_ok ch ->
    forallb wf_node ch = true -> forallb nta ch = true -> forallb all_static ch = true ->
    forall k cur, feed (St MData k cur) (flat_map (inert_node0 true) ch) = St MData k (dn_list ch cur).
Proof.
  induction ch as [|x ch IH]; intros HF Hw Hn Hs k cur; [reflexivity|].
  inversion HF as [|? ? Hx HF']; subst.
  cbn [forallb] in Hw, Hn, Hs. apply andb_true_iff in Hw as [Hwx Hw].
  apply andb_true_iff in Hn as [Hnx Hn]. apply andb_true_iff in Hs as [Hsx Hs].
  cbn [flat_map]. rewrite feed_app, Hx by assumption. rewrite dn_list_cons. now apply IH.
Qed.

Lemma inert_node_ok : forall n, inert_ok n.
Proof.
  induction n as [s|s|tag attrs ch IH|ch IH|] using node_ind'; unfold inert_ok; intros Hw Hn Hs k cur.
  - cbn [inert_node0 dn]. apply feed_enc_text.
  - discriminate.
  - cbn [wf_node] in Hw. do 8 (apply andb_true_iff in Hw as [Hw ?]).
    rename H into Hrc, H0 into Hraw, H1 into Hvoid, H2 into Hwch, H3 into Hwat, H4 into Hpar, H5 into Hcomp.
    apply negb_true_iff in Hpar.
    cbn [all_static] in Hs. apply andb_true_iff in Hs as [Hs Hsch]. apply andb_true_iff in Hs as [_ Hsat].
    cbn [nta] in Hn. apply andb_true_iff in Hn as [Hnt Hnch].
    cbn [inert_node0 dn]. rewrite glue_start, feed_app.
    rewrite feed_start_tag by (try assumption; now apply inert_attr_names).
    rewrite inert_attrs_pairs by assumption. fold (denote_attrs attrs).
    rewrite (void_agree tag Hpar).
    destruct (mem tag html_void) eqn:Ev.
    + rewrite open_tag_void by assumption. unfold denote_attrs. now rewrite feed_nil.
    + rewrite open_tag_nonvoid by assumption. change (mem tag macro_raw) with (mem tag parser_raw).
      destruct (mem tag parser_raw) eqn:Er.
      * apply andb_true_iff in Hraw as [Htx Hls]. cbn [negb].
        destruct (inert_raw_children ch Htx Hsch) as [-> _].
        rewrite feed_raw_element_end by assumption.
        fold (dn_list ch []). rewrite dn_list_texts by assumption. reflexivity.
      * cbn [negb]. destruct (mem tag parser_rcdata) eqn:Ec.
        -- destruct (inert_raw_children ch Hrc Hsch) as [_ ->].
           rewrite feed_app, feed_enc_text_rc, feed_end_tag_rc by assumption.
           fold (dn_list ch []). rewrite dn_list_texts by assumption. reflexivity.
        -- rewrite feed_app, (inert_children ch IH) by assumption.
           rewrite feed_end_tag by assumption. reflexivity.
  - discriminate.
  - discriminate.
Qed.

(** ---- the builder path (and any mixture with the inert path) ---- *)
Lemma r_text_ok : forall s pos k cur, is_nil s = false ->
    feed (St MData k cur) (fst (r_text true pos s)) = St MData k (push_text s cur).
Proof.
  intros s pos k cur H. unfold r_text. cbn [fst]. rewrite H, feed_app.
  destruct pos; cbn [app]; rewrite ?feed_marker, ?feed_nil; apply feed_enc_text.
Qed.

Lemma thread_cons : forall A (f : position -> A -> bytes * position) pos x r,
    thread f pos (x :: r) =
    (fst (f pos x) ++ fst (thread f (snd (f pos x)) r), snd (thread f (snd (f pos x)) r)).
Proof.
  intros. cbn [thread]. destruct (f pos x) as [h p]. cbn [fst snd].
  destruct (thread f p r) as [t p']. reflexivity.
Qed.

(** children of a raw-text element: verbatim, no markers *)
Lemma thread_raw_texts : forall io ch pos,
    forallb is_textish ch = true ->
    fst (thread (fun pos x => r_node0 io false false pos x) pos ch) = flat_map text_of ch.
Proof.
  induction ch as [|x ch IH]; intros pos Ht; [reflexivity|].
  cbn [forallb] in Ht. apply andb_true_iff in Ht as [Hx Ht]. rewrite thread_cons. cbn [fst flat_map].
  rewrite IH by assumption. f_equal.
  destruct x as [s|s| | |]; try discriminate; cbn [r_node0 text_of].
  - destruct s; [reflexivity|]. cbn [is_nil r_text fst]. now destruct pos.
  - cbn [r_text fst]. now destruct pos.
Qed.

(** children of <title> outside the known class: at most one text, so no marker *)
Lemma thread_rc_none : forall io ch pos,
    forallb is_textish ch = true -> filter renders_text ch = [] ->
    thread (fun pos x => r_node0 io false true pos x) pos ch = ([], pos) /\ flat_map text_of ch = [].
Proof.
  induction ch as [|x ch IH]; intros pos Ht Hf; [now split|].
  cbn [forallb] in Ht. apply andb_true_iff in Ht as [Hx Ht]. cbn [filter] in Hf.
  destruct (renders_text x) eqn:Er; [discriminate|].
  destruct x as [s|s| | |]; try discriminate. destruct s; [|discriminate].
  rewrite thread_cons. cbn [r_node0 is_nil fst snd flat_map text_of app].
  destruct (IH pos Ht Hf) as [-> ->]. now split.
Qed.

Lemma thread_rc_texts : forall io ch pos,
    forallb is_textish ch = true -> forallb wf_node ch = true ->
    (N.of_nat (List.length (filter renders_text ch)) <=? 1) = true -> pos <> PAfterText ->
    fst (thread (fun pos x => r_node0 io false true pos x) pos ch) = enc_text (flat_map text_of ch).
Proof.
  induction ch as [|x ch IH]; intros pos Ht Hw Hc Hp; [reflexivity|].
  cbn [forallb] in Ht, Hw. apply andb_true_iff in Ht as [Hx Ht]. apply andb_true_iff in Hw as [Hwx Hw].
  cbn [filter] in Hc. rewrite thread_cons. cbn [flat_map]. rewrite enc_text_app.
  destruct (renders_text x) eqn:Er.
  - assert (Hnone : filter renders_text ch = []).
    { cbn [List.length] in Hc. destruct (filter renders_text ch); [reflexivity|].
      cbn [List.length] in Hc. apply N.leb_le in Hc. lia. }
    destruct (thread_rc_none io ch (snd (r_node0 io false true pos x)) Ht Hnone) as [-> ->].
    cbn [fst]. rewrite !app_nil_r.
    destruct x as [s|s| | |]; try discriminate; cbn [r_node0 text_of].
    + cbn [renders_text] in Er. apply negb_true_iff in Er. rewrite Er. unfold r_text. cbn [fst]. rewrite Er.
      destruct pos; try reflexivity. congruence.
    + cbn [wf_node] in Hwx. apply negb_true_iff in Hwx. unfold r_text. cbn [fst]. rewrite Hwx.
      destruct pos; try reflexivity. congruence.
  - destruct x as [s|s| | |]; try discriminate. destruct s; [|discriminate].
    cbn [r_node0 is_nil fst snd text_of app]. cbn [enc_text flat_map app]. now apply IH.
Qed.

Definition render_ok (n : node) : Prop :=
  wf_node n = true -> nta n = true ->
  forall io top pos k cur,
    feed (St MData k cur) (fst (r_node0 io top true pos n)) = St MData k (dn n cur).

Lemma render_children : forall ch, Forall render_ok ch ->
    forallb wf_node ch = true -> forallb nta ch = true ->
    forall io top pos k cur,
      feed (St MData k cur) (fst (thread (fun pos x => r_node0 io top true pos x) pos ch))
      = St MData k (dn_list ch cur).
Proof.
  induction ch as [|x ch IH]; intros HF Hw Hn io top pos k cur; [reflexivity|].
  inversion HF as [|? ? Hx HF']; subst.
  cbn [forallb] in Hw, Hn. apply andb_true_iff in Hw as [Hwx Hw]. apply andb_true_iff in Hn as [Hnx Hn].
  rewrite thread_cons. cbn [fst]. rewrite feed_app, Hx by assumption. rewrite dn_list_cons. now apply IH.
Qed.

Lemma render_node_ok : forall n, render_ok n.
Proof.
  induction n as [s|s|tag attrs ch IH|ch IH|] using node_ind'; unfold render_ok;
    intros Hw Hn io top pos k cur.
  - cbn [r_node0 dn]. destruct s as [|c s]; [reflexivity|]. now apply r_text_ok.
  - cbn [r_node0 dn]. cbn [wf_node] in Hw. apply negb_true_iff in Hw. now apply r_text_ok.
  - cbn [r_node0].
    destruct (negb top && io && is_inert_element (NElem tag attrs ch)) eqn:Ei.
    + cbn [fst]. apply andb_true_iff in Ei as [_ Ei]. unfold is_inert_element in Ei.
      apply andb_true_iff in Ei as [_ Es]. now apply inert_node_ok.
    + clear Ei. cbn [fst].
      cbn [wf_node] in Hw. do 8 (apply andb_true_iff in Hw as [Hw ?]).
      rename H into Hrc, H0 into Hraw, H1 into Hvoid, H2 into Hwch, H3 into Hwat, H4 into Hpar, H5 into Hcomp.
      apply negb_true_iff in Hpar.
      cbn [nta] in Hn. apply andb_true_iff in Hn as [Hnt Hnch].
      cbn [dn]. rewrite glue_start, feed_app.
      rewrite feed_start_tag by (try assumption; now apply builder_attr_names).
      rewrite b_void_eq, (void_agree tag Hpar).
      destruct (mem tag html_void) eqn:Ev.
      * rewrite open_tag_void by assumption. rewrite feed_nil.
        now rewrite builder_attrs_denote by assumption.
      * rewrite open_tag_nonvoid by assumption.
        destruct (mem tag parser_raw) eqn:Er.
        -- destruct (b_escape_raw tag Er) as [-> ->].
           apply andb_true_iff in Hraw as [Htx Hls].
           rewrite thread_raw_texts by assumption.
           rewrite feed_raw_element_end by assumption.
           fold (dn_list ch []). rewrite dn_list_texts by assumption.
           now rewrite builder_attrs_denote by assumption.
        -- destruct (mem tag parser_rcdata) eqn:Ec.
           ++ destruct (rcdata_cases tag Ec) as [(-> & -> & ->) | (-> & -> & ->)].
              ** cbn in Hnt.
                 rewrite thread_rc_texts by (try assumption; discriminate).
                 rewrite feed_app, feed_enc_text_rc, feed_end_tag_rc by assumption.
                 fold (dn_list ch []). rewrite dn_list_texts by assumption.
                 now rewrite builder_attrs_denote by assumption.
              ** rewrite thread_raw_texts by assumption.
                 rewrite feed_app, feed_enc_text_rc, feed_end_tag_rc by assumption.
                 fold (dn_list ch []). rewrite dn_list_texts by assumption.
                 now rewrite builder_attrs_denote by assumption.
           ++ destruct (b_escape_data tag Er Ec) as [-> ->].
              rewrite feed_app, (render_children ch IH) by assumption.
              rewrite feed_end_tag by assumption.
              now rewrite builder_attrs_denote by assumption.
  - cbn [r_node0 dn]. cbn [wf_node] in Hw. cbn [nta] in Hn. fold (dn_list ch cur).
    now apply render_children.
  - reflexivity.
Qed.

(** ---- theorems ---- *)
Definition wf (t : list node) : Prop := forallb wf_node t = true.

(** whatever mixture of inert and builder path the macro takes, the HTML parses to the
    template's denotation *)
Lemma no_tokens_dn : forall n cur, has_tokens n = false -> dn n cur = cur.
Proof.
  induction n as [s|s|tag attrs ch IH|ch IH|] using node_ind'; intros cur H; try discriminate.
  - destruct s; [reflexivity | discriminate].
  - cbn [has_tokens] in H. cbn [dn]. revert cur. induction IH as [|x ch Hx _ IHch]; intros cur; [reflexivity|].
    cbn [existsb] in H. apply orb_false_iff in H as [H1 H2]. cbn [fold_left]. rewrite Hx by assumption.
    now apply IHch.
  - reflexivity.
Qed.

Lemma no_tokens_dn_list : forall l cur, existsb has_tokens l = false -> dn_list l cur = cur.
Proof.
  induction l as [|x l IH]; intros cur H; [reflexivity|].
  cbn [existsb] in H. apply orb_false_iff in H as [H1 H2].
  rewrite dn_list_cons, no_tokens_dn by assumption. now apply IH.
Qed.

(** ---- on well-formed templates the namespace-aware renderers are the flat ones ---- *)
Lemma wf_elem_inv : forall tag attrs ch, wf_node (NElem tag attrs ch) = true ->
    forallb wf_node ch = true /\ no_foreign_raw tag ch = true.
Proof.
  intros tag attrs ch H. cbn [wf_node] in H.
  do 8 (apply andb_true_iff in H as [H ?]). now split.
Qed.

Lemma svg_math_foreign : forall tag, (beq tag k_svg || beq tag k_math) = true ->
    (mem tag macro_svg || mem tag macro_mathml) = true /\ mem tag macro_raw = false.
Proof.
  intros tag H. apply orb_true_iff in H as [H|H]; apply beq_eq in H; subst; split; reflexivity.
Qed.

Lemma inert_node_flat : forall n foreign e, wf_node n = true ->
    (foreign = true -> no_rawish n = true) -> inert_node foreign e n = inert_node0 e n.
Proof.
  induction n as [s|s|tag attrs ch IH|ch IH|] using node_ind'; intros foreign e Hw Hf; try reflexivity.
  destruct (wf_elem_inv _ _ _ Hw) as [Hwch Hnf].
  cbn [inert_node inert_node0].
  set (fe := foreign || beq tag k_svg || beq tag k_math).
  assert (Hraw : fe = true -> mem tag macro_raw = false /\ forallb no_rawish ch = true).
  { unfold fe. intros H. rewrite <- orb_assoc in H. apply orb_true_iff in H as [H|H].
    - specialize (Hf H). cbn [no_rawish] in Hf. apply andb_true_iff in Hf as [H1 H2].
      apply negb_true_iff in H1. now split.
    - destruct (svg_math_foreign tag H) as (Hs & Hr). split; [exact Hr|].
      unfold no_foreign_raw in Hnf. now rewrite Hs in Hnf. }
  assert (Hesc : fe || negb (mem tag macro_raw) = negb (mem tag macro_raw)).
  { destruct fe eqn:E; [|reflexivity]. destruct (Hraw eq_refl) as [-> _]. reflexivity. }
  rewrite Hesc. do 4 f_equal. destruct (mem tag macro_void); [reflexivity|]. f_equal.
  assert (Hch : fe && negb (mem tag svg_integration) = true -> forallb no_rawish ch = true).
  { intros H. apply andb_true_iff in H as [H _]. now apply Hraw. }
  clear Hesc Hraw Hnf Hf Hw. revert Hch. generalize (negb (mem tag macro_raw)) as e'.
  generalize (fe && negb (mem tag svg_integration)) as f'. intros f' e' Hch.
  induction IH as [|x ch Hx _ IHch]; [reflexivity|].
  cbn [forallb] in Hwch. apply andb_true_iff in Hwch as [Hwx Hwch].
  cbn [flat_map]. rewrite Hx.
  - rewrite IHch; [reflexivity | assumption|].
    intros H. specialize (Hch H). cbn [forallb] in Hch. now apply andb_true_iff in Hch as [_ Hch].
  - assumption.
  - intros H. specialize (Hch H). cbn [forallb] in Hch. now apply andb_true_iff in Hch as [Hch _].
Qed.

(** an ambiguous name that is not script / style escapes its children and is not void under the
    HTML constructor too *)
Lemma svg_ctor_flat : forall pt tag, svg_ctor pt tag = true -> mem tag macro_raw = false ->
    b_escape tag = true /\ b_void tag = false.
Proof.
  intros pt tag H Hr. unfold svg_ctor in H. apply andb_true_iff in H as [H _].
  apply andb_true_iff in H as [_ H]. apply mem_In in H.
  destruct H as [<-|[<-|[<-|[<-|[]]]]]; try discriminate; split; reflexivity.
Qed.

Lemma b_p_flat : forall pt tag, (is_foreign pt = true -> mem tag macro_raw = false) ->
    b_escape_p pt tag = b_escape tag /\ b_void_p pt tag = b_void tag /\ b_whole_p pt tag = b_whole tag.
Proof.
  intros pt tag H. unfold b_whole_p, b_whole, b_escape_p, b_void_p.
  destruct (svg_ctor pt tag) eqn:E; [|repeat split; reflexivity].
  assert (Hpt : is_foreign pt = true).
  { unfold svg_ctor in E. apply andb_true_iff in E as [_ E]. now destruct pt. }
  destruct (svg_ctor_flat pt tag E (H Hpt)) as [-> ->]. repeat split; reflexivity.
Qed.

(** children below a namespace that makes a difference hold no raw-text names *)
Lemma child_type_ok : forall pt tag ch,
    (is_foreign pt = true -> forallb no_rawish ch = true) -> no_foreign_raw tag ch = true ->
    is_foreign (child_type pt tag) = true -> forallb no_rawish ch = true.
Proof.
  intros pt tag ch Hpt Hnf. unfold child_type, own_type, no_foreign_raw in *.
  destruct (is_custom tag); [destruct pt; cbn; try discriminate; auto|].
  destruct (mem tag macro_svg); [cbn [orb] in Hnf; intros _; exact Hnf|].
  destruct (mem tag macro_mathml); [cbn [orb] in Hnf; intros _; exact Hnf|].
  destruct (mem tag macro_ambiguous); [|discriminate].
  destruct pt; cbn; try discriminate; auto.
Qed.

Lemma r_node_flat : forall n io top e pt pos, wf_node n = true ->
    (is_foreign pt = true -> no_rawish n = true) ->
    r_node io top e pt pos n = r_node0 io top e pos n.
Proof.
  induction n as [s|s|tag attrs ch IH|ch IH|] using node_ind'; intros io top e pt pos Hw Hf; try reflexivity.
  - destruct (wf_elem_inv _ _ _ Hw) as [Hwch Hnf].
    cbn [r_node r_node0]. rewrite (inert_node_flat _ (is_foreign pt) true Hw Hf).
    destruct (negb top && io && is_inert_element (NElem tag attrs ch)); [reflexivity|].
    assert (Htag : is_foreign pt = true -> mem tag macro_raw = false).
    { intros H. specialize (Hf H). cbn [no_rawish] in Hf. apply andb_true_iff in Hf as [H1 _].
      now apply negb_true_iff in H1. }
    destruct (b_p_flat pt tag Htag) as (-> & -> & ->).
    assert (Hch : is_foreign (child_type pt tag) = true -> forallb no_rawish ch = true).
    { apply child_type_ok; [|exact Hnf]. intros H. specialize (Hf H). cbn [no_rawish] in Hf.
      now apply andb_true_iff in Hf as [_ Hf]. }
    do 2 f_equal. do 3 f_equal. destruct (b_void tag); [reflexivity|]. f_equal.
    destruct (mem tag macro_void); [reflexivity|].
    assert (Hth : forall p, thread (fun pos x => r_node io false (b_escape tag) (child_type pt tag) pos x) p ch
                            = thread (fun pos x => r_node0 io false (b_escape tag) pos x) p ch).
    { clear - IH Hwch Hch. revert Hch. generalize (child_type pt tag) as ct. intros ct Hch.
      induction IH as [|x ch Hx _ IHch]; intros p; [reflexivity|].
      cbn [forallb] in Hwch. apply andb_true_iff in Hwch as [Hwx Hwch].
      cbn [thread]. rewrite Hx.
      - destruct (r_node0 io false (b_escape tag) p x) as [h p1]. rewrite IHch; [reflexivity | assumption|].
        intros H. specialize (Hch H). cbn [forallb] in Hch. now apply andb_true_iff in Hch as [_ Hch].
      - assumption.
      - intros H. specialize (Hch H). cbn [forallb] in Hch. now apply andb_true_iff in Hch as [Hch _]. }
    now rewrite Hth.
  - cbn [r_node r_node0]. cbn [wf_node] in Hw.
    assert (Hch : is_foreign pt = true -> forallb no_rawish ch = true) by exact Hf.
    clear Hf. revert pos. induction IH as [|x ch Hx _ IHch]; intros pos; [reflexivity|].
    cbn [forallb] in Hw. apply andb_true_iff in Hw as [Hwx Hw].
    cbn [thread]. rewrite Hx.
    + destruct (r_node0 io true e pos x) as [h p1]. rewrite IHch; [reflexivity | assumption|].
      intros H. specialize (Hch H). cbn [forallb] in Hch. now apply andb_true_iff in Hch as [_ Hch].
    + assumption.
    + intros H. specialize (Hch H). cbn [forallb] in Hch. now apply andb_true_iff in Hch as [Hch _].
Qed.

Lemma r_list_flat : forall l io top e pos, forallb wf_node l = true ->
    r_list io top e PUnknown pos l = r_list0 io top e pos l.
Proof.
  intros l io top e. unfold r_list, r_list0. induction l as [|x l IH]; intros pos Hw; [reflexivity|].
  cbn [forallb] in Hw. apply andb_true_iff in Hw as [Hwx Hw]. cbn [thread].
  rewrite r_node_flat by (try assumption; discriminate).
  destruct (r_node0 io top e pos x) as [h p1]. now rewrite IH.
Qed.

Theorem view_denotes : forall io t, wf t -> ~ KnownClass t ->
    parse (view_html io t) = denote t.
Proof.
  intros io t Hw Hk. unfold KnownClass in Hk. apply not_false_is_true in Hk.
  unfold view_html. destruct (existsb has_tokens t) eqn:Et.
  - rewrite r_list_flat by assumption. unfold parse, r_list0, denote.
    rewrite (render_children t) by (try assumption; apply Forall_forall; intros; apply render_node_ok).
    reflexivity.
  - unfold denote. now rewrite no_tokens_dn_list.
Qed.

Theorem builder_denotes : forall t, wf t -> ~ KnownClass t -> parse (builder_html t) = denote t.
Proof. intros. now apply view_denotes. Qed.

Theorem inert_denotes : forall n, wf [n] -> ~ KnownClass [n] -> is_inert_element n = true ->
    parse (inert_html n) = denote [n].
Proof.
  intros n Hw Hk Hi. unfold KnownClass in Hk. apply not_false_is_true in Hk.
  unfold wf in Hw. cbn [forallb] in Hw, Hk. rewrite andb_true_r in Hw, Hk.
  unfold is_inert_element in Hi. destruct n as [| |tag attrs ch| |]; try discriminate.
  apply andb_true_iff in Hi as [_ Hs].
  unfold parse, inert_html. rewrite inert_node_flat by (try assumption; discriminate).
  rewrite (inert_node_ok _ Hw Hk Hs). reflexivity.
Qed.

Theorem inert_eq_builder : forall n, wf [n] -> ~ KnownClass [n] -> is_inert_element n = true ->
    parse (inert_html n) = parse (builder_html [n]).
Proof. intros. rewrite inert_denotes, builder_denotes by assumption. reflexivity. Qed.

(** the macro as it is (inert path wherever eligible) and the builder path alone agree *)
Theorem view_eq_builder : forall t, wf t -> ~ KnownClass t ->
    parse (view_html true t) = parse (builder_html t).
Proof. intros. rewrite view_denotes, builder_denotes by assumption. reflexivity. Qed.

(** F-C18-f: inside <title> the builder path's text separator is literal text *)
Definition title_witness : node :=
  NElem (bs "title") [APlain (bs "id") (VLit (bs "t"))] [NText (bs "a"); NText (bs "b")].

Theorem inert_eq_builder_refuted :
  exists n, wf [n] /\ is_inert_element n = true /\ parse (inert_html n) <> parse (builder_html [n]).
Proof. exists title_witness. repeat split; vm_compute; discriminate. Qed.

(** ---- static parts are stable ---- *)
(** adding an attribute (dynamic or not) to an element leaves its children's rendering alone,
    and its attribute set becomes the old pairs plus the new ones *)
Theorem static_parts_stable_attr : forall io io' tag attrs a ch,
    wf [NElem tag attrs ch] -> wf_attr a = true -> ~ KnownClass [NElem tag attrs ch] ->
    exists kids,
      parse (view_html io [NElem tag attrs ch])
      = [TElem tag (norm_attrs (flat_map attr_pairs attrs)) kids]
      /\ parse (view_html io' [NElem tag (attrs ++ [a]) ch])
         = [TElem tag (norm_attrs (flat_map attr_pairs attrs ++ attr_pairs a)) kids].
Proof.
  intros io io' tag attrs a ch Hw Ha Hk.
  assert (Hw' : wf [NElem tag (attrs ++ [a]) ch]).
  { unfold wf in *. cbn [forallb wf_node] in *. rewrite andb_true_r in Hw. rewrite andb_true_r.
    do 7 (apply andb_true_iff in Hw as [Hw ?]).
    rewrite forallb_app. cbn [forallb]. rewrite Ha, Hw, H, H0, H1, H2, H3, H4, H5. reflexivity. }
  assert (Hk' : ~ KnownClass [NElem tag (attrs ++ [a]) ch]) by exact Hk.
  rewrite !view_denotes by assumption.
  eexists. split; unfold denote, dn_list; cbn [fold_left dn rev app]; unfold denote_attrs;
    rewrite ?flat_map_app; cbn [flat_map]; rewrite ?app_nil_r; reflexivity.
Qed.

(** one-hole contexts: the hole sits among the children of nested elements / fragments *)
Inductive ctx :=
| CHole
| CElem (tag : bytes) (attrs : list attr) (pre : list node) (c : ctx) (post : list node)
| CFrag (pre : list node) (c : ctx) (post : list node).

Fixpoint plug (c : ctx) (n : node) : node :=
  match c with
  | CHole => n
  | CElem tag attrs pre c post => NElem tag attrs (pre ++ plug c n :: post)
  | CFrag pre c post => NFrag (pre ++ plug c n :: post)
  end.

Inductive occurs (x : tree) : list tree -> Prop :=
| occ_here : forall l, In x l -> occurs x l
| occ_deeper : forall l tag a ch, In (TElem tag a ch) l -> occurs x ch -> occurs x l.

Definition is_elem (t : tree) : Prop := match t with TElem _ _ _ => True | TText _ => False end.

Lemma push_char_keeps : forall x c cur, is_elem x -> In x cur -> In x (push_char c cur).
Proof.
  intros x c cur Hx Hin. unfold push_char. destruct cur as [|[s|tag a ch] r].
  - contradiction.
  - destruct Hin as [<-|Hin]; [contradiction|]. now right.
  - now right.
Qed.

Lemma push_text_keeps : forall x s cur, is_elem x -> In x cur -> In x (push_text s cur).
Proof.
  intros x s. induction s as [|c s IH]; intros cur Hx Hin; [exact Hin|].
  rewrite push_text_cons. apply IH; [assumption | now apply push_char_keeps].
Qed.

(** subtrees that are elements survive whatever is rendered after them *)
Lemma occurs_dn_keeps : forall x n cur,
    is_elem x -> occurs x cur -> occurs x (dn n cur).
Proof.
  intros x n. induction n as [s|s|tag attrs ch IH|ch IH|] using node_ind'; intros cur Hx Ho.
  - cbn [dn]. destruct Ho as [l Hin|l tag a ch Hin Hd].
    + apply occ_here. now apply push_text_keeps.
    + apply (occ_deeper x _ tag a ch); [|exact Hd]. now apply push_text_keeps.
  - cbn [dn]. destruct Ho as [l Hin|l tag a ch Hin Hd].
    + apply occ_here. now apply push_text_keeps.
    + apply (occ_deeper x _ tag a ch); [|exact Hd]. now apply push_text_keeps.
  - cbn [dn]. destruct Ho as [l Hin|l tag' a ch' Hin Hd].
    + apply occ_here. now right.
    + apply (occ_deeper x _ tag' a ch'); [right; exact Hin | exact Hd].
  - cbn [dn]. revert cur Ho. induction IH as [|y ch Hy _ IHch]; intros cur Ho; [exact Ho|].
    cbn [fold_left]. apply IHch. now apply Hy.
  - exact Ho.
Qed.

Lemma occurs_dn_list_keeps : forall x l cur, is_elem x -> occurs x cur -> occurs x (dn_list l cur).
Proof.
  intros x l. induction l as [|y l IH]; intros cur Hx Ho; [exact Ho|].
  rewrite dn_list_cons. apply IH; [assumption | now apply occurs_dn_keeps].
Qed.

Lemma occurs_rev : forall x l, occurs x l -> occurs x (rev l).
Proof.
  intros x l [l' Hin|l' tag a ch Hin Hd].
  - apply occ_here. now apply in_rev in Hin.
  - apply (occ_deeper x _ tag a ch); [|exact Hd]. now apply in_rev in Hin.
Qed.


Definition elem_den (tag : bytes) (attrs : list attr) (ch : list node) : tree :=
  TElem tag (denote_attrs attrs) (rev (if mem tag html_void then [] else dn_list ch [])).

Lemma forallb_mid : forall A (p : A -> bool) pre x post,
    forallb p (pre ++ x :: post) = true -> p x = true.
Proof.
  intros A p pre x post H. rewrite forallb_app in H. apply andb_true_iff in H as [_ H].
  cbn [forallb] in H. now apply andb_true_iff in H as [H _].
Qed.

Lemma wf_plug_inner : forall c s, wf_node (plug c s) = true -> wf_node s = true.
Proof.
  induction c as [|t0 a0 pre c IH post|pre c IH post]; intros s H; [exact H| |].
  - cbn [plug wf_node] in H. do 3 (apply andb_true_iff in H as [H _]).
    apply andb_true_iff in H as [_ H]. apply IH. now apply forallb_mid in H.
  - cbn [plug wf_node] in H. apply IH. now apply forallb_mid in H.
Qed.

Lemma nta_plug_inner : forall c s, nta (plug c s) = true -> nta s = true.
Proof.
  induction c as [|t0 a0 pre c IH post|pre c IH post]; intros s H; [exact H| |].
  - cbn [plug nta] in H. apply andb_true_iff in H as [_ H]. apply IH. now apply forallb_mid in H.
  - cbn [plug nta] in H. apply IH. now apply forallb_mid in H.
Qed.

(** the denotation of an element occurs in the denotation of whatever it is plugged into *)
Lemma occurs_plug : forall c tag attrs ch cur,
    wf_node (plug c (NElem tag attrs ch)) = true ->
    occurs (elem_den tag attrs ch) (dn (plug c (NElem tag attrs ch)) cur).
Proof.
  induction c as [|t0 a0 pre c IH post|pre c IH post]; intros tag attrs ch cur H.
  - cbn [plug dn]. apply occ_here. now left.
  - cbn [plug wf_node] in H. do 2 (apply andb_true_iff in H as [H _]).
    apply andb_true_iff in H as [H Hv]. apply andb_true_iff in H as [_ Hch].
    assert (Ev : mem t0 html_void = false).
    { destruct (mem t0 html_void); [|reflexivity]. destruct pre; discriminate. }
    cbn [plug dn]. rewrite Ev.
    eapply (occ_deeper _ _ t0); [now left|]. apply occurs_rev.
    fold (dn_list (pre ++ plug c (NElem tag attrs ch) :: post) []).
    rewrite dn_list_app, dn_list_cons. apply occurs_dn_list_keeps; [exact I|].
    apply IH. now apply forallb_mid in Hch.
  - cbn [plug wf_node] in H. cbn [plug dn].
    fold (dn_list (pre ++ plug c (NElem tag attrs ch) :: post) cur).
    rewrite dn_list_app, dn_list_cons. apply occurs_dn_list_keeps; [exact I|].
    apply IH. now apply forallb_mid in H.
Qed.

(** A static (or any) element renders as the same subtree — its own denotation, which is also
    what it renders to on its own — wherever it is placed: next to static or dynamic siblings,
    under elements with or without dynamic attributes, with the inert path on or off. *)
Theorem static_parts_stable : forall c io io' tag attrs ch,
    wf [plug c (NElem tag attrs ch)] -> ~ KnownClass [plug c (NElem tag attrs ch)] ->
    exists x,
      parse (view_html io' [NElem tag attrs ch]) = [x]
      /\ occurs x (parse (view_html io [plug c (NElem tag attrs ch)])).
Proof.
  intros c io io' tag attrs ch Hw Hk. exists (elem_den tag attrs ch).
  assert (Hw1 : wf_node (plug c (NElem tag attrs ch)) = true).
  { unfold wf in Hw. cbn [forallb] in Hw. now rewrite andb_true_r in Hw. }
  assert (Hk1 : nta (plug c (NElem tag attrs ch)) = true).
  { unfold KnownClass in Hk. apply not_false_is_true in Hk. cbn [forallb] in Hk.
    now rewrite andb_true_r in Hk. }
  split.
  - rewrite view_denotes.
    + reflexivity.
    + unfold wf. cbn [forallb]. rewrite andb_true_r. now apply wf_plug_inner in Hw1.
    + unfold KnownClass. cbn [forallb]. rewrite andb_true_r. apply nta_plug_inner in Hk1.
      now rewrite Hk1.
  - rewrite view_denotes by assumption. unfold denote. apply occurs_rev.
    unfold dn_list. cbn [fold_left]. now apply occurs_plug.
Qed.

(** ---- the hypotheses are satisfiable by non-trivial templates ---- *)
Definition ex_static : node :=
  NElem (bs "p") [APlain (bs "id") (VLit (bs "a<""b")); APlain (bs "class") (VLit (bs "  a   b "));
                  APlain (bs "style") (VLit (bs "a:b")); APlain (bs "hidden") VNone]
        [NText (bs "x<y&z"); NText (bs "w"); NElem (bs "br") [] [];
         NElem (bs "script") [] [NText (bs "a<b")]; NElem (bs "b") [] [NText (bs "c")]].
Definition ex_template : list node :=
  [NElem (bs "div") [AClassTog (bs "on") (Some true); APlain (bs "title") (VDynStr (bs "t"))]
         [NText (bs "a"); NBlock (bs "<b>"); ex_static; NFrag [NText (bs "z")]]].

Example ex_wf : wf ex_template /\ ~ KnownClass ex_template /\ is_inert_element ex_static = true.
Proof. repeat split; try (vm_compute; congruence). Qed.
Example ex_paths_differ_textually :
  view_html true ex_template <> builder_html ex_template
  /\ parse (view_html true ex_template) = parse (builder_html ex_template).
Proof. split; [vm_compute; discriminate | vm_compute; reflexivity]. Qed.

(** an event listener / a comment keep an otherwise static element off the inert path, and change
    nothing in what is rendered *)
Definition ex_silent : list node :=
  [NElem (bs "div") []
     [NElem (bs "button") [APlain (bs "id") (VLit (bs "b")); ASilent] [NText (bs "x<")];
      NElem (bs "p") [APlain (bs "id") (VLit (bs "c"))] [NComment; NText (bs "y")];
      NElem (bs "p") [APlain (bs "id") (VLit (bs "d"))] [NText (bs "z")]]].
Example ex_silent_ok :
  wf ex_silent /\ ~ KnownClass ex_silent
  /\ is_inert_element (NElem (bs "button") [APlain (bs "id") (VLit (bs "b")); ASilent] [NText (bs "x<")]) = false
  /\ is_inert_element (NElem (bs "p") [APlain (bs "id") (VLit (bs "c"))] [NComment; NText (bs "y")]) = false
  /\ is_inert_element (NElem (bs "p") [APlain (bs "id") (VLit (bs "d"))] [NText (bs "z")]) = true
  /\ parse (view_html true ex_silent) = denote ex_silent.
Proof. repeat split; try (vm_compute; congruence). Qed.

Lemma void_tables_agree : forall tag, beq tag k_param = false -> mem tag macro_void = b_void tag.
Proof. intros tag H. now rewrite b_void_eq, void_agree. Qed.

Lemma raw_tables_agree : forall tag, negb (mem tag macro_raw) = b_escape tag || b_whole tag.
Proof.
  intros tag. change (mem tag macro_raw) with (mem tag parser_raw).
  destruct (mem tag parser_raw) eqn:Er.
  - now destruct (b_escape_raw tag Er) as [-> ->].
  - destruct (mem tag parser_rcdata) eqn:Ec.
    + now destruct (rcdata_cases tag Ec) as [(-> & -> & ->) | (-> & -> & ->)].
    + now destruct (b_escape_data tag Er Ec) as [-> ->].
Qed.

(** An element resets the escape flag: what it renders — on either path — does not depend on
    the flag (or position) handed down by its parent, in particular not on whether an ancestor
    is a raw-text element such as <noscript>.  (tachys: [HtmlElement::to_html_with_buf] ignores
    [_escape] and passes [E::ESCAPE_CHILDREN] on; macro: [inert_element_to_tokens] recomputes
    [escape] from the element's own name.) *)
Lemma element_ignores_parent_escape : forall io top pt f e1 e2 pos1 pos2 tag attrs ch,
    r_node io top e1 pt pos1 (NElem tag attrs ch) = r_node io top e2 pt pos2 (NElem tag attrs ch)
    /\ inert_node f e1 (NElem tag attrs ch) = inert_node f e2 (NElem tag attrs ch).
Proof. intros. split; reflexivity. Qed.
