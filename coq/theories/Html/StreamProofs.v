(** C07 — proofs about the streaming model, part 1: the StreamBuilder state machine
    ([poll_next]) over arbitrary futures. *)
From Coq Require Import List NArith Bool Lia Arith.
From LV Require Import Html.Stream.
Import ListNotations.
Local Open Scope nat_scope.

Arguments sync_buf {K KO}.
Arguments chunks {K KO}.
Arguments pending {K KO}.
Arguments pending_ooo {K KO}.
Arguments bid {K KO}.
Arguments set_sync {K KO}.
Arguments set_chunks {K KO}.
Arguments set_pending {K KO}.
Arguments set_pooo {K KO}.
Arguments set_bid {K KO}.
Arguments oid {K KO}.
Arguments ochunks {K KO}.
Arguments oreplace {K KO}.
Arguments sync_payloads {K KO}.
Arguments non_sync {K KO}.
Arguments coalesce {K KO}.
Arguments rs_sb {K KO}.
Arguments rs_done {K KO}.
Arguments rs_reg {K KO}.
Arguments rs_ended {K KO}.

(** nothing went wrong in a run: no poll bound hit, no fuel exhaustion, no panic, no stall *)
Definition clean (l : list obs) : Prop :=
  forall o, In o l -> o <> OBound /\ o <> OFuel /\ o <> OPanic /\ o <> OStall.
Lemma clean_nil : clean [].
Proof. intros o []. Qed.
Lemma clean_cons o l : o <> OBound -> o <> OFuel -> o <> OPanic -> o <> OStall -> clean l ->
  clean (o :: l).
Proof. intros A B C D E x [Hx|Hx]; subst; auto. Qed.
Lemma clean_app a b : clean a -> clean b -> clean (a ++ b).
Proof. intros A B o Ho. apply in_app_iff in Ho. destruct Ho; auto. Qed.

Section MachineProofs.
Variables K KO : Type.
Variable res : K -> (fid -> bool) -> list (chunk K KO).
Variable reso : KO -> (fid -> bool) -> ooo_chunk K KO.
Notation chunkT := (chunk K KO).
Notation sbT := (sb K KO).
Notation poll := (poll_next K KO res reso).
Notation outT := (pres * sbT * option fid)%type.

(* ------------------------------------------------------------------ one unfolding of poll_next *)
(** silent moves: poll_next calls itself on the new state *)
Inductive step1 (d : fid -> bool) : sbT -> sbT -> Prop :=
| s_ready f k b
    (Hp : pending b = Some (f, k)) (Hd : d f = true) :
    step1 d b (set_chunks (set_pending b None) (res k d ++ chunks b))
| s_sync v rest b buf rest' po
    (Hp : pending b = None) (Hc : chunks b = CSync v :: rest)
    (Hco : coalesce (sync_buf b ++ v) rest (pending_ooo b) = (buf, rest', po)) :
    step1 d b (set_pooo (set_chunks (set_sync b buf) rest') po)
| s_async f k rest b
    (Hp : pending b = None) (Hc : chunks b = CAsync f k :: rest) (Hs : sync_buf b = []) :
    step1 d b (set_chunks (set_pending b (Some (f, k))) rest)
| s_ooo g k rest b
    (Hp : pending b = None) (Hc : chunks b = COoo g k :: rest) (Hs : sync_buf b = []) :
    step1 d b (set_chunks (set_pooo b (pending_ooo b ++ [(g, k)])) rest)
| s_splice g k rest b start e
    (Hp : pending b = None) (Hc : chunks b = []) (Ho : pending_ooo b = (g, k) :: rest)
    (Hd : d g = true)
    (Hfo : find_idx (is_open (oid (reso k d))) (sync_buf b) = Some start)
    (Hfc : find_idx (is_close (oid (reso k d))) (sync_buf b) = Some e)
    (Hlt : Nat.ltb e start = false) :
    step1 d b
      (set_chunks
         (set_sync (set_pooo b rest)
            (firstn start (sync_buf b)
             ++ (if oreplace (reso k d) then []
                 else firstn (e - S start) (skipn (S start) (sync_buf b)))
             ++ concat (rev (sync_payloads (ochunks (reso k d))))
             ++ skipn (S e) (sync_buf b)))
         (rev (non_sync (ochunks (reso k d))) ++ []))
| s_template g k rest b
    (Hp : pending b = None) (Hc : chunks b = []) (Ho : pending_ooo b = (g, k) :: rest)
    (Hd : d g = true)
    (Hfo : find_idx (is_open (oid (reso k d))) (sync_buf b) = None) :
    step1 d b
      (set_chunks
         (set_sync (set_pooo b rest)
            (sync_buf b ++ [TTplS (oid (reso k d))]
             ++ concat (rev (sync_payloads (ochunks (reso k d))))
             ++ [TTplE (oid (reso k d)) (oreplace (reso k d))]))
         (non_sync (ochunks (reso k d)) ++ [])).

(** returns *)
Inductive ret1 (d : fid -> bool) : sbT -> outT -> Prop :=
| r_pending f k b
    (Hp : pending b = Some (f, k)) (Hd : d f = false) : ret1 d b (PPending, b, Some f)
| r_async_flush f k rest b
    (Hp : pending b = None) (Hc : chunks b = CAsync f k :: rest) (Hs : sync_buf b <> []) :
    ret1 d b (PSome (sync_buf b),
              set_sync (set_chunks (set_pending b (Some (f, k))) rest) [], None)
| r_ooo_flush g k rest b
    (Hp : pending b = None) (Hc : chunks b = COoo g k :: rest) (Hs : sync_buf b <> []) :
    ret1 d b (PSome (sync_buf b),
              set_sync (set_chunks (set_pooo b (pending_ooo b ++ [(g, k)])) rest) [], None)
| r_rot_pending g k rest b
    (Hp : pending b = None) (Hc : chunks b = []) (Ho : pending_ooo b = (g, k) :: rest)
    (Hd : d g = false) (Hs : sync_buf b = []) :
    ret1 d b (PPending, set_pooo b (rest ++ [(g, k)]), Some g)
| r_rot_some g k rest b
    (Hp : pending b = None) (Hc : chunks b = []) (Ho : pending_ooo b = (g, k) :: rest)
    (Hd : d g = false) (Hs : sync_buf b <> []) :
    ret1 d b (PSome (sync_buf b), set_sync (set_pooo b (rest ++ [(g, k)])) [], Some g)
| r_none b
    (Hp : pending b = None) (Hc : chunks b = []) (Ho : pending_ooo b = [])
    (Hs : sync_buf b = []) :
    ret1 d b (PNone, b, None)
| r_last b
    (Hp : pending b = None) (Hc : chunks b = []) (Ho : pending_ooo b = [])
    (Hs : sync_buf b <> []) :
    ret1 d b (PSome (sync_buf b), set_sync b [], None)
| r_panic_unwrap g k rest b start
    (Hp : pending b = None) (Hc : chunks b = []) (Ho : pending_ooo b = (g, k) :: rest)
    (Hd : d g = true)
    (Hfo : find_idx (is_open (oid (reso k d))) (sync_buf b) = Some start)
    (Hfc : find_idx (is_close (oid (reso k d))) (sync_buf b) = None) :
    ret1 d b (PPanic, set_pooo b rest, None)
| r_panic_sub g k rest b start e
    (Hp : pending b = None) (Hc : chunks b = []) (Ho : pending_ooo b = (g, k) :: rest)
    (Hd : d g = true)
    (Hfo : find_idx (is_open (oid (reso k d))) (sync_buf b) = Some start)
    (Hfc : find_idx (is_close (oid (reso k d))) (sync_buf b) = Some e)
    (Hlt : Nat.ltb e start = true) :
    ret1 d b (PPanic, set_pooo b rest, None).

Lemma is_nil_false {A} (l : list A) : is_nil l = false -> l <> [].
Proof. destruct l; simpl; congruence. Qed.
Lemma is_nil_true {A} (l : list A) : is_nil l = true -> l = [].
Proof. destruct l; simpl; congruence. Qed.

Ltac nilfin := eauto; try (apply is_nil_true; assumption); try (apply is_nil_false; assumption).

Lemma poll_unfold : forall fuel d b x,
  poll (S fuel) d b = x ->
  (exists b', step1 d b b' /\ poll fuel d b' = x) \/ ret1 d b x.
Proof.
  intros fuel d b x H. cbn [poll_next] in H.
  destruct (pending b) as [[f k]|] eqn:Ep.
  - destruct (d f) eqn:Ed.
    + left. eexists. split; [eapply s_ready; eauto|exact H].
    + right. subst x. eapply r_pending; eauto.
  - destruct (chunks b) as [|[v|f k|g k] rest] eqn:Ec.
    + destruct (pending_ooo b) as [|[g k] rest] eqn:Eo.
      * destruct (is_nil (sync_buf b)) eqn:En; subst x; right.
        -- apply r_none; nilfin.
        -- apply r_last; nilfin.
      * destruct (d g) eqn:Ed.
        -- cbn [pending_ooo set_pooo sync_buf chunks] in H.
           destruct (find_idx (is_open (oid (reso k d))) (sync_buf b)) as [start|] eqn:Es.
           ++ destruct (find_idx (is_close (oid (reso k d))) (sync_buf b)) as [e|] eqn:Ee.
              ** destruct (Nat.ltb e start) eqn:El.
                 --- right. subst x. eapply r_panic_sub; eauto.
                 --- left. eexists. split; [eapply s_splice; eauto|].
                     cbn [chunks set_sync set_pooo] in H. rewrite Ec in H. exact H.
              ** right. subst x. eapply r_panic_unwrap; eauto.
           ++ left. eexists. split; [eapply s_template; eauto|].
              cbn [chunks set_sync set_pooo] in H. rewrite Ec in H. exact H.
        -- cbn [pending_ooo set_pooo sync_buf chunks] in H.
           destruct (is_nil (sync_buf b)) eqn:En; subst x; right.
           ++ eapply r_rot_pending; nilfin.
           ++ eapply r_rot_some; nilfin.
    + destruct (coalesce (sync_buf b ++ v) rest (pending_ooo b)) as [[buf rest'] po] eqn:Eco.
      left. eexists. split; [eapply s_sync; eauto|exact H].
    + cbn [sync_buf set_chunks set_pending] in H.
      destruct (is_nil (sync_buf b)) eqn:En.
      * left. eexists. split; [eapply s_async; nilfin|exact H].
      * right. subst x. eapply r_async_flush; nilfin.
    + cbn [sync_buf set_chunks set_pooo] in H.
      destruct (is_nil (sync_buf b)) eqn:En.
      * left. eexists. split; [eapply s_ooo; nilfin|exact H].
      * right. subst x. eapply r_ooo_flush; nilfin.
Qed.

(** generic induction: a property of runs that is preserved backwards by silent moves *)
Lemma poll_ind_gen (d : fid -> bool) (P : sbT -> outT -> Prop) :
  (forall b x, ret1 d b x -> P b x) ->
  (forall b b' x, step1 d b b' -> P b' x -> P b x) ->
  (forall b, P b (PFuel, b, None)) ->
  forall fuel b, P b (poll fuel d b).
Proof.
  intros Hr Hs Hf. induction fuel as [|fuel IH]; intro b.
  - cbn. apply Hf.
  - destruct (poll_unfold fuel d b _ eq_refl) as [[b' [S1 E]]|R].
    + rewrite <- E. eapply Hs; eauto.
    + apply Hr; auto.
Qed.

(* ------------------------------------------------------------------ measure, fuel *)
Variable wK : K -> nat.
Variable wKO : KO -> nat.
Definition cw (c : chunkT) : nat :=
  match c with CSync _ => 1 | CAsync _ k => 2 + wK k | COoo _ k => 2 + wKO k end.
Definition cws (l : list chunkT) : nat := fold_right (fun c n => cw c + n) 0 l.
Definition pw (p : option (fid * K)) : nat :=
  match p with Some (_, k) => 1 + wK k | None => 0 end.
Definition pow (l : list (fid * KO)) : nat :=
  fold_right (fun fk n => 1 + wKO (snd fk) + n) 0 l.
Definition mu (b : sbT) : nat := cws (chunks b) + pw (pending b) + pow (pending_ooo b).

Hypothesis res_w : forall k d, cws (res k d) <= wK k.
Hypothesis reso_w : forall k d, cws (ochunks (reso k d)) <= wKO k.

Lemma cws_app l m : cws (l ++ m) = cws l + cws m.
Proof. induction l; simpl; lia. Qed.
Lemma pow_app l m : pow (l ++ m) = pow l + pow m.
Proof. induction l; simpl; lia. Qed.
Lemma cws_rev l : cws (rev l) = cws l.
Proof. induction l; simpl; [auto|rewrite cws_app; simpl; lia]. Qed.
Lemma cws_non_sync l : cws (non_sync l) <= cws l.
Proof. induction l as [|[s|f k|f k] l IH]; simpl; lia. Qed.

Lemma coalesce_w : forall c buf po buf' c' po',
  coalesce buf c po = (buf', c', po') -> cws c' + pow po' <= cws c + pow po.
Proof.
  induction c as [|[s|f k|f k] c IH]; intros buf po buf' c' po' H; simpl in H.
  - inversion H; subst; simpl; lia.
  - apply IH in H. simpl. lia.
  - inversion H; subst; simpl; lia.
  - inversion H; subst. rewrite pow_app. simpl. lia.
Qed.

Lemma step1_mu d b b' : step1 d b b' -> mu b' < mu b.
Proof.
  intros S; destruct S; unfold mu; simpl.
  - rewrite Hp. simpl. rewrite cws_app. specialize (res_w k d). lia.
  - rewrite Hp, Hc. simpl. apply coalesce_w in Hco. lia.
  - rewrite Hp, Hc. simpl. lia.
  - rewrite Hp, Hc. simpl. rewrite pow_app. simpl. lia.
  - rewrite Hp, Hc, Ho. simpl. rewrite app_nil_r, cws_rev.
    pose proof (cws_non_sync (ochunks (reso k d))). specialize (reso_w k d). lia.
  - rewrite Hp, Hc, Ho. simpl. rewrite app_nil_r.
    pose proof (cws_non_sync (ochunks (reso k d))). specialize (reso_w k d). lia.
Qed.

Lemma ret1_mu d b x : ret1 d b x -> mu (snd (fst x)) <= mu b.
Proof.
  intros R; destruct R; unfold mu; simpl; try lia.
  - rewrite Hp, Hc. simpl. lia.
  - rewrite Hp, Hc. simpl. rewrite pow_app. simpl. lia.
  - rewrite Ho. simpl. rewrite pow_app. simpl. lia.
  - rewrite Ho. simpl. rewrite pow_app. simpl. lia.
  - rewrite Ho. simpl. lia.
  - rewrite Ho. simpl. lia.
Qed.

Lemma poll_mu : forall fuel d b, mu (snd (fst (poll fuel d b))) <= mu b.
Proof.
  intros fuel d b.
  apply (poll_ind_gen d (fun b x => mu (snd (fst x)) <= mu b)).
  - intros b0 x R. apply (ret1_mu d); auto.
  - intros b0 b1 x S1 IH. apply (step1_mu d) in S1. lia.
  - intros b0. simpl. lia.
Qed.

Lemma poll_fuel_ok : forall fuel d b, mu b < fuel -> fst (fst (poll fuel d b)) <> PFuel.
Proof.
  induction fuel as [|fuel IH]; intros d b Hlt; [lia|].
  destruct (poll_unfold fuel d b _ eq_refl) as [[b' [S1 E]]|R].
  - rewrite <- E. apply IH. apply (step1_mu d) in S1. lia.
  - destruct R; simpl; discriminate.
Qed.


(* ------------------------------------------------------------------ who holds the waker *)
Definition holds (b : sbT) (f : fid) : Prop :=
  (exists k, pending b = Some (f, k)) \/ In f (map fst (pending_ooo b)).

(** the future reported as polled-and-pending is incomplete and is kept by the stream;
    Pending is only ever returned after such a poll *)
Lemma ret1_waker d b x : ret1 d b x ->
  (forall f, snd x = Some f -> d f = false /\ holds (snd (fst x)) f) /\
  (fst (fst x) = PPending -> snd x <> None).
Proof.
  intros R; destruct R; simpl; split; try congruence; intros f0 E; inversion E; subst;
    split; auto; unfold holds; simpl.
  - left; eauto.
  - right. rewrite map_app, in_app_iff. simpl. auto.
  - right. rewrite map_app, in_app_iff. simpl. auto.
Qed.

Lemma poll_waker : forall fuel d b,
  (forall f, snd (poll fuel d b) = Some f ->
     d f = false /\ holds (snd (fst (poll fuel d b))) f) /\
  (fst (fst (poll fuel d b)) = PPending -> snd (poll fuel d b) <> None).
Proof.
  intros fuel d b.
  apply (poll_ind_gen d (fun b x =>
    (forall f, snd x = Some f -> d f = false /\ holds (snd (fst x)) f) /\
    (fst (fst x) = PPending -> snd x <> None))).
  - intros b0 x R. apply (ret1_waker d b0); auto.
  - intros b0 b1 x S1 IH. exact IH.
  - intros b0. simpl. split; congruence.
Qed.

(* ------------------------------------------------------------------ futures of a state *)
Variable fK : K -> list fid.
Variable fKO : KO -> list fid.
Definition cfuts (c : chunkT) : list fid :=
  match c with CSync _ => [] | CAsync f k => f :: fK k | COoo f k => f :: fKO k end.
Definition csfuts (l : list chunkT) : list fid := flat_map cfuts l.
Definition pfuts (p : option (fid * K)) : list fid :=
  match p with Some (f, k) => f :: fK k | None => [] end.
Definition pofuts (l : list (fid * KO)) : list fid :=
  flat_map (fun fk => fst fk :: fKO (snd fk)) l.
Definition sbfuts (b : sbT) : list fid :=
  csfuts (chunks b) ++ pfuts (pending b) ++ pofuts (pending_ooo b).

Hypothesis res_f : forall k d, incl (csfuts (res k d)) (fK k).
Hypothesis reso_f : forall k d, incl (csfuts (ochunks (reso k d))) (fKO k).

Lemma csfuts_app l m : csfuts (l ++ m) = csfuts l ++ csfuts m.
Proof. unfold csfuts. apply flat_map_app. Qed.
Lemma pofuts_app l m : pofuts (l ++ m) = pofuts l ++ pofuts m.
Proof. unfold pofuts. apply flat_map_app. Qed.
Lemma csfuts_non_sync l : incl (csfuts (non_sync l)) (csfuts l).
Proof.
  induction l as [|[s|f k|f k] l IH]; simpl; auto using incl_refl.
  - apply incl_cons; [left; auto|]. apply incl_app; [apply incl_tl, incl_appl, incl_refl|].
    apply incl_tl, incl_appr; auto.
  - apply incl_cons; [left; auto|]. apply incl_app; [apply incl_tl, incl_appl, incl_refl|].
    apply incl_tl, incl_appr; auto.
Qed.
Lemma csfuts_rev l : incl (csfuts (rev l)) (csfuts l).
Proof.
  intros x Hx. unfold csfuts in *. rewrite in_flat_map in *.
  destruct Hx as [c [Hc Hx]]. exists c. split; auto. apply in_rev; auto.
Qed.

Lemma coalesce_f : forall c buf po buf' c' po',
  coalesce buf c po = (buf', c', po') ->
  incl (csfuts c' ++ pofuts po') (csfuts c ++ pofuts po).
Proof.
  induction c as [|[s|f k|f k] c IH]; intros buf po buf' c' po' H; simpl in H.
  - inversion H; subst. apply incl_refl.
  - apply IH in H. simpl. exact H.
  - inversion H; subst. apply incl_refl.
  - inversion H; subst. rewrite pofuts_app. simpl. rewrite app_nil_r.
    intros x Hx. rewrite !in_app_iff in *. simpl in *. rewrite in_app_iff.
    intuition.
Qed.

Ltac incl_solve :=
  intros x Hx; repeat (rewrite ?in_app_iff in *; simpl in * );
  repeat (rewrite ?in_app_iff in * ); intuition.

Lemma step1_f d b b' : step1 d b b' -> incl (sbfuts b') (sbfuts b).
Proof.
  intros S; destruct S; unfold sbfuts; simpl.
  - rewrite Hp. simpl. rewrite csfuts_app. pose proof (res_f k d) as R.
    intros x Hx. rewrite !in_app_iff in *. simpl. rewrite in_app_iff.
    destruct Hx as [[Hx|Hx]|Hx]; auto.
  - rewrite Hp, Hc. simpl. apply coalesce_f in Hco.
    intros x Hx. rewrite in_app_iff in Hx. destruct Hx as [Hx|Hx].
    + specialize (Hco x). rewrite !in_app_iff in *. intuition.
    + specialize (Hco x). rewrite !in_app_iff in *. intuition.
  - rewrite Hp, Hc. simpl. incl_solve.
  - rewrite Hp, Hc. simpl. rewrite pofuts_app. simpl. rewrite app_nil_r. incl_solve.
  - rewrite Hp, Hc, Ho. simpl. rewrite app_nil_r.
    pose proof (reso_f k d) as R. pose proof (csfuts_non_sync (ochunks (reso k d))) as N1.
    pose proof (csfuts_rev (non_sync (ochunks (reso k d)))) as N2.
    intros x Hx. rewrite !in_app_iff in *. simpl. rewrite in_app_iff.
    destruct Hx as [Hx|Hx]; auto. apply N2, N1, R in Hx. auto.
  - rewrite Hp, Hc, Ho. simpl. rewrite app_nil_r.
    pose proof (reso_f k d) as R. pose proof (csfuts_non_sync (ochunks (reso k d))) as N1.
    intros x Hx. rewrite !in_app_iff in *. simpl. rewrite in_app_iff.
    destruct Hx as [Hx|Hx]; auto.
Qed.

Lemma ret1_f d b x : ret1 d b x -> incl (sbfuts (snd (fst x))) (sbfuts b).
Proof.
  intros R; destruct R; unfold sbfuts; simpl; try apply incl_refl.
  - rewrite Hp, Hc. simpl. incl_solve.
  - rewrite Hp, Hc. simpl. rewrite pofuts_app. simpl. rewrite app_nil_r. incl_solve.
  - rewrite Ho. rewrite pofuts_app. simpl. rewrite app_nil_r. incl_solve.
  - rewrite Ho. rewrite pofuts_app. simpl. rewrite app_nil_r. incl_solve.
  - rewrite Ho. simpl. incl_solve.
  - rewrite Ho. simpl. incl_solve.
Qed.

Lemma poll_f : forall fuel d b, incl (sbfuts (snd (fst (poll fuel d b)))) (sbfuts b).
Proof.
  intros fuel d b.
  apply (poll_ind_gen d (fun b x => incl (sbfuts (snd (fst x))) (sbfuts b))).
  - intros b0 x R. apply (ret1_f d); auto.
  - intros b0 b1 x S1 IH. eapply incl_tran; [exact IH|apply (step1_f d); auto].
  - intros b0. apply incl_refl.
Qed.

Lemma holds_sbfuts b f : holds b f -> In f (sbfuts b).
Proof.
  unfold holds, sbfuts. intros [[k H]|H].
  - rewrite H. simpl. rewrite !in_app_iff. simpl. auto.
  - rewrite !in_app_iff. right. right. unfold pofuts. rewrite in_flat_map.
    rewrite in_map_iff in H. destruct H as [[g k] [E I]]. simpl in E. subst.
    exists (f, k). simpl. auto.
Qed.

(** Pending is returned only while some future of the stream is incomplete *)
Lemma poll_pending_incomplete fuel d b :
  fst (fst (poll fuel d b)) = PPending ->
  exists f, snd (poll fuel d b) = Some f /\ d f = false /\ In f (sbfuts b).
Proof.
  intros E. destruct (poll_waker fuel d b) as [W1 W2]. specialize (W2 E).
  destruct (snd (poll fuel d b)) as [f|] eqn:Ew; [|congruence].
  exists f. destruct (W1 f eq_refl) as [Hd Hh]. repeat split; auto.
  apply (poll_f fuel d b). apply holds_sbfuts; auto.
Qed.

(* ------------------------------------------------------------------ progress *)
Definition phi (b : sbT) : nat := mu b + (if is_nil (sync_buf b) then 0 else 1).

Lemma phi_le b : phi b <= mu b + 1.
Proof. unfold phi. destruct (is_nil (sync_buf b)); lia. Qed.

(** a poll that yields a chunk yields a non-empty one, leaves the buffer empty and
    strictly decreases [phi] *)
Lemma ret1_some d b x s : ret1 d b x -> fst (fst x) = PSome s ->
  s <> [] /\ sync_buf (snd (fst x)) = [] /\ phi (snd (fst x)) < phi b.
Proof.
  intros R E; destruct R; simpl in E; try discriminate; inversion E; subst;
    (split; [auto|split; [reflexivity|]]); unfold phi, mu; simpl;
    destruct (sync_buf b) eqn:Es; try congruence; simpl.
  - rewrite Hp, Hc. simpl. lia.
  - rewrite Hp, Hc. simpl. rewrite pow_app. simpl. lia.
  - rewrite Ho, pow_app. simpl. lia.
  - lia.
Qed.

Lemma poll_some : forall fuel d b s,
  fst (fst (poll fuel d b)) = PSome s ->
  s <> [] /\ sync_buf (snd (fst (poll fuel d b))) = [] /\ phi (snd (fst (poll fuel d b))) < phi b.
Proof.
  intros fuel d b.
  apply (poll_ind_gen d (fun b x => forall s, fst (fst x) = PSome s ->
    s <> [] /\ sync_buf (snd (fst x)) = [] /\ phi (snd (fst x)) < phi b)).
  - intros b0 x R s E. apply (ret1_some d b0 x s); auto.
  - intros b0 b1 x S1 IH s E. destruct (IH s E) as [A [B C]]. repeat split; auto.
    apply (step1_mu d) in S1. pose proof (phi_le b1). unfold phi at 2.
    destruct (is_nil (sync_buf b0)); lia.
  - intros b0 s E. simpl in E. discriminate.
Qed.

(** None is returned exactly from an exhausted stream, and is returned again ever after *)
Lemma ret1_none d b x : ret1 d b x -> fst (fst x) = PNone ->
  snd (fst x) = b /\ mu b = 0 /\ sync_buf b = [].
Proof.
  intros R E; destruct R; simpl in E; try discriminate. simpl. repeat split; auto.
  unfold mu. rewrite Hp, Hc, Ho. reflexivity.
Qed.


(* ------------------------------------------------------------------ in-order content *)
Variable cK : K -> html.
Variable okK : K -> Prop.
Definition okc (c : chunkT) : Prop :=
  match c with CSync _ => True | CAsync _ k => okK k | COoo _ _ => False end.
Definition flat1 (c : chunkT) : html :=
  match c with CSync s => s | CAsync _ k => cK k | COoo _ _ => [] end.
Definition flat (l : list chunkT) : html := flat_map flat1 l.

(** [cK k] is what the future [k] eventually contributes, whenever it is resolved *)
Hypothesis res_ok : forall k d, okK k -> Forall okc (res k d) /\ flat (res k d) = cK k.

Definition io_ok (b : sbT) : Prop :=
  Forall okc (chunks b)
  /\ match pending b with Some (_, k) => okK k | None => True end
  /\ pending_ooo b = [].
Definition pcontent (p : option (fid * K)) : html :=
  match p with Some (_, k) => cK k | None => [] end.
Definition content (b : sbT) : html := sync_buf b ++ pcontent (pending b) ++ flat (chunks b).
Definition out (r : pres) : html := match r with PSome s => s | _ => [] end.

Lemma flat_app l m : flat (l ++ m) = flat l ++ flat m.
Proof. unfold flat. apply flat_map_app. Qed.

Lemma coalesce_io : forall c buf po buf' c' po',
  Forall okc c -> coalesce buf c po = (buf', c', po') ->
  po' = po /\ Forall okc c' /\ buf' ++ flat c' = buf ++ flat c.
Proof.
  induction c as [|[s|f k|f k] c IH]; intros buf po buf' c' po' F H; simpl in H.
  - inversion H; subst. auto.
  - inversion F; subst. destruct (IH _ _ _ _ _ H3 H) as [A [B C]]. repeat split; auto.
    rewrite C. simpl. rewrite app_assoc. reflexivity.
  - inversion H; subst. auto.
  - inversion F; subst. simpl in H2. contradiction.
Qed.

Lemma step1_io d b b' : step1 d b b' -> io_ok b -> io_ok b' /\ content b' = content b.
Proof.
  intros S [Fc [Fp Fo]]; destruct S; unfold io_ok, content; simpl.
  - rewrite Hp in *. simpl. destruct (res_ok k d Fp) as [A B].
    repeat split; auto.
    + apply Forall_app; auto.
    + rewrite flat_app, B. reflexivity.
  - rewrite Hp, Hc in *. inversion Fc; subst.
    destruct (coalesce_io _ _ _ _ _ _ H2 Hco) as [A [B C]]. subst po.
    repeat split; auto. simpl. rewrite C. simpl. rewrite <- app_assoc. reflexivity.
  - rewrite Hp, Hc in *. inversion Fc; subst. simpl in *.
    repeat split; auto; try (rewrite Hs; reflexivity).
  - rewrite Hc in Fc. inversion Fc; subst. simpl in *. contradiction.
  - rewrite Fo in Ho. discriminate.
  - rewrite Fo in Ho. discriminate.
Qed.

Lemma ret1_io d b x : ret1 d b x -> io_ok b ->
  io_ok (snd (fst x)) /\ content b = out (fst (fst x)) ++ content (snd (fst x))
  /\ fst (fst x) <> PPanic /\ (fst (fst x) = PNone -> content b = []).
Proof.
  intros R [Fc [Fp Fo]]; destruct R; unfold io_ok, content; simpl;
    try (rewrite Fo in Ho; discriminate).
  - repeat split; auto; congruence.
  - rewrite Hp, Hc in *. inversion Fc; subst. simpl in *.
    repeat split; auto; congruence.
  - rewrite Hc in Fc. inversion Fc; subst. simpl in *. contradiction.
  - rewrite Hp, Hc, Hs. simpl. repeat split; auto; congruence.
  - rewrite Hp, Hc. simpl. repeat split; auto; try congruence;
      try (rewrite app_nil_r; reflexivity).
Qed.

Lemma poll_io : forall fuel d b, io_ok b ->
  let x := poll fuel d b in
  io_ok (snd (fst x)) /\ content b = out (fst (fst x)) ++ content (snd (fst x))
  /\ fst (fst x) <> PPanic /\ (fst (fst x) = PNone -> content b = []).
Proof.
  intros fuel d b.
  apply (poll_ind_gen d (fun b x => io_ok b ->
    io_ok (snd (fst x)) /\ content b = out (fst (fst x)) ++ content (snd (fst x))
    /\ fst (fst x) <> PPanic /\ (fst (fst x) = PNone -> content b = []))).
  - intros b0 x R I. apply (ret1_io d b0 x R I).
  - intros b0 b1 x S1 IH I. destruct (step1_io d b0 b1 S1 I) as [I1 E1].
    rewrite <- E1. apply IH; auto.
  - intros b0 I. simpl. split; [exact I|]. split; [reflexivity|]. split; [discriminate|intro; discriminate].
Qed.


(* ================================================================== runs *)
Notation rsT := (run_state K KO).
Notation spoll := (step_poll K KO res reso).
Definition dn (s : rsT) : fid -> bool := fun f => memf f (rs_done s).

Lemma memf_in f l : memf f l = true <-> In f l.
Proof.
  unfold memf. rewrite existsb_exists. split.
  - intros [x [I E]]. apply N.eqb_eq in E. subst. auto.
  - intros I. exists f. split; auto. apply N.eqb_refl.
Qed.
Lemma memf_cons f g l : memf f (g :: l) = (N.eqb f g || memf f l)%bool.
Proof. reflexivity. Qed.
Lemma in_removef f g l : In g (removef f l) <-> In g l /\ g <> f.
Proof.
  unfold removef. rewrite filter_In. split; intros [A B]; split; auto.
  - intro; subst. rewrite N.eqb_refl in B. discriminate.
  - destruct (N.eqb f g) eqn:E; auto. apply N.eqb_eq in E. congruence.
Qed.

Lemma spoll_eq fuel s :
  spoll fuel s =
  (let x := poll fuel (dn s) (rs_sb s) in
   ({| rs_sb := snd (fst x); rs_done := rs_done s;
       rs_reg := match snd x with
                 | Some f => if memf f (rs_reg s) then rs_reg s else f :: rs_reg s
                 | None => rs_reg s end;
       rs_ended := match fst (fst x) with PNone => true | _ => rs_ended s end |},
    fst (fst x))).
Proof.
  unfold step_poll, dn. destruct (poll fuel _ (rs_sb s)) as [[r b] w]. reflexivity.
Qed.

(** no lost wake-up: after a poll that returned Pending, an incomplete future of the stream
    holds the task's waker, so its completion wakes the task *)
Theorem pending_is_parked fuel s s' :
  spoll fuel s = (s', PPending) ->
  exists f, In f (rs_reg s') /\ memf f (rs_done s') = false /\ In f (sbfuts (rs_sb s))
            /\ holds (rs_sb s') f
            /\ snd (step_complete K KO f s') = 1%N.
Proof.
  rewrite spoll_eq. cbv zeta. intros E. injection E as E1 E2. subst s'.
  destruct (poll_pending_incomplete fuel (dn s) (rs_sb s) E2) as [f [Ew [Hd Hi]]].
  destruct (poll_waker fuel (dn s) (rs_sb s)) as [W1 _].
  destruct (W1 f Ew) as [_ Hh].
  exists f. cbn [rs_reg rs_done rs_sb]. rewrite Ew.
  assert (In f (if memf f (rs_reg s) then rs_reg s else f :: rs_reg s)) as Hr.
  { destruct (memf f (rs_reg s)) eqn:M; [apply memf_in; auto|left; auto]. }
  repeat split; auto.
  unfold step_complete. cbn [rs_reg rs_done rs_sb]. unfold dn in Hd. rewrite Hd.
  apply memf_in in Hr. rewrite Hr. reflexivity.
Qed.

Section WithInvariant.
(** a state invariant that rules out the two panics of poll_next *)
Variable Inv : sbT -> Prop.
Hypothesis inv_poll : forall fuel d b, Inv b ->
  Inv (snd (fst (poll fuel d b))) /\ fst (fst (poll fuel d b)) <> PPanic.
(** the futures the stream can ever wait for *)
Variable F : list fid.

Record good (fuel n : nat) (s : rsT) : Prop := {
  g_inv : Inv (rs_sb s);
  g_f : incl (sbfuts (rs_sb s)) F;
  g_fuel : mu (rs_sb s) < fuel;
  g_n : mu (rs_sb s) + 1 < n;
}.

Lemma good_poll fuel n s : good fuel n s -> good fuel n (fst (spoll fuel s)).
Proof.
  intros [A B C D]. rewrite spoll_eq. simpl.
  pose proof (poll_mu fuel (dn s) (rs_sb s)) as M.
  pose proof (poll_f fuel (dn s) (rs_sb s)) as Fi.
  destruct (inv_poll fuel (dn s) (rs_sb s) A) as [I _].
  constructor; simpl; auto; try lia. eapply incl_tran; eauto.
Qed.

Lemma spoll_not_bad fuel n s : good fuel n s ->
  snd (spoll fuel s) <> PFuel /\ snd (spoll fuel s) <> PPanic.
Proof.
  intros [A B C D]. rewrite spoll_eq. simpl. split.
  - apply poll_fuel_ok; auto.
  - apply inv_poll; auto.
Qed.

Lemma spoll_done fuel s : rs_done (fst (spoll fuel s)) = rs_done s.
Proof. rewrite spoll_eq. reflexivity. Qed.

Definition all_done (s : rsT) : Prop := forall f, In f F -> memf f (rs_done s) = true.

Lemma spoll_all_done_not_pending fuel n s :
  good fuel n s -> all_done s -> snd (spoll fuel s) <> PPending.
Proof.
  intros G A E. rewrite spoll_eq in E. simpl in E.
  destruct (poll_pending_incomplete fuel (dn s) (rs_sb s) E) as [f [_ [Hd Hi]]].
  apply (g_f _ _ _ G) in Hi. specialize (A f Hi). unfold dn in Hd. congruence.
Qed.

(** the stream of a state in which every future is complete ends within phi+1 polls *)
Lemma drain_terminates fuel : forall n m s,
  good fuel m s -> all_done s -> phi (rs_sb s) < n ->
  let '(s', l) := drain K KO res reso fuel n s in
  rs_ended s' = true /\ good fuel m s' /\ length l <= phi (rs_sb s) + 1
  /\ (forall o, In o l -> o = ONone \/ exists x, o = OSome x)
  /\ (rs_ended s = false -> In ONone l).
Proof.
  induction n as [|n IH]; intros m s G A Hn; [lia|].
  cbn [drain]. destruct (rs_ended s) eqn:En.
  - split; [auto|split; [auto|split; [simpl; lia|split; [intros o []|discriminate]]]].
  - destruct (spoll fuel s) as [s1 r] eqn:Es.
    pose proof (good_poll fuel m s G) as G1. rewrite Es in G1. simpl in G1.
    pose proof (spoll_not_bad fuel m s G) as [NB1 NB2]. rewrite Es in NB1, NB2. simpl in *.
    pose proof (spoll_all_done_not_pending fuel m s G A) as NP. rewrite Es in NP. simpl in NP.
    pose proof (spoll_done fuel s) as Ed. rewrite Es in Ed. simpl in Ed.
    assert (all_done s1) as A1 by (unfold all_done; rewrite Ed; auto).
    assert (Es' := Es). rewrite spoll_eq in Es'. cbv zeta in Es'. injection Es' as E1 E2.
    destruct r as [|x| | |]; try congruence.
    + (* Some: phi decreases *)
      destruct (poll_some fuel (dn s) (rs_sb s) x E2) as [_ [_ Hphi]].
      assert (phi (rs_sb s1) < n) as Hn1.
      { rewrite <- E1. simpl. lia. }
      assert (rs_ended s1 = false) as En1 by (rewrite <- E1; simpl; rewrite E2; auto).
      specialize (IH m s1 G1 A1 Hn1).
      destruct (drain K KO res reso fuel n s1) as [s2 l2].
      destruct IH as [I1 [I2 [I3 [I4 I5]]]].
      split; [auto|split; [auto|split; [|split]]].
      * simpl. rewrite <- E1 in I3. simpl in I3. lia.
      * intros o [Ho|Ho]; [right; eexists; eauto|auto].
      * intros _. right. auto.
    + (* None *)
      assert (rs_ended s1 = true) as En1 by (rewrite <- E1; simpl; rewrite E2; reflexivity).
      destruct n as [|n']; cbn [drain]; rewrite En1.
      * split; [auto|split; [auto|split; [simpl; lia|split; [intros o [Ho|[]]; auto|left; auto]]]].
      * split; [auto|split; [auto|split; [simpl; lia|split; [intros o [Ho|[]]; auto|left; auto]]]].
Qed.

(* ---- the executor drive ---- *)
Definition parked (s : rsT) : Prop :=
  rs_ended s = true \/
  exists f, In f (rs_reg s) /\ memf f (rs_done s) = false /\ In f F.

Lemma run_task_parked fuel m : forall n s,
  good fuel m s -> phi (rs_sb s) < n ->
  let '(s', l) := run_task K KO res reso fuel n s in
  parked s' /\ good fuel m s' /\ rs_done s' = rs_done s
  /\ (forall o, In o l -> o = ONone \/ o = OPending \/ exists x, o = OSome x)
  /\ (rs_ended s' = true -> rs_ended s = true \/ In ONone l).
Proof.
  induction n as [|n IH]; intros s G Hn; [lia|].
  cbn [run_task]. destruct (spoll fuel s) as [s1 r] eqn:Es.
  pose proof (good_poll fuel m s G) as G1. rewrite Es in G1. simpl in G1.
  pose proof (spoll_not_bad fuel m s G) as [NB1 NB2]. rewrite Es in NB1, NB2. simpl in *.
  pose proof (spoll_done fuel s) as Ed. rewrite Es in Ed. simpl in Ed.
  assert (Es' := Es). rewrite spoll_eq in Es'. cbv zeta in Es'. injection Es' as E1 E2.
  destruct r as [|x| | |]; try congruence.
  - (* Pending *)
    destruct (pending_is_parked fuel s s1 Es) as [f [Hr [Hd [Hi _]]]].
    split; [|split; [exact G1|split; [exact Ed|split]]].
    + right. exists f. split; [auto|split; [auto|]]. apply (g_f _ _ _ G); auto.
    + intros o [Ho|[]]; subst; auto.
    + intros E. left. rewrite <- E1 in E. cbn [rs_ended] in E. rewrite E2 in E. exact E.
  - destruct (poll_some fuel (dn s) (rs_sb s) x E2) as [_ [_ Hphi]].
    assert (phi (rs_sb s1) < n) as Hn1 by (rewrite <- E1; simpl; lia).
    assert (rs_ended s1 = rs_ended s) as En1 by (rewrite <- E1; cbn [rs_ended]; rewrite E2; auto).
    specialize (IH s1 G1 Hn1).
    destruct (run_task K KO res reso fuel n s1) as [s2 l2].
    destruct IH as [I1 [I2 [I3 [I4 I5]]]].
    split; [exact I1|split; [exact I2|split; [congruence|split]]].
    + intros o [Ho|Ho]; [right; right; eexists; eauto|auto].
    + intros E. destruct (I5 E) as [X|X]; [left; congruence|right; right; auto].
  - split; [|split; [exact G1|split; [exact Ed|split]]].
    + left. rewrite <- E1. simpl. rewrite E2. reflexivity.
    + intros o [Ho|[]]; subst; auto.
    + intros _. right. left. reflexivity.
Qed.

Lemma complete_parked f s :
  parked s -> snd (step_complete K KO f s) = 0%N -> parked (fst (step_complete K KO f s)).
Proof.
  unfold step_complete. destruct (memf f (rs_done s)) eqn:Md; simpl; auto.
  intros [E|[g [Hr [Hd Hf]]]] W; [left; auto|].
  destruct (memf f (rs_reg s)) eqn:Mr; [discriminate|].
  right. exists g. cbn [fst rs_reg rs_done]. assert (g <> f) as Ne.
  { intro; subst. apply memf_in in Hr. congruence. }
  split; [apply in_removef; auto|split; [|auto]].
  rewrite memf_cons, Hd.
  destruct (N.eqb g f) eqn:E; auto. apply N.eqb_eq in E. congruence.
Qed.

Lemma complete_good fuel m f s : good fuel m s -> good fuel m (fst (step_complete K KO f s)).
Proof.
  unfold step_complete. destruct (memf f (rs_done s)); simpl; auto.
  intros [A B C D]. constructor; auto.
Qed.

Lemma complete_done f s g :
  memf g (rs_done (fst (step_complete K KO f s))) = true <-> (g = f \/ memf g (rs_done s) = true).
Proof.
  unfold step_complete. destruct (memf f (rs_done s)) eqn:Md; cbn [fst rs_done].
  - split; auto. intros [E|E]; subst; auto.
  - rewrite memf_cons, orb_true_iff, N.eqb_eq. tauto.
Qed.

(** an executor that polls only when woken drives the stream to its end: it never stalls *)
Lemma run_exec_ends fuel n : forall order s,
  good fuel n s -> parked s ->
  (forall f, In f F -> In f order \/ memf f (rs_done s) = true) ->
  let '(s', l) := run_exec K KO res reso fuel n order s in
  rs_ended s' = true /\
  (forall o, In o l -> o = ONone \/ o = OPending \/ (exists x, o = OSome x) \/ exists w, o = OWake w)
  /\ (rs_ended s = true \/ In ONone l).
Proof.
  induction order as [|f order IH]; intros s G P Hall.
  - cbn [run_exec]. destruct (rs_ended s) eqn:En.
    + split; [auto|split; [intros o []|auto]].
    + exfalso. destruct P as [E|[f [Hr [Hd Hf]]]]; [congruence|].
      destruct (Hall f Hf) as [[]|E]. congruence.
  - cbn [run_exec]. destruct (memf f (rs_done s)) eqn:Md.
    + apply IH; auto. intros g Hg. destruct (Hall g Hg) as [[E|I]|E]; subst; auto.
    + destruct (step_complete K KO f s) as [s1 w] eqn:Ec.
      pose proof (complete_good fuel n f s G) as G1. rewrite Ec in G1. simpl in G1.
      assert (rs_ended s1 = rs_ended s) as Een.
      { unfold step_complete in Ec. rewrite Md in Ec. inversion Ec; auto. }
      assert (forall g, In g F -> In g order \/ memf g (rs_done s1) = true) as Hall1.
      { intros g Hg. pose proof (complete_done f s g) as CD. rewrite Ec in CD. simpl in CD.
        destruct (Hall g Hg) as [[E|I]|E]; subst; auto; right; apply CD; auto. }
      destruct ((0 <? w)%N && negb (rs_ended s1)) eqn:Ew.
      * assert (phi (rs_sb s1) < n) as Hp
          by (pose proof (phi_le (rs_sb s1)); pose proof (g_n _ _ _ G1); lia).
        pose proof (run_task_parked fuel n n s1 G1 Hp) as RT.
        destruct (run_task K KO res reso fuel n s1) as [s2 l1].
        destruct RT as [P2 [G2 [D2 [L1 N1]]]].
        assert (forall g, In g F -> In g order \/ memf g (rs_done s2) = true) as Hall2
          by (rewrite D2; auto).
        specialize (IH s2 G2 P2 Hall2).
        destruct (run_exec K KO res reso fuel n order s2) as [s3 l2].
        destruct IH as [I1 [I2 I3]]. split; [auto|split].
        -- intros o [Ho|Ho]; [right; right; right; eexists; eauto|].
           apply in_app_iff in Ho. destruct Ho as [Ho|Ho]; auto.
           destruct (L1 o Ho) as [A|[A|A]]; auto.
        -- destruct I3 as [I3|I3].
           ++ destruct (N1 I3) as [X|X]; [left; congruence|].
              right. right. apply in_app_iff. auto.
           ++ right. right. apply in_app_iff. auto.
      * assert (parked s1) as P1.
        { apply andb_false_iff in Ew. destruct Ew as [Ew|Ew].
          - pose proof (complete_parked f s P) as CP. rewrite Ec in CP. simpl in CP.
            apply CP. apply N.ltb_ge in Ew. lia.
          - left. destruct (rs_ended s1); auto. }
        specialize (IH s1 G1 P1 Hall1).
        destruct (run_exec K KO res reso fuel n order s1) as [s3 l2].
        destruct IH as [I1 [I2 I3]]. split; [auto|split].
        -- intros o [Ho|Ho]; [right; right; right; eexists; eauto|auto].
        -- destruct I3 as [I3|I3]; [left; congruence|right; right; auto].
Qed.

Lemma obs_of_clean r : r <> PFuel -> r <> PPanic ->
  obs_of r <> OBound /\ obs_of r <> OFuel /\ obs_of r <> OPanic /\ obs_of r <> OStall.
Proof. destruct r; simpl; intros A B; repeat split; congruence. Qed.

Lemma run_events_good fuel n : forall ev s,
  good fuel n s ->
  good fuel n (fst (run_events K KO res reso fuel ev s))
  /\ (forall f, memf f (rs_done s) = true ->
        memf f (rs_done (fst (run_events K KO res reso fuel ev s))) = true)
  /\ clean (snd (run_events K KO res reso fuel ev s))
  /\ (rs_ended (fst (run_events K KO res reso fuel ev s)) = true ->
      rs_ended s = true \/ In ONone (snd (run_events K KO res reso fuel ev s))).
Proof.
  induction ev as [|[f|] ev IH]; intros s G; cbn [run_events].
  - simpl. split; [auto|split; [auto|split; [apply clean_nil|auto]]].
  - destruct (step_complete K KO f s) as [s1 w] eqn:Ec.
    pose proof (complete_good fuel n f s G) as G1. rewrite Ec in G1. simpl in G1.
    assert (rs_ended s1 = rs_ended s) as Een.
    { unfold step_complete in Ec. destruct (memf f (rs_done s)); inversion Ec; auto. }
    destruct (IH s1 G1) as [A [B [C D]]].
    destruct (run_events K KO res reso fuel ev s1) as [s2 l]. cbn [fst snd] in *.
    split; [auto|split; [|split]].
    + intros g Hg. apply B. pose proof (complete_done f s g) as CD. rewrite Ec in CD.
      apply CD. auto.
    + apply clean_cons; auto; discriminate.
    + intros E. destruct (D E) as [D1|D1]; [left; congruence|right; right; auto].
  - destruct (spoll fuel s) as [s1 r] eqn:Es.
    pose proof (good_poll fuel n s G) as G1. rewrite Es in G1. simpl in G1.
    pose proof (spoll_not_bad fuel n s G) as [NB1 NB2]. rewrite Es in NB1, NB2. simpl in *.
    pose proof (spoll_done fuel s) as Ed. rewrite Es in Ed. simpl in Ed.
    assert (Es' := Es). rewrite spoll_eq in Es'. cbv zeta in Es'. injection Es' as E1 E2.
    destruct (IH s1 G1) as [A [B [C D]]].
    destruct (run_events K KO res reso fuel ev s1) as [s2 l]. cbn [fst snd] in *.
    split; [auto|split; [|split]].
    + intros g Hg. apply B. rewrite Ed. auto.
    + destruct (obs_of_clean r NB1 NB2) as [X1 [X2 [X3 X4]]]. apply clean_cons; auto.
    + intros E. destruct (D E) as [D1|D1]; [|right; right; auto].
      rewrite <- E1 in D1. cbn [rs_ended] in D1. rewrite E2 in D1.
      destruct r; auto; right; left; reflexivity.
Qed.

Lemma complete_all_good fuel n : forall fs s,
  good fuel n s ->
  good fuel n (fst (complete_all K KO fs s))
  /\ (forall f, In f fs \/ memf f (rs_done s) = true ->
        memf f (rs_done (fst (complete_all K KO fs s))) = true)
  /\ rs_sb (fst (complete_all K KO fs s)) = rs_sb s
  /\ rs_ended (fst (complete_all K KO fs s)) = rs_ended s
  /\ somes (snd (complete_all K KO fs s)) = []
  /\ clean (snd (complete_all K KO fs s)).
Proof.
  induction fs as [|f fs IH]; intros s G; cbn [complete_all].
  - simpl. split; [exact G|split; [|auto using clean_nil]]. intros f [[]|H]; auto.
  - destruct (memf f (rs_done s)) eqn:Md.
    + destruct (IH s G) as [A [B [C [D [E E']]]]].
      split; [exact A|split; [|auto]].
      intros g [[Hg|Hg]|Hg]; subst; auto.
    + destruct (step_complete K KO f s) as [s1 w] eqn:Ec.
      pose proof (complete_good fuel n f s G) as G1. rewrite Ec in G1. simpl in G1.
      assert (rs_sb s1 = rs_sb s /\ rs_ended s1 = rs_ended s) as [Esb Een].
      { unfold step_complete in Ec. rewrite Md in Ec. inversion Ec. auto. }
      destruct (IH s1 G1) as [A [B [C [D [E E']]]]].
      destruct (complete_all K KO fs s1) as [s2 l]. cbn [fst snd] in *.
      split; [exact A|split; [|split; [congruence|split; [congruence|split; [exact E|]]]]].
      * intros g Hg. apply B. pose proof (complete_done f s g) as CD. rewrite Ec in CD.
        cbn [fst] in CD.
        destruct Hg as [[Hg|Hg]|Hg]; subst; auto; right; apply CD; auto.
      * apply clean_cons; auto; discriminate.
Qed.

End WithInvariant.

(* ---- in-order runs ---- *)
Definition ended_ok (s : rsT) : Prop := rs_ended s = true -> content (rs_sb s) = [].

Lemma spoll_io fuel s : io_ok (rs_sb s) -> ended_ok s ->
  io_ok (rs_sb (fst (spoll fuel s))) /\ ended_ok (fst (spoll fuel s))
  /\ content (rs_sb s) = out (snd (spoll fuel s)) ++ content (rs_sb (fst (spoll fuel s)))
  /\ snd (spoll fuel s) <> PPanic.
Proof.
  intros I E. rewrite spoll_eq. cbv zeta. cbn [fst snd rs_sb rs_ended].
  destruct (poll_io fuel (dn s) (rs_sb s) I) as [A [B [C D]]].
  split; [auto|split; [|split; auto]].
  unfold ended_ok. cbn [rs_ended rs_sb]. intros En.
  destruct (fst (fst (poll fuel (dn s) (rs_sb s)))) eqn:Er;
    try (specialize (E En); rewrite E in B; symmetry in B; apply app_eq_nil in B; tauto).
  specialize (D eq_refl). rewrite D in B. symmetry in B. apply app_eq_nil in B. tauto.
Qed.

Lemma inv_poll_io : forall fuel d b, io_ok b ->
  io_ok (snd (fst (poll fuel d b))) /\ fst (fst (poll fuel d b)) <> PPanic.
Proof. intros fuel d b I. destruct (poll_io fuel d b I) as [A [_ [C _]]]. auto. Qed.

Lemma out_obs r : somes [obs_of r] = out r.
Proof. destruct r; simpl; try reflexivity. apply app_nil_r. Qed.

Lemma run_events_io fuel : forall ev s, io_ok (rs_sb s) -> ended_ok s ->
  let x := run_events K KO res reso fuel ev s in
  io_ok (rs_sb (fst x)) /\ ended_ok (fst x)
  /\ content (rs_sb s) = somes (snd x) ++ content (rs_sb (fst x)).
Proof.
  induction ev as [|[f|] ev IH]; intros s I E; cbn [run_events].
  - simpl. auto.
  - destruct (step_complete K KO f s) as [s1 w] eqn:Ec.
    assert (rs_sb s1 = rs_sb s /\ rs_ended s1 = rs_ended s) as [Esb Een].
    { unfold step_complete in Ec. destruct (memf f (rs_done s)); inversion Ec; auto. }
    assert (io_ok (rs_sb s1)) as I1 by (rewrite Esb; auto).
    assert (ended_ok s1) as E1 by (unfold ended_ok; rewrite Esb, Een; auto).
    specialize (IH s1 I1 E1). destruct (run_events K KO res reso fuel ev s1) as [s2 l].
    cbn [fst snd] in *. rewrite <- Esb. exact IH.
  - pose proof (spoll_io fuel s I E) as SP. destruct (spoll fuel s) as [s1 r]. simpl in SP.
    destruct SP as [I1 [E1 [C1 _]]].
    specialize (IH s1 I1 E1). destruct (run_events K KO res reso fuel ev s1) as [s2 l].
    cbn [fst snd] in *. destruct IH as [A [B C]]. split; [exact A|split; [exact B|]].
    rewrite C1, C. destruct r; simpl; rewrite ?app_assoc; reflexivity.
Qed.

Lemma drain_io fuel : forall n s, io_ok (rs_sb s) -> ended_ok s ->
  let x := drain K KO res reso fuel n s in
  io_ok (rs_sb (fst x)) /\ ended_ok (fst x)
  /\ content (rs_sb s) = somes (snd x) ++ content (rs_sb (fst x)).
Proof.
  induction n as [|n IH]; intros s I E; cbn [drain]; destruct (rs_ended s) eqn:En;
    try (simpl; auto; fail).
  pose proof (spoll_io fuel s I E) as SP. destruct (spoll fuel s) as [s1 r]. simpl in SP.
  destruct SP as [I1 [E1 [C1 _]]].
  specialize (IH s1 I1 E1). destruct (drain K KO res reso fuel n s1) as [s2 l].
  cbn [fst snd] in *. destruct IH as [A [B C]]. split; [exact A|split; [exact B|]].
  rewrite C1, C. destruct r; simpl; rewrite ?app_assoc; reflexivity.
Qed.

Lemma run_task_io fuel : forall n s, io_ok (rs_sb s) -> ended_ok s ->
  let x := run_task K KO res reso fuel n s in
  io_ok (rs_sb (fst x)) /\ ended_ok (fst x)
  /\ content (rs_sb s) = somes (snd x) ++ content (rs_sb (fst x)).
Proof.
  induction n as [|n IH]; intros s I E; cbn [run_task].
  - simpl. auto.
  - pose proof (spoll_io fuel s I E) as SP. destruct (spoll fuel s) as [s1 r]. cbn [fst snd] in SP.
    destruct SP as [I1 [E1 [C1 _]]].
    destruct r as [|x| | |]; cbn [fst snd obs_of somes flat_map app out] in *;
      try (split; [exact I1|split; [exact E1|rewrite C1; reflexivity]]).
    specialize (IH s1 I1 E1). destruct (run_task K KO res reso fuel n s1) as [s2 l].
    cbn [fst snd] in *. destruct IH as [A [B C]]. split; [exact A|split; [exact B|]].
    rewrite C1, C. cbn [somes flat_map]. rewrite app_assoc. reflexivity.
Qed.

Lemma run_exec_io fuel n : forall order s, io_ok (rs_sb s) -> ended_ok s ->
  let x := run_exec K KO res reso fuel n order s in
  io_ok (rs_sb (fst x)) /\ ended_ok (fst x)
  /\ content (rs_sb s) = somes (snd x) ++ content (rs_sb (fst x)).
Proof.
  induction order as [|f order IH]; intros s I E; cbn [run_exec].
  - destruct (rs_ended s); simpl; auto.
  - destruct (memf f (rs_done s)) eqn:Md; [apply IH; auto|].
    destruct (step_complete K KO f s) as [s1 w] eqn:Ec.
    assert (rs_sb s1 = rs_sb s /\ rs_ended s1 = rs_ended s) as [Esb Een].
    { unfold step_complete in Ec. rewrite Md in Ec. inversion Ec; auto. }
    assert (io_ok (rs_sb s1)) as I1 by (rewrite Esb; auto).
    assert (ended_ok s1) as E1 by (unfold ended_ok; rewrite Esb, Een; auto).
    destruct ((0 <? w)%N && negb (rs_ended s1)).
    + pose proof (run_task_io fuel n s1 I1 E1) as RT.
      destruct (run_task K KO res reso fuel n s1) as [s2 l1]. cbn [fst snd] in RT.
      destruct RT as [I2 [E2 C2]].
      specialize (IH s2 I2 E2). destruct (run_exec K KO res reso fuel n order s2) as [s3 l2].
      cbn [fst snd] in *. destruct IH as [A [B C]]. split; [exact A|split; [exact B|]].
      rewrite <- Esb, C2, C. cbn [somes flat_map app].
      fold (somes (l1 ++ l2)). unfold somes. rewrite flat_map_app, app_assoc. reflexivity.
    + specialize (IH s1 I1 E1). destruct (run_exec K KO res reso fuel n order s1) as [s3 l2].
      cbn [fst snd] in *. destruct IH as [A [B C]]. split; [exact A|split; [exact B|]].
      rewrite <- Esb, C. reflexivity.
Qed.

End MachineProofs.

(* ------------------------------------------------------------------ in-order shape (no content) *)
Section Shape.
Variables K KO : Type.
Variable res : K -> (fid -> bool) -> list (chunk K KO).
Variable reso : KO -> (fid -> bool) -> ooo_chunk K KO.
Variable okS : K -> Prop.
Hypothesis res_shape : forall k d, okS k -> Forall (okc K KO okS) (res k d).

(** an in-order stream: no out-of-order chunk anywhere, now or later *)
Definition shape (b : sb K KO) : Prop :=
  Forall (okc K KO okS) (chunks b)
  /\ match pending b with Some (_, k) => okS k | None => True end
  /\ pending_ooo b = [].

Lemma coalesce_shape : forall c buf po buf' c' po',
  Forall (okc K KO okS) c -> coalesce buf c po = (buf', c', po') ->
  po' = po /\ Forall (okc K KO okS) c'.
Proof.
  induction c as [|[s|f k|f k] c IH]; intros buf po buf' c' po' F H; simpl in H.
  - inversion H; subst. auto.
  - inversion F; subst. eapply IH; eauto.
  - inversion H; subst. auto.
  - inversion F; subst. simpl in H2. contradiction.
Qed.

Lemma step1_shape d b b' : step1 K KO res reso d b b' -> shape b -> shape b'.
Proof.
  intros S [Fc [Fp Fo]]; destruct S; unfold shape; simpl.
  - rewrite Hp in *. split; [apply Forall_app; split; auto|auto].
  - rewrite Hc in *. inversion Fc; subst.
    destruct (coalesce_shape _ _ _ _ _ _ H2 Hco) as [A B]. subst po. rewrite Hp. auto.
  - rewrite Hc in *. inversion Fc; subst. simpl in *. auto.
  - rewrite Hc in Fc. inversion Fc; subst. simpl in *. contradiction.
  - rewrite Fo in Ho. discriminate.
  - rewrite Fo in Ho. discriminate.
Qed.

Lemma ret1_shape d b x : ret1 K KO reso d b x -> shape b ->
  shape (snd (fst x)) /\ fst (fst x) <> PPanic.
Proof.
  intros R [Fc [Fp Fo]]; destruct R; unfold shape; simpl;
    try (rewrite Fo in Ho; discriminate).
  - split; [auto|discriminate].
  - rewrite Hc in *. inversion Fc; subst. simpl in *. split; [auto|discriminate].
  - rewrite Hc in Fc. inversion Fc; subst. simpl in *. contradiction.
  - rewrite Hp. split; [auto|discriminate].
  - rewrite Hp. split; [auto|discriminate].
Qed.

Lemma poll_shape : forall fuel d b, shape b ->
  shape (snd (fst (poll_next K KO res reso fuel d b)))
  /\ fst (fst (poll_next K KO res reso fuel d b)) <> PPanic.
Proof.
  intros fuel d b.
  apply (poll_ind_gen K KO res reso d (fun b x => shape b ->
    shape (snd (fst x)) /\ fst (fst x) <> PPanic)).
  - intros b0 x R I. apply (ret1_shape d b0 x R I).
  - intros b0 b1 x S1 IH I. apply IH. eapply step1_shape; eauto.
  - intros b0 I. simpl. split; [exact I|discriminate].
Qed.
End Shape.

(* ================================================================== part 2: views *)
Arguments push_sync {K KO}.
Arguments flush {K KO}.
Arguments push_async {K KO}.
Arguments take_chunks {K KO}.
Arguments append {K KO}.
Arguments finish {K KO}.
Arguments next_id {K KO}.
Arguments clone_id {K KO}.
Arguments write_chunk_marker {K KO}.
Arguments push_ooo {K KO}.
Arguments push_to_last_sync {K KO}.

Section ViewInd.
Variable P : view -> Prop.
Hypothesis HT : forall s, P (VText s).
Hypothesis HE : forall t c, P c -> P (VElem t c).
Hypothesis HTu : forall vs, Forall P vs -> P (VTuple vs).
Hypothesis HS : forall f c, P c -> P (VSuspend f c).
Hypothesis HB : forall f fb c sm, P fb -> P c -> P (VBoundary f fb c sm).
Hypothesis HA : forall c, P c -> P (VAppend c).
Hypothesis HRS : forall s, P (VRawSync s).
Hypothesis HRA : forall f c, P c -> P (VRawAsync f c).
Fixpoint view_ind' (v : view) : P v :=
  match v with
  | VText s => HT s
  | VElem t c => HE t c (view_ind' c)
  | VTuple vs =>
      HTu vs ((fix go (vs : list view) : Forall P vs :=
                 match vs with
                 | [] => Forall_nil P
                 | v :: vs => Forall_cons v (view_ind' v) (go vs)
                 end) vs)
  | VSuspend f c => HS f c (view_ind' c)
  | VBoundary f fb c sm => HB f fb c sm (view_ind' fb) (view_ind' c)
  | VAppend c => HA c (view_ind' c)
  | VRawSync s => HRS s
  | VRawAsync f c => HRA f c (view_ind' c)
  end.
End ViewInd.

(** the list loops of the tuple cases, as functions *)
Fixpoint render_list (ooo : bool) (d : fid -> bool) (vs : list view) (b : vsb) (pos : position)
  : vsb * position :=
  match vs with
  | [] => (b, pos)
  | v :: vs => let '(b, pos) := render ooo d v b pos in render_list ooo d vs b pos
  end.
Fixpoint resolved_list (vs : list view) (pos : position) : html * position :=
  match vs with
  | [] => ([], pos)
  | v :: vs => let '(h, pos) := resolved v pos in
               let '(h', pos) := resolved_list vs pos in (h ++ h', pos)
  end.
Fixpoint to_html_list (d : fid -> bool) (vs : list view) (pos : position) : html * position :=
  match vs with
  | [] => ([], pos)
  | v :: vs => let '(h, pos) := to_html d v pos in
               let '(h', pos) := to_html_list d vs pos in (h ++ h', pos)
  end.

Lemma render_tuple ooo d v vs b pos :
  render ooo d (VTuple (v :: vs)) b pos = render_list ooo d (v :: vs) b pos.
Proof.
  cbn [render render_list]. destruct (render ooo d v b pos) as [b1 p1].
  revert b1 p1. induction vs as [|w vs IH]; intros b1 p1; cbn [render_list]; auto;
    try (destruct (render ooo d w b1 p1) as [b2 p2]; apply IH).
Qed.
Lemma resolved_tuple v vs pos :
  resolved (VTuple (v :: vs)) pos = resolved_list (v :: vs) pos.
Proof.
  cbn [resolved resolved_list]. destruct (resolved v pos) as [h1 p1].
  revert h1 p1. induction vs as [|w vs IH]; intros h1 p1; cbn [resolved_list]; auto;
    try (destruct (resolved w p1) as [h2 p2]; rewrite (IH h2 p2); reflexivity).
Qed.
Lemma to_html_tuple d v vs pos :
  to_html d (VTuple (v :: vs)) pos = to_html_list d (v :: vs) pos.
Proof.
  cbn [to_html to_html_list]. destruct (to_html d v pos) as [h1 p1].
  revert h1 p1. induction vs as [|w vs IH]; intros h1 p1; cbn [to_html_list]; auto;
    try (destruct (to_html d w p1) as [h2 p2]; rewrite (IH h2 p2); reflexivity).
Qed.

Notation vchunkT := (chunk clo oclo).

(* ------------------------------------------------------------------ builder facts *)
Lemma render_keeps ooo d v : forall b pos,
  pending (fst (render ooo d v b pos)) = pending b /\
  pending_ooo (fst (render ooo d v b pos)) = pending_ooo b.
Proof.
  induction v using view_ind'; intros b pos.
  - simpl. auto.
  - cbn [render]. destruct (render ooo d v _ FirstChild) as [b1 p1] eqn:E.
    specialize (IHv (push_sync (open_tag t) b) FirstChild). rewrite E in IHv. simpl in *. auto.
  - destruct vs as [|v vs]; [simpl; auto|]. rewrite render_tuple.
    revert b pos. induction H as [|w ws Hw Hws IH]; intros b pos; cbn [render_list]; auto.
    destruct (render ooo d w b pos) as [b1 p1] eqn:E.
    specialize (Hw b pos). rewrite E in Hw. simpl in Hw.
    destruct (IH b1 p1) as [A B]. destruct Hw as [C D]. split; congruence.
  - cbn [render]. destruct (d f); [apply IHv|].
    destruct ooo; simpl; unfold write_chunk_marker, next_id, push_async, flush; simpl;
      repeat (match goal with |- context [match ?x with _ => _ end] => destruct x end; simpl); auto.
  - cbn [render]. destruct (d f).
    + destruct sm; [destruct (IHv2 (next_id b) pos)|destruct (IHv1 (next_id b) pos)]; simpl in *; auto.
    + destruct ooo; simpl; unfold write_chunk_marker, next_id, push_async, flush; simpl;
      repeat (match goal with |- context [match ?x with _ => _ end] => destruct x end; simpl); auto.
  - cbn [render]. destruct (render ooo d v _ pos) as [nb p1]. unfold append, flush. simpl.
    repeat (match goal with |- context [if ?x then _ else _] => destruct x end; simpl); auto.
  - simpl. auto.
  - cbn [render]. unfold push_async, flush. simpl.
    repeat (match goal with |- context [if ?x then _ else _] => destruct x end; simpl); auto.
Qed.

(* ------------------------------------------------------------------ weights of the chunks a view produces *)
Definition wclo (k : clo) : nat := 4 * vsize (c_view k) + 1.
Definition woclo (k : oclo) : nat :=
  match o_view k with Some v => 4 * vsize v + 1 | None => 1 end.
Notation vcws := (cws clo oclo wclo woclo).
Notation vmu := (mu clo oclo wclo woclo).

Lemma vcws_app l m : vcws (l ++ m) = vcws l + vcws m.
Proof. apply cws_app. Qed.

Lemma vcws_cons x l : vcws (x :: l) = cw clo oclo wclo woclo x + vcws l.
Proof. reflexivity. Qed.

Lemma flush_w (b : vsb) : vcws (chunks (flush b)) <= vcws (chunks b) + 1.
Proof.
  unfold flush. destruct (is_nil (sync_buf b)); simpl; [lia|]. rewrite vcws_app. simpl. lia.
Qed.
Lemma push_last_w (c : list vchunkT) s : vcws (push_to_last_sync c s) <= vcws c + 1.
Proof.
  induction c as [|x c IH]; simpl; [lia|].
  destruct c as [|y c'].
  - destruct x; simpl; lia.
  - destruct x; rewrite !vcws_cons in *; lia.
Qed.
Lemma finish_w (b : vsb) : vcws (chunks (finish b)) <= vcws (chunks b) + 1.
Proof.
  unfold finish. destruct (is_nil (sync_buf b)); simpl; [lia|apply push_last_w].
Qed.
Lemma finish_sync (b : vsb) : sync_buf (finish b) = [].
Proof.
  unfold finish. destruct (is_nil (sync_buf b)) eqn:E; simpl; auto.
  destruct (sync_buf b); simpl in *; congruence.
Qed.
Lemma take_finish (b : vsb) : fst (take_chunks (finish b)) = chunks (finish b).
Proof.
  unfold take_chunks, flush. rewrite finish_sync. reflexivity.
Qed.

Lemma vsize_tuple v vs : vsize (VTuple (v :: vs)) = vsize v + vsize (VTuple vs).
Proof. simpl. lia. Qed.

Lemma cw_async f k : cw clo oclo wclo woclo (CAsync f k) = 4 * vsize (c_view k) + 3.
Proof. unfold cw, wclo. lia. Qed.
Lemma cw_ooo_le f k v : (o_view k = Some v \/ o_view k = None) ->
  cw clo oclo wclo woclo (COoo f k) <= 4 * vsize v + 3.
Proof. unfold cw, woclo. intros [E|E]; rewrite E; lia. Qed.
Lemma vcws_nil : vcws [] = 0.
Proof. reflexivity. Qed.

Ltac sb_simpl :=
  cbn [fst snd chunks sync_buf pending pending_ooo bid set_sync set_chunks set_pending set_pooo
       set_bid push_sync next_id clone_id push_ooo sb_new c_view c_ooo c_id c_pos o_view o_id o_pos]
    in *.

Lemma wcm_chunks {K KO} o (b : sb K KO) : chunks (write_chunk_marker o b) = chunks b.
Proof. unfold write_chunk_marker. destruct (bid b); reflexivity. Qed.
Lemma wcm_pending {K KO} o (b : sb K KO) : pending (write_chunk_marker o b) = pending b.
Proof. unfold write_chunk_marker. destruct (bid b); reflexivity. Qed.
Lemma wcm_pooo {K KO} o (b : sb K KO) : pending_ooo (write_chunk_marker o b) = pending_ooo b.
Proof. unfold write_chunk_marker. destruct (bid b); reflexivity. Qed.
Lemma wcm_bid {K KO} o (b : sb K KO) : bid (write_chunk_marker o b) = bid b.
Proof. unfold write_chunk_marker. destruct (bid b) eqn:E; simpl; auto. Qed.

Lemma render_w ooo d v : forall b pos,
  vcws (chunks (fst (render ooo d v b pos))) <= vcws (chunks b) + 4 * vsize v.
Proof.
  induction v using view_ind'; intros b pos.
  - cbn [render]. sb_simpl. lia.
  - cbn [render vsize]. destruct (render ooo d v _ FirstChild) as [b1 p1] eqn:E.
    specialize (IHv (push_sync (open_tag t) b) FirstChild). rewrite E in IHv. sb_simpl. lia.
  - destruct vs as [|v vs]; [cbn [render]; sb_simpl; lia|]. rewrite render_tuple.
    revert b pos. induction H as [|w ws Hw Hws IH]; intros b pos.
    + cbn [render_list]. sb_simpl. lia.
    + cbn [render_list]. destruct (render ooo d w b pos) as [b1 p1] eqn:E.
      specialize (Hw b pos). rewrite E in Hw. sb_simpl.
      specialize (IH b1 p1). rewrite vsize_tuple.
      assert (vsize (VTuple ws) >= 1) by (cbn [vsize]; lia).
      destruct ws as [|w' ws'].
      * cbn [render_list] in *. sb_simpl. lia.
      * lia.
  - cbn [render vsize]. destruct (d f); [specialize (IHv b pos); lia|].
    destruct ooo.
    + sb_simpl. rewrite vcws_app, vcws_cons, vcws_nil, !wcm_chunks. sb_simpl.
      rewrite wcm_chunks. sb_simpl.
      match goal with |- context [COoo f ?k] =>
        pose proof (cw_ooo_le f k v (or_introl eq_refl)) end. lia.
    + unfold push_async. sb_simpl. rewrite vcws_app, vcws_cons, vcws_nil, cw_async. sb_simpl.
      pose proof (flush_w (next_id b)). sb_simpl. lia.
  - cbn [render vsize]. destruct (d f).
    + destruct sm; [specialize (IHv2 (next_id b) pos)|specialize (IHv1 (next_id b) pos)];
        sb_simpl; lia.
    + destruct ooo.
      * sb_simpl. rewrite vcws_app, vcws_cons, vcws_nil, !wcm_chunks. sb_simpl.
        rewrite wcm_chunks. sb_simpl.
        match goal with |- context [COoo f ?k] =>
          pose proof (cw_ooo_le f k v2 ltac:(destruct sm; [left|right]; reflexivity)) end.
        lia.
      * unfold push_async. sb_simpl. rewrite vcws_app, vcws_cons, vcws_nil, cw_async. sb_simpl.
        pose proof (flush_w (next_id b)). sb_simpl. destruct sm; lia.
  - cbn [render vsize]. destruct (render ooo d v _ pos) as [nb p1] eqn:E.
    specialize (IHv (sb_new (clone_id b)) pos). rewrite E in IHv. sb_simpl.
    unfold append. sb_simpl. rewrite vcws_nil in IHv.
    destruct (existsb _ (chunks nb)); sb_simpl; rewrite vcws_app.
    + pose proof (flush_w b). lia.
    + lia.
  - cbn [render]. sb_simpl. lia.
  - cbn [render vsize]. unfold push_async. sb_simpl.
    rewrite vcws_app, vcws_cons, vcws_nil, cw_async. sb_simpl.
    pose proof (flush_w b). lia.
Qed.

Lemma res_clo_w k d : vcws (res_clo k d) <= wclo k.
Proof.
  unfold res_clo. destruct (render (c_ooo k) d (c_view k) (sb_new (c_id k)) (c_pos k)) as [b p] eqn:E.
  rewrite take_finish. pose proof (finish_w b).
  pose proof (render_w (c_ooo k) d (c_view k) (sb_new (c_id k)) (c_pos k)) as R.
  rewrite E in R. sb_simpl. rewrite vcws_nil in R.
  change (wclo k) with (4 * vsize (c_view k) + 1). lia.
Qed.

Lemma res_oclo_w k d : vcws (ochunks (res_oclo k d)) <= woclo k.
Proof.
  unfold res_oclo. cbn [ochunks]. rewrite take_finish.
  destruct k as [i p [v|]]; sb_simpl.
  - change (woclo {| o_id := i; o_pos := p; o_view := Some v |}) with (4 * vsize v + 1).
    pose proof (finish_w (fst (render true d v (sb_new (option_map (fun i => i ++ [0%N]) i)) p))).
    pose proof (render_w true d v (sb_new (option_map (fun i => i ++ [0%N]) i)) p) as R.
    sb_simpl. rewrite vcws_nil in R. lia.
  - change (woclo {| o_id := i; o_pos := p; o_view := None |}) with 1.
    pose proof (finish_w (sb_new (option_map (fun i => i ++ [0%N]) i)) : _ <= _) as Fw.
    sb_simpl. rewrite vcws_nil in Fw. lia.
Qed.

Lemma stream_of_mu ooo d v : vmu (stream_of ooo d v) + 2 < poll_fuel v.
Proof.
  unfold stream_of, poll_fuel, mu.
  set (b0 := sb_new (if ooo then Some [0%N] else None)).
  pose proof (render_keeps ooo d v b0 FirstChild) as [Kp Ko].
  pose proof (render_w ooo d v b0 FirstChild) as W.
  pose proof (finish_w (fst (render ooo d v b0 FirstChild))) as Fw.
  assert (pending (finish (fst (render ooo d v b0 FirstChild))) = None) as Ep.
  { unfold finish. destruct (is_nil _); cbn [pending set_sync set_chunks]; rewrite Kp; reflexivity. }
  assert (pending_ooo (finish (fst (render ooo d v b0 FirstChild))) = []) as Eo.
  { unfold finish. destruct (is_nil _); cbn [pending_ooo set_sync set_chunks]; rewrite Ko; reflexivity. }
  rewrite Ep, Eo. subst b0. sb_simpl. rewrite vcws_nil in W.
  cbn [pw pow fold_right]. lia.
Qed.

(* ------------------------------------------------------------------ futures of the chunks a view produces *)
Definition fclo (k : clo) : list fid := futures_of (c_view k).
Definition foclo (k : oclo) : list fid :=
  match o_view k with Some v => futures_of v | None => [] end.
Notation vcsfuts := (csfuts clo oclo fclo foclo).
Notation vsbfuts := (sbfuts clo oclo fclo foclo).

Lemma vcsfuts_app l m : vcsfuts (l ++ m) = vcsfuts l ++ vcsfuts m.
Proof. apply csfuts_app. Qed.
Lemma flush_f (b : vsb) : vcsfuts (chunks (flush b)) = vcsfuts (chunks b).
Proof.
  unfold flush. destruct (is_nil (sync_buf b)); simpl; auto.
  rewrite vcsfuts_app. simpl. apply app_nil_r.
Qed.
Lemma push_last_f (c : list vchunkT) s : vcsfuts (push_to_last_sync c s) = vcsfuts c.
Proof.
  induction c as [|x c IH]; [reflexivity|].
  destruct c as [|y c'].
  - destruct x; simpl; auto using app_nil_r.
  - assert (push_to_last_sync (x :: y :: c') s = x :: push_to_last_sync (y :: c') s) as E
      by (destruct x; reflexivity).
    rewrite E.
    change (vcsfuts (x :: push_to_last_sync (y :: c') s))
      with (cfuts clo oclo fclo foclo x ++ vcsfuts (push_to_last_sync (y :: c') s)).
    rewrite IH. reflexivity.
Qed.
Lemma finish_f (b : vsb) : vcsfuts (chunks (finish b)) = vcsfuts (chunks b).
Proof.
  unfold finish. destruct (is_nil (sync_buf b)); simpl; auto using push_last_f.
Qed.
Lemma futures_tuple v vs : futures_of (VTuple (v :: vs)) = futures_of v ++ futures_of (VTuple vs).
Proof. reflexivity. Qed.

Ltac inc := let x := fresh "x" in let Hx := fresh "Hx" in
  intros x Hx; repeat (rewrite ?in_app_iff in *; cbn [In] in * ); intuition.

Lemma render_f ooo d v : forall b pos,
  incl (vcsfuts (chunks (fst (render ooo d v b pos)))) (vcsfuts (chunks b) ++ futures_of v).
Proof.
  induction v using view_ind'; intros b pos.
  - cbn [render]. sb_simpl. inc.
  - cbn [render futures_of]. destruct (render ooo d v _ FirstChild) as [b1 p1] eqn:E.
    specialize (IHv (push_sync (open_tag t) b) FirstChild). rewrite E in IHv. sb_simpl. exact IHv.
  - destruct vs as [|v vs]; [cbn [render]; sb_simpl; inc|]. rewrite render_tuple.
    revert b pos. induction H as [|w ws Hw Hws IH]; intros b pos.
    + cbn [render_list]. sb_simpl. inc.
    + cbn [render_list]. destruct (render ooo d w b pos) as [b1 p1] eqn:E.
      specialize (Hw b pos). rewrite E in Hw. sb_simpl.
      specialize (IH b1 p1). rewrite futures_tuple.
      destruct ws as [|w' ws'].
      * cbn [render_list] in *. sb_simpl. cbn [futures_of flat_map]. rewrite app_nil_r. exact Hw.
      * intros x Hx. apply IH in Hx. rewrite in_app_iff in Hx. destruct Hx as [Hx|Hx].
        -- apply Hw in Hx. rewrite !in_app_iff in *. tauto.
        -- rewrite !in_app_iff. tauto.
  - cbn [render futures_of]. destruct (d f).
    + intros x Hx. apply IHv in Hx. rewrite in_app_iff in *. cbn [In]. tauto.
    + destruct ooo.
      * sb_simpl. rewrite vcsfuts_app, !wcm_chunks. sb_simpl. rewrite wcm_chunks. sb_simpl.
        cbn [csfuts flat_map cfuts foclo o_view]. rewrite app_nil_r. inc.
      * unfold push_async. sb_simpl. rewrite vcsfuts_app, flush_f. sb_simpl.
        cbn [csfuts flat_map cfuts fclo c_view]. rewrite app_nil_r. inc.
  - cbn [render futures_of]. destruct (d f).
    + destruct sm; [specialize (IHv2 (next_id b) pos)|specialize (IHv1 (next_id b) pos)];
        sb_simpl; intros x Hx; [apply IHv2 in Hx|apply IHv1 in Hx];
        rewrite !in_app_iff in *; cbn [In]; rewrite in_app_iff; tauto.
    + destruct ooo.
      * sb_simpl. rewrite vcsfuts_app, !wcm_chunks. sb_simpl. rewrite wcm_chunks. sb_simpl.
        destruct sm; cbn [csfuts flat_map cfuts foclo o_view]; rewrite app_nil_r; inc.
      * unfold push_async. sb_simpl. rewrite vcsfuts_app, flush_f. sb_simpl.
        destruct sm; cbn [csfuts flat_map cfuts fclo c_view]; rewrite app_nil_r; inc.
  - cbn [render futures_of]. destruct (render ooo d v _ pos) as [nb p1] eqn:E.
    specialize (IHv (sb_new (clone_id b)) pos). rewrite E in IHv. sb_simpl.
    unfold append. sb_simpl.
    destruct (existsb _ (chunks nb)); sb_simpl; rewrite vcsfuts_app, ?flush_f;
      intros x Hx; rewrite in_app_iff in *; destruct Hx as [Hx|Hx]; auto;
      apply IHv in Hx; auto.
  - cbn [render]. sb_simpl. inc.
  - cbn [render futures_of]. unfold push_async. sb_simpl. rewrite vcsfuts_app, flush_f.
    cbn [csfuts flat_map cfuts fclo c_view]. rewrite app_nil_r. inc.
Qed.

Lemma res_clo_f k d : incl (vcsfuts (res_clo k d)) (fclo k).
Proof.
  unfold res_clo. destruct (render (c_ooo k) d (c_view k) (sb_new (c_id k)) (c_pos k)) as [b p] eqn:E.
  rewrite take_finish, finish_f.
  pose proof (render_f (c_ooo k) d (c_view k) (sb_new (c_id k)) (c_pos k)) as R.
  rewrite E in R. exact R.
Qed.
Lemma res_oclo_f k d : incl (vcsfuts (ochunks (res_oclo k d))) (foclo k).
Proof.
  unfold res_oclo. cbn [ochunks]. rewrite take_finish, finish_f.
  destruct k as [i p [v|]]; sb_simpl.
  - apply (render_f true d v (sb_new (option_map (fun i => i ++ [0%N]) i)) p).
  - intros x [].
Qed.

Lemma stream_of_f ooo d v : incl (vsbfuts (stream_of ooo d v)) (futures_of v).
Proof.
  unfold stream_of, sbfuts.
  set (b0 := sb_new (if ooo then Some [0%N] else None)).
  pose proof (render_keeps ooo d v b0 FirstChild) as [Kp Ko].
  pose proof (render_f ooo d v b0 FirstChild) as W.
  assert (pending (finish (fst (render ooo d v b0 FirstChild))) = None) as Ep.
  { unfold finish. destruct (is_nil _); cbn [pending set_sync set_chunks]; rewrite Kp; reflexivity. }
  assert (pending_ooo (finish (fst (render ooo d v b0 FirstChild))) = []) as Eo.
  { unfold finish. destruct (is_nil _); cbn [pending_ooo set_sync set_chunks]; rewrite Ko; reflexivity. }
  rewrite Ep, Eo, finish_f. simpl. rewrite !app_nil_r. exact W.
Qed.

(* ------------------------------------------------------------------ positions *)
(** the renderers look at a position only to ask "does the previous sibling end in text?" *)
Definition peq (p q : position) : Prop := after_text p = after_text q.

Lemma peq_refl p : peq p p. Proof. reflexivity. Qed.
Lemma peq_sym p q : peq p q -> peq q p. Proof. unfold peq; auto. Qed.
Lemma peq_trans p q r : peq p q -> peq q r -> peq p r. Proof. unfold peq; congruence. Qed.

Lemma text_html_peq s p q : peq p q -> text_html s p = text_html s q.
Proof. unfold peq, text_html. intros E. rewrite E. reflexivity. Qed.

Lemma resolved_peq v : forall p q, peq p q ->
  fst (resolved v p) = fst (resolved v q) /\ peq (snd (resolved v p)) (snd (resolved v q)).
Proof.
  induction v using view_ind'; intros p q E.
  - cbn [resolved fst snd]. split; [apply text_html_peq; auto|apply peq_refl].
  - cbn [resolved]. destruct (resolved v FirstChild). cbn [fst snd]. split; [auto|apply peq_refl].
  - destruct vs as [|v vs]; [cbn [resolved fst snd]; split; [auto|apply peq_refl]|].
    rewrite !resolved_tuple. revert p q E.
    induction H as [|w ws Hw Hws IH]; intros p q E.
    + cbn [resolved_list fst snd]. auto.
    + cbn [resolved_list]. destruct (Hw p q E) as [A B].
      destruct (resolved w p) as [h1 p1]. destruct (resolved w q) as [h2 q1]. cbn [fst snd] in *.
      destruct (IH p1 q1 B) as [C D].
      destruct (resolved_list ws p1) as [h3 p2]. destruct (resolved_list ws q1) as [h4 q2].
      cbn [fst snd] in *. subst. auto.
  - cbn [resolved]. apply IHv; auto.
  - cbn [resolved]. destruct sm; [apply IHv2|apply IHv1]; auto.
  - cbn [resolved]. apply IHv; auto.
  - cbn [resolved fst snd]. auto.
  - cbn [resolved fst snd]. destruct (IHv p q E) as [A _]. split; auto.
Qed.

(** [pf ooo strict d v pos]: no asynchronous node of [v] that may be pending when it is rendered
    ([strict]: any node; otherwise: the nodes not complete in [d]) hands back a position whose
    after-text bit differs from the one its resolved content leaves.  Its negation is the class
    of finding F-C07-a. *)
Fixpoint pf (ooo strict : bool) (d : fid -> bool) (v : view) (pos : position) : bool :=
  match v with
  | VText _ | VRawSync _ => true
  | VElem _ c => pf ooo strict d c FirstChild
  | VTuple vs =>
      (fix go (vs : list view) (pos : position) : bool :=
         match vs with
         | [] => true
         | v :: vs => pf ooo strict d v pos && go vs (snd (resolved v pos))
         end) vs pos
  | VSuspend f c =>
      if negb strict && d f then pf ooo strict d c pos
      else Bool.eqb (after_text (snd (resolved c pos))) (if ooo then after_text pos else false)
           && pf ooo true d c pos
  | VBoundary f fb c sm =>
      let x := if sm then c else fb in
      if negb strict && d f then pf ooo strict d x pos
      else Bool.eqb (after_text (snd (resolved x pos))) (if ooo then after_text pos else false)
           && pf ooo true d x pos
  | VAppend c => pf ooo strict d c pos
  | VRawAsync f c => pf ooo true d c pos
  end.

Fixpoint pf_list (ooo strict : bool) (d : fid -> bool) (vs : list view) (pos : position) : bool :=
  match vs with
  | [] => true
  | v :: vs => pf ooo strict d v pos && pf_list ooo strict d vs (snd (resolved v pos))
  end.
Lemma pf_tuple ooo strict d vs pos : pf ooo strict d (VTuple vs) pos = pf_list ooo strict d vs pos.
Proof.
  cbn [pf]. revert pos. induction vs as [|v vs IH]; intros pos; cbn [pf_list]; auto.
  rewrite <- IH. reflexivity.
Qed.

Lemma pf_peq ooo d v : forall strict p q, peq p q -> pf ooo strict d v p = pf ooo strict d v q.
Proof.
  induction v using view_ind'; intros strict p q E; try reflexivity.
  - rewrite !pf_tuple. revert p q E.
    induction H as [|w ws Hw Hws IH]; intros p q E; cbn [pf_list]; auto.
    rewrite (Hw strict p q E). f_equal. apply IH. apply resolved_peq; auto.
  - cbn [pf]. destruct (resolved_peq v p q E) as [_ B]. unfold peq in *.
    rewrite (IHv strict p q E), (IHv true p q E), B, E. reflexivity.
  - cbn [pf]. destruct sm.
    + destruct (resolved_peq v2 p q E) as [_ B]. unfold peq in *.
      rewrite (IHv2 strict p q E), (IHv2 true p q E), B, E. reflexivity.
    + destruct (resolved_peq v1 p q E) as [_ B]. unfold peq in *.
      rewrite (IHv1 strict p q E), (IHv1 true p q E), B, E. reflexivity.
  - cbn [pf]. apply IHv; auto.
  - cbn [pf]. apply IHv; auto.
Qed.

Lemma pf_strict_d ooo d d' v : forall p, pf ooo true d v p = pf ooo true d' v p.
Proof.
  induction v using view_ind'; intros p; try reflexivity.
  - cbn [pf]. apply IHv.
  - rewrite !pf_tuple.
    revert p. induction H as [|w ws Hw Hws IH]; intros p; cbn [pf_list]; auto.
    rewrite Hw, IH. reflexivity.
  - cbn [pf negb andb]. rewrite IHv. reflexivity.
  - cbn [pf negb andb]. destruct sm; [rewrite IHv2|rewrite IHv1]; reflexivity.
  - cbn [pf]. apply IHv.
  - cbn [pf]. apply IHv.
Qed.

Lemma pf_weaken ooo d d' v : forall p, pf ooo true d v p = true -> pf ooo false d' v p = true.
Proof.
  induction v using view_ind'; intros p; try reflexivity.
  - cbn [pf]. apply IHv.
  - rewrite !pf_tuple.
    revert p. induction H as [|w ws Hw Hws IH]; intros p; cbn [pf_list]; auto.
    rewrite !andb_true_iff. intros [A B]. split; auto.
  - cbn [pf negb andb]. destruct (d' f); rewrite !andb_true_iff; [intros [_ A]; auto|].
    intros [A B]. split; auto. rewrite (pf_strict_d ooo d' d v p). exact B.
  - cbn [pf negb andb].
    destruct sm; destruct (d' f); rewrite !andb_true_iff; try (intros [_ A]; auto; fail);
      intros [A B]; split; auto;
      [rewrite (pf_strict_d ooo d' d v2 p)|rewrite (pf_strict_d ooo d' d v1 p)]; exact B.
  - cbn [pf]. apply IHv.
  - cbn [pf]. intros A. rewrite (pf_strict_d ooo d' d v p). exact A.
Qed.

(* ------------------------------------------------------------------ in-order rendering *)
Definition okclo (k : clo) : Prop :=
  c_ooo k = false /\ pf false true (fun _ => false) (c_view k) (c_pos k) = true.
Definition cclo (k : clo) : html := fst (resolved (c_view k) (c_pos k)).
Notation vokc := (okc clo oclo okclo).
Notation vflat := (flat clo oclo cclo).
Definition flatb (b : vsb) : html := vflat (chunks b) ++ sync_buf b.

Lemma vflat_app l m : vflat (l ++ m) = vflat l ++ vflat m.
Proof. apply flat_app. Qed.

Lemma flush_io (b : vsb) :
  Forall vokc (chunks b) -> Forall vokc (chunks (flush b)) /\ flatb (flush b) = flatb b.
Proof.
  unfold flush, flatb. intros F. destruct (is_nil (sync_buf b)) eqn:E; [auto|].
  sb_simpl. split.
  - apply Forall_app. split; auto. constructor; simpl; auto.
  - rewrite vflat_app. simpl. rewrite !app_nil_r. reflexivity.
Qed.

Lemma push_last_io (c : list vchunkT) s :
  Forall vokc c -> Forall vokc (push_to_last_sync c s) /\ vflat (push_to_last_sync c s) = vflat c ++ s.
Proof.
  induction c as [|x c IH]; intros F.
  - simpl. split; [constructor; simpl; auto|rewrite app_nil_r; auto].
  - inversion F as [|? ? Fx Fc]; subst. destruct c as [|y c'].
    + destruct x; simpl;
        (split; [repeat (first [apply Forall_nil
                               | apply Forall_cons; [first [exact Fx | exact I]|]])|]);
        rewrite ?app_nil_r, <- ?app_assoc; auto.
    + assert (push_to_last_sync (x :: y :: c') s = x :: push_to_last_sync (y :: c') s) as E
        by (destruct x; reflexivity).
      rewrite E. destruct (IH Fc) as [A B]. split; [constructor; auto|].
      change (vflat (x :: push_to_last_sync (y :: c') s))
        with (flat1 clo oclo cclo x ++ vflat (push_to_last_sync (y :: c') s)).
      rewrite B. change (vflat (x :: y :: c')) with (flat1 clo oclo cclo x ++ vflat (y :: c')).
      rewrite app_assoc. reflexivity.
Qed.

Lemma finish_io (b : vsb) :
  Forall vokc (chunks b) ->
  Forall vokc (chunks (finish b)) /\ vflat (chunks (finish b)) = flatb b.
Proof.
  unfold finish, flatb. intros F. destruct (is_nil (sync_buf b)) eqn:E.
  - apply is_nil_true in E. rewrite E, app_nil_r. auto.
  - sb_simpl. apply push_last_io; auto.
Qed.

Lemma render_io d v : forall b p q,
  peq p q -> pf false false d v q = true -> Forall vokc (chunks b) ->
  Forall vokc (chunks (fst (render false d v b p)))
  /\ flatb (fst (render false d v b p)) = flatb b ++ fst (resolved v q)
  /\ peq (snd (render false d v b p)) (snd (resolved v q)).
Proof.
  induction v using view_ind'; intros b p q E PF Fb.
  - cbn [render resolved fst snd]. unfold flatb. sb_simpl.
    rewrite (text_html_peq s p q E), app_assoc. auto using peq_refl.
  - cbn [render resolved pf] in *.
    specialize (IHv (push_sync (open_tag t) b) FirstChild FirstChild (peq_refl _) PF Fb).
    destruct (render false d v _ FirstChild) as [b1 p1]. destruct (resolved v FirstChild) as [h q1].
    cbn [fst snd] in *. destruct IHv as [A [B C]]. unfold flatb in *. sb_simpl.
    split; [auto|split; [|apply peq_refl]].
    rewrite app_assoc, B. rewrite <- !app_assoc. reflexivity.
  - destruct vs as [|v vs].
    + cbn [render resolved fst snd]. unfold flatb. sb_simpl. rewrite app_assoc.
      auto using peq_refl.
    + rewrite render_tuple, resolved_tuple. rewrite pf_tuple in PF.
      revert b p q E PF Fb. induction H as [|w ws Hw Hws IH]; intros b p q E PF Fb.
      * cbn [render_list resolved_list fst snd]. rewrite app_nil_r. auto.
      * cbn [render_list resolved_list pf_list] in *. apply andb_true_iff in PF.
        destruct PF as [PF1 PF2].
        specialize (Hw b p q E PF1 Fb).
        destruct (render false d w b p) as [b1 p1]. destruct (resolved w q) as [h1 q1].
        cbn [fst snd] in *. destruct Hw as [A [B C]].
        specialize (IH b1 p1 q1 C PF2 A).
        destruct (render_list false d ws b1 p1) as [b2 p2].
        destruct (resolved_list ws q1) as [h2 q2]. cbn [fst snd] in *.
        destruct IH as [A2 [B2 C2]]. split; [auto|split; [|auto]].
        rewrite B2, B, app_assoc. reflexivity.
  - cbn [render resolved pf negb andb] in *. destruct (d f).
    + apply IHv; auto.
    + apply andb_true_iff in PF. destruct PF as [PF1 PF2].
      apply eqb_prop in PF1.
      unfold push_async. destruct (flush_io (next_id b) Fb) as [A B]. sb_simpl.
      split; [|split].
      * apply Forall_app. split; auto. constructor; [|constructor].
        simpl. split; auto. rewrite (pf_peq false _ v true p q E).
        rewrite (pf_strict_d false _ d v q). exact PF2.
      * unfold flatb in *. sb_simpl. rewrite vflat_app.
        change (vflat [CAsync f _]) with (fst (resolved v p) ++ []).
        destruct (resolved_peq v p q E) as [R1 _]. rewrite R1.
        assert (sync_buf (flush (next_id b)) = []) as Es.
        { unfold flush. destruct (is_nil (sync_buf (next_id b))) eqn:En; sb_simpl; auto.
          apply is_nil_true in En. exact En. }
        rewrite Es in *. rewrite !app_nil_r in *. sb_simpl. rewrite B. reflexivity.
      * unfold peq. rewrite PF1. reflexivity.
  - cbn [render resolved pf negb andb] in *. destruct (d f).
    + destruct sm; [exact (IHv2 (next_id b) p q E PF Fb)|exact (IHv1 (next_id b) p q E PF Fb)].
    + apply andb_true_iff in PF. destruct PF as [PF1 PF2].
      apply eqb_prop in PF1.
      unfold push_async. destruct (flush_io (next_id b) Fb) as [A B]. sb_simpl.
      set (x := if sm then v2 else v1) in *.
      assert (resolved (if sm then v2 else v1) q = (if sm then resolved v2 q else resolved v1 q)) as Ex
        by (destruct sm; reflexivity).
      fold x in Ex. rewrite <- Ex.
      split; [|split].
      * apply Forall_app. split; auto. constructor; [|constructor].
        simpl. split; auto. rewrite (pf_peq false _ x true p q E).
        rewrite (pf_strict_d false _ d x q). exact PF2.
      * unfold flatb in *. sb_simpl. rewrite vflat_app.
        change (vflat [CAsync f _]) with (fst (resolved x p) ++ []).
        destruct (resolved_peq x p q E) as [R1 _]. rewrite R1.
        assert (sync_buf (flush (next_id b)) = []) as Es.
        { unfold flush. destruct (is_nil (sync_buf (next_id b))) eqn:En; sb_simpl; auto.
          apply is_nil_true in En. exact En. }
        rewrite Es in *. rewrite !app_nil_r in *. sb_simpl. rewrite B. reflexivity.
      * unfold peq. rewrite PF1. reflexivity.
  - cbn [render resolved pf fst snd] in *.
    specialize (IHv (sb_new (clone_id b)) p q E PF (Forall_nil _)).
    destruct (render false d v (sb_new (clone_id b)) p) as [nb p1]. cbn [fst snd] in *.
    destruct IHv as [A [B C]]. unfold flatb in B. sb_simpl. cbn [flat flat_map app] in B.
    split; [|split; [|exact C]].
    + unfold append. sb_simpl. destruct (existsb _ (chunks nb)); sb_simpl.
      * apply Forall_app. split; auto. apply flush_io; auto.
      * apply Forall_app. split; auto.
    + unfold append, flatb. sb_simpl. destruct (existsb _ (chunks nb)) eqn:Ex; sb_simpl.
      * destruct (flush_io b Fb) as [_ Fl]. unfold flatb in Fl.
        assert (sync_buf (flush b) = []) as Es.
        { unfold flush. destruct (is_nil (sync_buf b)) eqn:En; sb_simpl; auto.
          apply is_nil_true in En. exact En. }
        rewrite Es in *. rewrite app_nil_r in Fl. rewrite vflat_app, Fl. cbn [app].
        rewrite <- B, <- !app_assoc. reflexivity.
      * (* every chunk of nb is out-of-order, but in-order chunks never are: nb has no chunks *)
        assert (chunks nb = []) as En.
        { destruct (chunks nb) as [|c cs]; auto. exfalso. inversion A as [|? ? Hc Hcs]; subst.
          cbn [existsb] in Ex. destruct c; simpl in Hc; try contradiction; discriminate. }
        rewrite En in *. rewrite app_nil_r. cbn [flat flat_map app] in B.
        rewrite <- B, app_assoc. reflexivity.
  - cbn [render resolved fst snd]. unfold flatb. sb_simpl. rewrite app_assoc. auto.
  - cbn [render resolved pf fst snd] in *.
    unfold push_async. destruct (flush_io b Fb) as [A B]. sb_simpl.
    split; [|split; [|exact E]].
    + apply Forall_app. split; auto. constructor; [|constructor].
      simpl. split; auto. rewrite (pf_peq false _ v true p q E).
      rewrite (pf_strict_d false _ d v q). exact PF.
    + unfold flatb in *. sb_simpl. rewrite vflat_app.
      change (vflat [CAsync f _]) with (fst (resolved v p) ++ []).
      destruct (resolved_peq v p q E) as [R1 _]. rewrite R1.
      assert (sync_buf (flush b) = []) as Es.
      { unfold flush. destruct (is_nil (sync_buf b)) eqn:En; sb_simpl; auto.
        apply is_nil_true in En. exact En. }
      rewrite Es in *. rewrite !app_nil_r in *. rewrite B. reflexivity.
Qed.

(* ------------------------------------------------------------------ in-order rendering has in-order shape *)
Definition ioclo (k : clo) : Prop := c_ooo k = false.
Notation sokc := (okc clo oclo ioclo).
Notation vshape := (shape clo oclo ioclo).

Lemma flush_shape (b : vsb) : Forall sokc (chunks b) -> Forall sokc (chunks (flush b)).
Proof.
  unfold flush. intros F. destruct (is_nil (sync_buf b)); auto. sb_simpl.
  apply Forall_app. split; auto. constructor; simpl; auto.
Qed.
Lemma push_last_shape (c : list vchunkT) s : Forall sokc c -> Forall sokc (push_to_last_sync c s).
Proof.
  induction c as [|x c IH]; intros F.
  - simpl. constructor; simpl; auto.
  - inversion F as [|? ? Fx Fc]; subst. destruct c as [|y c'].
    + destruct x; simpl;
        repeat (first [apply Forall_nil | apply Forall_cons; [first [exact Fx | exact I]|]]).
    + assert (push_to_last_sync (x :: y :: c') s = x :: push_to_last_sync (y :: c') s) as E
        by (destruct x; reflexivity).
      rewrite E. constructor; auto.
Qed.
Lemma finish_shape (b : vsb) : Forall sokc (chunks b) -> Forall sokc (chunks (finish b)).
Proof.
  unfold finish. intros F. destruct (is_nil (sync_buf b)); auto. sb_simpl.
  apply push_last_shape; auto.
Qed.

Lemma render_shape d v : forall b p,
  Forall sokc (chunks b) -> Forall sokc (chunks (fst (render false d v b p))).
Proof.
  induction v using view_ind'; intros b p Fb.
  - cbn [render]. sb_simpl. auto.
  - cbn [render]. specialize (IHv (push_sync (open_tag t) b) FirstChild Fb).
    destruct (render false d v _ FirstChild) as [b1 p1]. sb_simpl. auto.
  - destruct vs as [|v vs]; [cbn [render]; sb_simpl; auto|]. rewrite render_tuple.
    revert b p Fb. induction H as [|w ws Hw Hws IH]; intros b p Fb; cbn [render_list]; auto.
    specialize (Hw b p Fb). destruct (render false d w b p) as [b1 p1]. apply IH. exact Hw.
  - cbn [render]. destruct (d f); [apply IHv; auto|].
    unfold push_async. sb_simpl. apply Forall_app. split; [apply (flush_shape (next_id b) Fb)|].
    constructor; [reflexivity|constructor].
  - cbn [render]. destruct (d f).
    + destruct sm; [exact (IHv2 (next_id b) p Fb)|exact (IHv1 (next_id b) p Fb)].
    + unfold push_async. sb_simpl. apply Forall_app. split; [apply (flush_shape (next_id b) Fb)|].
      constructor; [reflexivity|constructor].
  - cbn [render]. specialize (IHv (sb_new (clone_id b)) p (Forall_nil _)).
    destruct (render false d v (sb_new (clone_id b)) p) as [nb p1]. sb_simpl.
    unfold append. sb_simpl. destruct (existsb _ (chunks nb)); sb_simpl;
      apply Forall_app; split; auto. apply flush_shape; auto.
  - cbn [render]. sb_simpl. auto.
  - cbn [render]. unfold push_async. sb_simpl. apply Forall_app. split; [apply flush_shape; auto|].
    constructor; [reflexivity|constructor].
Qed.

Lemma res_clo_shape : forall k d, ioclo k -> Forall sokc (res_clo k d).
Proof.
  intros [o i p v] d E. unfold ioclo in E. cbn [c_ooo] in E. subst o.
  unfold res_clo. cbn [c_ooo c_view c_pos c_id].
  pose proof (render_shape d v (sb_new i) p (Forall_nil _)) as R.
  destruct (render false d v (sb_new i) p) as [b p1]. cbn [fst] in R.
  rewrite take_finish. apply finish_shape; auto.
Qed.

Lemma stream_of_shape d v : vshape (stream_of false d v).
Proof.
  unfold stream_of. set (b0 := sb_new None : vsb).
  pose proof (render_keeps false d v b0 FirstChild) as [Kp Ko].
  pose proof (render_shape d v b0 FirstChild (Forall_nil _)) as R.
  unfold shape. split; [apply finish_shape; auto|].
  unfold finish. destruct (is_nil _); cbn [pending pending_ooo set_sync set_chunks];
    rewrite Kp, Ko; cbn [pending pending_ooo b0 sb_new]; auto.
Qed.

(* ================================================================== part 3: the stream of a view *)
From LV Require Import Base.Sexp Html.StreamRun.
Local Open Scope nat_scope.

Notation vrun_state := (run_state clo oclo).
Notation vio_ok := (io_ok clo oclo okclo).
Notation vcontent := (content clo oclo cclo).
Notation vgood := (good clo oclo wclo woclo fclo foclo).
Notation vphi := (phi clo oclo wclo woclo).

Lemma res_clo_ok : forall k d, okclo k ->
  Forall vokc (res_clo k d) /\ vflat (res_clo k d) = cclo k.
Proof.
  intros [o i p v] d [Eo PF]. cbn [c_ooo c_view c_pos] in *. subst o.
  unfold res_clo. cbn [c_ooo c_view c_pos c_id].
  change (cclo {| c_ooo := false; c_id := i; c_pos := p; c_view := v |}) with (fst (resolved v p)).
  pose proof (render_io d v (sb_new i) p p (peq_refl p)
                (pf_weaken false _ d v p PF) (Forall_nil _)) as R.
  destruct (render false d v (sb_new i) p) as [b p1]. cbn [fst snd] in R.
  destruct R as [A [B _]]. rewrite take_finish.
  destruct (finish_io b A) as [C D]. split; auto. rewrite D, B. reflexivity.
Qed.

Lemma stream_of_io d v : pf false false d v FirstChild = true ->
  vio_ok (stream_of false d v) /\ vcontent (stream_of false d v) = fst (resolved v FirstChild).
Proof.
  intros PF. unfold stream_of.
  set (b0 := sb_new None : vsb).
  pose proof (render_keeps false d v b0 FirstChild) as [Kp Ko].
  pose proof (render_io d v b0 FirstChild FirstChild (peq_refl _) PF (Forall_nil _)) as R.
  destruct R as [A [B _]]. destruct (finish_io _ A) as [C D].
  assert (pending (finish (fst (render false d v b0 FirstChild))) = None) as Ep.
  { unfold finish. destruct (is_nil _); cbn [pending set_sync set_chunks]; rewrite Kp; reflexivity. }
  assert (pending_ooo (finish (fst (render false d v b0 FirstChild))) = []) as Eo.
  { unfold finish. destruct (is_nil _); cbn [pending_ooo set_sync set_chunks]; rewrite Ko; reflexivity. }
  split.
  - unfold io_ok. rewrite Ep, Eo. auto.
  - unfold content. rewrite Ep, finish_sync, D, B. reflexivity.
Qed.

Lemma sort_N_in x l : In x (sort_N l) <-> In x l.
Proof.
  unfold sort_N. induction l as [|y l IH]; simpl; [tauto|].
  assert (forall z m, In z (insert_sorted y m) <-> z = y \/ In z m) as Hi.
  { intros z m. induction m as [|w m IHm]; simpl; [intuition|].
    destruct (N.leb y w); simpl; rewrite ?IHm; intuition. }
  rewrite Hi, IH. intuition.
Qed.

Definition mem (l : list fid) : fid -> bool := fun f => memf f l.

(** the class of finding F-C07-a: some asynchronous node that can be pending when it is
    rendered hands back a position that disagrees with its resolved content *)
Definition known_class (ooo : bool) (init : list fid) (v : view) : bool :=
  negb (pf ooo false (mem init) v FirstChild).

Lemma somes_app a b : somes (a ++ b) = somes a ++ somes b.
Proof. unfold somes. apply flat_map_app. Qed.

Section InOrder.
Variable v : view.
Variable init : list fid.
Variable n : nat.
Hypothesis Hn : poll_fuel v <= n.
Hypothesis Hk : known_class false init v = false.

Let F := futures_of v.
Let fuel := poll_fuel v.
Let s0 := init_state false init v.

Lemma io_pf : pf false false (mem init) v FirstChild = true.
Proof. unfold known_class in Hk. destruct (pf _ _ _ _ _); simpl in Hk; congruence. Qed.

Lemma io_inv_poll : forall fuel d (b : vsb), vio_ok b ->
  vio_ok (snd (fst (vpoll fuel d b))) /\ fst (fst (vpoll fuel d b)) <> PPanic.
Proof. apply (inv_poll_io clo oclo res_clo res_oclo cclo okclo res_clo_ok). Qed.

Lemma io_good0 : vgood vio_ok F fuel n s0.
Proof.
  unfold s0, init_state. constructor; cbn [rs_sb].
  - apply stream_of_io. apply io_pf.
  - apply stream_of_f.
  - pose proof (stream_of_mu false (fun f => memf f init) v). unfold fuel. lia.
  - pose proof (stream_of_mu false (fun f => memf f init) v). lia.
Qed.

(** F-C07-a aside, the in-order stream concatenates to the resolved render, for every schedule;
    it ends (None is returned) and nothing goes wrong on the way *)
Theorem in_order_concat_free ev :
  let l := run_free n false v init ev in
  somes l = fst (resolved v FirstChild) /\ In ONone l /\ clean l.
Proof.
  cbv zeta. unfold run_free. fold fuel. fold s0.
  pose proof io_good0 as G0.
  destruct (stream_of_io (mem init) v io_pf) as [I0 C0].
  assert (ended_ok clo oclo cclo s0) as E0 by (unfold ended_ok, s0, init_state; simpl; discriminate).
  pose proof (run_events_io clo oclo res_clo res_oclo cclo okclo res_clo_ok fuel ev s0 I0 E0) as RE.
  pose proof (run_events_good clo oclo res_clo res_oclo wclo woclo res_clo_w res_oclo_w
                fclo foclo res_clo_f res_oclo_f vio_ok io_inv_poll F fuel n ev s0 G0) as RG.
  destruct (run_events clo oclo res_clo res_oclo fuel ev s0) as [s1 l1]. cbn [fst snd] in *.
  destruct RE as [I1 [E1 C1]]. destruct RG as [G1 [D1 [CL1 EN1]]].
  pose proof (complete_all_good clo oclo wclo woclo fclo foclo vio_ok F fuel n
                (sort_N (futures_of v)) s1 G1) as CA.
  destruct (complete_all clo oclo (sort_N (futures_of v)) s1) as [s2 l2]. cbn [fst snd] in *.
  destruct CA as [G2 [D2 [Esb [Een [S2 CL2]]]]].
  assert (all_done clo oclo F s2) as AD.
  { intros f Hf. apply D2. left. apply sort_N_in. exact Hf. }
  assert (vphi (rs_sb s2) < n) as Hp.
  { pose proof (phi_le clo oclo wclo woclo (rs_sb s2)). pose proof (g_n _ _ _ _ _ _ _ _ _ _ _ G2). lia. }
  pose proof (drain_terminates clo oclo res_clo res_oclo wclo woclo res_clo_w res_oclo_w
                fclo foclo res_clo_f res_oclo_f vio_ok io_inv_poll F fuel n n s2 G2 AD Hp) as DT.
  assert (vio_ok (rs_sb s2)) as I2 by (rewrite Esb; auto).
  assert (ended_ok clo oclo cclo s2) as E2 by (unfold ended_ok; rewrite Esb, Een; auto).
  pose proof (drain_io clo oclo res_clo res_oclo cclo okclo res_clo_ok fuel n s2 I2 E2) as DI.
  destruct (drain clo oclo res_clo res_oclo fuel n s2) as [s3 l3]. cbn [fst snd] in *.
  destruct DT as [En3 [G3 [Len3 [L3 N3]]]]. destruct DI as [I3 [E3 C3]].
  assert (vcontent (rs_sb s3) = []) as Z by (apply E3; auto).
  split; [|split].
  - rewrite !somes_app, S2. cbn [app]. rewrite <- C0.
    unfold s0, init_state in C1. cbn [rs_sb] in C1.
    change (stream_of false (mem init) v) with (stream_of false (fun f => memf f init) v).
    rewrite C1. rewrite <- Esb, C3, Z, app_nil_r. reflexivity.
  - rewrite !in_app_iff. destruct (rs_ended s2) eqn:En2.
    + symmetry in Een. destruct (EN1 Een) as [X|X]; [|auto].
      unfold s0, init_state in X. cbn [rs_ended] in X. discriminate.
    + right. right. apply N3. reflexivity.
  - apply clean_app; [auto|apply clean_app; [auto|]].
    intros o Ho. destruct (L3 o Ho) as [X|[x X]]; subst; repeat split; discriminate.
Qed.

End InOrder.

(* ------------------------------------------------------------------ all views, in-order: liveness *)
Lemma shape_inv_poll : forall fuel d (b : vsb), vshape b ->
  vshape (snd (fst (vpoll fuel d b))) /\ fst (fst (vpoll fuel d b)) <> PPanic.
Proof. apply (poll_shape clo oclo res_clo res_oclo ioclo res_clo_shape). Qed.

Lemma shape_good0 v init n : poll_fuel v <= n ->
  vgood vshape (futures_of v) (poll_fuel v) n (init_state false init v).
Proof.
  intros Hn. unfold init_state. constructor; cbn [rs_sb].
  - apply stream_of_shape.
  - apply stream_of_f.
  - pose proof (stream_of_mu false (fun f => memf f init) v). lia.
  - pose proof (stream_of_mu false (fun f => memf f init) v). lia.
Qed.

(** once every future has completed, the in-order stream of ANY view returns None within
    [poll_fuel v] polls, whatever happened before (schedule [ev]) *)
Theorem terminates_in_order v init ev :
  let s1 := fst (run_events clo oclo res_clo res_oclo (poll_fuel v) ev (init_state false init v)) in
  let s2 := fst (complete_all clo oclo (sort_N (futures_of v)) s1) in
  let '(s3, l) := drain clo oclo res_clo res_oclo (poll_fuel v) (poll_fuel v) s2 in
  rs_ended s3 = true /\ length l <= poll_fuel v
  /\ (forall o, In o l -> o = ONone \/ exists x, o = OSome x).
Proof.
  cbv zeta.
  pose proof (shape_good0 v init (poll_fuel v) (le_n _)) as G0.
  pose proof (run_events_good clo oclo res_clo res_oclo wclo woclo res_clo_w res_oclo_w
                fclo foclo res_clo_f res_oclo_f vshape shape_inv_poll (futures_of v)
                (poll_fuel v) (poll_fuel v) ev _ G0) as [G1 _].
  set (s1 := fst (run_events clo oclo res_clo res_oclo (poll_fuel v) ev (init_state false init v))) in *.
  pose proof (complete_all_good clo oclo wclo woclo fclo foclo vshape (futures_of v)
                (poll_fuel v) (poll_fuel v) (sort_N (futures_of v)) s1 G1) as [G2 [D2 _]].
  set (s2 := fst (complete_all clo oclo (sort_N (futures_of v)) s1)) in *.
  assert (all_done clo oclo (futures_of v) s2) as AD.
  { intros f Hf. apply D2. left. apply sort_N_in. exact Hf. }
  assert (vphi (rs_sb s2) < poll_fuel v) as Hp.
  { pose proof (phi_le clo oclo wclo woclo (rs_sb s2)). pose proof (g_n _ _ _ _ _ _ _ _ _ _ _ G2). lia. }
  pose proof (drain_terminates clo oclo res_clo res_oclo wclo woclo res_clo_w res_oclo_w
                fclo foclo res_clo_f res_oclo_f vshape shape_inv_poll (futures_of v)
                (poll_fuel v) (poll_fuel v) (poll_fuel v) s2 G2 AD Hp) as DT.
  destruct (drain clo oclo res_clo res_oclo (poll_fuel v) (poll_fuel v) s2) as [s3 l].
  destruct DT as [A [_ [B [C _]]]]. split; [auto|split; [|auto]].
  pose proof (phi_le clo oclo wclo woclo (rs_sb s2)). pose proof (g_n _ _ _ _ _ _ _ _ _ _ _ G2). lia.
Qed.

(** an executor that polls the in-order stream of ANY view only when its waker fires never
    stalls: after the last completion the stream has ended *)
Theorem executor_never_stalls_in_order v init ev n : poll_fuel v <= n ->
  clean (run_executor n false v init ev) /\ In ONone (run_executor n false v init ev).
Proof.
  intros Hn. unfold run_executor.
  pose proof (shape_good0 v init n Hn) as G0.
  assert (vphi (rs_sb (init_state false init v)) < n) as Hp.
  { pose proof (phi_le clo oclo wclo woclo (rs_sb (init_state false init v))).
    pose proof (g_n _ _ _ _ _ _ _ _ _ _ _ G0). lia. }
  pose proof (run_task_parked clo oclo res_clo res_oclo wclo woclo res_clo_w res_oclo_w
                fclo foclo res_clo_f res_oclo_f vshape shape_inv_poll (futures_of v)
                (poll_fuel v) n n _ G0 Hp) as RT.
  destruct (run_task clo oclo res_clo res_oclo (poll_fuel v) n (init_state false init v)) as [s1 l1].
  destruct RT as [P1 [G1 [D1 [L1 N1]]]].
  assert (forall f, In f (futures_of v) ->
            In f (completes ev ++ sort_N (futures_of v)) \/ memf f (rs_done s1) = true) as Hall.
  { intros f Hf. left. apply in_app_iff. right. apply sort_N_in. exact Hf. }
  pose proof (run_exec_ends clo oclo res_clo res_oclo wclo woclo res_clo_w res_oclo_w
                fclo foclo res_clo_f res_oclo_f vshape shape_inv_poll (futures_of v)
                (poll_fuel v) n (completes ev ++ sort_N (futures_of v)) s1 G1 P1 Hall) as RE.
  destruct (run_exec clo oclo res_clo res_oclo (poll_fuel v) n
              (completes ev ++ sort_N (futures_of v)) s1) as [s2 l2].
  destruct RE as [En [L2 N2]]. split.
  - intros o Ho. apply in_app_iff in Ho. destruct Ho as [Ho|Ho].
    + destruct (L1 o Ho) as [X|[X|[x X]]]; subst; repeat split; discriminate.
    + destruct (L2 o Ho) as [X|[X|[[x X]|[w X]]]]; subst; repeat split; discriminate.
  - apply in_app_iff. destruct N2 as [N2|N2]; [|auto].
    destruct (N1 N2) as [X|X]; [|auto]. unfold init_state in X. cbn [rs_ended] in X. discriminate.
Qed.

(** … and under the executor drive *)
Theorem in_order_concat_exec v init n ev :
  poll_fuel v <= n -> known_class false init v = false ->
  somes (run_executor n false v init ev) = fst (resolved v FirstChild).
Proof.
  intros Hn Hk. unfold run_executor.
  pose proof (io_good0 v init n Hn Hk) as G0.
  destruct (stream_of_io (mem init) v (io_pf v init Hk)) as [I0 C0].
  set (s0 := init_state false init v) in *.
  assert (ended_ok clo oclo cclo s0) as E0 by (unfold ended_ok, s0, init_state; simpl; discriminate).
  assert (vphi (rs_sb s0) < n) as Hp.
  { pose proof (phi_le clo oclo wclo woclo (rs_sb s0)). pose proof (g_n _ _ _ _ _ _ _ _ _ _ _ G0). lia. }
  pose proof (run_task_parked clo oclo res_clo res_oclo wclo woclo res_clo_w res_oclo_w
                fclo foclo res_clo_f res_oclo_f vio_ok io_inv_poll (futures_of v)
                (poll_fuel v) n n s0 G0 Hp) as RT.
  pose proof (run_task_io clo oclo res_clo res_oclo cclo okclo res_clo_ok (poll_fuel v) n s0 I0 E0) as TI.
  destruct (run_task clo oclo res_clo res_oclo (poll_fuel v) n s0) as [s1 l1]. cbn [fst snd] in *.
  destruct RT as [P1 [G1 [D1 [L1 N1]]]]. destruct TI as [I1 [E1 C1]].
  assert (forall f, In f (futures_of v) ->
            In f (completes ev ++ sort_N (futures_of v)) \/ memf f (rs_done s1) = true) as Hall.
  { intros f Hf. left. apply in_app_iff. right. apply sort_N_in. exact Hf. }
  pose proof (run_exec_ends clo oclo res_clo res_oclo wclo woclo res_clo_w res_oclo_w
                fclo foclo res_clo_f res_oclo_f vio_ok io_inv_poll (futures_of v)
                (poll_fuel v) n (completes ev ++ sort_N (futures_of v)) s1 G1 P1 Hall) as RE.
  pose proof (run_exec_io clo oclo res_clo res_oclo cclo okclo res_clo_ok (poll_fuel v) n
                (completes ev ++ sort_N (futures_of v)) s1 I1 E1) as EI.
  destruct (run_exec clo oclo res_clo res_oclo (poll_fuel v) n
              (completes ev ++ sort_N (futures_of v)) s1) as [s2 l2]. cbn [fst snd] in *.
  destruct RE as [En _]. destruct EI as [I2 [E2 C2]].
  rewrite somes_app, <- C0.
  change (stream_of false (mem init) v) with (rs_sb s0).
  rewrite C1, C2, (E2 En), app_nil_r. reflexivity.
Qed.

(* ------------------------------------------------------------------ no lost wake-up, any view, both modes *)
(** whenever a poll of the stream of a view — in-order or out-of-order, in any reachable or
    unreachable state — returns Pending, some future of that stream is incomplete, holds the
    task's waker and is still owned by the stream; completing it wakes the task *)
Theorem no_lost_wake_view fuel (s s' : vrun_state) :
  step_poll clo oclo res_clo res_oclo fuel s = (s', PPending) ->
  exists f, In f (rs_reg s') /\ memf f (rs_done s') = false
            /\ In f (vsbfuts (rs_sb s)) /\ holds clo oclo (rs_sb s') f
            /\ snd (step_complete clo oclo f s') = 1%N.
Proof.
  apply (pending_is_parked clo oclo res_clo res_oclo fclo foclo res_clo_f res_oclo_f).
Qed.

(* ------------------------------------------------------------------ F-C07-a *)
Definition witness_view : view := VTuple [VText [97%N]; VSuspend 1%N (VText [98%N]); VText [99%N]].

(** ("a", Suspend(pending -> "b"), "c") streams a<!>bc, its resolved render is a<!>b<!>c *)
Lemma in_order_concat_refuted :
  exists v init ev,
    somes (run_free (poll_fuel v) false v init ev) <> fst (resolved v FirstChild).
Proof.
  exists witness_view, [], [EPoll; EComplete 1%N; EPoll]. vm_compute. discriminate.
Qed.

Example known_class_witness : known_class false [] witness_view = true.
Proof. reflexivity. Qed.

(** hypotheses of [in_order_concat_free] are satisfiable by a view with pending async parts *)
Example in_order_concat_nonvacuous :
  let v := VElem 0%N (VTuple [VText [97%N]; VSuspend 1%N (VElem 1%N (VText [98%N]));
                              VSuspend 2%N (VTuple [VElem 2%N (VText [99%N]);
                                                    VSuspend 3%N (VElem 3%N (VText [100%N]))])]) in
  known_class false [] v = false /\ futures_of v = [1%N; 2%N; 3%N].
Proof. split; reflexivity. Qed.
