(** C07 — proofs about the streaming model, part 1: the StreamBuilder state machine
    ([poll_next]) over arbitrary futures. *)
From Coq Require Import List NArith Bool Lia Arith.
From LV Require Import Html.Stream.
Import ListNotations.
Local Open Scope nat_scope.

Arguments sync_buf {K KO}.
Arguments chunks {K KO}.
Arguments pending {K KO}.
Arguments pending_ooo {K KO}.
Arguments bid {K KO}.
Arguments set_sync {K KO}.
Arguments set_chunks {K KO}.
Arguments set_pending {K KO}.
Arguments set_pooo {K KO}.
Arguments set_bid {K KO}.
Arguments oid {K KO}.
Arguments ochunks {K KO}.
Arguments oreplace {K KO}.
Arguments sync_payloads {K KO}.
Arguments non_sync {K KO}.
Arguments coalesce {K KO}.
Arguments rs_sb {K KO}.
Arguments rs_done {K KO}.
Arguments rs_reg {K KO}.
Arguments rs_ended {K KO}.

Section MachineProofs.
Variables K KO : Type.
Variable res : K -> (fid -> bool) -> list (chunk K KO).
Variable reso : KO -> (fid -> bool) -> ooo_chunk K KO.
Notation chunkT := (chunk K KO).
Notation sbT := (sb K KO).
Notation poll := (poll_next K KO res reso).
Notation outT := (pres * sbT * option fid)%type.

(* ------------------------------------------------------------------ one unfolding of poll_next *)
(** silent moves: poll_next calls itself on the new state *)
Inductive step1 (d : fid -> bool) : sbT -> sbT -> Prop :=
| s_ready f k b
    (Hp : pending b = Some (f, k)) (Hd : d f = true) :
    step1 d b (set_chunks (set_pending b None) (res k d ++ chunks b))
| s_sync v rest b buf rest' po
    (Hp : pending b = None) (Hc : chunks b = CSync v :: rest)
    (Hco : coalesce (sync_buf b ++ v) rest (pending_ooo b) = (buf, rest', po)) :
    step1 d b (set_pooo (set_chunks (set_sync b buf) rest') po)
| s_async f k rest b
    (Hp : pending b = None) (Hc : chunks b = CAsync f k :: rest) (Hs : sync_buf b = []) :
    step1 d b (set_chunks (set_pending b (Some (f, k))) rest)
| s_ooo g k rest b
    (Hp : pending b = None) (Hc : chunks b = COoo g k :: rest) (Hs : sync_buf b = []) :
    step1 d b (set_chunks (set_pooo b (pending_ooo b ++ [(g, k)])) rest)
| s_splice g k rest b start e
    (Hp : pending b = None) (Hc : chunks b = []) (Ho : pending_ooo b = (g, k) :: rest)
    (Hd : d g = true)
    (Hfo : find_idx (is_open (oid (reso k d))) (sync_buf b) = Some start)
    (Hfc : find_idx (is_close (oid (reso k d))) (sync_buf b) = Some e)
    (Hlt : Nat.ltb e start = false) :
    step1 d b
      (set_chunks
         (set_sync (set_pooo b rest)
            (firstn start (sync_buf b)
             ++ (if oreplace (reso k d) then []
                 else firstn (e - S start) (skipn (S start) (sync_buf b)))
             ++ concat (rev (sync_payloads (ochunks (reso k d))))
             ++ skipn (S e) (sync_buf b)))
         (rev (non_sync (ochunks (reso k d))) ++ []))
| s_template g k rest b
    (Hp : pending b = None) (Hc : chunks b = []) (Ho : pending_ooo b = (g, k) :: rest)
    (Hd : d g = true)
    (Hfo : find_idx (is_open (oid (reso k d))) (sync_buf b) = None) :
    step1 d b
      (set_chunks
         (set_sync (set_pooo b rest)
            (sync_buf b ++ [TTplS (oid (reso k d))]
             ++ concat (rev (sync_payloads (ochunks (reso k d))))
             ++ [TTplE (oid (reso k d)) (oreplace (reso k d))]))
         (non_sync (ochunks (reso k d)) ++ [])).

(** returns *)
Inductive ret1 (d : fid -> bool) : sbT -> outT -> Prop :=
| r_pending f k b
    (Hp : pending b = Some (f, k)) (Hd : d f = false) : ret1 d b (PPending, b, Some f)
| r_async_flush f k rest b
    (Hp : pending b = None) (Hc : chunks b = CAsync f k :: rest) (Hs : sync_buf b <> []) :
    ret1 d b (PSome (sync_buf b),
              set_sync (set_chunks (set_pending b (Some (f, k))) rest) [], None)
| r_ooo_flush g k rest b
    (Hp : pending b = None) (Hc : chunks b = COoo g k :: rest) (Hs : sync_buf b <> []) :
    ret1 d b (PSome (sync_buf b),
              set_sync (set_chunks (set_pooo b (pending_ooo b ++ [(g, k)])) rest) [], None)
| r_rot_pending g k rest b
    (Hp : pending b = None) (Hc : chunks b = []) (Ho : pending_ooo b = (g, k) :: rest)
    (Hd : d g = false) (Hs : sync_buf b = []) :
    ret1 d b (PPending, set_pooo b (rest ++ [(g, k)]), Some g)
| r_rot_some g k rest b
    (Hp : pending b = None) (Hc : chunks b = []) (Ho : pending_ooo b = (g, k) :: rest)
    (Hd : d g = false) (Hs : sync_buf b <> []) :
    ret1 d b (PSome (sync_buf b), set_sync (set_pooo b (rest ++ [(g, k)])) [], Some g)
| r_none b
    (Hp : pending b = None) (Hc : chunks b = []) (Ho : pending_ooo b = [])
    (Hs : sync_buf b = []) :
    ret1 d b (PNone, b, None)
| r_last b
    (Hp : pending b = None) (Hc : chunks b = []) (Ho : pending_ooo b = [])
    (Hs : sync_buf b <> []) :
    ret1 d b (PSome (sync_buf b), set_sync b [], None)
| r_panic_unwrap g k rest b start
    (Hp : pending b = None) (Hc : chunks b = []) (Ho : pending_ooo b = (g, k) :: rest)
    (Hd : d g = true)
    (Hfo : find_idx (is_open (oid (reso k d))) (sync_buf b) = Some start)
    (Hfc : find_idx (is_close (oid (reso k d))) (sync_buf b) = None) :
    ret1 d b (PPanic, set_pooo b rest, None)
| r_panic_sub g k rest b start e
    (Hp : pending b = None) (Hc : chunks b = []) (Ho : pending_ooo b = (g, k) :: rest)
    (Hd : d g = true)
    (Hfo : find_idx (is_open (oid (reso k d))) (sync_buf b) = Some start)
    (Hfc : find_idx (is_close (oid (reso k d))) (sync_buf b) = Some e)
    (Hlt : Nat.ltb e start = true) :
    ret1 d b (PPanic, set_pooo b rest, None).

Lemma is_nil_false {A} (l : list A) : is_nil l = false -> l <> [].
Proof. destruct l; simpl; congruence. Qed.
Lemma is_nil_true {A} (l : list A) : is_nil l = true -> l = [].
Proof. destruct l; simpl; congruence. Qed.

Ltac nilfin := eauto; try (apply is_nil_true; assumption); try (apply is_nil_false; assumption).

Lemma poll_unfold : forall fuel d b x,
  poll (S fuel) d b = x ->
  (exists b', step1 d b b' /\ poll fuel d b' = x) \/ ret1 d b x.
Proof.
  intros fuel d b x H. cbn [poll_next] in H.
  destruct (pending b) as [[f k]|] eqn:Ep.
  - destruct (d f) eqn:Ed.
    + left. eexists. split; [eapply s_ready; eauto|exact H].
    + right. subst x. eapply r_pending; eauto.
  - destruct (chunks b) as [|[v|f k|g k] rest] eqn:Ec.
    + destruct (pending_ooo b) as [|[g k] rest] eqn:Eo.
      * destruct (is_nil (sync_buf b)) eqn:En; subst x; right.
        -- apply r_none; nilfin.
        -- apply r_last; nilfin.
      * destruct (d g) eqn:Ed.
        -- cbn [pending_ooo set_pooo sync_buf chunks] in H.
           destruct (find_idx (is_open (oid (reso k d))) (sync_buf b)) as [start|] eqn:Es.
           ++ destruct (find_idx (is_close (oid (reso k d))) (sync_buf b)) as [e|] eqn:Ee.
              ** destruct (Nat.ltb e start) eqn:El.
                 --- right. subst x. eapply r_panic_sub; eauto.
                 --- left. eexists. split; [eapply s_splice; eauto|].
                     cbn [chunks set_sync set_pooo] in H. rewrite Ec in H. exact H.
              ** right. subst x. eapply r_panic_unwrap; eauto.
           ++ left. eexists. split; [eapply s_template; eauto|].
              cbn [chunks set_sync set_pooo] in H. rewrite Ec in H. exact H.
        -- cbn [pending_ooo set_pooo sync_buf chunks] in H.
           destruct (is_nil (sync_buf b)) eqn:En; subst x; right.
           ++ eapply r_rot_pending; nilfin.
           ++ eapply r_rot_some; nilfin.
    + destruct (coalesce (sync_buf b ++ v) rest (pending_ooo b)) as [[buf rest'] po] eqn:Eco.
      left. eexists. split; [eapply s_sync; eauto|exact H].
    + cbn [sync_buf set_chunks set_pending] in H.
      destruct (is_nil (sync_buf b)) eqn:En.
      * left. eexists. split; [eapply s_async; nilfin|exact H].
      * right. subst x. eapply r_async_flush; nilfin.
    + cbn [sync_buf set_chunks set_pooo] in H.
      destruct (is_nil (sync_buf b)) eqn:En.
      * left. eexists. split; [eapply s_ooo; nilfin|exact H].
      * right. subst x. eapply r_ooo_flush; nilfin.
Qed.

(** generic induction: a property of runs that is preserved backwards by silent moves *)
Lemma poll_ind_gen (d : fid -> bool) (P : sbT -> outT -> Prop) :
  (forall b x, ret1 d b x -> P b x) ->
  (forall b b' x, step1 d b b' -> P b' x -> P b x) ->
  (forall b, P b (PFuel, b, None)) ->
  forall fuel b, P b (poll fuel d b).
Proof.
  intros Hr Hs Hf. induction fuel as [|fuel IH]; intro b.
  - cbn. apply Hf.
  - destruct (poll_unfold fuel d b _ eq_refl) as [[b' [S1 E]]|R].
    + rewrite <- E. eapply Hs; eauto.
    + apply Hr; auto.
Qed.

(* ------------------------------------------------------------------ measure, fuel *)
Variable wK : K -> nat.
Variable wKO : KO -> nat.
Definition cw (c : chunkT) : nat :=
  match c with CSync _ => 1 | CAsync _ k => 2 + wK k | COoo _ k => 2 + wKO k end.
Definition cws (l : list chunkT) : nat := fold_right (fun c n => cw c + n) 0 l.
Definition pw (p : option (fid * K)) : nat :=
  match p with Some (_, k) => 1 + wK k | None => 0 end.
Definition pow (l : list (fid * KO)) : nat :=
  fold_right (fun fk n => 1 + wKO (snd fk) + n) 0 l.
Definition mu (b : sbT) : nat := cws (chunks b) + pw (pending b) + pow (pending_ooo b).

Hypothesis res_w : forall k d, cws (res k d) <= wK k.
Hypothesis reso_w : forall k d, cws (ochunks (reso k d)) <= wKO k.

Lemma cws_app l m : cws (l ++ m) = cws l + cws m.
Proof. induction l; simpl; lia. Qed.
Lemma pow_app l m : pow (l ++ m) = pow l + pow m.
Proof. induction l; simpl; lia. Qed.
Lemma cws_rev l : cws (rev l) = cws l.
Proof. induction l; simpl; [auto|rewrite cws_app; simpl; lia]. Qed.
Lemma cws_non_sync l : cws (non_sync l) <= cws l.
Proof. induction l as [|[s|f k|f k] l IH]; simpl; lia. Qed.

Lemma coalesce_w : forall c buf po buf' c' po',
  coalesce buf c po = (buf', c', po') -> cws c' + pow po' <= cws c + pow po.
Proof.
  induction c as [|[s|f k|f k] c IH]; intros buf po buf' c' po' H; simpl in H.
  - inversion H; subst; simpl; lia.
  - apply IH in H. simpl. lia.
  - inversion H; subst; simpl; lia.
  - inversion H; subst. rewrite pow_app. simpl. lia.
Qed.

Lemma step1_mu d b b' : step1 d b b' -> mu b' < mu b.
Proof.
  intros S; destruct S; unfold mu; simpl.
  - rewrite Hp. simpl. rewrite cws_app. specialize (res_w k d). lia.
  - rewrite Hp, Hc. simpl. apply coalesce_w in Hco. lia.
  - rewrite Hp, Hc. simpl. lia.
  - rewrite Hp, Hc. simpl. rewrite pow_app. simpl. lia.
  - rewrite Hp, Hc, Ho. simpl. rewrite app_nil_r, cws_rev.
    pose proof (cws_non_sync (ochunks (reso k d))). specialize (reso_w k d). lia.
  - rewrite Hp, Hc, Ho. simpl. rewrite app_nil_r.
    pose proof (cws_non_sync (ochunks (reso k d))). specialize (reso_w k d). lia.
Qed.

Lemma ret1_mu d b x : ret1 d b x -> mu (snd (fst x)) <= mu b.
Proof.
  intros R; destruct R; unfold mu; simpl; try lia.
  - rewrite Hp, Hc. simpl. lia.
  - rewrite Hp, Hc. simpl. rewrite pow_app. simpl. lia.
  - rewrite Ho. simpl. rewrite pow_app. simpl. lia.
  - rewrite Ho. simpl. rewrite pow_app. simpl. lia.
  - rewrite Ho. simpl. lia.
  - rewrite Ho. simpl. lia.
Qed.

Lemma poll_mu : forall fuel d b, mu (snd (fst (poll fuel d b))) <= mu b.
Proof.
  intros fuel d b.
  apply (poll_ind_gen d (fun b x => mu (snd (fst x)) <= mu b)).
  - intros b0 x R. apply (ret1_mu d); auto.
  - intros b0 b1 x S1 IH. apply (step1_mu d) in S1. lia.
  - intros b0. simpl. lia.
Qed.

Lemma poll_fuel_ok : forall fuel d b, mu b < fuel -> fst (fst (poll fuel d b)) <> PFuel.
Proof.
  induction fuel as [|fuel IH]; intros d b Hlt; [lia|].
  destruct (poll_unfold fuel d b _ eq_refl) as [[b' [S1 E]]|R].
  - rewrite <- E. apply IH. apply (step1_mu d) in S1. lia.
  - destruct R; simpl; discriminate.
Qed.


(* ------------------------------------------------------------------ who holds the waker *)
Definition holds (b : sbT) (f : fid) : Prop :=
  (exists k, pending b = Some (f, k)) \/ In f (map fst (pending_ooo b)).

(** the future reported as polled-and-pending is incomplete and is kept by the stream;
    Pending is only ever returned after such a poll *)
Lemma ret1_waker d b x : ret1 d b x ->
  (forall f, snd x = Some f -> d f = false /\ holds (snd (fst x)) f) /\
  (fst (fst x) = PPending -> snd x <> None).
Proof.
  intros R; destruct R; simpl; split; try congruence; intros f0 E; inversion E; subst;
    split; auto; unfold holds; simpl.
  - left; eauto.
  - right. rewrite map_app, in_app_iff. simpl. auto.
  - right. rewrite map_app, in_app_iff. simpl. auto.
Qed.

Lemma poll_waker : forall fuel d b,
  (forall f, snd (poll fuel d b) = Some f ->
     d f = false /\ holds (snd (fst (poll fuel d b))) f) /\
  (fst (fst (poll fuel d b)) = PPending -> snd (poll fuel d b) <> None).
Proof.
  intros fuel d b.
  apply (poll_ind_gen d (fun b x =>
    (forall f, snd x = Some f -> d f = false /\ holds (snd (fst x)) f) /\
    (fst (fst x) = PPending -> snd x <> None))).
  - intros b0 x R. apply (ret1_waker d b0); auto.
  - intros b0 b1 x S1 IH. exact IH.
  - intros b0. simpl. split; congruence.
Qed.

(* ------------------------------------------------------------------ futures of a state *)
Variable fK : K -> list fid.
Variable fKO : KO -> list fid.
Definition cfuts (c : chunkT) : list fid :=
  match c with CSync _ => [] | CAsync f k => f :: fK k | COoo f k => f :: fKO k end.
Definition csfuts (l : list chunkT) : list fid := flat_map cfuts l.
Definition pfuts (p : option (fid * K)) : list fid :=
  match p with Some (f, k) => f :: fK k | None => [] end.
Definition pofuts (l : list (fid * KO)) : list fid :=
  flat_map (fun fk => fst fk :: fKO (snd fk)) l.
Definition sbfuts (b : sbT) : list fid :=
  csfuts (chunks b) ++ pfuts (pending b) ++ pofuts (pending_ooo b).

Hypothesis res_f : forall k d, incl (csfuts (res k d)) (fK k).
Hypothesis reso_f : forall k d, incl (csfuts (ochunks (reso k d))) (fKO k).

Lemma csfuts_app l m : csfuts (l ++ m) = csfuts l ++ csfuts m.
Proof. unfold csfuts. apply flat_map_app. Qed.
Lemma pofuts_app l m : pofuts (l ++ m) = pofuts l ++ pofuts m.
Proof. unfold pofuts. apply flat_map_app. Qed.
Lemma csfuts_non_sync l : incl (csfuts (non_sync l)) (csfuts l).
Proof.
  induction l as [|[s|f k|f k] l IH]; simpl; auto using incl_refl.
  - apply incl_cons; [left; auto|]. apply incl_app; [apply incl_tl, incl_appl, incl_refl|].
    apply incl_tl, incl_appr; auto.
  - apply incl_cons; [left; auto|]. apply incl_app; [apply incl_tl, incl_appl, incl_refl|].
    apply incl_tl, incl_appr; auto.
Qed.
Lemma csfuts_rev l : incl (csfuts (rev l)) (csfuts l).
Proof.
  intros x Hx. unfold csfuts in *. rewrite in_flat_map in *.
  destruct Hx as [c [Hc Hx]]. exists c. split; auto. apply in_rev; auto.
Qed.

Lemma coalesce_f : forall c buf po buf' c' po',
  coalesce buf c po = (buf', c', po') ->
  incl (csfuts c' ++ pofuts po') (csfuts c ++ pofuts po).
Proof.
  induction c as [|[s|f k|f k] c IH]; intros buf po buf' c' po' H; simpl in H.
  - inversion H; subst. apply incl_refl.
  - apply IH in H. simpl. exact H.
  - inversion H; subst. apply incl_refl.
  - inversion H; subst. rewrite pofuts_app. simpl. rewrite app_nil_r.
    intros x Hx. rewrite !in_app_iff in *. simpl in *. rewrite in_app_iff.
    intuition.
Qed.

Ltac incl_solve :=
  intros x Hx; repeat (rewrite ?in_app_iff in *; simpl in * );
  repeat (rewrite ?in_app_iff in * ); intuition.

Lemma step1_f d b b' : step1 d b b' -> incl (sbfuts b') (sbfuts b).
Proof.
  intros S; destruct S; unfold sbfuts; simpl.
  - rewrite Hp. simpl. rewrite csfuts_app. pose proof (res_f k d) as R.
    intros x Hx. rewrite !in_app_iff in *. simpl. rewrite in_app_iff.
    destruct Hx as [[Hx|Hx]|Hx]; auto.
  - rewrite Hp, Hc. simpl. apply coalesce_f in Hco.
    intros x Hx. rewrite in_app_iff in Hx. destruct Hx as [Hx|Hx].
    + specialize (Hco x). rewrite !in_app_iff in *. intuition.
    + specialize (Hco x). rewrite !in_app_iff in *. intuition.
  - rewrite Hp, Hc. simpl. incl_solve.
  - rewrite Hp, Hc. simpl. rewrite pofuts_app. simpl. rewrite app_nil_r. incl_solve.
  - rewrite Hp, Hc, Ho. simpl. rewrite app_nil_r.
    pose proof (reso_f k d) as R. pose proof (csfuts_non_sync (ochunks (reso k d))) as N1.
    pose proof (csfuts_rev (non_sync (ochunks (reso k d)))) as N2.
    intros x Hx. rewrite !in_app_iff in *. simpl. rewrite in_app_iff.
    destruct Hx as [Hx|Hx]; auto. apply N2, N1, R in Hx. auto.
  - rewrite Hp, Hc, Ho. simpl. rewrite app_nil_r.
    pose proof (reso_f k d) as R. pose proof (csfuts_non_sync (ochunks (reso k d))) as N1.
    intros x Hx. rewrite !in_app_iff in *. simpl. rewrite in_app_iff.
    destruct Hx as [Hx|Hx]; auto.
Qed.

Lemma ret1_f d b x : ret1 d b x -> incl (sbfuts (snd (fst x))) (sbfuts b).
Proof.
  intros R; destruct R; unfold sbfuts; simpl; try apply incl_refl.
  - rewrite Hp, Hc. simpl. incl_solve.
  - rewrite Hp, Hc. simpl. rewrite pofuts_app. simpl. rewrite app_nil_r. incl_solve.
  - rewrite Ho. rewrite pofuts_app. simpl. rewrite app_nil_r. incl_solve.
  - rewrite Ho. rewrite pofuts_app. simpl. rewrite app_nil_r. incl_solve.
  - rewrite Ho. simpl. incl_solve.
  - rewrite Ho. simpl. incl_solve.
Qed.

Lemma poll_f : forall fuel d b, incl (sbfuts (snd (fst (poll fuel d b)))) (sbfuts b).
Proof.
  intros fuel d b.
  apply (poll_ind_gen d (fun b x => incl (sbfuts (snd (fst x))) (sbfuts b))).
  - intros b0 x R. apply (ret1_f d); auto.
  - intros b0 b1 x S1 IH. eapply incl_tran; [exact IH|apply (step1_f d); auto].
  - intros b0. apply incl_refl.
Qed.

Lemma holds_sbfuts b f : holds b f -> In f (sbfuts b).
Proof.
  unfold holds, sbfuts. intros [[k H]|H].
  - rewrite H. simpl. rewrite !in_app_iff. simpl. auto.
  - rewrite !in_app_iff. right. right. unfold pofuts. rewrite in_flat_map.
    rewrite in_map_iff in H. destruct H as [[g k] [E I]]. simpl in E. subst.
    exists (f, k). simpl. auto.
Qed.

(** Pending is returned only while some future of the stream is incomplete *)
Lemma poll_pending_incomplete fuel d b :
  fst (fst (poll fuel d b)) = PPending ->
  exists f, snd (poll fuel d b) = Some f /\ d f = false /\ In f (sbfuts b).
Proof.
  intros E. destruct (poll_waker fuel d b) as [W1 W2]. specialize (W2 E).
  destruct (snd (poll fuel d b)) as [f|] eqn:Ew; [|congruence].
  exists f. destruct (W1 f eq_refl) as [Hd Hh]. repeat split; auto.
  apply (poll_f fuel d b). apply holds_sbfuts; auto.
Qed.

(* ------------------------------------------------------------------ progress *)
Definition phi (b : sbT) : nat := mu b + (if is_nil (sync_buf b) then 0 else 1).

Lemma phi_le b : phi b <= mu b + 1.
Proof. unfold phi. destruct (is_nil (sync_buf b)); lia. Qed.

(** a poll that yields a chunk yields a non-empty one, leaves the buffer empty and
    strictly decreases [phi] *)
Lemma ret1_some d b x s : ret1 d b x -> fst (fst x) = PSome s ->
  s <> [] /\ sync_buf (snd (fst x)) = [] /\ phi (snd (fst x)) < phi b.
Proof.
  intros R E; destruct R; simpl in E; try discriminate; inversion E; subst;
    (split; [auto|split; [reflexivity|]]); unfold phi, mu; simpl;
    destruct (sync_buf b) eqn:Es; try congruence; simpl.
  - rewrite Hp, Hc. simpl. lia.
  - rewrite Hp, Hc. simpl. rewrite pow_app. simpl. lia.
  - rewrite Ho, pow_app. simpl. lia.
  - lia.
Qed.

Lemma poll_some : forall fuel d b s,
  fst (fst (poll fuel d b)) = PSome s ->
  s <> [] /\ sync_buf (snd (fst (poll fuel d b))) = [] /\ phi (snd (fst (poll fuel d b))) < phi b.
Proof.
  intros fuel d b.
  apply (poll_ind_gen d (fun b x => forall s, fst (fst x) = PSome s ->
    s <> [] /\ sync_buf (snd (fst x)) = [] /\ phi (snd (fst x)) < phi b)).
  - intros b0 x R s E. apply (ret1_some d b0 x s); auto.
  - intros b0 b1 x S1 IH s E. destruct (IH s E) as [A [B C]]. repeat split; auto.
    apply (step1_mu d) in S1. pose proof (phi_le b1). unfold phi at 2.
    destruct (is_nil (sync_buf b0)); lia.
  - intros b0 s E. simpl in E. discriminate.
Qed.

(** None is returned exactly from an exhausted stream, and is returned again ever after *)
Lemma ret1_none d b x : ret1 d b x -> fst (fst x) = PNone ->
  snd (fst x) = b /\ mu b = 0 /\ sync_buf b = [].
Proof.
  intros R E; destruct R; simpl in E; try discriminate. simpl. repeat split; auto.
  unfold mu. rewrite Hp, Hc, Ho. reflexivity.
Qed.


(* ------------------------------------------------------------------ in-order content *)
Variable cK : K -> html.
Variable okK : K -> Prop.
Definition okc (c : chunkT) : Prop :=
  match c with CSync _ => True | CAsync _ k => okK k | COoo _ _ => False end.
Definition flat1 (c : chunkT) : html :=
  match c with CSync s => s | CAsync _ k => cK k | COoo _ _ => [] end.
Definition flat (l : list chunkT) : html := flat_map flat1 l.

(** [cK k] is what the future [k] eventually contributes, whenever it is resolved *)
Hypothesis res_ok : forall k d, okK k -> Forall okc (res k d) /\ flat (res k d) = cK k.

Definition io_ok (b : sbT) : Prop :=
  Forall okc (chunks b)
  /\ match pending b with Some (_, k) => okK k | None => True end
  /\ pending_ooo b = [].
Definition pcontent (p : option (fid * K)) : html :=
  match p with Some (_, k) => cK k | None => [] end.
Definition content (b : sbT) : html := sync_buf b ++ pcontent (pending b) ++ flat (chunks b).
Definition out (r : pres) : html := match r with PSome s => s | _ => [] end.

Lemma flat_app l m : flat (l ++ m) = flat l ++ flat m.
Proof. unfold flat. apply flat_map_app. Qed.

Lemma coalesce_io : forall c buf po buf' c' po',
  Forall okc c -> coalesce buf c po = (buf', c', po') ->
  po' = po /\ Forall okc c' /\ buf' ++ flat c' = buf ++ flat c.
Proof.
  induction c as [|[s|f k|f k] c IH]; intros buf po buf' c' po' F H; simpl in H.
  - inversion H; subst. auto.
  - inversion F; subst. destruct (IH _ _ _ _ _ H3 H) as [A [B C]]. repeat split; auto.
    rewrite C. simpl. rewrite app_assoc. reflexivity.
  - inversion H; subst. auto.
  - inversion F; subst. simpl in H2. contradiction.
Qed.

Lemma step1_io d b b' : step1 d b b' -> io_ok b -> io_ok b' /\ content b' = content b.
Proof.
  intros S [Fc [Fp Fo]]; destruct S; unfold io_ok, content; simpl.
  - rewrite Hp in *. simpl. destruct (res_ok k d Fp) as [A B].
    repeat split; auto.
    + apply Forall_app; auto.
    + rewrite flat_app, B. reflexivity.
  - rewrite Hp, Hc in *. inversion Fc; subst.
    destruct (coalesce_io _ _ _ _ _ _ H2 Hco) as [A [B C]]. subst po.
    repeat split; auto. simpl. rewrite C. simpl. rewrite <- app_assoc. reflexivity.
  - rewrite Hp, Hc in *. inversion Fc; subst. simpl in *.
    repeat split; auto; try (rewrite Hs; reflexivity).
  - rewrite Hc in Fc. inversion Fc; subst. simpl in *. contradiction.
  - rewrite Fo in Ho. discriminate.
  - rewrite Fo in Ho. discriminate.
Qed.

Lemma ret1_io d b x : ret1 d b x -> io_ok b ->
  io_ok (snd (fst x)) /\ content b = out (fst (fst x)) ++ content (snd (fst x))
  /\ fst (fst x) <> PPanic /\ (fst (fst x) = PNone -> content b = []).
Proof.
  intros R [Fc [Fp Fo]]; destruct R; unfold io_ok, content; simpl;
    try (rewrite Fo in Ho; discriminate).
  - repeat split; auto; congruence.
  - rewrite Hp, Hc in *. inversion Fc; subst. simpl in *.
    repeat split; auto; congruence.
  - rewrite Hc in Fc. inversion Fc; subst. simpl in *. contradiction.
  - rewrite Hp, Hc, Hs. simpl. repeat split; auto; congruence.
  - rewrite Hp, Hc. simpl. repeat split; auto; try congruence;
      try (rewrite app_nil_r; reflexivity).
Qed.

Lemma poll_io : forall fuel d b, io_ok b ->
  let x := poll fuel d b in
  io_ok (snd (fst x)) /\ content b = out (fst (fst x)) ++ content (snd (fst x))
  /\ fst (fst x) <> PPanic /\ (fst (fst x) = PNone -> content b = []).
Proof.
  intros fuel d b.
  apply (poll_ind_gen d (fun b x => io_ok b ->
    io_ok (snd (fst x)) /\ content b = out (fst (fst x)) ++ content (snd (fst x))
    /\ fst (fst x) <> PPanic /\ (fst (fst x) = PNone -> content b = []))).
  - intros b0 x R I. apply (ret1_io d b0 x R I).
  - intros b0 b1 x S1 IH I. destruct (step1_io d b0 b1 S1 I) as [I1 E1].
    rewrite <- E1. apply IH; auto.
  - intros b0 I. simpl. split; [exact I|]. split; [reflexivity|]. split; [discriminate|intro; discriminate].
Qed.


(* ================================================================== runs *)
Notation rsT := (run_state K KO).
Notation spoll := (step_poll K KO res reso).
Definition dn (s : rsT) : fid -> bool := fun f => memf f (rs_done s).

Lemma memf_in f l : memf f l = true <-> In f l.
Proof.
  unfold memf. rewrite existsb_exists. split.
  - intros [x [I E]]. apply N.eqb_eq in E. subst. auto.
  - intros I. exists f. split; auto. apply N.eqb_refl.
Qed.
Lemma memf_cons f g l : memf f (g :: l) = (N.eqb f g || memf f l)%bool.
Proof. reflexivity. Qed.
Lemma in_removef f g l : In g (removef f l) <-> In g l /\ g <> f.
Proof.
  unfold removef. rewrite filter_In. split; intros [A B]; split; auto.
  - intro; subst. rewrite N.eqb_refl in B. discriminate.
  - destruct (N.eqb f g) eqn:E; auto. apply N.eqb_eq in E. congruence.
Qed.

Lemma spoll_eq fuel s :
  spoll fuel s =
  (let x := poll fuel (dn s) (rs_sb s) in
   ({| rs_sb := snd (fst x); rs_done := rs_done s;
       rs_reg := match snd x with
                 | Some f => if memf f (rs_reg s) then rs_reg s else f :: rs_reg s
                 | None => rs_reg s end;
       rs_ended := match fst (fst x) with PNone => true | _ => rs_ended s end |},
    fst (fst x))).
Proof.
  unfold step_poll, dn. destruct (poll fuel _ (rs_sb s)) as [[r b] w]. reflexivity.
Qed.

(** no lost wake-up: after a poll that returned Pending, an incomplete future of the stream
    holds the task's waker, so its completion wakes the task *)
Theorem pending_is_parked fuel s s' :
  spoll fuel s = (s', PPending) ->
  exists f, In f (rs_reg s') /\ memf f (rs_done s') = false /\ In f (sbfuts (rs_sb s))
            /\ holds (rs_sb s') f
            /\ snd (step_complete K KO f s') = 1%N.
Proof.
  rewrite spoll_eq. cbv zeta. intros E. injection E as E1 E2. subst s'.
  destruct (poll_pending_incomplete fuel (dn s) (rs_sb s) E2) as [f [Ew [Hd Hi]]].
  destruct (poll_waker fuel (dn s) (rs_sb s)) as [W1 _].
  destruct (W1 f Ew) as [_ Hh].
  exists f. cbn [rs_reg rs_done rs_sb]. rewrite Ew.
  assert (In f (if memf f (rs_reg s) then rs_reg s else f :: rs_reg s)) as Hr.
  { destruct (memf f (rs_reg s)) eqn:M; [apply memf_in; auto|left; auto]. }
  repeat split; auto.
  unfold step_complete. cbn [rs_reg rs_done rs_sb]. unfold dn in Hd. rewrite Hd.
  apply memf_in in Hr. rewrite Hr. reflexivity.
Qed.

Section WithInvariant.
(** a state invariant that rules out the two panics of poll_next *)
Variable Inv : sbT -> Prop.
Hypothesis inv_poll : forall fuel d b, Inv b ->
  Inv (snd (fst (poll fuel d b))) /\ fst (fst (poll fuel d b)) <> PPanic.
(** the futures the stream can ever wait for *)
Variable F : list fid.

Record good (fuel n : nat) (s : rsT) : Prop := {
  g_inv : Inv (rs_sb s);
  g_f : incl (sbfuts (rs_sb s)) F;
  g_fuel : mu (rs_sb s) < fuel;
  g_n : mu (rs_sb s) + 1 < n;
}.

Lemma good_poll fuel n s : good fuel n s -> good fuel n (fst (spoll fuel s)).
Proof.
  intros [A B C D]. rewrite spoll_eq. simpl.
  pose proof (poll_mu fuel (dn s) (rs_sb s)) as M.
  pose proof (poll_f fuel (dn s) (rs_sb s)) as Fi.
  destruct (inv_poll fuel (dn s) (rs_sb s) A) as [I _].
  constructor; simpl; auto; try lia. eapply incl_tran; eauto.
Qed.

Lemma spoll_not_bad fuel n s : good fuel n s ->
  snd (spoll fuel s) <> PFuel /\ snd (spoll fuel s) <> PPanic.
Proof.
  intros [A B C D]. rewrite spoll_eq. simpl. split.
  - apply poll_fuel_ok; auto.
  - apply inv_poll; auto.
Qed.

Lemma spoll_done fuel s : rs_done (fst (spoll fuel s)) = rs_done s.
Proof. rewrite spoll_eq. reflexivity. Qed.

Definition all_done (s : rsT) : Prop := forall f, In f F -> memf f (rs_done s) = true.

Lemma spoll_all_done_not_pending fuel n s :
  good fuel n s -> all_done s -> snd (spoll fuel s) <> PPending.
Proof.
  intros G A E. rewrite spoll_eq in E. simpl in E.
  destruct (poll_pending_incomplete fuel (dn s) (rs_sb s) E) as [f [_ [Hd Hi]]].
  apply (g_f _ _ _ G) in Hi. specialize (A f Hi). unfold dn in Hd. congruence.
Qed.

(** the stream of a state in which every future is complete ends within phi+1 polls *)
Lemma drain_terminates fuel : forall n m s,
  good fuel m s -> all_done s -> phi (rs_sb s) < n ->
  let '(s', l) := drain K KO res reso fuel n s in
  rs_ended s' = true /\ good fuel m s' /\ length l <= phi (rs_sb s) + 1
  /\ (forall o, In o l -> o = ONone \/ exists x, o = OSome x).
Proof.
  induction n as [|n IH]; intros m s G A Hn; [lia|].
  cbn [drain]. destruct (rs_ended s) eqn:En.
  - split; [auto|split; [auto|split; [simpl; lia|intros o []]]].
  - destruct (spoll fuel s) as [s1 r] eqn:Es.
    pose proof (good_poll fuel m s G) as G1. rewrite Es in G1. simpl in G1.
    pose proof (spoll_not_bad fuel m s G) as [NB1 NB2]. rewrite Es in NB1, NB2. simpl in *.
    pose proof (spoll_all_done_not_pending fuel m s G A) as NP. rewrite Es in NP. simpl in NP.
    pose proof (spoll_done fuel s) as Ed. rewrite Es in Ed. simpl in Ed.
    assert (all_done s1) as A1 by (unfold all_done; rewrite Ed; auto).
    assert (Es' := Es). rewrite spoll_eq in Es'. cbv zeta in Es'. injection Es' as E1 E2.
    destruct r as [|x| | |]; try congruence.
    + (* Some: phi decreases *)
      destruct (poll_some fuel (dn s) (rs_sb s) x E2) as [_ [_ Hphi]].
      assert (phi (rs_sb s1) < n) as Hn1.
      { rewrite <- E1. simpl. lia. }
      specialize (IH m s1 G1 A1 Hn1).
      destruct (drain K KO res reso fuel n s1) as [s2 l2].
      destruct IH as [I1 [I2 [I3 I4]]].
      split; [auto|split; [auto|split]].
      * simpl. rewrite <- E1 in I3. simpl in I3. lia.
      * intros o [Ho|Ho]; [right; eexists; eauto|auto].
    + (* None *)
      assert (rs_ended s1 = true) as En1 by (rewrite <- E1; simpl; rewrite E2; reflexivity).
      destruct n as [|n']; cbn [drain]; rewrite En1.
      * split; [auto|split; [auto|split; [simpl; lia|intros o [Ho|[]]; auto]]].
      * split; [auto|split; [auto|split; [simpl; lia|intros o [Ho|[]]; auto]]].
Qed.

(* ---- the executor drive ---- *)
Definition parked (s : rsT) : Prop :=
  rs_ended s = true \/
  exists f, In f (rs_reg s) /\ memf f (rs_done s) = false /\ In f F.

Lemma run_task_parked fuel m : forall n s,
  good fuel m s -> phi (rs_sb s) < n ->
  let '(s', l) := run_task K KO res reso fuel n s in
  parked s' /\ good fuel m s' /\ rs_done s' = rs_done s
  /\ (forall o, In o l -> o = ONone \/ o = OPending \/ exists x, o = OSome x).
Proof.
  induction n as [|n IH]; intros s G Hn; [lia|].
  cbn [run_task]. destruct (spoll fuel s) as [s1 r] eqn:Es.
  pose proof (good_poll fuel m s G) as G1. rewrite Es in G1. simpl in G1.
  pose proof (spoll_not_bad fuel m s G) as [NB1 NB2]. rewrite Es in NB1, NB2. simpl in *.
  pose proof (spoll_done fuel s) as Ed. rewrite Es in Ed. simpl in Ed.
  assert (Es' := Es). rewrite spoll_eq in Es'. cbv zeta in Es'. injection Es' as E1 E2.
  destruct r as [|x| | |]; try congruence.
  - (* Pending *)
    destruct (pending_is_parked fuel s s1 Es) as [f [Hr [Hd [Hi _]]]].
    split; [|split; [exact G1|split; [exact Ed|]]].
    + right. exists f. split; [auto|split; [auto|]]. apply (g_f _ _ _ G); auto.
    + intros o [Ho|[]]; subst; auto.
  - destruct (poll_some fuel (dn s) (rs_sb s) x E2) as [_ [_ Hphi]].
    assert (phi (rs_sb s1) < n) as Hn1 by (rewrite <- E1; simpl; lia).
    specialize (IH s1 G1 Hn1).
    destruct (run_task K KO res reso fuel n s1) as [s2 l2].
    destruct IH as [I1 [I2 [I3 I4]]].
    split; [exact I1|split; [exact I2|split; [congruence|]]].
    intros o [Ho|Ho]; [right; right; eexists; eauto|auto].
  - split; [|split; [exact G1|split; [exact Ed|]]].
    + left. rewrite <- E1. simpl. rewrite E2. reflexivity.
    + intros o [Ho|[]]; subst; auto.
Qed.

Lemma complete_parked f s :
  parked s -> snd (step_complete K KO f s) = 0%N -> parked (fst (step_complete K KO f s)).
Proof.
  unfold step_complete. destruct (memf f (rs_done s)) eqn:Md; simpl; auto.
  intros [E|[g [Hr [Hd Hf]]]] W; [left; auto|].
  destruct (memf f (rs_reg s)) eqn:Mr; [discriminate|].
  right. exists g. cbn [fst rs_reg rs_done]. assert (g <> f) as Ne.
  { intro; subst. apply memf_in in Hr. congruence. }
  split; [apply in_removef; auto|split; [|auto]].
  rewrite memf_cons, Hd.
  destruct (N.eqb g f) eqn:E; auto. apply N.eqb_eq in E. congruence.
Qed.

Lemma complete_good fuel m f s : good fuel m s -> good fuel m (fst (step_complete K KO f s)).
Proof.
  unfold step_complete. destruct (memf f (rs_done s)); simpl; auto.
  intros [A B C D]. constructor; auto.
Qed.

Lemma complete_done f s g :
  memf g (rs_done (fst (step_complete K KO f s))) = true <-> (g = f \/ memf g (rs_done s) = true).
Proof.
  unfold step_complete. destruct (memf f (rs_done s)) eqn:Md; cbn [fst rs_done].
  - split; auto. intros [E|E]; subst; auto.
  - rewrite memf_cons, orb_true_iff, N.eqb_eq. tauto.
Qed.

(** an executor that polls only when woken drives the stream to its end: it never stalls *)
Lemma run_exec_ends fuel n : forall order s,
  good fuel n s -> parked s ->
  (forall f, In f F -> In f order \/ memf f (rs_done s) = true) ->
  let '(s', l) := run_exec K KO res reso fuel n order s in
  rs_ended s' = true /\
  (forall o, In o l -> o = ONone \/ o = OPending \/ (exists x, o = OSome x) \/ exists w, o = OWake w).
Proof.
  induction order as [|f order IH]; intros s G P Hall.
  - cbn [run_exec]. destruct (rs_ended s) eqn:En.
    + split; auto. intros o [].
    + exfalso. destruct P as [E|[f [Hr [Hd Hf]]]]; [congruence|].
      destruct (Hall f Hf) as [[]|E]. congruence.
  - cbn [run_exec]. destruct (memf f (rs_done s)) eqn:Md.
    + apply IH; auto. intros g Hg. destruct (Hall g Hg) as [[E|I]|E]; subst; auto.
    + destruct (step_complete K KO f s) as [s1 w] eqn:Ec.
      pose proof (complete_good fuel n f s G) as G1. rewrite Ec in G1. simpl in G1.
      assert (forall g, In g F -> In g order \/ memf g (rs_done s1) = true) as Hall1.
      { intros g Hg. pose proof (complete_done f s g) as CD. rewrite Ec in CD. simpl in CD.
        destruct (Hall g Hg) as [[E|I]|E]; subst; auto; right; apply CD; auto. }
      destruct ((0 <? w)%N && negb (rs_ended s1)) eqn:Ew.
      * assert (phi (rs_sb s1) < n) as Hp
          by (pose proof (phi_le (rs_sb s1)); pose proof (g_n _ _ _ G1); lia).
        pose proof (run_task_parked fuel n n s1 G1 Hp) as RT.
        destruct (run_task K KO res reso fuel n s1) as [s2 l1].
        destruct RT as [P2 [G2 [D2 L1]]].
        assert (forall g, In g F -> In g order \/ memf g (rs_done s2) = true) as Hall2
          by (rewrite D2; auto).
        specialize (IH s2 G2 P2 Hall2).
        destruct (run_exec K KO res reso fuel n order s2) as [s3 l2].
        destruct IH as [I1 I2]. split; auto.
        intros o [Ho|Ho]; [right; right; right; eexists; eauto|].
        apply in_app_iff in Ho. destruct Ho as [Ho|Ho]; auto.
        destruct (L1 o Ho) as [A|[A|A]]; auto.
      * assert (parked s1) as P1.
        { apply andb_false_iff in Ew. destruct Ew as [Ew|Ew].
          - pose proof (complete_parked f s P) as CP. rewrite Ec in CP. simpl in CP.
            apply CP. apply N.ltb_ge in Ew. lia.
          - left. destruct (rs_ended s1); auto. }
        specialize (IH s1 G1 P1 Hall1).
        destruct (run_exec K KO res reso fuel n order s1) as [s3 l2].
        destruct IH as [I1 I2]. split; auto.
        intros o [Ho|Ho]; [right; right; right; eexists; eauto|auto].
Qed.

Lemma run_events_good fuel n : forall ev s,
  good fuel n s ->
  good fuel n (fst (run_events K KO res reso fuel ev s))
  /\ (forall f, memf f (rs_done s) = true ->
        memf f (rs_done (fst (run_events K KO res reso fuel ev s))) = true)
  /\ ~ In OFuel (snd (run_events K KO res reso fuel ev s))
  /\ ~ In OPanic (snd (run_events K KO res reso fuel ev s)).
Proof.
  induction ev as [|[f|] ev IH]; intros s G; cbn [run_events].
  - simpl. auto.
  - destruct (step_complete K KO f s) as [s1 w] eqn:Ec.
    pose proof (complete_good fuel n f s G) as G1. rewrite Ec in G1. simpl in G1.
    destruct (IH s1 G1) as [A [B [C D]]].
    destruct (run_events K KO res reso fuel ev s1) as [s2 l]. simpl in *.
    split; [auto|split; [|split]].
    + intros g Hg. apply B. pose proof (complete_done f s g) as CD. rewrite Ec in CD.
      apply CD. auto.
    + intros [E|E]; [discriminate|auto].
    + intros [E|E]; [discriminate|auto].
  - destruct (spoll fuel s) as [s1 r] eqn:Es.
    pose proof (good_poll fuel n s G) as G1. rewrite Es in G1. simpl in G1.
    pose proof (spoll_not_bad fuel n s G) as [NB1 NB2]. rewrite Es in NB1, NB2. simpl in *.
    pose proof (spoll_done fuel s) as Ed. rewrite Es in Ed. simpl in Ed.
    destruct (IH s1 G1) as [A [B [C D]]].
    destruct (run_events K KO res reso fuel ev s1) as [s2 l]. simpl in *.
    split; [auto|split; [|split]].
    + intros g Hg. apply B. rewrite Ed. auto.
    + intros [E|E]; [destruct r; simpl in E; congruence|auto].
    + intros [E|E]; [destruct r; simpl in E; congruence|auto].
Qed.

Lemma complete_all_good fuel n : forall fs s,
  good fuel n s ->
  good fuel n (fst (complete_all K KO fs s))
  /\ (forall f, In f fs \/ memf f (rs_done s) = true ->
        memf f (rs_done (fst (complete_all K KO fs s))) = true)
  /\ rs_sb (fst (complete_all K KO fs s)) = rs_sb s
  /\ rs_ended (fst (complete_all K KO fs s)) = rs_ended s
  /\ somes (snd (complete_all K KO fs s)) = [].
Proof.
  induction fs as [|f fs IH]; intros s G; cbn [complete_all].
  - simpl. split; [exact G|split; [|auto]]. intros f [[]|H]; auto.
  - destruct (memf f (rs_done s)) eqn:Md.
    + destruct (IH s G) as [A [B [C [D E]]]].
      split; [exact A|split; [|auto]].
      intros g [[Hg|Hg]|Hg]; subst; auto.
    + destruct (step_complete K KO f s) as [s1 w] eqn:Ec.
      pose proof (complete_good fuel n f s G) as G1. rewrite Ec in G1. simpl in G1.
      assert (rs_sb s1 = rs_sb s /\ rs_ended s1 = rs_ended s) as [Esb Een].
      { unfold step_complete in Ec. rewrite Md in Ec. inversion Ec. auto. }
      destruct (IH s1 G1) as [A [B [C [D E]]]].
      destruct (complete_all K KO fs s1) as [s2 l]. simpl in *.
      split; [exact A|split; [|split; [congruence|split; [congruence|auto]]]].
      intros g Hg. apply B. pose proof (complete_done f s g) as CD. rewrite Ec in CD. simpl in CD.
      destruct Hg as [[Hg|Hg]|Hg]; subst; auto; right; apply CD; auto.
Qed.

End WithInvariant.

(* ---- in-order runs ---- *)
Definition ended_ok (s : rsT) : Prop := rs_ended s = true -> content (rs_sb s) = [].

Lemma spoll_io fuel s : io_ok (rs_sb s) -> ended_ok s ->
  io_ok (rs_sb (fst (spoll fuel s))) /\ ended_ok (fst (spoll fuel s))
  /\ content (rs_sb s) = out (snd (spoll fuel s)) ++ content (rs_sb (fst (spoll fuel s)))
  /\ snd (spoll fuel s) <> PPanic.
Proof.
  intros I E. rewrite spoll_eq. cbv zeta. cbn [fst snd rs_sb rs_ended].
  destruct (poll_io fuel (dn s) (rs_sb s) I) as [A [B [C D]]].
  split; [auto|split; [|split; auto]].
  unfold ended_ok. cbn [rs_ended rs_sb]. intros En.
  destruct (fst (fst (poll fuel (dn s) (rs_sb s)))) eqn:Er;
    try (specialize (E En); rewrite E in B; symmetry in B; apply app_eq_nil in B; tauto).
  specialize (D eq_refl). rewrite D in B. symmetry in B. apply app_eq_nil in B. tauto.
Qed.

Lemma inv_poll_io : forall fuel d b, io_ok b ->
  io_ok (snd (fst (poll fuel d b))) /\ fst (fst (poll fuel d b)) <> PPanic.
Proof. intros fuel d b I. destruct (poll_io fuel d b I) as [A [_ [C _]]]. auto. Qed.

Lemma out_obs r : somes [obs_of r] = out r.
Proof. destruct r; simpl; try reflexivity. apply app_nil_r. Qed.

Lemma run_events_io fuel : forall ev s, io_ok (rs_sb s) -> ended_ok s ->
  let x := run_events K KO res reso fuel ev s in
  io_ok (rs_sb (fst x)) /\ ended_ok (fst x)
  /\ content (rs_sb s) = somes (snd x) ++ content (rs_sb (fst x)).
Proof.
  induction ev as [|[f|] ev IH]; intros s I E; cbn [run_events].
  - simpl. auto.
  - destruct (step_complete K KO f s) as [s1 w] eqn:Ec.
    assert (rs_sb s1 = rs_sb s /\ rs_ended s1 = rs_ended s) as [Esb Een].
    { unfold step_complete in Ec. destruct (memf f (rs_done s)); inversion Ec; auto. }
    assert (io_ok (rs_sb s1)) as I1 by (rewrite Esb; auto).
    assert (ended_ok s1) as E1 by (unfold ended_ok; rewrite Esb, Een; auto).
    specialize (IH s1 I1 E1). destruct (run_events K KO res reso fuel ev s1) as [s2 l].
    cbn [fst snd] in *. rewrite <- Esb. exact IH.
  - pose proof (spoll_io fuel s I E) as SP. destruct (spoll fuel s) as [s1 r]. simpl in SP.
    destruct SP as [I1 [E1 [C1 _]]].
    specialize (IH s1 I1 E1). destruct (run_events K KO res reso fuel ev s1) as [s2 l].
    cbn [fst snd] in *. destruct IH as [A [B C]]. split; [exact A|split; [exact B|]].
    rewrite C1, C. destruct r; simpl; rewrite ?app_assoc; reflexivity.
Qed.

Lemma drain_io fuel : forall n s, io_ok (rs_sb s) -> ended_ok s ->
  let x := drain K KO res reso fuel n s in
  io_ok (rs_sb (fst x)) /\ ended_ok (fst x)
  /\ content (rs_sb s) = somes (snd x) ++ content (rs_sb (fst x)).
Proof.
  induction n as [|n IH]; intros s I E; cbn [drain]; destruct (rs_ended s) eqn:En;
    try (simpl; auto; fail).
  pose proof (spoll_io fuel s I E) as SP. destruct (spoll fuel s) as [s1 r]. simpl in SP.
  destruct SP as [I1 [E1 [C1 _]]].
  specialize (IH s1 I1 E1). destruct (drain K KO res reso fuel n s1) as [s2 l].
  cbn [fst snd] in *. destruct IH as [A [B C]]. split; [exact A|split; [exact B|]].
  rewrite C1, C. destruct r; simpl; rewrite ?app_assoc; reflexivity.
Qed.

End MachineProofs.

(* ================================================================== part 2: views *)
Arguments push_sync {K KO}.
Arguments flush {K KO}.
Arguments push_async {K KO}.
Arguments take_chunks {K KO}.
Arguments append {K KO}.
Arguments finish {K KO}.
Arguments next_id {K KO}.
Arguments clone_id {K KO}.
Arguments write_chunk_marker {K KO}.
Arguments push_ooo {K KO}.
Arguments push_to_last_sync {K KO}.

Section ViewInd.
Variable P : view -> Prop.
Hypothesis HT : forall s, P (VText s).
Hypothesis HE : forall t c, P c -> P (VElem t c).
Hypothesis HTu : forall vs, Forall P vs -> P (VTuple vs).
Hypothesis HS : forall f c, P c -> P (VSuspend f c).
Hypothesis HB : forall f fb c sm, P fb -> P c -> P (VBoundary f fb c sm).
Hypothesis HA : forall c, P c -> P (VAppend c).
Hypothesis HRS : forall s, P (VRawSync s).
Hypothesis HRA : forall f c, P c -> P (VRawAsync f c).
Fixpoint view_ind' (v : view) : P v :=
  match v with
  | VText s => HT s
  | VElem t c => HE t c (view_ind' c)
  | VTuple vs =>
      HTu vs ((fix go (vs : list view) : Forall P vs :=
                 match vs with
                 | [] => Forall_nil P
                 | v :: vs => Forall_cons v (view_ind' v) (go vs)
                 end) vs)
  | VSuspend f c => HS f c (view_ind' c)
  | VBoundary f fb c sm => HB f fb c sm (view_ind' fb) (view_ind' c)
  | VAppend c => HA c (view_ind' c)
  | VRawSync s => HRS s
  | VRawAsync f c => HRA f c (view_ind' c)
  end.
End ViewInd.

(** the list loops of the tuple cases, as functions *)
Fixpoint render_list (ooo : bool) (d : fid -> bool) (vs : list view) (b : vsb) (pos : position)
  : vsb * position :=
  match vs with
  | [] => (b, pos)
  | v :: vs => let '(b, pos) := render ooo d v b pos in render_list ooo d vs b pos
  end.
Fixpoint resolved_list (vs : list view) (pos : position) : html * position :=
  match vs with
  | [] => ([], pos)
  | v :: vs => let '(h, pos) := resolved v pos in
               let '(h', pos) := resolved_list vs pos in (h ++ h', pos)
  end.
Fixpoint to_html_list (d : fid -> bool) (vs : list view) (pos : position) : html * position :=
  match vs with
  | [] => ([], pos)
  | v :: vs => let '(h, pos) := to_html d v pos in
               let '(h', pos) := to_html_list d vs pos in (h ++ h', pos)
  end.

Lemma render_tuple ooo d v vs b pos :
  render ooo d (VTuple (v :: vs)) b pos = render_list ooo d (v :: vs) b pos.
Proof.
  cbn [render render_list]. destruct (render ooo d v b pos) as [b1 p1].
  revert b1 p1. induction vs as [|w vs IH]; intros b1 p1; cbn [render_list]; auto;
    try (destruct (render ooo d w b1 p1) as [b2 p2]; apply IH).
Qed.
Lemma resolved_tuple v vs pos :
  resolved (VTuple (v :: vs)) pos = resolved_list (v :: vs) pos.
Proof.
  cbn [resolved resolved_list]. destruct (resolved v pos) as [h1 p1].
  revert p1. induction vs as [|w vs IH]; intros p1; cbn [resolved_list]; auto;
    try (destruct (resolved w p1) as [h2 p2]; rewrite IH; reflexivity).
Qed.
Lemma to_html_tuple d v vs pos :
  to_html d (VTuple (v :: vs)) pos = to_html_list d (v :: vs) pos.
Proof.
  cbn [to_html to_html_list]. destruct (to_html d v pos) as [h1 p1].
  revert p1. induction vs as [|w vs IH]; intros p1; cbn [to_html_list]; auto;
    try (destruct (to_html d w p1) as [h2 p2]; rewrite IH; reflexivity).
Qed.

Notation vchunkT := (chunk clo oclo).

(* ------------------------------------------------------------------ builder facts *)
Lemma render_keeps ooo d v : forall b pos,
  pending (fst (render ooo d v b pos)) = pending b /\
  pending_ooo (fst (render ooo d v b pos)) = pending_ooo b.
Proof.
  induction v using view_ind'; intros b pos.
  - simpl. auto.
  - cbn [render]. destruct (render ooo d v _ FirstChild) as [b1 p1] eqn:E.
    specialize (IHv (push_sync (open_tag t) b) FirstChild). rewrite E in IHv. simpl in *. auto.
  - destruct vs as [|v vs]; [simpl; auto|]. rewrite render_tuple.
    revert b pos. induction H as [|w ws Hw Hws IH]; intros b pos; cbn [render_list]; auto.
    destruct (render ooo d w b pos) as [b1 p1] eqn:E.
    specialize (Hw b pos). rewrite E in Hw. simpl in Hw.
    destruct (IH b1 p1) as [A B]. destruct Hw as [C D]. split; congruence.
  - cbn [render]. destruct (d f); [apply IHv|].
    destruct ooo; simpl; unfold write_chunk_marker, next_id, push_async, flush; simpl;
      repeat (match goal with |- context [match ?x with _ => _ end] => destruct x end; simpl); auto.
  - cbn [render]. destruct (d f).
    + destruct sm; [destruct (IHv2 (next_id b) pos)|destruct (IHv1 (next_id b) pos)]; simpl in *; auto.
    + destruct ooo; simpl; unfold write_chunk_marker, next_id, push_async, flush; simpl;
      repeat (match goal with |- context [match ?x with _ => _ end] => destruct x end; simpl); auto.
  - cbn [render]. destruct (render ooo d v _ pos) as [nb p1]. unfold append, flush. simpl.
    repeat (match goal with |- context [if ?x then _ else _] => destruct x end; simpl); auto.
  - simpl. auto.
  - cbn [render]. unfold push_async, flush. simpl.
    repeat (match goal with |- context [if ?x then _ else _] => destruct x end; simpl); auto.
Qed.
