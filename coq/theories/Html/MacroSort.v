(** C18 — canonical forms of attribute sets: the orders [ble] / [pair_le] are total orders and
    [sort] therefore maps permutations of a list to the same list. *)
From Coq Require Import List NArith Bool Lia Permutation Sorted.
From LV Require Import Base.Bytes Html.Macro.
Import ListNotations.
Open Scope N_scope.

Lemma beq_refl : forall a, beq a a = true.
Proof. induction a as [|x a IH]; cbn [beq]; [reflexivity|]. now rewrite N.eqb_refl, IH. Qed.

Lemma beq_eq : forall a b, beq a b = true -> a = b.
Proof.
  induction a as [|x a IH]; intros [|y b] H; cbn [beq] in H; try discriminate; [reflexivity|].
  apply andb_true_iff in H as [H1 H2]. apply N.eqb_eq in H1. subst. f_equal. now apply IH.
Qed.

Lemma beq_spec : forall a b, beq a b = true <-> a = b.
Proof. split; [apply beq_eq | intros ->; apply beq_refl]. Qed.

Lemma beq_neq : forall a b, a <> b -> beq a b = false.
Proof. intros a b H. destruct (beq a b) eqn:E; [|reflexivity]. now apply beq_eq in E. Qed.

Lemma mem_In : forall x l, mem x l = true <-> In x l.
Proof.
  intros x l. unfold mem. rewrite existsb_exists. split.
  - intros (y & Hy & E). apply beq_eq in E. now subst.
  - intros H. exists x. split; [assumption | apply beq_refl].
Qed.

(** ---- lexicographic order from an order on the elements ---- *)
Section Lex.
  Variable A : Type.
  Variables le eqb : A -> A -> bool.
  Hypothesis eqb_spec : forall x y, eqb x y = true <-> x = y.
  Hypothesis le_total : forall a b, le a b = true \/ le b a = true.
  Hypothesis le_trans : forall a b c, le a b = true -> le b c = true -> le a c = true.
  Hypothesis le_antisym : forall a b, le a b = true -> le b a = true -> a = b.

  Lemma eqb_sym_false : forall x y, eqb x y = false -> eqb y x = false.
  Proof.
    intros x y H. destruct (eqb y x) eqn:E; [|reflexivity].
    apply eqb_spec in E. subst. assert (eqb x x = true) by now apply eqb_spec. congruence.
  Qed.

  Lemma lex_total : forall a b, lex_le le eqb a b = true \/ lex_le le eqb b a = true.
  Proof.
    induction a as [|x a IH]; intros [|y b]; cbn [lex_le]; auto.
    destruct (eqb x y) eqn:E.
    - apply eqb_spec in E. subst. assert (Hy : eqb y y = true) by now apply eqb_spec.
      rewrite Hy. apply IH.
    - rewrite (eqb_sym_false _ _ E). apply le_total.
  Qed.

  Lemma lex_antisym : forall a b, lex_le le eqb a b = true -> lex_le le eqb b a = true -> a = b.
  Proof.
    induction a as [|x a IH]; intros [|y b]; cbn [lex_le]; intros H1 H2; try discriminate; auto.
    destruct (eqb x y) eqn:E.
    - apply eqb_spec in E. subst. assert (Hy : eqb y y = true) by now apply eqb_spec.
      rewrite Hy in H2. f_equal. now apply IH.
    - rewrite (eqb_sym_false _ _ E) in H2. assert (x = y) by now apply le_antisym.
      apply eqb_spec in H. congruence.
  Qed.

  Lemma lex_trans : forall a b c,
      lex_le le eqb a b = true -> lex_le le eqb b c = true -> lex_le le eqb a c = true.
  Proof.
    induction a as [|x a IH]; intros [|y b] [|z c]; cbn [lex_le]; intros H1 H2; try discriminate; auto.
    destruct (eqb x y) eqn:Exy.
    - apply eqb_spec in Exy. subst y. destruct (eqb x z) eqn:Exz; [now apply IH with b | assumption].
    - destruct (eqb y z) eqn:Eyz.
      + apply eqb_spec in Eyz. subst z. now rewrite Exy.
      + destruct (eqb x z) eqn:Exz.
        * apply eqb_spec in Exz. subst z. assert (x = y) by now apply le_antisym.
          apply eqb_spec in H. congruence.
        * now apply le_trans with y.
  Qed.
End Lex.

Lemma Nleb_total : forall a b, (a <=? b) = true \/ (b <=? a) = true.
Proof. intros a b. rewrite !N.leb_le. lia. Qed.
Lemma Nleb_trans : forall a b c, (a <=? b) = true -> (b <=? c) = true -> (a <=? c) = true.
Proof. intros a b c. rewrite !N.leb_le. lia. Qed.
Lemma Nleb_antisym : forall a b, (a <=? b) = true -> (b <=? a) = true -> a = b.
Proof. intros a b. rewrite !N.leb_le. lia. Qed.

Lemma ble_total : forall a b, ble a b = true \/ ble b a = true.
Proof. apply lex_total; [apply N.eqb_eq | apply Nleb_total]. Qed.
Lemma ble_antisym : forall a b, ble a b = true -> ble b a = true -> a = b.
Proof. apply lex_antisym; [apply N.eqb_eq | apply Nleb_antisym]. Qed.
Lemma ble_trans : forall a b c, ble a b = true -> ble b c = true -> ble a c = true.
Proof. apply lex_trans; [apply N.eqb_eq | apply Nleb_trans | apply Nleb_antisym]. Qed.

Lemma pair_le_total : forall p q, pair_le p q = true \/ pair_le q p = true.
Proof. intros p q. apply lex_total; [apply beq_spec | apply ble_total]. Qed.
Lemma pair_le_trans : forall p q r, pair_le p q = true -> pair_le q r = true -> pair_le p r = true.
Proof.
  intros p q r. apply lex_trans; [apply beq_spec | apply ble_trans | apply ble_antisym].
Qed.
Lemma pair_le_antisym : forall p q, pair_le p q = true -> pair_le q p = true -> p = q.
Proof.
  intros [k v] [k' v'] H1 H2.
  assert (E : [k; v] = [k'; v']).
  { apply (lex_antisym _ ble beq); [apply beq_spec | apply ble_antisym | exact H1 | exact H2]. }
  now inversion E.
Qed.

(** ---- insertion sort yields the same list for every permutation of its input ---- *)
Section Sort.
  Variable A : Type.
  Variable le : A -> A -> bool.
  Hypothesis le_total : forall a b, le a b = true \/ le b a = true.
  Hypothesis le_trans : forall a b c, le a b = true -> le b c = true -> le a c = true.
  Hypothesis le_antisym : forall a b, le a b = true -> le b a = true -> a = b.

  Let R (a b : A) : Prop := le a b = true.

  Lemma insert_perm : forall x l, Permutation (insert_sorted le x l) (x :: l).
  Proof.
    intros x. induction l as [|y l IH]; cbn [insert_sorted]; [reflexivity|].
    destruct (le x y); [reflexivity|].
    etransitivity; [apply perm_skip, IH | apply perm_swap].
  Qed.

  Lemma sort_perm : forall l, Permutation (sort le l) l.
  Proof.
    induction l as [|x l IH]; cbn; [reflexivity|].
    etransitivity; [apply insert_perm | now apply perm_skip].
  Qed.

  Lemma insert_sorted_ok : forall x l, StronglySorted R l -> StronglySorted R (insert_sorted le x l).
  Proof.
    intros x. induction l as [|y l IH]; intros Hs; cbn [insert_sorted].
    - constructor; constructor.
    - inversion Hs as [|? ? Hs' Hall]; subst. destruct (le x y) eqn:E.
      + constructor; [assumption|]. constructor; [exact E|].
        eapply Forall_impl; [|exact Hall]. intros z Hz. unfold R in *. now apply le_trans with y.
      + constructor; [now apply IH|].
        assert (Hyx : R y x). { destruct (le_total x y) as [H|H]; [congruence | exact H]. }
        eapply Permutation_Forall; [symmetry; apply insert_perm|]. now constructor.
  Qed.

  Lemma sort_sorted : forall l, StronglySorted R (sort le l).
  Proof.
    induction l as [|x l IH]; cbn; [constructor | now apply insert_sorted_ok].
  Qed.

  Lemma sorted_perm_eq : forall l l',
      StronglySorted R l -> StronglySorted R l' -> Permutation l l' -> l = l'.
  Proof.
    induction l as [|a l IH]; intros l' Hs Hs' Hp.
    - now apply Permutation_nil in Hp.
    - destruct l' as [|b l']; [now apply Permutation_sym, Permutation_nil in Hp|].
      inversion Hs as [|? ? Hs1 Ha]; subst. inversion Hs' as [|? ? Hs1' Hb]; subst.
      assert (Eab : a = b).
      { assert (Hin : In a (b :: l')) by (eapply Permutation_in; [exact Hp | now left]).
        assert (Hin' : In b (a :: l)) by (eapply Permutation_in; [symmetry; exact Hp | now left]).
        destruct Hin as [->|Hin]; [reflexivity|]. destruct Hin' as [->|Hin']; [reflexivity|].
        rewrite Forall_forall in Ha, Hb. apply le_antisym; [now apply Ha | now apply Hb]. }
      subst b. f_equal. apply IH; [assumption | assumption | now apply Permutation_cons_inv with a].
  Qed.

  Lemma sort_perm_eq : forall l l', Permutation l l' -> sort le l = sort le l'.
  Proof.
    intros l l' Hp. apply sorted_perm_eq; [apply sort_sorted | apply sort_sorted|].
    etransitivity; [apply sort_perm|]. etransitivity; [exact Hp|]. symmetry. apply sort_perm.
  Qed.
End Sort.

Lemma sort_ble_perm : forall l l', Permutation l l' -> sort ble l = sort ble l'.
Proof. apply sort_perm_eq; [apply ble_total | apply ble_trans | apply ble_antisym]. Qed.
Lemma sort_pair_perm : forall l l', Permutation l l' -> sort pair_le l = sort pair_le l'.
Proof. apply sort_perm_eq; [apply pair_le_total | apply pair_le_trans | apply pair_le_antisym]. Qed.

Lemma is_nil_perm : forall A (l l' : list A), Permutation l l' -> is_nil l = is_nil l'.
Proof.
  intros A l l' H. destruct l, l'; cbn; try reflexivity.
  - now apply Permutation_nil in H.
  - now apply Permutation_sym, Permutation_nil in H.
Qed.
